SPECIFICATION Spec
CONSTANTS
  Chains <- QChains
  NX = 4
  CondTab <- MCCondTab
  BaseTab <- MCBaseTab
  MaxN = 2
  MaxLen = 3
  IterArgs = {0, 2}
  StoreArgs = {1}
VIEW View
INVARIANT TypeOK
INVARIANT OnlyLagrangeStores
INVARIANT ZeroOnFeasible
INVARIANT PositiveWhenViolated
INVARIANT BetaNonNegative
INVARIANT LagIneqFeasibleNotPenalised
INVARIANT StackedAdd
INVARIANT ZeroDivisionInfinite
INVARIANT ErrorIsViolation
PROPERTY ClearResets
PROPERTY IterAdvances
PROPERTY StoreFootprint
PROPERTY ObserversPure
INVARIANT Emit
