SPECIFICATION Spec
CONSTANTS
  Chains <- QLChains
  NX = 4
  CondTab <- MCCondTab
  CondDen <- MCCondDen
  BaseTab <- MCBaseTab
  MaxN = 12
  IncDom = {10, 11}
  MaxLen = 13
  IterArgs = {10}
  StoreArgs = {11}
VIEW View
INVARIANT TypeOK
INVARIANT OnlyLagrangeStores
INVARIANT ZeroOnFeasible
INVARIANT PositiveWhenViolated
INVARIANT BetaNonNegative
INVARIANT LagIneqFeasibleNotPenalised
INVARIANT StackedAdd
INVARIANT ZeroDivisionInfinite
INVARIANT ErrorIsViolation
INVARIANT Representable
PROPERTY ClearResets
PROPERTY IterAdvances
PROPERTY StoreFootprint
PROPERTY ObserversPure
INVARIANT Emit
