SPECIFICATION Spec
CONSTANTS
  Chains <- TBChains
  NX = 4
  CondTab <- MCCondTab
  CondDen <- MCCondDen
  BaseTab <- MCBaseTab
  MaxN = 3
  IncDom = {0, 1, 2}
  MaxLen = 4
  IterArgs = {0, 3}
  StoreArgs = {0, 2}
VIEW View
INVARIANT TypeOK
INVARIANT OnlyLagrangeStores
INVARIANT ZeroOnFeasible
INVARIANT PositiveWhenViolated
INVARIANT BetaNonNegative
INVARIANT LagIneqFeasibleNotPenalised
INVARIANT StackedAdd
INVARIANT ZeroDivisionInfinite
INVARIANT ErrorIsViolation
INVARIANT Representable
PROPERTY ClearResets
PROPERTY IterAdvances
PROPERTY StoreFootprint
PROPERTY ObserversPure
INVARIANT Emit
