SPECIFICATION Spec
CONSTANTS
  Chains <- QBChains
  NX = 4
  CondTab <- MCCondTab
  CondDen <- MCCondDen
  BaseTab <- MCBaseTab
  MaxN = 2
  IncDom = {0, 1}
  MaxLen = 3
  IterArgs = {0, 2}
  StoreArgs = {0}
VIEW View
INVARIANT TypeOK
INVARIANT OnlyLagrangeStores
INVARIANT ZeroOnFeasible
INVARIANT PositiveWhenViolated
INVARIANT BetaNonNegative
INVARIANT LagIneqFeasibleNotPenalised
INVARIANT StackedAdd
INVARIANT ZeroDivisionInfinite
INVARIANT ErrorIsViolation
INVARIANT Representable
PROPERTY ClearResets
PROPERTY IterAdvances
PROPERTY StoreFootprint
PROPERTY ObserversPure
INVARIANT Emit
