---------------------------- MODULE MC_Penalty ----------------------------
(***************************************************************************)
(* Model-checking instances of Penalty.tla: the condition / base tables,   *)
(* and the catalogues of chains for the quick and the thorough tier.       *)
(*                                                                         *)
(* Probe points 1..4.  Every condition table holds a strictly feasible     *)
(* point, a boundary point, violated points and (tables 1,3,5,10) a point  *)
(* where the condition divides by zero; tables 4 and 8 are non-negative    *)
(* everywhere (the harness builds those chains through                     *)
(* constraints.as_penalty, whose condition is a norm).                     *)
(*                                                                         *)
(* Three families of catalogues (each with a quick and a thorough cfg):    *)
(*   QChains / TChains    the state graph proper: all types, k, h, nesting *)
(*                        depth 1..3 on integer conditions                 *)
(*   QBChains / TBChains  boundary values of every argument: conditions in *)
(*                        halves and thirds, k = 0, h = 0, k and h below 1,*)
(*                        the types' default k, h = 10, conditions and     *)
(*                        multipliers scaled by 2^-1074 .. 2^996, explicit *)
(*                        index 0 for store()                              *)
(*   QLChains / TLChains  multi-digit iteration counters (up to 12 / 13)   *)
(*                        and stored lists of that length                  *)
(***************************************************************************)
EXTENDS Penalty

(*                 1                  2                3                 4               5 (halves)         *)
MCCondTab == << <<-2, 0, 1, ZD>>, <<0, 2, -1, 1>>, <<1, ZD, 0, -2>>, <<0, 2, 1, 0>>, <<-3, 0, 1, ZD>>,
(*                 6 (halves)        7 (thirds)       8 (halves, >= 0)  9                10                  *)
                <<1, 3, -1, 0>>, <<-1, 0, 2, 1>>, <<0, 3, 1, 0>>, <<-1, 0, 1, 2>>, <<1, ZD, 0, -1>> >>
MCCondDen == <<1, 1, 1, 1, 2, 2, 3, 2, 1, 1>>
MCBaseTab == << <<0, 0, 0, 0>>, <<3, 0, 7, 1>>, <<-5, 2, 0, 4>> >>

BIG == NoBound

(* a level: type, k = k/kd, h = h/hd, condition table *)
L6(ty, k, kd, h, hd, c) == [ty |-> ty, k |-> k, kd |-> kd, h |-> h, hd |-> hd, c |-> c]
L(ty, k, h, c) == L6(ty, k, 1, h, 1, c)
(* a chain: levels, base table, bounds on the stored lists, scale exponents *)
Ch6(lv, b, ms, mz, se, ke) == [lv |-> lv, b |-> b, ms |-> ms, mz |-> mz, se |-> se, ke |-> ke]
Ch(lv, b) == Ch6(lv, b, 3, BIG, 0, 0)
ChM(lv, b, ms) == Ch6(lv, b, ms, BIG, 0, 0)
ChB(lv, b) == Ch6(lv, b, 2, BIG, 0, 0)       \* the boundary catalogues: stored lists of total length <= 2
Shift(t, s) == ((t + s - 1) % 9) + 1

(* ---- quick ---- *)
QKH == {<<1, 2>>, <<2, 5>>, <<100, 1>>}
QD1 ==   {Ch(<<L(t, kh[1], kh[2], cb[1])>>, cb[2]) : t \in 1..9, kh \in QKH, cb \in {<<1, 2>>, <<2, 1>>}}
    \cup {Ch(<<L(t, INF, 5, 1)>>, 2) : t \in {UE, UI}}                 \* the uniform types' default k=inf
    \cup {Ch(<<L(t, 2, 5, 4)>>, 1) : t \in 1..9}                       \* as_penalty
QD2 ==   {Ch(<<L(t, 1, 2, 1), L(Shift(t, s), 2, 5, 2)>>, 2) : t \in 1..9, s \in {1, 4}}
    \cup {Ch(<<L(LGE, 1, 2, 1), L(LGI, 2, 5, 2)>>, 2)}
    \* every type next to a history-holding (Lagrange) type, in both nesting orders: clear/iter/store must reach it
    \cup {Ch(<<L(t, 2, 2, 2), L(g, 1, 5, 1)>>, 1) : t \in 1..9, g \in {LGE, LGI}}
    \cup {Ch(<<L(g, 1, 5, 1), L(t, 2, 2, 2)>>, 1) : t \in 1..9, g \in {LGE, LGI}}
QD3 ==   {Ch(<<L(QE, 1, 2, 1), L(LGI, 2, 5, 2), L(LI, 100, 1, 3)>>, 2),
          Ch(<<L(LGE, 2, 5, 3), L(BI, 1, 2, 2), L(UE, 100, 1, 1)>>, 3),
          Ch(<<L(UI, 100, 1, 2), L(QI, 2, 5, 3), L(LE, 1, 2, 1)>>, 1)}
QChains == QD1 \cup QD2 \cup QD3

(* ---- thorough ---- *)
TKH == {1, 2, 100} \X {1, 2, 5}
TCB == {<<1, 2>>, <<2, 1>>, <<3, 3>>}
TD1 ==   {ChM(<<L(t, kh[1], kh[2], cb[1])>>, cb[2], 4) : t \in 1..9, kh \in TKH, cb \in TCB}
    \cup {ChM(<<L(t, INF, h, c)>>, 3, 4) : t \in {UE, UI}, h \in {1, 5}, c \in 1..3}
    \cup {ChM(<<L(t, kh[1], kh[2], 4)>>, 1, 4) : t \in 1..9, kh \in QKH}
TD2 ==   {ChM(<<L(t1, 1, 2, 1), L(t2, 2, 5, 2)>>, 2, 3) : t1 \in 1..9, t2 \in 1..9}
    \cup {ChM(<<L(t, 100, 5, 3), L(Shift(t, 2), 2, 1, 1)>>, 3, 3) : t \in 1..9}
TD3 ==   QD3
    \cup {ChM(<<L(t, 2, 2, 2), L(Shift(t, 3), 1, 5, 3), L(Shift(t, 7), 100, 2, 1)>>, 2, 3) : t \in 1..9}
    \cup {ChM(<<L(LGI, 1, 2, 1), L(QE, 2, 5, 2), L(LGE, 2, 2, 3)>>, 3, 2),
          ChM(<<L(LGE, 1, 5, 2), L(LGE, 2, 2, 1), L(LGI, 1, 2, 3)>>, 2, 2)}
TChains == TD1 \cup TD2 \cup TD3

(* ---- boundary values (quick) ---- *)
NoDiv == {QE, LE, UE, UI, QI, LI, LGE}       \* the types that never divide by k or pow(h,n): k = 0, h = 0 legal
Lin   == {LE, LI, UE, UI}                    \* degree <= 1 in the condition: the extreme scales are representable
(* conditions in halves (with a ZD point / without) and thirds; as_penalty on halves *)
QB1 ==   {ChB(<<L(t, 2, 5, c)>>, 2) : t \in 1..9, c \in {5, 6}}
    \cup {ChB(<<L(t, 3, 2, 7)>>, 1) : t \in 1..9}
    \cup {ChB(<<L(t, 2, 5, 8)>>, 1) : t \in {QE, LE, QI, LGE}}
(* k = 0 and h = 0 (falsy, and switch the penalty off), k and h below one (the penalty FALLS with the      *)
(* iteration), the Lagrange types' default k = 20, the other types' default k = 100 with the default h = 5, *)
(* a two-digit h, the uniform default k = inf with halves                                                   *)
QB2 ==   {ChB(<<L(t, 0, 5, 2)>>, 2) : t \in NoDiv}
    \cup {ChB(<<L(t, 2, 0, 2)>>, 2) : t \in NoDiv}
    \cup {ChB(<<L6(t, 1, 2, 1, 2, 1)>>, 2) : t \in 1..9}
    \cup {ChB(<<L6(t, 3, 4, 3, 2, 6)>>, 3) : t \in {QE, UI, BI, LGI, LGE}}
    \cup {ChB(<<L(t, 20, 5, 1)>>, 2) : t \in {LGI, LGE}}
    \cup {ChB(<<L(t, 100, 5, 3)>>, 3) : t \in {QE, LE, BI, QI, LI}}
    \cup {ChB(<<L(t, 1, 10, 2)>>, 2) : t \in {LE, QI, LGI}}
    \cup {ChB(<<L(t, INF, 5, 6)>>, 2) : t \in {UE, UI}}
(* conditions that are tiny but not zero (2^-40 ~ 1e-12, 2^-500 ~ 3e-151) or huge (2^40, 2^500 ~ 3e150): *)
(* base function 0, so every value is representable                                                       *)
QB3 ==   {Ch6(<<L(t, 2, 5, 9)>>, 1, 2, BIG, se, 0) : t \in 1..9, se \in {-40, 500}}
    \cup {Ch6(<<L(t, 100, 2, 10)>>, 1, 2, BIG, se, 0) : t \in {QE, UE, BI, LI, LGI, LGE}, se \in {-500, 40}}
    \cup {Ch6(<<L(t, 2, 5, 9)>>, 1, 2, BIG, se, 0) : t \in Lin, se \in {-1074, 996}}        \* 5e-324, ~1e300
(* multipliers that are huge (2 * 2^33 ~ 1.7e10, 2^990 ~ 1e298) or tiny (2^-1000) *)
QB4 ==   {Ch6(<<L(t, 2, 5, 2)>>, 1, 2, BIG, 0, 33) : t \in 1..9}
    \cup {Ch6(<<L(t, 1, 2, 1)>>, 1, 2, BIG, 0, ke) : t \in {QE, UI, BI, LI, LGI, LGE}, ke \in {990, -1000}}
    \cup {Ch6(<<L(t, 2, 5, 9)>>, 1, 2, BIG, -40, 33) : t \in {QE, LE, LGI}}
(* stacked: fractions next to a history-holding type; k = 0 outside / inside; two scaled levels of one degree *)
QB5 ==   {ChB(<<L6(QE, 1, 2, 2, 1, 5), L(LGI, 2, 5, 6)>>, 2),
          ChB(<<L(LGE, 2, 5, 6), L6(LI, 1, 1, 1, 2, 5)>>, 3),
          ChB(<<L(QE, 0, 5, 1), L(LGE, 1, 2, 2)>>, 2),
          ChB(<<L(LGI, 1, 2, 2), L(UE, 2, 0, 1)>>, 2),
          Ch6(<<L(QI, 2, 5, 9), L(LGE, 1, 2, 10)>>, 1, 2, BIG, -500, 0),
          Ch6(<<L(UI, 2, 5, 9), L(UE, 1, 2, 10)>>, 2, 2, BIG, -1074, 0)}
QBChains == QB1 \cup QB2 \cup QB3 \cup QB4 \cup QB5

(* ---- boundary values (thorough) ---- *)
TB1 ==   {ChM(<<L(t, kh[1], kh[2], c)>>, 2, 3) : t \in 1..9, kh \in {<<2, 5>>, <<3, 2>>}, c \in {5, 6, 7}}
    \cup {ChM(<<L(t, 2, 5, 8)>>, 1, 3) : t \in 1..9}
TB2 ==   {ChM(<<L(t, 0, h, c)>>, 2, 3) : t \in NoDiv, h \in {0, 5}, c \in {2, 6}}
    \cup {ChM(<<L(t, k, 0, c)>>, 2, 3) : t \in NoDiv, k \in {2, 100}, c \in {2, 6}}
    \cup {ChM(<<L6(t, k[1], k[2], h[1], h[2], c)>>, 2, 3) : t \in 1..9, k \in {<<1, 2>>, <<3, 4>>}, h \in {<<1, 2>>, <<3, 2>>}, c \in {1, 6}}
    \cup {ChM(<<L(t, 20, 5, c)>>, 2, 3) : t \in {LGI, LGE}, c \in {1, 6}}
    \cup {ChM(<<L(t, 100, 5, c)>>, 3, 3) : t \in {QE, LE, BI, QI, LI}, c \in {3, 5}}
    \cup {ChM(<<L(t, 1, 10, 2)>>, 2, 3) : t \in 1..9}
    \cup {ChM(<<L(t, INF, 5, c)>>, 2, 3) : t \in {UE, UI}, c \in {5, 6, 7}}
TB3 ==   {Ch6(<<L(t, kh[1], kh[2], c)>>, 1, 3, BIG, se, 0) : t \in 1..9, kh \in {<<2, 5>>, <<100, 2>>}, c \in {9, 10}, se \in {-500, -40, 40, 500}}
    \cup {Ch6(<<L(t, 2, 5, c)>>, 1, 3, BIG, se, 0) : t \in Lin, c \in {9, 10}, se \in {-1074, -1022, 996}}
TB4 ==   {Ch6(<<L(t, 2, 5, c)>>, 1, 3, BIG, 0, ke) : t \in 1..9, c \in {1, 2}, ke \in {33, 990, -1000}}
    \cup {Ch6(<<L(t, 2, 5, 9)>>, 1, 3, BIG, se, 33) : t \in 1..9, se \in {-40, 40}}
TB5 ==   QB5
    \cup {ChM(<<L6(t, 1, 2, 2, 1, 5), L(g, 2, 5, 6)>>, 2, 2) : t \in 1..9, g \in {LGI, LGE}}
    \cup {ChM(<<L(g, 2, 5, 6), L6(t, 1, 1, 1, 2, 5)>>, 3, 2) : t \in 1..9, g \in {LGI, LGE}}
    \cup {ChM(<<L(t, 0, 5, 2), L(LGE, 1, 2, 2)>>, 2, 2) : t \in NoDiv}
    \* two scaled levels of the same degree in the condition (their sum is representable)
    \cup {Ch6(<<L(tt[1], 2, 5, 9), L(tt[2], 1, 2, 10)>>, 1, 2, BIG, -500, 0) :
             tt \in {<<QE, QI>>, <<QI, LGE>>, <<LGI, QE>>, <<LGE, LGI>>, <<LE, LI>>}}
TBChains == TB1 \cup TB2 \cup TB3 \cup TB4 \cup TB5

(* ---- multi-digit counters ---- *)
(* at most two (thorough: one) non-zero stored multipliers (mz): the lists grow to the length of the counter *)
QLChains ==   {Ch6(<<L(t, 1, 2, 2)>>, 2, 13, 2, 0, 0) : t \in 1..7}
         \cup {Ch6(<<L6(t, 3, 1, 1, 2, 6)>>, 3, 13, 2, 0, 0) : t \in {QE, UI, BI, LI}}
         \cup {Ch6(<<L(LGE, 1, 2, 1)>>, 2, 13, 2, 0, 0), Ch6(<<L(LGI, 1, 2, 2)>>, 2, 13, 2, 0, 0),
               Ch6(<<L(LE, 2, 3, 2), L(QI, 1, 2, 1)>>, 3, 13, 2, 0, 0)}
TLChains ==   {Ch6(<<L(t, kh[1], kh[2], 2)>>, 2, 14, 1, 0, 0) : t \in 1..7, kh \in {<<1, 2>>, <<2, 3>>}}
         \cup {Ch6(<<L6(t, 3, 1, 1, 2, 6)>>, 3, 14, 1, 0, 0) : t \in 1..9}
         \cup {Ch6(<<L(g, 1, 2, c)>>, 2, 14, 1, 0, 0) : g \in {LGE, LGI}, c \in {1, 2}}
         \cup {Ch6(<<L(LE, 2, 3, 2), L(QI, 1, 2, 1)>>, 3, 14, 1, 0, 0),
               Ch6(<<L(QE, 1, 2, 2), L(LGE, 1, 2, 6)>>, 2, 14, 1, 0, 0)}
=============================================================================
