---------------------------- MODULE MC_Penalty ----------------------------
(***************************************************************************)
(* Model-checking instances of Penalty.tla: the condition / base tables,   *)
(* and the catalogues of chains for the quick and the thorough tier.       *)
(*                                                                         *)
(* Probe points 1..4.  Every condition table holds a strictly feasible     *)
(* point, a boundary point, violated points and (tables 1,3) a point where *)
(* the condition divides by zero; table 4 is non-negative everywhere (the  *)
(* harness builds those chains through constraints.as_penalty, whose       *)
(* condition is a norm).                                                   *)
(***************************************************************************)
EXTENDS Penalty

MCCondTab == << <<-2, 0, 1, ZD>>, <<0, 2, -1, 1>>, <<1, ZD, 0, -2>>, <<0, 2, 1, 0>> >>
MCBaseTab == << <<0, 0, 0, 0>>, <<3, 0, 7, 1>>, <<-5, 2, 0, 4>> >>

L(ty, k, h, c) == [ty |-> ty, k |-> k, h |-> h, c |-> c]
Ch(lv, b) == [lv |-> lv, b |-> b, ms |-> 3]
ChM(lv, b, ms) == [lv |-> lv, b |-> b, ms |-> ms]
Shift(t, s) == ((t + s - 1) % 9) + 1

(* ---- quick ---- *)
QKH == {<<1, 2>>, <<2, 5>>, <<100, 1>>}
QD1 ==   {Ch(<<L(t, kh[1], kh[2], cb[1])>>, cb[2]) : t \in 1..9, kh \in QKH, cb \in {<<1, 2>>, <<2, 1>>}}
    \cup {Ch(<<L(t, INF, 5, 1)>>, 2) : t \in {UE, UI}}                 \* the uniform types' default k=inf
    \cup {Ch(<<L(t, 2, 5, 4)>>, 1) : t \in 1..9}                       \* as_penalty
QD2 ==   {Ch(<<L(t, 1, 2, 1), L(Shift(t, s), 2, 5, 2)>>, 2) : t \in 1..9, s \in {1, 4}}
    \cup {Ch(<<L(LGE, 1, 2, 1), L(LGI, 2, 5, 2)>>, 2)}
    \* every type next to a history-holding (Lagrange) type, in both nesting orders: clear/iter/store must reach it
    \cup {Ch(<<L(t, 2, 2, 2), L(g, 1, 5, 1)>>, 1) : t \in 1..9, g \in {LGE, LGI}}
    \cup {Ch(<<L(g, 1, 5, 1), L(t, 2, 2, 2)>>, 1) : t \in 1..9, g \in {LGE, LGI}}
QD3 ==   {Ch(<<L(QE, 1, 2, 1), L(LGI, 2, 5, 2), L(LI, 100, 1, 3)>>, 2),
          Ch(<<L(LGE, 2, 5, 3), L(BI, 1, 2, 2), L(UE, 100, 1, 1)>>, 3),
          Ch(<<L(UI, 100, 1, 2), L(QI, 2, 5, 3), L(LE, 1, 2, 1)>>, 1)}
QChains == QD1 \cup QD2 \cup QD3

(* ---- thorough ---- *)
TKH == {1, 2, 100} \X {1, 2, 5}
TCB == {<<1, 2>>, <<2, 1>>, <<3, 3>>}
TD1 ==   {ChM(<<L(t, kh[1], kh[2], cb[1])>>, cb[2], 4) : t \in 1..9, kh \in TKH, cb \in TCB}
    \cup {ChM(<<L(t, INF, h, c)>>, 3, 4) : t \in {UE, UI}, h \in {1, 5}, c \in 1..3}
    \cup {ChM(<<L(t, kh[1], kh[2], 4)>>, 1, 4) : t \in 1..9, kh \in QKH}
TD2 ==   {ChM(<<L(t1, 1, 2, 1), L(t2, 2, 5, 2)>>, 2, 3) : t1 \in 1..9, t2 \in 1..9}
    \cup {ChM(<<L(t, 100, 5, 3), L(Shift(t, 2), 2, 1, 1)>>, 3, 3) : t \in 1..9}
TD3 ==   QD3
    \cup {ChM(<<L(t, 2, 2, 2), L(Shift(t, 3), 1, 5, 3), L(Shift(t, 7), 100, 2, 1)>>, 2, 3) : t \in 1..9}
    \cup {ChM(<<L(LGI, 1, 2, 1), L(QE, 2, 5, 2), L(LGE, 2, 2, 3)>>, 3, 2),
          ChM(<<L(LGE, 1, 5, 2), L(LGE, 2, 2, 1), L(LGI, 1, 2, 3)>>, 2, 2)}
TChains == TD1 \cup TD2 \cup TD3
=============================================================================
