SPECIFICATION Spec
CONSTANTS
  Chains <- TLChains
  NX = 4
  CondTab <- MCCondTab
  CondDen <- MCCondDen
  BaseTab <- MCBaseTab
  MaxN = 13
  IncDom = {0, 10, 11, 12}
  MaxLen = 14
  IterArgs = {10, 12}
  StoreArgs = {11}
VIEW View
INVARIANT TypeOK
INVARIANT OnlyLagrangeStores
INVARIANT ZeroOnFeasible
INVARIANT PositiveWhenViolated
INVARIANT BetaNonNegative
INVARIANT LagIneqFeasibleNotPenalised
INVARIANT StackedAdd
INVARIANT ZeroDivisionInfinite
INVARIANT ErrorIsViolation
INVARIANT Representable
PROPERTY ClearResets
PROPERTY IterAdvances
PROPERTY StoreFootprint
PROPERTY ObserversPure
INVARIANT Emit
