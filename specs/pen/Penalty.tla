------------------------------ MODULE Penalty ------------------------------
(***************************************************************************)
(* S8 -- the penalty closure family of mystic.penalty as a state machine.  *)
(*                                                                         *)
(* A *chain* is what the user gets by stacking penalty decorators:         *)
(*     F[1] = ptype1(cond1,k1,h1)( F[2] ),  F[2] = ptype2(...)( F[3] ), .. *)
(*     F[D] = ptypeD(...)( base )          base = an ordinary function     *)
(* Every F[j] is a function object carrying error/iter/iteration/store/    *)
(* stored/clear, and hidden state.  The state of the machine is            *)
(*   cid      which chain of the catalogue ChainSeq is explored (constant  *)
(*            along a behaviour: types, k, h, conditions never change)     *)
(*   n[l]     the iteration counter _n[0] of level l (1 = outermost)       *)
(*   ys[l]    the stored multiplier list _y of level l                     *)
(*   last     the last call made and what it returned (ghost; hidden by    *)
(*            the VIEW of the model-checking configurations)               *)
(* The nesting chain is the sequence ChainSeq[cid].lv; level l decorates   *)
(* level l+1 and level D decorates the base function, which has none of    *)
(* the attributes (hasattr(_f[0],'iter') is false: propagation stops).     *)
(*                                                                         *)
(* One action per public call, addressed to any level j of the chain (the  *)
(* user holds every F[j]):  Iter(j,i|None), Clear(j), Store(j,x,i|None),   *)
(* Eval(j,x) = F[j](x), Error(j,x) = F[j].error(x).  Calls propagate down  *)
(* the chain by the recursive operators IterFrom/ClearFrom/StoreFrom/      *)
(* EvalFrom/Err2From, transcribed from penalty.py.                         *)
(*                                                                         *)
(* Numbers.  TLC has 32-bit integers only, the implementation has floats:  *)
(*  * a condition c is a table on the probe points 1..NX of integers or ZD *)
(*    (the condition raises ZeroDivisionError there); the condition's real *)
(*    value at x is  CondTab[c][x] / CondDen[c] * 2^se   with se the scale *)
(*    exponent of the chain (0: plain; -500, -40: tiny but not zero; 40,   *)
(*    500: huge).  Halves, thirds (not a binary fraction) etc. are tables  *)
(*    with CondDen = 2, 3.                                                 *)
(*  * the multiplier k of a level is  k/kd * 2^ke  (k = INF: the uniform   *)
(*    types' default, an infinite penalty; k = 0 is legal for the types    *)
(*    that do not divide by k), the growth factor is h/hd (h = 0 and       *)
(*    h/hd < 1 included).  ke is the chain's multiplier exponent.          *)
(*  * a *value* (what a penalised function returns, or error(x)^2) is      *)
(*       [t, n, d, lg, e]                                                  *)
(*       t = "fin":  ( n/d - SUM_{<<a,p,q>> in lg} log(a)*p/q ) * 2^e      *)
(*       t = "inf" / "ninf" / "nan":  IEEE +inf, -inf, NaN                 *)
(*       t = "mix":  a sum of non-zero finite terms with different binary  *)
(*                   exponents (not rendered; the catalogues avoid it)     *)
(*    so rationals are exact, the logarithm of the barrier type stays      *)
(*    symbolic and the powers of two never enter TLC's arithmetic: every   *)
(*    documented expression is homogeneous in the condition (degree 0, 1   *)
(*    or 2) and linear in k (barrier: 1/k).                                *)
(*  * stored multipliers are kept as the integer numerator of the stored   *)
(*    condition value (same denominator and scale as the level's           *)
(*    condition) or INF (store() at a ZD point records inf).               *)
(***************************************************************************)
EXTENDS Integers, Sequences, FiniteSets, TLC, Json, SequencesExt, IOUtils

CONSTANTS
  Chains,      \* set of chains: [lv |-> <<[ty,k,kd,h,hd,c], ...>> (outermost first), b |-> base table,
               \*                 ms |-> bound on the total length of the chain's stored lists,
               \*                 mz |-> bound on the number of non-zero stored entries of the chain,
               \*                 se |-> scale exponent of the conditions, ke |-> exponent of the multipliers]
  NX,          \* probe points are 1..NX
  CondTab,     \* CondTab[c][x]  numerator of condition c at probe x: an integer or ZD
  CondDen,     \* CondDen[c]     its denominator (> 0)
  BaseTab,     \* BaseTab[b][x]  value of undecorated function b at probe x: an integer
  MaxN,        \* bound on the iteration counters
  IncDom,      \* the counter values from which iter() (the increment) is explored: all of 0..MaxN-1, or a window
               \* (the long catalogues jump to a two-digit counter by iter(10) and count on from there)
  MaxLen,      \* bound on the length of one stored list
  IterArgs,    \* the explicit arguments i of iter(i)
  StoreArgs    \* the explicit arguments i of store(x, i)

VARIABLES cid, n, ys, last
vars == <<cid, n, ys, last>>
View == <<cid, n, ys>>

INF  == 1000000        \* +inf as a stored multiplier / as k
ZD   == 999999         \* "condition(x) raises ZeroDivisionError"
None == -1             \* the default argument i=None
NoBound == 99          \* mz of a chain whose number of non-zero stored entries is not bounded

(* the nine types, in the order of penalty.py *)
TypeName == << "quadratic_equality", "linear_equality", "uniform_equality", "uniform_inequality",
               "barrier_inequality", "quadratic_inequality", "linear_inequality",
               "lagrange_inequality", "lagrange_equality" >>
QE == 1  LE == 2  UE == 3  UI == 4  BI == 5  QI == 6  LI == 7  LGI == 8  LGE == 9
IsEq(t)  == t \in {QE, LE, UE, LGE}      \* satisfied iff f(x) == 0   (others: f(x) <= 0)
IsLag(t) == t \in {LGI, LGE}             \* the types whose store() records a multiplier
(* degree of homogeneity of the documented expression in the condition value *)
Deg(t) == IF t \in {UE, UI} THEN 0 ELSE IF t \in {LE, LI} THEN 1 ELSE 2

(* the catalogue as a sequence; cid indexes it.  For parallel runs the harness starts NParts TLC    *)
(* processes (environment variables); process MyPart explores the chains c with PartOf(c) = MyPart. *)
(* The sequence is ordered by a rough estimate of the size of a chain's state graph (3^depth        *)
(* counter vectors, times the stored lists of its Lagrange levels, times the cost of a comparison)  *)
(* and dealt out greedily (each chain to the part that is lightest so far), so the parts are of    *)
(* similar size and part 0 is the heaviest.  This concerns only how the work is cut up, not what is *)
(* explored.                                                                                        *)
NParts == IF "C15_NPARTS" \in DOMAIN IOEnv THEN atoi(IOEnv.C15_NPARTS) ELSE 1
MyPart == IF "C15_PART" \in DOMAIN IOEnv THEN atoi(IOEnv.C15_PART) ELSE 0
RECURSIVE Pow3(_)
Pow3(e) == IF e = 0 THEN 1 ELSE 3 * Pow3(e - 1)
Weight(ch) == LET d  == Len(ch.lv)
                  nl == Cardinality({l \in 1..d : ch.lv[l].ty \in {8, 9}})
              IN Pow3(d) * d * d * (IF nl = 0 THEN 1 ELSE IF nl = 1 THEN 85 ELSE 169)
ChainSeq == SortSeq(SetToSeq(Chains), LAMBDA a, b : Weight(a) > Weight(b))
RECURSIVE Deal(_, _, _)      \* heaviest chain first, each to the part that is lightest so far
Deal(r, loads, acc) ==
  IF r > Len(ChainSeq) THEN acc
  ELSE LET p == CHOOSE q \in 0..(NParts - 1) :
                   \A q2 \in 0..(NParts - 1) : loads[q] < loads[q2] \/ (loads[q] = loads[q2] /\ q <= q2)
       IN Deal(r + 1, [loads EXCEPT ![p] = @ + Weight(ChainSeq[r])], Append(acc, p))
PartSeq == Deal(1, [q \in 0..(NParts - 1) |-> 0], << >>)
PartOf(c) == PartSeq[c]

-----------------------------------------------------------------------------
(* arithmetic: integers, and rationals as normalised pairs <<num, den>> with den > 0 *)
Abs(a)    == IF a < 0 THEN -a ELSE a
Max2(a, b) == IF a >= b THEN a ELSE b
RECURSIVE Gcd(_, _)
Gcd(a, b) == IF b = 0 THEN a ELSE Gcd(b, a % b)
RECURSIVE Pow(_, _)
Pow(b, e) == IF e = 0 THEN 1 ELSE b * Pow(b, e - 1)          \* Pow(0,0) = 1 like pow(0,0)

(* (the b = 1 branches only spare TLC the gcd on the integer catalogues) *)
Q(a, b)    == IF b = 1 THEN <<a, 1>> ELSE LET g == Gcd(Abs(a), b) IN <<a \div g, b \div g>>     \* b > 0
QInt(a)    == <<a, 1>>
QAdd(p, q) == IF p[2] = 1 /\ q[2] = 1 THEN <<p[1] + q[1], 1>> ELSE Q(p[1] * q[2] + q[1] * p[2], p[2] * q[2])
QMul(p, q) == IF p[2] = 1 /\ q[2] = 1 THEN <<p[1] * q[1], 1>> ELSE Q(p[1] * q[1], p[2] * q[2])
QNeg(p)    == <<-p[1], p[2]>>
QLe(p, q)  == p[1] * q[2] <= q[1] * p[2]
QSq(p)     == QMul(p, p)
QAbs(p)    == <<Abs(p[1]), p[2]>>
QMax0(p)   == IF p[1] > 0 THEN p ELSE <<0, 1>>
QDivPos(p, q) == Q(p[1] * q[2], p[2] * q[1])                  \* p / q for q > 0

(* values; an exact zero is normalised to exponent 0 so that equal values are equal records *)
ValQ(q, e) == [t |-> "fin", n |-> q[1], d |-> q[2], lg |-> << >>, e |-> IF q[1] = 0 THEN 0 ELSE e]
IntV(a)    == ValQ(<<a, 1>>, 0)
PInf == [t |-> "inf",  n |-> 0, d |-> 1, lg |-> << >>, e |-> 0]
NInf == [t |-> "ninf", n |-> 0, d |-> 1, lg |-> << >>, e |-> 0]
NaN  == [t |-> "nan",  n |-> 0, d |-> 1, lg |-> << >>, e |-> 0]
Mix  == [t |-> "mix",  n |-> 0, d |-> 1, lg |-> << >>, e |-> 0]
LogV(lg, e) == [t |-> "fin", n |-> 0, d |-> 1, lg |-> lg, e |-> e]

IsZero(v)   == v.t = "fin" /\ v.lg = << >> /\ v.n = 0
IsPos(v)    == v.t = "inf" \/ (v.t = "fin" /\ v.lg = << >> /\ v.n > 0)
IsNonPos(v) == v.t = "ninf" \/ (v.t = "fin" /\ v.lg = << >> /\ v.n <= 0)

(* IEEE addition (exact on the finite values as long as they share the binary exponent) *)
Add(a, b) ==
  IF a.t = "nan" \/ b.t = "nan" THEN NaN
  ELSE IF a.t = "mix" \/ b.t = "mix" THEN Mix
  ELSE IF a.t = "fin" /\ b.t = "fin"
       THEN IF IsZero(a) THEN b
            ELSE IF IsZero(b) THEN a
            ELSE IF a.e # b.e THEN Mix
            ELSE LET s == QAdd(<<a.n, a.d>>, <<b.n, b.d>>)
                     l == a.lg \o b.lg
                 IN [t |-> "fin", n |-> s[1], d |-> s[2], lg |-> l, e |-> IF s[1] = 0 /\ l = << >> THEN 0 ELSE a.e]
  ELSE IF a.t = "fin" THEN b
  ELSE IF b.t = "fin" THEN a
  ELSE IF a.t = b.t THEN a ELSE NaN
InfTimes(c) == IF c > 0 THEN PInf ELSE IF c < 0 THEN NInf ELSE NaN           \* inf * c

(* equality of values up to the order of the symbolic logarithm terms *)
SeqCount(s, z) == Cardinality({i \in 1..Len(s) : s[i] = z})
VEq(a, b) == \/ a = b
             \/ /\ a.t = b.t /\ a.n = b.n /\ a.d = b.d /\ a.e = b.e /\ Len(a.lg) = Len(b.lg)
                /\ \A i \in 1..Len(a.lg) : SeqCount(a.lg, a.lg[i]) = SeqCount(b.lg, a.lg[i])

-----------------------------------------------------------------------------
(* the chain under exploration *)
Chain  == ChainSeq[cid]
D      == Len(Chain.lv)
Lv(l)  == Chain.lv[l]
Ty(l)  == Lv(l).ty
C(l, x) == CondTab[Lv(l).c][x]                       \* numerator (or ZD)
Den(l)  == CondDen[Lv(l).c]
CQ(l, x) == Q(C(l, x), Den(l))                       \* the condition value up to 2^se
Base(x) == BaseTab[Chain.b][x]
X == 1..NX
SE == Chain.se
KE == Chain.ke

(* pk = k*pow(h,m) up to 2^ke (k # INF) *)
PK(l, m) == Q(Lv(l).k * Pow(Lv(l).h, m), Lv(l).kd * Pow(Lv(l).hd, m))
(* the binary exponent of what level l adds *)
EOf(l) == IF Ty(l) = BI THEN -KE ELSE Deg(Ty(l)) * SE + KE

(* stored(i): 0.0 past the end of the list *)
StoredAt(l, i) == IF i < Len(ys[l]) THEN ys[l][i + 1] ELSE 0

(* the multipliers: [inf |-> BOOLEAN, v |-> rational], up to 2^(ke+se) *)
Fin(v) == [inf |-> FALSE, v |-> v]
MInf   == [inf |-> TRUE,  v |-> <<0, 1>>]

(* lagrange_equality:  lam = 0; _k = k; for i in range(n): lam += 2*_k*stored(i); _k *= h *)
(* (an infinite stored value with a zero _k would make the multiplier NaN: the catalogues   *)
(*  keep ZD tables away from Lagrange levels with k = 0 or h = 0)                           *)
RECURSIVE Lam(_, _)
Lam(l, m) ==
  IF m = 0 THEN Fin(<<0, 1>>)
  ELSE LET p == Lam(l, m - 1)
           y == StoredAt(l, m - 1)
       IN IF p.inf \/ y = INF THEN MInf
          ELSE Fin(QAdd(p.v, QMul(QMul(<<2, 1>>, PK(l, m - 1)), Q(y, Den(l)))))

(* lagrange_inequality:  beta += 2*_k*max(-beta/(2*_k), stored(i)); _k *= h   (k, h > 0) *)
RECURSIVE Beta(_, _)
Beta(l, m) ==
  IF m = 0 THEN Fin(<<0, 1>>)
  ELSE LET p   == Beta(l, m - 1)
           y   == StoredAt(l, m - 1)
           k2y == QMul(QMul(<<2, 1>>, PK(l, m - 1)), Q(y, Den(l)))
       IN IF p.inf \/ y = INF THEN MInf                        \* max(-inf, y) = y, inf + 2ky = inf
          ELSE IF QLe(QNeg(p.v), k2y) THEN Fin(QAdd(p.v, k2y)) \* max(..) = y
          ELSE Fin(<<0, 1>>)                                   \* clipped: beta + 2k(-beta/2k)

Mult(l) == IF Ty(l) = LGI THEN Beta(l, n[l]) ELSE IF Ty(l) = LGE THEN Lam(l, n[l]) ELSE Fin(<<0, 1>>)

(* the documented expression of every type: what level l adds at probe x, for a defined       *)
(* condition value c; pk = k*h^n (the doc's 2k*h^n of the inequality types is written 2*pk)   *)
Added(l, x) ==
  LET L   == Lv(l)
      c   == CQ(l, x)
      pk  == PK(l, n[l])
      e   == EOf(l)
      \* the uniform types' constant: float(k)*pow(h,n); inf*0 would be NaN (h = 0: not in the catalogues)
      upk == IF L.k = INF THEN PInf ELSE ValQ(pk, e)
      m   == Mult(l)
      two == <<2, 1>>
      quad == QMul(pk, QSq(c))                                              \* pk*c^2
  IN CASE L.ty = QE  -> ValQ(quad, e)
       [] L.ty = LE  -> ValQ(QMul(pk, QAbs(c)), e)
       [] L.ty = UE  -> IF c[1] # 0 THEN upk ELSE IntV(0)
       [] L.ty = UI  -> IF c[1] > 0 THEN upk ELSE IntV(0)
       [] L.ty = BI  -> IF c[1] >= 0 THEN PInf          \* violated, or -log(0)/(2pk) on the boundary
                        \* -log(-c * 2^se) / (2pk * 2^ke)
                        ELSE LogV(<< <<-c[1], pk[2], 2 * pk[1]>> >>
                                  \o (IF c[2] # 1 THEN << <<c[2], -pk[2], 2 * pk[1]>> >> ELSE << >>)
                                  \o (IF SE # 0 THEN << <<2, SE * pk[2], 2 * pk[1]>> >> ELSE << >>), e)
       [] L.ty = QI  -> ValQ(QMul(QMul(two, pk), QSq(QMax0(c))), e)
       [] L.ty = LI  -> ValQ(QMul(QMul(two, pk), QMax0(c)), e)
       [] L.ty = LGI -> IF m.inf THEN Add(ValQ(quad, e), InfTimes(c[1]))      \* mpf = max(-inf, c) = c
                        ELSE IF QLe(QNeg(m.v), QMul(QMul(two, pk), c))
                             THEN ValQ(QAdd(quad, QMul(m.v, c)), e)           \* mpf = c
                             ELSE ValQ(QNeg(QDivPos(QSq(m.v), QMul(<<4, 1>>, pk))), e)   \* mpf = -beta/2pk
       [] L.ty = LGE -> IF m.inf THEN Add(ValQ(quad, e), InfTimes(c[1]))
                        ELSE ValQ(QAdd(quad, QMul(m.v, c)), e)

(* the evaluator returns inf *without calling the decorated function* in these two cases *)
ShortCircuit(l, x) == C(l, x) = ZD \/ (Ty(l) = BI /\ C(l, x) > 0)

(* F[j](x): level j adds its penalty to what it decorates *)
RECURSIVE EvalFrom(_, _)
EvalFrom(j, x) ==
  IF j > D THEN IntV(Base(x))
  ELSE IF ShortCircuit(j, x) THEN PInf
  ELSE Add(Added(j, x), EvalFrom(j + 1, x))

(* F[j].error(x) squared: own violation^2 + (error of the decorated penalty)^2; ZD -> inf *)
Viol(l, x) == IF IsEq(Ty(l)) THEN QAbs(CQ(l, x)) ELSE QMax0(CQ(l, x))
Viol2V(l, x) == ValQ(QSq(Viol(l, x)), 2 * SE)
RECURSIVE Err2From(_, _)
Err2From(j, x) ==
  IF j > D THEN IntV(0)
  ELSE IF C(j, x) = ZD THEN PInf
  ELSE Add(Viol2V(j, x), Err2From(j + 1, x))

(* F[j].iter(i): own counter, then `if hasattr(_f[0],'iter'): _f[0].iter(i)` with the same i *)
RECURSIVE IterFrom(_, _, _)
IterFrom(nn, j, i) ==
  IF j > D THEN nn
  ELSE IterFrom([nn EXCEPT ![j] = IF i = None THEN nn[j] + 1 ELSE i], j + 1, i)

(* F[j].clear(): _n[0] = 0; empty _y; then the decorated penalty's clear() *)
RECURSIVE ClearFrom(_, _)
ClearFrom(s, j) ==
  IF j > D THEN s
  ELSE ClearFrom([nn |-> [s.nn EXCEPT ![j] = 0], yy |-> [s.yy EXCEPT ![j] = << >>]], j + 1)

(* F[j].store(x,i): only the Lagrange types record; they resolve i=None to their *own*          *)
(* iteration and pass the resolved index on; the other types pass i on unchanged               *)
Zeros(k) == [q \in 1..k |-> 0]
RECURSIVE StoreFrom(_, _, _, _)
StoreFrom(yy, j, x, i) ==
  IF j > D THEN yy
  ELSE IF IsLag(Ty(j))
       THEN LET y   == IF C(j, x) = ZD THEN INF ELSE C(j, x)
                ii  == IF i = None THEN n[j] ELSE i
                len == Len(yy[j])
                new == IF ii >= len THEN (yy[j] \o Zeros(ii - len)) \o <<y>>
                       ELSE [yy[j] EXCEPT ![ii + 1] = y]
            IN StoreFrom([yy EXCEPT ![j] = new], j + 1, x, ii)
       ELSE StoreFrom(yy, j + 1, x, i)

RECURSIVE SumLen(_, _)
SumLen(yy, l) == IF l > D THEN 0 ELSE Len(yy[l]) + SumLen(yy, l + 1)
RECURSIVE SumNZ(_, _)
SumNZ(yy, l) == IF l > D THEN 0 ELSE Cardinality({q \in 1..Len(yy[l]) : yy[l][q] # 0}) + SumNZ(yy, l + 1)

-----------------------------------------------------------------------------
(* the machine *)
Init == /\ cid \in {c \in 1..Len(ChainSeq) : PartOf(c) = MyPart}
        /\ n  = [l \in 1..Len(ChainSeq[cid].lv) |-> 0]
        /\ ys = [l \in 1..Len(ChainSeq[cid].lv) |-> << >>]
        /\ last = [op |-> "New", j |-> 0, x |-> 0, i |-> None, ret |-> IntV(0)]

Call(op, j, x, i, ret) == [op |-> op, j |-> j, x |-> x, i |-> i, ret |-> ret]

IterOK(j, i) == i = None => \A l \in j..D : n[l] < MaxN /\ n[l] \in IncDom
Iter(j, i) == /\ IterOK(j, i)
              /\ n' = IterFrom(n, j, i)
              /\ last' = Call("Iter", j, 0, i, IntV(0))
              /\ UNCHANGED <<cid, ys>>

Clear(j) == LET s == ClearFrom([nn |-> n, yy |-> ys], j)
            IN /\ n' = s.nn /\ ys' = s.yy
               /\ last' = Call("Clear", j, 0, None, IntV(0))
               /\ UNCHANGED cid

StoreOK(j, x, i) == LET yy == StoreFrom(ys, j, x, i)
                    IN /\ \A l \in 1..D : Len(yy[l]) <= MaxLen
                       /\ SumLen(yy, 1) <= Chain.ms
                       /\ (IF Chain.mz = NoBound THEN TRUE ELSE SumNZ(yy, 1) <= Chain.mz)
Store(j, x, i) == /\ StoreOK(j, x, i)
                  /\ ys' = StoreFrom(ys, j, x, i)
                  /\ last' = Call("Store", j, x, i, IntV(0))
                  /\ UNCHANGED <<cid, n>>

Eval(j, x) == /\ last' = Call("Eval", j, x, None, EvalFrom(j, x))
              /\ UNCHANGED <<cid, n, ys>>

Error(j, x) == /\ last' = Call("Error", j, x, None, Err2From(j, x))
               /\ UNCHANGED <<cid, n, ys>>

IterAny  == \E j \in 1..D : \E i \in IterArgs \cup {None} : Iter(j, i)
ClearAny == \E j \in 1..D : Clear(j)
StoreAny == \E j \in 1..D : \E x \in X : \E i \in StoreArgs \cup {None} : Store(j, x, i)
EvalAny  == \E j \in 1..D : \E x \in X : Eval(j, x)
ErrorAny == \E j \in 1..D : \E x \in X : Error(j, x)

Next == IterAny \/ ClearAny \/ StoreAny \/ EvalAny \/ ErrorAny

Spec == Init /\ [][Next]_vars

-----------------------------------------------------------------------------
(* C15 on the design: state invariants *)

TypeOK == /\ \A l \in 1..D : n[l] \in 0..MaxN /\ Len(ys[l]) <= MaxLen
          /\ DOMAIN n = 1..D /\ DOMAIN ys = 1..D

(* only the Lagrange types ever hold multipliers *)
OnlyLagrangeStores == \A l \in 1..D : ~IsLag(Ty(l)) => ys[l] = << >>

Defined(l, x)  == C(l, x) # ZD
Feasible(l, x) == Defined(l, x) /\ (IF IsEq(Ty(l)) THEN C(l, x) = 0 ELSE C(l, x) <= 0)
Violated(l, x) == Defined(l, x) /\ ~Feasible(l, x)
NoMult(l)      == ~Mult(l).inf /\ Mult(l).v[1] = 0
(* the premise of "strictly positive": the current multiplier k*h^n is (k = 0, or h = 0 after *)
(* the first iteration, switch a penalty off: the documented expression is then 0)            *)
PKPos(l)       == Lv(l).k = INF \/ PK(l, n[l])[1] > 0

(* the types whose documented formula vanishes on the feasible set: quadratic, linear, uniform  *)
(* of both kinds, and the Lagrange types while no multiplier has been accumulated               *)
DocZero(l) == Ty(l) \in {QE, LE, UE, UI, QI, LI} \/ (IsLag(Ty(l)) /\ NoMult(l))

(* no added penalty exactly on the feasible set *)
ZeroOnFeasible ==
  \A l \in 1..D : \A x \in X : (DocZero(l) /\ Defined(l, x)) =>
      LET z == IsZero(Added(l, x))
      IN /\ Feasible(l, x) => z
         /\ (PKPos(l) /\ z) => Feasible(l, x)

(* a strictly positive amount wherever violated (all types; lagrange_equality once it carries a *)
(* multiplier adds lam*f(x), which has the sign of lam*f(x): excluded by the documented formula)*)
PositiveWhenViolated ==
  \A l \in 1..D : \A x \in X :
     (Violated(l, x) /\ PKPos(l) /\ ~(Ty(l) = LGE /\ ~NoMult(l))) => IsPos(Added(l, x))

(* the inequality multiplier never goes negative, hence a feasible point is never penalised *)
BetaNonNegative == \A l \in 1..D : Ty(l) = LGI => (Mult(l).inf \/ Mult(l).v[1] >= 0)
LagIneqFeasibleNotPenalised ==
  \A l \in 1..D : \A x \in X : (Ty(l) = LGI /\ Feasible(l, x) /\ ~Mult(l).inf) => IsNonPos(Added(l, x))

(* stacked penalties add: F[j](x) = base(x) + sum of the levels' own penalties, accumulated     *)
(* from the innermost level outwards (independent of the order of evaluation)                   *)
RECURSIVE SumUp(_, _)     \* base + the own penalties of the m innermost levels
SumUp(m, x) == IF m = 0 THEN IntV(Base(x)) ELSE Add(SumUp(m - 1, x), Added(D - m + 1, x))
StackedAdd ==
  \A j \in 1..D : \A x \in X :
     (\A l \in j..D : ~ShortCircuit(l, x)) => VEq(EvalFrom(j, x), SumUp(D - j + 1, x))

(* a condition that divides by zero yields an infinite penalty and an infinite error *)
ZeroDivisionInfinite ==
  \A j \in 1..D : \A x \in X : C(j, x) = ZD => (EvalFrom(j, x) = PInf /\ Err2From(j, x) = PInf)

(* error(x) is the violation magnitude: zero iff every condition from level j down is satisfied *)
RECURSIVE SumViol2(_, _)
SumViol2(j, x) == IF j > D THEN <<0, 1>> ELSE QAdd(QSq(Viol(j, x)), SumViol2(j + 1, x))
ErrorIsViolation ==
  \A j \in 1..D : \A x \in X :
     LET e2 == Err2From(j, x)
     IN IF \E l \in j..D : ~Defined(l, x) THEN e2 = PInf
        ELSE /\ e2 = ValQ(SumViol2(j, x), 2 * SE)
             /\ (IsZero(e2) <=> \A l \in j..D : Feasible(l, x))

(* every observable value of the catalogue is one the harness can render: no sum of finite   *)
(* terms with different binary exponents                                                      *)
Representable ==
  \A j \in 1..D : \A x \in X : EvalFrom(j, x).t # "mix" /\ Err2From(j, x).t # "mix"

-----------------------------------------------------------------------------
(* C15 on the design: action properties (last' names the call that made the step) *)

(* clear() resets iteration and multipliers from the addressed level down, nothing else *)
ClearResets ==
  [][last'.op = "Clear" =>
       /\ cid' = cid
       /\ \A l \in 1..D : l >= last'.j => (n'[l] = 0 /\ ys'[l] = << >>)
       /\ \A l \in 1..D : l <  last'.j => (n'[l] = n[l] /\ ys'[l] = ys[l])]_vars

(* iter() advances / iter(i) sets, from the addressed level down, nothing else *)
IterAdvances ==
  [][last'.op = "Iter" =>
       /\ cid' = cid /\ ys' = ys
       /\ \A l \in 1..D : l >= last'.j => n'[l] = (IF last'.i = None THEN n[l] + 1 ELSE last'.i)
       /\ \A l \in 1..D : l <  last'.j => n'[l] = n[l]]_vars

(* store(x,i) writes the condition value of every Lagrange level from the addressed level down  *)
(* at one common index (i, or the iteration of the first such level), zero-filling gaps         *)
StoreFootprint ==
  [][last'.op = "Store" =>
       LET j  == last'.j
           LL == {l \in j..D : IsLag(Ty(l))}
       IN /\ cid' = cid /\ n' = n
          /\ \A l \in (1..D) \ LL : ys'[l] = ys[l]
          /\ LL # {} =>
               LET first == CHOOSE l \in LL : \A m \in LL : l <= m
                   idx   == IF last'.i = None THEN n[first] ELSE last'.i
               IN \A l \in LL :
                    /\ Len(ys'[l]) = Max2(Len(ys[l]), idx + 1)
                    /\ ys'[l][idx + 1] = (IF C(l, last'.x) = ZD THEN INF ELSE C(l, last'.x))
                    /\ \A q \in 1..Len(ys'[l]) : q # idx + 1 =>
                          ys'[l][q] = (IF q <= Len(ys[l]) THEN ys[l][q] ELSE 0)]_vars

(* evaluating the penalised function or its error changes no state *)
ObserversPure == [][last'.op \in {"Eval", "Error"} => UNCHANGED <<cid, n, ys>>]_vars

-----------------------------------------------------------------------------
(* emission for the replay (spec -> code): the catalogue once, then every reachable state with  *)
(* everything observable in it and every state-changing call enabled in it with its post-state  *)
TCode(v) == CASE v.t = "fin" -> 0 [] v.t = "inf" -> 1 [] v.t = "ninf" -> 2 [] v.t = "nan" -> 3 [] v.t = "mix" -> 4
VT(v) == <<TCode(v), v.n, v.d, v.lg, v.e>>

(* st: numerators of the stored values (denominator CondDen, scale 2^se as the level's condition);   *)
(* stored(i) = st[i+1] for an index inside the list                                                 *)
Obs == [l \in 1..D |->
          [it |-> n[l], st |-> ys[l],
           ev |-> [x \in X |-> VT(EvalFrom(l, x))],
           er |-> [x \in X |-> VT(Err2From(l, x))]]]

Succ ==
       {<<"I", j, 0, i, IterFrom(n, j, i), ys>> : j \in 1..D, i \in IterArgs \cup {None}}
  \cup {<<"C", j, 0, None, ClearFrom([nn |-> n, yy |-> ys], j).nn, ClearFrom([nn |-> n, yy |-> ys], j).yy>> : j \in 1..D}
  \cup {<<"S", jx[1], jx[2], i, n, StoreFrom(ys, jx[1], jx[2], i)>> : jx \in (1..D) \X X, i \in StoreArgs \cup {None}}

SuccEnabled == {s \in Succ : CASE s[1] = "I" -> IterOK(s[2], s[4])
                               [] s[1] = "S" -> StoreOK(s[2], s[3], s[4])
                               [] OTHER -> TRUE}

ASSUME PrintT(<<"@@", ToJson([catalogue |-> ChainSeq, types |-> TypeName, cond |-> CondTab, den |-> CondDen,
                               base |-> BaseTab,
                               nparts |-> NParts, part |-> MyPart, inf |-> INF, zd |-> ZD, none |-> None,
                               maxlen |-> MaxLen])>>)

Emit == PrintT(<<"@@", ToJson([c |-> cid, n |-> n, ys |-> ys, obs |-> Obs, succ |-> SuccEnabled])>>)
=============================================================================
