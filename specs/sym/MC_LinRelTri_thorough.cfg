SPECIFICATION Spec
CONSTANTS
  N = 4
  Vals <- VS
  Rels <- TRels3
  Systems <- IndepTriples
  Boxes = {}
  Ks <- QKs
  Scales <- QScales
INVARIANT TypeOK
INVARIANT LastHolds
INVARIANT Footprint
INVARIANT FeasibleFixed
INVARIANT IndependentAllHold
INVARIANT StepViewFrozen
INVARIANT Satisfiable
INVARIANT Orientation
INVARIANT CrossZero
INVARIANT EmitC13
