--------------------------- MODULE MC_LinRelTri ---------------------------
(* three-line systems over the catalogue of the run *)
EXTENDS MC_LinRel
Triples == {<<a, b, c>> : a, b, c \in Idx}
IndepTriples == {s \in Triples : IndependentRels(<<RelSeq[s[1]], RelSeq[s[2]], RelSeq[s[3]]>>)}
(* three lines on three different variables, dependent or not (C14 texts) *)
AnyTriples == {s \in Triples : RelSeq[s[1]].i < RelSeq[s[2]].i /\ RelSeq[s[2]].i < RelSeq[s[3]].i}
=============================================================================
