---------------------------- MODULE MC_LinRel ----------------------------
(* Constants for the model-check / emission runs of LinRel (C13, C14).    *)
(* cfg files cannot contain records, so the catalogues are defined here.  *)
(* TLC evaluates every zero-arity constant definition of the modules it   *)
(* loads eagerly; the system builders (pairs, triples) therefore live in  *)
(* MC_LinRelSys / MC_LinRelTri and only small sets are defined here.      *)
EXTENDS LinRel

T(kind, c0, a1, a2) == [kind |-> kind, c0 |-> c0, a1 |-> a1, a2 |-> a2]
MkRels(Is, Ms, Os, Ts) ==
  {[i |-> i, m |-> m, op |-> op, kind |-> t.kind, c0 |-> t.c0, a1 |-> t.a1, a2 |-> t.a2] :
      i \in Is, m \in Ms, op \in Os, t \in Ts}

(* right-hand sides: constant, other variable, affine, nonlinear catalogue *)
(* (the constant 0 -- "x_i <= 0", falsy in Python -- is in the quick catalogue too) *)
TQuick == {T("aff", 0, 0, 0), T("aff", 2, 0, 0), T("aff", 0, 1, 0), T("aff", 1, -1, 0), T("aff", -1, 2, 0),
           T("aff", 0, 0, 1), T("aff", 0, 1, 1), T("aff", 1, 1, -2),
           T("mul", 0, 1, 0), T("sq", -1, 1, 0), T("abs", 0, 1, 0), T("abs", 1, -1, 1)}
TMore  == {T("aff", -3, 0, 0), T("aff", 0, -1, 0), T("aff", 2, 0, -1), T("aff", 0, 2, 0),
           T("aff", 0, -2, 1), T("aff", -1, 1, 1), T("aff", 3, -1, -1),
           T("mul", 1, -1, 0), T("mul", 0, 2, 0), T("sq", 0, 1, 0), T("sq", 0, -1, 1), T("sq", 2, 1, -1),
           T("abs", 0, -1, 0), T("abs", -1, 2, 0), T("abs", 0, 1, -1)}
(* right-hand sides over one variable or none: what independent systems over few variables need *)
TPairQ == {T("aff", 1, 0, 0), T("aff", 0, 1, 0), T("aff", 0, 0, 1), T("aff", 1, 0, -1), T("abs", 1, 1, 0)}
TPairT == {T("aff", 1, 0, 0), T("aff", 0, 1, 0), T("aff", 0, 0, 1), T("aff", 1, 0, -1), T("aff", -1, 2, 0),
           T("aff", 0, 1, 1), T("sq", -1, 1, 0), T("abs", 1, 1, 0)}
TTri   == {T("aff", 1, 0, 0), T("aff", 0, 1, 0), T("aff", 0, 0, 1)}
(* penalty texts *)
TPen   == {T("aff", 2, 0, 0), T("aff", 0, 1, 0), T("aff", 1, -1, 0), T("aff", 1, 1, -2), T("mul", 0, 1, 0), T("abs", 0, 1, 0)}
TPen2  == {T("aff", 1, 0, 0), T("aff", 1, 0, -1)}
TPen2T == {T("aff", 1, 0, 0), T("aff", 0, 1, 0), T("aff", 1, 0, -1), T("abs", -1, 1, 0)}

(* multi-digit constants, coefficients and coordinates (10, 12, 100: texts like '10*x10', 'x1 <= 100'; index  *)
(* replacement and number parsing must not stop at the first digit).  Separate small runs ("long").        *)
TLong  == {T("aff", 10, 0, 0), T("aff", 100, 0, 0), T("aff", -12, 0, 0), T("aff", 0, 10, 0), T("aff", 2, 12, -10),
           T("abs", -10, 1, 0)}
TLongP == {T("aff", 10, 0, 0), T("aff", 100, 0, 0), T("aff", 0, 10, 0), T("aff", 2, 12, -10)}
VLong  == {-12, 0, 1, 10, 100}
VLongP == {-1, 0, 1, 10}            \* penalties are squares of 4*(lhs - rhs): keep them inside TLC's 32-bit integers

Idx == 1..NR
Singles == {<<a>> : a \in Idx}
NoSys == {<< >>}

------------------------------------------------------------------------------
(* C13, single relations (N = 3) *)
QRels1 == MkRels(1..3, {1}, AllOps, TQuick)
TRels1 == MkRels(1..3, {1}, AllOps, TQuick \cup TMore)
V2 == -2..2
V3 == -3..3
(* C13, systems: pairs quick N = 3, thorough N = 4; triples N = 4 *)
QRelsS == MkRels({1, 2}, {1}, AllOps, TPairQ)
TRelsS == MkRels(1..3, {1}, AllOps, TPairT)
QRels3 == MkRels(1..3, {1}, {"<", ">=", "!="}, {T("aff", 1, 0, 0), T("aff", 0, 0, 1), T("aff", 0, 1, 0)})
TRels3 == QRels3
QRelsL == MkRels({1, 3}, {1}, AllOps, TLong)
TRelsL == MkRels(1..3, {1}, AllOps, TLong)
VS == {-1, 0, 2}
V01 == {0, 1}
(* negative control: dependent pairs break the earlier line *)
RelsNeg == MkRels(1..3, {1}, {"=", "<"}, {T("aff", 0, 1, 0), T("aff", 1, 0, 1)})

(* C14: penalty texts -- isolated and non-isolated lines (m # 1) *)
QRelsP1 == MkRels(1..3, {1, -2}, AllOps, TPen)
TRelsP1 == MkRels(1..3, {1, -1, 2, -3}, AllOps, TQuick \cup TMore)
QRelsP2 == MkRels({1, 2}, {1, 2}, AllOps, TPen2)
TRelsP2 == MkRels(1..3, {1, -2}, AllOps, TPen2T)
QRelsP3 == MkRels(1..3, {1}, {"<=", ">", "="}, {T("aff", 1, 0, 0), T("aff", 0, 0, 1)})
TRelsP3 == MkRels(1..3, {1, 2}, {"<=", ">", "=", "!="}, {T("aff", 1, 0, 0), T("aff", 0, 0, 1)})

QRelsPL == MkRels({2}, {1, 10, -12}, AllOps, TLongP)
TRelsPL == MkRels(1..3, {1, 10, -12}, AllOps, TLongP)

QKs == {1, 3, 100}
(* multipliers of the penalty runs: 0 is a legal multiplier (falsy in Python) that switches the penalty off *)
PKs == {0, 1, 3, 100}
QScales == {2, 1000}

(* bounds, N = 2: every pair lo <= hi per coordinate over the values plus "no bound" *)
BSide(vals) == {lh \in (vals \cup {NINF}) \X (vals \cup {PINF}) : lh[1] <= lh[2]}
MkBoxes(sides) == {[lo |-> <<a[1], b[1]>>, hi |-> <<a[2], b[2]>>] : a \in sides, b \in sides}
TBoxes == MkBoxes(BSide({-1, 0, 2}))
QBoxes == {bb \in TBoxes : (bb.lo[1] + bb.hi[2] + 2 * bb.lo[2] + 3 * bb.hi[1]) % 5 = 0}
BoxVals == -2..3
==============================================================================
