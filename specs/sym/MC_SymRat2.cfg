SPECIFICATION Spec
CONSTANTS
  Mode = "sys"
  NV = 2
  Coords <- Coords13
  DEN = 4
  MaxNum = 4
  Base <- TheBase
  Which = "Rat2"
  Mults <- QMults
  Adds <- QAdds
  Exps <- QExps
  MaxRw = 1
  AllowBad = FALSE
INVARIANT TypeOK
INVARIANT SolPreserved
INVARIANT Emit
