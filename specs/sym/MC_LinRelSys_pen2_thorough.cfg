SPECIFICATION Spec
CONSTANTS
  N = 3
  Vals <- VS
  Rels <- TRelsP2
  Systems <- UpPairs
  Boxes = {}
  Ks <- PKs
  Scales <- QScales
INVARIANT TypeOK
INVARIANT LastHolds
INVARIANT Orientation
INVARIANT PenaltyZeroSet
INVARIANT KZero
INVARIANT CrossZero
INVARIANT EmitC14
