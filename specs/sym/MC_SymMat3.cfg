SPECIFICATION Spec
CONSTANTS
  Mode = "mat"
  NV = 3
  Coords <- Coords7
  DEN = 4
  MaxNum = 4
  Base <- TheBase
  Which = "Mat"
  Mults <- QMults
  Adds <- QAdds
  Exps <- QExps
  MaxRw = 0
  AllowBad = FALSE
INVARIANT TypeOK
INVARIANT SolPreserved
INVARIANT Emit
