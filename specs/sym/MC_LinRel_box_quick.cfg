SPECIFICATION Spec
CONSTANTS
  N = 2
  Vals <- BoxVals
  Rels = {}
  Systems <- NoSys
  Boxes <- QBoxes
  Ks <- QKs
  Scales <- QScales
INVARIANT TypeOK
INVARIANT BoxIn
INVARIANT BoxIdempotent
INVARIANT BoxScaleLemma
PROPERTY BoxStep
INVARIANT EmitBox
