SPECIFICATION Spec
CONSTANTS
  N = 4
  Vals <- V01
  Rels <- QRels3
  Systems <- IndepTriples
  Boxes = {}
  Ks <- QKs
  Scales <- QScales
INVARIANT TypeOK
INVARIANT LastHolds
INVARIANT Footprint
INVARIANT FeasibleFixed
INVARIANT IndependentAllHold
INVARIANT StepViewFrozen
INVARIANT Satisfiable
INVARIANT Orientation
INVARIANT CrossZero
INVARIANT EmitC13
