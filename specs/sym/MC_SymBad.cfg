SPECIFICATION Spec
CONSTANTS
  Mode = "sys"
  NV = 2
  Coords <- Coords9
  DEN = 4
  MaxNum = 4
  Base <- TheBase
  Which = "Design"
  Mults <- QMults
  Adds <- QAdds
  Exps <- QExps
  MaxRw = 1
  AllowBad = TRUE
INVARIANT TypeOK
INVARIANT SolPreserved

