-------------------------- MODULE MC_LinRelGrpTri --------------------------
(* three-line systems with a shared left-hand variable over the catalogue of the run *)
EXTENDS MC_LinRelGrp
Triples == {<<a, b, c>> : a, b, c \in Idx}
Recs3(s) == <<RelSeq[s[1]], RelSeq[s[2]], RelSeq[s[3]]>>
(* all three on the same variable, every order *)
SameTriples == {s \in Triples : RelSeq[s[1]].i = RelSeq[s[2]].i /\ RelSeq[s[2]].i = RelSeq[s[3]].i}
(* two on one variable, the third on another, none feeding another; every order *)
MixTriples == {s \in Triples : /\ GrpIndependentRels(Recs3(s))
                               /\ Cardinality({RelSeq[s[1]].i, RelSeq[s[2]].i, RelSeq[s[3]].i}) = 2}
=============================================================================
