SPECIFICATION Spec
CONSTANTS
  N = 3
  Vals <- V2
  Rels <- RelsNeg
  Systems <- AnyPairs
  Boxes = {}
  Ks <- QKs
  Scales <- QScales
INVARIANT DependentAlsoHold
