------------------------------ MODULE SymClass ------------------------------
(***************************************************************************)
(* S7 (C12) -- the program class of mystic.symbolic.simplify / solve /     *)
(* linear_symbolic / symbolic_bounds and its DENOTATION.                   *)
(*                                                                         *)
(* What TLC does here, said plainly: the implementation under test is      *)
(* stateless sympy-backed string rewriting, so TLC is used as              *)
(*   (1) the ENUMERATOR of the bounded program class (every system of the  *)
(*       class is an initial state, every single equivalence rewrite of it *)
(*       a successor state),                                               *)
(*   (2) the DENOTATIONAL ORACLE: for every enumerated program it computes *)
(*       Sol(program) -- the set of grid points that satisfy it -- and     *)
(*       prints program + Sol; the harness never recomputes Sol of the     *)
(*       INPUT, it only evaluates the text that mystic RETURNS,            *)
(*   (3) a small model check of the design statement "an equivalence       *)
(*       rewrite preserves Sol" (INVARIANT SolPreserved over all states).  *)
(* It does not explore behaviour of the implementation.                    *)
(*                                                                         *)
(* Programs (variable `prog`), by Mode:                                    *)
(*  "sys"  a sequence of 1..2 LINES.  A line is the record                 *)
(*           [f, j, op, v, c, w, d, e]   meaning                           *)
(*             f = "lin":  v.x + c        op  w.x + d                       *)
(*             f = "div": (v.x + c) / x_j op  w.x + d   (undefined x_j = 0)*)
(*             f = "mul": (v.x + c) * x_j op  w.x + d                       *)
(*           v, w : [1..NV -> rational], c, d rational, a rational is a    *)
(*           pair <<num, den>>, den > 0; op in {"==","<=",">=","<",">"};   *)
(*           e is a decimal exponent: every number of the line is written  *)
(*           multiplied by 10^e (very large / very small coefficients);    *)
(*           10^e > 0, so e does not change the denotation.                *)
(*           "div"/"mul" are the single-factor rational forms: the         *)
(*           direction of the relation, once x_j is multiplied / divided   *)
(*           away, depends on the sign of the single variable factor x_j.  *)
(*  "mat"  [A, b, G, h]: rows of small integers, A x = b /\ G x <= h       *)
(*           (linear_symbolic; with G empty and a consistent A,b: solve).  *)
(*  "bnd"  [lo, hi]: [1..NV -> half units or NONE], lo <= x <= hi          *)
(*           (symbolic_bounds; NONE = that side is infinite).              *)
(*                                                                         *)
(* The grid: points are [1..NV -> Coords-entries], coordinates are         *)
(* integers in HALF units (value p/2).  Point number k in 0..NPts-1 has    *)
(* coordinate j equal to Coords[((k \div G^(j-1)) % G) + 1].               *)
(*                                                                         *)
(* State machine: prog = current program, orig = the program the behaviour *)
(* started from (ghost), hist = names of the rewrites applied (ghost).     *)
(* Init picks a base program; Rewrite replaces one line by an equivalent   *)
(* one (scale by a non-zero constant -- flipping the comparator iff the    *)
(* constant is negative --, move a term or the constant across, add the    *)
(* same term to both sides, swap the sides, scale by 10^e, swap the lines).*)
(* This is the design-level statement of what simplify has to preserve.    *)
(* BadScale (only if AllowBad) scales WITHOUT flipping: the negative       *)
(* control that shows SolPreserved is not vacuous.                         *)
(***************************************************************************)
EXTENDS Integers, Sequences, FiniteSets, TLC, Json, IOUtils, SequencesExt

CONSTANTS Mode,      \* "sys" | "mat" | "bnd"
          NV,        \* number of variables, 1..3
          Coords,    \* sequence of grid coordinates (half units)
          DEN,       \* every denominator occurring anywhere divides DEN
          MaxNum,    \* rewrites keep |coefficient| <= MaxNum
          Base,      \* the set of base programs to enumerate
          Mults,     \* non-zero rationals a line may be scaled by
          Adds,      \* rationals t: "add t*x_j to both sides"
          Exps,      \* non-zero decimal exponents
          MaxRw,     \* number of rewrites applied to a base program (0..)
          AllowBad   \* enable the deliberately wrong rewrite (negative control)

VARIABLES prog, orig, hist, sol, und
vars == <<prog, orig, hist, sol, und>>

NONE == 1000000
Zero == <<0, 1>>
Abs(x) == IF x < 0 THEN -x ELSE x
AllOps == {"==", "<=", ">=", "<", ">"}

-----------------------------------------------------------------------------
(* rationals <<n, d>>, d > 0, kept in lowest terms *)
RECURSIVE Gcd(_, _)
Gcd(a, b) == IF b = 0 THEN a ELSE Gcd(b, a % b)
Norm(r) == IF r[1] = 0 THEN Zero
           ELSE LET g == Gcd(Abs(r[1]), r[2]) IN <<r[1] \div g, r[2] \div g>>
RMul(r, k) == LET n == r[1] * k[1]
                  d == r[2] * k[2]
              IN  Norm(IF d < 0 THEN <<-n, -d>> ELSE <<n, d>>)
RSub(r, s) == Norm(<<r[1] * s[2] - s[1] * r[2], r[2] * s[2]>>)
RAdd(r, s) == Norm(<<r[1] * s[2] + s[1] * r[2], r[2] * s[2]>>)
InRange(r) == DEN % r[2] = 0 /\ Abs(r[1]) <= MaxNum * r[2]
S(r) == r[1] * (DEN \div r[2])               \* r in units of 1/DEN (an integer)

-----------------------------------------------------------------------------
(* the grid *)
G == Len(Coords)
Pow(b, n) == IF n = 0 THEN 1 ELSE IF n = 1 THEN b ELSE IF n = 2 THEN b * b ELSE b * b * b
NPts == Pow(G, NV)
PtIds == 0..(NPts - 1)
PtOf(k) == [j \in 1..3 |-> IF j <= NV THEN Coords[((k \div Pow(G, j - 1)) % G) + 1] ELSE 0]   \* padded to 3
Pts == [k \in PtIds |-> PtOf(k)]            \* constant: evaluated once
Pt(k) == Pts[k]

-----------------------------------------------------------------------------
(* denotation of lines and systems *)
Cmp(op, a, b) == CASE op = "==" -> a = b
                   [] op = "<=" -> a <= b
                   [] op = ">=" -> a >= b
                   [] op = "<"  -> a < b
                   [] op = ">"  -> a > b
Flip(op) == CASE op = "<=" -> ">=" [] op = ">=" -> "<=" [] op = "<" -> ">" [] op = ">" -> "<" [] OTHER -> op

(* a line with its numbers scaled to integers (unit 1/(2*DEN)):               *)
(*   "lin":  a.x + ac  op  0      (a = v - w, ac = c - d)                   *)
(*   else :  (a.x + ac) divided / multiplied by x_j   op   b.x + bc         *)
IntLine(ln) ==
  IF ln.f = "lin"
  THEN [f |-> ln.f, j |-> ln.j, op |-> ln.op,
        a |-> [j \in 1..3 |-> IF j <= NV THEN S(ln.v[j]) - S(ln.w[j]) ELSE 0], ac |-> 2 * (S(ln.c) - S(ln.d)),
        b |-> <<0, 0, 0>>, bc |-> 0]
  ELSE [f |-> ln.f, j |-> ln.j, op |-> ln.op,
        a |-> [j \in 1..3 |-> IF j <= NV THEN S(ln.v[j]) ELSE 0], ac |-> 2 * S(ln.c),
        b |-> [j \in 1..3 |-> IF j <= NV THEN S(ln.w[j]) ELSE 0], bc |-> 2 * S(ln.d)]
AffI(a, ac, p) == a[1] * p[1] + a[2] * p[2] + a[3] * p[3] + ac

DefinedI(il, p) == il.f = "div" => p[il.j] # 0

HoldsI(il, p) ==
  LET L == AffI(il.a, il.ac, p)
      R == AffI(il.b, il.bc, p)
  IN  CASE il.f = "lin" -> Cmp(il.op, L, 0)
        [] il.f = "mul" -> Cmp(il.op, L * p[il.j], 2 * R)       \* (L/2D)*(p/2) op R/2D
        [] il.f = "div" -> IF p[il.j] > 0                        \* (L/2D)/(p/2) op R/2D
                           THEN Cmp(il.op, 2 * L, R * p[il.j])
                           ELSE Cmp(Flip(il.op), 2 * L, R * p[il.j])
Defined(ln, p) == DefinedI(IntLine(ln), p)
Holds(ln, p) == HoldsI(IntLine(ln), p)

(* pointwise (readable) definition of the solution set of a system *)
SysUndef(sys) ==
  IF \A l \in 1..Len(sys) : sys[l].f # "div" THEN {}
  ELSE {k \in PtIds : \E l \in 1..Len(sys) : sys[l].f = "div" /\ Pts[k][sys[l].j] = 0}
SysSolPointwise(sys) ==
  LET il == [l \in 1..Len(sys) |-> IntLine(sys[l])]
  IN  {k \in PtIds : \A l \in 1..Len(sys) : DefinedI(il[l], Pts[k]) /\ HoldsI(il[l], Pts[k])}

(* the same set computed with the dispatch on form and comparator hoisted out *)
(* of the loop over the grid (TLC evaluates ~3x fewer nodes per point): each  *)
(* line is  W(k) op 0  for an integer W; INVARIANT SolDefsAgree checks that   *)
(* both definitions coincide on everything enumerated.                        *)
Sel(op, dom, W(_)) ==
  CASE op = "==" -> {k \in dom : W(k) = 0}
    [] op = "<=" -> {k \in dom : W(k) <= 0}
    [] op = ">=" -> {k \in dom : W(k) >= 0}
    [] op = "<"  -> {k \in dom : W(k) < 0}
    [] op = ">"  -> {k \in dom : W(k) > 0}
LineSol(ln, dom) ==
  LET il == IntLine(ln)
      j  == il.j
      WLin(k) == AffI(il.a, il.ac, Pts[k])
      WMul(k) == AffI(il.a, il.ac, Pts[k]) * Pts[k][j] - 2 * AffI(il.b, il.bc, Pts[k])
      WDiv(k) == IF Pts[k][j] > 0
                 THEN 2 * AffI(il.a, il.ac, Pts[k]) - AffI(il.b, il.bc, Pts[k]) * Pts[k][j]
                 ELSE AffI(il.b, il.bc, Pts[k]) * Pts[k][j] - 2 * AffI(il.a, il.ac, Pts[k])
  IN  CASE il.f = "lin" -> Sel(il.op, dom, WLin)
        [] il.f = "mul" -> Sel(il.op, dom, WMul)
        [] il.f = "div" -> Sel(il.op, {k \in dom : Pts[k][j] # 0}, WDiv)
SysSol(sys) == IF Len(sys) = 1 THEN LineSol(sys[1], PtIds)
               ELSE LineSol(sys[2], LineSol(sys[1], PtIds))
SolDefsAgree == Mode = "sys" => SysSol(prog) = SysSolPointwise(prog)

(* The CRITICAL SET of a single-factor line: the points (where it is defined)  *)
(* at which the factor x_j, the factor's co-factor v.x + c or the plain side   *)
(* w.x + d vanishes.  Bringing such a line into isolated form multiplies or    *)
(* divides by one of these quantities; a case split on their STRICT signs      *)
(* (> 0, < 0) says nothing about these points.  It is printed so that the      *)
(* harness can tell "solutions lost only inside the critical set" (the zero    *)
(* case of a sign split is missing) from any other disagreement.  It is not    *)
(* used to weaken the comparison: Sol must be matched on the whole grid.       *)
LineCrit(ln) ==
  IF ln.f = "lin" THEN {}
  ELSE LET il == IntLine(ln)
       IN  {k \in PtIds : /\ (ln.f = "div" => Pts[k][il.j] # 0)
                          /\ \/ Pts[k][il.j] = 0
                             \/ AffI(il.a, il.ac, Pts[k]) = 0
                             \/ AffI(il.b, il.bc, Pts[k]) = 0}
SysCrit(sys) == UNION {LineCrit(sys[l]) : l \in 1..Len(sys)} \ SysUndef(sys)

(* integer rows: row.x in half units against 2*rhs *)
Dot(row, p) == LET t(j) == IF j <= NV THEN row[j] * p[j] ELSE 0 IN t(1) + t(2) + t(3)   \* rows have NV entries
MatSol(m) == {k \in PtIds :
                /\ \A i \in 1..Len(m.A) : Dot(m.A[i], Pt(k)) = 2 * m.b[i]
                /\ \A i \in 1..Len(m.G) : Dot(m.G[i], Pt(k)) <= 2 * m.h[i]}

(* bounds in half units, NONE = infinite side *)
BndSol(bd) == {k \in PtIds : \A j \in 1..NV :
                 /\ bd.lo[j] # NONE => bd.lo[j] <= Pt(k)[j]
                 /\ bd.hi[j] # NONE => Pt(k)[j] <= bd.hi[j]}

Sol(p) == CASE Mode = "sys" -> SysSol(p) [] Mode = "mat" -> MatSol(p) [] Mode = "bnd" -> BndSol(p)
Undef(p) == IF Mode = "sys" THEN SysUndef(p) ELSE {}
Crit(p) == IF Mode = "sys" THEN SysCrit(p) ELSE {}

-----------------------------------------------------------------------------
(* constructors of the class (used by the MC_* wrappers to build Base) *)
Vecs(cs) == [1..NV -> cs]
ZeroVec == [j \in 1..NV |-> Zero]
Unit(i, a) == [j \in 1..NV |-> IF j = i THEN a ELSE Zero]
Line(f, j, op, v, c, w, d) == [f |-> f, j |-> j, op |-> op, v |-> v, c |-> c, w |-> w, d |-> d, e |-> 0]

(* linear lines in normal form  v.x op d *)
LinLines(cs, ks, ops) == {Line("lin", 0, op, v, Zero, ZeroVec, d) : v \in Vecs(cs), d \in ks, op \in ops}

IJ == {ij \in (1..NV) \X (1..NV) : ij[1] # ij[2]}
(* the catalogue of single-factor rational forms; as: factors a # 0, ks: constants, bs: offsets *)
RatLines(as, ks, bs, ops) ==
       {Line("div", ij[2], op, Unit(ij[1], a), Zero, ZeroVec, k) :              \* a*xi/xj op k
            ij \in IJ, a \in as, k \in ks, op \in ops}
  \cup {Line("mul", ij[2], op, Unit(ij[1], a), Zero, ZeroVec, k) :              \* a*xi*xj op k
            ij \in IJ, a \in as, k \in ks, op \in ops}
  \cup {Line("div", ij[2], op, ZeroVec, k, Unit(ij[1], a), b) :                 \* k/xj op a*xi + b
            ij \in IJ, a \in as, k \in ks \ {Zero}, b \in bs, op \in ops}
  \cup {Line("div", j, op, ZeroVec, k, ZeroVec, b) :                            \* k/xj op b
            j \in 1..NV, k \in ks \ {Zero}, b \in bs, op \in ops}
  \cup {Line("div", ij[2], op, Unit(ij[1], a), b, ZeroVec, k) :                 \* (a*xi + b)/xj op k
            ij \in IJ, a \in as, b \in bs \ {Zero}, k \in ks, op \in ops}

Sys1(lines) == {<<l>> : l \in lines}
Sys2(la, lb) == {<<l1, l2>> : l1 \in la, l2 \in lb}

(* matrices / bounds *)
Rows(vals) == [1..NV -> vals]
Mats(vals, rhs, ne, ni) ==
  {[A |-> a, b |-> b, G |-> g, h |-> h] :
      a \in [1..ne -> Rows(vals)], b \in [1..ne -> rhs], g \in [1..ni -> Rows(vals)], h \in [1..ni -> rhs]}

(* consistency of A x = b over the rationals, for 1 or 2 rows: rank A = rank [A|b] *)
RowZero(r) == \A j \in 1..NV : r[j] = 0
Minor(r1, r2, i, j) == r1[i] * r2[j] - r1[j] * r2[i]
Consistent(m) ==
  IF Len(m.A) = 1 THEN ~RowZero(m.A[1]) \/ m.b[1] = 0
  ELSE LET r1 == m.A[1]
           r2 == m.A[2]
           full == \E i, j \in 1..NV : Minor(r1, r2, i, j) # 0
       IN  \/ full
           \/ /\ \A j \in 1..NV : r1[j] * m.b[2] - m.b[1] * r2[j] = 0     \* augmented minors vanish too
              /\ (RowZero(r1) => m.b[1] = 0) /\ (RowZero(r2) => m.b[2] = 0)
EqSystems(vals, rhs, ne) == {m \in Mats(vals, rhs, ne, 0) : Consistent(m)}

Bnds(vals) == {[lo |-> lo, hi |-> hi] : lo \in [1..NV -> vals \cup {NONE}], hi \in [1..NV -> vals \cup {NONE}]}
ValidBnds(vals) == {bd \in Bnds(vals) : \A j \in 1..NV : (bd.lo[j] # NONE /\ bd.hi[j] # NONE) => bd.lo[j] <= bd.hi[j]}

-----------------------------------------------------------------------------
(* selection of base programs: number i of SetToSeq(Base) is explored iff  *)
(* i % STRIDE = OFFSET (environment; default: everything).  Used to sample *)
(* by seed (quick tier) and to partition over several TLC processes.       *)
Stride == IF "STRIDE" \in DOMAIN IOEnv THEN atoi(IOEnv.STRIDE) ELSE 1
Offset == IF "OFFSET" \in DOMAIN IOEnv THEN atoi(IOEnv.OFFSET) ELSE 0
BaseSeq == SetToSeq(Base)

Init == /\ \E i \in 1..Len(BaseSeq) : i % Stride = Offset /\ prog = BaseSeq[i]
        /\ orig = prog
        /\ hist = << >>
        /\ sol = Sol(prog) /\ und = Undef(prog)

-----------------------------------------------------------------------------
(* equivalence rewrites of one line *)
LineOK(ln) == /\ \A j \in 1..NV : InRange(ln.v[j]) /\ InRange(ln.w[j])
              /\ InRange(ln.c) /\ InRange(ln.d)

ScaleLine(ln, k, flip) ==
  [ln EXCEPT !.v = [j \in 1..NV |-> RMul(ln.v[j], k)], !.c = RMul(ln.c, k),
             !.w = [j \in 1..NV |-> RMul(ln.w[j], k)], !.d = RMul(ln.d, k),
             !.op = IF flip THEN Flip(ln.op) ELSE ln.op]

Replace(l, ln, name) ==
  /\ LineOK(ln)
  /\ ln # prog[l]
  /\ prog' = [prog EXCEPT ![l] = ln]
  /\ hist' = Append(hist, name)
  /\ UNCHANGED <<orig, sol, und>>

(* multiply both sides by k # 0; the comparator flips iff k < 0 *)
Scale(l, k) == Replace(l, ScaleLine(prog[l], k, k[1] < 0), "scale")
(* NEGATIVE CONTROL: scaling by a negative constant without flipping *)
BadScale(l, k) == AllowBad /\ k[1] < 0 /\ Replace(l, ScaleLine(prog[l], k, FALSE), "BADscale")

(* move the x_j term of a linear line to the other side *)
MoveRight(l, j) == LET ln == prog[l] IN
  /\ ln.f = "lin" /\ ln.v[j] # Zero
  /\ Replace(l, [ln EXCEPT !.w[j] = RSub(ln.w[j], ln.v[j]), !.v[j] = Zero], "moveR")
MoveLeft(l, j) == LET ln == prog[l] IN
  /\ ln.f = "lin" /\ ln.w[j] # Zero
  /\ Replace(l, [ln EXCEPT !.v[j] = RSub(ln.v[j], ln.w[j]), !.w[j] = Zero], "moveL")
(* move the constant across (for div/mul only the constant of the plain side) *)
ConstLeft(l) == LET ln == prog[l] IN
  /\ ln.f = "lin" /\ ln.d # Zero
  /\ Replace(l, [ln EXCEPT !.c = RSub(ln.c, ln.d), !.d = Zero], "constL")
ConstRight(l) == LET ln == prog[l] IN
  /\ ln.f = "lin" /\ ln.c # Zero
  /\ Replace(l, [ln EXCEPT !.d = RSub(ln.d, ln.c), !.c = Zero], "constR")
(* add t*x_j to both sides: the same variable then occurs on both sides *)
AddBoth(l, j, t) == LET ln == prog[l] IN
  /\ ln.f = "lin"
  /\ Replace(l, [ln EXCEPT !.v[j] = RAdd(ln.v[j], t), !.w[j] = RAdd(ln.w[j], t)], "addboth")
(* lhs op rhs  ==  rhs flip(op) lhs *)
SwapSides(l) == LET ln == prog[l] IN
  /\ ln.f = "lin"
  /\ Replace(l, [ln EXCEPT !.v = ln.w, !.w = ln.v, !.c = ln.d, !.d = ln.c, !.op = Flip(ln.op)], "swap")
(* write every number of the line multiplied by 10^e *)
SetExp(l, e) == prog[l].e = 0 /\ Replace(l, [prog[l] EXCEPT !.e = e], "exp")
SwapLines == /\ Len(prog) = 2 /\ prog[1] # prog[2]
             /\ prog' = <<prog[2], prog[1]>> /\ hist' = Append(hist, "swaplines") /\ UNCHANGED <<orig, sol, und>>

Rewrite ==
  /\ Mode = "sys" /\ Len(hist) < MaxRw
  /\ \/ \E l \in 1..Len(prog) :
           \/ \E k \in Mults : Scale(l, k) \/ BadScale(l, k)
           \/ \E j \in 1..NV : MoveRight(l, j) \/ MoveLeft(l, j) \/ (\E t \in Adds : AddBoth(l, j, t))
           \/ ConstLeft(l) \/ ConstRight(l) \/ SwapSides(l)
           \/ \E e \in Exps : SetExp(l, e)
     \/ SwapLines

Next == Rewrite
Spec == Init /\ [][Next]_vars

-----------------------------------------------------------------------------
(* the design statement: rewriting never changes the solution set, nor the *)
(* set of points where the relation is undefined                           *)
SolPreserved == Sol(prog) = sol /\ Undef(prog) = und

(* well-formedness of everything enumerated *)
TypeOK ==
  Mode = "sys" =>
    \A l \in 1..Len(prog) :
      /\ prog[l].f \in {"lin", "div", "mul"} /\ prog[l].op \in AllOps
      /\ (prog[l].f # "lin" => prog[l].j \in 1..NV)
      /\ LineOK(prog[l])

(* the flip rule as a theorem about lines: scaling by -1 with flip is an  *)
(* equivalence at every grid point (pointwise form of SolPreserved)        *)
FlipRule ==
  Mode = "sys" =>
    \A l \in 1..Len(prog) :
      LET il == IntLine(prog[l])
          fl == IntLine(ScaleLine(prog[l], <<-1, 1>>, TRUE))
      IN  \A k \in PtIds : DefinedI(il, Pts[k]) => (HoldsI(il, Pts[k]) <=> HoldsI(fl, Pts[k]))

-----------------------------------------------------------------------------
(* emission: one header, then one line per distinct reachable state *)
ASSUME PrintT(<<"@@", ToJson([hdr |-> TRUE, mode |-> Mode, nv |-> NV, coords |-> Coords,
                               npts |-> NPts, nbase |-> Len(BaseSeq), stride |-> Stride, offset |-> Offset])>>)

Emit == PrintT(<<"@@", ToJson([p |-> prog, rw |-> hist, sol |-> sol, und |-> und, crit |-> Crit(prog)])>>)
=============================================================================
