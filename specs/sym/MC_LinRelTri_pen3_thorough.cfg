SPECIFICATION Spec
CONSTANTS
  N = 3
  Vals <- VS
  Rels <- TRelsP3
  Systems <- AnyTriples
  Boxes = {}
  Ks <- QKs
  Scales <- QScales
INVARIANT TypeOK
INVARIANT LastHolds
INVARIANT Orientation
INVARIANT PenaltyZeroSet
INVARIANT CrossZero
INVARIANT EmitC14
