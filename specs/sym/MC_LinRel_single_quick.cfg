SPECIFICATION Spec
CONSTANTS
  N = 3
  Vals <- V2
  Rels <- QRels1
  Systems <- Singles
  Boxes = {}
  Ks <- QKs
  Scales <- QScales
INVARIANT TypeOK
INVARIANT LastHolds
INVARIANT Footprint
INVARIANT FeasibleFixed
INVARIANT IndependentAllHold
INVARIANT StepViewFrozen
INVARIANT Satisfiable
INVARIANT Orientation
INVARIANT CrossZero
INVARIANT ScaleLemma
INVARIANT EmitC13
