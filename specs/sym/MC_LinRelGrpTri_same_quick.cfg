SPECIFICATION SpecG
CONSTANTS
  N = 2
  Vals <- EV3
  Rels <- QRelsG3
  Systems <- SameTriples
  Boxes = {}
  Ks = {1}
  Scales = {2}
INVARIANT GrpTypeOK
INVARIANT GrpAllHold
INVARIANT GrpFootprint
INVARIANT GrpFeasibleFixed
INVARIANT GrpFrozen
INVARIANT EvenLattice
INVARIANT GrpSatLemma
INVARIANT GrpComplete
INVARIANT SingletonAgrees
INVARIANT ClosedMeetsNeq
INVARIANT DegenerateInterval
INVARIANT EmptyInterval
INVARIANT EmitGrp
