SPECIFICATION Spec
CONSTANTS
  N = 3
  Vals <- VLongP
  Rels <- QRelsPL
  Systems <- Singles
  Boxes = {}
  Ks <- PKs
  Scales = {2}
INVARIANT TypeOK
INVARIANT LastHolds
INVARIANT Orientation
INVARIANT PenaltyZeroSet
INVARIANT KZero
INVARIANT CrossZero
INVARIANT ScaleLemma
INVARIANT EmitC14
