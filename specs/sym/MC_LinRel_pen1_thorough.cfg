SPECIFICATION Spec
CONSTANTS
  N = 3
  Vals <- V3
  Rels <- TRelsP1
  Systems <- Singles
  Boxes = {}
  Ks <- PKs
  Scales <- QScales
INVARIANT TypeOK
INVARIANT LastHolds
INVARIANT Orientation
INVARIANT PenaltyZeroSet
INVARIANT KZero
INVARIANT CrossZero
INVARIANT ScaleLemma
INVARIANT EmitC14
