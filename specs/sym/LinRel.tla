------------------------------- MODULE LinRel -------------------------------
(***************************************************************************)
(* S7 (C13, C14) -- relations with one variable isolated on the left, the  *)
(* COMPILE semantics of mystic.symbolic.generate_solvers /                 *)
(* generate_constraint, the CONDITION / PENALTY semantics of               *)
(* generate_conditions / generate_penalty, and the bounds constraint of    *)
(* mystic.constraints.boundsconstrain.                                     *)
(*                                                                         *)
(* Program class.  A RELATION is the record [i, m, op, kind, c0, a1, a2]:  *)
(*        m * x_i   op   c0 + a1*T1 + a2*T2                                *)
(*   i     index of the left-hand variable (1..N)                          *)
(*   m     left-hand multiplier; m = 1 is the ISOLATED form (the only one  *)
(*         generate_solvers accepts, C13); m # 1 occurs in penalty text    *)
(*         only (C14: "any coefficients")                                  *)
(*   op    one of "=", "<=", ">=", "<", ">", "!="                          *)
(*   kind  the right-hand side over the OTHER variables p = O1(i),         *)
(*         q = O2(i) (the next two variables cyclically, so x_i never      *)
(*         occurs on its own right-hand side):                             *)
(*           "aff":  c0 + a1*x_p       + a2*x_q                            *)
(*           "mul":  c0 + a1*x_p*x_q                                       *)
(*           "sq" :  c0 + a1*x_p**2    + a2*x_q                            *)
(*           "abs":  c0 + a1*abs(x_p)  + a2*x_q                            *)
(* A SYSTEM is a sequence of relations (one per text line), here a         *)
(* sequence of indices into RelSeq, the catalogue of the run.  Points are  *)
(* vectors [1..N -> Int].  The TEXT of a relation (variable-name scheme,   *)
(* number format, which of 12 positions a spec variable occupies) is       *)
(* syntax and is produced by harness/linrel_text.py from the record; that  *)
(* rendering is a bijection documented there, never the oracle.            *)
(*                                                                         *)
(* State machine (one action per public call):                             *)
(*   x0   the input vector handed to the generated function                *)
(*   x    the current vector                                               *)
(*   sys  the system whose text was compiled (chosen in Init)              *)
(*   pc   number of lines of sys already applied (solver functions run     *)
(*        one after the other: coupler.inner composition)                  *)
(*   bx   index of the box whose bounds constraint has been applied (0 =   *)
(*        none)                                                            *)
(*   Apply(rel):  x' \in CompileResult(rel, x)     one generated solver    *)
(*   Bound(b):    x' = Clip(x, BoxSeq[b])          boundsconstrain(lo,hi)  *)
(* CompileResult is a RELATION between input and output (the statement of  *)
(* C13 fixes a value only for "="): y differs from x at most in x_i;       *)
(* Holds(rel, y) -- strictly for strict comparators because Holds is the   *)
(* comparator itself --; Holds(rel, x) => y = x.                           *)
(*                                                                         *)
(* Numbers.  Everything is an integer.  The strictness tolerance of        *)
(* mystic (tolerance(rhs) = tol + |rhs|*rel, default 1e-15 each) is the    *)
(* symbol TAU with 0 < TAU < 1 (the spacing of the integer lattice): a     *)
(* condition value is the pair (v, e) meaning v + e*TAU, e in {0, 1}.      *)
(* Two readings are emitted: the limit TAU -> 0+ ("lim", the integer part; *)
(* the harness allows the documented tolerance term on top of it for the   *)
(* default tolerances) and TAU = 1/4 exactly ("q16": values in units of    *)
(* 1/16; the harness passes locals tol=0.25, rel=0 so floats are exact).   *)
(* A third reading, "r16", is the OTHER legal way of giving the tolerance: *)
(* locals tol=0 (a legal value that is falsy in Python), rel=0.25, i.e.    *)
(* TAU(rhs) = |rhs|/4 (again units of 1/16, floats exact).  With tol = 0   *)
(* the tolerance vanishes where rhs = 0 and exceeds the lattice spacing    *)
(* where |rhs| >= 4, so this reading is defined only at points where every *)
(* strict line has 0 < |rhs| < 4 (R16Defined).                             *)
(* Units.  The integers of the spec are multiples of an arbitrary unit u:  *)
(* for degree-one relations nothing but the unit changes when constants    *)
(* and coordinates are multiplied by S (ScaleLemma), so the harness may    *)
(* also use u = 2^-30, 2^-1000 (tiny but not zero) and, for relations      *)
(* without arithmetic (right-hand side a constant or +-one variable), any  *)
(* positive float (0.1, 1e-10, 1e10, 1e300).  The multiplier k of a        *)
(* penalty is a factor of the whole sum by definition: k = 0 (falsy, the   *)
(* penalty vanishes: KZero), fractional and huge k are k-units of the k    *)
(* TLC enumerates.  Boxes: Clip commutes with every positive scale         *)
(* (BoxScaleLemma; the unbounded sides stay unbounded).                    *)
(* Huge magnitudes: ScaleLemma states that relations of degree one         *)
(* (kinds "aff", "abs") with c0 scaled by S hold at S*x iff the original   *)
(* holds at x, and that condition values / penalties scale by S / S^deg;   *)
(* TLC checks it for the small Scales, the harness uses S = 2^40, 2^60     *)
(* (powers of two, so IEEE arithmetic stays exact).                        *)
(***************************************************************************)
EXTENDS Integers, Sequences, FiniteSets, TLC, Json, SequencesExt, IOUtils

CONSTANTS N,        \* number of variables
          Vals,     \* coordinate values of the input points
          Rels,     \* the catalogue of relations (set of records)
          Systems,  \* set of systems = sequences of indices into RelSeq
          Boxes,    \* set of boxes [lo, hi] (N-tuples; NINF / PINF = no bound)
          Ks,       \* penalty multipliers k
          Scales    \* small scale factors for ScaleLemma

VARIABLES x0, x, sys, pc, bx
vars == <<x0, x, sys, pc, bx>>

NINF == -1000000
PINF == 1000000

AllOps == {"=", "<=", ">=", "<", ">", "!="}
Abs(a) == IF a < 0 THEN -a ELSE a
Sgn(a) == IF a < 0 THEN -1 ELSE IF a > 0 THEN 1 ELSE 0
Pos(a) == IF a > 0 THEN a ELSE 0

RelSeq == SetToSeq(Rels)
BoxSeq == SetToSeq(Boxes)
KSeq   == SetToSeq(Ks)
NR == Len(RelSeq)
Points == [1..N -> Vals]

-----------------------------------------------------------------------------
(* denotation of a relation *)
O1(i) == (i % N) + 1
O2(i) == ((i + 1) % N) + 1

Rhs(rel, p) ==
  LET u == p[O1(rel.i)]
      w == p[O2(rel.i)]
  IN  CASE rel.kind = "aff" -> rel.c0 + rel.a1 * u + rel.a2 * w
        [] rel.kind = "mul" -> rel.c0 + rel.a1 * u * w
        [] rel.kind = "sq"  -> rel.c0 + rel.a1 * u * u + rel.a2 * w
        [] rel.kind = "abs" -> rel.c0 + rel.a1 * Abs(u) + rel.a2 * w

Lhs(rel, p) == rel.m * p[rel.i]

Cmp(op, a, b) == CASE op = "="  -> a = b
                   [] op = "<=" -> a <= b
                   [] op = ">=" -> a >= b
                   [] op = "<"  -> a < b
                   [] op = ">"  -> a > b
                   [] op = "!=" -> a # b

Holds(rel, p) == Cmp(rel.op, Lhs(rel, p), Rhs(rel, p))

(* variables the text of the right-hand side mentions *)
UsedVars(rel) ==
     (IF rel.a1 # 0 THEN {O1(rel.i)} ELSE {})
  \cup (IF rel.kind = "mul" /\ rel.a1 # 0 THEN {O2(rel.i)} ELSE {})
  \cup (IF rel.kind # "mul" /\ rel.a2 # 0 THEN {O2(rel.i)} ELSE {})

Isolated(rel) == rel.m = 1
Rel(k) == RelSeq[sys[k]]
Lines == 1..Len(sys)
IsolatedSys == \A k \in Lines : Isolated(Rel(k))

(* "relations whose left-hand variables do not feed one another": distinct *)
(* left-hand variables, none of which occurs in a right-hand side.         *)
(* (Several lines on the SAME left-hand variable -- "x_i <= f, x_i != f",  *)
(* intervals -- need a joint result per variable: LinRelGrp.tla.)          *)
IndependentRels(s) ==
  \A k, l \in 1..Len(s) : /\ s[k].i \notin UsedVars(s[l])
                          /\ (k # l => s[k].i # s[l].i)
Independent == IndependentRels([k \in Lines |-> Rel(k)])

-----------------------------------------------------------------------------
(* C13: the compile semantics as a relation between input p and output y  *)
Cands(rel, p) ==
  LET r == Rhs(rel, p)
  IN  {[p EXCEPT ![rel.i] = v] : v \in {p[rel.i], r - 1, r, r + 1}}

Post(rel, p, y) ==
  /\ \A j \in 1..N : j # rel.i => y[j] = p[j]       \* differs at most in x_i
  /\ Holds(rel, y)                                  \* the relation holds (strictly if strict)
  /\ (Holds(rel, p) => y = p)                       \* a feasible input is returned as is

CompileResult(rel, p) == {y \in Cands(rel, p) : Post(rel, p, y)}

(* what the harness can observe of an output, and what the spec allows:    *)
(*   the sign of y_i - rhs, and the set of coordinates that may differ     *)
AllowedSigns(rel, p) == {Sgn(y[rel.i] - Rhs(rel, p)) : y \in CompileResult(rel, p)}
(* the signs of lhs - rhs for which a comparator holds (to re-check a line after a later step) *)
HoldSigns(op) == {s \in {-1, 0, 1} : Cmp(op, s, 0)}
MayChange(rel, p) == {j \in 1..N : \E y \in CompileResult(rel, p) : y[j] # p[j]}

-----------------------------------------------------------------------------
(* C14: condition functions.  value = v + e*TAU;  q = member of the        *)
(* equality list.  lhs - rhs, negated for ">" / ">=", the tolerance term   *)
(* added for the strict comparators; "!=" is the truth value of lhs = rhs. *)
CondOf(rel, p) ==
  LET d == Lhs(rel, p) - Rhs(rel, p)
  IN  CASE rel.op = "="  -> [q |-> TRUE,  v |-> d,  e |-> 0]
        [] rel.op = "!=" -> [q |-> TRUE,  v |-> IF d = 0 THEN 1 ELSE 0, e |-> 0]
        [] rel.op = "<=" -> [q |-> FALSE, v |-> d,  e |-> 0]
        [] rel.op = "<"  -> [q |-> FALSE, v |-> d,  e |-> 1]
        [] rel.op = ">=" -> [q |-> FALSE, v |-> -d, e |-> 0]
        [] rel.op = ">"  -> [q |-> FALSE, v |-> -d, e |-> 1]

(* satisfied: equality value = 0, inequality value <= 0  (0 < TAU < 1)     *)
CondSat(c) == IF c.q THEN c.v = 0 /\ c.e = 0 ELSE c.v + c.e <= 0

(* penalty families (mystic.penalty docstrings, iteration n = 0):          *)
(*   quad  quadratic_equality   k*f^2        quadratic_inequality 2k*max(0,f)^2 *)
(*   lin   linear_equality      k*|f|        linear_inequality    2k*max(0,f)   *)
(*   unif  uniform_equality     k if f # 0   uniform_inequality   k if f > 0    *)
(*   lagr  lagrange_equality    k*f^2        lagrange_inequality  k*max(0,f)^2  *)
FamSeq == <<"quad", "lin", "unif", "lagr">>

(* per-line term for k = 1 as a function of the value f given in units 1/u *)
(* (result in units 1/(u*u)); viol = the condition is violated             *)
Term(fam, c, f, u) ==
  CASE fam = "quad" -> IF c.q THEN f * f ELSE 2 * Pos(f) * Pos(f)
    [] fam = "lin"  -> IF c.q THEN u * Abs(f) ELSE 2 * u * Pos(f)
    [] fam = "unif" -> IF CondSat(c) THEN 0 ELSE u * u
    [] fam = "lagr" -> IF c.q THEN f * f ELSE Pos(f) * Pos(f)

TermLim(fam, c) == Term(fam, c, c.v, 1)                 \* TAU -> 0+, units 1
TermQ16(fam, c) == Term(fam, c, 4 * c.v + c.e, 4)       \* TAU = 1/4, units 1/16
TermR16(fam, c, r) == Term(fam, c, 4 * c.v + c.e * Abs(r), 4)   \* TAU = |rhs|/4 (tol = 0, rel = 1/4), units 1/16

RECURSIVE SumTo(_, _)
SumTo(f, n) == IF n = 0 THEN 0 ELSE f[n] + SumTo(f, n - 1)

(* the conditions of a system s (sequence of relation records) at point p, *)
(* each with its right-hand value: computed once per state                 *)
Conds(s, p) == [l \in 1..Len(s) |-> [c |-> CondOf(s[l], p), r |-> Rhs(s[l], p)]]

(* the sum of the per-line terms for multiplier 1, from the conditions cs  *)
UnitLim(fam, cs) == SumTo([l \in 1..Len(cs) |-> TermLim(fam, cs[l].c)], Len(cs))
UnitQ16(fam, cs) == SumTo([l \in 1..Len(cs) |-> TermQ16(fam, cs[l].c)], Len(cs))
UnitR16(fam, cs) == SumTo([l \in 1..Len(cs) |-> TermR16(fam, cs[l].c, cs[l].r)], Len(cs))

(* penalty of the system at the point: the multiplier k times that sum --  *)
(* k is a factor of the whole sum BY DEFINITION (the documented formula    *)
(* pk*f(x)**2 etc. per line, summed), so Pen(k) = k * Pen(1): k = 0 gives  *)
(* 0, and fractional / huge k are k-units of the k TLC enumerates          *)
PenLim(fam, k, s, p) == k * UnitLim(fam, Conds(s, p))
PenQ16(fam, k, s, p) == k * UnitQ16(fam, Conds(s, p))
PenR16(fam, k, s, p) == k * UnitR16(fam, Conds(s, p))
(* the reading tol = 0, rel = 1/4 is defined where the tolerance |rhs|/4 of *)
(* every strict line is positive and smaller than the lattice spacing 1     *)
R16DefinedC(cs) == \A l \in 1..Len(cs) : cs[l].c.e = 1 => (cs[l].r # 0 /\ Abs(cs[l].r) < 4)
R16Defined(s, p) == R16DefinedC(Conds(s, p))

SysRecs == [k \in Lines |-> Rel(k)]

-----------------------------------------------------------------------------
(* the bounds constraint *)
Clip1(v, lo, hi) == IF v < lo THEN lo ELSE IF v > hi THEN hi ELSE v
Clip(p, b) == [j \in 1..N |-> Clip1(p[j], b.lo[j], b.hi[j])]
InBox(p, b) == \A j \in 1..N : b.lo[j] <= p[j] /\ p[j] <= b.hi[j]

-----------------------------------------------------------------------------
(* the machine *)
(* The systems of a run can be partitioned over several TLC processes:     *)
(* system number n of SysSeq is explored iff n % STRIDE = OFFSET (taken    *)
(* from the environment; default: everything).                             *)
Stride == IF "STRIDE" \in DOMAIN IOEnv THEN atoi(IOEnv.STRIDE) ELSE 1
Offset == IF "OFFSET" \in DOMAIN IOEnv THEN atoi(IOEnv.OFFSET) ELSE 0
SysSeq == SetToSeq(Systems)

Init == /\ \E n \in 1..Len(SysSeq) : n % Stride = Offset /\ sys = SysSeq[n]
        /\ x0 \in Points
        /\ x = x0
        /\ pc = 0
        /\ bx = 0

Apply(rel) == /\ x' \in CompileResult(rel, x)
              /\ pc' = pc + 1
              /\ UNCHANGED <<x0, sys, bx>>

Bound(b) == /\ bx = 0 /\ pc = Len(sys)
            /\ x' = Clip(x, BoxSeq[b])
            /\ bx' = b
            /\ UNCHANGED <<x0, sys, pc>>

Next == \/ /\ pc < Len(sys) /\ bx = 0 /\ IsolatedSys
           /\ Apply(Rel(pc + 1))
        \/ \E b \in 1..Len(BoxSeq) : Bound(b)

Spec == Init /\ [][Next]_vars

-----------------------------------------------------------------------------
(* C13 as invariants of the machine *)
Applied == 1..pc

(* the relation compiled last holds in the returned vector *)
LastHolds == (pc > 0 /\ bx = 0) => Holds(Rel(pc), x)

(* only left-hand variables of applied lines can differ from the input *)
Footprint == bx = 0 => \A j \in 1..N : x[j] # x0[j] => \E k \in Applied : Rel(k).i = j

(* an input that satisfies every applied line is returned unchanged *)
FeasibleFixed == (bx = 0 /\ \A k \in Applied : Holds(Rel(k), x0)) => x = x0

(* independent left-hand sides: all applied lines hold at once *)
IndependentAllHold == (bx = 0 /\ Independent) => \A k \in Applied : Holds(Rel(k), x)

(* ... and what a not yet applied line reads is still what it reads at x0; *)
(* this is what lets the per-line expectations be emitted at x0            *)
StepViewFrozen ==
  (bx = 0 /\ Independent) =>
     \A k \in Lines : k > pc => /\ Rhs(Rel(k), x) = Rhs(Rel(k), x0)
                                /\ x[Rel(k).i] = x0[Rel(k).i]

(* NOT an invariant (negative control, MC_LinRelSys_neg.cfg): without the  *)
(* independence premise an earlier line may be broken by a later one       *)
DependentAlsoHold == bx = 0 => \A k \in Applied : Holds(Rel(k), x)

(* a compile step always has an outcome (the relation is satisfiable in x_i) *)
Satisfiable == \A k \in Lines : Isolated(Rel(k)) => CompileResult(Rel(k), x) # {}

(* C14 as invariants: orientation, zero set, positivity, cross property *)
Orientation == \A k \in Lines : CondSat(CondOf(Rel(k), x)) <=> Holds(Rel(k), x)

AllHold(p) == \A k \in Lines : Holds(Rel(k), p)

(* "zero exactly at points satisfying every line, positive elsewhere" is a  *)
(* statement about multipliers k > 0 (a sum of terms >= 0 times k); k = 0   *)
(* switches the penalty off (KZero)                                        *)
PenaltyZeroSet ==
  \A cs \in {Conds(SysRecs, x)} : \A ah \in {AllHold(x)} : \A rd \in {R16DefinedC(cs)} :
      \A f \in 1..Len(FamSeq) :
        \A ul \in {UnitLim(FamSeq[f], cs)} : \A uq \in {UnitQ16(FamSeq[f], cs)} : \A ur \in {UnitR16(FamSeq[f], cs)} :
            /\ ul >= 0 /\ uq >= 0 /\ ur >= 0
            /\ (uq = 0 <=> ah)
            /\ (rd => (ur = 0 <=> ah))
            /\ (ah => ul = 0)
            /\ \A k \in Ks : /\ k >= 0
                              /\ (k > 0 => ((k * uq = 0 <=> ah) /\ (rd => (k * ur = 0 <=> ah))))

(* k = 0 (a legal multiplier that is falsy in Python): the penalty vanishes everywhere *)
KZero ==
  \A f \in 1..Len(FamSeq) :
     /\ PenLim(FamSeq[f], 0, SysRecs, x) = 0
     /\ PenQ16(FamSeq[f], 0, SysRecs, x) = 0
     /\ PenR16(FamSeq[f], 0, SysRecs, x) = 0

(* penalty(constraint(x)) = 0 for independent isolated systems *)
CrossZero ==
  (bx = 0 /\ pc = Len(sys) /\ IsolatedSys /\ Independent) =>
     \A cs \in {Conds(SysRecs, x)} : \A f \in 1..Len(FamSeq) : \A k \in Ks : k * UnitQ16(FamSeq[f], cs) = 0

(* huge magnitudes: degree-one relations are scale invariant *)
Degree1(rel) == rel.kind \in {"aff", "abs"}
ScaleRel(rel, S) == [rel EXCEPT !.c0 = S * rel.c0]
ScalePt(p, S) == [j \in 1..N |-> S * p[j]]
FamDeg(fam) == CASE fam = "quad" -> 2 [] fam = "lagr" -> 2 [] fam = "lin" -> 1 [] fam = "unif" -> 0
PowS(S, d) == IF d = 0 THEN 1 ELSE IF d = 1 THEN S ELSE S * S
ScaleLemma ==
  \A k \in Lines : \A S \in Scales :
    Degree1(Rel(k)) =>
      LET r == Rel(k)
          rs == ScaleRel(r, S)
          ps == ScalePt(x, S)
      IN  /\ Rhs(rs, ps) = S * Rhs(r, x)
          /\ (Holds(rs, ps) <=> Holds(r, x))
          /\ CondOf(rs, ps).v = (IF r.op = "!=" THEN 1 ELSE S) * CondOf(r, x).v
          /\ \A f \in 1..Len(FamSeq) :
               TermLim(FamSeq[f], CondOf(rs, ps)) =
                 (IF r.op = "!=" THEN 1 ELSE PowS(S, FamDeg(FamSeq[f]))) * TermLim(FamSeq[f], CondOf(r, x))

(* bounds *)
BoxIn == bx # 0 => InBox(x, BoxSeq[bx])
BoxIdempotent == bx # 0 => Clip(x, BoxSeq[bx]) = x
(* magnitudes of boxes: clipping commutes with every positive scale (the    *)
(* sentinels of the unbounded sides are not scaled); with TLC's Scales here, *)
(* with 2^40, 1e10, 1e300, 0.1, 0.5, 1e-10, 1e-300, 5e-324 in the harness   *)
(* (multiplication by a positive float is monotone, so Clip needs no        *)
(* arithmetic beyond the comparisons the lemma is about)                    *)
ScaleBound(v, S) == IF v = NINF \/ v = PINF THEN v ELSE S * v
ScaleBox(b, S) == [lo |-> [j \in 1..N |-> ScaleBound(b.lo[j], S)], hi |-> [j \in 1..N |-> ScaleBound(b.hi[j], S)]]
BoxScaleLemma ==
  bx = 0 =>
  \A b \in 1..Len(BoxSeq) : \A S \in Scales :
     /\ Clip(ScalePt(x, S), ScaleBox(BoxSeq[b], S)) = ScalePt(Clip(x, BoxSeq[b]), S)
     /\ (InBox(ScalePt(x, S), ScaleBox(BoxSeq[b], S)) <=> InBox(x, BoxSeq[b]))

BoxStep == [][\A b \in 1..Len(BoxSeq) : Bound(b) =>
                 /\ (InBox(x, BoxSeq[b]) => x' = x)
                 /\ \A j \in 1..N :
                      (BoxSeq[b].lo[j] <= x[j] /\ x[j] <= BoxSeq[b].hi[j]) => x'[j] = x[j]]_vars

TypeOK == /\ pc \in 0..Len(sys)
          /\ bx \in 0..Len(BoxSeq)
          /\ \A k \in Lines : sys[k] \in 1..NR

-----------------------------------------------------------------------------
(* emission (spec -> code).  Header once, then one line per initial state. *)
ASSUME PrintT(<<"@@", ToJson([hdr |-> TRUE, n |-> N, rels |-> RelSeq, boxes |-> BoxSeq,
                               ks |-> KSeq, fams |-> FamSeq, ninf |-> NINF, pinf |-> PINF,
                               hs |-> [o \in AllOps |-> HoldSigns(o)],
                               nsys |-> Len(SysSeq), stride |-> Stride, offset |-> Offset])>>)

(* C13: per line k (valid at x0 by StepViewFrozen): r = right-hand value,  *)
(* f = the input satisfies the line, g = allowed signs of y_i - r;         *)
(* ch = coordinates that may differ from the input at all                  *)
EmitC13 ==
  (pc = 0 /\ bx = 0 /\ Len(sys) > 0 /\ IsolatedSys /\ Independent) =>
    PrintT(<<"@@", ToJson([s  |-> sys, x |-> x0,
                           r  |-> [k \in Lines |-> Rhs(Rel(k), x0)],
                           f  |-> [k \in Lines |-> Holds(Rel(k), x0)],
                           g  |-> [k \in Lines |-> AllowedSigns(Rel(k), x0)],
                           ch |-> UNION {MayChange(Rel(k), x0) : k \in Lines}])>>)

(* C14: per line the condition (q, v, e), its right-hand value r (the      *)
(* argument of the tolerance term) and whether it is satisfied; per family *)
(* and multiplier (order: FamSeq major, KSeq minor) the penalty in the     *)
(* three readings <<lim, q16, r16>>; rok = the reading tol = 0 is defined  *)
(* at x0; ind = C13's premise holds, so penalty(constraint(x)) = 0         *)
EmitC14 ==
  (pc = 0 /\ bx = 0 /\ Len(sys) > 0) =>
    \* cs, u bound by quantifiers over singletons: TLC evaluates a bound value once, a LET definition at every use;
    \* p[fk] = k * (unit sums) = <<PenLim, PenQ16, PenR16>>(FamSeq[f], k, SysRecs, x0) by the definition of Pen*
    \A cs \in {Conds(SysRecs, x0)} :
    \A u \in {[f \in 1..Len(FamSeq) |-> <<UnitLim(FamSeq[f], cs), UnitQ16(FamSeq[f], cs), UnitR16(FamSeq[f], cs)>>]} :
    PrintT(<<"@@", ToJson([s   |-> sys, x |-> x0,
                           c   |-> [k \in Lines |-> <<IF cs[k].c.q THEN 1 ELSE 0, cs[k].c.v, cs[k].c.e, cs[k].r>>],
                           sat |-> [k \in Lines |-> CondSat(cs[k].c)],
                           p   |-> [fk \in 1..(Len(FamSeq) * Len(KSeq)) |->
                                      LET f == ((fk - 1) \div Len(KSeq)) + 1
                                          k == KSeq[((fk - 1) % Len(KSeq)) + 1]
                                      IN <<k * u[f][1], k * u[f][2], k * u[f][3]>>],
                           rok |-> R16DefinedC(cs),
                           ind |-> IsolatedSys /\ Independent])>>)

(* bounds: for the input x0 the clipped vector for every box of the run *)
EmitBox ==
  (pc = 0 /\ bx = 0) =>
    PrintT(<<"@@", ToJson([x |-> x0, y |-> [b \in 1..Len(BoxSeq) |-> Clip(x0, BoxSeq[b])],
                           inb |-> {b \in 1..Len(BoxSeq) : InBox(x0, BoxSeq[b])}])>>)
=============================================================================
