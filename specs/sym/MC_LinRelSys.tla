--------------------------- MODULE MC_LinRelSys ---------------------------
(* two-line systems over the catalogue of the run *)
EXTENDS MC_LinRel
Pairs == {<<a, b>> : a, b \in Idx}
(* C13 premise: distinct left-hand variables that occur in no right-hand side *)
IndepPairs == {s \in Pairs : IndependentRels(<<RelSeq[s[1]], RelSeq[s[2]]>>)}
(* any two lines, dependent or not, also on the same variable (design exploration, C14 texts) *)
AnyPairs == Pairs
(* unordered: penalty texts (the sum does not depend on the order of the lines) *)
UpPairs == {s \in Pairs : s[1] <= s[2]}
=============================================================================
