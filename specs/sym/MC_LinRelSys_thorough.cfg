SPECIFICATION Spec
CONSTANTS
  N = 4
  Vals <- VS
  Rels <- TRelsS
  Systems <- IndepPairs
  Boxes = {}
  Ks <- QKs
  Scales <- QScales
INVARIANT TypeOK
INVARIANT LastHolds
INVARIANT Footprint
INVARIANT FeasibleFixed
INVARIANT IndependentAllHold
INVARIANT StepViewFrozen
INVARIANT Satisfiable
INVARIANT Orientation
INVARIANT CrossZero
INVARIANT EmitC13
