SPECIFICATION Spec
CONSTANTS
  N = 3
  Vals <- VS
  Rels <- QRelsS
  Systems <- IndepPairs
  Boxes = {}
  Ks <- QKs
  Scales <- QScales
INVARIANT TypeOK
INVARIANT LastHolds
INVARIANT Footprint
INVARIANT FeasibleFixed
INVARIANT IndependentAllHold
INVARIANT StepViewFrozen
INVARIANT Satisfiable
INVARIANT Orientation
INVARIANT CrossZero
INVARIANT EmitC13
