--------------------------- MODULE MC_LinRelGrp ---------------------------
(* Constants for the runs of LinRelGrp (C13: several relations on the SAME *)
(* left-hand variable).  EVEN constants only and even input coordinates    *)
(* (see "Numbers" in LinRelGrp.tla; EvenLattice is an invariant of every   *)
(* run).  Pair builders live here, triple builders in MC_LinRelGrpTri (TLC *)
(* evaluates every zero-arity definition of the modules it loads).         *)
EXTENDS LinRelGrp

T(kind, c0, a1, a2) == [kind |-> kind, c0 |-> c0, a1 |-> a1, a2 |-> a2]
MkRels(Is, Ms, Os, Ts) ==
  {[i |-> i, m |-> m, op |-> op, kind |-> t.kind, c0 |-> t.c0, a1 |-> t.a1, a2 |-> t.a2] :
      i \in Is, m \in Ms, op \in Os, t \in Ts}

Idx == 1..NR
EV3 == {-2, 0, 2}
EV4 == {-2, 0, 2, 4}

(* pairs, quick: N = 2 (the right-hand side reads the one other variable): *)
(* constant, other variable, affine 2 - 2*x_p                              *)
GT2 == {T("aff", 2, 0, 0), T("aff", 0, 1, 0), T("aff", 2, -2, 0)}
QRelsG2 == MkRels({1, 2}, {1}, AllOps, GT2)
(* pairs, thorough: N = 3, constants, either other variable, affine, nonlinear *)
GT3 == {T("aff", 2, 0, 0), T("aff", 0, 0, 0), T("aff", 0, 1, 0), T("aff", 0, 0, 1), T("aff", -2, 2, 0),
        T("aff", 2, -1, 1), T("mul", 0, 1, 0), T("sq", -2, 1, 0), T("abs", 0, 1, -1)}
TRelsG2 == MkRels(1..3, {1}, AllOps, GT3)

(* two lines on the same variable, both orders (a line may also be repeated) *)
SamePairs == {s \in {<<a, b>> : a, b \in Idx} : RelSeq[s[1]].i = RelSeq[s[2]].i}

(* three lines on one variable, quick: N = 2; thorough: N = 3, variables 1 and 3 *)
QRelsG3 == MkRels({1}, {1}, {">=", "<=", "!=", ">"}, {T("aff", 2, 0, 0), T("aff", 0, 1, 0)})
TRelsG3 == MkRels({1, 3}, {1}, AllOps, {T("aff", 2, 0, 0), T("aff", 0, 0, 1)})

(* a pair on one variable and an independent relation on another (N = 3):  *)
(* variable 1 reads x3 = O2(1) only, variable 2 reads x3 = O1(2) only       *)
QRelsGM == MkRels({1}, {1}, {"<=", ">", "!="}, {T("aff", 2, 0, 0), T("aff", 0, 0, 1)})
      \cup MkRels({2}, {1}, {"<"}, {T("aff", 0, 1, 0)})
TRelsGM == MkRels({1}, {1}, AllOps, {T("aff", 2, 0, 0), T("aff", 0, 0, 1)})
      \cup MkRels({2}, {1}, {"<", "=", "!=", ">="}, {T("aff", 0, 1, 0), T("aff", 0, 0, 0)})

(* negative control: the line-by-line machine of LinRel on same-variable pairs *)
RelsGNeg == MkRels({1}, {1}, {"<=", "!="}, {T("aff", 2, 0, 0)})
=============================================================================
