------------------------------- MODULE MC_Sym -------------------------------
(* Constant sets for the model-checking / enumeration configurations of     *)
(* SymClass (cfg files cannot contain tuples or records).  One wrapper,     *)
(* several cfg files: MC_Sym<Class>.cfg; the quick tier samples each class  *)
(* by seed through the STRIDE/OFFSET environment, the thorough tier         *)
(* enumerates it completely, partitioned over several TLC processes.        *)
EXTENDS SymClass

(* rationals *)
R(n, d) == <<n, d>>
C5  == {R(-2,1), R(-1,1), R(0,1), R(1,1), R(2,1)}
C7  == C5 \cup {R(-1,2), R(1,2)}
C9  == C7 \cup {R(1,4), R(-3,2)}
C3  == {R(-1,1), R(0,1), R(2,1)}
C5h == {R(-2,1), R(-1,1), R(0,1), R(1,1), R(1,2)}
K2  == {R(0,1), R(1,1)}
K4  == {R(-1,1), R(0,1), R(1,2), R(2,1)}
K5  == K4 \cup {R(-3,2)}
A5  == {R(-2,1), R(-1,1), R(1,1), R(2,1), R(1,2)}
A3  == {R(-2,1), R(1,1), R(1,2)}
A2  == {R(-1,1), R(2,1)}
K3  == {R(-1,1), R(0,1), R(2,1)}
B3  == {R(-1,1), R(0,1), R(1,1)}
B2  == {R(0,1), R(1,1)}

(* grids (half units) *)
Coords13 == <<-6, -5, -4, -3, -2, -1, 0, 1, 2, 3, 4, 5, 6>>
Coords9  == <<-4, -3, -2, -1, 0, 1, 2, 3, 4>>
Coords7  == <<-4, -2, -1, 0, 1, 2, 4>>

(* rewrites *)
QMults == {R(-1,1), R(2,1), R(-1,2)}
QAdds  == {R(1,1), R(-2,1)}
QExps  == {8, -8}

(* ---- program classes (Base) ---- *)
(* Lin3: one linear line over 3 variables, 7 coefficients, 4 constants, 5 comparators *)
BaseLin3 == Sys1(LinLines(C7, K4, AllOps))
(* Lin2: one linear line over 2 variables, richer numbers (1/4, -3/2: thirds appear when solved) *)
BaseLin2 == Sys1(LinLines(C9, K5, AllOps))
(* Lin2x2: two linear lines over 2 variables *)
BaseLin2x2 == Sys2(LinLines(C5h, {R(1,1)}, AllOps), LinLines(C3, {R(0,1), R(-1,1)}, AllOps))
(* Rat2 / Rat3: one single-factor rational line *)
BaseRat2 == Sys1(RatLines(A5, K4, B3, AllOps))
BaseRat3 == Sys1(RatLines(A3, K3, B2, AllOps))
(* Mix2: a rational line with a linear line, and two rational lines *)
RatSmall == RatLines(A2, {R(1,1)}, {R(0,1)}, AllOps)
LinSmall == LinLines(C3, K2, {"<=", ">", "=="})
BaseMix2 == Sys2(RatSmall, LinSmall) \cup Sys2(RatSmall, RatSmall)
(* Design: small class for the model check of the rewrite machine (depth 2) *)
BaseDesign == Sys1(LinLines(C3, K2, AllOps)) \cup Sys1(RatSmall)
              \cup Sys2(LinLines({R(-1,1), R(2,1)}, {R(1,1)}, {"<", ">="}), LinLines(C3, {R(0,1)}, {"<=", "=="}))

(* matrices for linear_symbolic: A x = b /\ G x <= h *)
MV == {-1, 0, 2}
MR == {-1, 0, 1}
BaseMat == Mats(MV, MR, 0, 1) \cup Mats(MV, MR, 1, 0) \cup Mats(MV, MR, 1, 1) \cup Mats(MV, MR, 0, 2)
(* consistent equality systems for solve *)
EV2 == {-2, -1, 0, 1, 2}
BaseEqs2 == EqSystems(EV2, MR, 1) \cup EqSystems(EV2, MR, 2)
BaseEqs3 == EqSystems(MV, MR, 1) \cup EqSystems(MV, MR, 2)
(* bounds for symbolic_bounds (half units) *)
BaseBnd2 == ValidBnds({-3, 0, 1, 4})
BaseBnd3 == ValidBnds({-3, 0, 4})
Nothing == {}
=============================================================================
