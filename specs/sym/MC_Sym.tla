------------------------------- MODULE MC_Sym -------------------------------
(* Constant sets for the model-checking / enumeration configurations of     *)
(* SymClass (cfg files cannot contain tuples or records).  One wrapper,     *)
(* several cfg files: MC_Sym<Class>.cfg; the quick tier samples each class  *)
(* by seed through the STRIDE/OFFSET environment, the thorough tier         *)
(* enumerates it completely, partitioned over several TLC processes.        *)
EXTENDS SymClass

CONSTANT Which       \* name of the program class this configuration enumerates (see BaseOf)

(* rationals *)
R(n, d) == <<n, d>>
C5  == {R(-2,1), R(-1,1), R(0,1), R(1,1), R(2,1)}
C7  == C5 \cup {R(-1,2), R(1,2)}
C9  == C7 \cup {R(1,4), R(-3,2)}
C3  == {R(-1,1), R(0,1), R(2,1)}
C5h == {R(-2,1), R(-1,1), R(0,1), R(1,1), R(1,2)}
K2  == {R(0,1), R(1,1)}
K4  == {R(-1,1), R(0,1), R(1,2), R(2,1)}
K5  == K4 \cup {R(-3,2)}
A5  == {R(-2,1), R(-1,1), R(1,1), R(2,1), R(1,2)}
A3  == {R(-2,1), R(1,1), R(1,2)}
A2  == {R(-1,1), R(2,1)}
K3  == {R(-1,1), R(0,1), R(2,1)}
B3  == {R(-1,1), R(0,1), R(1,1)}
B2  == {R(0,1), R(1,1)}

(* grids (half units) *)
Coords13 == <<-6, -5, -4, -3, -2, -1, 0, 1, 2, 3, 4, 5, 6>>
Coords9  == <<-4, -3, -2, -1, 0, 1, 2, 3, 4>>
Coords7  == <<-4, -2, -1, 0, 1, 2, 4>>

(* rewrites *)
QMults == {R(-1,1), R(2,1), R(-1,2)}
QAdds  == {R(1,1), R(-2,1)}
QExps  == {8, -8, -3}

(* ---- program classes ---- *)
(* TLC evaluates every constant definition without parameters when it starts, *)
(* so the (large) classes are the arms of an operator WITH a parameter and     *)
(* only the class named by the configuration is built:  Base <- TheBase.       *)
C3u == {R(-1,1), R(0,1), R(1,1)}
RatSmall(u) == RatLines(A2, {R(1,1)}, {R(0,1)}, AllOps)
LinSmall(u) == LinLines(C3, K2, {"<=", ">", "=="})
MV == {-1, 0, 2}
MR == {-1, 0, 1}
EV2 == {-2, -1, 0, 1, 2}

BaseOf(which) ==
  CASE which = "Lin3" ->       \* one linear line over 3 variables, 7 coefficients, 4 constants, 5 comparators
         Sys1(LinLines(C7, K4, AllOps))
    [] which = "Lin2" ->       \* one linear line over 2 variables, richer numbers (1/4, -3/2: thirds appear when solved)
         Sys1(LinLines(C9, K5, AllOps))
    [] which = "Lin2x2" ->     \* two linear lines over 2 variables; the two line sets overlap, so the class contains
                               \* duplicated lines, opposite pairs (e <= c with e >= c, e < c with e > c), parallel bounds
         Sys2(LinLines(C5h, {R(1,1)}, AllOps), LinLines(C3u, {R(1,1), R(-1,1)}, AllOps))
    [] which = "Rat2" ->       \* one single-factor rational line, 2 variables
         Sys1(RatLines(A5, K4, B3, AllOps))
    [] which = "Rat3" ->       \* one single-factor rational line, 3 variables
         Sys1(RatLines(A3, K3, B2, AllOps))
    [] which = "Mix2" ->       \* a rational line with a linear line, and two rational lines
         Sys2(RatSmall(0), LinSmall(0)) \cup Sys2(RatSmall(0), RatSmall(0))
    [] which = "Design" ->     \* small class for the model check of the rewrite machine (depth 2)
         Sys1(LinLines(C3, K2, AllOps)) \cup Sys1(RatSmall(0))
         \cup Sys2(LinLines({R(-1,1), R(2,1)}, {R(1,1)}, {"<", ">="}), LinLines(C3, {R(0,1)}, {"<=", "=="}))
    [] which = "Mat" ->        \* matrices for linear_symbolic: A x = b /\ G x <= h
         Mats(MV, MR, 0, 1) \cup Mats(MV, MR, 1, 0) \cup Mats(MV, MR, 1, 1) \cup Mats(MV, MR, 0, 2)
    [] which = "Eqs2" ->       \* consistent equality systems for solve, 2 variables (square and under-determined)
         EqSystems(EV2, MR, 1) \cup EqSystems(EV2, MR, 2)
    [] which = "Eqs3" ->       \* consistent equality systems for solve, 3 variables (under-determined)
         EqSystems(MV, MR, 1) \cup EqSystems(MV, MR, 2)
    [] which = "Bnd2" ->       \* bounds for symbolic_bounds (half units)
         ValidBnds({-3, 0, 1, 4})
    [] which = "Bnd3" ->
         ValidBnds({-3, 0, 4})
TheBase == BaseOf(Which)
=============================================================================
