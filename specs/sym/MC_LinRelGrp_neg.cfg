SPECIFICATION Spec
CONSTANTS
  N = 2
  Vals <- EV3
  Rels <- RelsGNeg
  Systems <- SamePairs
  Boxes = {}
  Ks = {1}
  Scales = {2}
INVARIANT DependentAlsoHold
