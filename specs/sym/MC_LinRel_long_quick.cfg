SPECIFICATION Spec
CONSTANTS
  N = 3
  Vals <- VLong
  Rels <- QRelsL
  Systems <- Singles
  Boxes = {}
  Ks <- QKs
  Scales = {2}
INVARIANT TypeOK
INVARIANT LastHolds
INVARIANT Footprint
INVARIANT FeasibleFixed
INVARIANT IndependentAllHold
INVARIANT StepViewFrozen
INVARIANT Satisfiable
INVARIANT Orientation
INVARIANT CrossZero
INVARIANT ScaleLemma
INVARIANT EmitC13
