SPECIFICATION Spec
CONSTANTS
  N = 3
  Vals <- VS
  Rels <- QRelsP3
  Systems <- AnyTriples
  Boxes = {}
  Ks <- PKs
  Scales <- QScales
INVARIANT TypeOK
INVARIANT LastHolds
INVARIANT Orientation
INVARIANT PenaltyZeroSet
INVARIANT KZero
INVARIANT CrossZero
INVARIANT EmitC14
