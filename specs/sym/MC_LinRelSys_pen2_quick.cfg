SPECIFICATION Spec
CONSTANTS
  N = 3
  Vals <- VS
  Rels <- QRelsP2
  Systems <- UpPairs
  Boxes = {}
  Ks <- QKs
  Scales <- QScales
INVARIANT TypeOK
INVARIANT LastHolds
INVARIANT Orientation
INVARIANT PenaltyZeroSet
INVARIANT CrossZero
INVARIANT EmitC14
