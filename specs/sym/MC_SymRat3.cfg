SPECIFICATION Spec
CONSTANTS
  Mode = "sys"
  NV = 3
  Coords <- Coords7
  DEN = 4
  MaxNum = 4
  Base <- TheBase
  Which = "Rat3"
  Mults <- QMults
  Adds <- QAdds
  Exps <- QExps
  MaxRw = 1
  AllowBad = FALSE
INVARIANT TypeOK
INVARIANT SolPreserved
INVARIANT Emit
