----------------------------- MODULE LinRelGrp -----------------------------
(***************************************************************************)
(* S7 (C13), second half -- systems in which the SAME variable is isolated *)
(* on the left of several relations:                                       *)
(*      x_i <= f        x_i >= a        x_i >  a                           *)
(*      x_i != f        x_i <= b        x_i <  b      x_i != c   ...       *)
(* These are "several relations whose left-hand variables do not feed one  *)
(* another" as long as no left-hand variable occurs in any right-hand side *)
(* (GrpIndependent).  LinRel.tla describes such a system line by line      *)
(* (Apply(rel): x' \in CompileResult(rel, x)); composing the line          *)
(* semantics is NOT enough here: after "x_i <= 2" has moved x_i onto 2 the *)
(* line "x_i != 2" must move it again, and may not move it back across the *)
(* bound (negative control MC_LinRelGrp_neg.cfg: TLC refutes "all lines    *)
(* hold" for the line-by-line machine on such pairs).  What the statement  *)
(* of C13 promises is a JOINT result per left-hand variable.               *)
(*                                                                         *)
(* GROUP of variable j = the lines of the system whose left-hand variable  *)
(* is x_j.  GrpResult(j, p) is the set of vectors y the generated function *)
(* may return for the group at input p:                                    *)
(*     y differs from p at most in x_j                                     *)
(*     every line of the group holds at y (strictly for <, > and for !=:   *)
(*        Holds is the comparator itself)                                  *)
(*     if every line of the group holds at p, y = p                        *)
(* The group is SATISFIABLE at p iff GrpResult(j, p) # {} (GrpSatLemma: iff *)
(* some value of x_j alone makes all its lines true).  Where a group is    *)
(* not satisfiable ("x_i >= 2, x_i <= 0"; "x_i = f, x_i != f"; "x_i = x_p, *)
(* x_i != 2" at a point with x_p = 2) the system is contradictory at that  *)
(* point, the premise of C13 fails and nothing is promised (generate_      *)
(* constraint: "relies on the user to formulate the constraints so that    *)
(* they do not conflict"): such cases are emitted with an empty set of     *)
(* allowed observations and are not judged.                                *)
(*                                                                         *)
(* Numbers.  As in LinRel everything is an integer, but inputs and right-  *)
(* hand values live on the EVEN lattice (catalogues of MC_LinRelGrp: even  *)
(* constants, even input coordinates; EvenLattice is checked by TLC) and   *)
(* outputs on all integers: between two different right-hand values there  *)
(* is an odd integer, so every pattern of signs (y_j - r_k)_k that a REAL  *)
(* y_j can show -- e.g. strictly between the bounds of "x_i > 0, x_i < 2", *)
(* where the code returns 2 - tolerance -- is shown by one of the candidate*)
(* values  p_j, r_k - 1, r_k, r_k + 1  (GrpComplete, checked against every *)
(* integer of a window around the right-hand values).  The harness observes*)
(* exactly that pattern of signs per group, and which coordinates changed. *)
(*                                                                         *)
(* State machine: variables of LinRel; pc counts the GROUPS applied so far *)
(* (in increasing order of the left-hand variable; by GrpFrozen the order  *)
(* is immaterial).  One action: ApplyGrp(j): x' \in GrpResult(j, x).       *)
(***************************************************************************)
EXTENDS LinRel

LhsVars == {Rel(k).i : k \in Lines}
Group(j) == {k \in Lines : Rel(k).i = j}
GroupSeq(j) == SetToSortSeq(Group(j), LAMBDA a, b : a < b)      \* its lines in text order
GVarSeq == SetToSortSeq(LhsVars, LAMBDA a, b : a < b)
NG == Len(GVarSeq)

(* no left-hand variable occurs in a right-hand side (the same variable    *)
(* may be the left-hand side of several lines)                             *)
GrpIndependentRels(s) == \A k, l \in 1..Len(s) : s[k].i \notin UsedVars(s[l])
GrpIndependent == GrpIndependentRels(SysRecs)
SharesVar(s) == \E k, l \in 1..Len(s) : k # l /\ s[k].i = s[l].i

AllHoldAt(K, p) == \A k \in K : Holds(Rel(k), p)

-----------------------------------------------------------------------------
(* the joint compile semantics of a group *)
GrpVals(j, p) ==
  {p[j]} \cup UNION {{Rhs(Rel(k), p) - 1, Rhs(Rel(k), p), Rhs(Rel(k), p) + 1} : k \in Group(j)}

GrpPost(j, p, y) ==
  /\ \A l \in 1..N : l # j => y[l] = p[l]          \* differs at most in x_j
  /\ AllHoldAt(Group(j), y)                         \* all its relations hold at once
  /\ (AllHoldAt(Group(j), p) => y = p)              \* an input feasible for the group is returned as is

GrpResult(j, p) == {y \in {[p EXCEPT ![j] = v] : v \in GrpVals(j, p)} : GrpPost(j, p, y)}

(* what the harness observes of a group: the signs of y_j - r_k, k in text order *)
SignTuple(j, p, y) ==
  [n \in 1..Len(GroupSeq(j)) |-> Sgn(y[j] - Rhs(Rel(GroupSeq(j)[n]), p))]
AllowedTuples(j, p) == {SignTuple(j, p, y) : y \in GrpResult(j, p)}
GrpSat(j, p) == GrpResult(j, p) # {}
GrpMayChange(p) == {j \in LhsVars : GrpSat(j, p) /\ ~AllHoldAt(Group(j), p)}

-----------------------------------------------------------------------------
(* the machine *)
ApplyGrp(j) == /\ x' \in GrpResult(j, x)
               /\ pc' = pc + 1
               /\ UNCHANGED <<x0, sys, bx>>

NextG == /\ pc < NG /\ bx = 0 /\ IsolatedSys /\ GrpIndependent
         /\ ApplyGrp(GVarSeq[pc + 1])

SpecG == Init /\ [][NextG]_vars

DoneVars == {GVarSeq[n] : n \in 1..pc}

-----------------------------------------------------------------------------
(* C13 for groups as invariants of the machine *)
GrpTypeOK == /\ pc \in 0..NG
             /\ bx = 0
             /\ \A k \in Lines : sys[k] \in 1..NR

(* every line of every applied group holds -- all of them at once *)
GrpAllHold == \A k \in Lines : Rel(k).i \in DoneVars => Holds(Rel(k), x)

(* only left-hand variables of applied groups that were infeasible differ from the input *)
GrpFootprint == \A j \in 1..N : x[j] # x0[j] => (j \in DoneVars /\ ~AllHoldAt(Group(j), x0))

(* an input that satisfies every line is returned unchanged *)
GrpFeasibleFixed == AllHoldAt(Lines, x0) => x = x0

(* no group changes what another group reads or owns: the expectations of  *)
(* all groups can be emitted at x0 and the order of the groups is immaterial *)
GrpFrozen == \A k \in Lines : /\ Rhs(Rel(k), x) = Rhs(Rel(k), x0)
                              /\ (Rel(k).i \notin DoneVars => x[Rel(k).i] = x0[Rel(k).i])

(* premise of the even lattice *)
EvenLattice == /\ \A j \in 1..N : x0[j] % 2 = 0
               /\ \A k \in Lines : Rhs(Rel(k), x0) % 2 = 0

(* a window of integers around all right-hand values of the group and the input *)
RhsVals(j, p) == {Rhs(Rel(k), p) : k \in Group(j)} \cup {p[j]}
MinOf(S) == CHOOSE a \in S : \A b \in S : a <= b
MaxOf(S) == CHOOSE a \in S : \A b \in S : a >= b
Window(j, p) == (MinOf(RhsVals(j, p)) - 3)..(MaxOf(RhsVals(j, p)) + 3)

(* satisfiable by construction: the group has an outcome iff some value of *)
(* x_j alone satisfies all its lines                                       *)
GrpSatLemma ==
  pc = 0 =>
  \A j \in LhsVars :
     GrpSat(j, x0) <=> \E v \in Window(j, x0) : AllHoldAt(Group(j), [x0 EXCEPT ![j] = v])

(* the candidate values are complete: every admissible outcome in the      *)
(* window shows a pattern of signs that a candidate shows as well          *)
GrpComplete ==
  pc = 0 =>
  \A j \in LhsVars :
     LET allowed == AllowedTuples(j, x0)
     IN  \A v \in Window(j, x0) :
            LET y == [x0 EXCEPT ![j] = v]
            IN  GrpPost(j, x0, y) => SignTuple(j, x0, y) \in allowed

(* a group of one line is the line semantics of LinRel *)
SingletonAgrees ==
  pc = 0 =>
  \A j \in LhsVars : Cardinality(Group(j)) = 1 =>
     GrpResult(j, x0) = CompileResult(Rel(CHOOSE k \in Group(j) : TRUE), x0)

(* where a closed bound meets a forbidden value (same right-hand VALUE at   *)
(* the point) the bound becomes open: the result is never on the bound     *)
ClosedMeetsNeq ==
  pc = 0 =>
  \A k, l \in Lines :
     (/\ Rel(k).i = Rel(l).i /\ Rel(k).op \in {"<=", ">="} /\ Rel(l).op = "!="
      /\ Rhs(Rel(k), x0) = Rhs(Rel(l), x0)) =>
        \A y \in GrpResult(Rel(k).i, x0) : Sgn(y[Rel(k).i] - Rhs(Rel(k), x0)) = (IF Rel(k).op = "<=" THEN -1 ELSE 1)

(* "x_i >= a, x_i <= a" (degenerate interval): the result is a *)
DegenerateInterval ==
  pc = 0 =>
  \A k, l \in Lines :
     (/\ Rel(k).i = Rel(l).i /\ Rel(k).op = ">=" /\ Rel(l).op = "<="
      /\ Rhs(Rel(k), x0) = Rhs(Rel(l), x0) /\ Cardinality(Group(Rel(k).i)) = 2) =>
        \A y \in GrpResult(Rel(k).i, x0) : y[Rel(k).i] = Rhs(Rel(k), x0)

(* an empty interval has no outcome (so it is not judged) *)
EmptyInterval ==
  pc = 0 =>
  \A k, l \in Lines :
     (/\ Rel(k).i = Rel(l).i /\ Rel(k).op \in {">=", ">", "="} /\ Rel(l).op \in {"<=", "<", "="}
      /\ \/ Rhs(Rel(k), x0) > Rhs(Rel(l), x0)
         \/ (Rhs(Rel(k), x0) = Rhs(Rel(l), x0) /\ {Rel(k).op, Rel(l).op} \cap {"<", ">"} # {})) =>
        ~GrpSat(Rel(k).i, x0)

-----------------------------------------------------------------------------
(* emission (spec -> code): one line per initial state.                    *)
(*   r[k], f[k]  as in EmitC13 (right-hand value of line k, the input      *)
(*               satisfies line k)                                         *)
(*   gv[n]       the n-th left-hand variable, gl[n] its lines (text order) *)
(*   gs[n]       the allowed tuples of signs (y_j - r_k)_{k in gl[n]};     *)
(*               empty = the group is contradictory at x0: not judged      *)
(*   ch          coordinates that may differ from the input at all         *)
EmitGrp ==
  (pc = 0 /\ bx = 0 /\ Len(sys) > 0 /\ IsolatedSys /\ GrpIndependent) =>
    PrintT(<<"@@", ToJson([s  |-> sys, x |-> x0,
                           r  |-> [k \in Lines |-> Rhs(Rel(k), x0)],
                           f  |-> [k \in Lines |-> Holds(Rel(k), x0)],
                           gv |-> GVarSeq,
                           gl |-> [n \in 1..NG |-> GroupSeq(GVarSeq[n])],
                           gs |-> [n \in 1..NG |-> AllowedTuples(GVarSeq[n], x0)],
                           ch |-> GrpMayChange(x0)])>>)
=============================================================================
