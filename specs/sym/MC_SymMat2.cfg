SPECIFICATION Spec
CONSTANTS
  Mode = "mat"
  NV = 2
  Coords <- Coords9
  DEN = 4
  MaxNum = 4
  Base <- TheBase
  Which = "Mat"
  Mults <- QMults
  Adds <- QAdds
  Exps <- QExps
  MaxRw = 0
  AllowBad = FALSE
INVARIANT TypeOK
INVARIANT SolPreserved
INVARIANT Emit
