SPECIFICATION Spec
CONSTANTS
  Dims = {1, 2}
  Intervals = {1, 2}
  Ks <- QKs
  YVecs = {TRUE, FALSE}
  Offs <- EnvOffs
  NCat <- Cat
  MaxRec = 3
  IdChoices = {1000, 0, 7}
  Pops = {0}
  Alls = {TRUE}
  Bests = {0}
  Sources = FALSE
INVARIANT RtLog
INVARIANT RtLogAll
INVARIANT RtLogBest
INVARIANT RtNever
INVARIANT MonHoldsAll
INVARIANT RtHist
INVARIANT RtRaw
INVARIANT RtSupport
INVARIANT RtConverge
INVARIANT HistIsSupport
INVARIANT RtHistMon
INVARIANT RtIds
INVARIANT RtReadSupport
INVARIANT RtReadConverge
INVARIANT ConvIsSupport
INVARIANT RtOld
INVARIANT RtLoad
INVARIANT RtMeasures
INVARIANT Emit
