SPECIFICATION Spec
CONSTANTS
  Dims = {1, 2}
  Intervals = {1, 2}
  Ks <- QKs
  YVecs = {TRUE, FALSE}
  Offs <- EnvOffs
  NCat <- Cat
  MaxRec = 3
  IdChoices = {1000, 7, 8}
INVARIANT RtLog
INVARIANT RtLogAll
INVARIANT RtHist
INVARIANT RtRaw
INVARIANT RtSupport
INVARIANT RtConverge
INVARIANT HistIsSupport
INVARIANT Emit
