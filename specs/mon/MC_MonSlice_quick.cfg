SPECIFICATION Spec
CONSTANTS
  KPairs <- SliceKPairs
  Warms <- SW3
  Free = 1
  Slices <- QAllSlices
  Sels <- QSels
  Items <- NoItems
  Ops <- SliceOps
INVARIANT Shape
INVARIANT LenIsCalls
INVARIANT KExact
INVARIANT KTransparent
INVARIANT RecordFaithful
INVARIANT IthRecord
INVARIANT NoAlias
PROPERTY ArgUnchanged
PROPERTY ConcatOrder
PROPERTY IndexShape
INVARIANT Emit
