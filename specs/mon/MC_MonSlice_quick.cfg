SPECIFICATION Spec
CONSTANTS
  KPairs <- SliceKPairs
  Warms <- SW3
  Free = 1
  Slices <- QAllSlices
  Sels <- QSels
  Items <- NoItems
  SetSels <- NoSels
  SetSlices <- NoSlices
  Ops <- SliceOps
INVARIANT Shape
INVARIANT LenIsCalls
INVARIANT KExact
INVARIANT KTransparent
INVARIANT RecordFaithful
INVARIANT IthRecord
INVARIANT NoAlias
INVARIANT NullInert
PROPERTY ArgUnchanged
PROPERTY ConcatOrder
PROPERTY IndexShape
PROPERTY NullNeutral
INVARIANT Emit
