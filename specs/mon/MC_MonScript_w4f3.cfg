SPECIFICATION Spec
CONSTANTS
  KPairs <- EnvKPairs
  Warms <- W4
  Free = 3
  Slices <- TSlices
  Ops <- AllOps
INVARIANT Shape
INVARIANT LenIsCalls
INVARIANT KExact
INVARIANT KTransparent
INVARIANT RecordFaithful
INVARIANT IthRecord
INVARIANT NoAlias
PROPERTY ArgUnchanged
PROPERTY ConcatOrder
INVARIANT Emit
