SPECIFICATION Spec
CONSTANTS
  Dims = {1}
  Intervals = {1}
  Ks <- LongKs
  YVecs = {FALSE}
  Offs <- LongOffs
  NCat <- Cat
  MaxRec = 4
  IdChoices = {12, 1000}
  Pops = {0}
  Alls = {TRUE}
  Bests = {0}
  Sources = FALSE
INVARIANT RtLog
INVARIANT RtLogAll
INVARIANT RtLogBest
INVARIANT RtNever
INVARIANT MonHoldsAll
INVARIANT RtHist
INVARIANT RtRaw
INVARIANT RtSupport
INVARIANT RtConverge
INVARIANT HistIsSupport
INVARIANT RtHistMon
INVARIANT RtIds
INVARIANT RtReadSupport
INVARIANT RtReadConverge
INVARIANT ConvIsSupport
INVARIANT RtOld
INVARIANT RtLoad
INVARIANT RtMeasures
INVARIANT Emit
