SPECIFICATION Spec
CONSTANTS
  KPairs <- NullKPairs
  Warms <- W4
  Free = 2
  Slices <- QSlices
  Sels <- XSels
  Items <- NoItems
  SetSels <- NoSels
  SetSlices <- NullSetSlices
  Ops <- NullOps
INVARIANT Shape
INVARIANT LenIsCalls
INVARIANT KExact
INVARIANT KTransparent
INVARIANT RecordFaithful
INVARIANT IthRecord
INVARIANT NoAlias
INVARIANT NullInert
PROPERTY ArgUnchanged
PROPERTY ConcatOrder
PROPERTY IndexShape
PROPERTY NullNeutral
INVARIANT Emit
