------------------------------ MODULE LogFile ------------------------------
(***************************************************************************)
(* C20, second half: what a LoggingMonitor writes, and what                *)
(* munge.write_raw_file / write_support_file / write_converge_file write,  *)
(* can be read back as the same trajectory -- by logfile_reader,           *)
(* read_history (from a log, a parameter file, a monitor, a solver, the    *)
(* Null monitor), read_trajectories / read_monitor, read_raw_file /        *)
(* read_support_file / read_converge_file / read_old_support_file, through *)
(* the file converters, and by monitors._load.                             *)
(*                                                                         *)
(* A trajectory is the sequence of records a monitor was called with.  A   *)
(* record is PLAIN (pop = 0: x a vector of `dim` values, y one cost) or    *)
(* POPULATION-valued (pop = P >= 1: x a list of P vectors, y a list of P   *)
(* costs); a cost is one value or a vector of two values (yvec); id is an  *)
(* integer or None.  In this module every record is held in ONE shape,     *)
(*     r.x[p][c]   coordinate c of member p,   r.y[p]  cost tuple of p,    *)
(* a plain record being the case of a single member; MonX / MonY give what *)
(* the monitor holds (and the caller passed) for it.  A VALUE is an index  *)
(* into a catalogue of concrete floats kept by the harness (+-inf, nan,    *)
(* -0.0, 5e-324, 1.7e308, negatives, ints, ...): TLA+ has no floats, and   *)
(* every operation here only moves values around, so the specification is  *)
(* about WHICH value ends up WHERE.  Record n of a trajectory uses fresh   *)
(* consecutive catalogue entries starting at `off` (fresh values make any  *)
(* transposition / mix-up of records, members or coordinates visible).     *)
(*                                                                         *)
(* State machine (one action per LoggingMonitor call):                     *)
(*   Record(idv)  the monitor is called with the next record (and with     *)
(*                best = `best`); the monitor holds EVERY record; a line   *)
(*                is appended to the three-column log iff ival > 0 and the *)
(*                call number (0-based) is a multiple of `ival`            *)
(*                (interval = 0 / None: the code sets it to inf, nothing   *)
(*                is ever written).  The line is [it, id, y, x] with       *)
(*                   all = TRUE (or a plain record): y, x as passed;       *)
(*                   all = FALSE, population record: the cost and the      *)
(*                     vector of member `best` only                        *)
(*                (LoggingMonitor.__call__: self._y[-1][best] un-scaled,   *)
(*                self._x[-1][best]).  all = FALSE with a plain record     *)
(*                would index INTO the vector (x[best], y[best]): not a    *)
(*                documented use, not enabled.                             *)
(* The files/readers are operators on the state:                           *)
(*   LogRead(log)          munge.logfile_reader(file, iter=True)           *)
(*                         = read_trajectories(file, iter=True)            *)
(*   HistRead(log)         munge.read_history(file or file object,         *)
(*                         iter=True): the same with params in 'support'   *)
(*                         layout                                          *)
(*   ReadMonitor(t)        munge.read_monitor(mon, id=True)                *)
(*   TrajMon(t)            munge.read_trajectories(mon, iter=True)         *)
(*   HistMon(t)            munge.read_history(mon, iter=True)              *)
(*   HistSolver(t, sid)    munge.read_history(solver, iter=True), the      *)
(*                         solver's generation monitor holding t, its id   *)
(*                         being sid; also from the solver's restart file  *)
(*   HistNull              munge.read_history(Null(), iter=True)           *)
(*   RawFile / SupportFile / ConvergeFile (traj)   what write_*_file store *)
(*   RawRead(file)         munge.read_raw_file(file, iter=True)            *)
(*                         (= read_import(file,'id','params','cost') with  *)
(*                          the ids expanded by munge._process_ids)        *)
(*   ReadSupportFile / ReadConvergeFile (file)     read_*_file(iter=True)  *)
(*   RawToSupportConv / RawToConvergeConv / ConvergeToSupportConv (file)   *)
(*                         the file written by munge.*_converter           *)
(*   OldSupportFile(t), ReadOldSupport(file), OldToNewConv(file)           *)
(*   Load(file)            monitors._load(path): the records of the        *)
(*                         monitor it returns; LoadMeasures: its measure   *)
(*                         views when the file carries npts                *)
(*   ReduceIds(iter)       munge._reduce_ids                               *)
(* Layouts.  munge has two conversions, both transpositions:               *)
(*   raw_to_converge   every step [member][coordinate] becomes             *)
(*                     [coordinate][member]; a step that is a plain vector *)
(*                     is first wrapped as a population of one (the code   *)
(*                     looks at steps[0][0] to tell: `nested` here).       *)
(*                     Applied to its own output it reverts it.            *)
(*   converge_to_support   the two outer levels are swapped                *)
(* so that, with i the record, c the coordinate, p the member:             *)
(*   raw       params[i][c]  (plain)  /  params[i][p][c]  (population)     *)
(*   converge  params[i][c][p]                                             *)
(*   support   params[c][i][p]       (<<>> if the trajectory is empty)     *)
(*   old support  params[c][i]       (plain records only, no tuples)       *)
(* C20 = the Rt* invariants: reading what was written gives the trajectory *)
(* back (after undoing the layout).  The scaling factor k of the monitor   *)
(* does not appear in any operator below: that IS the statement "cost      *)
(* scaling by k is transparent" for files and readers -- the expected      *)
(* contents are the same for every k.  (One reader is not transparent by   *)
(* design: a solver's energy_history is its monitor's STORED cost _y, so   *)
(* read_history(solver) is bound for k in {None, 1} only.)                 *)
(*                                                                         *)
(* Where C20 is silent the spec follows the code and says so:              *)
(*  * the log's iteration number is the 0-based call number of the monitor *)
(*    (not per id); a line's first column is (it,) or (it, id);            *)
(*  * write_raw_file stores `id` only if some id is not None; as one value *)
(*    if all ids are equal, else as the list of ids; _process_ids turns    *)
(*    that into (i,) / (i, id) / (number of earlier records with the same  *)
(*    id, id);  for an empty trajectory the reader returns no ids at all;  *)
(*    a monitor's id list is treated like the list in a file; a solver     *)
(*    has ONE id for all its records;                                      *)
(*  * ids in files are integers or None (as documented in munge);          *)
(*  * read_support_file / read_converge_file apply the layout conversion   *)
(*    to what is already converted: read_converge_file gives the records   *)
(*    back as populations params[i][p][c] (a plain record as a population  *)
(*    of one), read_support_file gives params[p][c][i];                    *)
(*  * the converters write no ids (they read the file without them);       *)
(*  * read_old_support_file returns a monitor whose x is the support       *)
(*    layout and whose costs are wrapped in 1-tuples;                      *)
(*  * _load reads a file in SUPPORT layout and records member 0 of every   *)
(*    record with its cost (a plain record: the record), ids None; on a    *)
(*    raw file of plain records it raises.  Only _load(path) is modelled:  *)
(*    the meaning of its (monitor, verbose) arguments is not documented;   *)
(*  * an empty trajectory comes back with no id list at all (None, [], or  *)
(*    -- from a solver -- the solver's bare id).                           *)
(* Stated from the documented intent:                                      *)
(*  * converge_to_support_converter turns a converge file into the support *)
(*    file of the same trajectory (ConvIsSupport): it must read its input  *)
(*    as written -- with read_raw_file; reading it with read_converge_file *)
(*    (which has already reverted the layout) gives params[p][i][c], the   *)
(*    defect repaired in /repo e2b2202.                                    *)
(***************************************************************************)
EXTENDS Integers, Sequences, FiniteSets, TLC, Json

CONSTANTS Dims,       \* dimensions of x
          Intervals,  \* LoggingMonitor(interval=...); 0: never
          Ks,         \* scaling factors (None = 1000); transparent, see header
          YVecs,      \* subset of BOOLEAN: vector-valued cost or scalar cost
          Offs,       \* catalogue offsets
          NCat,       \* size of the value catalogue
          MaxRec,     \* longest trajectory
          IdChoices,  \* ids a record may carry (None = 1000)
          Pops,       \* record shapes: 0 = plain, P >= 1 = population of P members
          Alls,       \* subset of BOOLEAN: LoggingMonitor(all=...)
          Bests,      \* the `best` passed with every call (0-based; used only when all = FALSE)
          Sources     \* BOOLEAN: also emit what the other readers / sources / converters give

None == 1000

VARIABLES dim, ival, k, yvec, off, pop, all, best,   \* chosen once
          traj,                      \* the records the monitor was called with
          log                        \* the lines of the three-column log file
vars == <<dim, ival, k, yvec, off, pop, all, best, traj, log>>

NMem    == IF pop = 0 THEN 1 ELSE pop
Val(j)  == ((off + j) % NCat) + 1
MWidth  == dim + 2                                   \* values used by one member
Width   == NMem * MWidth
Base(n, p) == (n - 1) * Width + (p - 1) * MWidth
XOf(n)  == [p \in 1..NMem |-> [c \in 1..dim |-> Val(Base(n, p) + c - 1)]]
YOf(n)  == [p \in 1..NMem |-> IF yvec THEN <<Val(Base(n, p) + dim), Val(Base(n, p) + dim + 1)>>
                                       ELSE <<Val(Base(n, p) + dim)>>]
Cost(y) == IF yvec THEN y ELSE y[1]          \* a scalar cost is the value itself
(* what the caller passes and the monitor holds for a record *)
MonX(r) == IF pop = 0 THEN r.x[1] ELSE r.x
MonY(r) == IF pop = 0 THEN Cost(r.y[1]) ELSE [p \in 1..pop |-> Cost(r.y[p])]
(* what a log line shows of it *)
Whole   == all \/ pop = 0
LineX(r) == IF Whole THEN MonX(r) ELSE r.x[best + 1]
LineY(r) == IF Whole THEN MonY(r) ELSE Cost(r.y[best + 1])
LinePop  == all /\ pop > 0                   \* the lines hold populations

Init == /\ dim \in Dims /\ ival \in Intervals /\ k \in Ks /\ yvec \in YVecs /\ off \in Offs
        /\ pop \in Pops /\ all \in Alls /\ best \in Bests
        /\ pop = 0 => all                    \* all = FALSE is for population-valued records
        /\ all => best = 0                   \* `best` is not looked at
        /\ best < NMem
        /\ traj = << >> /\ log = << >>

Record(idv) ==
  /\ Len(traj) < MaxRec
  /\ LET n == Len(traj) + 1
         r == [x |-> XOf(n), y |-> YOf(n), id |-> idv]
     IN  /\ traj' = Append(traj, r)
         /\ log' = IF ival > 0 /\ (n - 1) % ival = 0
                   THEN Append(log, [it |-> n - 1, id |-> idv, y |-> LineY(r), x |-> LineX(r)])
                   ELSE log
  /\ UNCHANGED <<dim, ival, k, yvec, off, pop, all, best>>

Next == \E idv \in IdChoices : Record(idv)
Spec == Init /\ [][Next]_vars

-----------------------------------------------------------------------------
(* trajectories and layouts *)
X3(t)    == [i \in 1..Len(t) |-> t[i].x]                  \* params[i][p][c], every record as a population
MonXs(t) == [i \in 1..Len(t) |-> MonX(t[i])]              \* Monitor.x
MonYs(t) == [i \in 1..Len(t) |-> MonY(t[i])]              \* Monitor.y
IdsOf(t) == [i \in 1..Len(t) |-> t[i].id]                 \* Monitor.id

Transpose(m) == IF Len(m) = 0 THEN << >>
                ELSE [c \in 1..Len(m[1]) |-> [i \in 1..Len(m) |-> m[i][c]]]
RawToConverge(steps, nested) ==
  [i \in 1..Len(steps) |-> Transpose(IF nested THEN steps[i] ELSE <<steps[i]>>)]
ConvergeToSupport(steps)     == Transpose(steps)
RawToSupport(steps, nested)  == ConvergeToSupport(RawToConverge(steps, nested))

Converge(t) == RawToConverge(MonXs(t), pop > 0)           \* params[i][c][p]
Support(t)  == RawToSupport(MonXs(t), pop > 0)            \* params[c][i][p]
(* undoing a layout: back to params[i][p][c]; m = members per record, n = records *)
UnConverge(ps)      == RawToConverge(ps, TRUE)
UnSupport(ps, n, m) == [i \in 1..n |-> [p \in 1..m |-> [c \in 1..dim |-> ps[c][i][p]]]]

(* the three-column log *)
IterOf(it, idv) == IF idv = None THEN <<it>> ELSE <<it, idv>>
LogRead(l)  == [iter   |-> [i \in 1..Len(l) |-> IterOf(l[i].it, l[i].id)],
                params |-> [i \in 1..Len(l) |-> l[i].x],
                cost   |-> [i \in 1..Len(l) |-> l[i].y]]
HistRead(l) == [LogRead(l) EXCEPT !.params = RawToSupport(@, LinePop)]

(* ids: munge._process_ids on a list of ids, and its inverse munge._reduce_ids *)
ProcessIdList(ids) ==
  IF \A i \in 1..Len(ids) : ids[i] = None
    THEN [i \in 1..Len(ids) |-> <<i - 1>>]
    ELSE [i \in 1..Len(ids) |-> <<Cardinality({j \in 1..(i - 1) : ids[j] = ids[i]}), ids[i]>>]
ReduceIds(it) ==
  IF Len(it) > 0 /\ Len(it[1]) = 1 THEN [i \in 1..Len(it) |-> None]
                                    ELSE [i \in 1..Len(it) |-> it[i][Len(it[i])]]

(* a monitor, a solver, the Null monitor as sources *)
ReadMonitor(t) == <<MonXs(t), MonYs(t), IdsOf(t)>>
TrajMon(t) == [iter |-> ProcessIdList(IdsOf(t)), params |-> MonXs(t), cost |-> MonYs(t)]
HistMon(t) == [TrajMon(t) EXCEPT !.params = Support(t)]
HistSolver(t, sid) == [HistMon(t) EXCEPT !.iter = [i \in 1..Len(t) |-> IterOf(i - 1, sid)]]
HistNull == [iter |-> << >>, params |-> << >>, cost |-> << >>]

(* the parameter files: a file is a record of the variables assigned in it *)
NoId == [kind |-> "none", one |-> None, list |-> << >>]
IdField(t) ==
  IF Len(t) = 0 \/ \A i \in 1..Len(t) : t[i].id = None
    THEN NoId
  ELSE IF \A i \in 1..Len(t) : t[i].id = t[1].id
    THEN [kind |-> "one", one |-> t[1].id, list |-> << >>]
  ELSE [kind |-> "list", one |-> None, list |-> IdsOf(t)]

RawFile(t)      == [id |-> IdField(t), params |-> MonXs(t), cost |-> MonYs(t)]
SupportFile(t)  == [RawFile(t) EXCEPT !.params = Support(t)]
ConvergeFile(t) == [RawFile(t) EXCEPT !.params = Converge(t)]

ProcessIds(f, n) ==       \* munge._process_ids
  CASE f.kind = "none" -> [i \in 1..n |-> <<i - 1>>]
    [] f.kind = "one"  -> [i \in 1..n |-> <<i - 1, f.one>>]
    [] f.kind = "list" -> [i \in 1..n |->
                             <<Cardinality({j \in 1..(i - 1) : f.list[j] = f.list[i]}), f.list[i]>>]
RawRead(f) == [iter |-> ProcessIds(f.id, Len(f.cost)), params |-> f.params, cost |-> f.cost]
(* the readers named after a layout re-apply the conversion (see header) *)
ReadSupportFile(f)  == [RawRead(f) EXCEPT !.params = RawToSupport(@, TRUE)]      \* params[p][c][i]
ReadConvergeFile(f) == [RawRead(f) EXCEPT !.params = RawToConverge(@, TRUE)]     \* params[i][p][c]

(* the file converters: read without ids, convert, write_raw_file *)
RawToSupportConv(f)      == [id |-> NoId, params |-> RawToSupport(f.params, pop > 0), cost |-> f.cost]
RawToConvergeConv(f)     == [id |-> NoId, params |-> RawToConverge(f.params, pop > 0), cost |-> f.cost]
ConvergeToSupportConv(f) == [id |-> NoId, params |-> ConvergeToSupport(f.params), cost |-> f.cost]

(* the old support format (plain records): params[c][i], no tuples *)
OldSupportFile(t) == [id |-> NoId, params |-> Transpose(MonXs(t)), cost |-> MonYs(t)]
ReadOldSupport(f) == [x |-> [c \in 1..Len(f.params) |-> [i \in 1..Len(f.params[c]) |-> <<f.params[c][i]>>]],
                      y |-> [i \in 1..Len(f.cost) |-> <<f.cost[i]>>]]
OldToNewConv(f)   == [id |-> NoId, params |-> ReadOldSupport(f).x, cost |-> ReadOldSupport(f).y]

(* monitors._load on a file in support layout: member 0 of every record, its cost, no id *)
Load(f) == [i \in 1..Len(f.cost) |-> [x |-> [c \in 1..Len(f.params) |-> f.params[c][i][1]], y |-> f.cost[i]]]
(* ... and the measure views of the loaded monitor when the file carries npts (write_support_file(.., npts=..)):
   x is read as len(npts) blocks [weights(n_b), positions(n_b)]; Monitor._wts / _pos are the 0-based coordinate
   indices (tools.measure_indices: the positions of block b start npts[0] after its weights -- equal block sizes),
   .wts / .pos the projections x[:, _wts] / x[:, _pos] reshaped to [record][block][entry] *)
SumTo(q, b) == LET F[j \in 0..b] == IF j = 0 THEN 0 ELSE F[j - 1] + q[j] IN F[b]
Flat(q) == LET F[j \in 0..Len(q)] == IF j = 0 THEN << >> ELSE F[j - 1] \o q[j] IN F[Len(q)]
WtsIdx(npts) == [b \in 1..Len(npts) |-> [j \in 1..npts[b] |-> 2 * SumTo(npts, b - 1) + j - 1]]
PosIdx(npts) == [b \in 1..Len(npts) |-> [j \in 1..npts[b] |-> 2 * SumTo(npts, b - 1) + npts[1] + j - 1]]
Project(recs, idx) == [i \in 1..Len(recs) |-> [b \in 1..Len(idx) |-> [j \in 1..Len(idx[b]) |-> recs[i].x[idx[b][j] + 1]]]]
LoadMeasures(f, npts) == [iwts |-> Flat(WtsIdx(npts)), ipos |-> Flat(PosIdx(npts)),
                          wts |-> Project(Load(f), WtsIdx(npts)), pos |-> Project(Load(f), PosIdx(npts))]
NptsFor(d) == CASE d = 2 -> <<(<<1>>)>> [] d = 4 -> <<(<<2>>), (<<1, 1>>)>> [] OTHER -> << >>

-----------------------------------------------------------------------------
(* C20: write then read is the identity on the trajectory *)
NSel   == IF ival = 0 THEN 0 ELSE (Len(traj) + ival - 1) \div ival   \* number of calls that are logged
Logged == [j \in 1..NSel |-> traj[(j - 1) * ival + 1]]      \* closed form; `log` is built stepwise
LMem   == IF LinePop THEN pop ELSE 1                        \* members a log line shows
LoggedX3 == [j \in 1..NSel |-> IF Whole THEN Logged[j].x ELSE <<Logged[j].x[best + 1]>>]

RtLog ==
  LET r == LogRead(log) IN
    /\ r.params = [j \in 1..NSel |-> LineX(Logged[j])] /\ r.cost = [j \in 1..NSel |-> LineY(Logged[j])]
    /\ Len(r.iter) = NSel
    /\ \A j \in 1..NSel : r.iter[j] = IterOf((j - 1) * ival, Logged[j].id)
RtLogAll == (ival = 1 /\ Whole) => LogRead(log).params = MonXs(traj) /\ LogRead(log).cost = MonYs(traj)
(* all = FALSE: exactly the best member's vector and cost, as a plain record *)
RtLogBest == ~Whole => \A j \in 1..NSel : /\ LogRead(log).params[j] = Logged[j].x[best + 1]
                                          /\ LogRead(log).cost[j] = Cost(Logged[j].y[best + 1])
(* nothing is ever written with interval 0; the monitor holds every record whatever is written *)
RtNever    == ival = 0 => log = << >>
MonHoldsAll == Len(ReadMonitor(traj)[1]) = Len(traj) /\ Len(HistMon(traj).cost) = Len(traj)
RtHist ==
  LET r == HistRead(log) IN
    /\ UnSupport(r.params, NSel, LMem) = LoggedX3
    /\ r.cost = LogRead(log).cost
    /\ r.iter = LogRead(log).iter
RtRaw ==
  LET r == RawRead(RawFile(traj)) IN
    /\ r.params = MonXs(traj) /\ r.cost = MonYs(traj)
    /\ \A i \in 1..Len(traj) :
         IF \A j \in 1..Len(traj) : traj[j].id = None
           THEN r.iter[i] = <<i - 1>>
           ELSE r.iter[i][2] = traj[i].id
RtSupport  == LET r == RawRead(SupportFile(traj))
              IN  UnSupport(r.params, Len(traj), NMem) = X3(traj) /\ r.cost = MonYs(traj)
RtConverge == LET r == RawRead(ConvergeFile(traj))
              IN  UnConverge(r.params) = X3(traj) /\ r.cost = MonYs(traj)
(* read_history of a log and of a support file agree on params and cost when every call is logged in full *)
HistIsSupport == (ival = 1 /\ Whole) => /\ HistRead(log).params = SupportFile(traj).params
                                        /\ HistRead(log).cost = SupportFile(traj).cost
(* a monitor / a solver as the source: the whole trajectory in support layout, as from its support file *)
RtHistMon ==
  LET r == HistMon(traj) IN
    /\ UnSupport(r.params, Len(traj), NMem) = X3(traj) /\ r.cost = MonYs(traj)
    /\ r.params = SupportFile(traj).params
    /\ Len(traj) > 0 => r.iter = RawRead(SupportFile(traj)).iter
    /\ \A sid \in {None, 4} : LET s == HistSolver(traj, sid) IN
         /\ s.params = r.params /\ s.cost = r.cost
         /\ \A i \in 1..Len(traj) : s.iter[i] = IterOf(i - 1, sid)
(* _reduce_ids undoes _process_ids *)
RtIds ==
  /\ ReduceIds(TrajMon(traj).iter) = IdsOf(traj)
  /\ ReduceIds(RawRead(RawFile(traj)).iter) = IdsOf(traj)
  /\ ((\A j \in 1..NSel : Logged[j].id = None) \/ (\A j \in 1..NSel : Logged[j].id # None))
        => ReduceIds(LogRead(log).iter) = IdsOf(Logged)      \* (it looks at the first entry only to tell)
(* the readers named after a layout: the trajectory is what they return, up to the stated layout *)
RtReadSupport ==
  LET r == ReadSupportFile(SupportFile(traj)) IN
    /\ r.cost = MonYs(traj) /\ r.iter = RawRead(RawFile(traj)).iter
    /\ Len(traj) > 0 =>
         [i \in 1..Len(traj) |-> [p \in 1..NMem |-> [c \in 1..dim |-> r.params[p][c][i]]]] = X3(traj)
RtReadConverge ==
  LET r == ReadConvergeFile(ConvergeFile(traj)) IN
    r.params = X3(traj) /\ r.cost = MonYs(traj) /\ r.iter = RawRead(RawFile(traj)).iter
(* the converters: the converted file is the file the matching writer writes, ids apart *)
ConvIsSupport ==
  /\ RawToSupportConv(RawFile(traj)).params = SupportFile(traj).params
  /\ RawToConvergeConv(RawFile(traj)).params = ConvergeFile(traj).params
  /\ ConvergeToSupportConv(ConvergeFile(traj)).params = SupportFile(traj).params
  /\ ConvergeToSupportConv(RawToConvergeConv(RawFile(traj))) = RawToSupportConv(RawFile(traj))
RtOld ==
  pop = 0 =>
    LET m == ReadOldSupport(OldSupportFile(traj))
        f == OldToNewConv(OldSupportFile(traj))
    IN  /\ Len(traj) > 0 => m.x = Support(traj)
        /\ m.y = [i \in 1..Len(traj) |-> <<MonYs(traj)[i]>>]
        /\ f.params = m.x /\ f.cost = m.y
(* _load gives back the records (a population: its member 0), from the writer's file and from a converted one *)
RtLoad ==
  /\ Load(SupportFile(traj)) = [i \in 1..Len(traj) |-> [x |-> traj[i].x[1], y |-> MonY(traj[i])]]
  /\ Load(RawToSupportConv(RawFile(traj))) = Load(SupportFile(traj))
  /\ pop = 0 => \A i \in 1..Len(traj) : Load(SupportFile(traj))[i].x = MonX(traj[i])
(* the measure views only pick coordinates: every coordinate of x is a weight or a position of exactly one block *)
RtMeasures ==
  \A q \in 1..Len(NptsFor(dim)) :
    LET npts == NptsFor(dim)[q]
        m == LoadMeasures(SupportFile(traj), npts)
    IN  /\ Len(m.iwts) + Len(m.ipos) = dim
        /\ \A c \in 0..(dim - 1) : (\E j \in 1..Len(m.iwts) : m.iwts[j] = c) # (\E j \in 1..Len(m.ipos) : m.ipos[j] = c)
        /\ \A i \in 1..Len(traj) : Flat(m.wts[i]) = [j \in 1..Len(m.iwts) |-> traj[i].x[1][m.iwts[j] + 1]]
        /\ \A i \in 1..Len(traj) : Flat(m.pos[i]) = [j \in 1..Len(m.ipos) |-> traj[i].x[1][m.ipos[j] + 1]]

-----------------------------------------------------------------------------
(* emission: every reachable state = one trajectory with everything the readers must return *)
Tri(r) == <<r.iter, r.params, r.cost>>
Basic ==
  [dim |-> dim, ival |-> ival, k |-> k, yvec |-> yvec, off |-> off, pop |-> pop, all |-> all, best |-> best,
   traj |-> [i \in 1..Len(traj) |-> <<MonX(traj[i]), MonY(traj[i]), traj[i].id>>],
   log  |-> Tri(LogRead(log)),
   hist |-> Tri(HistRead(log)),
   raw  |-> Tri(RawRead(RawFile(traj))),
   sup  |-> Tri(RawRead(SupportFile(traj))),
   con  |-> Tri(RawRead(ConvergeFile(traj)))]
More ==
  [mon   |-> ReadMonitor(traj),
   tmon  |-> Tri(TrajMon(traj)),
   hmon  |-> Tri(HistMon(traj)),
   hsolv |-> <<HistSolver(traj, None).iter, HistSolver(traj, 4).iter>>,
   hnull |-> Tri(HistNull),
   red   |-> <<ReduceIds(TrajMon(traj).iter), ReduceIds(LogRead(log).iter), ReduceIds(RawRead(RawFile(traj)).iter)>>,
   rsup  |-> Tri(ReadSupportFile(SupportFile(traj))),
   rcon  |-> Tri(ReadConvergeFile(ConvergeFile(traj))),
   r2s   |-> Tri(RawRead(RawToSupportConv(RawFile(traj)))),
   r2c   |-> Tri(RawRead(RawToConvergeConv(RawFile(traj)))),
   c2s   |-> Tri(RawRead(ConvergeToSupportConv(ConvergeFile(traj)))),
   old   |-> IF pop = 0 THEN <<ReadOldSupport(OldSupportFile(traj)).x, ReadOldSupport(OldSupportFile(traj)).y>> ELSE << >>,
   o2n   |-> IF pop = 0 THEN Tri(RawRead(OldToNewConv(OldSupportFile(traj)))) ELSE << >>,
   load  |-> [i \in 1..Len(traj) |-> <<Load(SupportFile(traj))[i].x, Load(SupportFile(traj))[i].y>>],
   meas  |-> [q \in 1..Len(NptsFor(dim)) |->
                LET m == LoadMeasures(SupportFile(traj), NptsFor(dim)[q])
                IN  <<NptsFor(dim)[q], m.iwts, m.ipos, m.wts, m.pos>>]]
Emit == IF Sources THEN PrintT(<<"@@", ToJson([b |-> Basic, m |-> More])>>)
                   ELSE PrintT(<<"@@", ToJson(Basic)>>)
=============================================================================
