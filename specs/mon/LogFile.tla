------------------------------ MODULE LogFile ------------------------------
(***************************************************************************)
(* C20, second half: what a LoggingMonitor writes, and what                *)
(* munge.write_raw_file / write_support_file / write_converge_file write,  *)
(* can be read back as the same trajectory.                                *)
(*                                                                         *)
(* A trajectory is the sequence of records [x, y, id] a monitor was called *)
(* with: x a vector of `dim` values, y one value (scalar cost) or a vector *)
(* of two values (vector-valued cost), id an integer or None.  A VALUE is  *)
(* an index into a catalogue of concrete floats kept by the harness        *)
(* (+-inf, nan, -0.0, 5e-324, 1.7e308, negatives, ints, ...): TLA+ has no  *)
(* floats, and every file operation here only moves values around, so the  *)
(* specification is about WHICH value ends up WHERE.  Record n of a        *)
(* trajectory uses fresh consecutive catalogue entries starting at `off`   *)
(* (fresh values make any transposition / mix-up of records visible).      *)
(*                                                                         *)
(* State machine (one action per LoggingMonitor call):                     *)
(*   Record(idv)  the monitor is called with the next record; if the call  *)
(*                number (0-based) is a multiple of `ival` a line          *)
(*                [it, id, y, x] is appended to the three-column log       *)
(* The files/readers are operators on the state:                           *)
(*   LogRead(log)          munge.logfile_reader(file, iter=True)           *)
(*   HistRead(log)         munge.read_history(file, iter=True): the same   *)
(*                         with params in 'support' layout                 *)
(*   RawFile / SupportFile / ConvergeFile (traj)   what write_*_file store *)
(*   RawRead(file)         munge.read_raw_file(file, iter=True)            *)
(*                         (= read_import(file,'id','params','cost') with  *)
(*                          the ids expanded by munge._process_ids)        *)
(* Layouts (munge.raw_to_converge / raw_to_support), dim = len(x):         *)
(*   raw       params[i][c]    = x_i[c]                                    *)
(*   converge  params[i][c]    = <<x_i[c]>>        (1-tuples)              *)
(*   support   params[c][i]    = <<x_i[c]>>        (transposed; <<>> if    *)
(*                                                  the trajectory is empty)*)
(* C20 = the Rt* invariants: reading what was written gives the trajectory *)
(* back (after undoing the layout).  The scaling factor k of the monitor   *)
(* does not appear in any operator below: that IS the statement "cost      *)
(* scaling by k is transparent" for files -- the expected file contents    *)
(* are the same for every k.                                               *)
(*                                                                         *)
(* Where C20 is silent the spec follows the code and says so:              *)
(*  * the log's iteration number is the 0-based call number of the monitor *)
(*    (not per id); a line's first column is (it,) or (it, id);            *)
(*  * write_raw_file stores `id` only if some id is not None; as one value *)
(*    if all ids are equal, else as the list of ids; _process_ids turns    *)
(*    that into (i,) / (i, id) / (number of earlier records with the same  *)
(*    id, id);  for an empty trajectory the reader returns no ids at all;  *)
(*  * ids in files are integers or None (as documented in munge).          *)
(***************************************************************************)
EXTENDS Integers, Sequences, FiniteSets, TLC, Json

CONSTANTS Dims,       \* dimensions of x
          Intervals,  \* LoggingMonitor(interval=...)
          Ks,         \* scaling factors (None = 1000); transparent, see header
          YVecs,      \* subset of BOOLEAN: vector-valued cost or scalar cost
          Offs,       \* catalogue offsets
          NCat,       \* size of the value catalogue
          MaxRec,     \* longest trajectory
          IdChoices   \* ids a record may carry (None = 1000)

None == 1000

VARIABLES dim, ival, k, yvec, off,   \* chosen once
          traj,                      \* the records the monitor was called with
          log                        \* the lines of the three-column log file
vars == <<dim, ival, k, yvec, off, traj, log>>

Val(j)  == ((off + j) % NCat) + 1
Width   == dim + 2
XOf(n)  == [c \in 1..dim |-> Val((n - 1) * Width + c - 1)]
YOf(n)  == IF yvec THEN <<Val((n - 1) * Width + dim), Val((n - 1) * Width + dim + 1)>>
                   ELSE <<Val((n - 1) * Width + dim)>>
Cost(y) == IF yvec THEN y ELSE y[1]          \* a scalar cost is the value itself

Init == /\ dim \in Dims /\ ival \in Intervals /\ k \in Ks /\ yvec \in YVecs /\ off \in Offs
        /\ traj = << >> /\ log = << >>

Record(idv) ==
  /\ Len(traj) < MaxRec
  /\ LET n == Len(traj) + 1
         r == [x |-> XOf(n), y |-> YOf(n), id |-> idv]
     IN  /\ traj' = Append(traj, r)
         /\ log' = IF (n - 1) % ival = 0
                   THEN Append(log, [it |-> n - 1, id |-> idv, y |-> r.y, x |-> r.x])
                   ELSE log
  /\ UNCHANGED <<dim, ival, k, yvec, off>>

Next == \E idv \in IdChoices : Record(idv)
Spec == Init /\ [][Next]_vars

-----------------------------------------------------------------------------
(* trajectories and layouts *)
Xs(t)    == [i \in 1..Len(t) |-> t[i].x]
Ys(t)    == [i \in 1..Len(t) |-> Cost(t[i].y)]
IdsOf(t) == [i \in 1..Len(t) |-> t[i].id]

Converge(xs) == [i \in 1..Len(xs) |-> [c \in 1..dim |-> <<xs[i][c]>>]]
Support(xs)  == IF Len(xs) = 0 THEN << >>
                ELSE [c \in 1..dim |-> [i \in 1..Len(xs) |-> <<xs[i][c]>>]]
UnConverge(ps)   == [i \in 1..Len(ps) |-> [c \in 1..dim |-> ps[i][c][1]]]
UnSupport(ps, n) == [i \in 1..n |-> [c \in 1..dim |-> ps[c][i][1]]]

(* the three-column log *)
IterOf(it, idv) == IF idv = None THEN <<it>> ELSE <<it, idv>>
LogRead(l)  == [iter   |-> [i \in 1..Len(l) |-> IterOf(l[i].it, l[i].id)],
                params |-> [i \in 1..Len(l) |-> l[i].x],
                cost   |-> [i \in 1..Len(l) |-> Cost(l[i].y)]]
HistRead(l) == [LogRead(l) EXCEPT !.params = Support(@)]

(* the parameter files: a file is a record of the variables assigned in it *)
IdField(t) ==
  IF Len(t) = 0 \/ \A i \in 1..Len(t) : t[i].id = None
    THEN [kind |-> "none", one |-> None, list |-> << >>]
  ELSE IF \A i \in 1..Len(t) : t[i].id = t[1].id
    THEN [kind |-> "one", one |-> t[1].id, list |-> << >>]
  ELSE [kind |-> "list", one |-> None, list |-> IdsOf(t)]

RawFile(t)      == [id |-> IdField(t), params |-> Xs(t), cost |-> Ys(t)]
SupportFile(t)  == [RawFile(t) EXCEPT !.params = Support(@)]
ConvergeFile(t) == [RawFile(t) EXCEPT !.params = Converge(@)]

ProcessIds(f, n) ==       \* munge._process_ids
  CASE f.kind = "none" -> [i \in 1..n |-> <<i - 1>>]
    [] f.kind = "one"  -> [i \in 1..n |-> <<i - 1, f.one>>]
    [] f.kind = "list" -> [i \in 1..n |->
                             <<Cardinality({j \in 1..(i - 1) : f.list[j] = f.list[i]}), f.list[i]>>]
RawRead(f) == [iter |-> ProcessIds(f.id, Len(f.cost)), params |-> f.params, cost |-> f.cost]

-----------------------------------------------------------------------------
(* C20: write then read is the identity on the trajectory *)
NSel   == (Len(traj) + ival - 1) \div ival                  \* number of calls that are logged
Logged == [j \in 1..NSel |-> traj[(j - 1) * ival + 1]]      \* closed form; `log` is built stepwise

RtLog ==
  LET r == LogRead(log) IN
    /\ r.params = Xs(Logged) /\ r.cost = Ys(Logged)
    /\ Len(r.iter) = NSel
    /\ \A j \in 1..NSel : r.iter[j] = IterOf((j - 1) * ival, Logged[j].id)
RtLogAll == ival = 1 => LogRead(log).params = Xs(traj) /\ LogRead(log).cost = Ys(traj)
RtHist ==
  LET r == HistRead(log) IN
    /\ UnSupport(r.params, NSel) = Xs(Logged) /\ r.cost = Ys(Logged)
    /\ r.iter = LogRead(log).iter
RtRaw ==
  LET r == RawRead(RawFile(traj)) IN
    /\ r.params = Xs(traj) /\ r.cost = Ys(traj)
    /\ \A i \in 1..Len(traj) :
         IF \A j \in 1..Len(traj) : traj[j].id = None
           THEN r.iter[i] = <<i - 1>>
           ELSE r.iter[i][2] = traj[i].id
RtSupport  == LET r == RawRead(SupportFile(traj))
              IN  UnSupport(r.params, Len(traj)) = Xs(traj) /\ r.cost = Ys(traj)
RtConverge == LET r == RawRead(ConvergeFile(traj))
              IN  UnConverge(r.params) = Xs(traj) /\ r.cost = Ys(traj)
(* read_history of a log and of a support file agree on params and cost when every call is logged *)
HistIsSupport == ival = 1 => /\ HistRead(log).params = SupportFile(traj).params
                             /\ HistRead(log).cost = SupportFile(traj).cost

-----------------------------------------------------------------------------
(* emission: every reachable state = one trajectory with everything the readers must return *)
Emit == PrintT(<<"@@", ToJson(
  [dim |-> dim, ival |-> ival, k |-> k, yvec |-> yvec, off |-> off,
   traj |-> [i \in 1..Len(traj) |-> <<traj[i].x, Cost(traj[i].y), traj[i].id>>],
   log  |-> LET r == LogRead(log) IN <<r.iter, r.params, r.cost>>,
   hist |-> LET r == HistRead(log) IN <<r.iter, r.params, r.cost>>,
   raw  |-> LET r == RawRead(RawFile(traj)) IN <<r.iter, r.params, r.cost>>,
   sup  |-> LET r == RawRead(SupportFile(traj)) IN <<r.iter, r.params, r.cost>>,
   con  |-> LET r == RawRead(ConvergeFile(traj)) IN <<r.iter, r.params, r.cost>>])>>)
=============================================================================
