------------------------------ MODULE Monitor ------------------------------
(***************************************************************************)
(* C20, first half: mystic.monitors.Monitor (and its Verbose/Logging       *)
(* subclasses) as a state machine over a small HEAP of monitor objects.    *)
(*                                                                         *)
(* A monitor object is a record                                            *)
(*   k     scaling factor, in {None, 1, 2, -1}  (Monitor(k=...))           *)
(*   x     sequence of recorded parameter ids           (Monitor._x)       *)
(*   sy    sequence of STORED costs  = k * recorded cost (Monitor._y)      *)
(*   id    sequence of recorded ids (None if not given) (Monitor._id)      *)
(*   gy    ghost: the costs exactly as they were recorded (what C20 says   *)
(*         the monitor has to give back)                                   *)
(*   calls ghost: number of Call actions on this object                    *)
(*   pure  ghost: nothing but Call ever happened to this object            *)
(*   null  the object is monitors.Null() -- see "the Null kind" below      *)
(* What the monitor REPORTS (Monitor.y) is Y(o) = sy / k, element-wise;    *)
(* Monitor.x / Monitor.id report x / id as stored.  Costs are integers so  *)
(* that k * y and (k*y) / k are exact here exactly when they are exact in  *)
(* IEEE arithmetic (k = 2, -1: exact for every float below overflow).      *)
(* Parameters, costs and ids are OPAQUE small integers: the harness maps   *)
(* them injectively to concrete vectors / floats / numpy values.           *)
(*                                                                         *)
(* Python object semantics are modelled explicitly: `heap` is the sequence *)
(* of all monitor objects ever created, `slot[1..2]` are the two Python    *)
(* variables the script works with.  `+` and slicing CREATE an object and  *)
(* rebind a slot; extend / prepend / __setitem__ / __call__ mutate the     *)
(* receiver in place.  "never alters the monitor passed to it" is then the *)
(* action property ArgUnchanged over object identity (garbage included).   *)
(*                                                                         *)
(* One action per public call:                                             *)
(*   Call(s, xv, yv, idv)   slot s:  m(x, y, id)                           *)
(*   Slice(t, s, sl)        slot t := m_s[start:stop:step]                 *)
(*   TSlice(t, s, sl)       slot t := m_s[(slice(start,stop,step),)]       *)
(*   Index(t, s, form, sel) slot t := m_s[sel]  for the other indexing     *)
(*                          forms of __getitem__ (see "indexing forms")    *)
(*   GetItem(s, i)          observe m_s[i], i an integer (no new object)   *)
(*   Add(t, a, b)           slot t := m_a + m_b                            *)
(*   Extend(a, b)           m_a.extend(m_b)      (a # b)                   *)
(*   Prepend(a, b)          m_a.prepend(m_b)     (a # b)                   *)
(*   SetItem(a, i, b)       m_a[i] = m_b         (a # b, 0 <= i < len)     *)
(*   SetSel(a, form, sel, b)  m_a[sel] = m_b, sel a list / int array /     *)
(*                          bool mask (the numpy branch of __setitem__)    *)
(*   SetSlice(a, sl, b)     m_a[start:stop] = m_b  (python list splice)    *)
(*   GetMin(s)              observe m_s.min()      (no new object)         *)
(*                                                                         *)
(* Indexing forms of Monitor.__getitem__ (one branch of the code each):    *)
(*   integer (python int "item", numpy integer "npitem"), possibly < 0:    *)
(*     the PAIR (x_i, y_i) with y_i the reported (un-scaled) cost;         *)
(*   slice: Slice above;                                                   *)
(*   list / numpy.ndarray (the numpy "fancy" branch), any of               *)
(*     "ilist"  m[[i, j, ...]]        python list of ints                  *)
(*     "iarray" m[array([i, j, ...])] numpy integer array                  *)
(*     "imask"  m[array([T, F, ...])] numpy bool mask of length len(m)     *)
(*     "lmask"  m[[T, F, ...]]        python list of bools, length len(m)  *)
(*   tuple branch, the 1-tuples (a record selector and nothing else):      *)
(*     "tlist" m[([i, ...],)]  "tarray" m[(array([i, ...]),)]              *)
(*     "tmask" m[(array([T, ...]),)]   and TSlice m[(slice(a, b, c),)]     *)
(* Every one of them except the integer creates a NEW monitor holding      *)
(* exactly the selected records (x, STORED cost, id) in the order of the   *)
(* selection -- any order, repeats, negative indices; a mask selects the   *)
(* True positions in ascending order -- with the k of the indexed monitor, *)
(* and leaves the indexed monitor as it was.  An index outside             *)
(* -len..len-1 or a mask of another length raises (numpy IndexError): not  *)
(* enabled here.  NOT modelled: tuples of length >= 2 (m[rows, cols]:      *)
(* numpy multi-axis indexing INTO the parameter vectors, which C20's       *)
(* "parameters unchanged" does not speak about; if the tuple's length is   *)
(* not the array's rank the code silently uses its first element only) and *)
(* the 1-tuple holding an integer (m[(i,)]: the code raises                *)
(* AttributeError, an int has no .tolist()).                               *)
(*                                                                         *)
(* The Null kind.  monitors.Null() "always and reliably does nothing": an   *)
(* object whose state never changes (NullInert) and whose reads are empty  *)
(* (len 0, x = y = ()).  A python variable of the script may hold it       *)
(* (k = NullK in KPairs).  As RECEIVER every call is a no-op: Null()(x, y) *)
(* records nothing, extend / prepend / __setitem__ do nothing, a slice or  *)
(* index of it is Null again (there is one Null object per process; it has *)
(* no state, so the heap may list it more than once); `Null() + m` is a    *)
(* TypeError in python: not enabled.  As ARGUMENT of + / extend / prepend  *)
(* / __setitem__ (the instance Null() or the class Null, the harness       *)
(* rotates) it behaves as an EMPTY monitor: + gives a copy of the left     *)
(* operand, extend / prepend change nothing, m[i] = Null DELETES record i  *)
(* and m[a:b] = Null deletes the range (a splice with nothing).  m[sel] =  *)
(* Null with a list / array selection raises in numpy: not enabled.        *)
(*                                                                         *)
(* Read-only views (no action: the harness reads them on the object an     *)
(* operation wrote and compares with the same Recs): ix / ax are x as an   *)
(* iterator / array, iy / ay are the REPORTED cost y as iterator / array,  *)
(* get_x() / get_id() are x / id, and _pos / _wts / pos / wts are None on  *)
(* a monitor made without npts (with npts: see LogFile.tla, Load).         *)
(*                                                                         *)
(* Where C20 is silent the spec follows the code and says so:              *)
(*  * the result of `+` and of a slice / index carries the k of the LEFT   *)
(*    operand / the indexed monitor (deepcopy of self);  what + / extend / *)
(*    prepend store for the argument's records are the argument's stored   *)
(*    costs re-scaled by k_left / k_arg (Monitor._get_y), so that the      *)
(*    REPORTED costs are the argument's reported costs;                    *)
(*  * m.extend(m) / m.prepend(m) are not modelled (the statement's "never  *)
(*    alters the monitor passed to it" is contradictory for them);         *)
(*  * __setitem__ is not named by C20.  The code splices the argument's    *)
(*    records in place of record i and copies the STORED costs without     *)
(*    re-scaling, so reported costs are preserved only if both monitors    *)
(*    have the same effective k: that is SetItem's enabling condition.     *)
(*    m[sel] = b (list / int array / mask) is numpy assignment on          *)
(*    array(_x), array(_y), array(_id): the j-th selected position gets    *)
(*    b's j-th record; enabled for len(b) = number of selected positions   *)
(*    >= 1 without repeats (numpy would broadcast a single record and let  *)
(*    the last of repeated positions win: not modelled), equal effective   *)
(*    k, and ids that fit numpy's dtype (an all-integer id column cannot   *)
(*    take a None: TypeError in the code).  m[a:b] = b is the python list  *)
(*    splice (step None); an extended slice needs equal sizes: not         *)
(*    modelled.                                                            *)
(*  * m.min() is "the minimum monitor entry": the pair (x, y) of the FIRST *)
(*    record whose REPORTED cost is minimal (numpy argmin over y/k).  For  *)
(*    this one observation the cost ids are compared as integers: the      *)
(*    harness uses an order-preserving concretisation for scripts with a   *)
(*    GetMin (no nan, scalar costs).  Empty monitor: ValueError, not       *)
(*    enabled.                                                             *)
(*  * Monitor._info (messages) and ._npts/.label are not part of C20.      *)
(*                                                                         *)
(* The module is also the behaviour generator (spec -> code): `hist` is    *)
(* the script executed so far; every entry carries the object written by   *)
(* the operation and what that object reports afterwards.  Every script of *)
(* length Len(warm)+Free is emitted from its final state (INVARIANT Emit). *)
(***************************************************************************)
EXTENDS Integers, Sequences, FiniteSets, TLC, Json

CONSTANTS KPairs,   \* set of <<k1, k2>>: scaling factors of the two initial monitors
          Warms,    \* set of slot sequences: forced initial Calls (to populate the monitors)
          Free,     \* number of freely chosen operations after the warm-up
          Slices,   \* set of <<start, stop, step>> offered to Slice / TSlice (None allowed)
          Sels,     \* set of <<form, selection>> offered to Index (form in IndexForms)
          Items,    \* set of integers offered to GetItem
          SetSels,  \* set of <<form, selection>> offered to SetSel (form in SetForms)
          SetSlices, \* set of <<start, stop, None>> offered to SetSlice
          Ops       \* enabled operation names (subset of AllOps)

None   == 1000
NullK  == 7            \* "scaling factor" in KPairs that stands for: this variable holds monitors.Null()
AllOps == {"call", "slice", "tslice", "index", "item", "add", "extend", "prepend", "setitem",
           "setsel", "setslice", "min"}
(* the concrete python shapes of an index (names of the hist entries; see header) *)
ListForms  == {"ilist", "iarray", "tlist", "tarray"}     \* selection = sequence of ints, each in -n..n-1
MaskForms  == {"imask", "lmask", "tmask"}                \* selection = sequence of n values 0/1 (False/True)
IndexForms == ListForms \cup MaskForms
ItemForms  == {"item", "npitem"}
(* m[sel] = b: the hist entry is named after the shape of sel; no tuples (that branch is commented out in the code) *)
SetForms   == {"s_ilist", "s_iarray", "s_imask", "s_lmask"}
SelForm(f) == CASE f = "s_ilist" -> "ilist" [] f = "s_iarray" -> "iarray" [] f = "s_imask" -> "imask" [] f = "s_lmask" -> "lmask"
Slots  == {1, 2}
Z3     == <<0, 0, 0>>

ASSUME Ops \subseteq AllOps /\ Free \in Nat
ASSUME \A kp \in KPairs : kp[1] \in {None, 1, 2, -1, NullK} /\ kp[2] \in {None, 1, 2, -1, NullK}
ASSUME \A fs \in Sels : fs[1] \in IndexForms
ASSUME Items \subseteq Int
ASSUME \A fs \in SetSels : fs[1] \in SetForms
ASSUME \A sl \in SetSlices : sl[3] = None

-----------------------------------------------------------------------------
(* k handling: tools._kdiv / _multiply / _divide *)
EffK(k)   == IF k = None THEN 1 ELSE k
Abs(v)    == IF v < 0 THEN -v ELSE v
Div(a, d) == IF d < 0 THEN (-a) \div (-d) ELSE a \div d      \* exact whenever KExact holds

-----------------------------------------------------------------------------
(* Python slice semantics (PySlice_AdjustIndices): 0-based indices selected from a sequence
   of length n by [a:b:c], each of a, b, c possibly None, c # 0 *)
PySlice(a, b, c, n) ==
  LET st == IF c = None THEN 1 ELSE c
      lo == IF st < 0 THEN -1 ELSE 0
      hi == IF st < 0 THEN n - 1 ELSE n
      Adj(v, dflt) == IF v = None THEN dflt
                      ELSE LET w == IF v < 0 THEN v + n ELSE v
                           IN  IF w < 0 THEN lo ELSE IF w >= n THEN hi ELSE w
      s  == Adj(a, IF st < 0 THEN n - 1 ELSE 0)
      e  == Adj(b, IF st < 0 THEN -1 ELSE n)
      cnt == IF st > 0 THEN (IF e > s THEN (e - s + st - 1) \div st ELSE 0)
                       ELSE (IF s > e THEN (s - e - st - 1) \div (-st) ELSE 0)
  IN  [j \in 1..cnt |-> s + (j - 1) * st]

Pick(q, idx) == [j \in 1..Len(idx) |-> q[idx[j] + 1]]

(* python  q[a:b] = r  (step None): the records s..e-1 are replaced by r, with s, e the adjusted bounds and
   e raised to s if below (list_ass_slice) *)
SlBound(v, dflt, n) == IF v = None THEN dflt
                       ELSE LET w == IF v < 0 THEN v + n ELSE v
                            IN  IF w < 0 THEN 0 ELSE IF w > n THEN n ELSE w
SpliceRange(q, a, b, r) ==
  LET n == Len(q)
      s == SlBound(a, 0, n)
      e0 == SlBound(b, n, n)
      e == IF e0 < s THEN s ELSE e0
  IN  SubSeq(q, 1, s) \o r \o SubSeq(q, e + 1, n)
(* numpy  q[idx] = r  for distinct 0-based positions idx, Len(idx) = Len(r) *)
Put(q, idx, r) == [p \in 1..Len(q) |-> IF \E j \in 1..Len(idx) : idx[j] = p - 1
                                        THEN r[CHOOSE j \in 1..Len(idx) : idx[j] = p - 1]
                                        ELSE q[p]]

(* numpy index semantics on the first axis of an array of length n.
   Norm: a negative index counts from the end.  A selection is Valid if numpy accepts it (else
   IndexError); Resolve gives the 0-based positions selected, in the order of the result *)
Norm(i, n) == IF i < 0 THEN i + n ELSE i
MaskIdx(mk) ==                               \* positions of the 1s, ascending
  LET F[j \in 0..Len(mk)] == IF j = 0 THEN << >>
                             ELSE IF mk[j] = 1 THEN Append(F[j - 1], j - 1) ELSE F[j - 1]
  IN  F[Len(mk)]
Valid(form, sel, n) ==
  IF form \in MaskForms THEN Len(sel) = n /\ \A j \in 1..Len(sel) : sel[j] \in {0, 1}
                        ELSE \A j \in 1..Len(sel) : sel[j] >= -n /\ sel[j] < n
Resolve(form, sel, n) ==
  IF form \in MaskForms THEN MaskIdx(sel) ELSE [j \in 1..Len(sel) |-> Norm(sel[j], n)]
(* python  q[i:i+1] = r  for 0 <= i < len(q) *)
Splice(q, i, r) == SubSeq(q, 1, i) \o r \o SubSeq(q, i + 2, Len(q))

-----------------------------------------------------------------------------
(* monitor objects *)
NullObj   == [k |-> None, x |-> << >>, sy |-> << >>, id |-> << >>, gy |-> << >>, calls |-> 0, pure |-> TRUE, null |-> TRUE]
NewMon(k) == IF k = NullK THEN NullObj
             ELSE [k |-> k, x |-> << >>, sy |-> << >>, id |-> << >>, gy |-> << >>, calls |-> 0, pure |-> TRUE, null |-> FALSE]
(* whatever is done to the Null object leaves it as it is *)
Mut(A, A2) == IF A.null THEN A ELSE A2

Y(o)    == [i \in 1..Len(o.sy) |-> Div(o.sy[i], EffK(o.k))]            \* Monitor.y
Recs(o) == [i \in 1..Len(o.x) |-> <<o.x[i], Y(o)[i], o.id[i]>>]         \* what the monitor reports
(* Monitor._get_y: the argument's stored costs divided by (k_arg / k_self) *)
Conv(B, ka) == [i \in 1..Len(B.sy) |-> Div(B.sy[i] * EffK(ka), EffK(B.k))]

Rec1(A, xv, yv, idv) == Mut(A,
  [A EXCEPT !.x = Append(@, xv), !.sy = Append(@, yv * EffK(A.k)), !.id = Append(@, idv),
            !.gy = Append(@, yv), !.calls = @ + 1])
Ext(A, B) == Mut(A,
  [A EXCEPT !.x = @ \o B.x, !.sy = @ \o Conv(B, A.k), !.id = @ \o B.id, !.gy = @ \o B.gy, !.pure = FALSE])
Pre(A, B) == Mut(A,
  [A EXCEPT !.x = B.x \o @, !.sy = Conv(B, A.k) \o @, !.id = B.id \o @, !.gy = B.gy \o @, !.pure = FALSE])
Sel(A, idx) == Mut(A,
  [A EXCEPT !.x = Pick(@, idx), !.sy = Pick(@, idx), !.id = Pick(@, idx), !.gy = Pick(@, idx),
            !.pure = FALSE, !.calls = 0])
SetI(A, i, B) == Mut(A,     \* stored costs copied raw (see header)
  [A EXCEPT !.x = Splice(@, i, B.x), !.sy = Splice(@, i, B.sy), !.id = Splice(@, i, B.id),
            !.gy = Splice(@, i, B.gy), !.pure = FALSE])
SetS(A, idx, B) ==          \* numpy assignment, stored costs copied raw
  [A EXCEPT !.x = Put(@, idx, B.x), !.sy = Put(@, idx, B.sy), !.id = Put(@, idx, B.id),
            !.gy = Put(@, idx, B.gy), !.pure = FALSE]
SetR(A, a, b, B) == Mut(A,  \* list splice, stored costs copied raw
  [A EXCEPT !.x = SpliceRange(@, a, b, B.x), !.sy = SpliceRange(@, a, b, B.sy), !.id = SpliceRange(@, a, b, B.id),
            !.gy = SpliceRange(@, a, b, B.gy), !.pure = FALSE])
(* numpy.array(ids) is an integer array iff every id is an integer: such a column cannot take a None *)
IdsFit(ia, ib) == (\E j \in 1..Len(ia) : ia[j] = None) \/ (\A j \in 1..Len(ib) : ib[j] # None)

-----------------------------------------------------------------------------
VARIABLES heap,   \* sequence of all monitor objects created so far
          slot,   \* slot[s] = index into heap of the object bound to python variable s
          rlog,   \* ghost: every Call ever made, <<x, y, id>>, in order
          warm,   \* the forced prefix of this behaviour (a slot sequence)
          hist    \* the script so far, with the expected observation after each operation
vars == <<heap, slot, rlog, warm, hist>>

Init == /\ \E kp \in KPairs : heap = <<NewMon(kp[1]), NewMon(kp[2])>>
        /\ slot = <<1, 2>>
        /\ rlog = << >>
        /\ warm \in Warms
        /\ hist = << >>

Call(s, xv, yv, idv) ==
  /\ heap' = [heap EXCEPT ![slot[s]] = Rec1(@, xv, yv, idv)]
  /\ rlog' = Append(rlog, <<xv, yv, idv>>)
  /\ UNCHANGED slot

Slice(t, s, sl) ==
  /\ heap' = Append(heap, Sel(heap[slot[s]], PySlice(sl[1], sl[2], sl[3], Len(heap[slot[s]].x))))
  /\ slot' = [slot EXCEPT ![t] = Len(heap) + 1]
  /\ UNCHANGED rlog

TSlice(t, s, sl) == Slice(t, s, sl)        \* m[(slice,)]: the tuple branch, same selection

Index(t, s, form, sel) ==
  LET n == Len(heap[slot[s]].x) IN
  /\ Valid(form, sel, n)
  /\ heap' = Append(heap, Sel(heap[slot[s]], Resolve(form, sel, n)))
  /\ slot' = [slot EXCEPT ![t] = Len(heap) + 1]
  /\ UNCHANGED rlog

(* m[i], i an integer: an observation; ItemOf is the record whose (x, y) the pair has to be *)
GetItem(s, i) ==
  /\ i >= -Len(heap[slot[s]].x) /\ i < Len(heap[slot[s]].x)
  /\ UNCHANGED <<heap, slot, rlog>>
ItemOf(o, i) == Recs(o)[Norm(i, Len(o.x)) + 1]

Add(t, a, b) ==
  /\ ~heap[slot[a]].null                       \* Null() + m: TypeError
  /\ heap' = Append(heap, [Ext(heap[slot[a]], heap[slot[b]]) EXCEPT !.calls = 0])
  /\ slot' = [slot EXCEPT ![t] = Len(heap) + 1]
  /\ UNCHANGED rlog

Extend(a, b) ==
  /\ a # b
  /\ heap' = [heap EXCEPT ![slot[a]] = Ext(@, heap[slot[b]])]
  /\ UNCHANGED <<slot, rlog>>

Prepend(a, b) ==
  /\ a # b
  /\ heap' = [heap EXCEPT ![slot[a]] = Pre(@, heap[slot[b]])]
  /\ UNCHANGED <<slot, rlog>>

SetItem(a, i, b) ==
  /\ a # b
  /\ IF heap[slot[a]].null THEN i = 0 ELSE i >= 0 /\ i < Len(heap[slot[a]].x)
  /\ EffK(heap[slot[a]].k) = EffK(heap[slot[b]].k) \/ heap[slot[b]].null
  /\ heap' = [heap EXCEPT ![slot[a]] = SetI(@, i, heap[slot[b]])]
  /\ UNCHANGED <<slot, rlog>>

SetSel(a, form, sel, b) ==
  LET A == heap[slot[a]]
      B == heap[slot[b]]
      n == Len(A.x)
  IN  /\ a # b /\ ~A.null /\ ~B.null
      /\ form \in {"ilist", "iarray", "imask", "lmask"}
      /\ Valid(form, sel, n)
      /\ LET idx == Resolve(form, sel, n) IN
            /\ Len(idx) >= 1 /\ Len(idx) = Len(B.x)
            /\ \A p, q \in 1..Len(idx) : p # q => idx[p] # idx[q]
            /\ EffK(A.k) = EffK(B.k)
            /\ IdsFit(A.id, B.id)
            /\ heap' = [heap EXCEPT ![slot[a]] = SetS(@, idx, B)]
      /\ UNCHANGED <<slot, rlog>>

SetSlice(a, sl, b) ==
  /\ a # b
  /\ sl[3] = None
  /\ EffK(heap[slot[a]].k) = EffK(heap[slot[b]].k) \/ heap[slot[b]].null
  /\ heap' = [heap EXCEPT ![slot[a]] = SetR(@, sl[1], sl[2], heap[slot[b]])]
  /\ UNCHANGED <<slot, rlog>>

(* m.min(): an observation; MinOf is the record whose (x, y) the pair has to be *)
ArgMin(y) == CHOOSE i \in 1..Len(y) : /\ \A j \in 1..Len(y) : y[i] <= y[j]
                                      /\ \A j \in 1..(i - 1) : y[j] # y[i]
GetMin(s) ==
  /\ ~heap[slot[s]].null /\ Len(heap[slot[s]].x) >= 1
  /\ UNCHANGED <<heap, slot, rlog>>
MinOf(o) == Recs(o)[ArgMin(Y(o))]

-----------------------------------------------------------------------------
(* script bookkeeping: a hist entry is
   <<op, t, a, b, i, <<start,stop,step>> or selection, <<x,y,id>>, obj, Recs(obj after the operation)>>
   (unused positions are 0); obj is the heap index of the object written or created (GetItem: the
   object looked at).  op is the action's name, for Index / GetItem / SetSel the FORM of the index (SetSel: with
   the prefix "s_"); <<x,y,id>> is the record passed to Call, for GetItem / GetMin the record m[i] / m.min() has to
   be the (x, y) of; SetSel / SetSlice carry the selection / <<start,stop,None>> in the slice position *)
Done  == Len(hist)
Total == Len(warm) + Free
H(op, t, a, b, i, sl, c, o) == hist' = Append(hist, <<op, t, a, b, i, sl, c, o, Recs(heap'[o])>>)

(* every Call records a fresh parameter id (its serial number) and a cost determined by it:
   the values are opaque, fresh ones discriminate best *)
Serial   == Len(rlog) + 1
YV(n)    == ((n * 3) % 7) - 3
WarmId(n) == IF n % 2 = 1 THEN None ELSE n

Next ==
  /\ Done < Total
  /\ UNCHANGED warm
  /\ IF Done < Len(warm)
     THEN LET s == warm[Done + 1]
              c == <<Serial, YV(Serial), WarmId(Serial)>>
          IN  Call(s, c[1], c[2], c[3]) /\ H("call", 0, s, 0, 0, Z3, c, slot[s])
     ELSE
       \/ /\ "call" \in Ops
          /\ \E s \in Slots, idv \in {None, 50 + Serial} :
               LET c == <<Serial, YV(Serial), idv>>
               IN  Call(s, c[1], c[2], c[3]) /\ H("call", 0, s, 0, 0, Z3, c, slot[s])
       \/ /\ "slice" \in Ops
          /\ \E t \in Slots, s \in Slots, sl \in Slices :
               Slice(t, s, sl) /\ H("slice", t, s, 0, 0, sl, Z3, Len(heap) + 1)
       \/ /\ "tslice" \in Ops
          /\ \E t \in Slots, s \in Slots, sl \in Slices :
               TSlice(t, s, sl) /\ H("tslice", t, s, 0, 0, sl, Z3, Len(heap) + 1)
       \/ /\ "index" \in Ops
          /\ \E t \in Slots, s \in Slots, fs \in Sels :
               Index(t, s, fs[1], fs[2]) /\ H(fs[1], t, s, 0, 0, fs[2], Z3, Len(heap) + 1)
       \/ /\ "item" \in Ops
          /\ \E s \in Slots, f \in ItemForms, i \in Items :
               GetItem(s, i) /\ H(f, 0, s, 0, i, Z3, ItemOf(heap[slot[s]], i), slot[s])
       \/ /\ "add" \in Ops
          /\ \E t \in Slots, a \in Slots, b \in Slots :
               Add(t, a, b) /\ H("add", t, a, b, 0, Z3, Z3, Len(heap) + 1)
       \/ /\ "extend" \in Ops
          /\ \E a \in Slots, b \in Slots :
               Extend(a, b) /\ H("extend", 0, a, b, 0, Z3, Z3, slot[a])
       \/ /\ "prepend" \in Ops
          /\ \E a \in Slots, b \in Slots :
               Prepend(a, b) /\ H("prepend", 0, a, b, 0, Z3, Z3, slot[a])
       \/ /\ "setitem" \in Ops
          /\ \E a \in Slots, b \in Slots :
               \E i \in {0, Len(heap[slot[a]].x) - 1} :
                 SetItem(a, i, b) /\ H("setitem", 0, a, b, i, Z3, Z3, slot[a])
       \/ /\ "setsel" \in Ops
          /\ \E a \in Slots, b \in Slots, fs \in SetSels :
               SetSel(a, SelForm(fs[1]), fs[2], b) /\ H(fs[1], 0, a, b, 0, fs[2], Z3, slot[a])
       \/ /\ "setslice" \in Ops
          /\ \E a \in Slots, b \in Slots, sl \in SetSlices :
               SetSlice(a, sl, b) /\ H("setslice", 0, a, b, 0, sl, Z3, slot[a])
       \/ /\ "min" \in Ops
          /\ \E s \in Slots :
               GetMin(s) /\ H("min", 0, s, 0, 0, Z3, MinOf(heap[slot[s]]), slot[s])

Spec == Init /\ [][Next]_vars

-----------------------------------------------------------------------------
(* ---- C20 as invariants ---- *)
Objs == 1..Len(heap)

Shape == \A o \in Objs : Len(heap[o].x) = Len(heap[o].sy) /\ Len(heap[o].x) = Len(heap[o].id)
                         /\ Len(heap[o].x) = Len(heap[o].gy)

(* a monitor that has only been called, n times, has length n *)
LenIsCalls == \A o \in Objs : heap[o].pure => Len(heap[o].x) = heap[o].calls

(* the stored cost is always an exact multiple of k, so un-scaling loses nothing *)
KExact == \A o \in Objs : \A i \in 1..Len(heap[o].sy) : heap[o].sy[i] % Abs(EffK(heap[o].k)) = 0

(* k is transparent: what is reported is what was recorded, whatever the k's involved *)
KTransparent == \A o \in Objs : Y(heap[o]) = heap[o].gy

(* every record any monitor reports is one of the Calls ever made, unchanged
   (parameter ids are call serial numbers, hence unique) *)
RecordFaithful ==
  \A o \in Objs : \A i \in 1..Len(heap[o].x) :
     /\ heap[o].x[i] \in 1..Len(rlog)
     /\ Recs(heap[o])[i] = rlog[heap[o].x[i]]

(* a purely called monitor returns its i-th call in position i *)
IthRecord ==
  \A o \in Objs : heap[o].pure =>
     \A i \in 1..(Len(heap[o].x) - 1) : heap[o].x[i] < heap[o].x[i + 1]

(* the two python variables never alias one object (every + / slice / index creates one;
   but all entries with .null are the one Null object of the process) *)
NoAlias == slot[1] # slot[2]

(* the Null object never changes and reads as empty, whatever is done to it or with it *)
NullInert == \A o \in Objs : heap[o].null => heap[o] = NullObj /\ Recs(heap[o]) = << >>

(* ---- C20 as action properties ---- *)
(* nothing but the receiver changes; +, slicing and every other form of indexing change no existing
   object at all (the monitor indexed included) and all but the integer index create exactly one;
   in particular the ARGUMENT of + / extend / prepend / __setitem__ is left as it was *)
Creating == {"add", "slice", "tslice"} \cup IndexForms        \* operations that return a new monitor
Observing == ItemForms \cup {"min"}                            \* operations that only look
TakesArg  == {"extend", "prepend", "setitem", "setslice"} \cup SetForms
ArgUnchanged ==
  [][LET e == hist'[Len(hist')] IN
       /\ e[1] \in Creating \cup Observing => \A o \in Objs : heap'[o] = heap[o]
       /\ e[1] \in Creating => e[8] = Len(heap) + 1 /\ Len(heap') = Len(heap) + 1
       /\ e[1] \notin Creating => Len(heap') = Len(heap)
       /\ e[1] \in TakesArg => heap'[slot[e[4]]] = heap[slot[e[4]]]
       /\ e[1] = "add" => heap'[slot[e[3]]] = heap[slot[e[3]]] /\ heap'[slot[e[4]]] = heap[slot[e[4]]]
       /\ \A o \in Objs : o # e[8] => heap'[o] = heap[o]]_vars

(* the reported contents are exactly the corresponding concatenation / selection *)
ConcatOrder ==
  [][LET e == hist'[Len(hist')]
         new == Recs(heap'[e[8]])
     IN
     IF e[1] \notin Creating /\ heap[e[8]].null
     THEN new = << >> /\ heap'[e[8]] = heap[e[8]]          \* done to Null: nothing happens
     ELSE
       /\ e[1] = "call"    => new = Append(Recs(heap[e[8]]), e[7])
       /\ e[1] = "add"     => new = Recs(heap[slot[e[3]]]) \o Recs(heap[slot[e[4]]])
       /\ e[1] = "extend"  => new = Recs(heap[e[8]]) \o Recs(heap[slot[e[4]]])
       /\ e[1] = "prepend" => new = Recs(heap[slot[e[4]]]) \o Recs(heap[e[8]])
       /\ e[1] \in {"slice", "tslice"} =>
                              LET src == Recs(heap[slot[e[3]]])
                              IN  new = Pick(src, PySlice(e[6][1], e[6][2], e[6][3], Len(src)))
       /\ e[1] \in IndexForms => LET src == Recs(heap[slot[e[3]]])
                                 IN  new = Pick(src, Resolve(e[1], e[6], Len(src)))
       /\ e[1] \in ItemForms  => LET src == Recs(heap[e[8]])
                                 IN  /\ new = src
                                     /\ e[7] = src[Norm(e[5], Len(src)) + 1]
       /\ e[1] = "setitem" => new = Splice(Recs(heap[e[8]]), e[5], Recs(heap[slot[e[4]]]))
       /\ e[1] = "setslice" => new = SpliceRange(Recs(heap[e[8]]), e[6][1], e[6][2], Recs(heap[slot[e[4]]]))
       /\ e[1] \in SetForms =>
            LET old == Recs(heap[e[8]])
                arg == Recs(heap[slot[e[4]]])
                idx == Resolve(SelForm(e[1]), e[6], Len(old))
            IN  /\ Len(new) = Len(old)
                /\ \A j \in 1..Len(idx) : new[idx[j] + 1] = arg[j]
                /\ \A p \in 1..Len(old) : (\A j \in 1..Len(idx) : idx[j] # p - 1) => new[p] = old[p]
       /\ e[1] = "min" => LET src == Recs(heap[e[8]])
                          IN  /\ new = src
                              /\ \E i \in 1..Len(src) : /\ e[7] = src[i]
                                                        /\ \A j \in 1..Len(src) : src[i][2] <= src[j][2]
                                                        /\ \A j \in 1..(i - 1) : src[j][2] > src[i][2]]_vars

(* Null as an argument is an empty monitor: + copies the left operand, extend / prepend change nothing
   that is reported, m[i] = Null removes exactly record i *)
NullNeutral ==
  [][LET e == hist'[Len(hist')] IN
       (e[1] \in {"add", "extend", "prepend", "setitem"} /\ heap[slot[e[4]]].null) =>
          /\ e[1] = "add" => Recs(heap'[e[8]]) = Recs(heap[slot[e[3]]])
          /\ e[1] \in {"extend", "prepend"} => Recs(heap'[e[8]]) = Recs(heap[e[8]])
          /\ e[1] = "setitem" /\ ~heap[e[8]].null =>
                LET old == Recs(heap[e[8]])
                IN  Recs(heap'[e[8]]) = SubSeq(old, 1, e[5]) \o SubSeq(old, e[5] + 2, Len(old))]_vars

(* a list / array index gives one record per entry of the selection (order, repeats), a mask one
   per True; the new monitor has the k of the monitor it was taken from (+: of the left operand) *)
IndexShape ==
  [][LET e == hist'[Len(hist')] IN
       /\ e[1] \in ListForms => Len(heap'[e[8]].x) = Len(e[6])
       /\ e[1] \in MaskForms => Len(heap'[e[8]].x) = Cardinality({j \in 1..Len(e[6]) : e[6][j] = 1})
       /\ e[1] \in Creating  => heap'[e[8]].k = heap[slot[e[3]]].k]_vars

(* ---- sanity of the slice definition itself (constant level) ---- *)
SliceLens == 0..5
ASSUME \A n \in SliceLens :
         /\ PySlice(None, None, None, n) = [j \in 1..n |-> j - 1]
         /\ PySlice(None, None, -1, n) = [j \in 1..n |-> n - j]
         /\ \A sl \in Slices :
              LET idx == PySlice(sl[1], sl[2], sl[3], n)
                  st  == IF sl[3] = None THEN 1 ELSE sl[3]
              IN  /\ \A j \in 1..Len(idx) : idx[j] >= 0 /\ idx[j] < n
                  /\ \A j \in 1..(Len(idx) - 1) : idx[j + 1] - idx[j] = st

(* ---- sanity of the index resolution itself (constant level) ---- *)
ASSUME \A n \in SliceLens :
         /\ \A f \in ListForms : Resolve(f, [j \in 1..n |-> j - 1], n) = [j \in 1..n |-> j - 1]
         /\ \A f \in ListForms : Resolve(f, [j \in 1..n |-> -j], n) = [j \in 1..n |-> n - j]
         /\ \A f \in MaskForms : /\ Resolve(f, [j \in 1..n |-> 1], n) = [j \in 1..n |-> j - 1]
                                  /\ Resolve(f, [j \in 1..n |-> 0], n) = << >>
         /\ \A fs \in Sels : Valid(fs[1], fs[2], n) =>
              LET idx == Resolve(fs[1], fs[2], n)
              IN  /\ \A j \in 1..Len(idx) : idx[j] >= 0 /\ idx[j] < n
                  /\ fs[1] \in MaskForms =>
                       /\ \A j \in 1..(Len(idx) - 1) : idx[j] < idx[j + 1]
                       /\ \A p \in 0..(n - 1) : (fs[2][p + 1] = 1) <=> (\E j \in 1..Len(idx) : idx[j] = p)

-----------------------------------------------------------------------------
(* emission: one line per complete script (k of the two initial objects; NullK: it is the Null) *)
KOf(o) == IF o.null THEN NullK ELSE o.k
Emit == (Done = Total) =>
          PrintT(<<"@@", ToJson([k |-> <<KOf(heap[1]), KOf(heap[2])>>, s |-> hist])>>)
=============================================================================
