SPECIFICATION Spec
CONSTANTS
  KPairs <- SliceKPairs
  Warms <- SW4
  Free = 1
  Slices <- TAllSlices
  Ops <- SliceOps
INVARIANT Shape
INVARIANT LenIsCalls
INVARIANT KExact
INVARIANT KTransparent
INVARIANT RecordFaithful
INVARIANT IthRecord
INVARIANT NoAlias
PROPERTY ArgUnchanged
PROPERTY ConcatOrder
INVARIANT Emit
