---------------------------- MODULE MC_LogFile ----------------------------
(* Model-checking / emission instances of LogFile.tla.  The catalogue offsets of a run are
   selected by the environment (IOEnv.C20_OLO / C20_OHI / C20_OSTEP) so that a thorough run
   can be spread over parallel TLC processes.                                            *)
EXTENDS LogFile, IOUtils

Cat == 16      \* the harness keeps catalogues XCAT / YCAT of exactly this many values
OLo   == IF "C20_OLO" \in DOMAIN IOEnv THEN atoi(IOEnv.C20_OLO) ELSE 0
OHi   == IF "C20_OHI" \in DOMAIN IOEnv THEN atoi(IOEnv.C20_OHI) ELSE Cat - 1
OStep == IF "C20_OSTEP" \in DOMAIN IOEnv THEN atoi(IOEnv.C20_OSTEP) ELSE 1
EnvOffs == {o \in OLo..OHi : (o - OLo) % OStep = 0}
EnvKs   == IF "C20_FK" \in DOMAIN IOEnv THEN {atoi(IOEnv.C20_FK)} ELSE {None, 1, 2, -1}
QKs == {None, 2, -1}
LongKs == {None}          \* long trajectories (two-digit iteration numbers) and two-digit ids: MC_LogFile_long_*
LongOffs == {4}
SrcKs == {None, -1}      \* the sources run (MC_LogSrc_*): one neutral and one scaling k
=============================================================================
