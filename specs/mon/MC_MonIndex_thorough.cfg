SPECIFICATION Spec
CONSTANTS
  KPairs <- IndexKPairs
  Warms <- SW4
  Free = 1
  Slices <- IdxSlices
  Sels <- TAllSels
  Items <- TItems
  Ops <- IndexOps
INVARIANT Shape
INVARIANT LenIsCalls
INVARIANT KExact
INVARIANT KTransparent
INVARIANT RecordFaithful
INVARIANT IthRecord
INVARIANT NoAlias
PROPERTY ArgUnchanged
PROPERTY ConcatOrder
PROPERTY IndexShape
INVARIANT Emit
