SPECIFICATION Spec
CONSTANTS
  KPairs <- IndexKPairs
  Warms <- SW4
  Free = 1
  Slices <- IdxSlices
  Sels <- TAllSels
  Items <- TItems
  SetSels <- NoSels
  SetSlices <- NoSlices
  Ops <- IndexOps
INVARIANT Shape
INVARIANT LenIsCalls
INVARIANT KExact
INVARIANT KTransparent
INVARIANT RecordFaithful
INVARIANT IthRecord
INVARIANT NoAlias
INVARIANT NullInert
PROPERTY ArgUnchanged
PROPERTY ConcatOrder
PROPERTY IndexShape
PROPERTY NullNeutral
INVARIANT Emit
