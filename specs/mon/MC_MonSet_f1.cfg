SPECIFICATION Spec
CONSTANTS
  KPairs <- SetKPairs
  Warms <- SetW
  Free = 1
  Slices <- QSlices
  Sels <- QSels
  Items <- NoItems
  SetSels <- QSetSels
  SetSlices <- QSetSlices
  Ops <- SetOps
INVARIANT Shape
INVARIANT LenIsCalls
INVARIANT KExact
INVARIANT KTransparent
INVARIANT RecordFaithful
INVARIANT IthRecord
INVARIANT NoAlias
INVARIANT NullInert
PROPERTY ArgUnchanged
PROPERTY ConcatOrder
PROPERTY IndexShape
PROPERTY NullNeutral
INVARIANT Emit
