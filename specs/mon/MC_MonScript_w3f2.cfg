SPECIFICATION Spec
CONSTANTS
  KPairs <- EnvKPairs
  Warms <- W3
  Free = 2
  Slices <- QSlices
  Ops <- AllOps
INVARIANT Shape
INVARIANT LenIsCalls
INVARIANT KExact
INVARIANT KTransparent
INVARIANT RecordFaithful
INVARIANT IthRecord
INVARIANT NoAlias
PROPERTY ArgUnchanged
PROPERTY ConcatOrder
INVARIANT Emit
