SPECIFICATION Spec
CONSTANTS
  KPairs <- EnvKPairs
  Warms <- W0
  Free = 3
  Slices <- QSlices
  Sels <- QSels
  Items <- NoItems
  Ops <- ScriptOps
INVARIANT Shape
INVARIANT LenIsCalls
INVARIANT KExact
INVARIANT KTransparent
INVARIANT RecordFaithful
INVARIANT IthRecord
INVARIANT NoAlias
PROPERTY ArgUnchanged
PROPERTY ConcatOrder
PROPERTY IndexShape
INVARIANT Emit
