SPECIFICATION Spec
CONSTANTS
  KPairs <- EnvKPairs
  Warms <- W5
  Free = 2
  Slices <- TSlices
  Sels <- XSels
  Items <- NoItems
  SetSels <- NoSels
  SetSlices <- NoSlices
  Ops <- ScriptOps
INVARIANT Shape
INVARIANT LenIsCalls
INVARIANT KExact
INVARIANT KTransparent
INVARIANT RecordFaithful
INVARIANT IthRecord
INVARIANT NoAlias
INVARIANT NullInert
PROPERTY ArgUnchanged
PROPERTY ConcatOrder
PROPERTY IndexShape
PROPERTY NullNeutral
INVARIANT Emit
