SPECIFICATION Spec
CONSTANTS
  KPairs <- EnvKPairs
  Warms <- W5
  Free = 2
  Slices <- TSlices
  Sels <- XSels
  Items <- NoItems
  Ops <- ScriptOps
INVARIANT Shape
INVARIANT LenIsCalls
INVARIANT KExact
INVARIANT KTransparent
INVARIANT RecordFaithful
INVARIANT IthRecord
INVARIANT NoAlias
PROPERTY ArgUnchanged
PROPERTY ConcatOrder
PROPERTY IndexShape
INVARIANT Emit
