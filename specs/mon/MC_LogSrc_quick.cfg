SPECIFICATION Spec
CONSTANTS
  Dims = {1, 2}
  Intervals = {0, 1, 2}
  Ks <- SrcKs
  YVecs = {TRUE, FALSE}
  Offs <- EnvOffs
  NCat <- Cat
  MaxRec = 3
  IdChoices = {1000, 0}
  Pops = {0, 1, 2}
  Alls = {TRUE, FALSE}
  Bests = {0, 1}
  Sources = TRUE
INVARIANT RtLog
INVARIANT RtLogAll
INVARIANT RtLogBest
INVARIANT RtNever
INVARIANT MonHoldsAll
INVARIANT RtHist
INVARIANT RtRaw
INVARIANT RtSupport
INVARIANT RtConverge
INVARIANT HistIsSupport
INVARIANT RtHistMon
INVARIANT RtIds
INVARIANT RtReadSupport
INVARIANT RtReadConverge
INVARIANT ConvIsSupport
INVARIANT RtOld
INVARIANT RtLoad
INVARIANT RtMeasures
INVARIANT Emit
