SPECIFICATION Spec
CONSTANTS
  Dims = {1, 2, 3}
  Intervals = {1, 2, 3}
  Ks <- EnvKs
  YVecs = {TRUE, FALSE}
  Offs <- EnvOffs
  NCat <- Cat
  MaxRec = 4
  IdChoices = {1000, 7, 8}
INVARIANT RtLog
INVARIANT RtLogAll
INVARIANT RtHist
INVARIANT RtRaw
INVARIANT RtSupport
INVARIANT RtConverge
INVARIANT HistIsSupport
INVARIANT Emit
