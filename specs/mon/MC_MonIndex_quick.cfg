SPECIFICATION Spec
CONSTANTS
  KPairs <- IndexKPairs
  Warms <- SW3
  Free = 1
  Slices <- IdxSlices
  Sels <- QAllSels
  Items <- QItems
  SetSels <- NoSels
  SetSlices <- NoSlices
  Ops <- IndexOps
INVARIANT Shape
INVARIANT LenIsCalls
INVARIANT KExact
INVARIANT KTransparent
INVARIANT RecordFaithful
INVARIANT IthRecord
INVARIANT NoAlias
INVARIANT NullInert
PROPERTY ArgUnchanged
PROPERTY ConcatOrder
PROPERTY IndexShape
PROPERTY NullNeutral
INVARIANT Emit
