SPECIFICATION Spec
CONSTANTS
  KPairs <- IndexKPairs
  Warms <- SW3
  Free = 1
  Slices <- IdxSlices
  Sels <- QAllSels
  Items <- QItems
  Ops <- IndexOps
INVARIANT Shape
INVARIANT LenIsCalls
INVARIANT KExact
INVARIANT KTransparent
INVARIANT RecordFaithful
INVARIANT IthRecord
INVARIANT NoAlias
PROPERTY ArgUnchanged
PROPERTY ConcatOrder
PROPERTY IndexShape
INVARIANT Emit
