---------------------------- MODULE MC_Monitor ----------------------------
(* Model-checking / script-emission instances of Monitor.tla.
   Constants containing tuples cannot be written in a .cfg, hence this wrapper.
   The k pairs of a run are selected by the environment (IOEnv.C20_KP = "lo-hi", indices into
   KPairSeq) so that the 16 pairs can be spread over parallel TLC processes.            *)
EXTENDS Monitor, IOUtils

Ks == <<None, 1, 2, -1>>
KPairSeq == [i \in 1..16 |-> <<Ks[((i - 1) \div 4) + 1], Ks[((i - 1) % 4) + 1]>>]
KLo == IF "C20_KLO" \in DOMAIN IOEnv THEN atoi(IOEnv.C20_KLO) ELSE 1
KHi == IF "C20_KHI" \in DOMAIN IOEnv THEN atoi(IOEnv.C20_KHI) ELSE 16
EnvKPairs == {KPairSeq[i] : i \in KLo..KHi}

(* ---- operation scripts ---- *)
\* integer items and 1-tuple slices: see the exhaustive MonIndex runs; m[sel] = b, m[a:b] = b, min(): see MonSet
ScriptOps == {"call", "slice", "index", "add", "extend", "prepend", "setitem"}
NoSels == {}
NoSlices == {}
QSlices == {<<None, None, -1>>, <<1, None, None>>}
TSlices == {<<None, None, -1>>, <<1, None, None>>, <<None, -1, 2>>, <<-2, None, None>>}
W0 == {<< >>}
W3 == {<<1, 2, 1>>}
W4 == {<<1, 2, 2, 1>>}
W5 == {<<1, 2, 2, 1, 2>>}

(* ---- exhaustive slices: one Slice on a monitor of every length 0..N ---- *)
SliceOps == {"slice"}
SW3 == {<< >>, <<1>>, <<1, 1>>, <<1, 1, 1>>}
SW4 == SW3 \cup {<<1, 1, 1, 1>>}
QBnd == {None, -4, -3, -2, -1, 0, 1, 2, 3, 4}
TBnd == {None, -6, -5, -4, -3, -2, -1, 0, 1, 2, 3, 4, 5, 6}
QSteps == {None, 1, 2, 3, -1, -2, -3}
TSteps == {None, 1, 2, 3, 5, -1, -2, -3, -5}
QAllSlices == {<<a, b, c>> : a \in QBnd, b \in QBnd, c \in QSteps}
TAllSlices == {<<a, b, c>> : a \in TBnd, b \in TBnd, c \in TSteps}
SliceKPairs == {<<None, None>>, <<2, 2>>}

(* ---- index selections offered inside the operation scripts: a list with a repeat, a negative
   entry and out of order (list branch of __getitem__), and one irregular mask per monitor length
   in the 1-tuple form (tuple branch): QSels.  The short thorough scripts (w5f2) add an integer
   array in a 1-tuple, the inverse mask as a plain array, a plain integer array and a python list
   of bools: XSels ---- *)
ScriptMask(n) == [j \in 1..n |-> IF j % 3 = 2 THEN 0 ELSE 1]          \* 1,0,1,1,0,1,1,0,...
QSels == {<<"ilist", <<0, -1, 0>>>>} \cup {<<"tmask", ScriptMask(n)>> : n \in 1..9}
XSels == QSels \cup {<<"tarray", <<-1, 1>>>>, <<"iarray", <<1, 1, 0>>>>, <<"lmask", <<1, 0, 1>>>>}
         \cup {<<"imask", [j \in 1..n |-> 1 - ScriptMask(n)[j]]>> : n \in 2..12}
NoItems == {}

(* ---- exhaustive indexing: one Index / GetItem / TSlice on a monitor of every length 0..N:
   every list of <= L indices in -N..N-1 in each of the four list forms, every mask in each of the
   three mask forms, every integer -N-1..N, a few slices through the tuple branch ---- *)
IndexOps == {"index", "item", "tslice"}
SeqsUpTo(S, L) == UNION {[1..l -> S] : l \in 0..L}
AllSels(N, L) == {<<f, q>> : f \in ListForms, q \in SeqsUpTo((-N)..(N - 1), L)}
                 \cup {<<f, q>> : f \in MaskForms, q \in SeqsUpTo({0, 1}, N)}
QAllSels == AllSels(3, 3)
TAllSels == AllSels(4, 4)
QItems == (-4)..3
TItems == (-5)..4
IdxSlices == {<<None, None, -1>>, <<1, None, 2>>, <<None, -1, None>>, <<-2, None, None>>, <<None, None, None>>}
IdxKLo == IF "C20_KLO" \in DOMAIN IOEnv THEN atoi(IOEnv.C20_KLO) ELSE 1
IdxKHi == IF "C20_KHI" \in DOMAIN IOEnv THEN atoi(IOEnv.C20_KHI) ELSE 4
IndexKPairs == {<<Ks[i], Ks[i]>> : i \in IdxKLo..IdxKHi}

(* ---- Null: one of the two python variables holds monitors.Null() (MonNull).  Every script operation plus
   m[a:b] = b; the warm-up calls the Null too (records nothing) ---- *)
NullSeq == <<(<<None, NullK>>), (<<2, NullK>>), (<<NullK, -1>>), (<<NullK, 1>>), (<<-1, NullK>>), (<<1, NullK>>),
             (<<NullK, None>>), (<<NullK, 2>>), (<<NullK, NullK>>)>>
NLo == IF "C20_KLO" \in DOMAIN IOEnv THEN atoi(IOEnv.C20_KLO) ELSE 1
NHi == IF "C20_KHI" \in DOMAIN IOEnv THEN atoi(IOEnv.C20_KHI) ELSE 3
NullKPairs == {NullSeq[i] : i \in NLo..NHi}
NullOps == ScriptOps \cup {"setslice"}
NullSetSlices == {<<1, None, None>>, <<None, 1, None>>}

(* ---- m[sel] = b, m[a:b] = b and m.min() (MonSet): slot 1 holds 3 records, slot 2 holds 2 (or 2 and 1); every
   list / int array of 1..2 (thorough: ..3) indices and every bool mask as array / list ---- *)
SetOps == {"setsel", "setslice", "min", "setitem", "extend"}
SetW == {<<1, 1, 1, 2, 2>>, <<1, 2, 1>>}
SetSeq == <<(<<None, 1>>), (<<2, 2>>), (<<-1, -1>>), (<<2, None>>), (<<1, -1>>), (<<None, None>>)>>
SLo == IF "C20_KLO" \in DOMAIN IOEnv THEN atoi(IOEnv.C20_KLO) ELSE 1
SHi == IF "C20_KHI" \in DOMAIN IOEnv THEN atoi(IOEnv.C20_KHI) ELSE 3
SetKPairs == {SetSeq[i] : i \in SLo..SHi}
SeqsFromTo(S, L0, L) == UNION {[1..l -> S] : l \in L0..L}
AllSetSels(N, L) == {<<f, q>> : f \in {"s_ilist", "s_iarray"}, q \in SeqsFromTo((-N)..(N - 1), 1, L)}
                    \cup {<<f, q>> : f \in {"s_imask", "s_lmask"}, q \in SeqsFromTo({0, 1}, 2, N)}
QSetSels == AllSetSels(3, 2)
QSetSlices == {<<None, None, None>>, <<1, None, None>>, <<None, -1, None>>, <<1, 2, None>>, <<2, 1, None>>,
               <<0, 0, None>>, <<-5, 5, None>>}
=============================================================================
