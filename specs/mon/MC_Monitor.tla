---------------------------- MODULE MC_Monitor ----------------------------
(* Model-checking / script-emission instances of Monitor.tla.
   Constants containing tuples cannot be written in a .cfg, hence this wrapper.
   The k pairs of a run are selected by the environment (IOEnv.C20_KP = "lo-hi", indices into
   KPairSeq) so that the 16 pairs can be spread over parallel TLC processes.            *)
EXTENDS Monitor, IOUtils

Ks == <<None, 1, 2, -1>>
KPairSeq == [i \in 1..16 |-> <<Ks[((i - 1) \div 4) + 1], Ks[((i - 1) % 4) + 1]>>]
KLo == IF "C20_KLO" \in DOMAIN IOEnv THEN atoi(IOEnv.C20_KLO) ELSE 1
KHi == IF "C20_KHI" \in DOMAIN IOEnv THEN atoi(IOEnv.C20_KHI) ELSE 16
EnvKPairs == {KPairSeq[i] : i \in KLo..KHi}

(* ---- operation scripts ---- *)
AllOpsButCall == AllOps \ {"call"}
QSlices == {<<None, None, -1>>, <<1, None, None>>}
TSlices == {<<None, None, -1>>, <<1, None, None>>, <<None, -1, 2>>, <<-2, None, None>>}
W0 == {<< >>}
W3 == {<<1, 2, 1>>}
W4 == {<<1, 2, 2, 1>>}
W5 == {<<1, 2, 2, 1, 2>>}

(* ---- exhaustive slices: one Slice on a monitor of every length 0..N ---- *)
SliceOps == {"slice"}
SW3 == {<< >>, <<1>>, <<1, 1>>, <<1, 1, 1>>}
SW4 == SW3 \cup {<<1, 1, 1, 1>>}
QBnd == {None, -4, -3, -2, -1, 0, 1, 2, 3, 4}
TBnd == {None, -6, -5, -4, -3, -2, -1, 0, 1, 2, 3, 4, 5, 6}
QSteps == {None, 1, 2, 3, -1, -2, -3}
TSteps == {None, 1, 2, 3, 5, -1, -2, -3, -5}
QAllSlices == {<<a, b, c>> : a \in QBnd, b \in QBnd, c \in QSteps}
TAllSlices == {<<a, b, c>> : a \in TBnd, b \in TBnd, c \in TSteps}
SliceKPairs == {<<None, None>>, <<2, 2>>}
=============================================================================
