SPECIFICATION Spec
CONSTANTS Dims = {1, 2, 3}
  Ranks = {0, 1, 2, 3}
  MaxIter = 3
INVARIANT Sorted
PROPERTY EvalsPerIteration
PROPERTY BestNeverWorsens
PROPERTY NoShrinkImproves
PROPERTY ShrinkKeepsBest
