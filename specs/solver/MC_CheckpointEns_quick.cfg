\* quick: lattice of Nelder-Mead members only (the Powell-member kinds: thorough runs, and every Gen_CheckpointEns run checks the same invariants on its behaviours)
SPECIFICATION Spec
CONSTANTS EKinds = {"LNM"}
  NMem = 2
  MaxGen = 2
  MaxRefuse = 1
  MaxInst = 3
  MaxCells = 28
  MaxObjs = 6
  Settings <- QSettings
  Design = "ok"
  MaxOps = 3
CONSTRAINT QuickBound
INVARIANT TypeOK
INVARIANT ResumeEquivalence
INVARIANT CopyCounts
INVARIANT TotalIsSum
INVARIANT RngLabelsFunctional
PROPERTY Independence
