SPECIFICATION Spec
CONSTANTS
  Dims = {3}
  MaxBins = 7
  BinChoices = {1, 4, 5, 7}
  Scales = {0}
  Bounds <- W3Bounds
INVARIANT Exact
INVARIANT Representable
INVARIANT CountIsProduct
INVARIANT FullProduct
INVARIANT RowMajor
INVARIANT OwnCellCentre
INVARIANT DistinctIfProper
INVARIANT Emit
