\* refuted design: TLC must report Independence violated
SPECIFICATION Spec
CONSTANTS EKinds = {"LNM", "BPW"}
  NMem = 2
  MaxGen = 2
  MaxRefuse = 1
  MaxInst = 3
  MaxCells = 28
  MaxObjs = 6
  Settings <- QSettings
  Design = "copy_shares_monitors"
  MaxOps = 3
CONSTRAINT RefIdle
PROPERTY Independence
