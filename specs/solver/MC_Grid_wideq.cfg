SPECIFICATION Spec
CONSTANTS
  Dims = {1, 2}
  MaxBins = 12
  BinChoices = {1, 4, 7, 10, 12}
  Scales = {0}
  Bounds <- W2Bounds
INVARIANT Exact
INVARIANT Representable
INVARIANT CountIsProduct
INVARIANT FullProduct
INVARIANT RowMajor
INVARIANT OwnCellCentre
INVARIANT DistinctIfProper
INVARIANT Emit
