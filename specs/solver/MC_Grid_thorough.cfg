SPECIFICATION Spec
CONSTANTS
  Dims = {1, 2, 3}
  MaxBins = 3
  Bounds <- TBounds
INVARIANT Exact
INVARIANT CountIsProduct
INVARIANT FullProduct
INVARIANT RowMajor
INVARIANT OwnCellCentre
INVARIANT DistinctIfProper
INVARIANT Emit
