--------------------------- MODULE Trace_Searcher ---------------------------
(***************************************************************************)
(* Trace validation (code -> spec) for Searcher.tla.                       *)
(*                                                                         *)
(* IOEnv.TRACE_FILE is a JSON array of traces; a trace is the record of    *)
(* the public calls made on ONE real mystic.search.Searcher (Nelder-Mead / *)
(* Powell seekers, Buckshot / Lattice / Sparsity sprayer) by               *)
(* harness/c09_sampler.py:                                                 *)
(*   New    n, retry, repeat, traj                                         *)
(*   Call   op: "search" / "reset" / "traj_on" / "traj_off"                 *)
(*   Solve  one ensemble solve (`_search`) returned: bests = the members'  *)
(*          best points [key, e] in member order (key = interned id of the *)
(*          point rounded to memtol digits, e = rank of its value), evs =  *)
(*          the (point, value) pairs the harness's own cost function saw,  *)
(*          in order, as interned ids; oob = how many were outside the     *)
(*          bounds; bestmin = every member's best is the minimum of what it *)
(*          evaluated; size = the cache size `_search` reported             *)
(*   Ret    the call returned: Coordinates()/Values() (cache, vals),       *)
(*          Minima() (minima), Coordinates/Values(all=True) zipped and     *)
(*          interned (archive), Samples(all=True) / Samples() as interned  *)
(*          pair ids (samples, steps; empty unless trajectories are on),   *)
(*          the number of saved sprayers, the real calls so far            *)
(* The loop control between the solves (Outer / Mid / PassEnd of           *)
(* Searcher.tla) has no event: these steps are taken silently and always   *)
(* first; an event is only matched in a settled state.                     *)
(***************************************************************************)
EXTENDS Searcher, Json, IOUtils, TLCExt

Traces == JsonDeserialize(IOEnv.TRACE_FILE)

VARIABLES tid, l, await
tvars == <<retry, repeat, traj, cache, archive, sprayers, evlog, tlog, bests,
           pc, run, count, size, psize, osize, passes, nsolves, total, hist, script, obs, tid, l, await>>

Tr == Traces[tid]
E  == Tr[l]
Cfg == Tr[1]
Diagnose == "DIAG" \in DOMAIN IOEnv

AllTrue(cl) == \A i \in DOMAIN cl : cl[i][2]
Probe(cl) == Diagnose => PrintT(<<"@@", ToJson([probe |-> tid, at |-> l,
                                   failing |-> {cl[i][1] : i \in {j \in DOMAIN cl : ~cl[j][2]}}])>>)
IsEvent(name) == l <= Len(Tr) /\ E.ev = name /\ l' = l + 1 /\ UNCHANGED tid

Settled == ~(pc \in {"outer", "mid"} \/ (pc = "inner" /\ ~(size > psize)))

TraceInit ==
  /\ tid \in 1..Len(Traces)
  /\ l = 2 /\ await = "call"
  /\ Traces[tid][1].ev = "New"
  /\ retry = Traces[tid][1].retry /\ repeat = Traces[tid][1].repeat /\ traj = Traces[tid][1].traj
  /\ cache = << >> /\ archive = {} /\ sprayers = << >> /\ evlog = << >> /\ tlog = << >> /\ bests = {}
  /\ pc = "idle" /\ run = 0 /\ count = 0 /\ size = 0 /\ psize = 0 /\ osize = 0
  /\ passes = << >> /\ nsolves = 0 /\ total = 0 /\ hist = << >> /\ script = << >> /\ obs = << >>

TraceInternal == ~Settled /\ (Outer \/ Mid \/ PassEnd) /\ UNCHANGED <<tid, l, await>>

TraceCall ==
  /\ Settled /\ IsEvent("Call")
  /\ LET cl == << <<"C09q:call-while-another-call-is-running", pc = "idle" /\ await = "call">> >>
     IN Probe(cl) /\ AllTrue(cl)
  /\ CASE E.op = "search" -> SearchBegin
       [] E.op = "reset"  -> Reset
       [] OTHER -> /\ traj' = (E.op = "traj_on")
                   /\ script' = Append(script, E.op) /\ hist' = Append(hist, << >>)
                   /\ obs' = Append(obs, [Observe(0) EXCEPT !.traj = traj'])
                   /\ UNCHANGED <<retry, repeat, cache, archive, sprayers, evlog, tlog, bests, pc, run, count, size,
                                  psize, osize, passes, nsolves, total>>
  /\ await' = "ret"

TraceSolve ==
  /\ Settled /\ IsEvent("Solve")
  /\ LET cl == << <<"C09q:search-solves-again-only-while-the-documented-retry-repeat-loop-continues",
                        pc = "inner" /\ size > psize>>,
                  <<"C09q:every-member-reports-a-best-point", Len(E.bests) = Cfg.n>>,
                  <<"C09q:every-evaluated-point-inside-the-bounds", E.oob = 0>>,
                  <<"C09q:member-best-is-the-minimum-of-what-it-evaluated", E.bestmin>>,
                  <<"C09q:reported-cache-size-is-the-number-of-distinct-rounded-best-points",
                        E.size = Len(MemoB(cache, E.bests, 1))>> >>
     IN Probe(cl) /\ AllTrue(cl)
  /\ SolveB(E.bests, E.evs, Range(E.evs), << >>, << >>)
  /\ UNCHANGED await

TraceRet ==
  /\ Settled /\ IsEvent("Ret")
  /\ LET pairs == Range(evlog)
         cl == << <<"C09q:search-returns-only-when-the-documented-retry-repeat-loop-has-ended", pc = "idle" /\ await = "ret">>,
                  <<"C09q:cache-holds-the-members-rounded-best-points-each-once",
                        /\ Len(E.cache) = Len(cache) /\ Len(E.vals) = Len(cache)
                        /\ \A i \in DOMAIN E.cache : \E j \in DOMAIN cache : cache[j].key = E.cache[i] /\ cache[j].e = E.vals[i]
                        /\ \A j \in DOMAIN cache : \E i \in DOMAIN E.cache : cache[j].key = E.cache[i]>>,
                  <<"C09q:minima-are-all-cache-entries-at-the-minimum-ties-included", Range(E.minima) = AllMinima(cache)>>,
                  <<"C09q:archive-holds-exactly-the-evaluated-point-value-pairs-each-once",
                        Range(E.archive) = pairs /\ Len(E.archive) = Cardinality(pairs)>>,
                  <<"C09q:saved-sprayers-as-documented", E.nspray = Len(sprayers)>>,
                  <<"C09q:samples-are-exactly-the-evaluations-of-the-saved-sprayers-in-order",
                        traj => E.samples = tlog>>,
                  <<"C09q:step-samples-are-evaluated-points", Range(E.steps) \subseteq Range(tlog)>>,
                  <<"C09q:real-calls-are-the-recorded-evaluations", E.real = Len(evlog)>>,
                  <<"C09q:reset-clears-the-cache-and-the-trajectories-and-keeps-the-archive",
                        script[Len(script)] = "reset" => (Len(E.cache) = 0 /\ E.nspray = 0)>> >>
     IN Probe(cl) /\ AllTrue(cl)
  /\ await' = "call"
  /\ UNCHANGED <<retry, repeat, traj, cache, archive, sprayers, evlog, tlog, bests,
                 pc, run, count, size, psize, osize, passes, nsolves, total, hist, script, obs>>

TraceNext == TraceInternal \/ TraceCall \/ TraceSolve \/ TraceRet
TraceSpec == TraceInit /\ [][TraceNext]_tvars

-----------------------------------------------------------------------------
ASSUME TLCSet(1, {})
ASSUME TLCSet(2, [i \in 1..Len(Traces) |-> 0])

Accept ==
  /\ (l = Len(Tr) + 1) => TLCSet(1, TLCGet(1) \cup {tid})
  /\ Diagnose => (TLCGet(2)[tid] < l => TLCSet(2, [TLCGet(2) EXCEPT ![tid] = l]))

AllAccepted ==
  /\ PrintT(<<"@@", ToJson([accepted |-> Cardinality(TLCGet(1)), total |-> Len(Traces),
                            rejected |-> (1..Len(Traces)) \ TLCGet(1),
                            prefix |-> IF Diagnose THEN TLCGet(2) ELSE << >>])>>)
  /\ TRUE
=============================================================================
