SPECIFICATION Spec
CONSTANTS
  N = 3
  Points <- Pts
  En <- EnQ
  KeyOf <- KeyQ
  Outs <- Outs3
  Configs <- Configs3
  Ops <- OpsAll
  MaxOps = 3
  MaxSolves = 5
  Design = "documented"
CONSTRAINT Bounded
INVARIANT ArchiveIsEvaluated
INVARIANT CacheIsBests
INVARIANT MinimaAreAllMinima
INVARIANT SamplesAreEvaluations
INVARIANT RetryHonoured
INVARIANT ResetClears
INVARIANT SprayersOnlyWithTraj
INVARIANT Emit
