\* vacuity witness: the negated reachability claim must be VIOLATED
SPECIFICATION Spec
CONSTANTS Kinds = {"NM"}
  NP = 2
  MaxGen = 3
  MaxInst = 3
  MaxCells = 12
  Settings <- WDiv
  Design = "ok"
  MaxOps = 3
INVARIANT NeverStopRestoredContinued
