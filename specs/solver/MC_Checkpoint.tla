--------------------------- MODULE MC_Checkpoint ---------------------------
(* Model-checking instances of Checkpoint.tla (free interleaving of all actions). *)
(* Configuration records cannot be written in a .cfg file, hence this wrapper.    *)
EXTENDS Checkpoint

S(id, sf, em, lim, le, rg, dk) == [id |-> id, sf |-> sf, em |-> em, lim |-> lim, le |-> le, rg |-> rg, dk |-> dk]

(* quick: a plain configuration and one with everything switched on (dump every 2nd generation, evaluation *)
(* monitor, generation limit 2, strict ranges)                                                             *)
QSettings == {S(1, 0, FALSE, None, None, FALSE, FALSE), S(2, 2, TRUE, 2, None, TRUE, FALSE)}
(* thorough: additionally dump every generation + evaluation limit (DE kinds), and a later generation limit *)
TSettings == QSettings \cup {S(3, 1, FALSE, None, 3 * NP, FALSE, TRUE), S(4, 3, FALSE, 3, None, FALSE, FALSE)}
(* four instances (two created from the same snapshot, chains): the everything-on configuration only *)
XSettings == {S(2, 2, TRUE, 2, None, TRUE, FALSE)}
=============================================================================
