--------------------------- MODULE MC_Checkpoint ---------------------------
(* Model-checking instances of Checkpoint.tla (free interleaving of all actions). *)
(* Configuration records cannot be written in a .cfg file, hence this wrapper.    *)
EXTENDS Checkpoint

S(id, sf, em, lim, le, rg, dk) == [id |-> id, sf |-> sf, em |-> em, lim |-> lim, le |-> le, rg |-> rg, dk |-> dk]

(* quick: a plain configuration and one with everything switched on: dump every generation, evaluation monitor,  *)
(* strict ranges, generation limit 1 -- the run stops at a dump generation, is continued after a raised limit      *)
QSettings == {S(1, 0, FALSE, None, None, FALSE, FALSE), S(2, 1, TRUE, 1, None, TRUE, FALSE)}
(* thorough: additionally dump every generation + evaluation limit (DE kinds), a later generation limit with dump *)
(* every 3rd, and dump every 2nd with the stop at generation 2                                                     *)
(* (the two quick configurations are covered for all four kinds by MC_Checkpoint_thorough.cfg)                      *)
TSettings == {S(3, 1, FALSE, None, 3 * NP, FALSE, TRUE), S(4, 3, FALSE, 3, None, FALSE, FALSE),
              S(6, 2, TRUE, 2, None, TRUE, FALSE)}
(* the stop: strict ranges, dump every 2nd generation, limit at generation 2 (a dump generation) / 1 (not one) *)
WDiv == {S(2, 2, TRUE, 2, None, TRUE, FALSE)}
WNonDiv == {S(5, 2, FALSE, 1, None, TRUE, FALSE)}
WSettings == WDiv \cup WNonDiv
PSettings == {S(1, 0, FALSE, None, None, FALSE, FALSE)}      \* plain only (witnesses that need no dump / limit)
(* four instances (two created from the same snapshot, chains): the everything-on configuration only *)
XSettings == {S(2, 2, TRUE, 2, None, TRUE, FALSE)}
=============================================================================
