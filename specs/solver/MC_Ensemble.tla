---------------------------- MODULE MC_Ensemble ----------------------------
(* model-checking instances of Ensemble.tla.  `Emit` prints every COMPLETE behaviour (the ensemble has
   stopped: all members terminated, and in "solve" mode the last explored Solve() call has returned)
   with the member programs, the completion order of every map call and the ensemble's report after
   each; harness/check_C09.py replays them on a real LatticeSolver with scripted members under a map
   that executes exactly these completion orders. *)
EXTENDS Ensemble, Json
E2 == {0, 1}
E3 == {0, 1, 2}
K1 == {1}
K12 == {1, 2}
Both == {"solve", "step"}
Solve == {"solve"}
Step == {"step"}

Complete == pc = "stopped" /\ (mode = "step" \/ Len(hist) = MaxCalls)
Emit == Complete => PrintT(<<"@@", ToJson([n |-> N, mode |-> mode, traj |-> traj, hist |-> hist, obs |-> obs,
                                           real |-> real])>>)
=============================================================================
