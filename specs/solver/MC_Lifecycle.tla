---- MODULE MC_Lifecycle ----
EXTENDS Lifecycle
====
