SPECIFICATION Spec
CONSTANTS Pt = {1, 2, 3}
  MaxE = 2
  NP = 2
  Solver = "NM"
  BestRule = "next"
  MaxIter = 2
INVARIANT BestEvaluated
INVARIANT EnergyFaithful
INVARIANT BestLeInit
INVARIANT BestIsMin
INVARIANT NeverOutside
INVARIANT BestInBox
INVARIANT CallsConstrained
INVARIANT ReportedConstrained
