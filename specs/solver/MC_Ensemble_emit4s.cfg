SPECIFICATION Spec
CONSTANTS
  N = 4
  Energies <- E2
  Ks <- K1
  MaxSteps = 2
  Modes <- Solve
  Scan = "index"
  MaxCalls = 1
INVARIANT MemberCount
INVARIANT StartsAreOwnCells
INVARIANT ProgressLegal
INVARIANT BestIsMin
INVARIANT BestIsThatMember
INVARIANT TieRule
INVARIANT TotalIsSum
INVARIANT TotalIsReal
INVARIANT SolveCompletes
INVARIANT StepContinues
INVARIANT ScheduleIndependence
INVARIANT Emit
