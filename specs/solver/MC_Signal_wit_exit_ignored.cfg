SPECIFICATION Spec
CONSTANTS
  Calls <- CallsMenu
  Switches <- SwCore
  Wheres = {"cost"}
  InitHandlers = {"default"}
  MaxCalls = 2
  MaxSig = 1
  MaxMenu = 1
  ConsultExit = FALSE
PROPERTY NoIterAfterExit
