--------------------------- MODULE Cover_Lifecycle ---------------------------
(***************************************************************************)
(* Coverage-driven script generator for Lifecycle.tla ("one implementation *)
(* test per transition of the state graph").                               *)
(*                                                                         *)
(* Gen_Lifecycle enumerates every script up to a depth, which stops at 3   *)
(* calls for the 26-letter alphabet.  Here TLC explores the same script    *)
(* machine under a VIEW that keeps only the flags the protocol branches on *)
(* (objective live?, Powell iteration pending?, monitor empty / one / more *)
(* records, evaluation monitor on? shorter than the counter? exit requested?, termination holding?, *)
(* stopped?, each limit unset / default-from-now / reached / not reached,  *)
(* scripted termination set, armed exit), so breadth-first search finds    *)
(* for EVERY reachable abstract state a shortest script reaching it, up to *)
(* Depth calls, and emits it once.  The harness runs each emitted script   *)
(* followed by each letter of the alphabet on the real solvers (= every    *)
(* transition of the abstract state graph), records the executions and     *)
(* TLC validates them against Trace_Lifecycle.                             *)
(***************************************************************************)
EXTENDS Gen_Lifecycle

Min2(n) == IF n > 2 THEN 2 ELSE n
LimClassG(t) == IF t.limG = None THEN 0 ELSE IF t.limG = Star THEN 1 ELSE IF Gens(t) >= t.limG THEN 2 ELSE 3
LimClassE(t) == IF t.limE = None THEN 0 ELSE IF t.limE = Star THEN 1 ELSE IF t.fcalls >= t.limE THEN 2
                ELSE IF t.fcalls + t.np >= t.limE THEN 3 ELSE 4

(* the evaluation monitor holds fewer records than the solver has made evaluations (it was installed late or   *)
(* swapped with new=True): its length and the evaluation counter are then different numbers                   *)
EmShort(t) == t.evmon /\ t.nem < t.fcalls
CoverView == <<s.kind, s.live, s.dec, Min2(s.nsm), s.evmon, s.exitreq, s.term, s.stopped, s.mono,
               LimClassG(s), LimClassE(s), at, armed, EmShort(s)>>

(* coarser view for the quick tier: limits only as unset / reached / not reached, no script-side state *)
Lim3(c) == IF c \in {0, 1} THEN 0 ELSE IF c = 2 THEN 1 ELSE 2
CoarseView == <<s.kind, s.live, s.dec, Min2(s.nsm), s.evmon, s.exitreq, s.term, s.stopped,
                Lim3(LimClassG(s)), Lim3(LimClassE(s)), armed > 0, EmShort(s)>>

EmitCover == PrintT(<<"@@", ToJson([script |-> script, kind |-> s.kind])>>)
=============================================================================
