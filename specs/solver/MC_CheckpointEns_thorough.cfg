\* all four ensemble kinds, free interleaving of all three instances (reference included), dill path included
SPECIFICATION Spec
CONSTANTS EKinds = {"LNM", "LPW", "BPW", "SNM"}
  NMem = 2
  MaxGen = 2
  MaxRefuse = 1
  MaxInst = 3
  MaxCells = 28
  MaxObjs = 6
  Settings <- QSettings
  Design = "ok"
  MaxOps = 3
INVARIANT TypeOK
INVARIANT ResumeEquivalence
INVARIANT CopyCounts
INVARIANT TotalIsSum
INVARIANT RngLabelsFunctional
PROPERTY Independence
