------------------------------ MODULE Lifecycle ------------------------------
(***************************************************************************)
(* S1 -- the public protocol of one mystic solver object                   *)
(* (AbstractSolver.Step / Solve / Set* / Finalize / Terminated) as a       *)
(* state machine over counters.  One action per critical section:          *)
(*                                                                         *)
(*   Call(mode)        Step()/Solve() entered: (re)decorate the objective  *)
(*                     if it is not live (Solve also clears the exit flag) *)
(*   PreStop           the check before stepping finds a stop condition:   *)
(*                     the call returns its message, nothing else happens  *)
(*   Iter(k, ..)       one _Step: k cost evaluations, one step-monitor     *)
(*                     record, one callback; then the user termination and *)
(*                     the exit flag take new values                       *)
(*   PostStop          the check after stepping finds a stop condition:    *)
(*                     Finalize, message returned                          *)
(*   PostContinue      no stop condition: Step returns None / Solve loops  *)
(*   SetLimits, SetCfg, SetEvalMon, SetStepMon, SetTerm, RequestExit,      *)
(*   Finalize          configuration calls between Step/Solve calls        *)
(*                                                                         *)
(* The whole solver state is the record `s` so that trace specifications   *)
(* can compose the micro-steps as functions.  Ghost fields: `real` (number *)
(* of real cost calls), `iters` (iterations completed after the initial    *)
(* evaluation).  The properties of C04/C05 are stated at the end.          *)
(*                                                                         *)
(* Kinds: "DE" and "DE2" (NP evaluations per generation, DE2 counts them   *)
(* after its map returns), "NM" (Nelder-Mead), "PW" (Powell).              *)
(* Limits: None = -1; a limit given with new=True is stored absolute       *)
(* (count at that moment + n); "default counted from now" is Star until    *)
(* the next termination check resolves it (as the code does).              *)
(***************************************************************************)
EXTENDS Integers, Sequences, FiniteSets, TLC

CONSTANTS Kinds,       \* subset of {"DE", "DE2", "NM", "PW"} explored (the kind is a field of the state)
          NP,          \* cost evaluations of one DE generation
          Dim,         \* problem dimension (NM: Dim evaluations to build the simplex)
          DefG, DefE,  \* default generation / evaluation limits of this solver
          MaxK,        \* bound on evaluations of one NM/Powell iteration (model checking only)
          MaxCfg,      \* configuration calls explored (model checking only)
          MaxCalls,    \* Step/Solve calls explored (model checking only)
          AsIs         \* TRUE: model the evaluation counter restarting from 0 at re-decoration
                       \*       (the behaviour found on the pinned tree, finding F1)

None == -1
Star == -2

VARIABLE s
vars == <<s>>

Max(a, b) == IF a > b THEN a ELSE b

-----------------------------------------------------------------------------
(* derived observables *)

(* generations as the solver reports them *)
Gens(t) == IF t.dec THEN t.nsm ELSE Max(0, t.nsm - 1)

(* limits after the lazy resolution done by every termination check *)
ResG(t) == IF t.limG = None THEN t.defG ELSE IF t.limG = Star THEN t.defG + Gens(t) ELSE t.limG
ResE(t) == IF t.limE = None THEN t.defE ELSE IF t.limE = Star THEN t.defE + t.fcalls ELSE t.limE
Resolve(t) == [t EXCEPT !.limG = ResG(t), !.limE = ResE(t)]

EvalStop(t) == t.fcalls >= ResE(t)
GenStop(t)  == Gens(t) >= ResG(t)
Stop(t) == EvalStop(t) \/ GenStop(t) \/ t.exitreq \/ t.term

(* message class with the priority of AbstractSolver.Terminated *)
Msg(t) == IF EvalStop(t) \/ GenStop(t) THEN "Limits"
          ELSE IF t.exitreq THEN "Interrupt"
          ELSE IF t.term THEN "Term" ELSE "None"

(* the warning flag the one-line wrappers (fmin, fmin_powell, diffev, diffev2) return next to *)
(* (xopt, fopt, iter, funcalls): 1 = evaluation limit reached, 2 = generation limit reached  *)
(* (evaluations take priority, as in Msg), 0 = neither: the run converged                    *)
WarnFlag(t) == IF EvalStop(t) THEN 1 ELSE IF GenStop(t) THEN 2 ELSE 0

-----------------------------------------------------------------------------
Init0(kind, np, dim, defG, defE) ==
        [kind |-> kind, np |-> np, dim |-> dim, defG |-> defG, defE |-> defE,
          pc |-> "idle", mode |-> "step", live |-> FALSE,
          nsm |-> 0, dec |-> FALSE, fcalls |-> 0, real |-> 0, nem |-> 0, ncb |-> 0,
          limG |-> None, limE |-> None, term |-> FALSE, exitreq |-> FALSE,
          msg |-> "None", iters |-> 0, lastk |-> 0, began |-> FALSE, stopped |-> FALSE,
          evmon |-> TRUE, embase |-> 0, ncfg |-> 0, ncalls |-> 0, mono |-> TRUE]

Init == \E k \in Kinds : s = Init0(k, NP, Dim, DefG, DefE)

(* ---- configuration calls (only between Step/Solve calls) ---- *)

(* Finalize: mark the objective stale; Powell first records the last iteration's *)
(* result if it is not in the step monitor yet                                   *)
FinalizeF(t) ==
  IF t.kind = "PW" /\ t.dec /\ t.live
  THEN [t EXCEPT !.live = FALSE, !.nsm = t.nsm + 1, !.dec = FALSE]
  ELSE [t EXCEPT !.live = FALSE]

CanCfg == s.pc = "idle" /\ s.ncfg < MaxCfg
Cfg(t) == [t EXCEPT !.ncfg = t.ncfg + 1, !.began = FALSE, !.msg = "None"]

SetLimits(g, e, new) ==
  /\ CanCfg
  /\ s' = [s EXCEPT !.limG = IF g = None THEN (IF new THEN Star ELSE None)
                             ELSE (IF new THEN g + Gens(s) ELSE g),
                    !.limE = IF e = None THEN (IF new THEN Star ELSE None)
                             ELSE (IF new THEN e + s.fcalls ELSE e),
                    !.began = FALSE, !.ncfg = s.ncfg + 1, !.msg = "None"]

(* SetConstraints / SetPenalty / SetStrictRanges / SetReducer: the objective must be    *)
(* re-decorated, except that the DE solvers apply constraints outside the objective     *)
Restale(t, what) == IF t.kind \in {"DE", "DE2"} /\ what = "cons" THEN t ELSE FinalizeF(t)
(* `mono`: the objective has not been changed since the run began (a new penalty   *)
(* re-prices old points, after which the energy history need not be monotone)     *)
SetCfg(what) == /\ CanCfg
                /\ s' = Cfg([Restale(s, what) EXCEPT !.mono = s.mono /\ what # "objchange"])

(* a new generation monitor: anything not yet logged is logged into the old one first *)
SetStepMon == /\ CanCfg
              /\ s' = Cfg(IF s.dec THEN FinalizeF(s) ELSE s)

Finalize == /\ CanCfg
            /\ s' = Cfg(FinalizeF(s))

(* a fresh, empty evaluation monitor; existing records are prepended unless new *)
SetEvalMon(new, on) ==
  /\ CanCfg
  /\ LET keep == on /\ s.evmon /\ ~new IN
     s' = Cfg([FinalizeF(s) EXCEPT !.nem = IF keep THEN s.nem ELSE 0, !.evmon = on,
                                   !.embase = IF keep THEN s.embase ELSE s.real])

SetTerm(b) == /\ CanCfg
              /\ s' = Cfg([s EXCEPT !.term = b])

RequestExit == /\ CanCfg
               /\ s' = Cfg([s EXCEPT !.exitreq = TRUE])

(* ---- Step / Solve ---- *)

(* (re)decoration of the objective.  As found on the pinned tree the wrapped  *)
(* cost got a fresh counter starting at 0 (all kinds but DE2).                *)
BootF(t) ==
  IF t.live THEN t
  ELSE [t EXCEPT !.live = TRUE,
                 !.fcalls = IF AsIs /\ t.kind # "DE2" THEN 0 ELSE t.fcalls]

CallF(t, mode) ==
  [BootF(t) EXCEPT !.pc = "pre", !.mode = mode, !.msg = "None", !.began = FALSE,
                   !.ncalls = t.ncalls + 1,
                   !.exitreq = IF mode = "solve" THEN FALSE ELSE t.exitreq]
Call(mode) ==
  /\ s.pc = "idle" /\ s.ncalls < MaxCalls
  /\ s' = CallF(s, mode)

(* the check before stepping exists only once something has been recorded *)
PreStop ==
  /\ s.pc = "pre" /\ s.nsm > 0 /\ Stop(s)
  /\ s' = [Resolve(s) EXCEPT !.pc = "idle", !.msg = Msg(s), !.began = FALSE, !.stopped = TRUE]

(* evaluations of one iteration, by kind and phase *)
KRange(t) ==
  CASE t.kind \in {"DE", "DE2"} -> {t.np}
    [] t.kind = "NM" -> IF t.nsm = 0 THEN {1} ELSE IF Gens(t) = 0 THEN {t.dim} ELSE {1, 2, t.dim + 2}
    [] t.kind = "PW" -> IF t.nsm = 0 THEN {1} ELSE 1..MaxK

(* one _Step: k evaluations, a step-monitor record, a callback *)
IterF(t, k, term, exit) ==
  LET first == t.nsm = 0
      r == IF t.nsm > 0 THEN Resolve(t) ELSE t      \* limits were resolved by the pre-check
      pwfirst == t.kind = "PW" /\ first
  IN [r EXCEPT
        !.pc = "post",
        !.fcalls = r.fcalls + k, !.real = r.real + k,
        !.nem = IF r.evmon THEN r.nem + k ELSE 0,
        !.ncb = r.ncb + 1,
        \* step monitor: DE/NM one record per _Step; Powell records iteration i at the
        \* start of iteration i+1 (or in Finalize) and keeps a decoupled energy history
        !.nsm = IF t.kind # "PW" THEN r.nsm + 1
                ELSE IF pwfirst THEN 1
                ELSE IF r.dec THEN r.nsm + 1 ELSE r.nsm,
        !.dec = IF t.kind = "PW" THEN ~pwfirst ELSE FALSE,
        !.iters = IF first THEN 0 ELSE r.iters + 1,
        !.lastk = k, !.began = ~first,
        !.term = term, !.exitreq = r.exitreq \/ exit]

Iter(k, term, exit) ==
  /\ s.pc = "pre"
  /\ s.nsm = 0 \/ ~Stop(s)
  /\ k \in KRange(s)
  /\ s' = IterF(s, k, term, exit)

PostStopF(t) ==
  [FinalizeF(Resolve(t)) EXCEPT !.pc = "idle", !.msg = Msg(t), !.began = FALSE, !.stopped = TRUE]

PostStop == /\ s.pc = "post" /\ Stop(s)
            /\ s' = PostStopF(s)

PostContinueF(t) ==
  [Resolve(t) EXCEPT !.pc = IF t.mode = "solve" THEN "pre" ELSE "idle", !.msg = "None",
                     !.began = FALSE, !.stopped = FALSE]

PostContinue == /\ s.pc = "post" /\ ~Stop(s)
                /\ s' = PostContinueF(s)

-----------------------------------------------------------------------------
Limits == {None, 0, 1, 2, 3}

Next ==
  \/ \E g \in Limits, e \in Limits \cup {NP + 1}, new \in BOOLEAN : SetLimits(g, e, new)
  \/ \E what \in {"cons", "pen", "objchange"} : SetCfg(what)
  \/ SetStepMon
  \/ Finalize
  \/ \E new \in BOOLEAN, on \in BOOLEAN : SetEvalMon(new, on)
  \/ \E b \in BOOLEAN : SetTerm(b)
  \/ RequestExit
  \/ \E m \in {"step", "solve"} : Call(m)
  \/ PreStop
  \/ \E k \in 1..(IF s.kind \in {"DE","DE2"} THEN NP ELSE MaxK), term \in BOOLEAN, exit \in BOOLEAN : Iter(k, term, exit)
  \/ PostStop
  \/ PostContinue

Spec == Init /\ [][Next]_vars
FairSpec == Spec /\ WF_vars(PreStop) /\ WF_vars(PostStop) /\ WF_vars(PostContinue)
                 /\ WF_vars(\E k \in 1..(IF s.kind \in {"DE","DE2"} THEN NP ELSE MaxK), term \in BOOLEAN, exit \in BOOLEAN : Iter(k, term, exit))

-----------------------------------------------------------------------------
(* C04: counters are faithful *)
CounterFaithful == s.fcalls = s.real
EvalMonFaithful == s.evmon => s.nem = s.real - s.embase
GensAreIterations == s.pc # "post" => Gens(s) = s.iters \/ s.nsm = 0
StoppedMonitorComplete ==
  (s.pc = "idle" /\ s.stopped /\ s.nsm > 0 /\ ~s.dec) => s.nsm = Gens(s) + 1
OneCallbackPerStep == s.nsm > 0 => s.ncb = s.iters + 1

(* C05: stopping discipline *)
(* `began` is set by exactly the Iter actions that begin an iteration after the initial   *)
(* evaluation; the state before such a step must not satisfy a stop condition             *)
StopTrue(t) == t.real >= ResE(t) \/ GenStop(t) \/ t.exitreq \/ t.term
IterOnlyIfAllowed == [][s'.began => ~StopTrue(s)]_vars
NoOvershoot ==   \* evaluations exceed the limit by less than one iteration's worth
  (s.began /\ s.limE >= 0) => s.real - s.lastk < s.limE
GensNeverExceed == (s.began /\ s.limG >= 0) => Gens(s) <= s.limG
MsgTruthful ==
  s.pc = "idle" =>
     /\ s.msg = "Limits"    => (EvalStop(s) \/ GenStop(s))
     /\ s.msg = "Interrupt" => s.exitreq
     /\ s.msg = "Term"      => s.term
(* Solve always returns: from any call, idle is reached again *)
SolveReturns == (s.pc # "idle") ~> (s.pc = "idle")
=============================================================================
