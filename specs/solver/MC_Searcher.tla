---------------------------- MODULE MC_Searcher ----------------------------
(* model-checking instances of Searcher.tla.  `Emit` prints every complete script (MaxOps public calls, the
   last one returned, at most MaxSolves ensemble solves) with the configuration, the joint outcome of every
   ensemble solve and the observable state the specification predicts after every call;
   harness/c09_sampler.py executes them on a real mystic.search.Searcher whose seekers are scripted. *)
EXTENDS Searcher, Json

(* points: value, and the representative of the point rounded to memtol digits (3 rounds onto 2) *)
Pts == 1..5
EnQ == <<1, 0, 0, 0, 2>>
KeyQ == <<1, 2, 2, 4, 5>>
ASSUME \A p \in Pts : EnQ[KeyQ[p]] = EnQ[p] /\ KeyQ[KeyQ[p]] = KeyQ[p] /\ EnQ[p] < 5

A == <<1>>
B == <<1, 2>>
C == <<3>>
D == <<5, 4>>
E == <<2, 2>>
F == <<4, 5, 1>>
Outs2 == {<<A, A>>, <<B, C>>, <<D, A>>, <<E, C>>}
Outs2s == {<<A, A>>, <<B, C>>, <<D, A>>}
Outs3 == {<<A, A, A>>, <<B, C, A>>, <<D, E, F>>}
OutsAll2 == [1..2 -> {A, B, C, D, E}]

Cfg(r, p, t) == [retry |-> r, repeat |-> p, traj |-> t]
ConfigsQ == {Cfg(1, 0, TRUE), Cfg(0, 0, FALSE), Cfg(2, 0, TRUE), Cfg(1, 1, TRUE)}
ConfigsT == {Cfg(r, p, t) : r \in {0, 1, 2}, p \in {0, 1}, t \in {TRUE, FALSE}}
Config21 == {Cfg(2, 1, TRUE)}
Configs3 == {Cfg(1, 0, TRUE), Cfg(2, 0, FALSE), Cfg(0, 1, TRUE), Cfg(1, 1, FALSE)}
OpsAll == {"search", "reset", "traj_on", "traj_off"}
OpsSR == {"search", "reset"}

Done == pc = "idle" /\ Len(script) = MaxOps
Emit == Done => PrintT(<<"@@", ToJson([n |-> N, retry |-> retry, repeat |-> repeat, traj0 |-> obs[1].traj,
                                       script |-> script, hist |-> hist, obs |-> obs,
                                       passes |-> passes])>>)
=============================================================================
