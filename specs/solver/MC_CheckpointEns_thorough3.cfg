\* three members per ensemble
SPECIFICATION Spec
CONSTANTS EKinds = {"LNM", "BPW"}
  NMem = 3
  MaxGen = 2
  MaxRefuse = 1
  MaxInst = 3
  MaxCells = 40
  MaxObjs = 9
  Settings <- QSettings
  Design = "ok"
  MaxOps = 3
CONSTRAINT RefIdle
INVARIANT TypeOK
INVARIANT ResumeEquivalence
INVARIANT CopyCounts
INVARIANT TotalIsSum
INVARIANT RngLabelsFunctional
PROPERTY Independence
