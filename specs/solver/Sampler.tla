------------------------------ MODULE Sampler ------------------------------
(***************************************************************************)
(* S4b -- an optimizer-directed sampler (mystic/abstract_sampler.py;       *)
(* Lattice/Buckshot/Sparsity/MixedSampler in samplers.py): an ensemble of  *)
(* N member solvers (Ensemble.tla) that is advanced ONE ROUND AT A TIME     *)
(* (every member takes one step), with the sampler's own accounting of the  *)
(* work done and the documented reset policy.  One action per public call: *)
(*                                                                         *)
(*   Construct      (Init) no member exists yet, all counters are zero      *)
(*   sample(if_terminated, reset_all)   one round                           *)
(*   sample_until(iters, evals, terminated, if_terminated, reset_all)       *)
(*                  rounds while NO stop condition holds (UntilRound) and   *)
(*                  return as soon as one does (UntilReturn)                *)
(*   reset          (_reset_sampler) the ensemble is as constructed: no     *)
(*                  member, no best; the sampler's totals are kept (they    *)
(*                  are totals of all the work done through this sampler)   *)
(*                                                                         *)
(* A round (`_sample`):                                                    *)
(*   1. the reset decision, as documented in sample():                     *)
(*        reset_all  "never" (None): never reset                           *)
(*                   "all"  (True) : re-create ALL members if `cond` is met *)
(*                   "solved"(False): re-create the TERMINATED members if   *)
(*                                   `cond` is met                         *)
(*        cond       "none" (None): met regardless of termination          *)
(*                   "all"        : all members have terminated            *)
(*                   "best" (True): the best member has terminated          *)
(*                   "any"        : at least one member has terminated      *)
(*                   "zero" (False): at least ZERO members ('0' in the      *)
(*                                   sample_until table): always met        *)
(*   2. every member takes one step: a member that does not exist yet is    *)
(*      created and takes its first step; a terminated member does nothing; *)
(*   3. accounting: every member is charged the model calls it REALLY made  *)
(*      in this round and one iteration.  A step that made no call (a       *)
(*      terminated member stepped without being reset) is charged ONE       *)
(*      nominal evaluation -- this is what lets sample_until(iters/evals)   *)
(*      end when everything has stopped and nothing is reset; `idle` counts *)
(*      these, so that  evals() = real calls + idle  is the exact claim.    *)
(*                                                                         *)
(* A member is [alive, ev, st, fin, e]: it exists, its own evaluation      *)
(* counter, steps taken, terminated, best energy.  In the model-checked     *)
(* instance member j follows the program traj[j] (a sequence of             *)
(* <<evaluations, best energy after the step>>, terminated when the         *)
(* program is exhausted); every new life of a member starts the program     *)
(* again.  Trace validation (Trace_Sampler.tla) uses the same operators     *)
(* (Met, ResetSet, Charge, StopNow) on recorded rounds instead.             *)
(*                                                                         *)
(* `Design` selects the documented design or one of the rejected ones:     *)
(*   "documented"                                                          *)
(*   "asis_reset_delta"   the charge is computed against the counters the  *)
(*                        members had BEFORE the reset (as abstract_sampler *)
(*                        l.151-155 does: max(j-i,1) if j>=i else i)        *)
(*   "asis_until_dowhile" sample_until tests its condition after the round  *)
(*   "asis_until_early"   sample_until anticipates the next round's work    *)
(*   "asis_sample_restarts" every sample() re-creates the members           *)
(*   "asis_reset_keeps"   reset leaves the members in place                 *)
(* Ghosts: real/realm = model calls really made (total / per member),       *)
(* idle/idlem = nominal charges, life = creations per member, rounds,       *)
(* script/obs = the calls made so far and the observable state after each.  *)
(***************************************************************************)
EXTENDS Integers, Sequences, FiniteSets, TLC

CONSTANTS N,         \* members
          Trajs,     \* set of program vectors [1..N -> Seq(<<k, e>>)]
          Calls,     \* alphabet of public calls (records, see MC_Sampler.tla)
          MaxCalls,  \* calls per script
          Design

INF  == 1000000
BEST == 100          \* sample_until(terminated=True): "the best member has terminated"

VARIABLES traj, mem, evals, iters, real, realm, idle, idlem, life, rounds,
          pc, cur, urounds, before, ctx, script, obs
vars == <<traj, mem, evals, iters, real, realm, idle, idlem, life, rounds,
          pc, cur, urounds, before, ctx, script, obs>>

-----------------------------------------------------------------------------
Ids == DOMAIN mem
RECURSIVE SumTo(_, _)
SumTo(f, n) == IF n = 0 THEN 0 ELSE f[n] + SumTo(f, n - 1)
Sum(f) == SumTo(f, Len(f))
Max(a, b) == IF a >= b THEN a ELSE b

Fresh == [alive |-> FALSE, ev |-> 0, st |-> 0, fin |-> FALSE, e |-> INF]
Fins(m) == {j \in DOMAIN m : m[j].alive /\ m[j].fin}

(* the best member as the ensemble selects it (Ensemble!Reduce: the LAST minimal member); 0 if none exists *)
Alive(m) == {j \in DOMAIN m : m[j].alive}
BestOf(m) == IF Alive(m) = {} THEN 0
             ELSE CHOOSE i \in Alive(m) : /\ \A j \in Alive(m) : m[i].e <= m[j].e
                                          /\ \A j \in Alive(m) : (j > i => m[j].e > m[i].e)
BestFin(m) == LET b == BestOf(m) IN b # 0 /\ m[b].fin

(* the documented reset policy *)
Met(cond, m) ==
  CASE cond = "none" -> TRUE
    [] cond = "all"  -> Fins(m) = DOMAIN m
    [] cond = "best" -> BestFin(m)
    [] cond = "any"  -> Fins(m) # {}
    [] cond = "zero" -> TRUE
ResetSet(cond, reset, m) ==
  IF reset = "never" \/ ~Met(cond, m) THEN {}
  ELSE IF reset = "all" THEN DOMAIN m ELSE Fins(m)

(* the reset policy sample_until uses when the caller gives none: never reset once `terminated` is given *)
EffReset(c) == IF c.reset # "default" THEN c.reset ELSE IF c.op = "until" /\ c.lt # -1 THEN "never" ELSE "all"

(* accounting of one member for one round *)
Charge(calls) == IF calls = 0 THEN 1 ELSE calls
AsIsDelta(i, j) == IF j >= i THEN Max(j - i, 1) ELSE i      \* abstract_sampler.py l.151-152
Gens(m) == Max(0, m.st - 1)                                 \* a solver's `generations`

(* the stop conditions of sample_until, on the sampler's REPORTED totals *)
TermHit(lt, m) == IF lt = -1 THEN FALSE ELSE IF lt = BEST THEN BestFin(m) ELSE Cardinality(Fins(m)) >= lt
StopNow(c, m, ev, it) == \/ c.li # -1 /\ Sum(it) >= c.li
                         \/ c.le # -1 /\ Sum(ev) >= c.le
                         \/ TermHit(c.lt, m)

(* the argument check of sample_until: without a limit on iters or evals the loop must be able to end *)
Quit(cond, n) == CASE cond = "all" -> n [] cond = "any" -> 1 [] cond = "best" -> 1 [] OTHER -> 0
LtNum(lt, n) == IF lt = -1 THEN n + 1 ELSE IF lt = BEST THEN 1 ELSE lt
ValidN(c, n) == c.op # "until" \/ c.li # -1 \/ c.le # -1
                \/ ~(LtNum(c.lt, n) > n \/ (EffReset(c) # "never" /\ Quit(c.cond, n) < LtNum(c.lt, n)))
Valid(c) == ValidN(c, Len(mem))

-----------------------------------------------------------------------------
(* the model-checked members *)
StepM(m, j) ==
  IF m.fin THEN m
  ELSE LET g == m.st + 1
           s == traj[j][g]
       IN [alive |-> TRUE, ev |-> m.ev + s[1], st |-> g, fin |-> (g = Len(traj[j])),
           e |-> IF s[2] < m.e THEN s[2] ELSE m.e]

(* one round: returns the post-state of everything a round touches *)
RoundF(cond, reset) ==
  LET R0 == ResetSet(cond, reset, mem)
      R  == IF Design = "asis_sample_restarts" THEN Ids ELSE R0
      m1 == [j \in Ids |-> IF j \in R THEN Fresh ELSE mem[j]]
      m2 == [j \in Ids |-> StepM(m1[j], j)]
      calls == [j \in Ids |-> m2[j].ev - m1[j].ev]
      docE == [j \in Ids |-> Charge(calls[j])]
      asisE == [j \in Ids |-> AsIsDelta(mem[j].ev, m2[j].ev)]
      asisI == [j \in Ids |-> AsIsDelta(Gens(mem[j]), Gens(m2[j]))]
      chE == IF Design = "asis_reset_delta" THEN asisE ELSE docE
      chI == IF Design = "asis_reset_delta" THEN asisI ELSE [j \in Ids |-> 1]
  IN [mem |-> m2, R |-> R, calls |-> calls,
      evals |-> [j \in Ids |-> evals[j] + chE[j]],
      iters |-> [j \in Ids |-> iters[j] + chI[j]],
      life |-> [j \in Ids |-> IF j \in R \/ ~mem[j].alive THEN life[j] + 1 ELSE life[j]],
      \* context labels for the harness (they only name the circumstance of a call, see check keys)
      solved |-> (reset = "solved" /\ R # {}),
      deviates |-> (asisE # docE \/ asisI # [j \in Ids |-> 1])]

ApplyRound(r, base) ==
  /\ mem' = r.mem /\ evals' = r.evals /\ iters' = r.iters /\ life' = r.life
  /\ real' = real + Sum(r.calls)
  /\ realm' = [j \in Ids |-> realm[j] + r.calls[j]]
  /\ idle' = idle + Cardinality({j \in Ids : r.calls[j] = 0})
  /\ idlem' = [j \in Ids |-> idlem[j] + (IF r.calls[j] = 0 THEN 1 ELSE 0)]
  /\ rounds' = rounds + 1
  /\ ctx' = IF r.solved THEN "reset-solved"
            ELSE IF base \in {"reset-solved", "after-reset-solved"} THEN base
            ELSE IF r.deviates THEN "accounting-after-reset" ELSE base

Observe(m, ev, it, rl, nr, cx, raised) ==
  [sev |-> ev, sit |-> it, real |-> rl, rounds |-> nr, ctx |-> cx, raised |-> raised,
   alive |-> [j \in Ids |-> m[j].alive], fin |-> [j \in Ids |-> m[j].alive /\ m[j].fin],
   mev |-> [j \in Ids |-> m[j].ev], best |-> BestOf(m)]

-----------------------------------------------------------------------------
Init ==
  /\ traj \in Trajs
  /\ mem = [j \in 1..N |-> Fresh]
  /\ evals = [j \in 1..N |-> 0] /\ iters = [j \in 1..N |-> 0]
  /\ real = 0 /\ realm = [j \in 1..N |-> 0] /\ idle = 0 /\ idlem = [j \in 1..N |-> 0]
  /\ life = [j \in 1..N |-> 0] /\ rounds = 0
  /\ pc = "idle" /\ cur = << >> /\ urounds = 0 /\ before = << >> /\ ctx = "plain"
  /\ script = << >> /\ obs = << >>

CanCall == pc = "idle" /\ Len(script) < MaxCalls
(* context label of a call that does nothing special itself: has an earlier call re-created terminated members? *)
Base == IF \E i \in DOMAIN obs : obs[i].ctx \in {"reset-solved", "after-reset-solved"} THEN "after-reset-solved" ELSE "plain"

Sample(c) ==
  /\ CanCall /\ c.op = "sample"
  /\ LET r == RoundF(c.cond, EffReset(c))
         cx == IF r.solved THEN "reset-solved" ELSE IF r.deviates THEN "accounting-after-reset" ELSE Base
     IN /\ ApplyRound(r, Base)
        /\ obs' = Append(obs, Observe(r.mem, r.evals, r.iters, real + Sum(r.calls), 1, cx, FALSE))
  /\ script' = Append(script, c)
  /\ UNCHANGED <<traj, pc, cur, urounds, before>>

Reset(c) ==
  /\ CanCall /\ c.op = "reset"
  /\ mem' = IF Design = "asis_reset_keeps" THEN mem ELSE [j \in Ids |-> Fresh]
  /\ script' = Append(script, c)
  /\ obs' = Append(obs, Observe(mem', evals, iters, real, 0, Base, FALSE))
  /\ UNCHANGED <<traj, evals, iters, real, realm, idle, idlem, life, rounds, pc, cur, urounds, before, ctx>>

UntilCall(c) ==
  /\ CanCall /\ c.op = "until"
  /\ script' = Append(script, c)
  /\ IF Valid(c)
     THEN /\ pc' = "until" /\ cur' = c /\ urounds' = 0 /\ before' = << >> /\ ctx' = Base
          /\ UNCHANGED obs
     ELSE /\ obs' = Append(obs, Observe(mem, evals, iters, real, 0, Base, TRUE))     \* ValueError, nothing done
          /\ UNCHANGED <<pc, cur, urounds, before, ctx>>
  /\ UNCHANGED <<traj, mem, evals, iters, real, realm, idle, idlem, life, rounds>>

(* what the loop test of sample_until sees *)
LoopStop ==
  CASE Design = "asis_until_dowhile" -> urounds > 0 /\ StopNow(cur, mem, evals, iters)
    [] Design = "asis_until_early"   -> StopNow(cur, mem, [j \in Ids |-> evals[j] + 1], [j \in Ids |-> iters[j] + 1])
    [] OTHER -> StopNow(cur, mem, evals, iters)

UntilRound ==
  /\ pc = "until" /\ ~LoopStop
  /\ before' = [mem |-> mem, evals |-> evals, iters |-> iters]
  /\ ApplyRound(RoundF(cur.cond, EffReset(cur)), ctx)
  /\ urounds' = urounds + 1
  /\ UNCHANGED <<traj, pc, cur, script, obs>>

UntilReturn ==
  /\ pc = "until" /\ LoopStop
  /\ pc' = "idle"
  /\ obs' = Append(obs, Observe(mem, evals, iters, real, urounds, ctx, FALSE))
  /\ UNCHANGED <<traj, mem, evals, iters, real, realm, idle, idlem, life, rounds, cur, urounds, before, ctx, script>>

Next == (\E c \in Calls : Sample(c) \/ Reset(c) \/ UntilCall(c)) \/ UntilRound \/ UntilReturn
Spec == Init /\ [][Next]_vars

-----------------------------------------------------------------------------
(* C09 (samplers) on the design *)
RECURSIVE SumK(_, _)
SumK(t, g) == IF g = 0 THEN 0 ELSE t[g][1] + SumK(t, g - 1)

(* reported evaluations = real calls of the model (+ the nominal charges), per member and in total *)
EvalsAreRealCalls == /\ \A j \in Ids : evals[j] = realm[j] + idlem[j]
                     /\ Sum(evals) = real + idle
(* every member is charged one iteration per round *)
ItersAreRounds == \A j \in Ids : iters[j] = rounds
(* a member's own counter is the work of its current life: it CONTINUES its program from round to round *)
MembersContinue == \A j \in Ids : mem[j].alive => /\ mem[j].ev = SumK(traj[j], mem[j].st)
                                                  /\ mem[j].fin = (mem[j].st = Len(traj[j]))
(* members are re-created only when the documented policy says so: with "never" every member lives once *)
NeverMeansNever ==
  (\A i \in DOMAIN script : EffReset(script[i]) = "never" /\ script[i].op # "reset") => \A j \in Ids : life[j] <= 1
(* total work = sum over all lives; nothing is lost at a reset *)
RealIsSumOfMembers == real = Sum(realm)
(* reset restores the constructed state of the ensemble and keeps the totals *)
ResetRestores ==
  (pc = "idle" /\ Len(script) > 0 /\ script[Len(script)].op = "reset") =>
     /\ \A j \in Ids : mem[j] = Fresh
     /\ (Len(obs) > 1 => /\ obs[Len(obs)].sev = obs[Len(obs) - 1].sev
                         /\ obs[Len(obs)].sit = obs[Len(obs) - 1].sit)
(* sample_until returns exactly when a stop condition first holds *)
Returned == pc = "idle" /\ Len(script) > 0 /\ script[Len(script)].op = "until" /\ ~obs[Len(obs)].raised
UntilReached == Returned => StopNow(cur, mem, evals, iters)
UntilMinimal == (Returned /\ urounds > 0) => ~StopNow(cur, before.mem, before.evals, before.iters)
(* an invalid sample_until does nothing *)
InvalidDoesNothing == \A i \in DOMAIN obs : obs[i].raised => (obs[i].rounds = 0 /\ ~Valid(script[i]))

(* vacuity companions: TLC must refute each *)
NeverIdleCharge == idle = 0
NeverResetAfterProgress == \A j \in Ids : life[j] <= 1
NeverZeroRoundUntil == Returned => urounds > 0
NeverManyRoundUntil == Returned => urounds <= 1
NeverAsIsDeviates == ctx # "accounting-after-reset"
NeverResetSolved == ctx # "reset-solved"
NeverTieForBest == \A i, j \in Ids : (i # j /\ mem[i].alive /\ mem[j].alive) => mem[i].e # mem[j].e
NeverInvalid == \A i \in DOMAIN obs : ~obs[i].raised
=============================================================================
