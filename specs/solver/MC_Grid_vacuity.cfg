SPECIFICATION Spec
CONSTANTS
  Dims = {2}
  MaxBins = 3
  Bounds <- DBounds
INVARIANT ColMajorNeverDiffers
