SPECIFICATION Spec
CONSTANTS
  Dims = {2}
  MaxBins = 3
  BinChoices = {1, 2, 3}
  Scales = {0}
  Bounds <- DBounds
INVARIANT ColMajorNeverDiffers
