--------------------------- MODULE Trace_Objective ---------------------------
(***************************************************************************)
(* Trace validation (code -> spec) of the objective-level properties       *)
(* C01 / C02 / C03 on executions recorded by harness/objrec.py.            *)
(*                                                                         *)
(* The state is the ghost log `calls` of Objective.tla -- the set of       *)
(* <<point id, cost+penalty at that point>> pairs at which the USER'S cost *)
(* was really called -- plus the configuration epoch.  The actions are the *)
(* ones of Objective.tla seen from outside:                                *)
(*   Call      the user's cost is called at a point (enabled only inside   *)
(*             the box in force and only at a point the constraints in     *)
(*             force leave unchanged)                                      *)
(*   Set       ranges / constraints / penalty (re)installed mid-run        *)
(*   Boundary  an iteration boundary (after every Step, or a wrapper's     *)
(*             return): the reported best and the members with their       *)
(*             stored energies must satisfy the invariants of Objective.tla*)
(* Point ids and energy ranks, and for every point the flags inbox /       *)
(* consfix and the value tot = cost + penalty, are computed by the         *)
(* recorder from pristine copies of the user's functions.                  *)
(***************************************************************************)
EXTENDS Integers, Sequences, FiniteSets, TLC, Json, IOUtils

INF == 1000000
NAN == 2000000
UNKNOWN == -1

Traces == JsonDeserialize(IOEnv.TRACE_FILE)

VARIABLES calls, dirty, moved, consmid, tid, l
tvars == <<calls, dirty, moved, consmid, tid, l>>

Tr == Traces[tid]
E  == Tr[l]
N  == Tr[1]          \* the New event
Diagnose == "DIAG" \in DOMAIN IOEnv

AllTrue(cl) == \A i \in DOMAIN cl : cl[i][2]
Probe(cl) == Diagnose => PrintT(<<"@@", ToJson([probe |-> tid, at |-> l,
                                   failing |-> {cl[i][1] : i \in {j \in DOMAIN cl : ~cl[j][2]}}])>>)

IsEvent(name) == l <= Len(Tr) /\ E.ev = name /\ l' = l + 1 /\ UNCHANGED tid

Finite(e) == e # INF /\ e # NAN /\ e # UNKNOWN

TraceInit == /\ tid \in 1..Len(Traces) /\ l = 2 /\ Traces[tid][1].ev = "New"
             /\ calls = {} /\ dirty = FALSE /\ moved = FALSE /\ consmid = FALSE

TraceCall ==
  /\ IsEvent("Call")
  /\ LET cl == << <<"C02:cost-called-outside-strict-ranges", E.inbox>>,
                  <<"C03:cost-called-at-point-violating-constraints", N.randomclip \/ E.consfix>> >>
     IN Probe(cl) /\ AllTrue(cl)
  /\ calls' = calls \cup {<<E.pid, E.tot>>}
  /\ UNCHANGED <<dirty, moved, consmid>>

(* `dirty`: some part of the objective was (re)installed mid-run;  `moved`: that part was the ranges *)
(* or the constraints, which let a solver move stored points (into the new box / onto the          *)
(* constraint: Nelder-Mead constrains its best vertex and keeps the stored energy) without         *)
(* re-evaluating them -- C03 promises the reported solution only for constraints in force from the *)
(* first iteration.  A penalty installed mid-run moves nothing.                                    *)
TraceSet == /\ IsEvent("Set")
            /\ dirty' = TRUE
            /\ moved' = (moved \/ E.what \in {"ranges", "cons"})
            /\ consmid' = (consmid \/ E.what = "cons")      \* constraints (re)installed mid-run
            /\ UNCHANGED calls

(* Readings (DESIGN section 4): C01 quantifies over settings fixed before the first    *)
(* iteration: after a mid-run Set (`dirty`) stored energies are those of the previous  *)
(* objective, so the C01 clauses are waived from then on; a run that never found a     *)
(* finite energy reports no solution, so the reported-solution clauses need Finite.    *)
(* stored energy of a member = the objective there (only for members evaluated under the *)
(* configuration still in force: not after a mid-run Set)                                 *)
MemberOK(m) ==
  \/ m.obj = UNKNOWN
  \/ m.stored = m.obj
MemberInsideOK(m) ==     \* in every range mode: a constrained member inside the box stores cost+penalty there
  (m.inbox /\ m.consfix /\ m.tot # UNKNOWN) => m.stored = m.tot

TraceBoundary ==
  /\ IsEvent("Boundary")
  /\ LET b == E.best
         clean == ~dirty
         cl == <<
           \* `calls` holds <<point, cost+penalty under the objective in force at that call>>: a best reported
           \* after a mid-run change of penalty/constraints is still an evaluated point with the energy it got then
           <<"C01:reported-best-was-never-evaluated",
               (Finite(b.e) /\ ~N.randomclip /\ ~moved) => \E c \in calls : c[1] = b.pid>>,
           <<"C01:reported-energy-is-not-cost-plus-penalty-at-reported-point",
               (Finite(b.e) /\ ~N.randomclip /\ ~moved) => <<b.pid, b.e>> \in calls>>,
           <<"C01:member-energy-is-not-the-objective-at-the-member",
               (clean /\ N.members /\ ~N.randomclip) => \A i \in DOMAIN E.members : MemberOK(E.members[i]) /\ MemberInsideOK(E.members[i])>>,
           <<"C01:best-worse-than-initial-guess",
               (clean /\ E.init # UNKNOWN /\ E.init # NAN /\ b.e # NAN) => b.e <= E.init>>,
           <<"C01:best-worse-than-a-member",
               (clean /\ N.members) => \A i \in DOMAIN E.members : (E.members[i].stored # NAN /\ b.e # NAN) => b.e <= E.members[i].stored>>,
           <<"C02:reported-best-outside-strict-ranges", (N.rfs /\ Finite(b.e) /\ ~consmid) => b.inbox>>,
           \* the same clause once constraints were installed mid-run (a solver that moves a stored point onto the
           \* new constraint without re-evaluating it can report a stale finite energy at a point outside the box)
           <<"C02:reported-best-outside-strict-ranges[constraints-installed-mid-run]",
               (N.rfs /\ Finite(b.e) /\ consmid) => b.inbox>>,
           <<"C03:reported-solution-violates-constraints", (N.cfs /\ ~N.randomclip /\ Finite(b.e)) => b.consfix>>,
           \* the same clause while no finite energy has been found yet (every evaluation so far returned +inf): the
           \* statement makes no exception for it ("wherever the run is stopped")
           <<"C03:reported-solution-violates-constraints[no-finite-energy-found]",
               (N.cfs /\ ~N.randomclip /\ ~Finite(b.e)) => b.consfix>>,
           <<"C03:reported-energy-is-not-the-energy-of-the-constrained-point",
               (N.cfs /\ ~N.randomclip /\ clean /\ Finite(b.e) /\ b.consfix) => b.e = b.tot>> >>
           \* (b.tot is INF for a point outside the box: a finite energy reported there is not that point's energy)
     IN Probe(cl) /\ AllTrue(cl)
  /\ UNCHANGED <<calls, dirty, moved, consmid>>

TraceNext == TraceCall \/ TraceSet \/ TraceBoundary
TraceSpec == TraceInit /\ [][TraceNext]_tvars

ASSUME TLCSet(1, {})
ASSUME TLCSet(2, [i \in 1..Len(Traces) |-> 0])
Accept ==
  /\ (l = Len(Tr) + 1) => TLCSet(1, TLCGet(1) \cup {tid})
  /\ Diagnose => (TLCGet(2)[tid] < l => TLCSet(2, [TLCGet(2) EXCEPT ![tid] = l]))
AllAccepted ==
  PrintT(<<"@@", ToJson([accepted |-> Cardinality(TLCGet(1)), total |-> Len(Traces),
                         rejected |-> (1..Len(Traces)) \ TLCGet(1),
                         prefix |-> IF Diagnose THEN TLCGet(2) ELSE << >>])>>)
=============================================================================
