SPECIFICATION Spec
CONSTANTS
  N = 3
  Trajs <- Trajs3
  Calls <- CallsB
  MaxCalls = 2
  Design = "documented"
INVARIANT EvalsAreRealCalls
INVARIANT ItersAreRounds
INVARIANT MembersContinue
INVARIANT NeverMeansNever
INVARIANT RealIsSumOfMembers
INVARIANT ResetRestores
INVARIANT UntilReached
INVARIANT UntilMinimal
INVARIANT InvalidDoesNothing
INVARIANT Emit
