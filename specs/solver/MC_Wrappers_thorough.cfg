SPECIFICATION Spec
CONSTANTS
  Starts <- TStarts
  Dim <- Dims
  Depth <- TDepth
  Skip <- NoSkip
  ExplicitDefaults = FALSE
  FreeRanges = TRUE
  Rich = TRUE
  AsIs = FALSE
INVARIANT KeywordOrderIndependent
INVARIANT ExplicitDefaultIsDefault
INVARIANT WellFormed
INVARIANT OptionalIffGiven
INVARIANT DefaultsAsDocumented
INVARIANT StepIsASetting
INVARIANT ReadingsDifferOnlyInStep
PROPERTY Locality
INVARIANT Emit
