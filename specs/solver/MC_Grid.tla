------------------------------ MODULE MC_Grid ------------------------------
(* constants for the exhaustive Grid case tables: bounds are <<L, U>> in units of 1/16, multiples of
   12 units (= 0.75) so that every lattice centre for 1..3 bins is an integer number of units;
   negative, mixed-sign, wide and degenerate (L = U) intervals are included *)
EXTENDS Grid
QBounds == {<<-24, 24>>, <<-36, -12>>, <<12, 12>>}
TBounds == {<<0, 12>>, <<-24, 24>>, <<-36, -12>>, <<12, 12>>, <<-12, 0>>, <<0, 1536>>, <<-48, 60>>}
DBounds == {<<-24, 24>>, <<0, 36>>, <<-12, -12>>}
(* "wide" instances: 4, 5, 7, 10 and 12 bins per dimension (primes, composites, two-digit counts): widths are multiples
   of 840 units = lcm{2 nb} so that every centre is an integer number of units *)
WBounds == {<<-420, 420>>, <<0, 840>>, <<-2520, -1680>>}
W3Bounds == {<<-420, 420>>, <<840, 840>>}
W2Bounds == {<<-420, 420>>, <<0, 840>>}
(* "int" instance: boxes whose corners are whole numbers, so the harness can also write them as python ints / integer
   arrays: [0, 3] (centres 1.5, 0.75, 0.5 ...: an integer working array would truncate them) and [-24, -12] (all
   centres for 1..3 bins are whole numbers too: gridpts can be given lists of integers, its documented input) *)
IBounds == {<<0, 48>>, <<-384, -192>>}
(* "scaled" instances (Scales # {0}): the basic boxes, one unit = 2^sc / 16 *)
SBounds == {<<-24, 24>>, <<0, 12>>, <<-36, -12>>, <<12, 12>>}
(* "fine" instance (Scales = {-20}: one unit = 2^-24): boxes of width 24 units = 1.43e-6 sitting at +-0.75, and a box
   from 0 to 0.75: coordinates that need far more than 8 decimals *)
ScalesS == {-1070, -1000, -30, 33, 996}
ScalesF == {-20}
FBounds == {<<12582912, 12582936>>, <<-12582936, -12582912>>, <<0, 12582912>>}
=============================================================================
