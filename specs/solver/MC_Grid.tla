------------------------------ MODULE MC_Grid ------------------------------
(* constants for the exhaustive Grid case tables: bounds are <<L, U>> in units of 1/16, multiples of
   12 units (= 0.75) so that every lattice centre for 1..3 bins is an integer number of units;
   negative, mixed-sign, wide and degenerate (L = U) intervals are included *)
EXTENDS Grid
QBounds == {<<-24, 24>>, <<-36, -12>>, <<12, 12>>}
TBounds == {<<0, 12>>, <<-24, 24>>, <<-36, -12>>, <<12, 12>>, <<-12, 0>>, <<0, 1536>>, <<-48, 60>>}
DBounds == {<<-24, 24>>, <<0, 36>>, <<-12, -12>>}
=============================================================================
