SPECIFICATION TraceSpec
CONSTANTS Dims = {1}
  Ranks = {0}
  MaxIter = 0
CONSTRAINT Accept
INVARIANT DirecIsN
INVARIANT DeltaIsLargestDecrease
INVARIANT HistoryFollows
PROPERTY FxIsLoopStartEnergy
PROPERTY X1IsWhereTheLoopStarted
PROPERTY LoopKeepsDirections
POSTCONDITION AllAccepted
CHECK_DEADLOCK FALSE
