SPECIFICATION Spec
CONSTANTS Kinds = {"DE", "PW"}
  NP = 2
  MaxGen = 2
  MaxInst = 3
  MaxCells = 10
  Settings <- QSettings
  Design = "ok"
  MaxOps = 3
INVARIANT TypeOK
INVARIANT ResumeEquivalence
INVARIANT CopyCounts
INVARIANT RngLabelsFunctional
PROPERTY Independence
