SPECIFICATION Spec
CONSTANTS Kinds = {"DE", "DE2", "NM", "PW"}
  NP = 2
  MaxGen = 3
  MaxInst = 3
  MaxCells = 9
  Settings <- QSettings
  Design = "ok"
  MaxOps = 3
INVARIANT TypeOK
INVARIANT ResumeEquivalence
INVARIANT CopyCounts
INVARIANT RngLabelsFunctional
PROPERTY Independence
