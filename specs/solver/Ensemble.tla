------------------------------ MODULE Ensemble ------------------------------
(***************************************************************************)
(* S4a -- an ensemble solver (mystic/abstract_ensemble_solver.py; Lattice, *)
(* Buckshot, Sparsity in ensemble.py): N member solvers, a map that runs   *)
(* them, the reduction to the best member and the hand-back of its state.  *)
(*                                                                         *)
(*   Begin        Solve()/Step() of the ensemble entered: the members are  *)
(*                created on the first call (__init_allSolvers, one per    *)
(*                starting point), the map call starts.                    *)
(*   Item(i)      the map completes work item i: in "solve" mode member i  *)
(*                runs to its termination (_solve), in "step" mode it      *)
(*                takes one step unless it has terminated (_step).  Work   *)
(*                items complete ONE AT A TIME IN ANY ORDER: `order` is    *)
(*                the completion order of the map call in progress, TLC    *)
(*                explores every order.                                    *)
(*   Collect      the map has returned: results replace the members BY     *)
(*                WORK-ITEM INDEX (__update_allSolvers), the best member   *)
(*                is re-selected (__update_bestSolver, transcribed below   *)
(*                as `Reduce`: scan the members by index, take every       *)
(*                member whose bestEnergy <= the current best's -- ties    *)
(*                go to the LAST minimal member), its state is handed back *)
(*                to the ensemble (__update_state) and `_total_evals` is   *)
(*                the sum of the members' counters.                        *)
(*                                                                         *)
(* A member is summarised by                                               *)
(*   start  id of its starting point (lattice: the id of its grid cell)    *)
(*   bestE  its bestEnergy (INF before the first evaluation)               *)
(*   bestX  id of its bestSolution                                         *)
(*   evals  its evaluation counter        gens  steps taken                *)
(*   fin    it has terminated                                              *)
(* In the model-checked instance each member follows a program `traj[i]`   *)
(* (a sequence of <<evaluations, best energy after the step>>) chosen      *)
(* arbitrarily in Init: a member's progress depends on its own state only  *)
(* (the premise of schedule independence: same configuration and seed).    *)
(* Trace validation (Trace_Ensemble.tla) uses the same ApplyItem/Collect   *)
(* with the member summaries recorded from real runs instead.              *)
(*                                                                         *)
(* Ghosts: `real` = cost calls really made; `hist` = completion orders of  *)
(* the finished map calls; `obs` = the ensemble's report after each.       *)
(***************************************************************************)
EXTENDS Integers, Sequences, FiniteSets, TLC

CONSTANTS N,         \* members requested (product of the bins / number of points)
          Energies,  \* finite set of naturals: energies (ranks) a member may reach
          Ks,        \* evaluations one step of a member may cost
          MaxSteps,  \* a member's program has 1..MaxSteps steps
          Modes,     \* subset of {"solve", "step"}
          Scan,      \* "index": reduce scans the members by index (as coded);
                     \* "completion": by completion order of the map (a design TLC must reject)
          MaxCalls   \* Solve() calls explored in "solve" mode (a finished ensemble may be solved again)

INF == 1000000
None == 0

VARIABLES mode, traj, mem, res, order, best, ens, real, pc, hist, obs
vars == <<mode, traj, mem, res, order, best, ens, real, pc, hist, obs>>

-----------------------------------------------------------------------------
Range(s) == {s[i] : i \in DOMAIN s}
Ids(n) == [i \in 1..n |-> i]

RECURSIVE SumTo(_, _)
SumTo(f, n) == IF n = 0 THEN 0 ELSE f[n] + SumTo(f, n - 1)
SumEvals(m) == SumTo([i \in DOMAIN m |-> m[i].evals], Len(m))

MinE(m) == CHOOSE e \in {m[i].bestE : i \in DOMAIN m} : \A i \in DOMAIN m : e <= m[i].bestE
AllFin(m) == \A i \in DOMAIN m : m[i].fin

Member0(i) == [start |-> i, bestE |-> INF, bestX |-> 10 * i, evals |-> 0, gens |-> 0, fin |-> FALSE]
Mem0 == [i \in 1..N |-> Member0(i)]

(* what a work item may do to a member (shared by the model and by trace validation): named clauses *)
AllTrue(cl) == \A i \in DOMAIN cl : cl[i][2]
ProgressClauses(old, new, md) == <<
  <<"C09:member-keeps-its-starting-point", new.start = old.start>>,
  <<"C09:member-best-energy-never-worsens", new.bestE <= old.bestE>>,
  <<"C09:member-counters-never-decrease", new.evals >= old.evals /\ new.gens >= old.gens>>,
  <<"C09:terminated-member-does-no-more-work", old.fin => new = old>>,
  <<"C09:solve-mode-member-runs-to-its-termination", md = "solve" => new.fin>>,
  <<"C09:step-mode-member-takes-one-step-at-a-time", md = "step" => new.gens <= old.gens + 1>> >>
LegalProgress(old, new, md) == AllTrue(ProgressClauses(old, new, md))

-----------------------------------------------------------------------------
(* __update_bestSolver: `cur` starts as the previous best solver (member 1 if there is none) and  *)
(* every scanned member with bestEnergy <= the current best's replaces it                         *)
RECURSIVE ScanFrom(_, _, _, _)
ScanFrom(m, cur, seq, p) ==
  IF p > Len(seq) THEN cur
  ELSE ScanFrom(m, IF m[seq[p]].bestE <= m[cur].bestE THEN seq[p] ELSE cur, seq, p + 1)
Reduce(m, b, seq) == ScanFrom(m, IF b = None THEN 1 ELSE b, seq, 1)

(* __update_state + _total_evals *)
HandBack(m, b) == [bestE |-> m[b].bestE, bestX |-> m[b].bestX, evals |-> m[b].evals, total |-> SumEvals(m)]

LastMin(m) == CHOOSE i \in DOMAIN m : m[i].bestE = MinE(m) /\ \A j \in DOMAIN m : (j > i => m[j].bestE > MinE(m))

-----------------------------------------------------------------------------
(* the model-checked members: programs *)
NonIncreasing(t) == \A j \in 1..(Len(t) - 1) : t[j + 1][2] <= t[j][2]
Programs == UNION {{t \in [1..n -> Ks \X Energies] : NonIncreasing(t)} : n \in 1..MaxSteps}

OneStep(m, i) ==
  LET st == traj[i][m.gens + 1]
      g == m.gens + 1
  IN [m EXCEPT !.bestE = st[2], !.bestX = IF st[2] < m.bestE THEN 10 * i + g ELSE m.bestX,
               !.evals = m.evals + st[1], !.gens = g, !.fin = (g = Len(traj[i]))]

RECURSIVE RunAll(_, _)
RunAll(m, i) == IF m.fin THEN m ELSE RunAll(OneStep(m, i), i)

Progress(m, i, md) == IF m.fin THEN m ELSE IF md = "step" THEN OneStep(m, i) ELSE RunAll(m, i)

-----------------------------------------------------------------------------
Init ==
  /\ mode \in Modes
  /\ traj \in [1..N -> Programs]
  /\ mem = Mem0 /\ res = Mem0 /\ order = << >> /\ best = None
  /\ ens = [bestE |-> INF, bestX |-> None, evals |-> 0, total |-> 0]
  /\ real = 0 /\ pc = "idle" /\ hist = << >> /\ obs = << >>

Begin ==
  /\ \/ pc = "idle"
     \/ pc = "stopped" /\ mode = "solve" /\ Len(hist) < MaxCalls
  /\ pc' = "map" /\ order' = << >> /\ res' = mem
  /\ UNCHANGED <<mode, traj, mem, best, ens, real, hist, obs>>

(* work item i completes with the member summary `new`, having really called the cost `calls` times *)
ApplyItem(i, new, calls) ==
  /\ pc = "map" /\ i \in 1..Len(mem) /\ i \notin Range(order)
  /\ res' = [res EXCEPT ![i] = new]
  /\ order' = Append(order, i)
  /\ real' = real + calls
  /\ UNCHANGED <<mode, traj, mem, best, ens, pc, hist, obs>>

Item(i) == LET new == Progress(mem[i], i, mode) IN ApplyItem(i, new, new.evals - mem[i].evals)

CollectF(m2, b, seq) == LET b2 == Reduce(m2, b, seq) IN [mem |-> m2, best |-> b2, ens |-> HandBack(m2, b2)]

Collect ==
  /\ pc = "map" /\ Len(order) = Len(mem)
  /\ LET post == CollectF(res, best, IF Scan = "index" THEN Ids(Len(mem)) ELSE order)
     IN /\ mem' = post.mem /\ best' = post.best /\ ens' = post.ens
        /\ pc' = IF mode = "solve" \/ AllFin(post.mem) THEN "stopped" ELSE "idle"
        /\ obs' = Append(obs, [ens |-> post.ens, best |-> post.best,
                               E |-> [i \in 1..Len(mem) |-> post.mem[i].bestE],
                               evals |-> [i \in 1..Len(mem) |-> post.mem[i].evals]])
  /\ hist' = Append(hist, order) /\ order' = << >>
  /\ UNCHANGED <<mode, traj, res, real>>

Next == Begin \/ (\E i \in 1..N : Item(i)) \/ Collect
Spec == Init /\ [][Next]_vars

-----------------------------------------------------------------------------
(* C09 on the design.  Settled = a Solve()/Step() of the ensemble has returned. *)
Settled == pc \in {"idle", "stopped"} /\ Len(hist) > 0

MemberCount == Len(mem) = N /\ Len(res) = N
StartsAreOwnCells == \A i \in 1..N : mem[i].start = i /\ res[i].start = i
ProgressLegal == \A i \in 1..Len(mem) : LegalProgress(mem[i], res[i], mode) \/ i \notin Range(order)
BestIsMin == Settled => ens.bestE = MinE(mem)
BestIsThatMember == Settled => /\ best \in 1..Len(mem)
                               /\ mem[best].bestE = ens.bestE
                               /\ mem[best].bestX = ens.bestX
TieRule == Settled => best = LastMin(mem)
TotalIsSum == Settled => ens.total = SumEvals(mem)
TotalIsReal == Settled => ens.total = real
SolveCompletes == (pc = "stopped") => AllFin(mem)
StepContinues == (Settled /\ pc = "idle") => (mode = "step" /\ ~AllFin(mem))

(* C07/C09: the state after every finished map call is the one the serial schedule 1..N produces *)
RECURSIVE Serial(_)
Serial(r) ==
  IF r = 0 THEN [mem |-> Mem0, best |-> None, real |-> 0, ens |-> [bestE |-> INF, bestX |-> None, evals |-> 0, total |-> 0]]
  ELSE LET p == Serial(r - 1)
           m2 == [i \in 1..N |-> Progress(p.mem[i], i, mode)]
           c == CollectF(m2, p.best, Ids(N))
       IN [mem |-> c.mem, best |-> c.best, ens |-> c.ens,
           real |-> p.real + SumEvals(m2) - SumEvals(p.mem)]
ScheduleIndependence ==
  Settled => LET s == Serial(Len(hist)) IN mem = s.mem /\ best = s.best /\ ens = s.ens /\ real = s.real

(* vacuity companions (TLC must find a counter-example to each) *)
NoTieEver == Settled => Cardinality({i \in 1..N : mem[i].bestE = MinE(mem)}) = 1
NeverNonSerialOrder == \A r \in DOMAIN hist : hist[r] = Ids(N)
BestNeverChanges == \A r \in 1..(Len(obs) - 1) : obs[r].best = obs[r + 1].best
=============================================================================
