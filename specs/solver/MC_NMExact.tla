----------------------------- MODULE MC_NMExact -----------------------------
(* problem sets for NMExact (cfg files cannot hold tuples/records)          *)
(* coordinates are written in quarters: Q(3) = 0.75                          *)
EXTENDS NMExact

Q(v) == v * (Unit \div 4)
Vec(n, vals) == [1..n -> vals]

Prob(n, x0, fam, a, c, r, ad, xt, ft, mi) ==
  [n |-> n, x0 |-> x0, fam |-> fam, a |-> a, c |-> c, r |-> r, ad |-> ad,
   xtol |-> xt, ftol |-> ft, maxiter |-> mi, maxfun |-> 100000]

(* cost catalogues per dimension: <<a, c>> *)
Costs(n) ==
  CASE n = 1 -> {<<<<Q(2)>>, <<1>>>>, <<<<Q(-3)>>, <<3>>>>, <<<<Q(0)>>, <<2>>>>}
    [] n = 2 -> {<<<<Q(2), Q(-1)>>, <<1, 1>>>>, <<<<Q(0), Q(0)>>, <<1, 8>>>>, <<<<Q(-3), Q(5)>>, <<3, 2>>>>,
                 <<<<Q(4), Q(4)>>, <<1, 1>>>>}
    [] n = 4 -> {<<<<Q(2), Q(-1), Q(0), Q(3)>>, <<1, 1, 1, 1>>>>, <<<<Q(0), Q(0), Q(0), Q(0)>>, <<1, 2, 4, 8>>>>,
                 <<<<Q(-3), Q(5), Q(1), Q(-2)>>, <<3, 1, 2, 1>>>>}

Family(dims, x0vals, rads, ads, tols, mi) ==
  UNION {{Prob(n, x0, fam, ac[1], ac[2], r, ad, t[1], t[2], mi) :
             x0 \in Vec(n, x0vals), fam \in {"abs", "sq", "w"}, ac \in Costs(n), r \in rads, ad \in ads, t \in tols}
         : n \in dims}

(* radius 1/4 and 1/2: any lattice point; radius 1/20 (fmin's default 0.05): multiples of 5/4 *)
QuickProblems ==
  Family({1, 2}, {Q(-6), Q(-1), Q(4), Q(10)}, {<<1, 4>>, <<1, 2>>}, {FALSE, TRUE}, {<<<<1, 8>>, <<1, 4>>>>}, 14)
  \cup Family({4}, {Q(-6), Q(4), Q(10)}, {<<1, 4>>}, {FALSE, TRUE}, {<<<<1, 8>>, <<1, 4>>>>}, 14)
  \cup Family({1, 2}, {Q(-5), Q(10), Q(15)}, {<<1, 20>>}, {FALSE}, {<<<<1, 8>>, <<1, 4>>>>, <<<<1, 1024>>, <<1, 1024>>>>}, 14)

ThoroughProblems ==
  Family({1, 2}, {Q(-10), Q(-6), Q(-1), Q(2), Q(4), Q(10), Q(13)}, {<<1, 4>>, <<1, 2>>}, {FALSE, TRUE},
         {<<<<1, 8>>, <<1, 4>>>>, <<<<1, 1024>>, <<1, 1024>>>>}, 20)
  \cup Family({4}, {Q(-6), Q(-1), Q(4), Q(10)}, {<<1, 4>>, <<1, 2>>}, {FALSE, TRUE}, {<<<<1, 8>>, <<1, 4>>>>}, 16)
  \cup Family({1, 2}, {Q(-10), Q(-5), Q(5), Q(10), Q(15), Q(25)}, {<<1, 20>>}, {FALSE, TRUE},
              {<<<<1, 8>>, <<1, 4>>>>, <<<<1, 1024>>, <<1, 1024>>>>}, 20)
  \cup Family({4}, {Q(-5), Q(10), Q(15)}, {<<1, 20>>}, {FALSE}, {<<<<1, 8>>, <<1, 4>>>>}, 16)
=============================================================================
