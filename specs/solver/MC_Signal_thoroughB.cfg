SPECIFICATION Spec
CONSTANTS
  Calls <- CallsMenu
  Switches <- SwWide
  Wheres = {"cost", "cb"}
  InitHandlers = {"default"}
  MaxCalls = 2
  MaxSig = 1
  MaxMenu = 3
  ConsultExit = TRUE
INVARIANT TypeOK
INVARIANT LateZero
INVARIANT MsgNamesExit
INVARIANT ExitVisible
INVARIANT HandlerDiscipline
INVARIANT RestoredAfterSolve
INVARIANT DeadOnlyDefault
INVARIANT CallbackCount
PROPERTY NoIterAfterExit
PROPERTY ForeignUntouched
PROPERTY PromptsOnlyInMenu
PROPERTY SolveStartsClean
PROPERTY StepKeepsRequest
INVARIANT Emit
