SPECIFICATION Spec
CONSTANTS
  Dims = {1, 2}
  MaxBins = 3
  BinChoices = {1, 2, 3}
  Scales <- ScalesS
  Bounds <- SBounds
INVARIANT Exact
INVARIANT Representable
INVARIANT CountIsProduct
INVARIANT FullProduct
INVARIANT RowMajor
INVARIANT OwnCellCentre
INVARIANT DistinctIfProper
INVARIANT Emit
