------------------------------ MODULE GridGen ------------------------------
(***************************************************************************)
(* Catalogue of calls of the RANDOMISED point generators behind the        *)
(* ensembles (mystic/math/grid.py randomly_bin, samplepts, fillpts;        *)
(* math/samples.py random_samples), enumerated by TLC together with what   *)
(* Grid.tla demands of the result.  The harness executes every case on the *)
(* real function -- each abstract argument in several concrete spellings   *)
(* -- and the outputs are judged by TLC again (Obs_Grid.tla).              *)
(*                                                                         *)
(*   kind = "rbin"   randomly_bin(N, ndim, ones, exact): N from RbinNs     *)
(*                   (1, primes and composites, two- to four-digit         *)
(*                   numbers, powers of two with many factors), ndim from  *)
(*                   RbinDims (0 = not given), both flags; expected        *)
(*                   length (0 = free) and product (N, or N-1 for a prime  *)
(*                   above 3 when exact = FALSE).                          *)
(*   kind = "pts"    fn(lb, ub, npts): fn from PtsFns, the box Boxes[box]  *)
(*                   = <<lo, hi>> in units of 2^sc / 16 (sc from PtsScales:*)
(*                   one unit down to 5e-324 and up to ~1e299), npts from  *)
(*                   NPts (0, 1, two- and three-digit counts); for fillpts *)
(*                   the tolerance class rt from Rtols ("none", "zero",    *)
(*                   "pos", "neg", "tiny", "huge") and legacy data or not. *)
(*                   Expected: exactly npts points of the box's dimension, *)
(*                   every coordinate inside [lo, hi] (G!PointsPost).      *)
(* Unused fields of a case are 0 / "" so that all states have one shape.   *)
(***************************************************************************)
EXTENDS Integers, Sequences, FiniteSets, TLC, Json

CONSTANTS RbinNs, RbinDims, PtsFns, Boxes, PtsScales, NPts, FillNPts, Rtols

G == INSTANCE Grid WITH Dims <- {1}, MaxBins <- 1, BinChoices <- {1}, Bounds <- {}, Scales <- {0},
                       dim <- 0, nbins <- << >>, lo <- << >>, hi <- << >>, sc <- 0

VARIABLES kind, n, d, ones, exact, fn, box, s, npts, rt, data
cvars == <<kind, n, d, ones, exact, fn, box, s, npts, rt, data>>

InitRbin == /\ kind = "rbin" /\ n \in RbinNs /\ d \in RbinDims /\ ones \in BOOLEAN /\ exact \in BOOLEAN
            /\ fn = "randomly_bin" /\ box = 0 /\ s = 0 /\ npts = 0 /\ rt = "" /\ data = FALSE
InitPts == /\ kind = "pts" /\ n = 0 /\ d = 0 /\ ones = FALSE /\ exact = FALSE
           /\ fn \in PtsFns /\ box \in DOMAIN Boxes /\ s \in PtsScales
           /\ IF fn = "fillpts" THEN npts \in FillNPts /\ rt \in Rtols /\ data \in BOOLEAN
                                ELSE npts \in NPts /\ rt = "" /\ data = FALSE
Init == InitRbin \/ InitPts
Next == UNCHANGED cvars
Spec == Init /\ [][Next]_cvars

Lo == Boxes[box][1]
Hi == Boxes[box][2]

(* design: the catalogue itself is sane -- boxes are boxes, the expected product is a positive number that HAS a
   factorisation of the requested length, and N-1 is never prime where it replaces a prime above 3 *)
BoxesAreBoxes == kind = "pts" => (Len(Lo) = Len(Hi) /\ \A i \in DOMAIN Lo : Lo[i] <= Hi[i])
ProductSane == kind = "rbin" => LET p == G!RbinProduct(n, exact)
                                IN p >= 1 /\ (p # n => (G!IsPrime(n) /\ ~G!IsPrime(p) /\ p = n - 1))
(* the post-condition is satisfiable and not trivially true: the corner lo of the box passes, a point just outside fails *)
PostNotVacuous == (kind = "pts" /\ npts > 0) =>
   LET dm == Len(Lo)
       r(v) == 2 * v                                    \* ranks: even = the bounds, odd = in between
       inside == [k \in 1..npts |-> [i \in 1..dm |-> r(Lo[i])]]
       outside == [k \in 1..npts |-> [i \in 1..dm |-> r(Hi[i]) + 1]]
       L == [i \in 1..dm |-> r(Lo[i])]
       H == [i \in 1..dm |-> r(Hi[i])]
   IN G!Failing(G!PointsPost(npts, dm, L, H, inside)) = {} /\
      G!Failing(G!PointsPost(npts, dm, L, H, outside)) = {"C09:points-within-ranges"}
(* vacuity companions (TLC must refute them) *)
NeverPrimeReplaced == ~(kind = "rbin" /\ G!RbinProduct(n, exact) # n)
NeverDegenerateBox == ~(kind = "pts" /\ \E i \in DOMAIN Lo : Lo[i] = Hi[i])

Emit == PrintT(<<"@@", ToJson(
   IF kind = "rbin"
   THEN [gen |-> "rbin", fn |-> fn, N |-> n, ndim |-> d, ones |-> ones, exact |-> exact,
         len |-> d, prod |-> G!RbinProduct(n, exact), prime |-> G!IsPrime(n)]
   ELSE [gen |-> "pts", fn |-> fn, npts |-> npts, dim |-> Len(Lo), lo |-> Lo, hi |-> Hi, sc |-> s,
         rtol |-> rt, data |-> data, count |-> npts])>>)
=============================================================================
