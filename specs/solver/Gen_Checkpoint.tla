---------------------------- MODULE Gen_Checkpoint ----------------------------
(***************************************************************************)
(* Script generator (spec -> code) for Checkpoint.tla.                     *)
(*                                                                         *)
(* Every behaviour of this module is a behaviour of Checkpoint.tla (each   *)
(* transition is exactly one Checkpoint action, or a change of the driver  *)
(* variables only) that has the shape of a crash/restore experiment:       *)
(*                                                                         *)
(*   ref     the reference (instance 1) runs generations 0..MaxGen.  If    *)
(*           its configuration has a limit it runs INTO ITS STOP (Step     *)
(*           returns the stop message, the solver is finalized, the forced *)
(*           dump is written), gets its limit raised (`raise`, realised    *)
(*           as SetEvaluationLimits with new=False or new=True: nw) and is *)
(*           continued.  The abstract state after every one of its         *)
(*           commands is remembered in refst (command log: reflog)         *)
(*   orig    the original (instance 2) is driven the same way; after ANY   *)
(*           generation k < MaxGen -- the stop generation included, before *)
(*           and after the raise -- the driver may leave it and choose     *)
(*             path  F  SaveSolver(file) .. LoadSolver(file)               *)
(*                   P  LoadSolver(file of the periodic dump)              *)
(*                   D  dill.dumps .. dill.loads                           *)
(*                   C  copy.deepcopy                                      *)
(*             rng   restore | scramble  (generator state of the restored  *)
(*                   instance)                                             *)
(*             mode  what else happens (see Plan)                          *)
(*   run     the plan (a sequence of one-shot commands) is executed; a     *)
(*           Step of an instance that reached MaxGen is skipped; a Step of *)
(*           a STOPPED instance is preceded by the same `raise` the        *)
(*           reference got, so restored / copied instances and the         *)
(*           original all run into and past their stops                    *)
(*                                                                         *)
(* After every executed command the script records what the specification  *)
(* says about the affected instance x:                                     *)
(*   g   its generation counter       st  whether it stopped               *)
(*   f   its evaluation counter (exact for the DE kinds without ranges)    *)
(*   r   the index (0-based, into the reference's command log) of the      *)
(*       reference state whose WHOLE abstract state equals that of x       *)
(*       (-1: the specification claims no such equality)                   *)
(*   e   the other live instances whose abstract state equals that of x    *)
(*   y   source instance (copy), writer of the snapshot (load), new limit   *)
(* The harness executes the commands on real solvers and requires: equal   *)
(* where the specification says equal (r, e), every instance other than x  *)
(* unchanged (Independence), counters as predicted (g, st, f) and          *)
(* evaluations = inherited + own real calls (CopyCounts).                  *)
(* Breadth-first search enumerates EVERY (kind, setting, k, path, rng,     *)
(* mode); a complete script is emitted once, from its final state.         *)
(***************************************************************************)
EXTENDS Checkpoint, Json, IOUtils

CONSTANTS Tier        \* "quick" | "thorough": which settings / which (k, path, mode) combinations

VARIABLES pc, plan, script, hdr, refst, reflog
gvars == <<vars, pc, plan, script, hdr, refst, reflog>>

(* ---- the settings catalogue: ids are shared with harness/check_C06.py (SETTINGS) ---- *)
S(id, sf, em, lim, le, rg, dk) == [id |-> id, sf |-> sf, em |-> em, lim |-> lim, le |-> le, rg |-> rg, dk |-> dk]
(* stop generations: a few generations before the end, so that every stopped run is continued for several steps *)
Even == 2 * ((MaxGen - 3) \div 2)        \* a multiple of 2
Odd == Even + 1
Tri == 3 * ((MaxGen - 3) \div 3)         \* a multiple of 3
Catalogue == {
  S(1, 0, FALSE, None, None, FALSE, FALSE),           \* plain: no bounds, default monitors
  S(2, 0, FALSE, None, None, TRUE, FALSE),            \* strict ranges
  S(3, 0, FALSE, None, None, FALSE, FALSE),           \* constraint: pure python function
  S(4, 0, FALSE, None, None, FALSE, FALSE),           \* constraint built with mystic.symbolic
  S(5, 0, FALSE, None, None, FALSE, FALSE),           \* penalty (mystic.penalty)
  S(6, 0, TRUE, None, None, FALSE, FALSE),            \* Monitor as step and as evaluation monitor
  S(7, 0, TRUE, None, None, FALSE, FALSE),            \* VerboseMonitor (quiet) as step and evaluation monitor
  S(8, 0, FALSE, MaxGen - 3, None, FALSE, FALSE),     \* generation limit: the run stops at MaxGen-3
  S(9, 0, FALSE, None, NP * (MaxGen - 2), FALSE, TRUE), \* evaluation limit (DE kinds): stops at MaxGen-3
  S(10, 1, FALSE, None, None, FALSE, FALSE),          \* periodic dump every generation
  S(11, 2, FALSE, None, None, FALSE, FALSE),          \* ... every 2nd
  S(12, 3, TRUE, None, None, FALSE, FALSE),           \* ... every 3rd, with evaluation monitor
  S(13, 2, TRUE, Odd, None, TRUE, FALSE),             \* everything: ranges + constraint + penalty + monitors + dump
                                                      \*   every 2nd + limit at an ODD generation (not a dump generation)
  S(14, 0, FALSE, None, None, FALSE, FALSE),          \* compound termination Or(ChangeOverGeneration, VTR, When(...))
  S(15, 1, TRUE, MaxGen - 3, None, FALSE, FALSE),     \* dump every generation + monitors + limit (no ranges)
  S(16, 1, FALSE, MaxGen - 4, None, TRUE, FALSE),     \* ranges + dump every generation + limit: the stop IS a dump generation
  S(17, 2, TRUE, Even, None, TRUE, FALSE),            \* ranges + dump every 2nd + limit at an EVEN generation (a dump generation)
  S(18, 3, FALSE, Tri, None, TRUE, FALSE),            \* ranges + dump every 3rd + limit at a multiple of 3
  S(19, 0, FALSE, MaxGen - 3, None, TRUE, FALSE) }    \* ranges + limit, no restart file
QuickIds == {1, 2, 3, 5, 6, 8, 9, 11, 13, 14, 16, 17}

GenSettings ==
  LET pool == IF Tier = "quick" THEN {c \in Catalogue : c.id \in QuickIds} ELSE Catalogue
  IN IF "C06_SID" \in DOMAIN IOEnv THEN {c \in pool : c.id = atoi(IOEnv.C06_SID)} ELSE pool
GenKinds == IF "C06_KIND" \in DOMAIN IOEnv THEN {IOEnv.C06_KIND} ELSE {"DE", "DE2", "NM", "PW"}
(* run length: the cfg files say MaxGen <- GenN; the harness shortens the runs of the groups whose every Step   *)
(* pickles a large solver (periodic dump every generation, Powell with an evaluation monitor)                    *)
GenN == IF "C06_N" \in DOMAIN IOEnv THEN atoi(IOEnv.C06_N) ELSE IF Tier = "quick" THEN 8 ELSE 25

Paths == {"F", "P", "D", "C"}
Modes == {"none", "orig_first", "interleave", "relimit", "twice", "chain"}

(* quick tier: every (k, path) runs mode none with the generator restored, plus ONE further combination       *)
(* selected by rotation; thorough tier: every combination -- except that under a periodic-dump setting (where  *)
(* every Step pickles the solver) the paths D and C, fully combined under the other settings, are rotated too  *)
ModeNo(m) == CASE m = "orig_first" -> 0 [] m = "interleave" -> 1 [] m = "relimit" -> 2 [] m = "twice" -> 3
               [] m = "chain" -> 4 [] OTHER -> 5
PathNo(p) == CASE p = "F" -> 0 [] p = "P" -> 1 [] p = "D" -> 2 [] OTHER -> 3
Rotated(c, p) == Tier = "quick" \/ (c.sf > 0 /\ p \in {"D", "C"})
Allowed(c, k, p, rm, m) ==
  /\ rm = "scramble" => m = "none"
  /\ Rotated(c, p) =>
       \/ m = "none" /\ rm = "restore"
       \/ (IF rm = "scramble" THEN 5 ELSE ModeNo(m)) = (k + c.id + 2 * PathNo(p)) % 6

(* ---- commands ---- *)
Cmd(c, x, y) == [c |-> c, x |-> x, y |-> y]
Rep(n, cmds) == [m \in 1..(n * Len(cmds)) |-> cmds[((m - 1) % Len(cmds)) + 1]]
Steps(x) == Rep(MaxGen + 1, <<Cmd("step", x, 0)>>)

Ck(p, src, new) == CASE p = "F" -> <<Cmd("saveF", src, 0)>>
                     [] p = "D" -> <<Cmd("saveD", src, 0)>>
                     [] p = "P" -> << >>
                     [] OTHER -> <<Cmd("copy", new, src)>>
Rs(p, new) == CASE p = "F" -> <<Cmd("loadF", new, 0)>>
                [] p = "D" -> <<Cmd("loadD", new, 0)>>
                [] p = "P" -> <<Cmd("loadP", new, 0)>>
                [] OTHER -> << >>
Rg(rm, x) == IF rm = "restore" THEN <<Cmd("rrng", x, 0)>> ELSE <<Cmd("scr", x, 0)>>

Plan(p, rm, m) ==
  CASE m = "none" ->          \* checkpoint, restore, continue to the end
         Ck(p, 2, 3) \o Rs(p, 3) \o Rg(rm, 3) \o Steps(3)
    [] m = "orig_first" ->    \* the original moves on by two generations before the checkpoint is restored
         Ck(p, 2, 3) \o Rep(2, <<Cmd("step", 2, 0)>>) \o Rs(p, 3) \o Rg(rm, 3) \o Steps(3)
    [] m = "interleave" ->    \* restored instance and original advance in turns
         Ck(p, 2, 3) \o Rs(p, 3) \o Rg(rm, 3) \o Rep(MaxGen + 1, <<Cmd("step", 3, 0), Cmd("step", 2, 0)>>)
    [] m = "relimit" ->       \* the restored instance gets a limit of its own and stops; the original goes on
         Ck(p, 2, 3) \o Rs(p, 3) \o Rg(rm, 3) \o <<Cmd("relimit", 3, 0), Cmd("step", 3, 0), Cmd("step", 3, 0)>>
                     \o Rep(2, <<Cmd("step", 2, 0)>>)
    [] m = "twice" ->         \* two instances from the same checkpoint, continued one after the other
         Ck(p, 2, 3) \o (IF p = "C" THEN Ck(p, 2, 4) ELSE << >>) \o Rs(p, 3) \o Rs(p, 4)
                     \o Rg(rm, 3) \o Steps(3) \o Rg(rm, 4) \o Steps(4)
    [] OTHER ->               \* chain: the restored instance is checkpointed again after one more generation
         Ck(p, 2, 3) \o Rs(p, 3) \o Rg(rm, 3) \o <<Cmd("step", 3, 0)>>
                     \o Ck(p, 3, 4) \o Rs(p, 4) \o Rg(rm, 4) \o Steps(4)

SlotOf(c) == IF c = "loadF" THEN "F" ELSE IF c = "loadP" THEN "P" ELSE "D"

Executable(cm) ==
  CASE cm.c = "step" -> inst[cm.x].alive /\ (busy = cm.x \/ inst[cm.x].gens < MaxGen)
    [] cm.c \in {"saveF", "saveD"} -> inst[cm.x].alive /\ inst[cm.x].gens >= 0
    [] cm.c \in {"loadF", "loadP", "loadD"} -> store[SlotOf(cm.c)].full
    [] cm.c = "copy" -> inst[cm.y].alive
    [] cm.c \in {"rrng", "scr", "relimit"} -> inst[cm.x].alive
    [] OTHER -> FALSE

RECURSIVE Norm(_)
Norm(p) == IF p = << >> THEN p ELSE IF Executable(p[1]) THEN p ELSE Norm(SubSeq(p, 2, Len(p)))

(* ---- what the specification says about instance x after a command: evaluated in the NEW state, hence the ---- *)
(* ---- explicitly primed variables (c, x, y are values of the old state)                                   ---- *)
EqRefN(x) == LET a == Abs(inst'[x], cell')
                 ms == {m \in 1..Len(refst) : refst[m] = a}
             IN IF ms = {} THEN -1 ELSE (CHOOSE m \in ms : TRUE) - 1
EqInstN(x) == {z \in Ids \ {x} : inst'[z].alive /\ Abs(inst'[z], cell') = Abs(inst'[x], cell')}
ObsN(c, x, y) == [c |-> c, x |-> x, y |-> y, g |-> inst'[x].gens, f |-> Fcalls(inst'[x], cell'),
                  st |-> StoppedWith(inst'[x], cell'), r |-> EqRefN(x), e |-> EqInstN(x)]
Record(c, x, y) == script' = Append(script, ObsN(c, x, y))

(* how `raise` is realised: 0 = SetEvaluationLimits(generations=G), 1 = SetEvaluationLimits(generations=G-now, new=True) *)
(* both realisations for the two range+limit settings in the thorough tier, otherwise alternating by setting id  *)
NwChoices(sid) == IF Tier = "thorough" /\ sid \in {16, 19} THEN {0, 1} ELSE {sid % 2}

(* ---- the driver ---- *)
GInit ==
  /\ "C06_LIST" \notin DOMAIN IOEnv        \* C06_LIST: only print the catalogue (no behaviours)
  /\ Init
  /\ pc = "ref" /\ plan = << >> /\ script = << >> /\ refst = << >> /\ reflog = << >>
  /\ hdr = [k |-> -1, path |-> "", rng |-> "", mode |-> "", nw |-> 0, atstop |-> FALSE]

(* one critical section of Step() of instance i; the public call is complete when busy' = 0 *)
Ready(i, last) == busy = i \/ (busy = 0 /\ inst[i].gens < last /\ ~Stopped(i))

RefStep ==
  /\ pc = "ref"
  /\ \/ /\ Ready(1, MaxGen)
        /\ StepPart(1)
        /\ IF busy' = 0
           THEN refst' = Append(refst, Abs(inst'[1], cell')) /\ reflog' = Append(reflog, "step")
           ELSE UNCHANGED <<refst, reflog>>
        /\ UNCHANGED <<pc, hdr>>
     \/ /\ busy = 0 /\ Stopped(1) /\ inst[1].gens < MaxGen      \* the reference stopped: raise its limit, go on
        /\ SetCfg(1, Raised(inst[1].cfg))
        /\ \E v \in NwChoices(inst[1].cfg.id) : hdr' = [hdr EXCEPT !.nw = v]
        /\ refst' = Append(refst, Abs(inst'[1], cell')) /\ reflog' = Append(reflog, "raise")
        /\ UNCHANGED pc
     \/ /\ busy = 0 /\ inst[1].gens = MaxGen
        /\ pc' = "orig"
        /\ UNCHANGED <<vars, refst, reflog, hdr>>
  /\ UNCHANGED <<plan, script>>

OrigStep ==
  /\ pc = "orig"
  /\ \/ /\ Ready(2, MaxGen - 1)          \* at least one generation is left for the continuation
        /\ StepPart(2)
        /\ IF busy' = 0 THEN Record("step", 2, 0) ELSE UNCHANGED script
     \/ /\ busy = 0 /\ Stopped(2) /\ inst[2].gens < MaxGen - 1
        /\ SetCfg(2, Raised(inst[2].cfg))
        /\ Record("raise", 2, 0)
  /\ UNCHANGED <<pc, plan, hdr, refst, reflog>>

Choose ==
  /\ pc = "orig" /\ busy = 0
  /\ inst[2].gens >= 0
  /\ \E p \in Paths, rm \in {"restore", "scramble"}, m \in Modes :
       /\ p = "P" => inst[2].cfg.sf > 0
       /\ Allowed(inst[2].cfg, inst[2].gens, p, rm, m)
       /\ plan' = Plan(p, rm, m)
       /\ hdr' = [hdr EXCEPT !.k = inst[2].gens, !.path = p, !.rng = rm, !.mode = m, !.atstop = Stopped(2)]
  /\ pc' = "run"
  /\ UNCHANGED <<vars, script, refst, reflog>>

Exec ==
  /\ pc = "run"
  /\ Norm(plan) # << >>
  /\ LET np == Norm(plan)
         cm == np[1]
         rest == SubSeq(np, 2, Len(np))
     IN IF cm.c = "step"
        THEN IF busy = 0 /\ Stopped(cm.x)
             THEN (* a stopped instance is continued the way the reference was: raise first *)
                  /\ SetCfg(cm.x, Raised(inst[cm.x].cfg))
                  /\ Record("raise", cm.x, 0)
                  /\ plan' = np
             ELSE /\ StepPart(cm.x)
                  /\ IF busy' = 0 THEN Record("step", cm.x, 0) /\ plan' = rest
                                  ELSE UNCHANGED script /\ plan' = np
        ELSE /\ plan' = rest
             /\ CASE cm.c = "saveF" -> Save(cm.x, "F") /\ Record(cm.c, cm.x, 0)
                  [] cm.c = "saveD" -> Save(cm.x, "D") /\ Record(cm.c, cm.x, 0)
                  [] cm.c \in {"loadF", "loadP", "loadD"} ->
                       Load(SlotOf(cm.c), cm.x) /\ Record(cm.c, cm.x, store[SlotOf(cm.c)].by)
                  [] cm.c = "copy" -> DeepCopy(cm.y, cm.x) /\ Record(cm.c, cm.x, cm.y)
                  [] cm.c = "rrng" -> RestoreRng(cm.x) /\ Record(cm.c, cm.x, 0)
                  [] cm.c = "scr" -> Scramble(cm.x) /\ Record(cm.c, cm.x, 0)
                  [] OTHER ->       \* relimit: a generation limit of its own, one past the present generation
                       LET c2 == [inst[cm.x].cfg EXCEPT !.lim = inst[cm.x].gens + 1] IN
                       SetCfg(cm.x, c2) /\ Record(cm.c, cm.x, c2.lim)
  /\ UNCHANGED <<pc, hdr, refst, reflog>>

Done == pc = "run" /\ busy = 0 /\ Norm(plan) = << >>

GNext == RefStep \/ OrigStep \/ Choose \/ Exec
GSpec == GInit /\ [][GNext]_gvars

(* ---- sanity of the generated scripts, checked by TLC ---- *)
(* whenever the premise of ResumeEquivalence is met by construction (generator restored, configuration only    *)
(* changed the way the reference's was, not a deep copy whose forced re-decoration re-clipped) the script      *)
(* really claims equality with the reference after every step / raise of a restored instance -- in particular  *)
(* after the steps that continue a run restored AT ITS STOP                                                     *)
ClaimsMade ==
  Done =>
    \A n \in 1..Len(script) :
      LET o == script[n] IN
        ( /\ o.c \in {"step", "raise"} /\ o.x >= 3
          /\ hdr.mode # "relimit"                      \* (there the restored instance has a configuration history of its own)
          /\ (hdr.rng = "restore" \/ ~Stochastic)
          /\ ~inst[o.x].dev )
        => o.r >= 0
(* the original itself (never restored) stays on the reference's trajectory as long as only it steps under its own *)
(* generator state                                                                                                *)
OriginalOnTrack ==
  Done => \A n \in 1..Len(script) : (script[n].x = 2 /\ script[n].c \in {"step", "raise"}) => script[n].r >= 0
(* the generator labels are sound (pos only grows and instances never die: the final state subsumes all) *)
LabelsSound == Done => RngLabelsFunctional
(* and where the generator was deliberately not restored for a DE kind, nothing is claimed about the trajectory *)
NothingClaimedUnrestored ==
  Done => \A n \in 1..Len(script) :
            (script[n].c = "step" /\ script[n].x >= 3 /\ hdr.rng = "scramble" /\ Stochastic) => script[n].r = -1
(* vacuity witness (must be VIOLATED where the setting has a limit): a script restores the checkpoint taken at *)
(* the stop and continues the restored instance                                                                 *)
NeverAtStop ==
  ~ (Done /\ hdr.atstop /\ \E n \in 1..Len(script) : script[n].c = "step" /\ script[n].x >= 3 /\ script[n].r >= 0)

Emit == Done => PrintT(<<"@@", ToJson([kind |-> kind, sid |-> inst[2].cfg.id, n |-> MaxGen, np |-> NP,
                                       refops |-> reflog, nw |-> hdr.nw, atstop |-> hdr.atstop,
                                       k |-> hdr.k, path |-> hdr.path, rng |-> hdr.rng,
                                       mode |-> hdr.mode, ops |-> script])>>)

ASSUME PrintT(<<"@@", ToJson([catalogue |-> GenSettings, kinds |-> GenKinds, n |-> MaxGen, np |-> NP])>>)
=============================================================================
