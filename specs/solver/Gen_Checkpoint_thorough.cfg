SPECIFICATION GSpec
CONSTANTS
  Kinds <- GenKinds
  Settings <- GenSettings
  NP = 4
  MaxGen <- GenN
  MaxInst = 4
  MaxCells = 24
  Design = "ok"
  MaxOps = 100000
  Tier = "thorough"
INVARIANT TypeOK
INVARIANT ResumeEquivalence
INVARIANT CopyCounts
INVARIANT LabelsSound
INVARIANT ClaimsMade
INVARIANT OriginalOnTrack
INVARIANT NothingClaimedUnrestored
INVARIANT Emit
PROPERTY Independence
