\* quick: Step 0 + one generation, every row over the 6-rule alphabet; every behaviour emitted
SPECIFICATION Spec
CONSTANTS
  NP = 4
  K = 3
  Kinds = {"DE", "DE2"}
  Tables <- QTables
  Pops <- QPops
  Rules <- QRules
  G = 1
INVARIANT EnergyFaithful
INVARIANT BestIsMinAccepted
PROPERTY PopENonIncreasing
PROPERTY ReplacedOnlyByStrictlyLower
PROPERTY Greedy
PROPERTY BestMonotone
INVARIANT Emit
