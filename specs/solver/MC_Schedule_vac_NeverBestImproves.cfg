SPECIFICATION SpecB
CONSTANTS
  Kinds <- AllKinds
  Pool <- Pool5
  K = 1
  InitAts <- P0
  Pres <- P0
  Variant = "coded"
  Sys = "de2"
  N = 3
  Energies <- E2
  Gens = 2
  Ks <- K1
  Modes <- Both
  MaxRun = 3
  Consume = "index"
  Scan = "index"
  Cmp = "le"
  FinalReduce = TRUE
  Track = FALSE
INVARIANT NeverBestImproves
