SPECIFICATION Spec
CONSTANTS
  N = 2
  Trajs <- Trajs2
  Calls <- CallsB
  MaxCalls = 2
  Design = "documented"
INVARIANT NeverResetSolved
