-------------------------------- MODULE Grid --------------------------------
(***************************************************************************)
(* S4b -- the point generators behind the ensemble solvers                 *)
(* (mystic/math/grid.py gridpts, randomly_bin, samplepts, fillpts and      *)
(* ensemble.LatticeSolver._InitialPoints).                                 *)
(*                                                                         *)
(*   GridPts(q)        q = <<bins of dimension 1, ..., bins of dimension   *)
(*                     d>>: the full Cartesian product of the bins as a    *)
(*                     sequence in the documented order                    *)
(*                     ( [[1,2],[3,4]] -> [1,3],[1,4],[2,3],[2,4] ), i.e.  *)
(*                     row-major: the LAST dimension varies fastest.       *)
(*   Centre(L,U,nb,j)  lattice bin j (0-based) of nb bins on [L,U]:        *)
(*                     L + (j + 1/2) * |U - L| / nb.  Coordinates are      *)
(*                     integers in units of 1/Scale; the bounds used are   *)
(*                     multiples of 12 units so that every centre for      *)
(*                     nb <= 3 is an integer (the IEEE arithmetic of the   *)
(*                     implementation is then exact and comparable).       *)
(*                     Instances with 4..12 bins use widths that are       *)
(*                     multiples of 2*nb units (CentreExact); the binary   *)
(*                     exponent `sc` rescales a unit to 2^sc/16 (5e-324 .. *)
(*                     1e299) without changing any integer below.          *)
(*   LatticePts        the starting points of a LatticeSolver: GridPts of  *)
(*                     the per-dimension centre lists; point n is the      *)
(*                     centre of grid cell n.                              *)
(*   RandomlyBinPost   post-condition of randomly_bin(N, ndim):            *)
(*                     length = ndim, product = N, every entry >= 1.       *)
(*   PointsPost        post-condition of samplepts / fillpts: exactly npts *)
(*                     points of the right dimension, each coordinate      *)
(*                     inside [lb, ub] (coordinates are order-preserving   *)
(*                     ranks, so only comparisons are made).               *)
(*                                                                         *)
(* As a state machine the module only enumerates cases: Init chooses a     *)
(* dimension, a bin layout and bounds; the design properties below are     *)
(* invariants over all of them and `Emit` prints each case with the points *)
(* the specification demands (the case table replayed into the code).      *)
(***************************************************************************)
EXTENDS Integers, Sequences, FiniteSets, TLC, Json

CONSTANTS Dims,        \* set of dimensions explored
          MaxBins,     \* largest number of bins per dimension
          BinChoices,  \* the numbers of bins a dimension may have (a subset of 1..MaxBins: also 4, 5, 7 -- primes and
                       \* composites -- and the two-digit counts 10 and 12 in the "wide" instances)
          Bounds,      \* set of <<L, U>> pairs (units of 2^sc/Scale, L <= U) a dimension may have
          Scales       \* binary exponents sc: a coordinate of u units is the real number u * 2^sc / Scale.  0 in the
                       \* basic instances; the "scaled" instances use -1070 (one unit = 5e-324, the smallest
                       \* positive double), -1000 (~1e-300), -30 (~1e-9: more than 8 decimals), 33 (~1e10), 996
                       \* (~1e300).  Scaling by a power of two changes no integer below, and keeps the IEEE
                       \* arithmetic of the implementation exact: the SAME points in units are demanded.

Scale == 16

Abs(x) == IF x < 0 THEN -x ELSE x

RECURSIVE Prod(_)
Prod(s) == IF Len(s) = 0 THEN 1 ELSE s[1] * Prod(SubSeq(s, 2, Len(s)))

(* number of points that share the same index in dimensions 1..i: product of the later lengths *)
Stride(lens, i) == Prod(SubSeq(lens, i + 1, Len(lens)))

(* 0-based index in dimension i of the (1-based) n-th grid point, row-major *)
Digit(lens, n, i) == ((n - 1) \div Stride(lens, i)) % lens[i]

Lens(q) == [i \in 1..Len(q) |-> Len(q[i])]

GridPts(q) == LET lens == Lens(q)      \* (LET definitions are evaluated once: this matters for 12 x 12 bins)
                  strides == [i \in 1..Len(q) |-> Stride(lens, i)]
              IN [n \in 1..Prod(lens) |-> [i \in 1..Len(q) |-> q[i][(((n - 1) \div strides[i]) % lens[i]) + 1]]]

(* the same thing enumerated the wrong way round (first dimension fastest): used to show that the
   ordering properties below are not vacuous *)
ColMajorPts(q) ==
  LET lens == Lens(q)
      Str(i) == Prod(SubSeq(lens, 1, i - 1))
  IN [n \in 1..Prod(lens) |-> [i \in 1..Len(q) |-> q[i][(((n - 1) \div Str(i)) % lens[i]) + 1]]]

-----------------------------------------------------------------------------
(* lattice bins *)
CentreExact(L, U, nb) == (Abs(U - L) % (2 * nb)) = 0
Centre(L, U, nb, j) == L + ((2 * j + 1) * Abs(U - L)) \div (2 * nb)
CentreBins(lo, hi, nbins) == [i \in 1..Len(nbins) |-> [j \in 1..nbins[i] |-> Centre(lo[i], hi[i], nbins[i], j - 1)]]
LatticePts(lo, hi, nbins) == GridPts(CentreBins(lo, hi, nbins))

(* cell n of the grid in dimension i: [CellLo, CellHi] (twice the value, to stay in integers) *)
CellLo2(lo, hi, nbins, n, i) == 2 * lo[i] + (2 * Digit(nbins, n, i) * Abs(hi[i] - lo[i])) \div nbins[i]
CellHi2(lo, hi, nbins, n, i) == 2 * lo[i] + (2 * (Digit(nbins, n, i) + 1) * Abs(hi[i] - lo[i])) \div nbins[i]

-----------------------------------------------------------------------------
(* post-conditions of the randomised generators *)
RandomlyBinPost(N, ndim, r) ==
  << <<"C09:randomly_bin-length-is-ndim", Len(r) = ndim>>,
     <<"C09:randomly_bin-entries-positive", \A i \in 1..Len(r) : r[i] >= 1>>,
     <<"C09:randomly_bin-product-is-N", Prod(r) = N>> >>

(* randomly_bin(N, ndim, ones, exact) as documented: "exact -- if False, find N-1 bins for prime numbers" (the code does so
   for primes above 3); ndim = 0 stands for "ndim not given": the length is then free *)
IsPrime(n) == n > 1 /\ \A d \in 2..(n - 1) : (d * d <= n) => n % d # 0
RbinProduct(N, exact) == IF ~exact /\ N > 3 /\ IsPrime(N) THEN N - 1 ELSE N
RandomlyBinPostX(N, ndim, exact, r) ==
  << <<"C09:randomly_bin-length-is-ndim", ndim # 0 => Len(r) = ndim>>,
     <<"C09:randomly_bin-entries-positive", \A i \in 1..Len(r) : r[i] >= 1>>,
     <<IF exact THEN "C09:randomly_bin-product-is-N" ELSE "C09:randomly_bin-product-is-N-or-N-1-for-primes",
       Prod(r) = RbinProduct(N, exact)>> >>

(* lo, hi, pts[k][i] are ranks of the real numbers (equal numbers have equal ranks) *)
PointsPost(npts, dim, lo, hi, pts) ==
  << <<"C09:points-count-is-npts", Len(pts) = npts>>,
     <<"C09:points-dimension", \A k \in 1..Len(pts) : Len(pts[k]) = dim>>,
     <<"C09:points-within-ranges", \A k \in 1..Len(pts) : \A i \in 1..Len(pts[k]) :
                                      i <= dim => (lo[i] <= pts[k][i] /\ pts[k][i] <= hi[i])>> >>

Failing(cl) == {cl[i][1] : i \in {j \in DOMAIN cl : ~cl[j][2]}}

-----------------------------------------------------------------------------
(* case enumeration *)
VARIABLES dim, nbins, lo, hi, sc
gvars == <<dim, nbins, lo, hi, sc>>

Init == /\ dim \in Dims
        /\ sc \in Scales
        /\ nbins \in [1..dim -> BinChoices]
        /\ \E b \in [1..dim -> Bounds] : lo = [i \in 1..dim |-> b[i][1]] /\ hi = [i \in 1..dim |-> b[i][2]]
Next == UNCHANGED gvars
Spec == Init /\ [][Next]_gvars

Pts == LatticePts(lo, hi, nbins)
NPts == Prod(nbins)

(* the constants keep the arithmetic exact *)
Exact == \A i \in 1..dim : lo[i] <= hi[i] /\ CentreExact(lo[i], hi[i], nbins[i])
(* ... and every coordinate u * 2^(sc-4) is a double: a multiple of 2^-1074 below 2^1024 (|u| < 2^31) *)
Representable == BinChoices \subseteq 1..MaxBins /\ sc - 4 >= -1074 /\ sc + 27 <= 1023

(* exactly as many points as the product of the bins *)
CountIsProduct == Len(Pts) = NPts

(* the points are the full Cartesian product of the per-dimension bins: every combination of bin
   indices occurs exactly once *)
FullProduct ==
  LET idx(n) == [i \in 1..dim |-> Digit(nbins, n, i)]
      all == {idx(n) : n \in 1..NPts}
      pts == Pts
      cb == CentreBins(lo, hi, nbins)
  IN /\ all = {f \in [1..dim -> 0..(MaxBins - 1)] : \A i \in 1..dim : f[i] < nbins[i]}
     /\ Cardinality(all) = NPts
     /\ \A n \in 1..NPts : \A i \in 1..dim : pts[n][i] = cb[i][idx(n)[i] + 1]

(* documented order: index tuples increase lexicographically (last dimension fastest) *)
LexLess(a, b) == \E i \in 1..dim : a[i] < b[i] /\ \A k \in 1..(i - 1) : a[k] = b[k]
RowMajor == \A n \in 1..(NPts - 1) :
               LexLess([i \in 1..dim |-> Digit(nbins, n, i)], [i \in 1..dim |-> Digit(nbins, n + 1, i)])

(* point n is the centre of its own grid cell, and inside the box *)
OwnCellCentre == LET pts == Pts IN \A n \in 1..NPts : \A i \in 1..dim :
                    /\ 4 * pts[n][i] = CellLo2(lo, hi, nbins, n, i) + CellHi2(lo, hi, nbins, n, i)
                    /\ lo[i] <= pts[n][i] /\ pts[n][i] <= hi[i]
                    /\ (lo[i] < hi[i] => (lo[i] < pts[n][i] /\ pts[n][i] < hi[i]))

(* cells of different points are different: distinct points whenever the box is not degenerate *)
DistinctIfProper == (\A i \in 1..dim : lo[i] < hi[i]) => LET pts == Pts IN Cardinality({pts[n] : n \in 1..NPts}) = NPts

(* vacuity companion: column-major enumeration differs from the documented one somewhere *)
ColMajorNeverDiffers == ColMajorPts(CentreBins(lo, hi, nbins)) = Pts

Emit == PrintT(<<"@@", ToJson([dim |-> dim, nbins |-> nbins, lo |-> lo, hi |-> hi, sc |-> sc,
                               bins |-> CentreBins(lo, hi, nbins), pts |-> Pts])>>)
=============================================================================
