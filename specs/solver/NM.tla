--------------------------------- MODULE NM ---------------------------------
(***************************************************************************)
(* The Nelder-Mead iteration of scipy.optimize.fmin as a DECISION TREE     *)
(* over energy comparisons only.  Points are opaque ids, energies are      *)
(* order-preserving ranks, so this specification applies to runs on        *)
(* arbitrary floating-point problems: it says, given the energies of the   *)
(* current simplex (sorted, f[1] best ... f[V] worst) and the energies of  *)
(* the candidate points that were evaluated, WHICH candidates must have    *)
(* been evaluated in which order, which branch is legal and what the next  *)
(* simplex is.                                                             *)
(*                                                                         *)
(* Candidate points are named by what the published algorithm says they    *)
(* are (xbar = centroid of all vertices but the worst, w = worst):         *)
(*   R   (1+rho) xbar - rho w                reflection                    *)
(*   E   (1+rho chi) xbar - rho chi w        expansion                     *)
(*   OC  (1+psi rho) xbar - psi rho w        outside contraction           *)
(*   IC  (1-psi) xbar + psi w                inside contraction            *)
(*   S j sim[1] + sigma (sim[j+1] - sim[1])  shrink of vertex j+1          *)
(*   X0  the start point;   I k  x0 with coordinate k scaled by 1+radius   *)
(* A call is [labs, p, f]: the list of names the evaluated point p matches  *)
(* (several when the simplex is degenerate; empty when it is none of the   *)
(* documented points), its id and its energy rank.                         *)
(*                                                                         *)
(* Tree(s, f, calls) is the single definition used both by the abstract    *)
(* state machine below (TLC chooses the oracle energies, MC_NM.cfg) and by *)
(* Trace_NM.tla (the calls come from a recorded run of the real solver).   *)
(*                                                                         *)
(* Variables: n dimension; phase new/start/run; sim, fsim the simplex as   *)
(* point ids and energy ranks; iters, evals the counters; br the branch of *)
(* the last iteration; stop why the run stopped ("" while running).        *)
(***************************************************************************)
EXTENDS Integers, Sequences, FiniteSets, TLC

VARIABLES n, phase, sim, fsim, iters, evals, br, stop
nmvars == <<n, phase, sim, fsim, iters, evals, br, stop>>

L(name, j) == [l |-> name, j |-> j]
Is(c, name, j) == \E k \in DOMAIN c.labs : c.labs[k] = L(name, j)      \* labs: a sequence of names
NoCall == [labs |-> <<>>, p |-> -1, f |-> -1]
At(calls, k) == IF k \in DOMAIN calls THEN calls[k] ELSE NoCall

(* which second candidate the reflection energy calls for *)
Second(f, fR) ==
  LET V == Len(f) IN
  IF fR < f[1] THEN "E"
  ELSE IF fR < f[V - 1] THEN "-"
  ELSE IF fR < f[V] THEN "OC"
  ELSE "IC"

Tree(s, f, calls) ==
  LET V == Len(f)
      c1 == At(calls, 1)
      c2 == At(calls, 2)
      kind == Second(f, c1.f)
      accept2 == CASE kind = "E"  -> c2.f < c1.f
                   [] kind = "OC" -> c2.f <= c1.f
                   [] kind = "IC" -> c2.f < f[V]
                   [] OTHER -> FALSE
      shrink == kind \in {"OC", "IC"} /\ ~accept2
      winner == IF kind = "-" \/ (kind = "E" /\ ~accept2) THEN c1 ELSE c2
      want == IF kind = "-" THEN 1 ELSE IF shrink THEN V + 1 ELSE 2
      branch == IF shrink THEN "shrink"
                ELSE CASE kind = "-" -> "reflect"
                       [] kind = "E" -> IF accept2 THEN "expand" ELSE "reflect"
                       [] kind = "OC" -> "contract-out"
                       [] kind = "IC" -> "contract-in"
  IN [first  |-> Is(c1, "R", 0),
      second |-> kind # "-" => Is(c2, kind, 0),
      count  |-> Len(calls) = want,
      shrunk |-> shrink => \A j \in 1..(V - 1) : Is(At(calls, 2 + j), "S", j),
      br     |-> branch,
      (* the next simplex before sorting, as <<point, energy>> pairs *)
      pairs  |-> IF shrink
                 THEN [i \in 1..V |-> IF i = 1 THEN <<s[1], f[1]>> ELSE <<At(calls, 1 + i).p, At(calls, 1 + i).f>>]
                 ELSE [i \in 1..V |-> IF i = V THEN <<winner.p, winner.f>> ELSE <<s[i], f[i]>>]]
TreeOK(t) == t.first /\ t.second /\ t.count /\ t.shrunk

(* s2, f2 is an energy-sorted arrangement of the pairs (equal energies in any order) *)
Arranged(pairs, s2, f2) ==
  LET post == [i \in 1..Len(s2) |-> <<s2[i], f2[i]>>] IN
  /\ Len(s2) = Len(pairs) /\ Len(f2) = Len(pairs)
  /\ \A i \in 1..Len(pairs) : Cardinality({k \in 1..Len(pairs) : post[k] = pairs[i]})
                              = Cardinality({k \in 1..Len(pairs) : pairs[k] = pairs[i]})
  /\ \A i \in 1..(Len(f2) - 1) : f2[i] <= f2[i + 1]

(* the stop rule of fmin: limits first, then the CandidateRelativeTolerance verdict `crt` (an oracle) *)
StopWhy(it, ev, crt, maxiter, maxfun) ==
  IF ev >= maxfun \/ it >= maxiter THEN "limit" ELSE IF crt THEN "crt" ELSE ""

(* --------------------------------------------------------------- abstract machine *)
CONSTANTS Dims, Ranks, MaxIter       \* used by the model-checking configuration only

Perms(V) == {p \in [1..V -> 1..V] : \A i, j \in 1..V : p[i] = p[j] => i = j}

Init == /\ n \in Dims /\ phase = "new" /\ sim = <<>> /\ fsim = <<>> /\ iters = 0 /\ evals = 0
        /\ br = "none" /\ stop = ""

Start == /\ phase = "new"
         /\ \E e \in Ranks : /\ sim' = <<0>> /\ fsim' = <<e>>
         /\ phase' = "start" /\ iters' = 0 /\ evals' = 1 /\ br' = "start" /\ stop' = ""
         /\ UNCHANGED n

(* fresh point ids: iteration k uses ids 100*k + 1, 100*k + 2, ... *)
Fresh(k) == 100 * (iters + 1) + k

Settle(pairs, k, b) ==
  \E p \in Perms(Len(pairs)) :
    LET s2 == [i \in 1..Len(pairs) |-> pairs[p[i]][1]]
        f2 == [i \in 1..Len(pairs) |-> pairs[p[i]][2]]
    IN  /\ \A i \in 1..(Len(f2) - 1) : f2[i] <= f2[i + 1]
        /\ sim' = s2 /\ fsim' = f2 /\ phase' = "run" /\ iters' = iters + 1 /\ evals' = evals + k /\ br' = b
        /\ \E crt \in BOOLEAN : stop' = StopWhy(iters + 1, evals + k, crt, MaxIter, 1000000)
        /\ UNCHANGED n

Build == /\ phase = "start" /\ stop = ""
         /\ \E es \in [1..n -> Ranks] :
              Settle([i \in 1..(n + 1) |-> IF i = 1 THEN <<sim[1], fsim[1]>> ELSE <<Fresh(i), es[i - 1]>>], n, "build")

Call(name, j, k, e) == [labs |-> <<L(name, j)>>, p |-> Fresh(k), f |-> e]
Apply(calls) == LET t == Tree(sim, fsim, calls) IN TreeOK(t) /\ Settle(t.pairs, Len(calls), t.br)

(* TLC chooses the oracle energies: of R, then (if the tree asks for one) of the second candidate, then
   (if the tree shrinks) of the shrunk vertices *)
Iterate ==
  /\ phase = "run" /\ stop = ""
  /\ \E fR \in Ranks :
       LET kind == Second(fsim, fR)
           c1 == Call("R", 0, 1, fR)
       IN  IF kind = "-" THEN Apply(<<c1>>)
           ELSE \E f2 \in Ranks :
                  LET two == <<c1, Call(kind, 0, 2, f2)>> IN
                  IF Tree(sim, fsim, two).br = "shrink"
                  THEN \E fs \in [1..n -> Ranks] : Apply(two \o [j \in 1..n |-> Call("S", j, 2 + j, fs[j])])
                  ELSE Apply(two)

Next == Start \/ Build \/ Iterate
Spec == Init /\ [][Next]_nmvars

(* --------------------------------------------------------------- design properties *)
Sorted == phase = "run" => \A i \in 1..(Len(fsim) - 1) : fsim[i] <= fsim[i + 1]
EvalsPerIteration == [][phase = "run" /\ phase' = "run" => (evals' - evals) \in {1, 2, n + 2}]_nmvars
BestNeverWorsens == [][phase = "run" /\ phase' = "run" => fsim'[1] <= fsim[1]]_nmvars
(* without a shrink every sorted energy is at least as good as before, and the worst one strictly improves
   unless it is tied with the accepted point's predecessor *)
NoShrinkImproves ==
  [][(phase = "run" /\ phase' = "run" /\ br' # "shrink") =>
       /\ \A i \in 1..Len(fsim) : fsim'[i] <= fsim[i]
       /\ \E i \in 1..Len(fsim) : fsim'[i] < fsim[i]]_nmvars
(* a shrink keeps the best vertex and replaces every other one *)
ShrinkKeepsBest ==
  [][(phase = "run" /\ phase' = "run" /\ br' = "shrink") =>
       /\ \E i \in 1..Len(sim') : sim'[i] = sim[1]
       /\ \A i \in 2..Len(sim) : \A k \in 1..Len(sim') : sim'[k] # sim[i]]_nmvars
(* vacuity probes (must be VIOLATED): every branch is reachable *)
NeverShrinks == br # "shrink"
NeverExpands == br # "expand"
NeverContractsOut == br # "contract-out"
NeverContractsIn == br # "contract-in"
=============================================================================
