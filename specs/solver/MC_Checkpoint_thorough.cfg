\* deeper: all four kinds, generations 0..3, three harness actions, the two quick configurations
SPECIFICATION Spec
CONSTANTS Kinds = {"DE", "DE2", "NM", "PW"}
  NP = 2
  MaxGen = 3
  MaxInst = 3
  MaxCells = 12
  Settings <- QSettings
  Design = "ok"
  MaxOps = 3
INVARIANT TypeOK
INVARIANT ResumeEquivalence
INVARIANT CopyCounts
INVARIANT RngLabelsFunctional
PROPERTY Independence
