\* wider: three further configurations (evaluation limit for DE, dump every generation / 2nd / 3rd, stops at 1, 2, 3)
SPECIFICATION Spec
CONSTANTS Kinds = {"DE", "PW"}
  NP = 2
  MaxGen = 3
  MaxInst = 3
  MaxCells = 12
  Settings <- TSettings
  Design = "ok"
  MaxOps = 3
INVARIANT TypeOK
INVARIANT ResumeEquivalence
INVARIANT CopyCounts
INVARIANT RngLabelsFunctional
PROPERTY Independence
