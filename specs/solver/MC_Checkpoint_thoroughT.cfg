\* wider: four configurations (adds evaluation limit for the DE kinds, dump every generation / every 3rd)
SPECIFICATION Spec
CONSTANTS Kinds = {"DE", "DE2", "NM", "PW"}
  NP = 2
  MaxGen = 3
  MaxInst = 3
  MaxCells = 12
  Settings <- TSettings
  Design = "ok"
  MaxOps = 3
INVARIANT TypeOK
INVARIANT ResumeEquivalence
INVARIANT CopyCounts
INVARIANT RngLabelsFunctional
PROPERTY Independence
