\* witness: NeverReplaced is EXPECTED TO BE VIOLATED
SPECIFICATION Spec
CONSTANTS
  NP = 4
  K = 3
  Kinds = {"DE", "DE2"}
  Tables <- QTables
  Pops <- QPops
  Rules <- QRules
  G = 1
INVARIANT NeverReplaced
