--------------------------- MODULE Trace_Lifecycle ---------------------------
(***************************************************************************)
(* Trace validation (code -> spec) for Lifecycle.tla.                      *)
(*                                                                         *)
(* IOEnv.TRACE_FILE is a JSON array of traces; a trace is an array of      *)
(* events recorded by harness/record.py from a REAL mystic solver:         *)
(*   New        kind, np, dim, defG, defE, cb                              *)
(*   Call       mode ("step"/"solve")      -- emitted before Step/Solve    *)
(*   Iter       snapshot taken inside the callback at the end of a _Step   *)
(*   Ret        snapshot + message class   -- after Step/Solve returned    *)
(*   SetLimits / SetCfg / Finalize / SetEvalMon / SetStepMon / SetTerm /   *)
(*   Exit       snapshot after the configuration call returned             *)
(* A snapshot carries the solver's reported counters (gens, fcalls, nsm,   *)
(* nem, live, limG, limE, dec), the recorder's own counts (real, ncb), the *)
(* truth of the installed termination condition and of the exit flag as    *)
(* evaluated by the recorder (term, exit), and booleans the recorder       *)
(* computes by comparing monitor contents with its own call log (eh_mono,  *)
(* eh_last, sm_last, em_ok, cb_ok).                                        *)
(*                                                                         *)
(* Each event must be explainable as the corresponding Lifecycle action    *)
(* from the current spec state AND the observed fields must equal the      *)
(* spec's post-state.  All Lifecycle invariants are checked in every       *)
(* state of every trace.  Many traces are validated per TLC run: `tid`     *)
(* picks the trace, accepted ids are collected in TLC register 1.          *)
(***************************************************************************)
EXTENDS Lifecycle, Json, IOUtils, TLCExt

Traces == JsonDeserialize(IOEnv.TRACE_FILE)

VARIABLES tid, l,
          pend    \* keyword settings (EvaluationMonitor= / StepMonitor= / penalty= / constraints=) handed to the
                  \* running Step call and not yet processed: Step processes them in _Step, i.e. only if an
                  \* iteration is begun; Solve processes them on entry, before anything else
tvars == <<s, tid, l, pend>>

Tr == Traces[tid]
E  == Tr[l]
Diagnose == "DIAG" \in DOMAIN IOEnv

(***************************************************************************)
(* Named clauses.  An event is accepted iff every clause is true; in a     *)
(* diagnosis run (IOEnv.DIAG) the names of the false clauses are printed,  *)
(* so a rejection names what failed.  Prefix = the property it belongs to. *)
(***************************************************************************)
(* A clause is <<property, name, truth>>.  IOEnv.WAIVE names a property whose clauses are NOT demanded in this run:  *)
(* a trace that the faithful specification rejects on a clause of the OTHER property is validated a second time    *)
(* with that property waived -- the state then FOLLOWS the observation in the fields that property is about (Follow *)
(* below) -- so that the rest of the trace is still judged on the clauses of the property being decided.            *)
Waive == IF "WAIVE" \in DOMAIN IOEnv THEN IOEnv.WAIVE ELSE "none"
AllTrue(cl) == \A i \in DOMAIN cl : cl[i][3] \/ cl[i][1] = Waive
Follow(t, e) ==
  CASE Waive = "C04" -> [t EXCEPT !.fcalls = e.fcalls, !.real = e.real, !.nsm = e.nsm, !.dec = e.dec,
                                  !.nem = IF t.evmon THEN e.nem ELSE t.nem, !.live = e.live, !.ncb = e.ncb]
    [] Waive = "C05" -> [t EXCEPT !.limG = e.limG, !.limE = e.limE, !.term = e.term, !.exitreq = e.exit]
    [] OTHER -> t
Probe(cl) == Diagnose => PrintT(<<"@@", ToJson([probe |-> tid, at |-> l,
                                   failing |-> {cl[i][2] : i \in {j \in DOMAIN cl : ~cl[j][3] /\ cl[j][1] # Waive}}])>>)

(* observed fields equal the specification's post-state *)
MatchClauses(t, e) == <<
  <<"C04", "C04:evaluation-counter", t.fcalls = e.fcalls>>,
  <<"C04", "C04:real-calls-ghost", t.real = e.real>>,
  <<"C04", "C04:generation-counter", Gens(t) = e.gens>>,
  <<"C04", "C04:step-monitor-length", t.nsm = e.nsm>>,
  <<"C04", "C04:powell-history-decoupled", t.dec = e.dec>>,
  <<"C04", "C04:evaluation-monitor-length", t.evmon => t.nem = e.nem>>,
  <<"C04", "C04:objective-live-flag", t.live = e.live>>,
  <<"C04", "C04:callback-count", Tr[1].cb => t.ncb = e.ncb>> >>
Match(t, e) == AllTrue(MatchClauses(t, e))

FlagClauses(t, e) == <<
  <<"C04", "C04:callback-argument-is-best", e.cb_ok>>,
  <<"C04", "C04:energy-history-ends-in-best-energy", e.eh_last>>,
  <<"C04", "C04:evaluation-monitor-equals-call-log", e.em_ok>>,
  <<"C04", "C04:energy-history-nonincreasing", t.mono => e.eh_mono>> >>

(* evaluations of one iteration the kind allows (k are REAL calls: out-of-box points cost none) *)
KOk(t, k, bounded) ==
  LET lo == IF bounded THEN 0 ELSE 1 IN
  CASE t.kind \in {"DE", "DE2"} -> IF bounded THEN k \in 0..t.np ELSE k = t.np
    [] t.kind = "NM" -> IF t.nsm = 0 THEN k \in lo..1
                        ELSE IF Gens(t) = 0 THEN (IF bounded THEN k \in 0..t.dim ELSE k = t.dim)
                        ELSE IF bounded THEN k \in 0..(t.dim + 2) ELSE k \in {1, 2, t.dim + 2}
    [] t.kind = "PW" -> IF t.nsm = 0 THEN k \in lo..1 ELSE k >= lo

IsEvent(name) == l <= Len(Tr) /\ E.ev = name /\ l' = l + 1 /\ UNCHANGED tid

(* ---- configuration by keyword of Step / Solve (abstract_solver._process_inputs) ----                          *)
(* One keyword is the corresponding Set* call (the action's post-state function without its guard); several are   *)
(* processed in the fixed order EvaluationMonitor, StepMonitor, penalty, constraints.  A keyword record is        *)
(* [what |-> "evalmon" | "stepmon" | "pen" | "cons", new |-> BOOLEAN, on |-> BOOLEAN].                            *)
KwF(t, k) ==
  CASE k.what = "evalmon" -> LET keep == k.on /\ t.evmon /\ ~k.new IN
                             Cfg([FinalizeF(t) EXCEPT !.nem = IF keep THEN t.nem ELSE 0, !.evmon = k.on,
                                                      !.embase = IF keep THEN t.embase ELSE t.real])
    [] k.what = "stepmon" -> Cfg(IF t.dec THEN FinalizeF(t) ELSE t)
    [] OTHER -> Cfg(Restale(t, k.what))
RECURSIVE KwAll(_, _)
KwAll(t, ks) == IF ks = << >> THEN t ELSE KwAll(KwF(t, Head(ks)), Tail(ks))
KwOf(e) == IF "kw" \in DOMAIN e THEN e.kw ELSE << >>

TraceInit ==
  /\ tid \in 1..Len(Traces)
  /\ l = 2
  /\ Traces[tid][1].ev = "New"
  /\ LET n == Traces[tid][1] IN s = Init0(n.kind, n.np, n.dim, n.defG, n.defE)
  /\ pend = << >>

TraceCall ==
  /\ IsEvent("Call")
  /\ LET cl == << <<"C05", "C05:call-while-running", s.pc = "idle">> >> IN Probe(cl) /\ AllTrue(cl)
  /\ s.ncalls < MaxCalls
  /\ IF E.mode = "solve"
     THEN s' = CallF(KwAll(s, KwOf(E)), E.mode) /\ pend' = << >>      \* Solve: keywords first, then the call
     ELSE s' = CallF(s, E.mode) /\ pend' = KwOf(E)                    \* Step: keywords wait for the iteration

TraceIter ==
  /\ IsEvent("Iter")
  /\ LET running == s.pc \in {"pre", "post"}
         base0 == IF s.pc = "post" THEN PostContinueF(s) ELSE s
         (* pending keywords of a Step are processed now, then the objective is re-decorated *)
         base == IF pend # << >> THEN BootF(KwAll(base0, pend)) ELSE base0
         k == E.real - s.real
         post == IterF(base, k, E.term, E.exit)
         cl == << <<"C05", "C05:iteration-outside-a-call-or-after-it-stopped", running>>,
                  <<"C05", "C05:step-iterated-twice", s.pc = "post" => s.mode = "solve">>,
                  <<"C05", "C05:iteration-begun-past-stop-condition",
                        (s.pc = "post" => ~Stop(s)) /\ (base.nsm = 0 \/ ~Stop(base))>>,
                  <<"C04", "C04:evaluations-per-iteration", KOk(base, k, E.bounded)>>,
                  <<"C04", "C04:step-monitor-ends-in-best", ~post.dec => E.sm_last>> >>
               \o MatchClauses(post, E) \o FlagClauses(post, E)
     IN  /\ Probe(cl)
         /\ AllTrue(cl)
         /\ s' = Follow(post, E)
         /\ pend' = << >>

TraceRet ==
  /\ IsEvent("Ret")
  /\ LET case == IF s.pc = "pre" THEN "prestop" ELSE IF Stop(s) THEN "poststop" ELSE "continue"
         post == CASE case = "prestop" -> [Resolve(s) EXCEPT !.pc = "idle", !.msg = Msg(s), !.began = FALSE, !.stopped = TRUE]
                   [] case = "poststop" -> PostStopF(s)
                   [] OTHER -> PostContinueF(s)
         cl == << <<"C05", "C05:return-outside-a-call", s.pc \in {"pre", "post"}>>,
                  <<"C05", "C05:returned-without-stepping-though-no-stop-condition",
                        s.pc = "pre" => (s.nsm > 0 /\ Stop(s))>>,
                  <<"C05", "C05:solve-returned-without-stop-condition", case = "continue" => s.mode = "step">>,
                  <<"C05", "C05:stop-message-names-a-true-condition", post.msg = E.msg>>,
                  <<"C05", "C05:limit-bookkeeping", post.limG = E.limG /\ post.limE = E.limE>>,
                  <<"C05", "C05:termination-and-exit-flags-stable", post.term = E.term /\ post.exitreq = E.exit>>,
                  <<"C04", "C04:stopped-step-monitor-ends-in-best", (post.stopped /\ ~post.dec) => E.sm_last>> >>
               \o MatchClauses(post, E) \o FlagClauses(post, E)
     IN  /\ Probe(cl)
         /\ AllTrue(cl)
         /\ s' = Follow(post, E)
         /\ pend' = << >>          \* a Step that stops at its pre-check never looks at its keywords

CfgEvent(name, post) ==
  /\ IsEvent(name)
  /\ LET cl == << <<"C05", "C05:configuration-call-while-running", CanCfg>> >> \o MatchClauses(post, E)
     IN Probe(cl) /\ AllTrue(cl) /\ s' = Follow(post, E) /\ UNCHANGED pend

SetLimitsF(t, g, e, new) ==
  [t EXCEPT !.limG = IF g = None THEN (IF new THEN Star ELSE None) ELSE (IF new THEN g + Gens(t) ELSE g),
            !.limE = IF e = None THEN (IF new THEN Star ELSE None) ELSE (IF new THEN e + t.fcalls ELSE e)]

TraceSetLimits ==
  /\ IsEvent("SetLimits")
  /\ LET post == Cfg(SetLimitsF(s, E.g, E.e, E.new))
         cl == << <<"C05", "C05:configuration-call-while-running", CanCfg>>,
                  <<"C05", "C05:limit-bookkeeping", post.limG = E.limG /\ post.limE = E.limE>> >> \o MatchClauses(post, E)
     IN Probe(cl) /\ AllTrue(cl) /\ s' = Follow(post, E) /\ UNCHANGED pend
TraceSetCfg    == CfgEvent("SetCfg", Cfg([Restale(s, E.what) EXCEPT !.term = E.term, !.mono = s.mono /\ E.what # "objchange"]))
TraceFinalize  == CfgEvent("Finalize", Cfg(FinalizeF(s)))
TraceSetEvalMon == CfgEvent("SetEvalMon",
                     LET keep == E.on /\ s.evmon /\ ~E.new IN
                     Cfg([FinalizeF(s) EXCEPT !.nem = IF keep THEN s.nem ELSE 0, !.evmon = E.on,
                                              !.embase = IF keep THEN s.embase ELSE s.real]))
TraceSetStepMon == CfgEvent("SetStepMon", Cfg(IF s.dec THEN FinalizeF(s) ELSE s))
TraceSetTerm   == CfgEvent("SetTerm", Cfg([s EXCEPT !.term = E.term]))
(* A QUERY is an observation: solver.Terminated() / Terminated(info=True) between calls.  All it may do is what the  *)
(* next Step would do first anyway -- resolve default limits (None / "counted from now") into numbers -- and its     *)
(* answer must be the stop verdict and message of that state (judged once something has been recorded).              *)
TraceQuery ==
  /\ IsEvent("Query")
  /\ LET post == Resolve(s)
         cl == << <<"C05", "C05:query-while-running", s.pc = "idle">>,
                  <<"C05", "C05:limit-bookkeeping", post.limG = E.limG /\ post.limE = E.limE>>,
                  <<"C05", "C05:query-answers-the-stop-verdict-of-the-state", s.nsm > 0 => E.stop = Stop(post)>>,
                  <<"C05", "C05:stop-message-names-a-true-condition",
                        s.nsm > 0 => E.msg = (IF Stop(post) THEN Msg(post) ELSE "None")>> >> \o MatchClauses(post, E)
     IN Probe(cl) /\ AllTrue(cl) /\ s' = Follow(post, E) /\ UNCHANGED pend
TraceExit      == CfgEvent("Exit", Cfg([s EXCEPT !.exitreq = TRUE]))

(* A one-line wrapper call (fmin / fmin_powell / diffev / diffev2) seen from outside: the whole run is one     *)
(* Solve on a fresh solver whose limits are the wrapper's maxiter / maxfun (None = the solver's default).       *)
(* Logged: the limits as given, the returned (iter, funcalls, warnflag), the recorder's own count of cost      *)
(* calls and callbacks, whether a limit had to be reached for the run to end (the recorder ran it with a        *)
(* termination that cannot hold: `mustlimit`), the lengths of the evaluation / generation monitors handed in.   *)
TraceWrap ==
  /\ IsEvent("Wrap")
  /\ LET t == [s EXCEPT !.limG = E.g, !.limE = E.e, !.nsm = E.nsm, !.dec = FALSE, !.nem = E.nem,
                         !.fcalls = E.fcalls, !.real = E.real, !.ncb = E.ncb, !.iters = E.gens]
         maxk == CASE s.kind \in {"DE", "DE2"} -> s.np [] s.kind = "NM" -> s.dim + 2 [] OTHER -> 1000000
         cl == << <<"C04", "C04:evaluation-counter", E.fcalls = E.real>>,
                  <<"C04", "C04:evaluation-monitor-length", E.nem = E.real>>,
                  <<"C04", "C04:step-monitor-length", E.nsm = E.gens + 1>>,
                  <<"C04", "C04:callback-count", Tr[1].cb => E.ncb = E.gens + 1>>,
                  <<"C05", "C05:warnflag-names-a-true-condition", E.warnflag = WarnFlag(t)>>,
                  <<"C05", "C05:generation-limit-exceeded", E.gens <= ResG(t)>>,
                  <<"C05", "C05:evaluation-limit-overshoot", E.fcalls < ResE(t) + maxk>>,
                  <<"C05", "C05:returned-without-stop-condition", E.mustlimit => WarnFlag(t) # 0>> >>
     IN Probe(cl) /\ AllTrue(cl) /\ s' = [Resolve(t) EXCEPT !.pc = "idle", !.stopped = TRUE] /\ UNCHANGED pend

(* A FAULT: the user's objective raised inside the running Step and the caller caught it.  The call was made, so    *)
(* it counts (the recorder counted it before raising); nothing else is claimed of the aborted step and the trace    *)
(* ends here.  (DE2 is not driven with faults: it counts from what its map returns.)                                *)
TraceAbort ==
  /\ IsEvent("Abort")
  /\ LET cl == << <<"C04", "C04:evaluation-counter", E.fcalls = E.real>>,
                  <<"C05", "C05:abort-outside-a-call", s.pc \in {"pre", "post"}>> >>
     IN Probe(cl) /\ AllTrue(cl)
  /\ l' = Len(Tr) + 1
  /\ s' = [s EXCEPT !.pc = "idle", !.fcalls = E.real, !.real = E.real, !.nsm = E.nsm, !.dec = E.dec, !.nem = E.nem,
                    !.live = E.live, !.ncb = E.ncb, !.embase = E.real - E.nem, !.iters = Gens([s EXCEPT !.nsm = E.nsm, !.dec = E.dec]),
                    !.began = FALSE, !.stopped = FALSE]
  /\ UNCHANGED pend

TraceNext == TraceAbort \/ TraceWrap \/ TraceCall \/ TraceIter \/ TraceRet \/ TraceSetLimits \/ TraceSetCfg \/ TraceFinalize
             \/ TraceSetEvalMon \/ TraceSetStepMon \/ TraceSetTerm \/ TraceExit \/ TraceQuery

TraceSpec == TraceInit /\ [][TraceNext]_tvars

-----------------------------------------------------------------------------
(* acceptance bookkeeping: register 1 = set of accepted trace ids,          *)
(* register 2 = [tid -> longest matched prefix] (diagnosis runs only)       *)
ASSUME TLCSet(1, {})
ASSUME TLCSet(2, [i \in 1..Len(Traces) |-> 0])

Accept ==
  /\ (l = Len(Tr) + 1) => TLCSet(1, TLCGet(1) \cup {tid})
  /\ Diagnose => (TLCGet(2)[tid] < l => TLCSet(2, [TLCGet(2) EXCEPT ![tid] = l]))

AllAccepted ==
  /\ PrintT(<<"@@", ToJson([accepted |-> Cardinality(TLCGet(1)), total |-> Len(Traces),
                            rejected |-> (1..Len(Traces)) \ TLCGet(1),
                            prefix |-> IF Diagnose THEN TLCGet(2) ELSE << >>])>>)
  /\ TRUE

(* action property version of C05 on traces: an iteration only begins from a non-stop state *)
TraceIterOnlyIfAllowed == [][s'.began => (\/ ~StopTrue(s)
                                         \/ (s.pc = "post" /\ ~StopTrue(PostContinueF(s))))]_tvars
=============================================================================
