------------------------------ MODULE Checkpoint ------------------------------
(***************************************************************************)
(* C06 -- checkpoint / resume / copy of mystic solvers.                    *)
(*                                                                         *)
(* Several solver INSTANCES live in one process: instance 1 is the         *)
(* REFERENCE (runs uninterrupted), instance 2 the ORIGINAL (is saved /     *)
(* copied at some generation boundary), instances 3.. are created by       *)
(* Load (LoadSolver / dill.loads) or DeepCopy (copy.deepcopy).             *)
(*                                                                         *)
(* One action per public call:                                             *)
(*   solver.Step() is three critical sections, each an action; `busy`      *)
(*   names the instance that is inside Step() (nothing else can run then): *)
(*   Iterate(i)         bootstrap (re-decorate the objective if the solver *)
(*                      is not `live`), one iteration, and the periodic    *)
(*                      SetSaveFrequency dump (PeriodicDump) that _Step    *)
(*                      writes once the iteration is complete              *)
(*   Continue(i)        post-check: no stop condition holds; Step returns  *)
(*   Finalize(i)        post-check: a stop condition holds -> Finalize():  *)
(*                      the `live` flag is cleared, Powell flushes its     *)
(*                      pending step-monitor record (and dumps again)      *)
(*   ForcedDump(i)      __save_state(force=True): the registered restart   *)
(*                      file is rewritten with the FINALIZED solver; Step  *)
(*                      returns the stop message                           *)
(*   Save(i, slot)      SaveSolver(file) (slot "F") / dill.dumps ("D")     *)
(*   Load(slot, j)      LoadSolver(file) / dill.loads  -> new instance j   *)
(*   DeepCopy(i, j)     copy.deepcopy                  -> new instance j   *)
(*   RestoreRng(j)      the harness installs the generator state that was  *)
(*                      current when the snapshot j came from was written  *)
(*   Scramble(j)        the harness installs an unrelated generator state  *)
(*   SetCfg(i, c)       SetEvaluationLimits / SetSaveFrequency on i        *)
(*                                                                         *)
(* Abstract solver state (record inst[i]):                                 *)
(*   gens    generation counter (-1 = never stepped)                       *)
(*   pos     trajectory position: the free (Herbrand) interpretation of    *)
(*           "population, energies, best, histories, monitor contents":    *)
(*           the sequence of <<draw, internals-used, re-clipped, stopped>>  *)
(*           of all iterations so far (stopped: the run was finalized at   *)
(*           that generation).  An iteration is a deterministic function  *)
(*           of (pos, generator state, internal state, configuration), so  *)
(*           two solvers hold the same concrete data if (not only if)      *)
(*           their pos are equal.                                          *)
(*   intern  solver-private iteration state that is not derivable from     *)
(*           the population (Powell: direction set + __internals);         *)
(*           HonestIntern(g) after generation g, 0 for the other kinds     *)
(*   fc      address of the counter cell `evaluations` reads (_fcalls)     *)
(*   wfc     address of the cell the decorated objective increments        *)
(*   nsm,nem lengths of the step / evaluation monitor                      *)
(*   pend    Powell only: the record of the last iteration is not yet in   *)
(*           the step monitor (it is flushed by the next iteration or by   *)
(*           Finalize); nsm + pend = gens + 1                              *)
(*   cfg     configuration record [id, sf, em, lim, le, rg, dk]            *)
(*           sf save frequency (0 = off), em evaluation monitor installed, *)
(*           lim generation limit, le evaluation limit (None = -1),        *)
(*           rg strict ranges, dk applies to the DE kinds only             *)
(*   file    registered restart file (_state): slot name or "none"         *)
(*   live    decorated objective in sync (_live)                           *)
(*   base,own  GHOSTS: evaluations inherited at creation / real calls of   *)
(*           the instance's own objective since creation                   *)
(*   origin, born, rngAt  GHOSTS: how / at which generation the instance   *)
(*           was created; generator label saved with its snapshot          *)
(*   cfglog  GHOST: the re-configuration calls made so far, each with the  *)
(*           generation at which it was made                               *)
(*   forcedoff, dev  GHOSTS: deepcopy switched a live solver off / the     *)
(*           re-decoration this forces has re-clipped the population (the  *)
(*           one place where a copy legitimately leaves the trajectory)    *)
(* cell      heap of counter cells (sharing is expressed by equal          *)
(*           addresses); ncell = next unused address                       *)
(* store     slot -> snapshot ("F" explicit restart file, "P" file of the  *)
(*           periodic dump, "D" dill bytes, "R" periodic file of the       *)
(*           reference); a snapshot is the pickled attribute dictionary    *)
(* rngctx    HARNESS variable: Python's generators are process-global; the *)
(*           harness virtualises them per instance (installs rngctx[i]     *)
(*           before every call on i, reads the state back afterwards).     *)
(*           Labels are naturals; a stochastic iteration from label v      *)
(*           leaves label v+1 (v+1001 if it re-clipped, see Step).  RngLabelsFunctional (checked by TLC)       *)
(*           states that a label is never consumed from two different      *)
(*           positions, which makes the labelling sound.                   *)
(* acting    instance that performed the last action (0 = harness)         *)
(*                                                                         *)
(* Properties                                                              *)
(*   ResumeEquivalence  a restored / copied instance that has consumed the *)
(*       same generator labels under the same configuration as an          *)
(*       uninterrupted instance is, at equal generation, equal to it in    *)
(*       the WHOLE abstract state -- also when the snapshot was taken AT   *)
(*       THE STOP of a run and both are re-configured (limit raised) and   *)
(*       continued: whether the continuation re-decorates (and, under      *)
(*       strict ranges, re-clips) is part of the state that must agree     *)
(*   Independence       [][acting' # j => UNCHANGED State(j)]_vars,        *)
(*       including the dereferenced counter cell                           *)
(*   CopyCounts         evaluations(i) = base(i) + own(i) for every i      *)
(*                                                                         *)
(* Design == "ok" is the design the property needs.  The other values are  *)
(* named AS-IS / mutant designs that TLC refutes (design-level witnesses): *)
(*   snap_omits_internals   the pickle leaves out intern (Powell _direc)   *)
(*   load_resets_counter    LoadSolver starts the counter at 0             *)
(*   load_drops_stepmon     __load_state loses the step monitor            *)
(*   copy_shares_counter    the copy's counter cell IS the original's      *)
(*                          (what copy.copy does; deepcopy must not)       *)
(*   copy_detached_counter  the copy's objective increments a cell that is *)
(*                          not the one `evaluations` reads (mystic before *)
(*                          repo commit 2fd65b7)                           *)
(*   dump_midstep           the periodic dump is written before the        *)
(*                          iteration has stored intern (mystic before     *)
(*                          repo commit 778ef22)                           *)
(*   forced_dump_skipped    the forced dump at the stop is skipped when    *)
(*                          the periodic dump already fired at this        *)
(*                          generation: the file then holds the solver as  *)
(*                          it was BEFORE Finalize (still live)            *)
(***************************************************************************)
EXTENDS Integers, Sequences, FiniteSets, TLC

CONSTANTS Kinds,      \* subset of {"DE","DE2","NM","PW"}; one kind per behaviour
          NP,         \* evaluations per generation of the DE kinds
          MaxGen,     \* a run is the generations 0..MaxGen
          MaxInst,    \* instance ids 1..MaxInst
          MaxCells,   \* size of the counter heap
          Settings,   \* set of configuration records
          Design,     \* "ok" or the name of a refuted design
          MaxOps      \* bound on Save/Load/Copy/SetCfg/rng actions (model checking only)

None == -1
Ids == 1..MaxInst
Slots == {"F", "P", "D", "R"}
Designs == {"ok", "snap_omits_internals", "load_resets_counter", "load_drops_stepmon",
            "copy_shares_counter", "copy_detached_counter", "dump_midstep", "forced_dump_skipped"}
ASSUME Design \in Designs

VARIABLES kind, inst, cell, ncell, store, rngctx, acting, nops, busy
vars == <<kind, inst, cell, ncell, store, rngctx, acting, nops, busy>>

NoCfg == [id |-> 0, sf |-> 0, em |-> FALSE, lim |-> None, le |-> None, rg |-> FALSE, dk |-> FALSE]

Dead == [alive |-> FALSE, gens |-> -1, pos |-> << >>, intern |-> 0, fc |-> 1, wfc |-> 1, nsm |-> 0, nem |-> 0,
         pend |-> FALSE, cfg |-> NoCfg, file |-> "none", live |-> FALSE, base |-> 0, own |-> 0,
         origin |-> "none", born |-> -1, rngAt |-> -1, forcedoff |-> FALSE, dev |-> FALSE, cfglog |-> << >>]

Empty == [full |-> FALSE, gens |-> -1, pos |-> << >>, intern |-> 0, fcalls |-> 0, nsm |-> 0, nem |-> 0,
          pend |-> FALSE, cfg |-> NoCfg, file |-> "none", live |-> FALSE, rngAt |-> -1, by |-> 0,
          forcedoff |-> FALSE, dev |-> FALSE, cfglog |-> << >>]

Stochastic == kind \in {"DE", "DE2"}
HasInternals == kind = "PW"
(* evaluations of the iteration that produces generation g: NP for the DE kinds; for Nelder-Mead and    *)
(* Powell the number is the code's choice -- an arbitrary deterministic stand-in, never compared         *)
EvalsOf(g) == IF Stochastic THEN NP ELSE IF g = 0 THEN 1 ELSE 2
HonestIntern(g) == IF HasInternals THEN g + 1 ELSE 0

Fcalls(s, c) == c[s.fc]
StoppedWith(s, c) == /\ s.gens >= 0
                     /\ \/ s.cfg.lim # None /\ s.gens >= s.cfg.lim
                        \/ s.cfg.le # None /\ Fcalls(s, c) >= s.cfg.le
Stopped(i) == StoppedWith(inst[i], cell)
Idle == busy = 0              \* nobody is inside Step(): the states a caller can observe

(* the part of an instance the property speaks about *)
Abs(s, c) == [gens |-> s.gens, pos |-> s.pos, intern |-> s.intern, fcalls |-> Fcalls(s, c),
              nsm |-> s.nsm, nem |-> s.nem, cfg |-> s.cfg]
(* everything of instance j another instance could disturb *)
State(j) == [abs |-> Abs(inst[j], cell), file |-> inst[j].file, live |-> inst[j].live, alive |-> inst[j].alive,
             pend |-> inst[j].pend]
(* what the iterations consumed from outside the solver: the generator labels *)
Draws(s) == [n \in 1..Len(s.pos) |-> s.pos[n][1]]
(* labels together with the re-clipping flags (used for the soundness of the labels only) *)
Inputs(s) == [n \in 1..Len(s.pos) |-> <<s.pos[n][1], s.pos[n][3]>>]

Fresh(origin, c, f, cl) ==
  [Dead EXCEPT !.alive = TRUE, !.cfg = c, !.file = IF c.sf > 0 THEN f ELSE "none", !.origin = origin,
               !.fc = cl, !.wfc = cl]

Init ==
  /\ kind \in Kinds
  /\ \E c \in Settings :
       /\ c.dk => kind \in {"DE", "DE2"}
       /\ inst = [i \in Ids |-> IF i = 1 THEN Fresh("ref", c, "R", 1)
                                ELSE IF i = 2 THEN Fresh("orig", c, "P", 2) ELSE Dead]
  /\ cell = [a \in 1..MaxCells |-> 0]
  /\ ncell = 3
  /\ store = [sl \in Slots |-> Empty]
  /\ rngctx = [i \in Ids |-> IF i <= 2 THEN 0 ELSE -1]     \* reference and original start from the same seed
  /\ acting = 0
  /\ nops = 0
  /\ busy = 0

(* the pickled attribute dictionary of s (counter by value), written by instance `by` under generator label r *)
Snap(s, c, r, by) ==
  [full |-> TRUE, gens |-> s.gens, pos |-> s.pos,
   intern |-> IF Design = "snap_omits_internals" THEN 0 ELSE s.intern,
   fcalls |-> Fcalls(s, c), nsm |-> s.nsm, nem |-> s.nem, pend |-> s.pend, cfg |-> s.cfg, file |-> s.file,
   live |-> s.live, rngAt |-> r, by |-> by, forcedoff |-> s.forcedoff, dev |-> s.dev, cfglog |-> s.cfglog]

(* SaveSolver() into the registered file: the SetSaveFrequency dump and the forced dump at a stop *)
PeriodicDump(st, s, c, r, by) == [st EXCEPT ![s.file] = Snap(s, c, r, by)]
DumpDue(s) == s.file # "none" /\ s.cfg.sf > 0 /\ s.gens % s.cfg.sf = 0

(* ---- solver.Step(), first critical section: bootstrap, one iteration, periodic dump ---- *)
Iterate(i) ==
  LET s == inst[i] IN
  /\ Idle
  /\ s.alive /\ s.gens < MaxGen /\ ~Stopped(i)
  /\ Stochastic => rngctx[i] >= 0
  /\ ncell < MaxCells
  /\ LET g == s.gens + 1
         k == EvalsOf(g)
         redeco == ~s.live                 \* _bootstrap_objective re-wraps the cost: new counter cell, started at the old count
         (* re-decoration under strict ranges re-clips the population: identity for Powell's single in-box point *)
         (* and for generations <= 0; otherwise it draws random numbers (DE kinds) / rebuilds the simplex (NM)   *)
         perturb == redeco /\ s.gens >= 1 /\ s.cfg.rg /\ kind # "PW"
         d == IF Stochastic THEN rngctx[i] ELSE 0
         (* a perturbed iteration consumes extra random numbers: it leaves a generator state of its own *)
         r2 == IF Stochastic THEN rngctx[i] + 1 + (IF perturb THEN 1000 ELSE 0) ELSE rngctx[i]
         fcell == IF redeco THEN ncell ELSE s.fc
         wcell == IF redeco THEN ncell ELSE s.wfc
         c1 == IF redeco THEN [cell EXCEPT ![ncell] = cell[s.fc]] ELSE cell
         c2 == [c1 EXCEPT ![wcell] = @ + k]
         post == [s EXCEPT !.gens = g, !.pos = Append(@, <<d, s.intern, IF perturb THEN 1 ELSE 0, 0>>),
                           !.intern = HonestIntern(g), !.fc = fcell, !.wfc = wcell,
                           (* Powell logs the PREVIOUS iteration's record now and keeps the new one pending *)
                           !.nsm = IF HasInternals THEN (IF g = 0 \/ s.pend THEN @ + 1 ELSE @) ELSE @ + 1,
                           !.pend = HasInternals /\ g >= 1,
                           !.nem = IF s.cfg.em THEN @ + k ELSE @, !.own = @ + k, !.live = TRUE,
                           (* the one legitimate departure: the re-decoration deepcopy forces re-clips *)
                           !.dev = @ \/ (perturb /\ s.forcedoff), !.forcedoff = FALSE]
         midstep == [post EXCEPT !.intern = s.intern]               \* as-is: written before intern is stored
     IN /\ inst' = [inst EXCEPT ![i] = post]
        /\ cell' = c2
        /\ ncell' = IF redeco THEN ncell + 1 ELSE ncell
        /\ rngctx' = [rngctx EXCEPT ![i] = r2]
        /\ store' = IF DumpDue(post)
                    THEN PeriodicDump(store, IF Design = "dump_midstep" THEN midstep ELSE post, c2, r2, i)
                    ELSE store
        /\ busy' = i
        /\ acting' = i
        /\ UNCHANGED <<kind, nops>>

(* ---- second critical section, no stop condition holds: Step() returns None ---- *)
Continue(i) ==
  /\ busy = i /\ ~Stopped(i)
  /\ busy' = 0 /\ acting' = i
  /\ UNCHANGED <<kind, inst, cell, ncell, store, rngctx, nops>>

(* ---- second critical section, a stop condition holds: Finalize() ---- *)
Finalize(i) ==
  LET s == inst[i]
      (* the run is marked as finalized at this generation (Powell: what the step monitor holds from here on depends *)
      (* on it; all kinds: the next Step re-decorates) and Powell flushes its pending record ...                     *)
      fin == [s EXCEPT !.nsm = IF s.pend THEN @ + 1 ELSE @, !.pend = FALSE,
                       !.pos = [@ EXCEPT ![Len(@)] = <<@[1], @[2], @[3], 1>>]]
      off == [fin EXCEPT !.live = FALSE]
  IN /\ busy = i /\ Stopped(i) /\ s.live
     /\ inst' = [inst EXCEPT ![i] = off]
     (* ... and, having logged a record, checks the save frequency again -- still marked live at that moment *)
     /\ store' = IF s.pend /\ DumpDue(fin) THEN PeriodicDump(store, fin, cell, rngctx[i], i) ELSE store
     /\ acting' = i
     /\ UNCHANGED <<kind, cell, ncell, rngctx, nops, busy>>

(* ---- third critical section: __save_state(force=True), Step() returns the stop message ---- *)
ForcedDump(i) ==
  LET s == inst[i]
      skipped == Design = "forced_dump_skipped" /\ s.cfg.sf > 0 /\ s.gens % s.cfg.sf = 0
  IN /\ busy = i /\ Stopped(i) /\ ~s.live
     /\ store' = IF s.file # "none" /\ ~skipped THEN PeriodicDump(store, s, cell, rngctx[i], i) ELSE store
     /\ busy' = 0 /\ acting' = i
     /\ UNCHANGED <<kind, inst, cell, ncell, rngctx, nops>>

(* the public call as a whole *)
StepPart(i) == Iterate(i) \/ Continue(i) \/ Finalize(i) \/ ForcedDump(i)

Op == Idle /\ nops < MaxOps /\ nops' = nops + 1 /\ UNCHANGED busy

(* SaveSolver(file) registers the file, then pickles; dill.dumps pickles only *)
Save(i, slot) ==
  /\ Op
  /\ inst[i].alive /\ inst[i].gens >= 0 /\ slot \in {"F", "D"}
  /\ LET s2 == IF slot = "F" THEN [inst[i] EXCEPT !.file = "F"] ELSE inst[i] IN
       /\ inst' = [inst EXCEPT ![i] = s2]
       /\ store' = [store EXCEPT ![slot] = Snap(s2, cell, rngctx[i], i)]
  /\ acting' = i
  /\ UNCHANGED <<kind, cell, ncell, rngctx>>

NewId(j) == ~inst[j].alive /\ \A m \in Ids : m < j => inst[m].alive

(* LoadSolver: unpickle, transplant the dictionary into a fresh instance of the recorded type, register the file; *)
(* dill.loads: unpickle only (the registered file is whatever was pickled)                                         *)
Load(slot, j) ==
  /\ Op
  /\ NewId(j) /\ slot \in {"F", "P", "D"} /\ store[slot].full /\ ncell < MaxCells
  /\ LET sn == store[slot]
         fcv == IF Design = "load_resets_counter" THEN 0 ELSE sn.fcalls
     IN /\ inst' = [inst EXCEPT ![j] =
                      [alive |-> TRUE, gens |-> sn.gens, pos |-> sn.pos, intern |-> sn.intern,
                       fc |-> ncell, wfc |-> ncell,
                       nsm |-> IF Design = "load_drops_stepmon" THEN 0 ELSE sn.nsm, nem |-> sn.nem,
                       pend |-> sn.pend,
                       cfg |-> sn.cfg, file |-> IF slot = "D" THEN sn.file ELSE slot, live |-> sn.live,
                       base |-> fcv, own |-> 0, origin |-> "load", born |-> sn.gens, rngAt |-> sn.rngAt,
                       forcedoff |-> sn.forcedoff, dev |-> sn.dev, cfglog |-> sn.cfglog]]
        /\ cell' = [cell EXCEPT ![ncell] = fcv]
  /\ ncell' = ncell + 1
  /\ rngctx' = [rngctx EXCEPT ![j] = -1]          \* nothing installed yet for j
  /\ acting' = j
  /\ UNCHANGED <<kind, store>>

(* copy.deepcopy: every attribute copied by value; the copy is marked not live so that its first Step re-wraps *)
(* the objective around the copy's own counter and monitors                                                     *)
DeepCopy(i, j) ==
  /\ Op
  /\ inst[i].alive /\ inst[i].gens >= 0 /\ NewId(j) /\ ncell + 1 < MaxCells
  /\ LET s == inst[i]
         shares == Design = "copy_shares_counter"
         detached == Design = "copy_detached_counter"
     IN /\ inst' = [inst EXCEPT ![j] =
                      [s EXCEPT !.fc = IF shares THEN s.fc ELSE ncell,
                                !.wfc = IF shares THEN s.wfc ELSE IF detached /\ s.live THEN ncell + 1 ELSE ncell,
                                !.live = IF shares \/ detached THEN s.live ELSE FALSE,
                                !.forcedoff = IF shares \/ detached THEN s.forcedoff ELSE (s.live \/ s.forcedoff),
                                !.base = Fcalls(s, cell), !.own = 0, !.origin = "copy", !.born = s.gens,
                                !.rngAt = rngctx[i]]]
        /\ cell' = IF shares THEN cell
                   ELSE [cell EXCEPT ![ncell] = Fcalls(s, cell), ![ncell + 1] = Fcalls(s, cell)]
  /\ ncell' = ncell + 2
  /\ rngctx' = [rngctx EXCEPT ![j] = -1]
  /\ acting' = j
  /\ UNCHANGED <<kind, store>>

Restorable(j) == inst[j].alive /\ inst[j].origin \in {"load", "copy"} /\ inst[j].gens = inst[j].born

RestoreRng(j) ==
  /\ Op
  /\ Restorable(j) /\ inst[j].rngAt >= 0
  /\ rngctx' = [rngctx EXCEPT ![j] = inst[j].rngAt]
  /\ acting' = 0
  /\ UNCHANGED <<kind, inst, cell, ncell, store>>

Scramble(j) ==
  /\ Op
  /\ Restorable(j)
  /\ rngctx' = [rngctx EXCEPT ![j] = 100 * j]     \* a generator state unrelated to every other one
  /\ acting' = 0
  /\ UNCHANGED <<kind, inst, cell, ncell, store>>

(* SetEvaluationLimits / SetSaveFrequency(sf, file "P") on instance i; monitors and ranges are fixed once it has run. *)
(* Raising the limit of a STOPPED solver is how a finished run is continued (the solver stays not live until its     *)
(* next Step re-decorates the objective).                                                                             *)
SetCfg(i, c) ==
  /\ Op
  /\ inst[i].alive /\ c # inst[i].cfg
  /\ c.dk => kind \in {"DE", "DE2"}
  /\ inst[i].gens >= 0 => (c.em = inst[i].cfg.em /\ c.rg = inst[i].cfg.rg)
  /\ inst' = [inst EXCEPT ![i].cfg = c,
                          ![i].cfglog = Append(@, <<inst[i].gens, c>>),
                          ![i].file = IF c.sf > 0 /\ c.sf # inst[i].cfg.sf THEN (IF i = 1 THEN "R" ELSE "P") ELSE @]
  /\ acting' = i
  /\ UNCHANGED <<kind, cell, ncell, store, rngctx>>

(* the raised limits with which a stopped run is continued *)
Raised(c) == [c EXCEPT !.lim = MaxGen + 10, !.le = None]

Next ==
  \/ \E i \in Ids : StepPart(i)
  \/ \E i \in Ids \ {1}, sl \in {"F", "D"} : Save(i, sl)
  \/ \E j \in Ids, sl \in {"F", "P", "D"} : Load(sl, j)
  \/ \E i \in Ids \ {1}, j \in Ids : DeepCopy(i, j)
  \/ \E j \in Ids : RestoreRng(j) \/ Scramble(j)
  \/ \E i \in Ids \ {1}, c \in Settings : SetCfg(i, c)
  \/ \E i \in Ids : Stopped(i) /\ SetCfg(i, Raised(inst[i].cfg))     \* continue a finished run

Spec == Init /\ [][Next]_vars

(* ------------------------------------------------------------------ properties *)
Uninterrupted(r) == inst[r].alive /\ inst[r].origin \in {"ref", "orig"}
Resumed(i) == inst[i].alive /\ inst[i].origin \in {"load", "copy"}

(* same generation, same configuration HISTORY (which re-configuration call was made at which generation: a    *)
(* limit that was in force for a while makes a run stop, finalize and re-decorate), same generator labels       *)
(* consumed; the single waiver is a deep copy whose forced re-decoration re-clipped the population (dev)        *)
SamePremise(i, r) == /\ inst[i].gens = inst[r].gens
                     /\ inst[i].cfg = inst[r].cfg
                     /\ inst[i].cfglog = inst[r].cfglog
                     /\ Draws(inst[i]) = Draws(inst[r])
                     /\ ~inst[i].dev

ResumeEquivalence ==
  Idle =>
  \A i \in Ids, r \in Ids :
     (Resumed(i) /\ Uninterrupted(r) /\ SamePremise(i, r)) => Abs(inst[i], cell) = Abs(inst[r], cell)

Independence ==
  [][\A j \in Ids : (inst[j].alive /\ acting' # j) => State(j)' = State(j)]_vars

CopyCounts ==
  \A i \in Ids : inst[i].alive => Fcalls(inst[i], cell) = inst[i].base + inst[i].own

(* soundness of the natural-number generator labels: the same label is never consumed from two different      *)
(* positions by live instances (so "label v+1" denotes one concrete generator state)                           *)
RngLabelsFunctional ==
  Stochastic =>
    \A i \in Ids, j \in Ids :
      (inst[i].alive /\ inst[j].alive) =>
        \A m \in 1..Len(inst[i].pos), n \in 1..Len(inst[j].pos) :
           inst[i].pos[m][1] = inst[j].pos[n][1] =>
              m = n /\ SubSeq(Inputs(inst[i]), 1, m - 1) = SubSeq(Inputs(inst[j]), 1, n - 1)

TypeOK ==
  /\ kind \in Kinds
  /\ busy \in 0..MaxInst
  /\ \A i \in Ids : inst[i].gens \in -1..MaxGen /\ inst[i].fc \in 1..MaxCells /\ inst[i].wfc \in 1..MaxCells
  /\ \A i \in Ids : inst[i].alive =>
        (inst[i].nsm + (IF inst[i].pend THEN 1 ELSE 0) = inst[i].gens + 1 \/ Design = "load_drops_stepmon")
  /\ \A i \in Ids : (inst[i].alive /\ inst[i].cfg.sf > 0) => inst[i].file # "none"

(* ------------------------------------------------------------------ vacuity witnesses (must be VIOLATED) *)
(* a restored instance has continued past its checkpoint and is compared with an uninterrupted one *)
NeverResumedCompared ==
  ~ \E i \in Ids, r \in Ids : Idle /\ Resumed(i) /\ inst[i].origin = "load" /\ Uninterrupted(r) /\ SamePremise(i, r)
                               /\ inst[i].gens >= inst[i].born + 2
NeverCopyCompared ==
  ~ \E i \in Ids, r \in Ids : Idle /\ Resumed(i) /\ inst[i].origin = "copy" /\ Uninterrupted(r) /\ SamePremise(i, r)
                               /\ inst[i].gens >= inst[i].born + 1
(* the periodic dump is restored after the original has moved on *)
NeverPeriodicRestore ==
  ~ \E i \in Ids : Resumed(i) /\ inst[i].file = "P" /\ inst[i].origin = "load" /\ inst[2].gens > inst[i].born
                    /\ inst[i].gens > inst[i].born
(* a restored instance runs with a generator state that was not restored: nothing is claimed *)
NeverUnrestored ==
  ~ \E i \in Ids : Idle /\ Resumed(i) /\ inst[i].gens > inst[i].born /\ ~ SamePremise(i, 1)
                    /\ inst[1].gens = inst[i].gens /\ inst[i].cfg = inst[1].cfg
(* a copy's first step is perturbed by re-clipping under strict ranges (the waiver is really used) *)
NeverPerturbed ==
  ~ \E i \in Ids : inst[i].alive /\ inst[i].dev
(* a run stops at a limit and the restart file is rewritten by the forced dump *)
NeverForcedDump ==
  ~ \E sl \in Slots : store[sl].full /\ ~store[sl].live /\ store[sl].gens >= 1
(* two instances created from the same snapshot both continue *)
NeverTwoFromOne ==
  ~ \E i \in Ids, j \in Ids : i < j /\ Resumed(i) /\ Resumed(j) /\ inst[i].born = inst[j].born
                               /\ inst[i].gens > inst[i].born /\ inst[j].gens > inst[j].born
(* THE STOP: the restart file written at the stop of the original is restored, original and restored instance get *)
(* the same raised limit, both continue under strict ranges (re-decoration re-clips) and are compared              *)
NeverStopRestoredContinued ==
  ~ \E i \in Ids : /\ Idle /\ Resumed(i) /\ inst[i].origin = "load" /\ SamePremise(i, 2)
                   /\ inst[i].gens > inst[i].born /\ inst[i].born >= 1
                   /\ inst[i].pos[inst[i].born + 2][3] = 1          \* its first step after the restore re-clipped
                   /\ inst[i].cfg.sf > 0 /\ inst[i].born % inst[i].cfg.sf = 0
(* same, with a save frequency that does not divide the stop generation *)
NeverStopRestoredNonDividing ==
  ~ \E i \in Ids : /\ Idle /\ Resumed(i) /\ inst[i].origin = "load" /\ SamePremise(i, 2)
                   /\ inst[i].gens > inst[i].born /\ inst[i].born >= 1
                   /\ inst[i].pos[inst[i].born + 2][3] = 1
                   /\ inst[i].cfg.sf > 0 /\ inst[i].born % inst[i].cfg.sf # 0
=============================================================================
