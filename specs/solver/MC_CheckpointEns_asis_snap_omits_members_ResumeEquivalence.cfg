\* refuted design: TLC must report ResumeEquivalence violated
SPECIFICATION Spec
CONSTANTS EKinds = {"LNM", "BPW"}
  NMem = 2
  MaxGen = 2
  MaxRefuse = 1
  MaxInst = 3
  MaxCells = 28
  MaxObjs = 6
  Settings <- QSettings
  Design = "snap_omits_members"
  MaxOps = 3
CONSTRAINT RefIdle
INVARIANT ResumeEquivalence
