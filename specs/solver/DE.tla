--------------------------------- MODULE DE ---------------------------------
(***************************************************************************)
(* The generation loop of mystic's two differential-evolution solvers at   *)
(* the level of ids (`_Step` of DifferentialEvolutionSolver = "DE" and of  *)
(* DifferentialEvolutionSolver2 = "DE2"), one action per public Step call. *)
(*                                                                         *)
(*   Pt     == 1..K          point ids (the binding embeds them in R^n)    *)
(*   cost   \in [Pt -> E]    the objective as a table; INF is an energy    *)
(*   pop    [1..NP -> Pt]    the population (member -> point)              *)
(*   popE   [1..NP -> E]     stored member energies (INF before Step 0)    *)
(*   best, bestE             all-time best point / energy (a separate copy)*)
(*   gen                     number of Step calls made (0 = none yet)      *)
(*   tP, tE                  ghost: trial point / energy per candidate of  *)
(*                           the last Step                                 *)
(*   acc                     ghost: every energy ever accepted into pop    *)
(*   hist                    ghost: the script and the expected            *)
(*                           observations after every Step (for replay)    *)
(*                                                                         *)
(* A Step is driven by a ROW: for every candidate a trial RULE, which is   *)
(* what a (scripted) strategy callable does when the solver calls it:      *)
(*    r \in 1..K        the trial is the constant point r                  *)
(*    r = K + m         the trial is a copy of member m AS VISIBLE NOW     *)
(*    r = K + NP + 1    the trial is a copy of the best AS VISIBLE NOW     *)
(* "Visible now" is where the two solvers differ: DE works in place (a     *)
(* candidate sees the replacements and the best of earlier candidates of   *)
(* the same generation); DE2 builds all trials from the frozen generation, *)
(* evaluates them with a map (results consumed by index) and only then     *)
(* selects.  Selection is greedy and STRICT: a member is replaced only by  *)
(* a trial whose energy is `<` its own; the all-time best likewise.        *)
(* Step 0 (no step-monitor record yet) evaluates the members themselves.   *)
(***************************************************************************)
EXTENDS Integers, Sequences, FiniteSets, TLC, Json

CONSTANTS NP, K,
          Kinds,        \* subset of {"DE", "DE2"}
          Tables,       \* set of cost tables (sequences of length K over energies)
          Pops,         \* set of initial populations (sequences of length NP over 1..K)
          Rules(_),     \* rule alphabet of candidate c (1-based)
          G             \* Steps after Step 0

VARIABLES kind, cost, pop, popE, best, bestE, gen, tP, tE, acc, hist
vars == <<kind, cost, pop, popE, best, bestE, gen, tP, tE, acc, hist>>

INF == 1000000
Pt == 1..K
RBest == K + NP + 1
AllRules == 1..RBest

(* the point a rule produces, given the population / best it can see *)
TrialPt(r, vpop, vbest) == IF r <= K THEN r ELSE IF r = RBest THEN vbest ELSE vpop[r - K]

(* selection for candidate c with trial point t of energy e on the running state st *)
Select(st, c, t, e) ==
  IF e < st.popE[c]
  THEN [pop |-> [st.pop EXCEPT ![c] = t], popE |-> [st.popE EXCEPT ![c] = e],
        best |-> IF e < st.bestE THEN t ELSE st.best,
        bestE |-> IF e < st.bestE THEN e ELSE st.bestE,
        acc |-> st.acc \cup {e}, tie |-> st.tie]
  ELSE [st EXCEPT !.tie = @ \/ (e = st.popE[c] /\ t # st.pop[c])]

(* DE: strategy, evaluate, select -- candidate by candidate, in place *)
RECURSIVE DELoop(_, _, _, _, _)
DELoop(st, row, c, tp, te) ==
  IF c > NP THEN [st |-> st, tp |-> tp, te |-> te]
  ELSE LET t == TrialPt(row[c], st.pop, st.best)
           e == cost[t]
       IN DELoop(Select(st, c, t, e), row, c + 1, Append(tp, t), Append(te, e))

(* DE2: all trials from the frozen generation; energies by a map (a function of the index); *)
(* then the selection loop over the indices                                                 *)
RECURSIVE SelLoop(_, _, _, _)
SelLoop(st, tp, te, c) == IF c > NP THEN st ELSE SelLoop(Select(st, c, tp[c], te[c]), tp, te, c + 1)
DE2Gen(st, row) ==
  LET tp == [c \in 1..NP |-> TrialPt(row[c], st.pop, st.best)]
      te == [c \in 1..NP |-> cost[tp[c]]]
  IN [st |-> SelLoop(st, tp, te, 1), tp |-> tp, te |-> te]

Cur == [pop |-> pop, popE |-> popE, best |-> best, bestE |-> bestE, acc |-> acc, tie |-> FALSE]
Run(row) == IF kind = "DE" THEN DELoop(Cur, row, 1, <<>>, <<>>) ELSE DE2Gen(Cur, row)

Init == /\ kind \in Kinds /\ cost \in Tables /\ pop \in Pops
        /\ popE = [i \in 1..NP |-> INF]
        /\ best = pop[1] /\ bestE = INF            \* (bestSolution/bestEnergy default to member 0)
        /\ gen = 0 /\ tP = <<>> /\ tE = <<>> /\ acc = {} /\ hist = <<>>

Apply(row) ==
  LET r == Run(row) IN
    /\ pop' = r.st.pop /\ popE' = r.st.popE /\ best' = r.st.best /\ bestE' = r.st.bestE
    /\ acc' = r.st.acc /\ tP' = r.tp /\ tE' = r.te
    /\ gen' = gen + 1
    /\ hist' = Append(hist, [row |-> row, pop |-> r.st.pop, popE |-> r.st.popE, best |-> r.st.best,
                             bestE |-> r.st.bestE, tie |-> r.st.tie, tE |-> r.te])
    /\ UNCHANGED <<kind, cost>>

(* Step 0: the strategy is None, the trial of member c is member c itself; best := member 0 first *)
Step0 == gen = 0 /\ Apply([c \in 1..NP |-> K + c])
(* a later Step with a scripted strategy *)
Rows == {row \in [1..NP -> AllRules] : \A c \in 1..NP : row[c] \in Rules(c)}
StepG == gen >= 1 /\ gen <= G /\ \E row \in Rows : Apply(row)
Next == Step0 \/ StepG
Spec == Init /\ [][Next]_vars

-----------------------------------------------------------------------------
Min(S) == CHOOSE x \in S : \A y \in S : x <= y

(* stored energies are those of the stored points *)
EnergyFaithful == gen >= 1 => \A i \in 1..NP : popE[i] = cost[pop[i]]
(* bestE = the minimum over everything accepted so far; the best point carries it and is a member *)
BestIsMinAccepted == gen >= 1 => /\ bestE = Min(acc \cup {INF})
                                 /\ bestE = Min({popE[i] : i \in 1..NP})
                                 /\ (bestE < INF => cost[best] = bestE /\ \E i \in 1..NP : pop[i] = best /\ popE[i] = bestE)
(* member energies never increase *)
PopENonIncreasing == [][\A i \in 1..NP : popE'[i] <= popE[i]]_vars
(* a member changes only when its trial's energy is strictly lower, and then it becomes that trial *)
ReplacedOnlyByStrictlyLower ==
  [][\A i \in 1..NP : (pop'[i] # pop[i] \/ popE'[i] # popE[i]) =>
        (tE'[i] < popE[i] /\ popE'[i] = tE'[i] /\ pop'[i] = tP'[i])]_vars
(* ... and whenever the trial is strictly lower the member IS replaced (greedy) *)
Greedy == [][\A i \in 1..NP : tE'[i] < popE[i] => (popE'[i] = tE'[i] /\ pop'[i] = tP'[i])]_vars
(* the best never worsens and changes only to a strictly lower accepted trial *)
BestMonotone == [][bestE' <= bestE /\ (best' # best => bestE' < bestE)]_vars

(* witnesses, EXPECTED TO BE VIOLATED: a tie that keeps the member occurs; DE's in-place view matters *)
NeverTie == \A k \in 1..Len(hist) : ~hist[k].tie
NeverReplaced == gen <= 1 \/ pop = hist[1].pop

-----------------------------------------------------------------------------
(* emission: the whole behaviour from its final state *)
Emit == gen = G + 1 => PrintT(<<"@@", ToJson([kind |-> kind, cost |-> cost, pop0 |-> hist[1].pop, steps |-> hist])>>)
=============================================================================
