SPECIFICATION Spec
CONSTANTS
  N = 2
  Trajs <- Trajs2
  Calls <- CallsA
  MaxCalls = 2
  Design = "documented"
INVARIANT NeverZeroRoundUntil
