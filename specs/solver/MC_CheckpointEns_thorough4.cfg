\* four instances (two from one snapshot, chains): the everything-on configuration
SPECIFICATION Spec
CONSTANTS EKinds = {"LNM", "BPW"}
  NMem = 2
  MaxGen = 2
  MaxRefuse = 1
  MaxInst = 4
  MaxCells = 40
  MaxObjs = 8
  Settings <- XSettings
  Design = "ok"
  MaxOps = 4
CONSTRAINT QuickBound
INVARIANT TypeOK
INVARIANT ResumeEquivalence
INVARIANT CopyCounts
INVARIANT TotalIsSum
INVARIANT RngLabelsFunctional
PROPERTY Independence
