SPECIFICATION Spec
CONSTANTS
  N = 2
  Points <- Pts
  En <- EnQ
  KeyOf <- KeyQ
  Outs <- Outs2
  Configs <- ConfigsT
  Ops <- OpsSR
  MaxOps = 2
  MaxSolves = 6
  Design = "documented"
CONSTRAINT Bounded
INVARIANT NeverCoarseDiffers
