\* the stop: strict ranges, dump every 2nd generation, stop at a dump generation (2) and at a non-dump generation (1);
\* four harness actions (Load, RestoreRng, raise the original, raise the restored instance), continuation to generation 3
SPECIFICATION Spec
CONSTANTS Kinds = {"DE", "NM"}
  NP = 2
  MaxGen = 3
  MaxInst = 3
  MaxCells = 12
  Settings <- WSettings
  Design = "ok"
  MaxOps = 4
INVARIANT TypeOK
INVARIANT ResumeEquivalence
INVARIANT CopyCounts
INVARIANT RngLabelsFunctional
PROPERTY Independence
