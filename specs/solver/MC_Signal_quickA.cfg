SPECIFICATION Spec
CONSTANTS
  Calls <- CallsProtocol
  Switches <- SwCore
  Wheres = {"cost"}
  InitHandlers = {"default", "user"}
  MaxCalls = 3
  MaxSig = 1
  MaxMenu = 1
  ConsultExit = TRUE
INVARIANT TypeOK
INVARIANT LateZero
INVARIANT MsgNamesExit
INVARIANT ExitVisible
INVARIANT HandlerDiscipline
INVARIANT RestoredAfterSolve
INVARIANT DeadOnlyDefault
INVARIANT CallbackCount
PROPERTY NoIterAfterExit
PROPERTY ForeignUntouched
PROPERTY PromptsOnlyInMenu
PROPERTY SolveStartsClean
PROPERTY StepKeepsRequest
INVARIANT Emit
