\* four instances (two restored from one snapshot, chains of restores), DE, everything-on configuration
SPECIFICATION Spec
CONSTANTS Kinds = {"DE"}
  NP = 2
  MaxGen = 2
  MaxInst = 4
  MaxCells = 14
  Settings <- XSettings
  Design = "ok"
  MaxOps = 4
INVARIANT TypeOK
INVARIANT ResumeEquivalence
INVARIANT CopyCounts
INVARIANT RngLabelsFunctional
PROPERTY Independence
