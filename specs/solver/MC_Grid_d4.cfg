SPECIFICATION Spec
CONSTANTS
  Dims = {4}
  MaxBins = 3
  Bounds <- DBounds
INVARIANT Exact
INVARIANT CountIsProduct
INVARIANT FullProduct
INVARIANT RowMajor
INVARIANT OwnCellCentre
INVARIANT DistinctIfProper
INVARIANT Emit
