\* thorough: Step 0 + one generation, more tables and initial populations
SPECIFICATION Spec
CONSTANTS
  NP = 4
  K = 3
  Kinds = {"DE", "DE2"}
  Tables <- TTables
  Pops <- TPops
  Rules <- QRules
  G = 1
INVARIANT EnergyFaithful
INVARIANT BestIsMinAccepted
PROPERTY PopENonIncreasing
PROPERTY ReplacedOnlyByStrictlyLower
PROPERTY Greedy
PROPERTY BestMonotone
INVARIANT Emit
