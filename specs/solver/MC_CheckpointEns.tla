-------------------------- MODULE MC_CheckpointEns --------------------------
(* Model-checking instances of CheckpointEns.tla (free interleaving of all actions). *)
EXTENDS CheckpointEns

S(id, sf, em, lim, rg, t1, sv) == [id |-> id, sf |-> sf, em |-> em, lim |-> lim, rg |-> rg, t1 |-> t1, sv |-> sv]

(* quick: a plain step-wise ensemble, and one with everything on: dump every generation, monitors, strict ranges, *)
(* generation limit 2, member 1 stopped by the user's termination at generation 1 (members out of lock-step)       *)
QSettings == {S(1, 0, FALSE, None, FALSE, None, FALSE), S(2, 1, TRUE, 2, TRUE, 1, FALSE)}
(* thorough: additionally a limit without dump, dump every 2nd generation, ranges without limit *)
TSettings == {S(3, 0, FALSE, 1, TRUE, None, FALSE), S(4, 2, FALSE, 2, FALSE, 1, FALSE), S(5, 0, TRUE, None, TRUE, None, FALSE)}
PSettings == {S(1, 0, FALSE, None, FALSE, None, FALSE)}
RSettings == {S(5, 0, FALSE, None, TRUE, None, FALSE)}
(* quick runs only: the reference (instance 1) stays unstarted -- the original (instance 2) is itself an uninterrupted *)
(* run every restored / copied instance is compared with; the thorough runs let all instances interleave freely      *)
RefIdle == inst[1].eg = -1
(* ... and dill.dumps (slot D: SaveSolver without registering the file) is left to the thorough runs *)
QuickBound == RefIdle /\ ~store["D"].full
XSettings == {S(2, 1, TRUE, 2, TRUE, 1, FALSE)}
=============================================================================
