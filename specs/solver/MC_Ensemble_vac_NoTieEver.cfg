SPECIFICATION Spec
CONSTANTS
  N = 3
  Energies <- E2
  Ks <- K1
  MaxSteps = 2
  Modes <- Both
  Scan = "index"
  MaxCalls = 1
INVARIANT NoTieEver
