\* deep random behaviours: Step 0 + four generations, at every Step three random rows over the full alphabet
SPECIFICATION Spec
CONSTANTS
  NP = 4
  K = 3
  Kinds = {"DE", "DE2"}
  Tables <- TTables
  Pops <- TPops
  Rules <- FullRules
  Rows <- RandRows
  G = 4
INVARIANT EnergyFaithful
INVARIANT BestIsMinAccepted
PROPERTY PopENonIncreasing
PROPERTY ReplacedOnlyByStrictlyLower
PROPERTY Greedy
PROPERTY BestMonotone
INVARIANT Emit
