--------------------------- MODULE Trace_Ensemble ---------------------------
(***************************************************************************)
(* Trace validation (code -> spec) for Ensemble.tla.                       *)
(*                                                                         *)
(* IOEnv.TRACE_FILE is a JSON array of traces; a trace is the record of    *)
(* ONE real Lattice/Buckshot/Sparsity run made by harness/check_C09.py:    *)
(*   New      kind, api ("class" or "wrapper"), mode, n = members          *)
(*            requested (product of the bins / number of points), dim,     *)
(*            strict (strict ranges set), limG/limE (-1 = none), inst (the *)
(*            nested solver is a configured instance, not a class), for    *)
(*            lattices the bin layout and the bounds in units of 1/16      *)
(*   Begin    the ensemble's map was called with `items` work items        *)
(*   Item     work item i completed (events are in COMPLETION order); m is *)
(*            the member summary read from the returned solver, `calls`    *)
(*            the cost calls the harness saw this member make meanwhile    *)
(*   Collect  Solve()/Step()/wrapper returned: the ensemble's report and   *)
(*            the member summaries read back from the ensemble             *)
(* Energies are order-preserving ranks (inf = INF), points are interned    *)
(* ids; flags about user callables (inside the box, fixed point of the     *)
(* constraints, penalised energy) are computed by the harness from its own *)
(* pristine copies and its own call log, never from mystic.                *)
(*                                                                         *)
(* Every event must be the corresponding Ensemble action (ApplyItem /      *)
(* Collect are the model-checked ones) and every named clause must hold;   *)
(* the Ensemble invariants are checked in every state of every trace.      *)
(***************************************************************************)
EXTENDS Ensemble, Json, IOUtils, TLCExt

G == INSTANCE Grid WITH Dims <- {1}, MaxBins <- 1, BinChoices <- {1}, Bounds <- {}, Scales <- {0},
                       dim <- 0, nbins <- << >>, lo <- << >>, hi <- << >>, sc <- 0

Traces == JsonDeserialize(IOEnv.TRACE_FILE)

VARIABLES tid, l
tvars == <<mode, traj, mem, res, order, best, ens, real, pc, hist, obs, tid, l>>

Tr == Traces[tid]
E  == Tr[l]
Cfg == Tr[1]
Diagnose == "DIAG" \in DOMAIN IOEnv

Probe(cl) == Diagnose => PrintT(<<"@@", ToJson([probe |-> tid, at |-> l,
                                   failing |-> {cl[i][1] : i \in {j \in DOMAIN cl : ~cl[j][2]}}])>>)

Proj(m) == [start |-> m.start, bestE |-> m.bestE, bestX |-> m.bestX, evals |-> m.evals, gens |-> m.gens, fin |-> m.fin]

IsEvent(name) == l <= Len(Tr) /\ E.ev = name /\ l' = l + 1 /\ UNCHANGED tid

TraceInit ==
  /\ tid \in 1..Len(Traces)
  /\ l = 2
  /\ Traces[tid][1].ev = "New"
  /\ mode = Traces[tid][1].mode
  /\ traj = << >>
  /\ mem = [i \in 1..Traces[tid][1].n |-> [start |-> None, bestE |-> INF, bestX |-> None, evals |-> 0, gens |-> 0, fin |-> FALSE]]
  /\ res = mem /\ order = << >> /\ best = None
  /\ ens = [bestE |-> INF, bestX |-> None, evals |-> 0, total |-> 0]
  /\ real = 0 /\ pc = "idle" /\ hist = << >> /\ obs = << >>

TraceBegin ==
  /\ IsEvent("Begin")
  /\ LET cl == << <<"C09:ensemble-call-while-a-map-is-running", pc \in {"idle", "stopped"}>>,
                  <<"C09:step-after-all-members-terminated-still-maps", pc = "stopped" => mode = "solve">>,
                  <<"C09:member-count-equals-request", E.items = Cfg.n>> >>
     IN Probe(cl) /\ AllTrue(cl)
  /\ Begin

Inst == "inst" \in DOMAIN Cfg /\ Cfg.inst

(* the member of work item i as recorded, judged against the ensemble's configuration *)
MemberClauses(i, m) == <<
  \* (a configured instance counts the calls of the objective it was handed -- the ensemble's DECORATED cost, whose
  \*  out-of-range branch answers inf without calling the user's function; the clause is named apart for that layout)
  <<IF Inst /\ Cfg.strict THEN "C09:member-counter-equals-its-real-calls[configured-instance+strict-ranges]"
                          ELSE "C09:member-counter-equals-its-real-calls", m.evals = m.real>>,
  <<"C09:member-started-inside-the-strict-ranges", Cfg.strict => \A d \in DOMAIN m.scls : m.scls[d] \in {1, 2, 3}>>,
  <<"C09:lattice-member-starts-at-centre-of-its-own-cell",
        (Cfg.kind = "lattice" /\ Cfg.exact) => m.s16 = G!LatticePts(Cfg.lo16, Cfg.hi16, Cfg.layout)[i]>>,
  <<"C09:member-first-evaluates-its-starting-point", m.first # 0>>,
  \* a configured INSTANCE (Cfg.inst) is not re-configured: the settings reach it inside the objective it is handed,
  \* so only the observable half of each clause applies (where the cost was called, which energy was reported)
  <<"C09:member-subject-to-ensemble-bounds", (Inst \/ m.cfgS) /\ (Cfg.strict => m.oob = 0)>>,
  <<"C09:member-subject-to-ensemble-constraints", (Inst \/ m.cfgC) /\ m.cviol = 0>>,
  <<"C09:member-subject-to-ensemble-penalty", (Inst \/ m.cfgP) /\ m.penok>>,
  <<"C09:member-subject-to-ensemble-limits",
        /\ m.cfgL
        /\ (Cfg.limG # -1 => m.gens <= Cfg.limG + 1)      \* gens = steps taken = generations + 1
        /\ (m.fin => m.stopok)>>,
  <<"C09:member-subject-to-ensemble-termination", m.cfgT /\ (Cfg.termG # -1 => m.gens <= Cfg.termG)>> >>

TraceItem ==
  /\ IsEvent("Item")
  /\ LET i == E.i
         ok == i \in 1..Len(mem) /\ i \notin Range(order)
         old == IF ok THEN (IF mem[i].start = None THEN [mem[i] EXCEPT !.start = E.m.start] ELSE mem[i]) ELSE Proj(E.m)
         new == Proj(E.m)
         cl == << <<"C09:work-item-index-valid-and-completed-once", pc = "map" /\ ok>> >>
               \o ProgressClauses(old, new, mode) \o MemberClauses(i, E.m)
     IN /\ Probe(cl)
        /\ AllTrue(cl)
        /\ ApplyItem(i, new, E.calls)

TraceCollect ==
  /\ IsEvent("Collect")
  /\ LET n == Len(mem)
         done == pc = "map" /\ Len(order) = n
         post == CollectF(res, best, Ids(n))
         r == E.ens
         cl == << <<"C09:map-returned-before-every-work-item-completed", done>>,
                  <<"C09:member-count-equals-request", r.nmem = Cfg.n /\ Len(E.members) = Cfg.n>>,
                  <<"C09:lattice-layout-product-is-request", Cfg.kind = "lattice" => G!Prod(Cfg.layout) = Cfg.n>>,
                  <<"C09:members-are-the-map-results-by-index",
                        \A i \in 1..n : i <= Len(E.members) => Proj(E.members[i]) = res[i]>>,
                  <<"C09:best-energy-is-min-of-members", r.bestE = MinE(res)>>,
                  <<"C09:best-solution-belongs-to-a-minimal-member",
                        \E i \in 1..n : res[i].bestE = MinE(res) /\ res[i].bestX = r.bestX>>,
                  <<"C09:tie-rule-last-minimal-member",
                        r.bestX = post.ens.bestX /\ (r.bestidx # 0 => r.bestidx = post.best)>>,
                  <<"C09:total-equals-sum-of-members", r.total = post.ens.total>>,
                  <<"C09:total-equals-real-calls", r.total = r.real /\ r.real = real>>,
                  <<"C09:reported-member-lists-are-the-members",
                        /\ (Len(r.allE) > 0 => r.allE = [i \in 1..n |-> res[i].bestE])
                        /\ (Len(r.allEv) > 0 => r.allEv = [i \in 1..n |-> res[i].evals])>>,
                  <<"C09:solve-returns-with-all-members-terminated", mode = "solve" => (AllFin(res) /\ r.stopped)>>,
                  <<"C09:step-mode-stops-exactly-when-all-members-terminated", mode = "step" => (r.stopped <=> AllFin(res))>> >>
     IN /\ Probe(cl)
        /\ AllTrue(cl)
  /\ Collect

TraceNext == TraceBegin \/ TraceItem \/ TraceCollect
TraceSpec == TraceInit /\ [][TraceNext]_tvars

-----------------------------------------------------------------------------
(* acceptance bookkeeping: register 1 = set of accepted trace ids,          *)
(* register 2 = [tid -> longest matched prefix] (diagnosis runs only)       *)
ASSUME TLCSet(1, {})
ASSUME TLCSet(2, [i \in 1..Len(Traces) |-> 0])

Accept ==
  /\ (l = Len(Tr) + 1) => TLCSet(1, TLCGet(1) \cup {tid})
  /\ Diagnose => (TLCGet(2)[tid] < l => TLCSet(2, [TLCGet(2) EXCEPT ![tid] = l]))

AllAccepted ==
  /\ PrintT(<<"@@", ToJson([accepted |-> Cardinality(TLCGet(1)), total |-> Len(Traces),
                            rejected |-> (1..Len(Traces)) \ TLCGet(1),
                            prefix |-> IF Diagnose THEN TLCGet(2) ELSE << >>])>>)
  /\ TRUE
=============================================================================
