SPECIFICATION Spec
CONSTANTS
  Starts <- QStarts
  Dim <- Dims
  Depth <- QDepth
  Skip <- QSkip
  ExplicitDefaults = TRUE
  FreeRanges = FALSE
  Rich = FALSE
  AsIs = FALSE
INVARIANT KeywordOrderIndependent
INVARIANT ExplicitDefaultIsDefault
INVARIANT WellFormed
INVARIANT OptionalIffGiven
INVARIANT DefaultsAsDocumented
INVARIANT StepIsASetting
INVARIANT ReadingsDifferOnlyInStep
PROPERTY Locality
