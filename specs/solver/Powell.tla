------------------------------- MODULE Powell -------------------------------
(***************************************************************************)
(* The OUTER LOOP of Powell's direction-set method as scipy.optimize.      *)
(* fmin_powell (vendored in mystic/_scipy060optimize.py) performs it and   *)
(* as mystic.scipy_optimize.PowellDirectionalSolver / fmin_powell claim to *)
(* reproduce it, at the level of ids and order-preserving ranks:           *)
(*                                                                         *)
(*   fval = f(x0); x1 = x0; direc = I (or the given direction set)         *)
(*   repeat                                                                *)
(*     fx = fval; bigind = 0; delta = 0                                    *)
(*     for i = 0..N-1:   fx2 = fval                                        *)
(*         (fval, x, _) = linesearch(x, direc[i])                          *)
(*         if fx2 - fval > delta: delta = fx2 - fval; bigind = i           *)
(*     iter += 1                                                           *)
(*     stop if 2(fx - fval) <= ftol(|fx| + |fval|) + 1e-20                 *)
(*          or funcalls >= maxfun or iter >= maxiter                       *)
(*     direc1 = x - x1;  x2 = 2x - x1;  x1 = x;  fx2 = f(x2)               *)
(*     if fx > fx2:                                                        *)
(*         t = 2(fx + fx2 - 2 fval)(fx - fval - delta)^2 - delta(fx-fx2)^2 *)
(*         if t < 0:  (fval, x, direc1) = linesearch(x, direc1)            *)
(*                    direc[bigind] = direc[N-1];  direc[N-1] = direc1     *)
(*                                                                         *)
(* The line search (Brent) is the GIVEN one: an uninterpreted step that    *)
(* returns an energy, a point and a (rescaled) direction.  Points and      *)
(* directions are opaque ids, energies are ranks; a decrease fx2 - fval is *)
(* a rank in its own order-preserving space in which 0 is the rank of 0.0  *)
(* and NaN stands for the undefined inf - inf (never greater than delta).  *)
(* The float test `t < 0` is an oracle boolean (chosen by TLC in the       *)
(* abstract machine, recomputed from the documented formula by the harness *)
(* in recorded runs).                                                      *)
(*                                                                         *)
(* One state variable s, a record:                                         *)
(*   n dimension; pc "new" / "loop" (direction loop comes next) / "extra"  *)
(*   (stop check passed or not, extrapolation comes next);                 *)
(*   x, fval current point and energy; direc the direction set (sequence   *)
(*   of N ids); x1 the point the last direction loop started from; fx the  *)
(*   energy the last loop started from; bigind (0-based) / delta the       *)
(*   direction of largest decrease in the last loop and that decrease;     *)
(*   iters, evals the counters; maxiter, maxfun the limits; stopped;       *)
(*   ehlen / ehlast / ehprev length and last two entries of the solver's   *)
(*   energy history (entry k = energy after extrapolation k, the last one  *)
(*   the energy after the last loop); decs (ghost) the decreases of the    *)
(*   last loop; rep (ghost) what the last extrapolation step did.          *)
(*                                                                         *)
(* LoopF / ExtraF are the single definitions used both by the abstract     *)
(* machine below (MC_Powell) and by Trace_Powell.tla.                      *)
(***************************************************************************)
EXTENDS Integers, Sequences, FiniteSets, TLC

VARIABLE s

NaN == -1000000
Gt(d, dl) == d # NaN /\ d > dl

Init0(n, maxiter, maxfun) ==
  [n |-> n, pc |-> "new", x |-> -1, fval |-> -1, direc |-> <<>>, x1 |-> -1, fx |-> -1, bigind |-> 0, delta |-> 0,
   iters |-> 0, evals |-> 0, maxiter |-> maxiter, maxfun |-> maxfun, stopped |-> FALSE,
   ehlen |-> 0, ehlast |-> -1, ehprev |-> -1, decs |-> <<>>, rep |-> "none"]

StopRule(t, ncog) == ncog \/ t.evals >= t.maxfun \/ t.iters >= t.maxiter

(* f(x0) is evaluated; the direction set is the configured one *)
StartF(t, p0, f0, dirs) ==
  LET u == [t EXCEPT !.pc = "loop", !.x = p0, !.fval = f0, !.direc = dirs, !.x1 = p0, !.fx = f0,
                     !.iters = 0, !.evals = 1, !.ehlen = 1, !.ehlast = f0]
  IN [u EXCEPT !.stopped = StopRule(u, FALSE)]

(* A line search is the record [din, pin, fb, fa, pout, dout, d, k]: direction and point it was given, energy before
   and after, point and rescaled direction it returned, the decrease fb - fa as a decrease-rank, objective calls. *)
RECURSIVE BigOf(_, _)
BigOf(ds, i) ==            \* <<delta, bigind>> after the first i line searches of a loop
  IF i = 0 THEN <<0, 0>>
  ELSE LET b == BigOf(ds, i - 1) IN IF Gt(ds[i], b[1]) THEN <<ds[i], i - 1>> ELSE b

RECURSIVE SumK(_, _)
SumK(ls, i) == IF i = 0 THEN 0 ELSE SumK(ls, i - 1) + ls[i].k

(* the N line searches of a loop are chained: direction i of the set, from where the previous one ended *)
ChainOK(t, ls) ==
  /\ Len(ls) = t.n
  /\ \A i \in 1..Len(ls) :
       /\ i <= Len(t.direc) /\ ls[i].din = t.direc[i]
       /\ ls[i].pin = (IF i = 1 THEN t.x ELSE ls[i - 1].pout)
       /\ ls[i].fb = (IF i = 1 THEN t.fval ELSE ls[i - 1].fa)
       /\ ls[i].k >= 1

LoopF(t, ls, ncog) ==
  LET N == Len(ls)
      ds == [i \in 1..N |-> ls[i].d]
      b == BigOf(ds, N)
      u == [t EXCEPT !.pc = "extra", !.fx = t.fval, !.x = ls[N].pout, !.fval = ls[N].fa,
                     !.delta = b[1], !.bigind = b[2], !.iters = t.iters + 1, !.evals = t.evals + SumK(ls, N),
                     !.ehlen = t.ehlen + 1, !.ehprev = t.ehlast, !.ehlast = ls[N].fa, !.decs = ds, !.rep = "none"]
  IN [u EXCEPT !.stopped = StopRule(u, ncog)]

Replace(direc, bigind, new) == [direc EXCEPT ![bigind + 1] = direc[Len(direc)], ![Len(direc)] = new]

(* does the extrapolation step search along x - x1 and replace a direction? *)
Extends(t, f2, tneg) == t.fx > f2 /\ tneg

(* the extrapolated point (energy f2) is evaluated; x1 becomes x; possibly one more line search e from x *)
ExtraOK(t, f2, tneg, els) ==
  IF Extends(t, f2, tneg)
  THEN Len(els) = 1 /\ els[1].pin = t.x /\ els[1].fb = t.fval /\ els[1].k >= 1
  ELSE Len(els) = 0

ExtraF(t, f2, tneg, els) ==
  IF Extends(t, f2, tneg) /\ Len(els) >= 1
  THEN [t EXCEPT !.pc = "loop", !.x1 = t.x, !.x = els[1].pout, !.fval = els[1].fa,
                 !.direc = Replace(t.direc, t.bigind, els[1].dout),
                 !.evals = t.evals + 1 + els[1].k, !.ehlast = els[1].fa, !.rep = "replaced"]
  ELSE [t EXCEPT !.pc = "loop", !.x1 = t.x, !.evals = t.evals + 1, !.rep = "kept"]

(* --------------------------------------------------------------- abstract machine *)
CONSTANTS Dims, Ranks, MaxIter       \* used by the model-checking configuration only

Init == \E n \in Dims : s = Init0(n, MaxIter, 1000000)

Start == /\ s.pc = "new"
         /\ \E f0 \in Ranks : s' = StartF(s, 0, f0, [i \in 1..s.n |-> i])

(* TLC chooses the outcome of every line search: here energies are small integers, the decrease is their difference,
   and the given line search never returns a worse point than it started from (NonIncreasing) *)
LSRec(din, pin, fb, fa, pout, dout) == [din |-> din, pin |-> pin, fb |-> fb, fa |-> fa, pout |-> pout, dout |-> dout,
                                        d |-> fb - fa, k |-> 1]
Below(e) == {r \in Ranks : r <= e}

RECURSIVE Chains(_, _, _, _)
Chains(t, i, p, e) ==      \* all sequences of line-search records for directions i..n starting at point p, energy e
  IF i > t.n THEN {<<>>}
  ELSE UNION {{<<LSRec(t.direc[i], p, e, fa, 100 * (t.iters + 1) + i, 1000 + 100 * (t.iters + 1) + i)>> \o rest
                 : rest \in Chains(t, i + 1, 100 * (t.iters + 1) + i, fa)} : fa \in Below(e)}

Loop == /\ s.pc = "loop" /\ ~s.stopped
        /\ \E ls \in Chains(s, 1, s.x, s.fval), ncog \in BOOLEAN :
             /\ ChainOK(s, ls)
             /\ s' = LoopF(s, ls, ncog)

Extra == /\ s.pc = "extra" /\ ~s.stopped
         /\ \E f2 \in Ranks, tneg \in BOOLEAN :
              IF Extends(s, f2, tneg)
              THEN \E fa \in Below(s.fval) :
                     LET e == LSRec(2000 + s.iters, s.x, s.fval, fa, 100 * (s.iters + 1) + 50, 3000 + s.iters) IN
                     ExtraOK(s, f2, tneg, <<e>>) /\ s' = ExtraF(s, f2, tneg, <<e>>)
              ELSE ExtraOK(s, f2, tneg, <<>>) /\ s' = ExtraF(s, f2, tneg, <<>>)

Next == Start \/ Loop \/ Extra
Spec == Init /\ [][Next]_s

(* --------------------------------------------------------------- design properties *)
(* the direction set always has N directions, and (ids being fresh) no direction twice *)
DirecIsN == s.pc # "new" => Len(s.direc) = s.n
DirecDistinct == \A i, j \in 1..Len(s.direc) : s.direc[i] = s.direc[j] => i = j

(* delta is the largest decrease of the last loop (0 if nothing decreased), bigind the FIRST direction attaining it *)
DeltaIsLargestDecrease ==
  s.pc = "extra" =>
    LET ds == s.decs IN
    /\ s.delta >= 0
    /\ \A i \in 1..Len(ds) : ~Gt(ds[i], s.delta)
    /\ (s.delta = 0 => s.bigind = 0)
    /\ (s.delta > 0 => /\ s.bigind + 1 \in 1..Len(ds)
                       /\ ds[s.bigind + 1] = s.delta
                       /\ \A i \in 1..s.bigind : ~(ds[i] # NaN /\ ds[i] >= s.delta))

(* given a non-increasing line search the energy never increases, in particular across an iteration *)
EnergyNeverIncreases == [][s.pc # "new" => (s'.fval <= s.fval /\ (s'.pc = "extra" => s'.fval <= s'.fx))]_s
FxIsLoopStartEnergy == [][s'.pc = "extra" => s'.fx = s.fval]_s

(* the extrapolation step either keeps the direction set or discards exactly the direction of largest decrease:
   direc[bigind] := direc[N]; direc[N] := the new direction -- every other direction stays where it was *)
ReplacementDiscardsLargest ==
  [][s.pc = "extra" /\ s'.pc = "loop" =>
       IF s'.rep = "replaced"
       THEN LET N == Len(s.direc) IN
            /\ Len(s'.direc) = N
            /\ \A i \in 1..(N - 1) : s'.direc[i] = (IF i = s.bigind + 1 THEN s.direc[N] ELSE s.direc[i])
            /\ \A i \in 1..N : s'.direc[N] # s.direc[i]
            /\ {s'.direc[i] : i \in 1..(N - 1)} = {s.direc[i] : i \in 1..N} \ {s.direc[s.bigind + 1]}
       ELSE s'.direc = s.direc]_s
X1IsWhereTheLoopStarted == [][s.pc = "extra" /\ s'.pc = "loop" => s'.x1 = s.x]_s
LoopKeepsDirections == [][s.pc = "loop" => s'.direc = s.direc /\ s'.x1 = s.x1]_s
CountersAdvance == [][/\ s'.evals > s.evals
                      /\ s'.iters = s.iters + (IF s.pc = "loop" THEN 1 ELSE 0)]_s
NoStepAfterStop == [][~s.stopped]_s
HistoryFollows == s.pc # "new" => /\ s.ehlen = s.iters + 1
                                  /\ s.ehlast = s.fval
                                  /\ (s.pc = "extra" => s.ehprev = s.fx)

(* vacuity probes (must be VIOLATED) *)
NeverReplaced == s.rep # "replaced"
NeverKept == s.rep # "kept"
NeverBigindLast == ~(s.rep = "replaced" /\ s.bigind + 1 = s.n /\ s.n > 1)
NeverDeltaZero == ~(s.pc = "extra" /\ s.delta = 0)
=============================================================================
