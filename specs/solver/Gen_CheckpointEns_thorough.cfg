SPECIFICATION GSpec
CONSTANTS
  EKinds <- GenKinds
  Settings <- GenSettings
  NMem = 3
  MaxGen <- GenN
  MaxRefuse = 2
  MaxInst = 4
  MaxCells = 64
  MaxObjs = 12
  Design = "ok"
  MaxOps = 100000
  Tier = "thorough"
INVARIANT TypeOK
INVARIANT ResumeEquivalence
INVARIANT CopyCounts
INVARIANT TotalIsSum
INVARIANT LabelsSound
INVARIANT ClaimsMade
INVARIANT OriginalOnTrack
INVARIANT NothingClaimedUnrestored
INVARIANT Emit
PROPERTY Independence
