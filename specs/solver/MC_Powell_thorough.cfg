SPECIFICATION Spec
CONSTANTS Dims = {1, 2, 3}
  Ranks = {0, 1, 2, 3, 4}
  MaxIter = 3
INVARIANT DirecIsN
INVARIANT DirecDistinct
INVARIANT DeltaIsLargestDecrease
INVARIANT HistoryFollows
PROPERTY EnergyNeverIncreases
PROPERTY FxIsLoopStartEnergy
PROPERTY ReplacementDiscardsLargest
PROPERTY X1IsWhereTheLoopStarted
PROPERTY LoopKeepsDirections
PROPERTY CountersAdvance
PROPERTY NoStepAfterStop
