------------------------------ MODULE Trace_NM ------------------------------
(***************************************************************************)
(* Trace validation (code -> spec) of Nelder-Mead runs on ARBITRARY float  *)
(* problems against the decision tree of NM.tla.                           *)
(*                                                                         *)
(* IOEnv.TRACE_FILE is a JSON array of traces recorded by                  *)
(* harness/c08_nmpw.py from the REAL NelderMeadSimplexSolver (driven Step  *)
(* by Step, through Solve() or through fmin).  A trace is                  *)
(*   [n, maxiter, maxfun, ev]   ev = one event per _Step of the solver     *)
(* and an event is the uniform record                                      *)
(*   t      "start" | "build" | "iter" | "ret"                             *)
(*   pre    the simplex the solver held before the step is, bit for bit,   *)
(*          the one it held after the previous step                        *)
(*   calls  the objective calls of the step in program order, each         *)
(*          [labs, p, f]: p = id of the evaluated point (interned exact    *)
(*          float tuple), f = order-preserving rank of the returned energy *)
(*          (ties preserved, one rank space per run), labs = the names of  *)
(*          the DOCUMENTED points of this step the evaluated point equals  *)
(*          bit for bit -- recomputed by the harness from the pre-state    *)
(*          simplex with the published coefficients (rho 1, chi 2, psi     *)
(*          1/2, sigma 1/2, or the Gao-Han adaptive ones), never taken     *)
(*          from the solver; empty = none of them ('?')                    *)
(*   sorts  <<p1, p2, pS>>: what the GIVEN sort (numpy.argsort, the call   *)
(*          scipy's fmin makes; it is not stable) returns on the three     *)
(*          candidate pre-sort energy arrangements "call 1 replaces the    *)
(*          worst", "call 2 replaces the worst", "best + calls 3.. (shrink)*)
(*          / start + calls (build)".  WHICH arrangement applies is        *)
(*          decided here, by the tree, not by the harness.                 *)
(*   s2,f2  the simplex (ids, ranks) the solver holds after the step       *)
(*   it,ev  the solver's iteration and evaluation counters after the step  *)
(*   crt    the CandidateRelativeTolerance verdict recomputed by the       *)
(*          harness from the post-state floats with the documented formula *)
(*   stop   "" | "crt" | "limit": what the solver's Step returned          *)
(*   warn   (ret only) fmin's warnflag, -1 when the run was not fmin       *)
(*                                                                         *)
(* An "iter" event is accepted iff it is EXACTLY ONE path of Tree():       *)
(* first call R; fR < f[1] -> second call E, accept E iff fE < fR else R;  *)
(* f[1] <= fR < f[V-1] -> accept R, one call; fR < f[V] -> OC, accept iff  *)
(* fOC <= fR; else IC, accept iff fIC < f[V]; a rejected contraction       *)
(* shrinks: calls 3..V+1 are S_1..S_N in order; the accepted point         *)
(* replaces the worst vertex (or all but the best are replaced), the given *)
(* sort orders the result; the counters advance by 1 and by the number of  *)
(* calls the path has; the run stops exactly when fmin's stop rule says.   *)
(* Each clause has a name; a diagnosis run (IOEnv.DIAG) prints the names   *)
(* of the false ones.  The design properties of NM.tla are checked in      *)
(* every recorded state / step as well.                                    *)
(***************************************************************************)
EXTENDS NM, Json, IOUtils, TLCExt

Traces == JsonDeserialize(IOEnv.TRACE_FILE)

VARIABLES tid, l
tvars == <<n, phase, sim, fsim, iters, evals, br, stop, tid, l>>

T == Traces[tid]
E == T.ev[l]
More == l <= Len(T.ev)
Diagnose == "DIAG" \in DOMAIN IOEnv

AllTrue(cl) == \A i \in DOMAIN cl : cl[i][2]
Probe(cl) == Diagnose => PrintT(<<"@@", ToJson([probe |-> tid, at |-> l,
                                   failing |-> {cl[i][1] : i \in {j \in DOMAIN cl : ~cl[j][2]}}])>>)

IsPerm(p, V) == /\ Len(p) = V
                /\ \A i \in 1..V : p[i] \in 1..V
                /\ \A i, j \in 1..V : p[i] = p[j] => i = j
NonDecreasing(f) == \A i \in 1..(Len(f) - 1) : f[i] <= f[i + 1]
(* the pairs arranged by the given sort permutation (total: empty when the permutation is unusable) *)
Sorted1(pairs, p) == IF IsPerm(p, Len(pairs)) THEN [i \in 1..Len(pairs) |-> pairs[p[i]][1]] ELSE <<>>
Sorted2(pairs, p) == IF IsPerm(p, Len(pairs)) THEN [i \in 1..Len(pairs) |-> pairs[p[i]][2]] ELSE <<>>

Go(s2, f2, it2, ev2, b, why) ==
  /\ sim' = s2 /\ fsim' = f2 /\ iters' = it2 /\ evals' = ev2 /\ br' = b /\ stop' = why
  /\ l' = l + 1 /\ UNCHANGED <<n, tid>>

TraceInit ==
  /\ tid \in 1..Len(Traces)
  /\ l = 1
  /\ n = Traces[tid].n /\ phase = "new" /\ sim = <<>> /\ fsim = <<>> /\ iters = 0 /\ evals = 0
  /\ br = "none" /\ stop = ""

(* Step #1: the start point is evaluated *)
TStart ==
  /\ More /\ E.t = "start"
  /\ LET c == At(E.calls, 1)
         why == StopWhy(0, 1, FALSE, T.maxiter, T.maxfun)
         cl == << <<"start:not-the-first-step", phase = "new">>,
                  <<"start:exactly-one-call", Len(E.calls) = 1>>,
                  <<"start:evaluated-point-is-x0", Is(c, "X0", 0)>>,
                  <<"start:vertex-0-and-energy", E.s2 = <<c.p>> /\ E.f2 = <<c.f>> >>,
                  <<"start:iteration-counter", E.it = 0>>,
                  <<"start:evaluation-counter", E.ev = 1>>,
                  <<"start:stop-rule", E.stop = why>> >>
     IN /\ Probe(cl) /\ AllTrue(cl)
        /\ phase' = "start" /\ Go(<<c.p>>, <<c.f>>, 0, 1, "start", why)

(* Step #2: the initial simplex x0 + one scaled coordinate each, N calls in order, sorted *)
TBuild ==
  /\ More /\ E.t = "build"
  /\ LET V == n + 1
         pairs == [i \in 1..V |-> IF i = 1 THEN <<IF sim = <<>> THEN -1 ELSE sim[1], IF fsim = <<>> THEN -1 ELSE fsim[1]>>
                                  ELSE <<At(E.calls, i - 1).p, At(E.calls, i - 1).f>>]
         perm == E.sorts[3]
         s2 == Sorted1(pairs, perm)
         f2 == Sorted2(pairs, perm)
         why == StopWhy(1, evals + n, E.crt, T.maxiter, T.maxfun)
         cl == << <<"build:not-the-second-step", phase = "start" /\ stop = "">>,
                  <<"build:pre-state-is-previous-post-state", E.pre>>,
                  <<"build:N-calls", Len(E.calls) = n>>,
                  <<"build:k-th-call-is-x0-with-coordinate-k-scaled", \A k \in 1..n : Is(At(E.calls, k), "I", k)>>,
                  <<"build:given-sort-is-a-sort", IsPerm(perm, V) /\ NonDecreasing(f2)>>,
                  <<"build:simplex-is-x0-plus-the-N-points-sorted", s2 = E.s2 /\ f2 = E.f2>>,
                  <<"build:iteration-counter", E.it = 1>>,
                  <<"build:evaluation-counter", E.ev = evals + n>>,
                  <<"build:stop-rule", E.stop = why>> >>
     IN /\ Probe(cl) /\ AllTrue(cl)
        /\ Arranged(pairs, s2, f2)
        /\ phase' = "run" /\ Go(s2, f2, 1, evals + n, "build", why)

(* every later step: one Nelder-Mead iteration = one path of the decision tree *)
TIter ==
  /\ More /\ E.t = "iter"
  /\ LET V == n + 1
         ok == phase = "run" /\ stop = ""
         t == Tree(IF ok THEN sim ELSE [i \in 1..V |-> -1], IF ok THEN fsim ELSE [i \in 1..V |-> -1], E.calls)
         k == IF t.br = "shrink" THEN 3 ELSE IF t.br \in {"expand", "contract-out", "contract-in"} THEN 2 ELSE 1
         perm == E.sorts[k]
         s2 == Sorted1(t.pairs, perm)
         f2 == Sorted2(t.pairs, perm)
         it2 == iters + 1
         ev2 == evals + Len(E.calls)
         why == StopWhy(it2, ev2, E.crt, T.maxiter, T.maxfun)
         cl == << <<"iter:iteration-before-the-simplex-exists-or-after-the-stop", ok>>,
                  <<"iter:pre-state-is-previous-post-state", E.pre>>,
                  <<"iter:first-call-is-the-reflection-point", t.first>>,
                  <<"iter:second-call-is-the-point-the-comparisons-demand", t.second>>,
                  <<"iter:number-of-calls-follows-from-the-path", t.count>>,
                  <<"iter:shrink-evaluates-S1..SN-in-order", t.shrunk>>,
                  <<"iter:given-sort-is-a-sort", IsPerm(perm, V) /\ NonDecreasing(f2)>>,
                  <<"iter:next-simplex-is-the-tree's-(accepted-point-replaces-worst|shrink)-sorted", s2 = E.s2 /\ f2 = E.f2>>,
                  <<"iter:iteration-counter", E.it = it2>>,
                  <<"iter:evaluation-counter", E.ev = ev2>>,
                  <<"iter:stop-rule", E.stop = why>> >>
     IN /\ Probe(cl) /\ AllTrue(cl)
        /\ TreeOK(t) /\ Arranged(t.pairs, s2, f2)
        /\ phase' = "run" /\ Go(s2, f2, it2, ev2, t.br, why)

(* what the run reports: best vertex, its energy, the counters (fmin: xopt, fopt, iter, funcalls, warnflag) *)
TRet ==
  /\ More /\ E.t = "ret"
  /\ LET warn == IF evals >= T.maxfun THEN 1 ELSE IF iters >= T.maxiter THEN 2 ELSE 0
         cl == << <<"ret:returned-before-the-stop-rule-held", stop # "" /\ phase = "run">>,
                  <<"ret:minimizer-is-the-best-vertex", phase = "run" => E.s2 = <<sim[1]>> >>,
                  <<"ret:minimum-is-its-energy", phase = "run" => E.f2 = <<fsim[1]>> >>,
                  <<"ret:iteration-count", E.it = iters>>,
                  <<"ret:evaluation-count", E.ev = evals>>,
                  <<"ret:warnflag", E.warn # -1 => E.warn = warn>> >>
     IN /\ Probe(cl) /\ AllTrue(cl)
        /\ phase' = "done" /\ Go(sim, fsim, iters, evals, br, stop)

TraceNext == TStart \/ TBuild \/ TIter \/ TRet
TraceSpec == TraceInit /\ [][TraceNext]_tvars

-----------------------------------------------------------------------------
(* acceptance bookkeeping: register 1 = accepted trace ids, register 2 = longest matched prefix (diagnosis),
   registers 3.. = how often each branch of the tree was taken in accepted steps (coverage of the binding) *)
Branches == {"none", "start", "build", "reflect", "expand", "contract-out", "contract-in", "shrink"}
ASSUME TLCSet(1, {})
ASSUME TLCSet(2, [i \in 1..Len(Traces) |-> 0])
ASSUME TLCSet(3, [b \in Branches |-> 0])

Accept ==
  /\ (l = Len(T.ev) + 1) => TLCSet(1, TLCGet(1) \cup {tid})
  /\ Diagnose => (TLCGet(2)[tid] < l => TLCSet(2, [TLCGet(2) EXCEPT ![tid] = l]))
  /\ (phase # "done" /\ br \in Branches) => TLCSet(3, [TLCGet(3) EXCEPT ![br] = @ + 1])

AllAccepted ==
  /\ PrintT(<<"@@", ToJson([accepted |-> Cardinality(TLCGet(1)), total |-> Len(Traces),
                            rejected |-> (1..Len(Traces)) \ TLCGet(1),
                            prefix |-> IF Diagnose THEN TLCGet(2) ELSE << >>,
                            counts |-> TLCGet(3)])>>)
  /\ TRUE

(* the design properties of NM.tla, on the recorded states *)
TraceSorted == phase \in {"run", "done"} => NonDecreasing(fsim)
=============================================================================
