------------------------------- MODULE NMExact -------------------------------
(***************************************************************************)
(* The Nelder-Mead downhill simplex method of scipy.optimize.fmin          *)
(* (rho = 1, chi = 2, psi = sigma = 1/2; and the dimension-adaptive        *)
(* coefficients chi = 1+2/N, psi = 3/4-1/(2N), sigma = 1-1/N of Gao & Han),*)
(* as mystic.scipy_optimize.NelderMeadSimplexSolver / fmin claim to        *)
(* implement it -- CONCRETELY, on numbers.                                 *)
(*                                                                         *)
(* Numbers.  A coordinate is an integer v standing for the dyadic rational *)
(* v / 2^S.  Every point the algorithm forms is an exact rational; the     *)
(* behaviour is followed as long as every such point is again on the       *)
(* lattice (divisions are required to be exact) and inside the range       *)
(* |v| < XMax; otherwise the behaviour ENDS with end = "lattice" (it is a  *)
(* prefix of the real run, nothing is rounded, ever).  On these inputs     *)
(* IEEE double arithmetic is exact as well, so the real solver must agree  *)
(* with the specification BIT FOR BIT.  N is 1, 2 or 4 so that the         *)
(* centroid's division by N is exact in both worlds.                       *)
(*                                                                         *)
(* Energies.  Three objective families with integer parameters               *)
(*   "abs":  f(x) = SUM c_i * |x_i - a_i|      (unit 2^-S)                 *)
(*   "sq" :  f(x) = SUM c_i * (x_i - a_i)^2    (unit 2^-2S)                *)
(*   "w"  :  f(x) = SUM c_i * | |x_i - a_i| - 1 |   (unit 2^-S; W-shaped,  *)
(*           not convex: the only family on which shrinks occur)           *)
(* An energy is a two-limb number <<hi, lo>> = hi * 2^24 + lo, 0 <= lo <   *)
(* 2^24, in the family's unit (TLC integers are 32 bit; squares of 24-bit  *)
(* numbers are not).  Both families have plateaus / ties on the lattice.   *)
(*                                                                         *)
(* State machine.  One behaviour = one minimisation problem `prob` chosen  *)
(* in Init.  Actions, one per Step() of the real solver:                   *)
(*   Start    evaluate x0                       (generation 0, 1 call)     *)
(*   Build    the initial simplex x0 + e_k*x0_k*radius, k = 1..N, sorted   *)
(*            (generation 1, N calls)                                      *)
(*   Iterate  one Nelder-Mead iteration; the branch taken is recorded:     *)
(*            reflect / expand / contract-out / contract-in / shrink       *)
(* After every action the stop rule of fmin is evaluated: evaluation       *)
(* limit, iteration limit, CandidateRelativeTolerance(xtol, ftol)          *)
(*   max_ij |sim[i][j]-sim[1][j]| <= xtol /\ max_i |f[1]-f[i]| <= ftol.    *)
(* `hist` is the list of observations (one per action) the real solver     *)
(* must reproduce: simplex, energies, iteration and evaluation counters,   *)
(* branch, and whether/why it stopped.  It is emitted from the last state. *)
(*                                                                         *)
(* Sorting.  The published algorithm orders the vertices by energy and     *)
(* says nothing about equal energies; numpy.argsort (what scipy and mystic *)
(* call) is not stable.  The specification sorts stably and marks every    *)
(* observation whose energies are not pairwise distinct (`tie`): there,    *)
(* any energy-sorted arrangement of the same vertices is legal.            *)
(***************************************************************************)
EXTENDS Integers, Sequences, FiniteSets, TLC, Json

CONSTANTS S,          \* fraction bits of a coordinate
          Problems    \* set of problem records, see ProblemOK

VARIABLES prob, phase, sim, fsim, iters, evals, end, hist
vars == <<prob, phase, sim, fsim, iters, evals, end, hist>>

Unit == 2^S
XMax == 8 * Unit                      \* coordinates stay in (-8, 8)
H    == 12
B    == 2^H
L    == B * B                         \* limb base 2^24
Abs(v) == IF v < 0 THEN -v ELSE v

(* ------------------------------------------------------------------ energies *)
Norm(e)     == <<e[1] + (e[2] \div L), e[2] % L>>
Limbs(v)    == Norm(<<0, v>>)
EAdd(e, f)  == Norm(<<e[1] + f[1], e[2] + f[2]>>)
EMul(c, e)  == Norm(<<c * e[1], c * e[2]>>)          \* c < 128
ELess(e, f) == e[1] < f[1] \/ (e[1] = f[1] /\ e[2] < f[2])
ELeq(e, f)  == ~ELess(f, e)
EAbsDiff(e, f) == IF ELess(e, f) THEN Norm(<<f[1] - e[1], f[2] - e[2]>>)
                                 ELSE Norm(<<e[1] - f[1], e[2] - f[2]>>)
Square(d) ==                                        \* d >= 0, d < 2^27
  LET dh == d \div B   dl == d % B   m == 2 * dh * dl
  IN  Norm(<<dh * dh + (m \div B), (m % B) * B + dl * dl>>)

RECURSIVE ESum(_, _)
ESum(terms, k) == IF k = 0 THEN <<0, 0>> ELSE EAdd(ESum(terms, k - 1), terms[k])

(* the objective of problem p at point x (a sequence of scaled integers) *)
F(p, x) ==
  ESum([i \in 1..p.n |->
          LET d == Abs(x[i] - p.a[i])
          IN  EMul(p.c[i], CASE p.fam = "abs" -> Limbs(d)
                             [] p.fam = "sq"  -> Square(d)
                             [] p.fam = "w"   -> Limbs(Abs(d - Unit)))], p.n)

(* a tolerance <<num, den>> (den a power of two) in the energy unit of the family *)
ETol(p) == IF p.fam # "sq" THEN Limbs((p.ftol[1] * Unit) \div p.ftol[2])
           ELSE <<(p.ftol[1] * 2^(2 * S - 24)) \div p.ftol[2], 0>>   \* needs 2S >= 24
XTol(p) == (p.xtol[1] * Unit) \div p.xtol[2]

(* ------------------------------------------------------------- coefficients *)
(* as eighths; rho = 1 always *)
Chi8(p) == IF p.ad THEN 8 + (16 \div p.n) ELSE 16
Psi8(p) == IF p.ad THEN 6 - (4 \div p.n)  ELSE 4
Sig8(p) == IF p.ad THEN 8 - (8 \div p.n)  ELSE 4

ProblemOK(p) ==
  /\ p.n \in {1, 2, 4}
  /\ p.fam \in {"abs", "sq", "w"}
  /\ \A i \in 1..p.n : /\ p.x0[i] # 0                        \* a zero entry gets the non-dyadic offset 0.00025
                       /\ Abs(p.x0[i]) < XMax /\ Abs(p.a[i]) <= 4 * Unit
                       /\ p.c[i] \in 1..15
                       /\ (p.x0[i] * (p.r[2] + p.r[1])) % p.r[2] = 0   \* x0*(1+radius) is on the lattice
  /\ p.maxiter >= 1 /\ p.maxfun >= 2
ASSUME \A p \in Problems : ProblemOK(p)
ASSUME S \in 12..20

(* ------------------------------------------------------------------ the simplex *)
N == prob.n
V == N + 1                            \* vertices

InRange(x) == \A j \in 1..N : Abs(x[j]) < XMax

(* stable order by energy: position of vertex i among the vertices *)
Pos(f, i) == 1 + Cardinality({j \in 1..Len(f) : ELess(f[j], f[i]) \/ (f[j] = f[i] /\ j < i)})
Perm(f)   == [k \in 1..Len(f) |-> CHOOSE i \in 1..Len(f) : Pos(f, i) = k]
SortBy(f, s) == [k \in 1..Len(f) |-> s[Perm(f)[k]]]
Tied(f) == \E i, j \in 1..Len(f) : i < j /\ f[i] = f[j]

(* the stop rule *)
Conv(s, f) ==
  /\ \A i \in 2..Len(s) : \A j \in 1..Len(s[1]) : Abs(s[i][j] - s[1][j]) <= XTol(prob)
  /\ \A i \in 2..Len(f) : ELeq(EAbsDiff(f[1], f[i]), ETol(prob))
StopWhy(ph, s, f, it, ev) ==
  IF ev >= prob.maxfun THEN "maxfun"
  ELSE IF it >= prob.maxiter THEN "maxiter"
  ELSE IF ph = "run" /\ Conv(s, f) THEN "crt"
  ELSE ""

Obs(s, f, it, ev, br, why) ==
  [it |-> it, ev |-> ev, sim |-> s, f |-> f, br |-> br, tie |-> Tied(f), stop |-> why]

(* ------------------------------------------------------------------ actions *)
Init ==
  /\ prob \in Problems
  /\ phase = "new" /\ sim = <<>> /\ fsim = <<>> /\ iters = 0 /\ evals = 0 /\ end = "" /\ hist = <<>>

Commit(ph, s, f, it, ev, br) ==
  LET why == StopWhy(ph, s, f, it, ev) IN
  /\ phase' = ph /\ sim' = s /\ fsim' = f /\ iters' = it /\ evals' = ev /\ end' = why
  /\ hist' = Append(hist, Obs(s, f, it, ev, br, why))
  /\ UNCHANGED prob

(* generation 0: the objective at x0 *)
Start ==
  /\ phase = "new" /\ end = ""
  /\ Commit("start", <<prob.x0>>, <<F(prob, prob.x0)>>, 0, 1, "start")

(* generation 1: vertex k+1 = x0 with coordinate k multiplied by (1 + radius) *)
Build ==
  /\ phase = "start" /\ end = ""
  /\ LET x0 == sim[1]
         v(k) == [x0 EXCEPT ![k] = (x0[k] * (prob.r[2] + prob.r[1])) \div prob.r[2]]
         s == [i \in 1..V |-> IF i = 1 THEN x0 ELSE v(i - 1)]
         f == [i \in 1..V |-> IF i = 1 THEN fsim[1] ELSE F(prob, s[i])]
     IN  IF \A i \in 1..V : InRange(s[i])
         THEN Commit("run", SortBy(f, s), SortBy(f, f), 1, evals + N, "build")
         ELSE /\ end' = "lattice" /\ hist' = Append(hist, Obs(sim, fsim, iters, evals, "none", "lattice"))
              /\ UNCHANGED <<prob, phase, sim, fsim, iters, evals>>

(* the point (1 + k) * xbar - k * worst for k = k8 / 8, xbar the centroid of all but the worst:  *)
(*   ((8 + k8) * SUM_{i<=N} sim[i] - k8 * N * sim[V]) / (8 * N)                                 *)
RECURSIVE ColSum(_, _)
ColSum(j, k) == IF k = 0 THEN 0 ELSE ColSum(j, k - 1) + sim[k][j]
Num(k8, j)  == (8 + k8) * ColSum(j, N) - k8 * N * sim[V][j]
PtOK(k8)    == /\ \A j \in 1..N : Num(k8, j) % (8 * N) = 0
               /\ \A j \in 1..N : Abs(Num(k8, j) \div (8 * N)) < XMax
Pt(k8)      == [j \in 1..N |-> Num(k8, j) \div (8 * N)]

(* shrink vertex i towards the best: sim[1] + sigma * (sim[i] - sim[1]) *)
ShNum(i, j) == 8 * sim[1][j] + Sig8(prob) * (sim[i][j] - sim[1][j])
ShOK        == \A i \in 2..V : \A j \in 1..N : ShNum(i, j) % 8 = 0
Sh(i)       == [j \in 1..N |-> ShNum(i, j) \div 8]

Fail == [ok |-> FALSE, br |-> "none", s |-> sim, f |-> fsim, k |-> 0]
Replace(br, x, fx, k) ==
  [ok |-> TRUE, br |-> br, s |-> [sim EXCEPT ![V] = x], f |-> [fsim EXCEPT ![V] = fx], k |-> k]
Shrink(k) ==
  IF ~ShOK THEN Fail
  ELSE LET s == [i \in 1..V |-> IF i = 1 THEN sim[1] ELSE Sh(i)]
       IN  [ok |-> TRUE, br |-> "shrink", s |-> s,
            f |-> [i \in 1..V |-> IF i = 1 THEN fsim[1] ELSE F(prob, s[i])], k |-> k + N]

(* the decision tree; k = objective evaluations of the iteration *)
Outcome ==
  IF ~PtOK(8) THEN Fail ELSE
  LET xr == Pt(8)   fr == F(prob, xr) IN
  IF ELess(fr, fsim[1])
  THEN IF ~PtOK(Chi8(prob)) THEN Fail ELSE
       LET xe == Pt(Chi8(prob))   fe == F(prob, xe) IN
       IF ELess(fe, fr) THEN Replace("expand", xe, fe, 2) ELSE Replace("reflect", xr, fr, 2)
  ELSE IF ELess(fr, fsim[V - 1])
  THEN Replace("reflect", xr, fr, 1)
  ELSE IF ELess(fr, fsim[V])
  THEN IF ~PtOK(Psi8(prob)) THEN Fail ELSE
       LET xc == Pt(Psi8(prob))   fc == F(prob, xc) IN
       IF ELeq(fc, fr) THEN Replace("contract-out", xc, fc, 2) ELSE Shrink(2)
  ELSE IF ~PtOK(-Psi8(prob)) THEN Fail ELSE
       LET xcc == Pt(-Psi8(prob))   fcc == F(prob, xcc) IN
       IF ELess(fcc, fsim[V]) THEN Replace("contract-in", xcc, fcc, 2) ELSE Shrink(2)

Iterate ==
  /\ phase = "run" /\ end = ""
  /\ LET o == Outcome IN
       IF o.ok
       THEN Commit("run", SortBy(o.f, o.s), SortBy(o.f, o.f), iters + 1, evals + o.k, o.br)
       ELSE /\ end' = "lattice" /\ hist' = Append(hist, Obs(sim, fsim, iters, evals, "none", "lattice"))
            /\ UNCHANGED <<prob, phase, sim, fsim, iters, evals>>

Next == Start \/ Build \/ Iterate
Spec == Init /\ [][Next]_vars

(* ------------------------------------------------------------------ design properties *)
SortedSimplex == phase = "run" => \A i \in 1..(V - 1) : ELeq(fsim[i], fsim[i + 1])
EnergiesFaithful == phase \in {"start", "run"} => \A i \in 1..Len(sim) : fsim[i] = F(prob, sim[i])
CountersConsistent ==
  /\ phase = "start" => iters = 0 /\ evals = 1
  /\ phase = "run" => iters >= 1 /\ evals >= N + iters /\ evals <= N + 1 + (iters - 1) * (N + 2)
StopIsJustified ==
  /\ end = "crt" => Conv(sim, fsim)
  /\ end = "maxiter" => iters >= prob.maxiter
  /\ end = "maxfun" => evals >= prob.maxfun
  /\ (end = "" /\ phase = "run") => ~Conv(sim, fsim) /\ iters < prob.maxiter /\ evals < prob.maxfun
BestNeverWorsens == [][phase = "run" /\ phase' = "run" => ELeq(fsim'[1], fsim[1])]_vars
EvalsPerIteration == [][phase = "run" /\ iters' = iters + 1 => (evals' - evals) \in {1, 2, N + 2}]_vars
(* a non-shrink iteration replaces exactly the worst vertex; a shrink keeps exactly the best *)
OnlyWorstReplaced ==
  [][(phase = "run" /\ iters' = iters + 1) =>
       LET br == hist'[Len(hist')].br IN
         IF br = "shrink" THEN \E i \in 1..V : sim'[i] = sim[1]
         ELSE \A i \in 1..(V - 1) : \E k \in 1..V : sim'[k] = sim[i]]_vars

Done == end # ""
Emit == Done => PrintT(<<"@@", ToJson([prob |-> prob, hist |-> hist])>>)
=============================================================================
