\* thorough: NP = 5
SPECIFICATION Spec
CONSTANTS
  NP = 5
  K = 3
  Kinds = {"DE", "DE2"}
  Tables <- STables
  Pops <- Pops5
  Rules <- QRules
  G = 1
INVARIANT EnergyFaithful
INVARIANT BestIsMinAccepted
PROPERTY PopENonIncreasing
PROPERTY ReplacedOnlyByStrictlyLower
PROPERTY Greedy
PROPERTY BestMonotone
INVARIANT Emit
