SPECIFICATION Spec
CONSTANTS
  RbinNs <- QNs
  RbinDims = {0, 1, 2, 3, 4}
  PtsFns <- QFns
  Boxes <- QBoxes
  PtsScales <- QScales
  NPts = {0, 1, 2, 10, 12, 100}
  FillNPts = {1}
  Rtols <- QRtols
INVARIANT NeverDegenerateBox
