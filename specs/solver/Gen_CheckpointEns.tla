-------------------------- MODULE Gen_CheckpointEns --------------------------
(***************************************************************************)
(* Script generator (spec -> code) for CheckpointEns.tla -- the ensemble    *)
(* counterpart of Gen_Checkpoint.tla, same shape of experiment:             *)
(*                                                                         *)
(*   ref     the reference ensemble (instance 1) is driven to the end:      *)
(*           step-wise settings: Step() for the generations 0..MaxGen or    *)
(*           INTO ITS STOP (every member stopped by the generation limit /  *)
(*           member 1 earlier by the user's termination condition), then    *)
(*           MaxRefuse further Step() calls which a stopped ensemble        *)
(*           refuses; Solve() settings (cfg.sv): Solve(), Solve(), Step().  *)
(*           The abstract state after every command is kept in refst.       *)
(*   orig    the original (instance 2) is driven the same way; after ANY    *)
(*           ensemble step k (the stop included) the driver may leave it    *)
(*           and choose path F | P | D | C, rng restore | scramble, a mode  *)
(*   run     the plan is executed command by command                        *)
(*                                                                         *)
(* Commands: step x (Step(); refused when x is stopped), solve x (Solve():  *)
(* run-to-completion route if x was never stepped, otherwise the loop of    *)
(* Steps up to the stop; refused when stopped), saveF/saveD/loadF/loadP/    *)
(* loadD/copy/rrng/scr as in Gen_Checkpoint.                                *)
(* After every command the script records what the specification says about *)
(* the affected ensemble x:  g ensemble steps - 1, mg / ms generation and   *)
(* stop verdict OF EVERY MEMBER, st stop verdict of the ensemble, r index   *)
(* of the reference state the WHOLE abstract state (all members) equals     *)
(* (-1: nothing claimed), e the other live ensembles it equals, lab the     *)
(* generator label x is left with, ra the label saved with the snapshot.    *)
(***************************************************************************)
EXTENDS CheckpointEns, Json, IOUtils

CONSTANTS Tier

VARIABLES pc, plan, script, hdr, refst, reflog
gvars == <<vars, pc, plan, script, hdr, refst, reflog>>

S(id, sf, em, lim, rg, t1, sv) == [id |-> id, sf |-> sf, em |-> em, lim |-> lim, rg |-> rg, t1 |-> t1, sv |-> sv]
(* ids are shared with harness/c06_ens.py (FLAVOUR) *)
Catalogue == {
  S(101, 0, FALSE, None, FALSE, None, FALSE),        \* plain, step-wise
  S(102, 0, FALSE, None, TRUE, None, FALSE),         \* strict ranges
  S(103, 0, TRUE, None, TRUE, 2, FALSE),             \* ranges + constraint + penalty + monitors; member 1 stops at generation 2
  S(104, 0, FALSE, MaxGen - 2, TRUE, None, FALSE),   \* ranges + generation limit: runs into the stop, refused afterwards
  S(105, 1, TRUE, MaxGen - 2, FALSE, 1, FALSE),      \* dump every generation + monitors + limit; member 1 stops at generation 1
  S(106, 0, FALSE, 3, TRUE, None, TRUE),             \* driven by Solve(): ranges + limit 3
  S(107, 1, TRUE, 3, TRUE, 2, TRUE),                 \* driven by Solve(): ranges + penalty + monitors + restart file; member 1 stops at 2
  S(108, 2, FALSE, None, FALSE, None, FALSE) }       \* dump every 2nd generation, no limit
QuickIds == {102, 103, 104, 105, 106, 107}

GenSettings ==
  LET pool == IF Tier = "quick" THEN {c \in Catalogue : c.id \in QuickIds} ELSE Catalogue
  IN IF "C06_SID" \in DOMAIN IOEnv THEN {c \in pool : c.id = atoi(IOEnv.C06_SID)} ELSE pool
GenKinds == IF "C06_KIND" \in DOMAIN IOEnv THEN {IOEnv.C06_KIND} ELSE {"LNM", "LPW", "BPW", "SNM"}
GenN == IF "C06_N" \in DOMAIN IOEnv THEN atoi(IOEnv.C06_N) ELSE IF Tier = "quick" THEN 6 ELSE 8

Paths == {"F", "P", "D", "C"}
Modes == {"none", "orig_first", "interleave", "solve_rest", "twice", "chain"}
ModeNo(m) == CASE m = "orig_first" -> 0 [] m = "interleave" -> 1 [] m = "solve_rest" -> 2 [] m = "twice" -> 3
               [] m = "chain" -> 4 [] OTHER -> 5
PathNo(p) == CASE p = "F" -> 0 [] p = "P" -> 1 [] p = "D" -> 2 [] OTHER -> 3
(* quick: every (k, path) runs mode none with the generator restored plus ONE further combination (rotation); *)
(* thorough: every combination                                                                                 *)
Allowed(c, k, p, rm, m) ==
  /\ rm = "scramble" => m = "none"
  /\ m = "solve_rest" => c.lim # None
  /\ Tier = "quick" =>
       \/ m = "none" /\ rm = "restore"
       \/ (IF rm = "scramble" THEN 5 ELSE ModeNo(m)) = (k + c.id + 2 * PathNo(p)) % 6

Cmd(c, x, y) == [c |-> c, x |-> x, y |-> y]
Rep(n, cmds) == [m \in 1..(n * Len(cmds)) |-> cmds[((m - 1) % Len(cmds)) + 1]]
Steps(x) == Rep(MaxGen + 1 + MaxRefuse, <<Cmd("step", x, 0)>>)

Ck(p, src, new) == CASE p = "F" -> <<Cmd("saveF", src, 0)>>
                     [] p = "D" -> <<Cmd("saveD", src, 0)>>
                     [] p = "P" -> << >>
                     [] OTHER -> <<Cmd("copy", new, src)>>
Rs(p, new) == CASE p = "F" -> <<Cmd("loadF", new, 0)>>
                [] p = "D" -> <<Cmd("loadD", new, 0)>>
                [] p = "P" -> <<Cmd("loadP", new, 0)>>
                [] OTHER -> << >>
Rg(rm, x) == IF rm = "restore" THEN <<Cmd("rrng", x, 0)>> ELSE <<Cmd("scr", x, 0)>>

Plan(p, rm, m) ==
  CASE m = "none" ->
         Ck(p, 2, 3) \o Rs(p, 3) \o Rg(rm, 3) \o Steps(3)
    [] m = "orig_first" ->    \* the original moves on by two steps before the checkpoint is restored
         Ck(p, 2, 3) \o Rep(2, <<Cmd("step", 2, 0)>>) \o Rs(p, 3) \o Rg(rm, 3) \o Steps(3)
    [] m = "interleave" ->    \* restored ensemble and original advance in turns
         Ck(p, 2, 3) \o Rs(p, 3) \o Rg(rm, 3) \o Rep(MaxGen + 1 + MaxRefuse, <<Cmd("step", 3, 0), Cmd("step", 2, 0)>>)
    [] m = "solve_rest" ->    \* the restored ensemble is continued by ONE Solve() up to its stop, then called again
         Ck(p, 2, 3) \o Rs(p, 3) \o Rg(rm, 3) \o <<Cmd("solve", 3, 0), Cmd("step", 3, 0), Cmd("solve", 3, 0)>>
                     \o Rep(2, <<Cmd("step", 2, 0)>>)
    [] m = "twice" ->         \* two ensembles from the same checkpoint
         Ck(p, 2, 3) \o (IF p = "C" THEN Ck(p, 2, 4) ELSE << >>) \o Rs(p, 3) \o Rs(p, 4)
                     \o Rg(rm, 3) \o Steps(3) \o Rg(rm, 4) \o Steps(4)
    [] OTHER ->               \* chain: the restored ensemble is checkpointed again after one more step
         Ck(p, 2, 3) \o Rs(p, 3) \o Rg(rm, 3) \o <<Cmd("step", 3, 0)>>
                     \o Ck(p, 3, 4) \o Rs(p, 4) \o Rg(rm, 4) \o Steps(4)

SlotOf(c) == IF c = "loadF" THEN "F" ELSE IF c = "loadP" THEN "P" ELSE "D"

CanCall(x) == inst[x].alive /\ inst[x].ens /\
              (busy = x \/ (~Stopped(x) /\ inst[x].eg < MaxGen) \/ (Stopped(x) /\ inst[x].nrf < MaxRefuse))
Executable(cm) ==
  CASE cm.c = "step" -> CanCall(cm.x)
    [] cm.c = "solve" -> CanCall(cm.x) /\ inst[cm.x].cfg.lim # None
    [] cm.c \in {"saveF", "saveD"} -> inst[cm.x].alive /\ inst[cm.x].ens /\ inst[cm.x].eg >= 0
    [] cm.c \in {"loadF", "loadP", "loadD"} -> store[SlotOf(cm.c)].full
    [] cm.c = "copy" -> inst[cm.y].alive /\ inst[cm.y].ens
    [] cm.c \in {"rrng", "scr"} -> inst[cm.x].alive
    [] OTHER -> FALSE

RECURSIVE Norm(_)
Norm(p) == IF p = << >> THEN p ELSE IF Executable(p[1]) THEN p ELSE Norm(SubSeq(p, 2, Len(p)))

(* ---- what the specification says about x after a command (new state: primed variables) ---- *)
EqRefN(x) == LET a == Abs(inst'[x], obj', cell')
                 ms == {m \in 1..Len(refst) : refst[m] = a}
             IN IF ms = {} THEN -1 ELSE (CHOOSE m \in ms : TRUE) - 1
EqInstN(x) == {z \in Ids \ {x} : inst'[z].alive /\ Abs(inst'[z], obj', cell') = Abs(inst'[x], obj', cell')}
ObsN(c, x, y) ==
  LET e == inst'[x] IN
  [c |-> c, x |-> x, y |-> y, g |-> e.eg, ens |-> e.ens,
   mg |-> [j \in 1..Len(e.mem) |-> obj'[e.mem[j]].gens],
   ms |-> [j \in 1..Len(e.mem) |-> StopM(obj'[e.mem[j]], e.cfg, j)],
   st |-> StoppedWith(e, obj'), r |-> EqRefN(x), e |-> EqInstN(x), lab |-> rngctx'[x], ra |-> e.rngAt,
   dev |-> e.dev]
Record(c, x, y) == script' = Append(script, ObsN(c, x, y))

GInit ==
  /\ "C06_LIST" \notin DOMAIN IOEnv
  /\ Init
  /\ pc = "ref" /\ plan = << >> /\ script = << >> /\ refst = << >> /\ reflog = << >>
  /\ hdr = [k |-> -1, path |-> "", rng |-> "", mode |-> "", atstop |-> FALSE]

RefNote(c) == refst' = Append(refst, Abs(inst'[1], obj', cell')) /\ reflog' = Append(reflog, c)

RefStep ==
  /\ pc = "ref"
  /\ IF inst[1].cfg.sv
     THEN \/ /\ Len(reflog) < 2 /\ ESolveFresh(1) /\ RefNote("solve") /\ UNCHANGED pc
          \/ /\ Len(reflog) = 2 /\ ERefuse(1) /\ RefNote("step") /\ UNCHANGED pc
          \/ /\ Len(reflog) = 3 /\ pc' = "orig" /\ UNCHANGED <<vars, refst, reflog>>
     ELSE \/ /\ busy = 1 \/ (busy = 0 /\ inst[1].eg < MaxGen /\ ~Stopped(1))
             /\ StepPart(1)
             /\ IF busy' = 0 THEN RefNote("step") ELSE UNCHANGED <<refst, reflog>>
             /\ UNCHANGED pc
          \/ /\ busy = 0 /\ Stopped(1) /\ inst[1].nrf < MaxRefuse
             /\ ERefuse(1) /\ RefNote("step") /\ UNCHANGED pc
          \/ /\ busy = 0 /\ (inst[1].eg = MaxGen \/ (Stopped(1) /\ inst[1].nrf = MaxRefuse))
             /\ pc' = "orig" /\ UNCHANGED <<vars, refst, reflog>>
  /\ UNCHANGED <<plan, script, hdr>>

OrigStep ==
  /\ pc = "orig"
  /\ IF inst[2].cfg.sv
     THEN inst[2].eg = -1 /\ ESolveFresh(2) /\ Record("solve", 2, 0)
     ELSE /\ busy = 2 \/ (busy = 0 /\ inst[2].eg < MaxGen - 1 /\ ~Stopped(2))
          /\ StepPart(2)
          /\ IF busy' = 0 THEN Record("step", 2, 0) ELSE UNCHANGED script
  /\ UNCHANGED <<pc, plan, hdr, refst, reflog>>

Choose ==
  /\ pc = "orig" /\ busy = 0
  /\ inst[2].eg >= 0
  /\ \E p \in Paths, rm \in {"restore", "scramble"}, m \in Modes :
       /\ p = "P" => inst[2].cfg.sf > 0
       /\ Allowed(inst[2].cfg, inst[2].eg, p, rm, m)
       /\ plan' = Plan(p, rm, m)
       /\ hdr' = [hdr EXCEPT !.k = inst[2].eg, !.path = p, !.rng = rm, !.mode = m, !.atstop = Stopped(2)]
  /\ pc' = "run"
  /\ UNCHANGED <<vars, script, refst, reflog>>

Exec ==
  /\ pc = "run"
  /\ Norm(plan) # << >>
  /\ LET np == Norm(plan)
         cm == np[1]
         rest == SubSeq(np, 2, Len(np))
     IN CASE cm.c = "step" ->
               IF busy = 0 /\ Stopped(cm.x)
               THEN ERefuse(cm.x) /\ Record("step", cm.x, 0) /\ plan' = rest
               ELSE /\ StepPart(cm.x)
                    /\ IF busy' = 0 THEN Record("step", cm.x, 0) /\ plan' = rest
                                    ELSE UNCHANGED script /\ plan' = np
          [] cm.c = "solve" ->
               IF busy = 0 /\ ~inst[cm.x].stepped
               THEN ESolveFresh(cm.x) /\ Record("solve", cm.x, 0) /\ plan' = rest
               ELSE IF busy = 0 /\ Stopped(cm.x)
               THEN ERefuse(cm.x) /\ Record("solve", cm.x, 0) /\ plan' = rest
               ELSE /\ StepPart(cm.x)          \* the loop `while not Step()`: one public call, observed at its end
                    /\ IF busy' = 0 /\ StoppedWith(inst'[cm.x], obj')
                       THEN Record("solve", cm.x, 0) /\ plan' = rest
                       ELSE UNCHANGED script /\ plan' = np
          [] cm.c = "saveF" -> Save(cm.x, "F") /\ Record(cm.c, cm.x, 0) /\ plan' = rest
          [] cm.c = "saveD" -> Save(cm.x, "D") /\ Record(cm.c, cm.x, 0) /\ plan' = rest
          [] cm.c \in {"loadF", "loadP", "loadD"} ->
               Load(SlotOf(cm.c), cm.x) /\ Record(cm.c, cm.x, store[SlotOf(cm.c)].by) /\ plan' = rest
          [] cm.c = "copy" -> DeepCopy(cm.y, cm.x) /\ Record(cm.c, cm.x, cm.y) /\ plan' = rest
          [] cm.c = "rrng" -> RestoreRng(cm.x) /\ Record(cm.c, cm.x, 0) /\ plan' = rest
          [] OTHER -> Scramble(cm.x) /\ Record(cm.c, cm.x, 0) /\ plan' = rest
  /\ UNCHANGED <<pc, hdr, refst, reflog>>

Done == pc = "run" /\ busy = 0 /\ Norm(plan) = << >>

GNext == RefStep \/ OrigStep \/ Choose \/ Exec
GSpec == GInit /\ [][GNext]_gvars

(* ---- sanity of the generated scripts, checked by TLC ---- *)
(* with the generator restored and no re-clipping deep copy, every call on a restored ensemble is claimed equal to *)
(* a state of the uninterrupted run                                                                                *)
ClaimsMade ==
  Done =>
    \A n \in 1..Len(script) :
      LET o == script[n] IN
        (o.c \in {"step", "solve"} /\ o.x >= 3 /\ hdr.rng = "restore" /\ ~inst[o.x].dev) => o.r >= 0
OriginalOnTrack ==
  Done => \A n \in 1..Len(script) : (script[n].x = 2 /\ script[n].c \in {"step", "solve"}) => script[n].r >= 0
LabelsSound == Done => RngLabelsFunctional
(* where the generator was deliberately not restored nothing is claimed about an ensemble that advanced *)
NothingClaimedUnrestored ==
  Done => \A n \in 1..Len(script) :
            (script[n].c \in {"step", "solve"} /\ script[n].x >= 3 /\ hdr.rng = "scramble"
             /\ script[n].g > inst[script[n].x].born) => script[n].r = -1
(* vacuity witness (must be VIOLATED for a setting with a limit) *)
NeverAtStop ==
  ~ (Done /\ hdr.atstop /\ \E n \in 1..Len(script) : script[n].c = "step" /\ script[n].x >= 3 /\ script[n].r >= 0)

Emit == Done => PrintT(<<"@@", ToJson([kind |-> kind, sid |-> inst[2].cfg.id, n |-> MaxGen, nm |-> NMem,
                                       refops |-> reflog, atstop |-> hdr.atstop,
                                       k |-> hdr.k, path |-> hdr.path, rng |-> hdr.rng,
                                       mode |-> hdr.mode, ops |-> script])>>)

ASSUME PrintT(<<"@@", ToJson([catalogue |-> GenSettings, kinds |-> GenKinds, n |-> MaxGen, nm |-> NMem])>>)
=============================================================================
