------------------------------ MODULE Schedule ------------------------------
(***************************************************************************)
(* C07 -- results depend only on configuration and seed, not on call order *)
(* or on the schedule of the map.  Two machines share this module; a       *)
(* configuration file selects one with SPECIFICATION SpecA / SpecB.        *)
(*                                                                         *)
(* PART A  ConfigConfluence (mystic/abstract_solver.py Set* methods,       *)
(*         differential_evolution.py SetConstraints, scipy_optimize.py     *)
(*         Powell.Finalize, abstract_map_solver.py SetMapper).             *)
(*   One solver object of kind a.kind.  A SCRIPT is                        *)
(*       c_1 .. c_m  [Seed; Init]  c_m+1 .. c_K                (pre = 0)   *)
(*       [Seed; Init; Step; Step]  c_1 .. c_K                  (pre = 1)   *)
(*   i.e. K configuration calls in some order with the unit "seed the      *)
(*   generators, then SetRandomInitialPoints" at the FIXED place initAt    *)
(*   (the statement's premise: same seed, same initial population); with   *)
(*   pre = 1 the unit and two steps come first and the calls re-configure  *)
(*   a live solver.  One action per Set* call (DoCall); each writes its    *)
(*   own slot of the configuration record a.c AND has the side effects the *)
(*   code has on other slots (objective marked stale, Powell's pending     *)
(*   record flushed by Finalize, relative limits resolved against the      *)
(*   counters, the collapse flag, the energy-history override, random      *)
(*   draws).  TLC explores EVERY interleaving of EVERY admissible K-subset *)
(*   of the call pool; Confluent says the final record -- including the    *)
(*   ghost generator position rng, the ghost popAt (generator position at  *)
(*   which the population was drawn) and the ghost evals (cost calls) --   *)
(*   equals the one the canonical (ascending) order produces.  Variant     *)
(*   selects the as-coded actions or a design TLC must refute.             *)
(*                                                                         *)
(*   slots of a.c (integers; None = -1, Star = -2 is mystic's "*")         *)
(*     limG limE   _maxiter _maxfun (DefG/DefE: the solver's resolved      *)
(*                 default)                                                *)
(*     term coll   id of the termination, _collapse flag                   *)
(*     cons pen red   ids of constraints / penalty / reducer (0 = default) *)
(*     strict rid tight clip sb   _useStrictRange, id of (_strictMin,      *)
(*                 _strictMax), _useTightRange, _useClipRange, kind of     *)
(*                 _strictbounds (0 identity, 1 symbolic, 2 impose_bounds) *)
(*     emon nem    id of the evaluation monitor, its length                *)
(*     smon nsm    id of the generation monitor, its length                *)
(*     pend        Powell: an iteration is not yet logged (energy_history  *)
(*                 override in force)                                      *)
(*     map saveG saveF obj   mapper id, save frequency, file id, cost id   *)
(*     live        the decorated objective is in sync (_live)              *)
(*     pop popAt   1 once the population was drawn; generator position it  *)
(*                 was drawn at (ghost)                                    *)
(*     rng         draws since the last seeding (ghost)                    *)
(*     fcalls evals   evaluation counter; evals = real cost calls (ghost)  *)
(*                                                                         *)
(* PART B  ScheduleIndependence (differential_evolution.py                 *)
(*         DifferentialEvolutionSolver2._Step; abstract_ensemble_solver.py *)
(*         _Step/_Solve/__update_allSolvers/__update_bestSolver).          *)
(*   A map-based step: N work items are dispatched (Begin); an item is     *)
(*   started (Start(i): several may be running at once, at most MaxRun)    *)
(*   and completes (Complete(i)) in ANY order; its result depends on the   *)
(*   item alone and is stored BY ITEM INDEX (res); m.order is the arrival  *)
(*   order; when all are done the step completes (Collect) and the         *)
(*   post-state is a function of res.                                      *)
(*   Sys = "de2": the items are the trial vectors of one generation (built *)
(*     before the map from the pre-state), results are trial energies,     *)
(*     Collect = greedy strict selection per candidate and the all-time    *)
(*     best, scanning candidates by index.                                 *)
(*   Sys = "ens": the items are member solvers following programs          *)
(*     <<evaluations, best energy>> per step (a member's progress depends  *)
(*     on its own state only: the premise "members draw no random          *)
(*     numbers"); driver "solve" = one map call running every member to    *)
(*     completion, driver "step" = one map call per round, one step per    *)
(*     unfinished member; Collect = results replace the members by index,  *)
(*     then the reduction bestSolver := last member with bestEnergy <= the *)
(*     current best's, scanning by index (ties!), state hand-back, total   *)
(*     evaluations.                                                        *)
(*   Properties: ScheduleIndependence (every settled state equals the one  *)
(*   the serial schedule produces), ModesAgree / ResultAsSolve (both       *)
(*   drivers end with the same result).  Consume / Scan / Cmp /            *)
(*   FinalReduce select the as-coded design or one TLC must refute.        *)
(*   With Track = TRUE the event sequence of the map call is kept (ghost   *)
(*   m.ev: i = item i started, -i = item i completed) and MC_Schedule      *)
(*   emits every complete schedule for the harness to execute.             *)
(***************************************************************************)
EXTENDS Integers, Sequences, FiniteSets, TLC

CONSTANTS
  \* ---- part A
  Kinds,        \* subset of {"DE", "DE2", "NM", "PW"}
  Pool,         \* subset of 1..NCalls: the configuration calls available
  K,            \* calls per script
  InitAts,      \* fixed places (0..K) of the [Seed; Init] unit explored for pre = 0
  Pres,         \* subset of {0, 1}: 1 = the calls re-configure a solver that already took two steps
  Variant,      \* "coded" or the name of a design TLC must refute (see Apply / Admissible)
  \* ---- part B
  Sys,          \* "de2" | "ens"
  N,            \* work items (population size / members)
  Energies,     \* finite set of naturals (ranks; ties intended)
  Gens,         \* de2: generations explored; ens: a member's program has 1..Gens steps
  Ks,           \* ens: evaluations one member step may cost
  Modes,        \* ens: subset of {"solve", "step"}
  MaxRun,       \* work items that may be running at the same time
  Consume,      \* "index" (as coded) | "completion": results read in arrival order
  Scan,         \* "index" (as coded) | "completion": reduction scans members in completion order
  Cmp,          \* "le" (as coded) | "lt": comparison used by the reduction
  FinalReduce,  \* TRUE (as coded) | FALSE: step mode skips the reduction of the last round
  Track         \* keep the event history of the map call (for emission)

INF == 1000000
None == -1
Star == -2

VARIABLES a, m, de, en
vars == <<a, m, de, en>>

Range(s) == {s[i] : i \in DOMAIN s}
Ids(n) == [i \in 1..n |-> i]
Max2(x, y) == IF x >= y THEN x ELSE y

-----------------------------------------------------------------------------
(*                    PART A : the configuration calls                     *)
-----------------------------------------------------------------------------
(* the call pool: family, arguments (x, y, z).  The harness maps ids to concrete arguments. *)
CallTab == <<
  [fam |-> "limits",  x |-> 3,    y |-> None, z |-> 0],     \*  1 SetEvaluationLimits(3, None)
  [fam |-> "limits",  x |-> None, y |-> 60,   z |-> 0],     \*  2 SetEvaluationLimits(None, 60)
  [fam |-> "limits",  x |-> 2,    y |-> None, z |-> 1],     \*  3 SetEvaluationLimits(2, None, new=True)
  [fam |-> "term",    x |-> 1,    y |-> 0,    z |-> 0],     \*  4 SetTermination(plain condition)
  [fam |-> "cons",    x |-> 1,    y |-> 0,    z |-> 0],     \*  5 SetConstraints(c)
  [fam |-> "pen",     x |-> 1,    y |-> 0,    z |-> 0],     \*  6 SetPenalty(p)
  [fam |-> "ranges",  x |-> 1,    y |-> None, z |-> None],  \*  7 SetStrictRanges(lo, hi)
  [fam |-> "ranges",  x |-> 1,    y |-> 1,    z |-> None],  \*  8 SetStrictRanges(lo, hi, tight=True)   draws
  [fam |-> "ranges",  x |-> 1,    y |-> None, z |-> 1],     \*  9 SetStrictRanges(lo, hi, clip=True)
  [fam |-> "reducer", x |-> 1,    y |-> 0,    z |-> 0],     \* 10 SetReducer(r)
  [fam |-> "emon",    x |-> 1,    y |-> 0,    z |-> 0],     \* 11 SetEvaluationMonitor(Monitor())
  [fam |-> "smon",    x |-> 1,    y |-> 0,    z |-> 0],     \* 12 SetGenerationMonitor(Monitor())
  [fam |-> "map",     x |-> 1,    y |-> 0,    z |-> 0],     \* 13 SetMapper(map)              DE2 only
  [fam |-> "save",    x |-> 2,    y |-> 1,    z |-> 0],     \* 14 SetSaveFrequency(2, file)
  [fam |-> "obj",     x |-> 1,    y |-> 0,    z |-> 0],     \* 15 SetObjective(cost)
  [fam |-> "term",    x |-> 2,    y |-> 0,    z |-> 0],     \* 16 SetTermination(condition with a Collapse* member)
  [fam |-> "smon",    x |-> 2,    y |-> 1,    z |-> 0] >>   \* 17 SetGenerationMonitor(Monitor(), new=True)
NCalls == Len(CallTab)
Fam(id) == CallTab[id].fam

TightDraws == 12      \* ghost: draws of the symbolic bounds constraint (any constant > 0)
PopDraws == 6         \* ghost: draws of SetRandomInitialPoints (nPop * nDim; any constant > 0)
StepDraws == 7        \* ghost: draws of the pre-steps of a DE kind
DefG == 1000          \* the solver's resolved default limits (ghost ids)
DefE == 100000
PreCalls == 9         \* ghost: evaluations of the two pre-steps
Draws(id) == IF id = 8 THEN TightDraws ELSE 0

IsDE(kind) == kind \in {"DE", "DE2"}
GensOf(c, kind) == Max2(0, c.nsm + (IF kind = "PW" THEN c.pend ELSE 0) - 1)

Fresh == [limG |-> None, limE |-> None, term |-> 0, coll |-> 0, cons |-> 0, pen |-> 0, red |-> 0,
          strict |-> 0, rid |-> 0, tight |-> None, clip |-> None, sb |-> 0, emon |-> 0, nem |-> 0,
          smon |-> 0, nsm |-> 0, pend |-> 0, map |-> 0, saveG |-> None, saveF |-> 0, obj |-> 0,
          live |-> 0, pop |-> 0, popAt |-> None, rng |-> 0, fcalls |-> 0, evals |-> 0]

(* [Seed; Init]: seed the generators, SetRandomInitialPoints *)
SeedInit(c) == [c EXCEPT !.pop = 1, !.popAt = 0, !.rng = PopDraws]

(* the state after [Seed; Init; Step(cost); Step()]: the first Terminated() resolved the default   *)
(* limits, Powell has logged its initial record only and holds the first iteration pending         *)
AfterPreSteps(kind) ==
  [SeedInit(Fresh) EXCEPT !.limG = DefG, !.limE = DefE, !.obj = 1, !.live = 1,
                          !.nsm = IF kind = "PW" THEN 1 ELSE 2, !.pend = IF kind = "PW" THEN 1 ELSE 0,
                          !.rng = PopDraws + (IF IsDE(kind) THEN StepDraws ELSE 0),
                          !.fcalls = PreCalls, !.evals = PreCalls]
C0(kind, pre) == IF pre = 1 THEN AfterPreSteps(kind) ELSE Fresh

(* Finalize(): mark the decorated objective stale; Powell first logs the pending iteration of a live solver *)
Stale(c, kind) ==
  IF kind = "PW" /\ c.pend = 1 /\ c.live = 1
  THEN [c EXCEPT !.live = 0, !.pend = 0, !.nsm = c.nsm + 1]
  ELSE [c EXCEPT !.live = 0]

SBKind(tight, clip) == IF clip = None THEN (IF tight = 1 THEN 1 ELSE 0) ELSE 2

Coded(c, kind, id) ==
  LET t == CallTab[id] IN
  CASE t.fam = "limits" ->
         [c EXCEPT !.limG = IF t.z = 1 THEN (IF t.x = None THEN Star ELSE t.x + GensOf(c, kind)) ELSE t.x,
                   !.limE = IF t.z = 1 THEN (IF t.y = None THEN Star ELSE t.y + c.fcalls) ELSE t.y]
    [] t.fam = "term"    -> [c EXCEPT !.term = t.x, !.coll = IF t.x = 2 THEN 1 ELSE 0]
    [] t.fam = "cons"    -> IF IsDE(kind) THEN [c EXCEPT !.cons = t.x] ELSE Stale([c EXCEPT !.cons = t.x], kind)
    [] t.fam = "pen"     -> Stale([c EXCEPT !.pen = t.x], kind)
    [] t.fam = "reducer" -> Stale([c EXCEPT !.red = t.x], kind)
    [] t.fam = "ranges"  -> Stale([c EXCEPT !.strict = 1, !.rid = t.x, !.tight = t.y, !.clip = t.z,
                                            !.sb = SBKind(t.y, t.z), !.rng = c.rng + Draws(id)], kind)
    [] t.fam = "emon"    -> Stale([c EXCEPT !.emon = t.x], kind)     \* the old records are prepended: nem unchanged
    [] t.fam = "smon"    -> LET c1 == IF c.pend = 1 THEN Stale(c, kind) ELSE c    \* Finalize() iff the override is in force
                            IN [c1 EXCEPT !.smon = t.x, !.nsm = IF t.y = 1 THEN 0 ELSE c1.nsm, !.pend = 0]
    [] t.fam = "map"     -> [c EXCEPT !.map = t.x]
    [] t.fam = "save"    -> [c EXCEPT !.saveG = t.x, !.saveF = t.y]
    [] t.fam = "obj"     -> IF c.obj = t.x THEN c ELSE [c EXCEPT !.obj = t.x, !.live = 0]

(* designs TLC must refute: the coded call plus an effect on a slot it does not own *)
Apply(c, kind, id) ==
  LET d == Coded(c, kind, id)
      f == Fam(id) IN
  CASE Variant = "cons-wipes-pen" /\ f = "cons"         -> [d EXCEPT !.pen = 0]
    [] Variant = "term-reseeds" /\ f = "term"           -> [d EXCEPT !.rng = 0]
    [] Variant = "limits-eager-default" /\ f = "limits" ->
         [d EXCEPT !.limE = IF d.limE = None THEN (IF c.pop = 1 THEN DefE ELSE 0) ELSE d.limE]
    [] Variant = "ranges-resample" /\ f = "ranges"      -> [d EXCEPT !.pop = 1, !.popAt = d.rng, !.rng = d.rng + PopDraws]
    [] Variant = "penalty-draws-once" /\ f = "pen"      -> [d EXCEPT !.rng = d.rng + 1]
    [] Variant = "obj-evaluates" /\ f = "obj"           -> [d EXCEPT !.evals = d.evals + 1, !.fcalls = d.fcalls + 1]
    [] OTHER -> d

(* the scripts explored (premises of the statement):                                                        *)
(*   "same settings": the calls of a script write distinct slots; SetMapper exists on DE2 only; a reducer   *)
(*     is installed before the (vector-valued) cost is first evaluated; limits relative to the counters     *)
(*     (new=True) are not combined with a monitor swap that resets those counters on a live solver;         *)
(*   "same seed, same initial population": calls that draw random numbers are kept out of scripts whose     *)
(*     [Seed; Init] unit is strictly inside the call sequence.                                              *)
(* Variant = "premise-dropped-relative-limits" / "premise-dropped-draws" lift the last two: TLC then        *)
(* refutes Confluent.                                                                                       *)
Admissible(S, kind, pre, at) ==
  /\ \A i, j \in S : i # j => Fam(i) # Fam(j)
  /\ 13 \in S => kind = "DE2"
  /\ 10 \in S => pre = 0                    \* a reducer comes with the vector-valued cost: before the first evaluation
  /\ Variant # "premise-dropped-draws" => ((at \notin {0, K}) => \A i \in S : Draws(i) = 0)
  /\ Variant # "premise-dropped-relative-limits" => ~(pre = 1 /\ 3 \in S /\ 17 \in S)

RECURSIVE Asc(_)
Asc(S) == IF S = {} THEN << >> ELSE LET x == CHOOSE v \in S : \A w \in S : v <= w IN <<x>> \o Asc(S \ {x})

(* run the calls of `seq` from position p on, with the [Seed; Init] unit at its fixed place *)
RECURSIVE RunFrom(_, _, _, _, _, _)
RunFrom(c, kind, seq, p, at, pre) ==
  LET c1 == IF pre = 0 /\ p = at THEN SeedInit(c) ELSE c IN
  IF p = Len(seq) THEN c1 ELSE RunFrom(Apply(c1, kind, seq[p + 1]), kind, seq, p + 1, at, pre)
Canon(kind, S, at, pre) == RunFrom(C0(kind, pre), kind, Asc(S), 0, at, pre)

A0 == [kind |-> "-", pre |-> 0, initAt |-> 0, calls |-> {}, todo |-> {}, hist |-> << >>, inited |-> 1, c |-> Fresh]

InitA ==
  /\ \E kind \in Kinds, pre \in Pres, S \in SUBSET Pool :
       \E at \in (IF pre = 1 THEN {0} ELSE InitAts) :
         /\ Cardinality(S) = K /\ Admissible(S, kind, pre, at)
         /\ a = [kind |-> kind, pre |-> pre, initAt |-> at, calls |-> S, todo |-> S, hist |-> << >>,
                 inited |-> pre, c |-> C0(kind, pre)]
  /\ m = 0 /\ de = 0 /\ en = 0

DoSeedInit ==
  /\ a.inited = 0 /\ Len(a.hist) = a.initAt
  /\ a' = [a EXCEPT !.inited = 1, !.c = SeedInit(a.c)]
  /\ UNCHANGED <<m, de, en>>

DoCall(id) ==
  /\ id \in a.todo
  /\ a.inited = 1 \/ Len(a.hist) < a.initAt
  /\ a' = [a EXCEPT !.todo = a.todo \ {id}, !.hist = Append(a.hist, id), !.c = Apply(a.c, a.kind, id)]
  /\ UNCHANGED <<m, de, en>>

NextA == DoSeedInit \/ \E id \in 1..NCalls : DoCall(id)
SpecA == InitA /\ [][NextA]_vars

CompleteA == a.todo = {} /\ a.inited = 1

(* ---- C07, configuration part, on the design *)
Confluent == CompleteA => a.c = Canon(a.kind, a.calls, a.initAt, a.pre)
SamePopulation == CompleteA => a.c.pop = 1 /\ a.c.popAt = 0
NoEvalDuringConfig == a.c.evals = C0(a.kind, a.pre).evals /\ a.c.fcalls = C0(a.kind, a.pre).fcalls
OwnSlotWritten == CompleteA => \A id \in a.calls :
    LET t == CallTab[id] IN
      CASE t.fam = "term" -> a.c.term = t.x [] t.fam = "cons" -> a.c.cons = t.x [] t.fam = "pen" -> a.c.pen = t.x
        [] t.fam = "ranges" -> a.c.rid = t.x /\ a.c.tight = t.y /\ a.c.clip = t.z /\ a.c.strict = 1
        [] t.fam = "reducer" -> a.c.red = t.x [] t.fam = "emon" -> a.c.emon = t.x [] t.fam = "smon" -> a.c.smon = t.x
        [] t.fam = "map" -> a.c.map = t.x [] t.fam = "save" -> a.c.saveG = t.x /\ a.c.saveF = t.y
        [] t.fam = "obj" -> a.c.obj = t.x [] OTHER -> TRUE

(* vacuity companions (TLC must find a counter-example to each) *)
NeverNonCanonicalOrder == CompleteA => a.hist = Asc(a.calls)
NeverStaleByConfig == ~(a.pre = 1 /\ CompleteA /\ a.c.live = 0)
NeverPendingFlushed == ~(a.kind = "PW" /\ a.pre = 1 /\ CompleteA /\ a.c.nsm = 2)
NeverDrawsInConfig == CompleteA => a.c.rng = C0(a.kind, 1).rng \/ a.c.rng = PopDraws

-----------------------------------------------------------------------------
(*                    PART B : the map-based step                          *)
-----------------------------------------------------------------------------
Idle == [i \in 1..N |-> "idle"]
M0 == [pc |-> "idle", st |-> Idle, order |-> << >>, ev |-> << >>]
Running == {i \in 1..N : m.st[i] = "run"}
AllDone == \A i \in 1..N : m.st[i] = "done"

(* ------------------------------ DE2 ------------------------------ *)
(* de.trial[g][i]: energy of the trial vector of candidate i in generation g (id 100*g + i);   *)
(* the state after generation 0 is arbitrary: popE, best = first minimum in index order          *)
FirstMin(f) == CHOOSE i \in 1..N : (\A j \in 1..N : f[i] <= f[j]) /\ (\A j \in 1..(i - 1) : f[j] > f[i])

DECore(d) == [popE |-> d.popE, popX |-> d.popX, bestE |-> d.bestE, bestX |-> d.bestX, evals |-> d.evals, gen |-> d.gen]

RECURSIVE Select(_, _, _)
Select(d, te, i) ==         \* candidates in index order: strict improvement replaces, then the all-time best
  IF i > N THEN d
  ELSE LET tid == 100 * (d.gen + 1) + i IN
       IF te[i] < d.popE[i]
       THEN LET d1 == [d EXCEPT !.popE[i] = te[i], !.popX[i] = tid]
                d2 == IF te[i] < d1.bestE THEN [d1 EXCEPT !.bestE = te[i], !.bestX = tid] ELSE d1
            IN Select(d2, te, i + 1)
       ELSE Select(d, te, i + 1)
StepDE(d, te) == LET s == Select(d, te, 1) IN [s EXCEPT !.gen = d.gen + 1, !.evals = d.evals + N]

DEInit(p0, tr) == [p0 |-> p0, trial |-> tr, popE |-> p0, popX |-> Ids(N), bestE |-> p0[FirstMin(p0)], bestX |-> FirstMin(p0),
                   evals |-> N, gen |-> 0, res |-> [i \in 1..N |-> None]]

RECURSIVE SerialDE(_, _)
SerialDE(d0, g) == IF g = 0 THEN d0 ELSE LET p == SerialDE(d0, g - 1) IN StepDE(p, d0.trial[g])

(* ---------------------------- ensemble ---------------------------- *)
Member0(i) == [bestE |-> INF, bestX |-> 10 * i, evals |-> 0, gens |-> 0, fin |-> FALSE]
Mem0 == [i \in 1..N |-> Member0(i)]
AllFin(mm) == \A i \in 1..N : mm[i].fin
RECURSIVE SumTo(_, _)
SumTo(f, n) == IF n = 0 THEN 0 ELSE f[n] + SumTo(f, n - 1)
SumEvals(mm) == SumTo([i \in 1..N |-> mm[i].evals], N)

NonIncreasing(t) == \A j \in 1..(Len(t) - 1) : t[j + 1][2] <= t[j][2]
Programs == UNION {{t \in [1..n -> Ks \X Energies] : NonIncreasing(t)} : n \in 1..Gens}

OneStep(traj, mb, i) ==
  LET st == traj[i][mb.gens + 1]
      g == mb.gens + 1
  IN [mb EXCEPT !.bestE = st[2], !.bestX = IF st[2] < mb.bestE THEN 10 * i + g ELSE mb.bestX,
                !.evals = mb.evals + st[1], !.gens = g, !.fin = (g = Len(traj[i]))]
RECURSIVE RunAll(_, _, _)
RunAll(traj, mb, i) == IF mb.fin THEN mb ELSE RunAll(traj, OneStep(traj, mb, i), i)
Progress(traj, mb, i, md) == IF mb.fin THEN mb ELSE IF md = "step" THEN OneStep(traj, mb, i) ELSE RunAll(traj, mb, i)

(* __update_bestSolver: cur starts as the previous best (member 1 if none); a scanned member that compares *)
(* "better" replaces it                                                                                    *)
Better(x, y) == IF Cmp = "le" THEN x <= y ELSE x < y
RECURSIVE ScanFrom(_, _, _, _)
ScanFrom(mm, cur, seq, p) ==
  IF p > Len(seq) THEN cur
  ELSE ScanFrom(mm, IF Better(mm[seq[p]].bestE, mm[cur].bestE) THEN seq[p] ELSE cur, seq, p + 1)
Reduce(mm, b, seq) == ScanFrom(mm, IF b = None THEN 1 ELSE b, seq, 1)
HandBack(mm, b) == [bestE |-> mm[b].bestE, bestX |-> mm[b].bestX, evals |-> mm[b].evals, total |-> SumEvals(mm)]

CollectEns(e, mm, seq) ==      \* mm: the members returned by the map call, by index
  LET skip == ~FinalReduce /\ e.mode = "step" /\ AllFin(mm)
      b2 == IF skip THEN (IF e.best = None THEN 1 ELSE e.best) ELSE Reduce(mm, e.best, seq)
  IN [e EXCEPT !.mem = mm, !.best = b2, !.ens = HandBack(mm, b2), !.rounds = e.rounds + 1,
               !.stopped = (e.mode = "solve" \/ AllFin(mm))]

EnsInit(md, tj) == [mode |-> md, traj |-> tj, mem |-> Mem0, res |-> Mem0, best |-> None,
                    ens |-> [bestE |-> INF, bestX |-> None, evals |-> 0, total |-> 0], rounds |-> 0, stopped |-> FALSE]
EnsCore(e) == [mem |-> e.mem, best |-> e.best, ens |-> e.ens, rounds |-> e.rounds, stopped |-> e.stopped]
EnsObs(e) == [best |-> e.best, ens |-> e.ens, E |-> [i \in 1..N |-> e.mem[i].bestE],
              X |-> [i \in 1..N |-> e.mem[i].bestX], evals |-> [i \in 1..N |-> e.mem[i].evals]]

SerialRound(e) == CollectEns(e, [i \in 1..N |-> Progress(e.traj, e.mem[i], i, e.mode)], Ids(N))
RECURSIVE SerialEns(_, _)
SerialEns(e0, r) == IF r = 0 THEN e0 ELSE SerialRound(SerialEns(e0, r - 1))
RECURSIVE SerialFinal(_)
SerialFinal(e) == IF e.stopped THEN e ELSE SerialFinal(SerialRound(e))

(* ------------------------------ machine ------------------------------ *)
InitB ==
  /\ a = A0 /\ m = M0
  /\ IF Sys = "de2"
     THEN /\ \E p0 \in [1..N -> Energies], tr \in [1..Gens -> [1..N -> Energies]] : de = DEInit(p0, tr)
          /\ en = 0
     ELSE /\ \E md \in Modes, tj \in [1..N -> Programs] : en = EnsInit(md, tj)
          /\ de = 0

Begin ==
  /\ m.pc = "idle"
  /\ IF Sys = "de2" THEN de.gen < Gens ELSE ~en.stopped
  /\ m' = [M0 EXCEPT !.pc = "map"]
  /\ IF Sys = "de2" THEN de' = [de EXCEPT !.res = [i \in 1..N |-> None]] /\ UNCHANGED en
                    ELSE en' = [en EXCEPT !.res = en.mem] /\ UNCHANGED de
  /\ UNCHANGED a

Start(i) ==
  /\ m.pc = "map" /\ m.st[i] = "idle" /\ Cardinality(Running) < MaxRun
  /\ m' = [m EXCEPT !.st[i] = "run", !.ev = IF Track THEN Append(m.ev, i) ELSE m.ev]
  /\ UNCHANGED <<a, de, en>>

Complete(i) ==
  /\ m.pc = "map" /\ m.st[i] = "run"
  /\ m' = [m EXCEPT !.st[i] = "done", !.order = Append(m.order, i), !.ev = IF Track THEN Append(m.ev, 0 - i) ELSE m.ev]
  /\ IF Sys = "de2" THEN de' = [de EXCEPT !.res[i] = de.trial[de.gen + 1][i]] /\ UNCHANGED en
                    ELSE en' = [en EXCEPT !.res[i] = Progress(en.traj, en.mem[i], i, en.mode)] /\ UNCHANGED de
  /\ UNCHANGED a

Collect ==
  /\ m.pc = "map" /\ AllDone
  /\ m' = [m EXCEPT !.pc = "idle"]
  /\ IF Sys = "de2"
     THEN /\ de' = StepDE(de, IF Consume = "index" THEN de.res ELSE [j \in 1..N |-> de.res[m.order[j]]])
          /\ UNCHANGED en
     ELSE /\ en' = CollectEns(en, en.res, IF Scan = "index" THEN Ids(N) ELSE m.order)
          /\ UNCHANGED de
  /\ UNCHANGED a

NextB == Begin \/ Collect \/ \E i \in 1..N : Start(i) \/ Complete(i)
SpecB == InitB /\ [][NextB]_vars

(* ---- C07, schedule part, on the design *)
SettledB == m.pc = "idle"
ScheduleIndependence ==
  SettledB => IF Sys = "de2"
              THEN DECore(de) = DECore(SerialDE(DEInit(de.p0, de.trial), de.gen))
              ELSE EnsCore(en) = EnsCore(SerialEns(EnsInit(en.mode, en.traj), en.rounds))
ResultsByIndex ==          \* a completed item's result is the one of ITS work item, whoever else ran meanwhile
  m.pc = "map" => \A i \in 1..N : m.st[i] = "done" =>
      IF Sys = "de2" THEN de.res[i] = de.trial[de.gen + 1][i]
                     ELSE en.res[i] = Progress(en.traj, en.mem[i], i, en.mode)
(* both drivers end with the same result (ensembles) *)
ModesAgree == Sys = "ens" => EnsObs(SerialFinal(EnsInit("step", en.traj))) = EnsObs(SerialFinal(EnsInit("solve", en.traj)))
ResultAsSolve == (Sys = "ens" /\ SettledB /\ en.stopped) => EnsObs(en) = EnsObs(SerialFinal(EnsInit("solve", en.traj)))
LastMinimum == (Sys = "ens" /\ SettledB /\ en.rounds > 0) =>
    /\ \A j \in 1..N : en.mem[en.best].bestE <= en.mem[j].bestE
    /\ \A j \in (en.best + 1)..N : en.mem[j].bestE > en.mem[en.best].bestE
TypeB == /\ m.pc \in {"idle", "map"} /\ Cardinality(Running) <= MaxRun
         /\ Range(m.order) = {i \in 1..N : m.st[i] = "done"}

(* vacuity companions (TLC must find a counter-example to each) *)
NeverOutOfOrder == m.pc = "map" /\ AllDone => m.order = Ids(N)
NeverTwoRunning == Cardinality(Running) <= 1
NeverTie == (Sys = "ens" /\ SettledB /\ en.rounds > 0) => Cardinality({i \in 1..N : en.mem[i].bestE = en.mem[en.best].bestE}) = 1
NeverBestChangesLate == (Sys = "ens" /\ SettledB /\ en.rounds > 1) => en.best = SerialEns(EnsInit(en.mode, en.traj), en.rounds - 1).best
NeverReplaced == (Sys = "de2" /\ SettledB) => de.popX = Ids(N)
NeverBestImproves == (Sys = "de2" /\ SettledB) => de.bestX <= N
=============================================================================
