---------------------------- MODULE Trace_Powell ----------------------------
(***************************************************************************)
(* Trace validation (code -> spec) of Powell runs against the outer loop   *)
(* of Powell.tla.                                                          *)
(*                                                                         *)
(* IOEnv.TRACE_FILE is a JSON array of traces recorded by                  *)
(* harness/c08_rec.py from the REAL PowellDirectionalSolver (driven Step   *)
(* by Step, through Solve() or through fmin_powell) with                   *)
(* mystic.scipy_optimize._linesearch_powell -- the GIVEN line search --    *)
(* wrapped in the harness process.  A trace is [n, maxiter, maxfun, ev].   *)
(* Points and directions are interned exact float tuples, energies are     *)
(* order-preserving ranks of one rank space per run, decreases are ranks   *)
(* in a second space (0 = rank of 0.0, NaN = inf - inf).  Events:          *)
(*   start  call [p, doc, f]: the one objective call; doc = p is x0 bit    *)
(*          for bit; dirs = the configured direction set                   *)
(*   loop   ls = the line-search calls of one direction loop, each         *)
(*          [din, pin, fb, fa, pout, dout, d, k, tol, ddoc] (see Powell);  *)
(*          fb and d are computed by the harness from the floats the line  *)
(*          searches returned (d = fb - fa in float arithmetic); tol = the *)
(*          line search was asked for the tolerance xtol*100; stray =      *)
(*          objective calls outside any line search; ncog = the stop test  *)
(*          2(fx-fval) <= ftol(|fx|+|fval|)+1e-20 recomputed by the        *)
(*          harness from the floats whose ranks are nfx, nfv               *)
(*   extra  xa, x1a = the points X, X1 the harness used to recompute the   *)
(*          documented extrapolated point 2X - X1 and direction X - X1;    *)
(*          call [p, doc, f] the objective call, doc = p is 2X - X1 bit    *)
(*          for bit; fxa, fva = ranks of the floats fx, fval the harness   *)
(*          put into the documented formula                                *)
(*            t = 2(fx+fx2-2fval)(fx-fval-delta)^2 - delta(fx-fx2)^2;      *)
(*          tneg[j+1] = (t < 0) with delta = the decrease of line search j *)
(*          of the last loop (j = 0: delta = 0.0) -- WHICH j applies is    *)
(*          decided here by the specification's own bigind/delta;          *)
(*          els = the extra line search if one was made (ddoc = it was     *)
(*          given the direction X - X1 bit for bit)                        *)
(*   post   (start, loop) what the solver holds after the Step:            *)
(*          x, fval, direc, x1, fx, bigind, delta, it, ev, ehlen, ehlast,  *)
(*          ehprev, stop                                                   *)
(*   ret    what the run reports: x, f, it, ev, warn (-1 if not            *)
(*          fmin_powell), direc                                            *)
(* A mystic Step #1 is `start`, Step #2 is `loop`, every later Step is     *)
(* `extra` followed by `loop` (mystic performs the extrapolation of        *)
(* iteration k at the beginning of Step k+1; the reference at the end of   *)
(* iteration k, after the same stop test -- the same sequence of actions). *)
(* Every event must be the Powell.tla action from the current state with   *)
(* its nondeterminism pinned by the recorded values, and the solver's      *)
(* post-state must equal the specification's.                              *)
(***************************************************************************)
EXTENDS Powell, Json, IOUtils, TLCExt

Traces == JsonDeserialize(IOEnv.TRACE_FILE)

VARIABLES tid, l
tvars == <<s, tid, l>>

T == Traces[tid]
E == T.ev[l]
More == l <= Len(T.ev)
Diagnose == "DIAG" \in DOMAIN IOEnv

(* Named deviation, DISABLED unless IOEnv.DEV_FIRSTSTOP is set (the harness re-validates a rejected trace with it only to
   classify the rejection and to have the rest of the run validated): the solver does not apply the stop test
   2(fx-fval) <= ftol(|fx|+|fval|)+1e-20 after the FIRST direction loop (the reference does). *)
DevFirstStop == "DEV_FIRSTSTOP" \in DOMAIN IOEnv

AllTrue(cl) == \A i \in DOMAIN cl : cl[i][2]
Probe(cl) == Diagnose => PrintT(<<"@@", ToJson([probe |-> tid, at |-> l,
                                   failing |-> {cl[i][1] : i \in {j \in DOMAIN cl : ~cl[j][2]}}])>>)

TraceInit ==
  /\ tid \in 1..Len(Traces)
  /\ l = 1
  /\ s = Init0(Traces[tid].n, Traces[tid].maxiter, Traces[tid].maxfun)

Go(post) == s' = post /\ l' = l + 1 /\ UNCHANGED tid

(* the solver's state after a Step equals the specification's *)
PostClauses(t, p, full) == <<
  <<"post:current-point", p.x = t.x>>,
  <<"post:current-energy", p.fval = t.fval>>,
  <<"post:direction-set", p.direc = t.direc>>,
  <<"post:x1-is-where-the-loop-started", full => p.x1 = t.x1>>,
  <<"post:fx-is-the-energy-the-loop-started-from", full => p.fx = t.fx>>,
  <<"post:bigind-is-the-direction-of-largest-decrease", full => p.bigind = t.bigind>>,
  <<"post:delta-is-the-largest-decrease", full => p.delta = t.delta>>,
  <<"post:iteration-counter", p.it = t.iters>>,
  <<"post:evaluation-counter", p.ev = t.evals>>,
  <<"post:energy-history-length", p.ehlen = t.ehlen>>,
  <<"post:energy-history-last", p.ehlast = t.ehlast>>,
  <<"post:energy-history-previous", full => p.ehprev = t.ehprev>>,
  <<IF t.iters = 1 THEN "post:stop-rule-after-the-first-iteration" ELSE "post:stop-rule", p.stop = t.stopped>> >>

TStart ==
  /\ More /\ E.t = "start"
  /\ LET post == StartF(s, E.call.p, E.call.f, E.dirs)
         cl == << <<"start:not-the-first-step", s.pc = "new">>,
                  <<"start:exactly-one-call", E.ncalls = 1>>,
                  <<"start:evaluated-point-is-x0", E.call.doc>>,
                  <<"start:direction-set-has-N-directions", Len(E.dirs) = s.n>> >> \o PostClauses(post, E.post, FALSE)
     IN Probe(cl) /\ AllTrue(cl) /\ Go(post)

TLoop ==
  /\ More /\ E.t = "loop"
  /\ LET ok == s.pc = "loop" /\ ~s.stopped /\ Len(E.ls) >= 1
         post == IF ok THEN LoopF(s, E.ls, IF DevFirstStop /\ s.iters = 0 THEN FALSE ELSE E.ncog) ELSE s
         cl == << <<"loop:direction-loop-out-of-turn-or-after-the-stop", ok>>,
                  <<"loop:N-line-searches-along-direc[0..N-1]-each-from-where-the-previous-ended", ok /\ ChainOK(s, E.ls)>>,
                  <<"loop:line-search-tolerance-is-xtol*100", \A i \in 1..Len(E.ls) : E.ls[i].tol>>,
                  <<"loop:objective-called-outside-a-line-search", E.stray = 0>>,
                  <<"loop:stop-test-uses-loop-start-and-loop-end-energy", ok => (E.nfx = post.fx /\ E.nfv = post.fval)>> >>
               \o PostClauses(post, E.post, TRUE)
     IN Probe(cl) /\ AllTrue(cl) /\ Go(post)

TExtra ==
  /\ More /\ E.t = "extra"
  /\ LET ok == s.pc = "extra" /\ ~s.stopped /\ Len(E.tneg) = s.n + 1
         j == IF s.delta = 0 THEN 0 ELSE s.bigind + 1          \* whose decrease is delta
         tneg == IF ok THEN E.tneg[j + 1] ELSE FALSE
         post == IF ok THEN ExtraF(s, E.call.f, tneg, E.els) ELSE s
         cl == << <<"extra:extrapolation-out-of-turn-or-after-the-stop", ok>>,
                  <<"extra:exactly-one-objective-call-outside-line-searches", E.ncalls = 1>>,
                  <<"extra:formula-points-are-x-and-x1", E.xa = s.x /\ E.x1a = s.x1>>,
                  <<"extra:evaluated-point-is-2x-x1", E.call.doc>>,
                  <<"extra:formula-energies-are-fx-and-fval", E.fxa = s.fx /\ E.fva = s.fval>>,
                  <<"extra:line-search-along-x-x1-iff-fx>fx2-and-t<0", ok /\ ExtraOK(s, E.call.f, tneg, E.els)>>,
                  <<"extra:extra-line-search-direction-is-x-x1", \A i \in 1..Len(E.els) : E.els[i].ddoc>>,
                  <<"extra:line-search-tolerance-is-xtol*100", \A i \in 1..Len(E.els) : E.els[i].tol>> >>
     IN Probe(cl) /\ AllTrue(cl) /\ Go(post)

TRet ==
  /\ More /\ E.t = "ret"
  /\ LET warn == IF s.evals >= s.maxfun THEN 1 ELSE IF s.iters >= s.maxiter THEN 2 ELSE 0
         cl == << <<"ret:returned-before-the-stop-rule-held", s.stopped /\ s.pc = "extra">>,
                  <<"ret:minimizer-is-the-current-point", E.x = s.x>>,
                  <<"ret:minimum-is-its-energy", E.f = s.fval>>,
                  <<"ret:iteration-count", E.it = s.iters>>,
                  <<"ret:evaluation-count", E.ev = s.evals>>,
                  <<"ret:direction-set", E.direc = s.direc>>,
                  <<"ret:warnflag", E.warn # -1 => E.warn = warn>> >>
     IN Probe(cl) /\ AllTrue(cl) /\ Go([s EXCEPT !.pc = "done"])

TraceNext == TStart \/ TLoop \/ TExtra \/ TRet
TraceSpec == TraceInit /\ [][TraceNext]_tvars

-----------------------------------------------------------------------------
(* register 1 = accepted trace ids, 2 = longest matched prefix (diagnosis), 3 = counts of what happened *)
ASSUME TLCSet(1, {})
ASSUME TLCSet(2, [i \in 1..Len(Traces) |-> 0])
ASSUME TLCSet(3, [loops |-> 0, kept |-> 0, replaced |-> 0, bigind0 |-> 0, bigindpos |-> 0, deltazero |-> 0, increasing |-> 0])

Bump(f) == TLCSet(3, [TLCGet(3) EXCEPT ![f] = @ + 1])
Accept ==
  /\ (l = Len(T.ev) + 1) => TLCSet(1, TLCGet(1) \cup {tid})
  /\ Diagnose => (TLCGet(2)[tid] < l => TLCSet(2, [TLCGet(2) EXCEPT ![tid] = l]))
  /\ (s.pc = "extra" => /\ Bump("loops")
                        /\ (s.delta = 0 => Bump("deltazero"))
                        /\ (s.delta # 0 /\ s.bigind = 0 => Bump("bigind0"))
                        /\ (s.bigind > 0 => Bump("bigindpos"))
                        /\ (s.fval > s.fx => Bump("increasing")))
  /\ (s.pc = "loop" /\ s.rep = "kept" => Bump("kept"))
  /\ (s.pc = "loop" /\ s.rep = "replaced" => Bump("replaced"))

AllAccepted ==
  /\ PrintT(<<"@@", ToJson([accepted |-> Cardinality(TLCGet(1)), total |-> Len(Traces),
                            rejected |-> (1..Len(Traces)) \ TLCGet(1),
                            prefix |-> IF Diagnose THEN TLCGet(2) ELSE << >>,
                            counts |-> TLCGet(3)])>>)
  /\ TRUE
=============================================================================
