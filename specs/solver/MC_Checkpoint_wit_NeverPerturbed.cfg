\* vacuity witness: the negated reachability claim must be VIOLATED
SPECIFICATION Spec
CONSTANTS Kinds = {"DE"}
  NP = 2
  MaxGen = 2
  MaxInst = 3
  MaxCells = 14
  Settings <- XSettings
  Design = "ok"
  MaxOps = 4
INVARIANT NeverPerturbed
