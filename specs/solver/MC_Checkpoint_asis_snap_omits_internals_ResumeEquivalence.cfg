\* refuted design: TLC must report ResumeEquivalence violated
SPECIFICATION Spec
CONSTANTS Kinds = {"DE", "DE2", "NM", "PW"}
  NP = 2
  MaxGen = 2
  MaxInst = 3
  MaxCells = 10
  Settings <- QSettings
  Design = "snap_omits_internals"
  MaxOps = 3
INVARIANT ResumeEquivalence
