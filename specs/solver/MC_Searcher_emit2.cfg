SPECIFICATION Spec
CONSTANTS
  N = 2
  Points <- Pts
  En <- EnQ
  KeyOf <- KeyQ
  Outs <- Outs2s
  Configs <- ConfigsQ
  Ops <- OpsSR
  MaxOps = 2
  MaxSolves = 5
  Design = "documented"
CONSTRAINT Bounded
INVARIANT ArchiveIsEvaluated
INVARIANT CacheIsBests
INVARIANT MinimaAreAllMinima
INVARIANT SamplesAreEvaluations
INVARIANT RetryHonoured
INVARIANT ResetClears
INVARIANT SprayersOnlyWithTraj
INVARIANT Emit
