SPECIFICATION Spec
CONSTANTS
  Calls <- CallsMenu2
  Switches <- SwPlain
  Wheres = {"cost", "cb"}
  InitHandlers = {"default"}
  MaxCalls = 3
  MaxSig = 2
  MaxMenu = 2
  ConsultExit = TRUE
INVARIANT TypeOK
INVARIANT LateZero
INVARIANT MsgNamesExit
INVARIANT ExitVisible
INVARIANT HandlerDiscipline
INVARIANT RestoredAfterSolve
INVARIANT DeadOnlyDefault
INVARIANT CallbackCount
PROPERTY NoIterAfterExit
PROPERTY ForeignUntouched
PROPERTY PromptsOnlyInMenu
PROPERTY SolveStartsClean
PROPERTY StepKeepsRequest
INVARIANT Emit
