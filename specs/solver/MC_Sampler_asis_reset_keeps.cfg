SPECIFICATION Spec
CONSTANTS
  N = 2
  Trajs <- Trajs2
  Calls <- CallsA
  MaxCalls = 2
  Design = "asis_reset_keeps"
INVARIANT EvalsAreRealCalls
INVARIANT ItersAreRounds
INVARIANT MembersContinue
INVARIANT NeverMeansNever
INVARIANT RealIsSumOfMembers
INVARIANT ResetRestores
INVARIANT UntilReached
INVARIANT UntilMinimal
INVARIANT InvalidDoesNothing
