SPECIFICATION Spec
CONSTANTS S = 20
  Problems <- ThoroughProblems
INVARIANT SortedSimplex
INVARIANT EnergiesFaithful
INVARIANT CountersConsistent
INVARIANT StopIsJustified
PROPERTY BestNeverWorsens
PROPERTY EvalsPerIteration
PROPERTY OnlyWorstReplaced
INVARIANT Emit
