SPECIFICATION FairSpec
CONSTANTS
  Calls <- CallsMenu2
  Switches <- SwPlain
  Wheres = {"cost"}
  InitHandlers = {"default", "user"}
  MaxCalls = 2
  MaxSig = 1
  MaxMenu = 2
  ConsultExit = TRUE
INVARIANT TypeOK
PROPERTY SolveReturns
PROPERTY StepReturns
