------------------------------- MODULE Objective -------------------------------
(***************************************************************************)
(* S2/S3 -- the decorated objective and what a solver may report.          *)
(*                                                                         *)
(* Points are ids from the finite set Pt.  The user's functions are        *)
(* tables chosen by TLC:                                                   *)
(*   Cons  \in [Pt -> Pt]     deterministic, idempotent constraints        *)
(*   Box   \subseteq Pt       the strict ranges (Cons maps Box into Box)   *)
(*   Cost, Pen \in [Pt -> Energy]                                          *)
(* The objective a solver minimises is                                     *)
(*   Obj(p) == LET q == Cons[p] IN IF q \in Box THEN Cost[q]+Pen[q] ELSE Inf*)
(* and evaluating it at p CALLS the user's cost at Cons[p] iff that point  *)
(* is in the box (`calls` is the log of those calls).                      *)
(*                                                                         *)
(* Two abstract solvers over this objective:                               *)
(*  "DE"  population of NP members; a generation proposes ANY trial per    *)
(*        member (every mutation strategy is a refinement), constrains it, *)
(*        evaluates it, replaces the member on strictly lower energy and   *)
(*        keeps an all-time best.  Members are stored constrained.         *)
(*  "NM"  simplex whose vertices are stored UNconstrained with the nested  *)
(*        objective as energy; the reported best is vertex 1.  BestRule    *)
(*        says when the best vertex is replaced by its constrained image:  *)
(*        "next" = at the start of the next iteration (pinned tree),       *)
(*        "report" = before it is reported (after the sort).               *)
(*                                                                         *)
(* C01/C02/C03 are the invariants at the end.                              *)
(***************************************************************************)
EXTENDS Integers, Sequences, FiniteSets, TLC

CONSTANTS Pt,          \* point ids
          MaxE,        \* finite energies are 0..MaxE
          NP,          \* population / simplex size
          Solver,      \* "DE" | "NM"
          BestRule,    \* "next" | "report"   (NM only)
          MaxIter

Inf == 1000
Energy == 0..MaxE

VARIABLES cons, box, cost, pen,      \* the user's tables (constant along a behaviour)
          pop, popE,                 \* members / vertices and their stored energies
          best, bestE,               \* what the solver reports
          calls,                     \* set of points at which the user's cost was called
          init,                      \* energy of the initial guess
          iter
vars == <<cons, box, cost, pen, pop, popE, best, bestE, calls, init, iter>>

Add(a, b) == IF a = Inf \/ b = Inf THEN Inf ELSE a + b
InBox(p) == p \in box
Obj(p) == LET q == cons[p] IN IF InBox(q) THEN Add(cost[q], pen[q]) ELSE Inf
Called(p) == LET q == cons[p] IN IF InBox(q) THEN {q} ELSE {}     \* the call evaluating Obj(p) makes

Idempotent(f) == \A p \in Pt : f[f[p]] = f[p]

(* a permutation putting the energies in non-decreasing order (stable) *)
SortedBy(P, PE) ==   \* a permutation putting the energies in non-decreasing order (stable)
  CHOOSE f \in [1..NP -> 1..NP] :
     /\ \A i, j \in 1..NP : i # j => f[i] # f[j]
     /\ \A i, j \in 1..NP : i < j => (PE[f[i]] < PE[f[j]] \/ (PE[f[i]] = PE[f[j]] /\ f[i] < f[j]))

Init ==
  /\ cons \in {f \in [Pt -> Pt] : Idempotent(f)}
  /\ box \in (SUBSET Pt) \ {{}}
  /\ \A p \in box : cons[p] \in box              \* premise: constraints compatible with the ranges
  /\ cost \in [Pt -> Energy]
  /\ pen \in [Pt -> {0, 1}]
  /\ \E x0 \in [1..NP -> Pt] :
       \* generation 0/1: every member is evaluated where it stands
       /\ calls = UNION {Called(x0[i]) : i \in 1..NP}
       /\ init = Obj(x0[1])
       /\ IF Solver = "DE"
          THEN \* DE stores the constrained points; best = first member of least energy
               LET m == CHOOSE i \in 1..NP : \A j \in 1..NP : Obj(x0[i]) <= Obj(x0[j]) /\ (Obj(x0[i]) = Obj(x0[j]) => i <= j)
               IN /\ pop = [i \in 1..NP |-> cons[x0[i]]]
                  /\ popE = [i \in 1..NP |-> Obj(x0[i])]
                  /\ best = cons[x0[m]] /\ bestE = Obj(x0[m])
          ELSE \* NM: the initial guess is constrained, the other vertices are stored as built; sort; report vertex 1
               LET P1 == [i \in 1..NP |-> IF i = 1 THEN cons[x0[1]] ELSE x0[i]]
                   E1 == [i \in 1..NP |-> Obj(x0[i])]
                   f == SortedBy(P1, E1)
                   P2 == [i \in 1..NP |-> P1[f[i]]]
                   E2 == [i \in 1..NP |-> E1[f[i]]]
                   P3 == IF BestRule = "report" THEN [P2 EXCEPT ![1] = cons[P2[1]]] ELSE P2
               IN /\ pop = P3 /\ popE = E2 /\ best = P3[1] /\ bestE = E2[1]
  /\ iter = 0

(* ---- DE generation: trials for all members (in-place selection) ---- *)
RECURSIVE DEApply(_, _, _, _, _, _)
DEApply(i, trial, P, PE, B, BE) ==   \* returns <<pop, popE, best, bestE>>
  IF i > NP THEN <<P, PE, B, BE>>
  ELSE LET t == cons[trial[i]]
           e == Obj(t)
           better == e < PE[i]
           P2 == IF better THEN [P EXCEPT ![i] = t] ELSE P
           PE2 == IF better THEN [PE EXCEPT ![i] = e] ELSE PE
           newbest == better /\ e < BE
       IN DEApply(i + 1, trial, P2, PE2, IF newbest THEN t ELSE B, IF newbest THEN e ELSE BE)

DEStep ==
  /\ Solver = "DE" /\ iter < MaxIter
  /\ \E trial \in [1..NP -> Pt] :
       LET r == DEApply(1, trial, pop, popE, best, bestE) IN
       /\ pop' = r[1] /\ popE' = r[2] /\ best' = r[3] /\ bestE' = r[4]
       /\ calls' = calls \cup UNION {Called(cons[trial[i]]) : i \in 1..NP}
  /\ iter' = iter + 1
  /\ UNCHANGED <<cons, box, cost, pen, init>>

(* ---- NM iteration: the worst vertex is replaced by ANY candidate point with lower energy   *)
(*      (reflection / expansion / contraction are refinements), or the simplex shrinks;       *)
(*      then the vertices are sorted by energy and vertex 1 is reported                       *)
NMStep ==
  /\ Solver = "NM" /\ iter < MaxIter
  /\ LET P0 == IF BestRule = "next" THEN [pop EXCEPT ![1] = cons[pop[1]]] ELSE pop   \* constrain the best vertex first
     IN \E c \in Pt :
          LET e == Obj(c)
              w == NP
              P1 == IF e < popE[w] THEN [P0 EXCEPT ![w] = c] ELSE P0
              E1 == IF e < popE[w] THEN [popE EXCEPT ![w] = e] ELSE popE
              f == SortedBy(P1, E1)
              P2 == [i \in 1..NP |-> P1[f[i]]]
              E2 == [i \in 1..NP |-> E1[f[i]]]
              P3 == IF BestRule = "report" THEN [P2 EXCEPT ![1] = cons[P2[1]]] ELSE P2
          IN /\ pop' = P3 /\ popE' = E2
             /\ best' = P3[1] /\ bestE' = E2[1]
             /\ calls' = calls \cup Called(c)
  /\ iter' = iter + 1
  /\ UNCHANGED <<cons, box, cost, pen, init>>

Next == DEStep \/ NMStep
Spec == Init /\ [][Next]_vars

-----------------------------------------------------------------------------
(* C01 *)
BestEvaluated ==       \* the reported point is one at which the user's cost was called, with its true energy
  bestE # Inf => (best \in calls /\ bestE = Add(cost[best], pen[best]))
EnergyFaithful ==      \* every member's stored energy is the objective at that member
  \A i \in 1..NP : popE[i] = Obj(pop[i])
BestLeInit == bestE <= init
BestIsMin == \A i \in 1..NP : bestE <= popE[i]
(* C02 *)
NeverOutside == calls \subseteq box
BestInBox == bestE # Inf => best \in box
(* C03 *)
CallsConstrained == \A p \in calls : cons[p] = p
ReportedConstrained == cons[best] = best /\ bestE = Obj(best)
=============================================================================
