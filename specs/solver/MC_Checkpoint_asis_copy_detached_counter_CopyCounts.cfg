\* refuted design: TLC must report CopyCounts violated
SPECIFICATION Spec
CONSTANTS Kinds = {"DE", "DE2", "NM", "PW"}
  NP = 2
  MaxGen = 2
  MaxInst = 3
  MaxCells = 10
  Settings <- QSettings
  Design = "copy_detached_counter"
  MaxOps = 3
INVARIANT CopyCounts
