---------------------------- MODULE Gen_Lifecycle ----------------------------
(***************************************************************************)
(* Script generator (spec -> code) for Lifecycle.tla.                      *)
(*                                                                         *)
(* A script is a sequence of PUBLIC calls with arguments.  The state holds *)
(* the script so far, the Lifecycle state `s` obtained by running each     *)
(* call's micro-steps (Call, PreStop | Iter, PostStop | PostContinue ...)  *)
(* to completion, and the observation the specification predicts after     *)
(* each call.  The user termination is the scripted condition "holds       *)
(* exactly at the generations in `at`", an exit request may be armed to    *)
(* fire inside the k-th callback.  For the differential-evolution kinds    *)
(* every iteration costs exactly NP evaluations, so the prediction is a    *)
(* function of the script and the harness compares it field by field with  *)
(* the real solver after every call; for Nelder-Mead / Powell the same     *)
(* scripts are executed and their recorded traces validated against        *)
(* Trace_Lifecycle (evaluations per iteration are the code's choice).      *)
(* Breadth-first search enumerates EVERY script up to Depth calls; each    *)
(* complete script is emitted once.                                        *)
(***************************************************************************)
EXTENDS Lifecycle, Json

CONSTANTS Depth, Alphabet   \* Alphabet: "full" or "small"

VARIABLES script, obs, at, armed
gvars == <<s, script, obs, at, armed>>

(* ---- run one Step/Solve call to completion (a function of the state) ---- *)
KFor(t) == CASE t.kind \in {"DE", "DE2"} -> t.np          \* exact for the DE kinds
            [] t.kind = "NM" -> IF t.nsm = 0 THEN 1 ELSE IF Gens(t) = 0 THEN t.dim ELSE 2
            [] OTHER -> IF t.nsm = 0 THEN 1 ELSE 3          \* representative (coverage scripts only)

RECURSIVE Run(_, _, _)
Run(t, atset, arm) ==    \* returns <<final state, remaining arm>>
  IF t.pc = "pre"
  THEN IF t.nsm > 0 /\ Stop(t)
       THEN << [Resolve(t) EXCEPT !.pc = "idle", !.msg = Msg(t), !.began = FALSE, !.stopped = TRUE], arm >>
       ELSE LET fire == arm = 1
                gensAfter == t.nsm                       \* DE: generations after the step = records before it
                t2 == IterF(t, KFor(t), gensAfter \in atset, fire)
            IN Run(t2, atset, IF arm > 0 THEN arm - 1 ELSE 0)
  ELSE IF t.pc = "post"
  THEN IF Stop(t) THEN << PostStopF(t), arm >>
       ELSE IF t.mode = "step" THEN << PostContinueF(t), arm >>
       ELSE Run(PostContinueF(t), atset, arm)
  ELSE << t, arm >>

(* CallF (the post-state function of Call) is defined in Lifecycle.tla *)

Observe(t) == [gens |-> Gens(t), fcalls |-> t.fcalls, nsm |-> t.nsm, nem |-> t.nem, ncb |-> t.ncb,
               live |-> t.live, msg |-> t.msg, limG |-> t.limG, limE |-> t.limE, exit |-> t.exitreq]

(* uniform-shape script entries *)
Op(name, a, b, c, set) == [op |-> name, a |-> a, b |-> b, c |-> c, at |-> set]

LimitArgs == IF Alphabet = "full"
             THEN {<<None, None, 0>>, <<0, None, 0>>, <<1, None, 0>>, <<2, None, 1>>, <<None, 0, 0>>,
                   <<None, 1, 0>>, <<None, NP + 1, 1>>, <<1, NP + 1, 1>>, <<None, None, 1>>}
             ELSE {<<1, None, 0>>, <<2, None, 1>>, <<None, NP + 1, 1>>, <<None, 0, 0>>}
TermSets == IF Alphabet = "full" THEN {{}, {0}, {1}, {2}, {1, 2}} ELSE {{}, {1}}
CfgKinds == IF Alphabet = "full" THEN {"cons", "pen", "objchange"} ELSE {"pen"}

Record(o, t) == /\ script' = Append(script, o)
                /\ obs' = Append(obs, Observe(t))
                /\ s' = t

More == Len(script) < Depth

DoCall(mode) ==
  /\ More
  /\ LET r == Run(CallF(s, mode), at, armed) IN
       /\ Record(Op(mode, 0, 0, 0, {}), r[1])
       /\ armed' = r[2]
  /\ UNCHANGED at

TermNow(t, set) == t.nsm > 0 /\ Gens(t) \in set

DoLimits(g, e, new) ==
  /\ More
  /\ Record(Op("limits", g, e, new, {}),
            Cfg([s EXCEPT !.limG = IF g = None THEN (IF new = 1 THEN Star ELSE None)
                                    ELSE (IF new = 1 THEN g + Gens(s) ELSE g),
                          !.limE = IF e = None THEN (IF new = 1 THEN Star ELSE None)
                                    ELSE (IF new = 1 THEN e + s.fcalls ELSE e)]))
  /\ UNCHANGED <<at, armed>>

DoCfg(what) ==
  /\ More
  /\ Record(Op("cfg:" \o what, 0, 0, 0, {}), Cfg([Restale(s, what) EXCEPT !.mono = s.mono /\ what # "objchange"]))
  /\ UNCHANGED <<at, armed>>

DoEvalMon(new, on) ==
  /\ More
  /\ LET keep == on = 1 /\ s.evmon /\ new = 0 IN
     Record(Op("evalmon", new, on, 0, {}),
            Cfg([FinalizeF(s) EXCEPT !.nem = IF keep THEN s.nem ELSE 0, !.evmon = (on = 1),
                                     !.embase = IF keep THEN s.embase ELSE s.real]))
  /\ UNCHANGED <<at, armed>>

DoStepMon == /\ More
             /\ Record(Op("stepmon", 0, 0, 0, {}), Cfg(IF s.dec THEN FinalizeF(s) ELSE s))
             /\ UNCHANGED <<at, armed>>

DoTerm(set) == /\ More
               /\ Record(Op("term", 0, 0, 0, set), Cfg([s EXCEPT !.term = TermNow(s, set)]))
               /\ at' = set
               /\ UNCHANGED armed

DoExit == /\ More
          /\ Record(Op("exit", 0, 0, 0, {}), Cfg([s EXCEPT !.exitreq = TRUE]))
          /\ UNCHANGED <<at, armed>>

DoArm(k) == /\ More /\ armed = 0
            /\ script' = Append(script, Op("exit_in", k, 0, 0, {}))
            /\ obs' = Append(obs, Observe(s))
            /\ armed' = k
            /\ UNCHANGED <<s, at>>

DoFinalize == /\ More
              /\ Record(Op("finalize", 0, 0, 0, {}), Cfg(FinalizeF(s)))
              /\ UNCHANGED <<at, armed>>

GInit == /\ \E k \in Kinds : s = Init0(k, NP, Dim, DefG, DefE)
         /\ script = << >> /\ obs = << >> /\ at = {} /\ armed = 0

GNext ==
  \/ \E m \in {"step", "solve"} : DoCall(m)
  \/ \E l \in LimitArgs : DoLimits(l[1], l[2], l[3])
  \/ \E w \in CfgKinds : DoCfg(w)
  \/ \E n \in {0, 1}, o \in {0, 1} : (Alphabet = "full" \/ (n = 1 /\ o = 1)) /\ DoEvalMon(n, o)
  \/ (Alphabet = "full" /\ DoStepMon)
  \/ \E set \in TermSets : DoTerm(set)
  \/ DoExit
  \/ \E k \in (IF Alphabet = "full" THEN {1, 2} ELSE {1}) : DoArm(k)
  \/ DoFinalize

GSpec == GInit /\ [][GNext]_gvars

(* the Lifecycle invariants hold along every script (the run-to-completion     *)
(* composition does not invalidate them)                                        *)
GCounter == s.fcalls = s.real
GMsg == MsgTruthful
GStopped == StoppedMonitorComplete

Emit == (Len(script) = Depth) =>
           PrintT(<<"@@", ToJson([script |-> script, obs |-> obs, kind |-> s.kind])>>)
=============================================================================
