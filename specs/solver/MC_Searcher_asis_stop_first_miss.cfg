SPECIFICATION Spec
CONSTANTS
  N = 2
  Points <- Pts
  En <- EnQ
  KeyOf <- KeyQ
  Outs <- Outs2
  Configs <- ConfigsT
  Ops <- OpsSR
  MaxOps = 2
  MaxSolves = 6
  Design = "asis_stop_first_miss"
CONSTRAINT Bounded
INVARIANT ArchiveIsEvaluated
INVARIANT CacheIsBests
INVARIANT MinimaAreAllMinima
INVARIANT SamplesAreEvaluations
INVARIANT RetryHonoured
INVARIANT ResetClears
INVARIANT SprayersOnlyWithTraj
