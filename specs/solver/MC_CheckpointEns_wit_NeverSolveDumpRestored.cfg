\* vacuity witness: the negated reachability claim must be VIOLATED
SPECIFICATION Spec
CONSTANTS EKinds = {"BPW"}
  NMem = 2
  MaxGen = 2
  MaxRefuse = 1
  MaxInst = 3
  MaxCells = 28
  MaxObjs = 6
  Settings <- XSettings
  Design = "ok"
  MaxOps = 3
CONSTRAINT RefIdle
INVARIANT NeverSolveDumpRestored
