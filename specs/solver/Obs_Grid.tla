------------------------------ MODULE Obs_Grid ------------------------------
(***************************************************************************)
(* Judges recorded outputs of the randomised point generators against the  *)
(* post-conditions of Grid.tla.  IOEnv.OBS_FILE is a JSON array of         *)
(*   [kind |-> "rbin", N, ndim, r]            one randomly_bin(N, ndim)    *)
(*   [kind |-> "rbinx", N, ndim, exact, r]    one randomly_bin(N, ndim,    *)
(*                       ones, exact) of the GridGen catalogue; ndim = 0:  *)
(*                       not given (the length is free)                    *)
(*   [kind |-> "pts", npts, dim, lo, hi, pts] one samplepts / fillpts /    *)
(*                       random_samples call; all reals replaced by their  *)
(*                       ranks within the observation (order-preserving)   *)
(* The verdict of an observation is the set of names of the violated       *)
(* clauses (empty = the post-condition holds).                             *)
(***************************************************************************)
EXTENDS Integers, Sequences, TLC, Json, IOUtils

G == INSTANCE Grid WITH Dims <- {1}, MaxBins <- 1, BinChoices <- {1}, Bounds <- {}, Scales <- {0},
                       dim <- 0, nbins <- << >>, lo <- << >>, hi <- << >>, sc <- 0

Obs == JsonDeserialize(IOEnv.OBS_FILE)

Verdict(o) == IF o.kind = "rbin" THEN G!Failing(G!RandomlyBinPost(o.N, o.ndim, o.r))
              ELSE IF o.kind = "rbinx" THEN G!Failing(G!RandomlyBinPostX(o.N, o.ndim, o.exact, o.r))
              ELSE G!Failing(G!PointsPost(o.npts, o.dim, o.lo, o.hi, o.pts))

ASSUME PrintT(<<"@@", ToJson([verdicts |-> [i \in 1..Len(Obs) |-> Verdict(Obs[i])]])>>)
=============================================================================
