SPECIFICATION SpecA
CONSTANTS
  Kinds <- AllKinds
  Pool <- PoolW
  K = 3
  InitAts <- At013
  Pres <- P01
  Variant = "premise-dropped-relative-limits"
  Sys = "de2"
  N = 1
  Energies <- E1
  Gens = 1
  Ks <- K1
  Modes <- Both
  MaxRun = 1
  Consume = "index"
  Scan = "index"
  Cmp = "le"
  FinalReduce = TRUE
  Track = FALSE
INVARIANT Confluent
INVARIANT SamePopulation
INVARIANT NoEvalDuringConfig
INVARIANT OwnSlotWritten
