SPECIFICATION Spec
CONSTANTS
  Dims = {1, 2, 3}
  MaxBins = 3
  BinChoices = {1, 2, 3}
  Scales = {0}
  Bounds <- IBounds
INVARIANT Exact
INVARIANT Representable
INVARIANT CountIsProduct
INVARIANT FullProduct
INVARIANT RowMajor
INVARIANT OwnCellCentre
INVARIANT DistinctIfProper
INVARIANT Emit
