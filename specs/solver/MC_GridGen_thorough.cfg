SPECIFICATION Spec
CONSTANTS
  RbinNs <- TNs
  RbinDims = {0, 1, 2, 3, 4, 5}
  PtsFns <- QFns
  Boxes <- QBoxes
  PtsScales <- TScales
  NPts = {0, 1, 2, 3, 10, 12, 100, 101}
  FillNPts = {1, 2}
  Rtols <- TRtols
INVARIANT BoxesAreBoxes
INVARIANT ProductSane
INVARIANT PostNotVacuous
INVARIANT Emit
