---------------------------- MODULE Trace_Sampler ----------------------------
(***************************************************************************)
(* Trace validation (code -> spec) for Sampler.tla.                        *)
(*                                                                         *)
(* IOEnv.TRACE_FILE is a JSON array of traces; a trace is the record of    *)
(* the public calls made on ONE real Lattice/Buckshot/Sparsity/Mixed-      *)
(* Sampler by harness/c09_sampler.py (real Nelder-Mead / Powell members):  *)
(*   New    n = members                                                    *)
(*   Call   a public call begins: op, cond, reset, li, le, lt (the call    *)
(*          records of Sampler.tla; -1 = limit not given)                  *)
(*   Round  one round (`_sample`) happened: pre / post = the members as    *)
(*          read before / after it ([alive, ev, fin, e]; e = rank of the   *)
(*          member's best energy, INF if none), calls / oob = the model    *)
(*          calls the harness's own cost function saw each member make     *)
(*          during the round / how many of those were outside the bounds,  *)
(*          sev / sit = evals(all=True) / iters(all=True) after the round  *)
(*   Ret    the call returned (or raised ValueError): the reported          *)
(*          counters and totals, the members, the ensemble's own state     *)
(*                                                                         *)
(* Every event must be the corresponding Sampler action with every named   *)
(* clause true; the Sampler invariants hold in every state of every trace. *)
(***************************************************************************)
EXTENDS Sampler, Json, IOUtils, TLCExt

Traces == JsonDeserialize(IOEnv.TRACE_FILE)

VARIABLES tid, l
tvars == <<traj, mem, evals, iters, real, realm, idle, idlem, life, rounds,
           pc, cur, urounds, before, ctx, script, obs, tid, l>>

Tr == Traces[tid]
E  == Tr[l]
Cfg == Tr[1]
Diagnose == "DIAG" \in DOMAIN IOEnv

AllTrue(cl) == \A i \in DOMAIN cl : cl[i][2]
Probe(cl) == Diagnose => PrintT(<<"@@", ToJson([probe |-> tid, at |-> l,
                                   failing |-> {cl[i][1] : i \in {j \in DOMAIN cl : ~cl[j][2]}}])>>)
IsEvent(name) == l <= Len(Tr) /\ E.ev = name /\ l' = l + 1 /\ UNCHANGED tid

Proj(m) == [alive |-> m.alive, ev |-> m.ev, fin |-> m.alive /\ m.fin, e |-> m.e]
ProjAll(m) == [j \in DOMAIN m |-> Proj(m[j])]
CallOf(e) == [op |-> e.op, cond |-> e.cond, reset |-> e.reset, li |-> e.li, le |-> e.le, lt |-> e.lt]

TraceInit ==
  /\ tid \in 1..Len(Traces)
  /\ l = 2
  /\ Traces[tid][1].ev = "New"
  /\ traj = << >>
  /\ mem = [j \in 1..Traces[tid][1].n |-> Fresh]
  /\ evals = [j \in 1..Traces[tid][1].n |-> 0] /\ iters = [j \in 1..Traces[tid][1].n |-> 0]
  /\ real = 0 /\ realm = [j \in 1..Traces[tid][1].n |-> 0]
  /\ idle = 0 /\ idlem = [j \in 1..Traces[tid][1].n |-> 0]
  /\ life = [j \in 1..Traces[tid][1].n |-> 0] /\ rounds = 0
  /\ pc = "idle" /\ cur = << >> /\ urounds = 0 /\ before = << >> /\ ctx = "plain"
  /\ script = << >> /\ obs = << >>

TraceCall ==
  /\ IsEvent("Call")
  /\ LET c == CallOf(E)
         cl == << <<"C09s:call-while-another-call-is-running", pc = "idle">> >>
     IN /\ Probe(cl) /\ AllTrue(cl)
        /\ script' = Append(script, c) /\ cur' = c
        /\ pc' = c.op                    \* "sample" / "until" / "reset": the call is in progress
  /\ urounds' = 0 /\ before' = << >> /\ ctx' = Base
  /\ UNCHANGED <<traj, mem, evals, iters, real, realm, idle, idlem, life, rounds, obs>>

TraceRound ==
  /\ IsEvent("Round")
  /\ LET n == Len(mem)
         ok == Len(E.pre) = n /\ Len(E.post) = n /\ Len(E.calls) = n /\ Len(E.sev) = n /\ Len(E.sit) = n
         R == ResetSet(cur.cond, EffReset(cur), mem)
         base(j) == IF j \in R \/ ~mem[j].alive THEN 0 ELSE mem[j].ev
         cl == << <<"C09s:round-belongs-to-a-sample-or-sample_until-call", pc \in {"sample", "until"} /\ ok>>,
                  <<"C09s:sample-is-exactly-one-round", pc = "sample" => urounds = 0>>,
                  <<"C09s:sample_until-takes-a-round-only-while-no-stop-condition-holds",
                        pc = "until" => ~StopNow(cur, mem, evals, iters)>>,
                  <<"C09s:members-continue-from-the-previous-round-nothing-happens-between-rounds",
                        ok => \A j \in 1..n : E.pre[j] = Proj(mem[j])>>,
                  <<"C09s:members-are-recreated-exactly-as-the-documented-reset-policy-says",
                        ok => \A j \in 1..n : E.post[j].ev = base(j) + E.calls[j]>>,
                  <<"C09s:terminated-member-does-no-work-unless-reset",
                        ok => \A j \in 1..n : (j \notin R /\ mem[j].alive /\ mem[j].fin) =>
                                                 (E.calls[j] = 0 /\ E.post[j] = E.pre[j])>>,
                  <<"C09s:every-member-exists-and-has-stepped-after-a-round",
                        ok => \A j \in 1..n : E.post[j].alive /\ ((j \in R \/ ~mem[j].alive) => E.calls[j] > 0)>>,
                  <<"C09s:member-best-energy-never-worsens",
                        ok => \A j \in 1..n : (j \notin R /\ mem[j].alive) => E.post[j].e <= mem[j].e>>,
                  <<"C09s:evals-charged-the-real-calls-of-the-round-or-one-nominal",
                        ok => \A j \in 1..n : E.sev[j] = evals[j] + Charge(E.calls[j])>>,
                  <<"C09s:iters-charged-one-per-member-and-round",
                        ok => \A j \in 1..n : E.sit[j] = iters[j] + 1>>,
                  <<"C09s:every-evaluated-point-inside-the-bounds",
                        ok => \A j \in 1..n : E.oob[j] = 0>> >>
         m2 == [j \in 1..n |-> [alive |-> E.post[j].alive, ev |-> E.post[j].ev, fin |-> E.post[j].fin, e |-> E.post[j].e,
                                st |-> IF j \in R \/ ~mem[j].alive THEN 1 ELSE mem[j].st + (IF E.calls[j] > 0 THEN 1 ELSE 0)]]
         r == [mem |-> m2, R |-> R, calls |-> E.calls,
               evals |-> [j \in 1..n |-> evals[j] + Charge(E.calls[j])],
               iters |-> [j \in 1..n |-> iters[j] + 1],
               life |-> [j \in 1..n |-> IF j \in R \/ ~mem[j].alive THEN life[j] + 1 ELSE life[j]],
               solved |-> (EffReset(cur) = "solved" /\ R # {}), deviates |-> FALSE]
     IN /\ Probe(cl) /\ AllTrue(cl)
        /\ before' = [mem |-> mem, evals |-> evals, iters |-> iters]
        /\ ApplyRound(r, ctx)
  /\ urounds' = urounds + 1
  /\ UNCHANGED <<traj, pc, cur, script, obs>>

TraceRet ==
  /\ IsEvent("Ret")
  /\ LET n == Len(mem)
         ok == Len(E.mem) = n /\ Len(E.sev) = n /\ Len(E.sit) = n
         cl == << <<"C09s:return-belongs-to-a-call", pc \in {"sample", "until", "reset"} /\ ok>>,
                  <<"C09s:sample-is-exactly-one-round", pc = "sample" => urounds = 1>>,
                  <<"C09s:sample_until-argument-check-as-documented",
                        E.raised <=> (pc = "until" /\ ~ValidN(cur, n))>>,
                  <<"C09s:a-rejected-call-does-nothing", E.raised => urounds = 0>>,
                  <<"C09s:sample_until-returns-only-when-a-stop-condition-holds",
                        (pc = "until" /\ ~E.raised) => StopNow(cur, mem, evals, iters)>>,
                  <<"C09s:reset-does-no-round", pc = "reset" => urounds = 0>>,
                  <<"C09s:reset-restores-the-constructed-ensemble",
                        (pc = "reset" /\ ok) => /\ \A j \in 1..n : ~E.mem[j].alive
                                               /\ E.ensEv = 0 /\ E.ensE = INF /\ E.ensBest = 0>>,
                  <<"C09s:members-after-the-call-are-the-members-after-its-last-round",
                        (pc # "reset" /\ ok) => \A j \in 1..n : E.mem[j] = Proj(mem[j])>>,
                  <<"C09s:reported-per-member-counters-are-the-charged-ones", ok => (E.sev = evals /\ E.sit = iters)>>,
                  <<"C09s:reported-totals-are-the-sums", E.tev = Sum(evals) /\ E.tit = Sum(iters)>>,
                  <<"C09s:reported-evals-equal-real-model-calls-plus-nominal-charges",
                        E.real = real /\ E.tev = real + idle>> >>
     IN /\ Probe(cl) /\ AllTrue(cl)
        /\ mem' = IF pc = "reset" THEN [j \in 1..n |-> Fresh] ELSE mem
        /\ obs' = Append(obs, Observe(mem', evals, iters, real, urounds, ctx, E.raised))
  /\ pc' = "idle"
  /\ UNCHANGED <<traj, evals, iters, real, realm, idle, idlem, life, rounds, cur, urounds, before, ctx, script>>

TraceNext == TraceCall \/ TraceRound \/ TraceRet
TraceSpec == TraceInit /\ [][TraceNext]_tvars

-----------------------------------------------------------------------------
(* acceptance bookkeeping (as in Trace_Ensemble) *)
ASSUME TLCSet(1, {})
ASSUME TLCSet(2, [i \in 1..Len(Traces) |-> 0])

Accept ==
  /\ (l = Len(Tr) + 1) => TLCSet(1, TLCGet(1) \cup {tid})
  /\ Diagnose => (TLCGet(2)[tid] < l => TLCSet(2, [TLCGet(2) EXCEPT ![tid] = l]))

AllAccepted ==
  /\ PrintT(<<"@@", ToJson([accepted |-> Cardinality(TLCGet(1)), total |-> Len(Traces),
                            rejected |-> (1..Len(Traces)) \ TLCGet(1),
                            prefix |-> IF Diagnose THEN TLCGet(2) ELSE << >>])>>)
  /\ TRUE
=============================================================================
