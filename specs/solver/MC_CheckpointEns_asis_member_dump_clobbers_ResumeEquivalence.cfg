\* refuted design: TLC must report ResumeEquivalence violated
SPECIFICATION Spec
CONSTANTS EKinds = {"LNM", "BPW"}
  NMem = 2
  MaxGen = 2
  MaxRefuse = 1
  MaxInst = 3
  MaxCells = 28
  MaxObjs = 6
  Settings <- XSettings
  Design = "member_dump_clobbers"
  MaxOps = 3
CONSTRAINT RefIdle
INVARIANT ResumeEquivalence
