\* vacuity witness: the negated reachability claim must be VIOLATED
SPECIFICATION Spec
CONSTANTS Kinds = {"NM"}
  NP = 2
  MaxGen = 2
  MaxInst = 4
  MaxCells = 14
  Settings <- QSettings
  Design = "ok"
  MaxOps = 5
INVARIANT NeverTwoFromOne
