\* vacuity witness: the negated reachability claim must be VIOLATED
SPECIFICATION Spec
CONSTANTS Kinds = {"NM"}
  NP = 2
  MaxGen = 2
  MaxInst = 3
  MaxCells = 14
  Settings <- PSettings
  Design = "ok"
  MaxOps = 4
INVARIANT NeverResumedCompared
