\* vacuity witness: the negated reachability claim must be VIOLATED
SPECIFICATION Spec
CONSTANTS Kinds = {"DE"}
  NP = 2
  MaxGen = 3
  MaxInst = 3
  MaxCells = 14
  Settings <- QSettings
  Design = "ok"
  MaxOps = 4
INVARIANT NeverResumedCompared
