------------------------------ MODULE Searcher ------------------------------
(***************************************************************************)
(* S4c -- the global Searcher (mystic/search.py): it drives an ensemble    *)
(* solver (`sprayer`, N members of type `seeker`, Ensemble.tla) again and   *)
(* again and keeps what was found.  One action per public call:            *)
(*                                                                         *)
(*   Construct (Init)      npts = N, retry, repeat, traj; empty cache,      *)
(*                         archive and list of saved sprayers               *)
(*   Search                the documented loop (SearchBegin .. SearchEnd):  *)
(*        repeat+1 RUNS; a run is a sequence of PASSES and ends after       *)
(*        `retry` consecutive passes that added nothing to the cache (one   *)
(*        pass if retry = 0); a pass is a sequence of ensemble SOLVES and   *)
(*        ends with the first solve that does not enlarge the cache         *)
(*   Reset                 clears the trajectory cache and the saved        *)
(*                         sprayers; the archive of evaluated points stays  *)
(*   UseTrajectories(b)    save (or not) the sprayers of later solves       *)
(* and the queries as functions of the state:                              *)
(*   Coordinates()/Values()          the cache: one entry per (rounded)     *)
(*                                   best point of a member, first come     *)
(*   Coordinates/Values(all=True)    the archive: EXACTLY the evaluated     *)
(*                                   (point, value) pairs, each once        *)
(*   Minima()              ALL cache entries whose value is the minimum     *)
(*   Minima(tol) coarse    ... whose value ROUNDED to tol decimals is the   *)
(*                         rounded minimum (CoarseMinima: tol = -1)         *)
(*   Samples(all=True)     every evaluation made by the saved sprayers, in  *)
(*                         order, with multiplicity; Samples(): the step    *)
(*                         monitors (best point after every member step)    *)
(*                                                                         *)
(* One Solve: member i of the (deep-copied) sprayer evaluates the points   *)
(* of its program out[i] one after the other (TLC chooses the joint         *)
(* outcome `out` from Outs at every solve); its best point is the first     *)
(* point of minimal value.  Points are ids; En[p] is the model value and    *)
(* KeyOf[p] the id of p rounded to `memtol` digits (two points may share a  *)
(* key; points sharing a key have the same value because the value is a     *)
(* coordinate of the scripted points).                                      *)
(*                                                                         *)
(* `Design`: "documented" or a rejected design                              *)
(*   "asis_drop_last"        the archive misses each member's last point    *)
(*   "asis_minima_one"       Minima() returns one minimal entry only        *)
(*   "asis_stop_first_miss"  a run ends after the first fruitless pass      *)
(*   "asis_reset_keeps_cache" Reset leaves the cache                        *)
(* Ghosts: evlog (all evaluations since construction), tlog (evaluations    *)
(* made by solves whose sprayer was saved, since the last Reset), bests     *)
(* (keys of the best points found since the last Reset), passes (growth flags of *)
(* the solves of every pass of the Search in progress), hist, script, obs.  *)
(***************************************************************************)
EXTENDS Integers, Sequences, FiniteSets, TLC

CONSTANTS N,          \* members (npts)
          Points,     \* point ids
          En,         \* [Points -> Nat] model value
          KeyOf,      \* [Points -> Points] representative of the rounded point
          Outs,       \* set of joint outcomes [1..N -> Seq(Points)] (non-empty programs)
          Configs,    \* set of [retry, repeat, traj]
          Ops,        \* alphabet of public calls: "search", "reset", "traj_on", "traj_off"
          MaxOps, MaxSolves, Design

VARIABLES retry, repeat, traj, cache, archive, sprayers, evlog, tlog, bests,
          pc, run, count, size, psize, osize, passes, nsolves, total, hist, script, obs
vars == <<retry, repeat, traj, cache, archive, sprayers, evlog, tlog, bests,
          pc, run, count, size, psize, osize, passes, nsolves, total, hist, script, obs>>

-----------------------------------------------------------------------------
Range(s) == {s[i] : i \in DOMAIN s}
RECURSIVE Flat(_)
Flat(ss) == IF ss = << >> THEN << >> ELSE ss[1] \o Flat(SubSeq(ss, 2, Len(ss)))

(* a member: the points it evaluates, its best (first minimal) point, its step monitor (best so far) *)
RECURSIVE BestUpTo(_, _)
BestUpTo(p, g) == IF g = 1 THEN p[1]
                  ELSE LET b == BestUpTo(p, g - 1) IN IF En[p[g]] < En[b] THEN p[g] ELSE b
BestOfProg(p) == BestUpTo(p, Len(p))
StepsOf(p) == [g \in 1..Len(p) |-> BestUpTo(p, g)]

Keys(c) == {c[i].key : i \in DOMAIN c}
RECURSIVE MemoB(_, _, _)
MemoB(c, bs, i) ==     \* _memoize: the members' best points [key, e] enter the cache in member order, first come
  IF i > Len(bs) THEN c
  ELSE MemoB(IF bs[i].key \in Keys(c) THEN c ELSE Append(c, bs[i]), bs, i + 1)
BestsOf(out) == [i \in 1..Len(out) |-> LET b == BestOfProg(out[i]) IN [key |-> KeyOf[b], e |-> En[b]]]
Memo(c, out, i) == MemoB(c, BestsOf(out), i)

MinE(c) == CHOOSE e \in {c[i].e : i \in DOMAIN c} : \A i \in DOMAIN c : e <= c[i].e
AllMinima(c) == IF c = << >> THEN {} ELSE {c[i].key : i \in {j \in DOMAIN c : c[j].e = MinE(c)}}
MinimaOf(c) == IF Design = "asis_minima_one" /\ c # << >>
               THEN {c[CHOOSE i \in DOMAIN c : c[i].e = MinE(c)].key} ELSE AllMinima(c)
(* Minima(tol) / Searcher(tol=..): an entry is a minimum if its value ROUNDED to `tol` decimals equals the rounded
   minimum.  The model values are naturals below 5: every tol >= 0 (8 by default, but also 0) keeps them apart -- that is
   MinimaOf above --, while a COARSE tolerance (tol = -1: tens) rounds all of them to 0 *)
RoundTens(v) == ((v + 5) \div 10) * 10
CoarseMinima(c) == IF c = << >> THEN {} ELSE {c[i].key : i \in {j \in DOMAIN c : RoundTens(c[j].e) = RoundTens(MinE(c))}}

Evaluated(out) == Flat([i \in 1..Len(out) |-> out[i]])
Archived(out) == IF Design = "asis_drop_last"
                 THEN UNION {Range(SubSeq(out[i], 1, Len(out[i]) - 1)) : i \in 1..Len(out)}
                 ELSE Range(Evaluated(out))

Observe(ns) ==
  [cache |-> [i \in DOMAIN cache |-> cache[i].key], vals |-> [i \in DOMAIN cache |-> cache[i].e],
   minima |-> MinimaOf(cache), minimaC |-> CoarseMinima(cache), archive |-> archive, nsolves |-> ns, real |-> Len(evlog),
   nspray |-> Len(sprayers), samples |-> Flat([i \in DOMAIN sprayers |-> sprayers[i].evs]),
   steps |-> Flat([i \in DOMAIN sprayers |-> sprayers[i].steps]), traj |-> traj]

-----------------------------------------------------------------------------
Init ==
  /\ \E c \in Configs : retry = c.retry /\ repeat = c.repeat /\ traj = c.traj
  /\ cache = << >> /\ archive = {} /\ sprayers = << >> /\ evlog = << >> /\ tlog = << >> /\ bests = {}
  /\ pc = "idle" /\ run = 0 /\ count = 0 /\ size = 0 /\ psize = 0 /\ osize = 0
  /\ passes = << >> /\ nsolves = 0 /\ total = 0 /\ hist = << >> /\ script = << >> /\ obs = << >>

CanCall == pc = "idle" /\ Len(script) < MaxOps
Keep == <<retry, repeat>>

SearchBegin ==
  /\ CanCall /\ "search" \in Ops
  /\ script' = Append(script, "search") /\ hist' = Append(hist, << >>)
  /\ pc' = "outer" /\ run' = -1 /\ nsolves' = 0 /\ passes' = << >>
  /\ UNCHANGED <<retry, repeat, traj, cache, archive, sprayers, evlog, tlog, bests, count, size, psize, osize, total, obs>>

(* while run < repeat *)
Outer ==
  /\ pc = "outer"
  /\ IF run < repeat
     THEN /\ count' = (IF retry > 0 THEN 0 ELSE -1) /\ pc' = "mid"
          /\ passes' = Append(passes, << >>)                 \* a new run: its passes
          /\ UNCHANGED <<obs>>
     ELSE /\ pc' = "idle" /\ obs' = Append(obs, Observe(nsolves))     \* Search returns
          /\ UNCHANGED <<count, passes>>
  /\ UNCHANGED <<retry, repeat, traj, cache, archive, sprayers, evlog, tlog, bests, run, size, psize, osize, nsolves, total, hist, script>>

RunOver == IF Design = "asis_stop_first_miss" THEN count >= 1 \/ retry <= count ELSE retry <= count

(* while retry > count *)
Mid ==
  /\ pc = "mid"
  /\ IF ~RunOver
     THEN /\ psize' = -1 /\ size' = Len(cache) /\ osize' = Len(cache) /\ pc' = "inner"
          /\ passes' = [passes EXCEPT ![Len(passes)] = Append(@, << >>)]      \* a new pass: its solves
          /\ UNCHANGED run
     ELSE /\ run' = run + 1 /\ pc' = "outer"
          /\ UNCHANGED <<psize, size, osize, passes>>
  /\ UNCHANGED <<retry, repeat, traj, cache, archive, sprayers, evlog, tlog, bests, count, nsolves, total, hist, script, obs>>

(* while size > _size: _search().  bs = the members' best points [key, e] in member order, ev = the points
   evaluated in order, arch = what enters the archive, st = the step monitors, h = what `hist` records *)
SolveB(bs, ev, arch, st, h) ==
  /\ pc = "inner" /\ size > psize
  /\ LET c2 == MemoB(cache, bs, 1)
     IN /\ cache' = c2 /\ size' = Len(c2) /\ psize' = size
        /\ archive' = archive \cup arch
        /\ evlog' = evlog \o ev
        /\ bests' = bests \cup {bs[i].key : i \in DOMAIN bs}
        /\ sprayers' = IF traj THEN Append(sprayers, [evs |-> ev, steps |-> st]) ELSE sprayers
        /\ tlog' = IF traj THEN tlog \o ev ELSE tlog
        /\ passes' = [passes EXCEPT ![Len(passes)] = [@ EXCEPT ![Len(@)] = Append(@, Len(c2) > Len(cache))]]
  /\ nsolves' = nsolves + 1 /\ total' = total + 1
  /\ hist' = [hist EXCEPT ![Len(hist)] = Append(@, h)]
  /\ UNCHANGED <<retry, repeat, traj, pc, run, count, osize, script, obs>>

Solve(out) == SolveB(BestsOf(out), Evaluated(out), Archived(out), Flat([i \in 1..Len(out) |-> StepsOf(out[i])]), out)

PassEnd ==
  /\ pc = "inner" /\ ~(size > psize)
  /\ count' = (IF size = osize THEN count + 1 ELSE 0)
  /\ pc' = "mid"
  /\ UNCHANGED <<retry, repeat, traj, cache, archive, sprayers, evlog, tlog, bests, run, size, psize, osize, passes, nsolves, total, hist, script, obs>>

Reset ==
  /\ CanCall /\ "reset" \in Ops
  /\ script' = Append(script, "reset") /\ hist' = Append(hist, << >>)
  /\ cache' = IF Design = "asis_reset_keeps_cache" THEN cache ELSE << >>
  /\ sprayers' = << >> /\ tlog' = << >> /\ bests' = IF Design = "asis_reset_keeps_cache" THEN bests ELSE {}
  /\ obs' = Append(obs, [Observe(0) EXCEPT !.cache = [i \in DOMAIN cache' |-> cache'[i].key],
                                           !.vals = [i \in DOMAIN cache' |-> cache'[i].e],
                                           !.minima = MinimaOf(cache'), !.minimaC = CoarseMinima(cache'), !.nspray = 0, !.samples = << >>, !.steps = << >>])
  /\ UNCHANGED <<retry, repeat, traj, archive, evlog, pc, run, count, size, psize, osize, passes, nsolves, total>>

UseTraj(b) ==
  /\ CanCall /\ (IF b THEN "traj_on" ELSE "traj_off") \in Ops /\ traj # b
  /\ script' = Append(script, IF b THEN "traj_on" ELSE "traj_off") /\ hist' = Append(hist, << >>)
  /\ traj' = b
  /\ obs' = Append(obs, [Observe(0) EXCEPT !.traj = b])
  /\ UNCHANGED <<retry, repeat, cache, archive, sprayers, evlog, tlog, bests, pc, run, count, size, psize, osize, passes, nsolves, total>>

Next == SearchBegin \/ Outer \/ Mid \/ (\E out \in Outs : Solve(out)) \/ PassEnd \/ Reset \/ UseTraj(TRUE) \/ UseTraj(FALSE)
Spec == Init /\ [][Next]_vars
Bounded == total <= MaxSolves

-----------------------------------------------------------------------------
(* C09 (searcher) on the design *)
(* the archive holds exactly the evaluated points: nothing lost, nothing invented, each once (it is a set) *)
ArchiveIsEvaluated == archive = Range(evlog)
(* the cache holds exactly the (rounded) best points found since the last Reset, each once, with its value *)
CacheIsBests == /\ Keys(cache) = bests
                /\ \A i, j \in DOMAIN cache : (cache[i].key = cache[j].key) => i = j
(* Minima() are ALL the entries at the minimum -- ties included -- and nothing else *)
MinimaAreAllMinima == \A k \in DOMAIN obs :
   LET c == [i \in DOMAIN obs[k].cache |-> [key |-> obs[k].cache[i], e |-> obs[k].vals[i]]]
   IN obs[k].minima = AllMinima(c)
(* Samples(all=True) are exactly the evaluations of the saved sprayers, in order, with multiplicity *)
SamplesAreEvaluations == Flat([i \in DOMAIN sprayers |-> sprayers[i].evs]) = tlog
(* the loop: every pass ends with its first solve that adds nothing; every finished run ends with exactly `retry`
   consecutive fruitless passes (one pass if retry = 0) and not earlier; there are repeat+1 runs *)
Fruitless(p) == \A s \in DOMAIN p : ~p[s]
PassShape(p, closed) == /\ \A s \in 1..(Len(p) - 1) : p[s]
                        /\ (closed => Len(p) >= 1 /\ ~p[Len(p)])
RunShape(r) ==
  IF retry = 0 THEN Len(r) = 1
  ELSE /\ Len(r) >= retry
       /\ \A q \in (Len(r) - retry + 1)..Len(r) : Fruitless(r[q])
       /\ \A q \in 1..(Len(r) - retry) : \E w \in q..(q + retry - 1) : ~Fruitless(r[w])
Returned == pc = "idle" /\ Len(script) > 0 /\ script[Len(script)] = "search"
RetryHonoured ==
  /\ \A r \in DOMAIN passes : \A q \in DOMAIN passes[r] :
        PassShape(passes[r][q], ~(pc = "inner" /\ r = Len(passes) /\ q = Len(passes[r])))
  /\ Returned => (Len(passes) = repeat + 1 /\ \A r \in DOMAIN passes : RunShape(passes[r]))
(* Reset clears the cache and the saved sprayers and keeps the archive *)
ResetClears == (pc = "idle" /\ Len(script) > 0 /\ script[Len(script)] = "reset") =>
                  (cache = << >> /\ sprayers = << >> /\ archive = Range(evlog))
(* sprayers are saved exactly while trajectories are on *)
SprayersOnlyWithTraj == (\A k \in DOMAIN obs : ~obs[k].traj) /\ ~traj => sprayers = << >>

(* vacuity companions: TLC must refute each *)
NeverTiedMinima == \A k \in DOMAIN obs : Cardinality(obs[k].minima) <= 1
NeverGrowingPass == \A r \in DOMAIN passes : \A q \in DOMAIN passes[r] : Len(passes[r][q]) <= 1
NeverKeyCollision == \A k \in DOMAIN hist : \A q \in DOMAIN hist[k] : \A i \in DOMAIN hist[k][q] :
                        LET b == BestOfProg(hist[k][q][i]) IN KeyOf[b] = b
NeverSecondRun == Len(passes) <= 1
NeverCoarseDiffers == \A k \in DOMAIN obs : obs[k].minimaC = obs[k].minima
NeverRetryReset == \A r \in DOMAIN passes : Len(passes[r]) <= IF retry = 0 THEN 1 ELSE retry
=============================================================================
