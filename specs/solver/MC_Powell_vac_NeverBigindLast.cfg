SPECIFICATION Spec
CONSTANTS Dims = {1, 2}
  Ranks = {0, 1, 2, 3}
  MaxIter = 2
INVARIANT NeverBigindLast
