SPECIFICATION SpecB
CONSTANTS
  Kinds <- AllKinds
  Pool <- Pool5
  K = 1
  InitAts <- P0
  Pres <- P0
  Variant = "coded"
  Sys = "ens"
  N = 3
  Energies <- E2
  Gens = 2
  Ks <- K12
  Modes <- Both
  MaxRun = 3
  Consume = "index"
  Scan = "index"
  Cmp = "le"
  FinalReduce = TRUE
  Track = FALSE
INVARIANT TypeB
INVARIANT ResultsByIndex
INVARIANT ScheduleIndependence
INVARIANT ModesAgree
INVARIANT ResultAsSolve
INVARIANT LastMinimum
