SPECIFICATION GSpec
CONSTANTS Kinds = {"DE", "DE2", "NM", "PW"}
  NP = 4
  Dim = 2
  DefG = 80
  DefE = 8000
  MaxK = 4
  MaxCfg = 1000
  MaxCalls = 1000
  AsIs = FALSE
  Depth = 5
  Alphabet = "full"
VIEW CoverView
INVARIANT GCounter
INVARIANT GMsg
INVARIANT GStopped
INVARIANT EmitCover
