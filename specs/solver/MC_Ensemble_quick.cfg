SPECIFICATION Spec
CONSTANTS
  N = 3
  Energies <- E2
  Ks <- K1
  MaxSteps = 2
  Modes <- Both
  Scan = "index"
  MaxCalls = 2
INVARIANT MemberCount
INVARIANT StartsAreOwnCells
INVARIANT ProgressLegal
INVARIANT BestIsMin
INVARIANT BestIsThatMember
INVARIANT TieRule
INVARIANT TotalIsSum
INVARIANT TotalIsReal
INVARIANT SolveCompletes
INVARIANT StepContinues
INVARIANT ScheduleIndependence
