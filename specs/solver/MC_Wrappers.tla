---------------------------- MODULE MC_Wrappers ----------------------------
(* model-checking / emitting instances of Wrappers.tla.
   Emit prints every reachable wrapper call: the keywords written (with their values), the class-API script the
   specification says the call denotes, and the evaluation limits in force (from which the wrapper derives its warning
   flag); for an ensemble call with step=True also the script of the reading DevStepIgnored.  harness/c07_wrappers.py calls the real wrapper with exactly these keywords, executes exactly this script on
   the class API under the same seed and compares the two trajectories bit for bit.
   IOEnv.C07W (optional) restricts a run to one wrapper, so that thorough runs can be spread over processes. *)
EXTENDS Wrappers, Json, IOUtils

\* catalogue problems: 1 = 2-dim bowl, 2 = 3-dim Rosenbrock valley, 3 = 2-dim plateaus
Dims == <<2, 3, 2>>
All == {"fmin", "fmin_powell", "diffev", "diffev2", "lattice", "buckshot", "sparsity"}

Only(S0) == IF "C07W" \in DOMAIN IOEnv THEN {s \in S0 : s[1] = IOEnv.C07W} ELSE S0

\* quick: pairs for the four single-solver wrappers, single keywords for the ensembles (a default ensemble run is
\* 8 Nelder-Mead runs; a sparsity run also searches for sparse regions: only its own keywords and a few others)
QStarts == Only({<<"fmin", 2, "point">>, <<"fmin_powell", 1, "point">>,
                 <<"diffev", 3, "box">>, <<"diffev", 1, "point">>, <<"diffev2", 1, "point">>, <<"diffev2", 3, "box">>,
                 <<"lattice", 1, "ndim">>, <<"buckshot", 3, "ndim">>, <<"sparsity", 1, "ndim">>})
QDepth == [x \in All |-> IF x \in Ensembles THEN 1 ELSE 2]
QSkip  == [x \in All |-> IF x = "sparsity"
                         THEN Keys("sparsity") \ {"npts", "rtol", "bounds", "maxiter", "penalty", "step", "full_output", "gtol", "solver"}
                         ELSE {}]

\* thorough (in addition to the quick instance): triples (+ free range keywords, second values) for the single-solver
\* wrappers, pairs for lattice and buckshot, every single keyword for sparsity
TStarts == Only({<<"fmin", 1, "point">>, <<"fmin", 3, "point">>, <<"fmin_powell", 3, "point">>,
                 <<"diffev", 2, "point">>, <<"diffev2", 2, "box">>,
                 <<"lattice", 3, "ndim">>, <<"buckshot", 2, "ndim">>, <<"sparsity", 3, "ndim">>})
TDepth == [x \in All |-> IF x = "sparsity" THEN 1 ELSE IF x \in Ensembles THEN 2 ELSE 3]
NoSkip == [x \in All |-> {}]

GivenKeys == {k \in Keys(w) : args[k] > 0}
Emit == PrintT(<<"@@", ToJson([w |-> w, prob |-> prob, x0k |-> x0k, dim |-> Dim[prob],
                               given |-> [k \in GivenKeys |-> IF k = "nbins" THEN Bins(Val(w, args, k), Dim[prob]) ELSE Val(w, args, k)],
                               deviating |-> Deviating(w, args), explicit |-> Explicit(w, args),
                               script |-> script, lim |-> ResLimits(w, prob, args),
                               stepcase |-> StepCase(w, args),
                               ignored |-> IF StepCase(w, args) THEN StepIgnored(w, prob, x0k, args) ELSE << >>])>>)
=============================================================================
