----------------------------- MODULE MC_Signal -----------------------------
(* Instances of Signal.tla: call alphabets and switch alphabets (cfg files cannot hold records). *)
EXTENDS Signal

C(op, g, cb) == [op |-> op, g |-> g, cb |-> cb]
Enable  == C("enable", 0, FALSE)
Disable == C("disable", 0, FALSE)
StepC   == C("step", 0, FALSE)
Solve(g, cb) == C("solve", g, cb)

(* protocol alphabet: every public call; Solve with "nothing left to do" (g=0), one and two more generations *)
CallsProtocol == {Enable, Disable, StepC, Solve(0, TRUE), Solve(2, TRUE), Solve(1, FALSE)}
CallsFull     == {Enable, Disable, StepC} \cup {Solve(g, cb) : g \in {0, 1, 2}, cb \in BOOLEAN}
(* menu alphabet: an enabled Solve of three iterations, with and without a sigint_callback *)
CallsMenu     == {Enable, Solve(2, TRUE), Solve(2, FALSE)}
CallsMenu2    == {Enable, StepC, Solve(2, TRUE), Solve(1, FALSE)}

SwCore  == {"cont", "exit", "call"}
SwPlain == {"sol", "call", "cont", "exit", "bogus"}
SwAll   == {"sol", "call", "cont", "exit", "bogus", "", "EXIT", "Cont"}
SwWide  == {"sol", "call", "cont", "exit", "bogus", "", "EXIT", "Cont", "Sol", "CALL", "quit"}
=============================================================================
