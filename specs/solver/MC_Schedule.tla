---------------------------- MODULE MC_Schedule ----------------------------
(* model-checking / emitting instances of Schedule.tla.
   EmitA prints every COMPLETE configuration script (kind, template, the order of the calls) with the final
   configuration record the specification predicts (drew: the generator moved after the [Seed; Init] unit / the
   pre-steps; quiet: no cost evaluation and no counter change during the calls); EmitB prints every complete schedule of one map call (event
   sequence i = start of item i, -i = completion of item i, and the completion order).  harness/check_C07.py
   executes them on the real solvers / under maps that enforce exactly these schedules. *)
EXTENDS Schedule, Json

AllKinds == {"DE", "DE2", "NM", "PW"}
E1 == {0}
E2 == {0, 1}
E3 == {0, 1, 2}
K1 == {1}
K12 == {1, 2}
Both == {"solve", "step"}

PoolQ == {3, 4, 5, 6, 7, 11, 12, 13, 15}       \* quick: 8 call kinds (+ SetMapper for DE2)
Pool5 == {2, 5, 6, 9, 12}                      \* the 5-set whose 120 orders are all executed
Pool5d == {3, 4, 6, 8, 11}                     \* a 5-set with the drawing call (tight=True)
Pool6 == {1, 4, 5, 6, 7, 12}                   \* the 6-set whose 720 orders are all executed
Pool6b == {3, 16, 5, 10, 9, 11}
Pool12 == {1, 3, 4, 5, 6, 7, 8, 10, 11, 12, 13, 14, 15}   \* thorough: every 4-subset is emitted
Pool8b == {2, 3, 6, 9, 11, 14, 16, 17}          \* thorough: the remaining call variants (new=True monitor, collapse termination, clip)
PoolT == {1, 2, 3, 4, 5, 6, 7, 8, 9, 10, 11, 12, 13, 14, 15, 16, 17}
PoolW == {1, 3, 4, 5, 6, 7, 8, 15, 17}            \* witnesses: every slot a refuted design touches is present

At024 == {0, 2, 4}
At035 == {0, 3, 5}
At036 == {0, 3, 6}
At02 == {0, 2}
At05 == {0, 5}
At013 == {0, 1, 3}
P0 == {0}
P01 == {0, 1}

EmitA == CompleteA => PrintT(<<"@@", ToJson([kind |-> a.kind, pre |-> a.pre, at |-> a.initAt, order |-> a.hist,
                                             final |-> a.c,
                                             drew |-> a.c.rng # (IF a.pre = 1 THEN C0(a.kind, 1).rng ELSE PopDraws),
                                             quiet |-> (a.c.evals = C0(a.kind, a.pre).evals /\ a.c.fcalls = C0(a.kind, a.pre).fcalls)])>>)
EmitB == (m.pc = "map" /\ AllDone) => PrintT(<<"@@", ToJson([n |-> N, ev |-> m.ev, order |-> m.order])>>)
HeaderA == PrintT(<<"@@", ToJson([calltab |-> CallTab])>>)
=============================================================================
