SPECIFICATION Spec
CONSTANTS
  N = 2
  Trajs <- TrajsAll2
  Calls <- CallsS
  MaxCalls = 3
  Design = "documented"
INVARIANT EvalsAreRealCalls
INVARIANT ItersAreRounds
INVARIANT MembersContinue
INVARIANT NeverMeansNever
INVARIANT RealIsSumOfMembers
INVARIANT ResetRestores
INVARIANT UntilReached
INVARIANT UntilMinimal
INVARIANT InvalidDoesNothing
