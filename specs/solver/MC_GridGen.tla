----------------------------- MODULE MC_GridGen -----------------------------
(* instances of the generator catalogue GridGen.tla.  Boxes are <<lo, hi>> in units (see GridGen): the unit box, a box
   with negative and degenerate sides, a three-dimensional mixed box, a box ONE unit wide (with sc = -1070 its width is
   the smallest positive double), a box far from 0 (offset 2^20 units, width 1), a box with whole-number corners
   [-3, 0] x [0, 10] *)
EXTENDS GridGen
QBoxes == << <<<<0>>, <<16>>>>, <<<<-32, 48>>, <<-16, 48>>>>, <<<<-24, -24, 0>>, <<24, 0, 64>>>>,
             <<<<0, -1>>, <<1, 0>>>>, <<<<1048576>>, <<1048577>>>>, <<<<-48, 0>>, <<0, 160>>>> >>
QNs == {1, 2, 3, 4, 5, 7, 10, 12, 16, 25, 64, 96, 97, 100, 101, 128, 210, 1000, 1024}
TNs == (1..64) \cup {96, 97, 100, 101, 127, 128, 210, 211, 256, 360, 997, 1000, 1024, 2310}
QScales == {-1070, -30, 0, 33, 996}
TScales == {-1070, -1000, -30, 0, 33, 996}
QFns == {"samplepts", "random_samples", "fillpts"}
QRtols == {"none", "zero", "neg"}
TRtols == {"none", "zero", "pos", "neg", "tiny", "huge"}
=============================================================================
