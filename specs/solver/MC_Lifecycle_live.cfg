SPECIFICATION FairSpec
CONSTANTS Kinds = {"DE", "NM", "PW"}
  NP = 2
  Dim = 2
  DefG = 2
  DefE = 5
  MaxK = 2
  MaxCfg = 1
  MaxCalls = 2
  AsIs = FALSE
PROPERTY SolveReturns
