SPECIFICATION Spec
CONSTANTS
  N = 3
  Energies <- E3
  Ks <- K12
  MaxSteps = 1
  Modes <- Both
  Scan = "index"
  MaxCalls = 1
INVARIANT MemberCount
INVARIANT StartsAreOwnCells
INVARIANT ProgressLegal
INVARIANT BestIsMin
INVARIANT BestIsThatMember
INVARIANT TieRule
INVARIANT TotalIsSum
INVARIANT TotalIsReal
INVARIANT SolveCompletes
INVARIANT StepContinues
INVARIANT ScheduleIndependence
INVARIANT Emit
