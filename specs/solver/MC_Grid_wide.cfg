SPECIFICATION Spec
CONSTANTS
  Dims = {1, 2}
  MaxBins = 12
  BinChoices = {1, 2, 4, 5, 7, 10, 12}
  Scales = {0}
  Bounds <- WBounds
INVARIANT Exact
INVARIANT Representable
INVARIANT CountIsProduct
INVARIANT FullProduct
INVARIANT RowMajor
INVARIANT OwnCellCentre
INVARIANT DistinctIfProper
INVARIANT Emit
