SPECIFICATION TraceSpec
CONSTANTS Dims = {1}
  Ranks = {0}
  MaxIter = 0
CONSTRAINT Accept
INVARIANT TraceSorted
PROPERTY EvalsPerIteration
PROPERTY BestNeverWorsens
PROPERTY NoShrinkImproves
PROPERTY ShrinkKeepsBest
POSTCONDITION AllAccepted
CHECK_DEADLOCK FALSE
