\* refuted design (seeded C06b): TLC must report ResumeEquivalence violated
SPECIFICATION Spec
CONSTANTS Kinds = {"NM"}
  NP = 2
  MaxGen = 3
  MaxInst = 3
  MaxCells = 12
  Settings <- WDiv
  Design = "forced_dump_skipped"
  MaxOps = 3
INVARIANT ResumeEquivalence
