SPECIFICATION SpecA
CONSTANTS
  Kinds <- AllKinds
  Pool <- Pool8b
  K = 4
  InitAts <- At024
  Pres <- P01
  Variant = "coded"
  Sys = "de2"
  N = 1
  Energies <- E1
  Gens = 1
  Ks <- K1
  Modes <- Both
  MaxRun = 1
  Consume = "index"
  Scan = "index"
  Cmp = "le"
  FinalReduce = TRUE
  Track = FALSE
INVARIANT Confluent
INVARIANT SamePopulation
INVARIANT NoEvalDuringConfig
INVARIANT OwnSlotWritten
INVARIANT EmitA
