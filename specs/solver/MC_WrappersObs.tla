--------------------------- MODULE MC_WrappersObs ---------------------------
(* code -> spec pass of the wrapper cases: IOEnv.C07W_OBS is a JSON array of <<iter, funcalls, limG, limE>> (iterations *)
(* and evaluations of a class-API run, the limits Wrappers.ResLimits says are in force); the warning flag each wrapper  *)
(* call must have returned is decided by Wrappers.WarnFlag.                                                            *)
EXTENDS Integers, Sequences, TLC, Json, IOUtils

W == INSTANCE Wrappers WITH Starts <- {}, Dim <- << >>, Depth <- << >>, Skip <- << >>, ExplicitDefaults <- FALSE, FreeRanges <- FALSE, Rich <- FALSE, AsIs <- FALSE,
                            w <- "", prob <- 0, x0k <- "", args <- << >>, script <- << >>

Obs == JsonDeserialize(IOEnv.C07W_OBS)

ASSUME PrintT(<<"@@", ToJson([flags |-> [i \in 1..Len(Obs) |-> W!WarnFlag(Obs[i][1], Obs[i][2], Obs[i][3], Obs[i][4])]])>>)
=============================================================================
