------------------------------- MODULE Signal -------------------------------
(***************************************************************************)
(* C05, clause "an exit has been requested": the REAL interrupt path of a  *)
(* mystic solver (AbstractSolver.enable_signal_handler / Solve / Step and  *)
(* mystic._signal.Handler) as a state machine.                             *)
(*                                                                         *)
(* One process (the main thread of a Python program) owns                  *)
(*   - the process-wide SIGINT disposition `handler`:                      *)
(*       "default"  signal.default_int_handler (raises KeyboardInterrupt)  *)
(*       "user"     a handler of the embedding program (counts, returns)   *)
(*       "mystic"   mystic._signal.Handler(solver) (prompts for switches)  *)
(*   - one solver with the flags `enabled` (solver._handle_sigint),        *)
(*     `exitreq` (solver._EARLYEXIT), `hascb` (a sigint_callback was given *)
(*     to the Solve in progress / last Solve; it is not sticky).           *)
(*                                                                         *)
(* Public calls (one `Begin` action each, then micro-steps, then `Observed`*)
(* where the harness looks at the real objects):                           *)
(*   EnableHandler, DisableHandler   set / clear `enabled`, nothing else   *)
(*   SolveBegin(g, cb)  SetEvaluationLimits(generations=g, new=True) then  *)
(*                      Solve(sigint_callback = cb ? f : absent): clears   *)
(*                      the exit flag, installs mystic's handler iff       *)
(*                      enabled                                            *)
(*   StepBegin          Step(): never touches handler nor exit flag        *)
(*   PreStop | IterBegin, IterWork, IterEnd, PostStop | PostContinue       *)
(*                      the loop of Step/_Solve: check before stepping     *)
(*                      (only once something was recorded), one _Step      *)
(*                      (cost calls = pc "iter", then the generation       *)
(*                      callback = pc "cb"), check after stepping          *)
(*   SolveEnd           restores the DEFAULT handler iff enabled           *)
(*   StepEnd            returns the stop message (or None)                 *)
(* Environment:                                                            *)
(*   Sigint(w)          SIGINT arrives while the user's cost function      *)
(*                      (w = "cost") or generation callback (w = "cb")     *)
(*                      runs.  By disposition: KeyboardInterrupt leaves    *)
(*                      the public call (script over, mode "dead"); the    *)
(*                      user handler counts; mystic's handler opens the    *)
(*                      menu.                                              *)
(*   Menu(s)            the user types switch `s` at the prompt:           *)
(*                      sol -> print best solution; call -> run the        *)
(*                      sigint_callback on the best solution (if one was   *)
(*                      given); cont -> resume; exit -> set the exit flag  *)
(*                      and resume; anything else -> "unknown option",     *)
(*                      ask again.  Case-insensitive (Norm).               *)
(*   MenuExhausted      after MaxMenu answers the scripted user answers    *)
(*                      "cont" (menu scripts are finite).                  *)
(*                                                                         *)
(* Premises (the harness arranges them): the user termination condition    *)
(* never holds, there is no evaluation limit, every Solve is given a       *)
(* finite relative generation limit g, enable/disable happen between       *)
(* public calls only, at most one SIGINT per (iteration, place).           *)
(*                                                                         *)
(* Counters: `steps` = _Step calls completed (generations = steps-1 once   *)
(* something was recorded), `limit` = absolute generation limit, `kiter` = *)
(* iterations begun in the current call.  Observation counters: `nprompt`  *)
(* (input() calls), `ncall` (sigint_callback invocations), `nsol`          *)
(* (solutions printed), `nunk` ("unknown option" lines), `nuser` (user     *)
(* handler invocations), `nsig` (SIGINTs so far).  Ghosts: `exitSeen` (an  *)
(* 'exit' switch was consumed since the last SolveBegin), `late`           *)
(* (iterations begun while exitSeen: the property says 0), `script` / `obs`*)
(* (the calls made so far with the signals and switches inside them, and   *)
(* the observation the specification predicts after each call), `fx` (the  *)
(* effect of every prompt of the current call), `cbsig` (for every         *)
(* sigint_callback invocation the ordinal of the SIGINT it happened in:    *)
(* its argument is the best solution at that moment), `hin` (disposition   *)
(* seen from inside the iterations of the current call).                   *)
(***************************************************************************)
EXTENDS Integers, Sequences, FiniteSets, TLC, Json

CONSTANTS Calls,         \* alphabet of public calls: records [op, g, cb]
          Switches,      \* strings the user may type at the prompt
          Wheres,        \* subset of {"cost", "cb"}: where SIGINT may arrive
          InitHandlers,  \* subset of {"default", "user"}: disposition at program start
          MaxCalls,      \* public calls per script
          MaxSig,        \* SIGINTs per script
          MaxMenu,       \* answers per menu before the scripted user says "cont"
          ConsultExit    \* TRUE = the design.  FALSE = a stop check that ignores the exit flag
                         \* (witness configuration: NoIterAfterExit must then FAIL)

INF == 1000000

VARIABLES handler, enabled, exitreq, hascb, mode, pc, steps, limit, kiter, sigdone, asked, resume,
          nprompt, ncall, nsol, nunk, nuser, nsig, msg, exitSeen, late, init, script, obs, fx, cbsig, hin

vars == <<handler, enabled, exitreq, hascb, mode, pc, steps, limit, kiter, sigdone, asked, resume,
          nprompt, ncall, nsol, nunk, nuser, nsig, msg, exitSeen, late, init, script, obs, fx, cbsig, hin>>

solver   == <<enabled, exitreq, hascb, steps, limit>>
counters == <<nprompt, ncall, nsol, nunk, nuser>>
ghosts   == <<exitSeen, late, cbsig>>

-----------------------------------------------------------------------------
(* how the prompt reads an answer: s.lower() compared with the four switches *)
Norm(s) == CASE s \in {"sol", "SOL", "Sol"}     -> "sol"
             [] s \in {"cont", "CONT", "Cont"}  -> "cont"
             [] s \in {"call", "CALL", "Call"}  -> "call"
             [] s \in {"exit", "EXIT", "Exit"}  -> "exit"
             [] OTHER                            -> "unknown"

Gens == IF steps > 0 THEN steps - 1 ELSE 0

(* stop conditions of this model (no user termination, no evaluation limit) *)
Stop == Gens >= limit \/ (ConsultExit /\ exitreq)

(* message class, with the priority of AbstractSolver.Terminated: a limit outranks the exit request *)
Msg == IF Gens >= limit THEN "Limits" ELSE IF exitreq THEN "Interrupt" ELSE "None"

PcOf(w) == IF w = "cost" THEN "iter" ELSE "cb"

(* what the harness reads off the real objects after a public call *)
Observe(exc) ==
  [handler |-> handler, enabled |-> enabled, exit |-> exitreq, gens |-> Gens, iters |-> kiter,
   ret |-> IF mode = "step" THEN msg ELSE "None", msg |-> Msg, hin |-> hin,
   nprompt |-> nprompt, ncall |-> ncall, nsol |-> nsol, nunk |-> nunk, nuser |-> nuser,
   late |-> late, fx |-> fx, cbsig |-> cbsig, exc |-> exc]

-----------------------------------------------------------------------------
Init ==
  /\ init \in InitHandlers /\ handler = init
  /\ enabled = FALSE /\ exitreq = FALSE /\ hascb = FALSE
  /\ mode = "idle" /\ pc = "idle"
  /\ steps = 0 /\ limit = INF /\ kiter = 0 /\ sigdone = {} /\ asked = 0 /\ resume = "idle"
  /\ nprompt = 0 /\ ncall = 0 /\ nsol = 0 /\ nunk = 0 /\ nuser = 0 /\ nsig = 0
  /\ msg = "None" /\ exitSeen = FALSE /\ late = 0
  /\ script = <<>> /\ obs = <<>> /\ fx = <<>> /\ cbsig = <<>> /\ hin = "-"

(* ---- public calls begin (only between calls) ---- *)
CanCall == pc = "idle" /\ mode = "idle" /\ Len(script) < MaxCalls

Begin(c) == /\ script' = Append(script, [op |-> c.op, g |-> c.g, cb |-> c.cb, sigs |-> <<>>])
            /\ kiter' = 0 /\ fx' = <<>> /\ hin' = "-" /\ sigdone' = {}
            /\ UNCHANGED <<init, obs, asked, resume, nsig, counters, late, cbsig>>

EnableHandler ==
  /\ CanCall
  /\ \E c \in Calls : c.op = "enable" /\ Begin(c)
  /\ enabled' = TRUE /\ mode' = "cfg" /\ pc' = "obs"
  /\ UNCHANGED <<handler, exitreq, hascb, steps, limit, msg, exitSeen>>

DisableHandler ==
  /\ CanCall
  /\ \E c \in Calls : c.op = "disable" /\ Begin(c)
  /\ enabled' = FALSE /\ mode' = "cfg" /\ pc' = "obs"
  /\ UNCHANGED <<handler, exitreq, hascb, steps, limit, msg, exitSeen>>

SolveBegin ==
  /\ CanCall
  /\ \E c \in Calls :
       /\ c.op = "solve" /\ Begin(c)
       /\ hascb' = c.cb
       /\ limit' = Gens + c.g                     \* SetEvaluationLimits(generations=g, new=True)
  /\ exitreq' = FALSE /\ exitSeen' = FALSE       \* a new Solve starts clean
  /\ handler' = IF enabled THEN "mystic" ELSE handler
  /\ mode' = "solve" /\ pc' = "pre" /\ msg' = "None"
  /\ UNCHANGED <<enabled, steps>>

StepBegin ==
  /\ CanCall
  /\ \E c \in Calls : c.op = "step" /\ Begin(c)
  /\ mode' = "step" /\ pc' = "pre" /\ msg' = "None"
  /\ UNCHANGED <<handler, enabled, exitreq, hascb, steps, limit, exitSeen>>   \* Step never installs

(* ---- the loop ---- *)
Quiet == UNCHANGED <<handler, init, script, obs, fx, cbsig, asked, resume, nsig, counters, enabled, hascb, limit,
                     exitreq, exitSeen>>

PreStop ==          \* the check before stepping (exists only once something was recorded)
  /\ pc = "pre" /\ steps > 0 /\ Stop
  /\ msg' = Msg /\ pc' = "ret"
  /\ Quiet /\ UNCHANGED <<mode, steps, kiter, sigdone, late, hin>>

IterBegin ==
  /\ pc = "pre" /\ ~(steps > 0 /\ Stop)
  /\ pc' = "iter" /\ kiter' = kiter + 1 /\ sigdone' = {} /\ hin' = handler
  /\ late' = late + (IF exitSeen THEN 1 ELSE 0)
  /\ Quiet /\ UNCHANGED <<mode, steps, msg>>

IterWork ==         \* the cost calls of one _Step are done, its record is in the step monitor
  /\ pc = "iter"
  /\ steps' = steps + 1 /\ pc' = "cb"
  /\ Quiet /\ UNCHANGED <<mode, kiter, sigdone, late, hin, msg>>

IterEnd ==          \* the generation callback has returned
  /\ pc = "cb"
  /\ pc' = "post"
  /\ Quiet /\ UNCHANGED <<mode, steps, kiter, sigdone, late, hin, msg>>

PostStop ==         \* StopCheck after stepping: a stop condition holds
  /\ pc = "post" /\ Stop
  /\ msg' = Msg /\ pc' = "ret"
  /\ Quiet /\ UNCHANGED <<mode, steps, kiter, sigdone, late, hin>>

PostContinue ==     \* StopCheck after stepping: none holds; Step returns None, Solve loops
  /\ pc = "post" /\ ~Stop
  /\ IF mode = "solve" THEN pc' = "pre" /\ UNCHANGED msg
                       ELSE pc' = "ret" /\ msg' = "None"
  /\ Quiet /\ UNCHANGED <<mode, steps, kiter, sigdone, late, hin>>

SolveEnd ==
  /\ pc = "ret" /\ mode = "solve"
  /\ handler' = IF enabled THEN "default" ELSE handler      \* the DEFAULT handler, not the previous one
  /\ pc' = "obs"
  /\ UNCHANGED <<solver, mode, kiter, sigdone, asked, resume, nsig, counters, msg, ghosts, init, script, obs, fx, hin>>

StepEnd ==
  /\ pc = "ret" /\ mode = "step"
  /\ pc' = "obs"
  /\ UNCHANGED <<handler, solver, mode, kiter, sigdone, asked, resume, nsig, counters, msg, ghosts, init, script, obs, fx, hin>>

Observed ==         \* the harness compares the real objects with Observe
  /\ pc = "obs"
  /\ obs' = Append(obs, Observe("None"))
  /\ pc' = "idle" /\ mode' = "idle"
  /\ UNCHANGED <<handler, solver, kiter, sigdone, asked, resume, nsig, counters, msg, ghosts, init, script, fx, hin>>

(* ---- SIGINT ---- *)
AddSig(w) == LET n == Len(script) IN
  script' = [script EXCEPT ![n].sigs = Append(@, [k |-> kiter, where |-> w, menu |-> <<>>])]

AddSwitch(s) == LET n == Len(script)
                    m == Len(script[n].sigs) IN
  script' = [script EXCEPT ![n].sigs[m].menu = Append(@, [text |-> s, norm |-> Norm(s)])]

Sigint(w) ==
  /\ w \in Wheres /\ pc = PcOf(w) /\ w \notin sigdone /\ nsig < MaxSig
  /\ nsig' = nsig + 1 /\ sigdone' = sigdone \cup {w} /\ AddSig(w)
  /\ CASE handler = "mystic" ->          \* Handler.__call__: the menu opens
            /\ pc' = "menu" /\ resume' = pc /\ asked' = 0
            /\ UNCHANGED <<mode, obs, counters>>
       [] handler = "user" ->            \* the embedding program's handler runs and returns
            /\ nuser' = nuser + 1
            /\ UNCHANGED <<mode, pc, resume, asked, obs, nprompt, ncall, nsol, nunk>>
       [] OTHER ->                       \* default_int_handler: KeyboardInterrupt leaves the public call
            /\ pc' = "dead" /\ mode' = "dead"
            /\ obs' = Append(obs, Observe("KeyboardInterrupt"))
            /\ UNCHANGED <<resume, asked, counters>>
  /\ UNCHANGED <<handler, solver, kiter, msg, ghosts, init, fx, hin>>

(* the observable effect of one answer: what is printed / called, whether the handler returns, and *)
(* whether the exit flag goes up (a second 'exit' in the same Solve finds it up already)          *)
Effect(s) == CASE Norm(s) = "sol"  -> "print"
               [] Norm(s) = "call" -> IF hascb THEN "call" ELSE "noop"
               [] Norm(s) = "cont" -> "return"
               [] Norm(s) = "exit" -> IF exitreq THEN "return" ELSE "return+exit"
               [] OTHER            -> "unknown"

Menu(s) ==          \* one prompt, one answer
  /\ pc = "menu" /\ asked < MaxMenu /\ s \in Switches
  /\ nprompt' = nprompt + 1 /\ asked' = asked + 1 /\ AddSwitch(s) /\ fx' = Append(fx, Effect(s))
  /\ nsol' = nsol + (IF Norm(s) = "sol" THEN 1 ELSE 0)
  /\ nunk' = nunk + (IF Norm(s) = "unknown" THEN 1 ELSE 0)
  /\ ncall' = ncall + (IF Norm(s) = "call" /\ hascb THEN 1 ELSE 0)
  /\ cbsig' = IF Norm(s) = "call" /\ hascb THEN Append(cbsig, nsig) ELSE cbsig
  /\ exitreq' = (exitreq \/ Norm(s) = "exit")
  /\ exitSeen' = (exitSeen \/ Norm(s) = "exit")
  /\ pc' = IF Norm(s) \in {"cont", "exit"} THEN resume ELSE "menu"       \* Resume
  /\ UNCHANGED <<handler, enabled, hascb, steps, limit, mode, kiter, sigdone, resume, nuser, nsig, msg, late,
                 init, obs, hin>>

MenuExhausted ==    \* the finite menu script is used up: the scripted user answers "cont"
  /\ pc = "menu" /\ asked = MaxMenu
  /\ nprompt' = nprompt + 1 /\ fx' = Append(fx, "return")
  /\ pc' = resume
  /\ UNCHANGED <<handler, solver, mode, kiter, sigdone, asked, resume, ncall, nsol, nunk, nuser, nsig, msg, ghosts,
                 init, script, obs, hin>>

-----------------------------------------------------------------------------
SolverStep == PreStop \/ IterBegin \/ IterWork \/ IterEnd \/ PostStop \/ PostContinue \/ SolveEnd \/ StepEnd
              \/ Observed
UserAnswers == (\E s \in Switches : Menu(s)) \/ MenuExhausted
PublicCall == EnableHandler \/ DisableHandler \/ SolveBegin \/ StepBegin

Next == PublicCall \/ SolverStep \/ UserAnswers \/ (\E w \in Wheres : Sigint(w))

Spec == Init /\ [][Next]_vars
(* the solver keeps running and the user eventually answers every prompt; SIGINTs and new public calls are free *)
FairSpec == Spec /\ WF_vars(SolverStep) /\ WF_vars(UserAnswers)

-----------------------------------------------------------------------------
(* properties *)

TypeOK ==
  /\ handler \in {"default", "user", "mystic"} /\ init \in {"default", "user"}
  /\ enabled \in BOOLEAN /\ exitreq \in BOOLEAN /\ hascb \in BOOLEAN /\ exitSeen \in BOOLEAN
  /\ mode \in {"idle", "cfg", "solve", "step", "dead"}
  /\ pc \in {"idle", "pre", "iter", "cb", "post", "ret", "obs", "menu", "dead"}
  /\ steps \in Nat /\ limit \in Nat /\ kiter \in Nat /\ late \in Nat
  /\ Len(obs) <= Len(script) /\ Len(script) <= MaxCalls

(* C05: after an 'exit' switch was consumed no further iteration begins (until a new Solve clears the request) *)
NoIterAfterExit == [][(pc = "pre" /\ pc' = "iter") => ~exitSeen]_vars
LateZero == late = 0

(* the message names the exit request when no limit holds, and every message names a true condition *)
MsgNamesExit ==
  (pc \in {"ret", "obs"} /\ mode \in {"solve", "step"}) =>
     /\ (exitreq /\ Gens < limit) => msg = "Interrupt"
     /\ msg = "Interrupt" => exitreq
     /\ msg = "Limits" => Gens >= limit
     /\ msg = "None" => (~exitreq /\ Gens < limit /\ mode = "step")
(* and so does Terminated(info=True) whenever the harness looks *)
ExitVisible == (pc = "obs" /\ exitreq /\ Gens < limit) => Msg = "Interrupt"

(* mystic's handler is installed exactly while an enabled Solve runs: never under Step, never left behind *)
HandlerDiscipline == (handler = "mystic") <=> (mode = "solve" /\ enabled /\ pc # "obs")
(* an enabled Solve leaves the DEFAULT handler behind *)
RestoredAfterSolve == (pc = "obs" /\ mode = "solve" /\ enabled) => handler = "default"
(* a solver whose handler is not enabled never touches the disposition *)
ForeignUntouched == [][~enabled => handler' = handler]_vars
(* prompts appear only from mystic's handler; KeyboardInterrupt only under the default disposition *)
PromptsOnlyInMenu == [][nprompt' # nprompt => (handler = "mystic" /\ pc = "menu")]_vars
DeadOnlyDefault == mode = "dead" => handler = "default"

(* a new Solve starts clean: exit flag cleared, no pending menu *)
SolveStartsClean == [][(mode = "idle" /\ mode' = "solve") => (~exitreq' /\ ~exitSeen' /\ pc' = "pre")]_vars
(* Step keeps a pending exit request: it returns at once, naming it *)
StepKeepsRequest == [][(mode = "idle" /\ mode' = "step") => (exitreq' = exitreq /\ handler' = handler)]_vars

(* callback count = number of 'call' switches consumed while a sigint_callback was registered *)
CallSwitches == UNION { UNION { { <<i, j, m>> : m \in { m \in 1..Len(script[i].sigs[j].menu) :
                                                        script[i].sigs[j].menu[m].norm = "call" /\ script[i].cb } }
                                : j \in 1..Len(script[i].sigs) } : i \in 1..Len(script) }
SolSwitches  == UNION { UNION { { <<i, j, m>> : m \in { m \in 1..Len(script[i].sigs[j].menu) :
                                                        script[i].sigs[j].menu[m].norm = "sol" } }
                                : j \in 1..Len(script[i].sigs) } : i \in 1..Len(script) }
CallbackCount == ncall = Cardinality(CallSwitches) /\ ncall = Len(cbsig) /\ nsol = Cardinality(SolSwitches)

(* liveness: every Solve / Step returns (or is left by KeyboardInterrupt) *)
SolveReturns == (mode = "solve") ~> (mode \in {"idle", "dead"})
StepReturns  == (mode = "step") ~> (mode \in {"idle", "dead"})

-----------------------------------------------------------------------------
(* emission: every complete script with the predicted observations, once *)
Terminal == (pc = "idle" /\ Len(script) = MaxCalls) \/ mode = "dead"
Emit == Terminal => PrintT(<<"@@", ToJson([init |-> init, calls |-> script, obs |-> obs])>>)

=============================================================================
