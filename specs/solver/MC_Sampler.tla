----------------------------- MODULE MC_Sampler -----------------------------
(* model-checking instances of Sampler.tla.  `Emit` prints every complete script (MaxCalls public calls,
   the last one returned) with the member programs and the observable state the specification predicts
   after every call; harness/c09_sampler.py replays them on real Lattice/Buckshot/SparsitySamplers whose
   members are scripted solvers following the programs. *)
EXTENDS Sampler, Json

S(cond, reset) == [op |-> "sample", cond |-> cond, reset |-> reset, li |-> -1, le |-> -1, lt |-> -1]
U(li, le, lt, cond, reset) == [op |-> "until", cond |-> cond, reset |-> reset, li |-> li, le |-> le, lt |-> lt]
RS == [op |-> "reset", cond |-> "none", reset |-> "never", li |-> -1, le |-> -1, lt |-> -1]

(* call alphabets *)
CallsA == {S("none", "never"), S("none", "all"), S("all", "all"), S("any", "all"), S("best", "all"),
           S("none", "default"), RS,
           U(5, -1, -1, "none", "never"), U(-1, 7, -1, "none", "never"), U(-1, -1, N, "none", "default"),
           U(-1, -1, 1, "none", "default"), U(-1, 9, -1, "all", "all"), U(-1, -1, BEST, "none", "default"),
           U(-1, -1, -1, "none", "all"), U(-1, -1, 0, "none", "never"), U(2 * N, -1, 1, "any", "all")}
CallsB == {S("none", "never"), S("all", "all"), S("zero", "all"), S("any", "solved"), S("all", "solved"), RS,
           U(3 * N, -1, -1, "all", "all"), U(-1, 11, -1, "best", "all"), U(-1, -1, N, "all", "all"),
           U(-1, -1, N, "any", "all"), U(-1, 6, -1, "all", "solved"), U(7, 12, 2, "none", "never")}
CallsC == {S("none", "never"), S("any", "solved"), S("all", "solved"), S("best", "all"), S("best", "solved"),
           U(2 * N, -1, -1, "any", "solved"), U(-1, -1, BEST, "none", "default"), U(-1, 11, -1, "best", "all")}
CallsS == {S("none", "never"), S("none", "all"), S("all", "all"), S("any", "solved"), RS,
           U(-1, 7, -1, "none", "never"), U(-1, 9, -1, "all", "all"), U(-1, -1, 1, "none", "default"),
           U(-1, -1, 0, "none", "never")}

(* member programs: <<evaluations, best energy after the step>> *)
P1 == << <<1, 1>> >>
P2 == << <<1, 1>>, <<2, 0>> >>
P3 == << <<2, 0>>, <<1, 0>>, <<1, 0>> >>
P4 == << <<1, 2>>, <<3, 1>> >>
P5 == << <<3, 1>> >>
P6 == << <<1, 2>>, <<1, 2>>, <<1, 2>> >>
Trajs2 == {<<P2, P1>>, <<P3, P4>>, <<P1, P1>>, <<P5, P2>>}
Trajs3 == {<<P2, P1, P3>>, <<P1, P4, P1>>, <<P3, P3, P2>>}
Trajs2c == {<<P6, P1>>, <<P2, P1>>, <<P1, P6>>}
Trajs3q == {<<P2, P1, P3>>}

(* all programs of <= 2 steps over Ks x Es (design runs) *)
NonIncreasing(t) == \A j \in 1..(Len(t) - 1) : t[j + 1][2] <= t[j][2]
Programs(Ks, Es, L) == UNION {{t \in [1..n -> Ks \X Es] : NonIncreasing(t)} : n \in 1..L}
TrajsAll2 == [1..2 -> Programs({1, 2}, {0, 1}, 2)]
TrajsAll3 == [1..3 -> Programs({1}, {0, 1}, 2)] \cup [1..3 -> Programs({2}, {0, 1}, 1)]

Done == pc = "idle" /\ Len(script) = MaxCalls
Emit == Done => PrintT(<<"@@", ToJson([n |-> N, traj |-> traj, script |-> script, obs |-> obs])>>)
=============================================================================
