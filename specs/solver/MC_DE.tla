------------------------------- MODULE MC_DE -------------------------------
(* instances of DE.tla (cfg files cannot hold tuples / operators) *)
EXTENDS DE, Randomization
Prev(c) == IF c = 1 THEN NP ELSE c - 1
Nxt(c) == IF c = NP THEN 1 ELSE c + 1
(* constants 1..3, the member evaluated just before (replaced in place in DE, frozen in DE2), *)
(* the member evaluated next, the best                                                        *)
QRules(c) == {1, 2, 3, K + Prev(c), K + Nxt(c), RBest}
SmallRules(c) == {1, 2, K + Prev(c), RBest}
FullRules(c) == AllRules
(* deep random behaviours: at every Step three rows drawn at random (TLC -seed) from ALL rows *)
RandRows == RandomSubset(3, [1..NP -> AllRules])
(* cost tables over the three points: ties, a strict order, an infinite energy *)
QTables == {<<1, 1, 0>>, <<0, 1, 1>>, <<2, 1, INF>>, <<1, 0, 1>>}
TTables == QTables \cup {<<1, 1, 1>>, <<INF, INF, 0>>, <<0, 1, 2>>}
STables == {<<1, 1, 0>>, <<2, 1, INF>>}
QPops == {<<1, 2, 3, 1>>, <<2, 2, 1, 3>>}
TPops == QPops \cup {<<3, 3, 3, 3>>, <<1, 1, 2, 2>>}
SPops == {<<1, 2, 3, 1>>}
Pops5 == {<<1, 2, 3, 1, 2>>}
=============================================================================
