---------------------------- MODULE CheckpointEns ----------------------------
(***************************************************************************)
(* C06 for the ENSEMBLE solvers -- checkpoint / resume / copy of            *)
(* mystic.solvers.LatticeSolver / BuckshotSolver / SparsitySolver           *)
(* (abstract_ensemble_solver.py, ensemble.py).  Companion of Checkpoint.tla *)
(* (single solvers); same instances, same store, same properties.           *)
(*                                                                         *)
(* An ensemble is an INSTANCE whose solver-private state is the vector of   *)
(* its MEMBER solvers.  Members are objects on a heap (`obj`): an ensemble  *)
(* holds ADDRESSES, so that "the copy holds the original's member objects"  *)
(* can be said.  A member is what Checkpoint.tla calls an instance (its     *)
(* transition MStep is Checkpoint's Iterate followed by Continue|Finalize,  *)
(* written as an operator): own generation counter, own trajectory, own     *)
(* counter cell, own monitors, own stop verdict.  Counter cells AND monitor *)
(* lengths live on the heap `cell` (sharing = equal addresses).             *)
(*                                                                         *)
(* Kinds: LNM lattice of Nelder-Mead members, LPW lattice of Powell         *)
(*        members, BPW buckshot of Powell members, SNM sparsity of          *)
(*        Nelder-Mead members (the last two draw their starting points).    *)
(*                                                                         *)
(* One action per public call / critical section (`busy` as in Checkpoint): *)
(*   EIterate(i)     ensemble.Step(), first part: bootstrap (re-decorate    *)
(*                   the ensemble's own objective if it is not live), then  *)
(*                   ONE ensemble step = every member that has NOT          *)
(*                   terminated takes one Step of its own (a terminated     *)
(*                   member refuses: its pre-check returns the message, it  *)
(*                   is neither advanced nor re-decorated); the periodic    *)
(*                   SetSaveFrequency dump of the ensemble                  *)
(*   EContinue(i)    post-check: some member has not terminated             *)
(*   EFinalize(i)    post-check: ALL members terminated -> Finalize()       *)
(*   EForcedDump(i)  __save_state(force=True) of the finalized ensemble     *)
(*   ERefuse(i)      Step() of a stopped ensemble: bootstrap, pre-check     *)
(*                   answers the stop message, no member is called          *)
(*   ESolveFresh(i)  Solve() of an ensemble that was never stepped (the     *)
(*                   run-to-completion route of _Solve): every member is    *)
(*                   run to ITS stop by its own Solve(); periodic and       *)
(*                   forced dump; one public call, nothing observable       *)
(*                   inside.  Called again on the stopped ensemble it       *)
(*                   changes nothing but re-decorates and re-dumps.         *)
(*                   (Solve() of an ensemble that HAS been stepped is the   *)
(*                   loop `while not Step()`: a sequence of the Step        *)
(*                   actions -- `_step` is sticky; no action of its own.)   *)
(*   Save / Load / DeepCopy / RestoreRng / Scramble   as in Checkpoint;     *)
(*                   they carry ALL members                                 *)
(*                                                                         *)
(* NOT modelled, because neither documentation nor code supports a claim:   *)
(* continuing a stopped ensemble by raising its limits.  Members receive    *)
(* the ensemble's limits when they are built; SetEvaluationLimits on the    *)
(* ensemble afterwards does not reach them (and __update_state writes the   *)
(* best member's limits back over the ensemble's).  A stopped ensemble is   *)
(* therefore absorbing here: further calls are ERefuse / ESolveFresh.       *)
(*                                                                         *)
(* Ensemble record inst[i]:                                                *)
(*   mem      sequence of member addresses (into obj)                      *)
(*   eg       number of completed ensemble steps - 1 (-1 never run)        *)
(*   epos     ensemble-level trajectory: one entry <<label, what, reclip>>  *)
(*            per ensemble step ("it"), per fresh Solve ("sv"), and per     *)
(*            refused call whose bootstrap may have re-clipped ("rf")       *)
(*   live     the ensemble's OWN decorated objective is in sync (_live)     *)
(*   stepped  the sticky `_step` flag (which route Solve() takes)           *)
(*   cfg      [id, sf, em, lim, rg, t1, sv]: save frequency, monitors       *)
(*            installed, generation limit (given to every member), strict   *)
(*            ranges, generation at which the user's termination condition  *)
(*            stops MEMBER 1 (None = never), sv = driven by Solve()         *)
(*   file     registered restart file (_state)                             *)
(*   nrf      GHOST number of refused calls (bounds the model only)          *)
(*   base,own GHOSTS: total evaluations inherited at creation / real calls  *)
(*            of ALL members of this instance since creation               *)
(*   origin, born, rngAt, forcedoff, dev   as in Checkpoint (dev: a deep    *)
(*            copy's forced re-decoration re-clipped under strict ranges -- *)
(*            the one legitimate departure from the trajectory)            *)
(* Member record obj[a]:                                                   *)
(*   gens, pos, intern, pend, live, forcedoff  as Checkpoint's instance     *)
(*            (pos entry: <<label, member index, internals used,           *)
(*            re-clipped, finalized>>)                                      *)
(*   fc       address of the counter cell (evaluations)                     *)
(*   sm, em   addresses of the step / evaluation monitor lengths            *)
(*   base,own GHOSTS per member                                            *)
(*                                                                         *)
(* Properties (same names as Checkpoint.tla)                               *)
(*   ResumeEquivalence  restored ensemble = uninterrupted ensemble on the   *)
(*                      whole abstract state INCLUDING EVERY MEMBER, given  *)
(*                      the same premise (generator labels, configuration)  *)
(*   Independence       an action of instance x changes no other instance,  *)
(*                      none of its members, counter cells or monitors      *)
(*   CopyCounts         every ensemble's total = inherited + own real       *)
(*                      calls; every member's counter = inherited + own     *)
(*   TotalIsSum         the calls an ensemble accounts for are exactly its  *)
(*                      members' (total = sum over ITS members' counters)   *)
(*                                                                         *)
(* Design == "ok" or a named design TLC refutes:                           *)
(*   snap_omits_members        only member 1 (stand-in for `the best`) is   *)
(*                             pickled, the others are rebuilt unstarted    *)
(*   load_drops_member_counters  members come back with counter 0 (the      *)
(*                             "dropped _fcalls" the code works around for  *)
(*                             parallel maps)                               *)
(*   copy_shares_members       the copy holds the original's member objects *)
(*                             (what copy.copy does)                        *)
(*   copy_shares_member_counters  new member objects that count into the    *)
(*                             original's counter cells                     *)
(*   copy_shares_monitors      new member objects that log into the         *)
(*                             original's monitors                          *)
(*   member_dump_clobbers      AS-IS (mystic today): the members inherit    *)
(*                             the ensemble's save frequency AND file; in   *)
(*                             step-wise driving each member overwrites the *)
(*                             ensemble's restart file with ITSELF          *)
(***************************************************************************)
EXTENDS Integers, Sequences, FiniteSets, TLC

CONSTANTS EKinds,     \* subset of {"LNM", "LPW", "BPW", "SNM"}; one kind per behaviour
          NMem,       \* members per ensemble
          MaxGen,     \* ensemble steps 0..MaxGen
          MaxRefuse,  \* refused calls per instance
          MaxInst, MaxCells, MaxObjs, Settings, Design, MaxOps

None == -1
Ids == 1..MaxInst
Mem == 1..NMem
Slots == {"F", "P", "D", "R"}
Designs == {"ok", "snap_omits_members", "load_drops_member_counters", "copy_shares_members",
            "copy_shares_member_counters", "copy_shares_monitors", "member_dump_clobbers"}
ASSUME Design \in Designs

VARIABLES kind, inst, obj, nobj, cell, ncell, store, rngctx, acting, nops, busy
vars == <<kind, inst, obj, nobj, cell, ncell, store, rngctx, acting, nops, busy>>

MK == IF kind \in {"LNM", "SNM"} THEN "NM" ELSE "PW"       \* kind of the members
EvalsOf(g) == IF g = 0 THEN 1 ELSE 2                      \* stand-in, never compared (the code's choice)
HonestIntern(g) == IF MK = "PW" THEN g + 1 ELSE 0

NoCfg == [id |-> 0, sf |-> 0, em |-> FALSE, lim |-> None, rg |-> FALSE, t1 |-> None, sv |-> FALSE]

NoMember == [gens |-> -1, pos |-> << >>, intern |-> 0, fc |-> 1, sm |-> 1, em |-> 1, pend |-> FALSE,
             live |-> FALSE, base |-> 0, own |-> 0, forcedoff |-> FALSE]

Dead == [alive |-> FALSE, ens |-> TRUE, mem |-> << >>, eg |-> -1, epos |-> << >>, live |-> FALSE, stepped |-> FALSE,
         cfg |-> NoCfg, file |-> "none", mfile |-> "none", nrf |-> 0, base |-> 0, own |-> 0, origin |-> "none",
         born |-> -1, rngAt |-> -1, forcedoff |-> FALSE, dev |-> FALSE]

Empty == [full |-> FALSE, ens |-> TRUE, members |-> << >>, eg |-> -1, epos |-> << >>, live |-> FALSE,
          stepped |-> FALSE, cfg |-> NoCfg, file |-> "none", mfile |-> "none", nrf |-> 0, rngAt |-> -1, by |-> 0,
          forcedoff |-> FALSE, dev |-> FALSE]

(* ---- members ---- *)
StopM(m, cf, j) == /\ m.gens >= 0
                   /\ \/ cf.lim # None /\ m.gens >= cf.lim
                      \/ j = 1 /\ cf.t1 # None /\ m.gens >= cf.t1
MembersOf(e, o) == [j \in 1..Len(e.mem) |-> o[e.mem[j]]]
StoppedWith(e, o) == e.eg >= 0 /\ \A j \in 1..Len(e.mem) : StopM(o[e.mem[j]], e.cfg, j)
Stopped(i) == StoppedWith(inst[i], obj)
Idle == busy = 0

(* what the property says about one member: everything dereferenced, no addresses *)
MAbs(m, c, cf, j) == [gens |-> m.gens, pos |-> m.pos, intern |-> m.intern, fcalls |-> c[m.fc], nsm |-> c[m.sm],
                      nem |-> c[m.em], stop |-> StopM(m, cf, j)]
RECURSIVE SumF(_, _, _, _)
SumF(e, o, c, j) == IF j > Len(e.mem) THEN 0 ELSE c[o[e.mem[j]].fc] + SumF(e, o, c, j + 1)
Total(e, o, c) == SumF(e, o, c, 1)
Abs(e, o, c) == [ens |-> e.ens, eg |-> e.eg, epos |-> e.epos, stepped |-> e.stepped, cfg |-> e.cfg,
                 total |-> Total(e, o, c),
                 members |-> [j \in 1..Len(e.mem) |-> MAbs(o[e.mem[j]], c, e.cfg, j)]]
(* everything of instance x another instance could disturb (its members' flags included) *)
State(x) == [abs |-> Abs(inst[x], obj, cell), file |-> inst[x].file, live |-> inst[x].live, alive |-> inst[x].alive,
             mflags |-> [j \in 1..Len(inst[x].mem) |-> <<obj[inst[x].mem[j]].live, obj[inst[x].mem[j]].pend>>]]
Draws(e) == [n \in 1..Len(e.epos) |-> e.epos[n][1]]
Inputs(e) == [n \in 1..Len(e.epos) |-> <<e.epos[n][1], e.epos[n][2], e.epos[n][3]>>]

(* addresses of a block of NMem new members: objects no.., cells nc.. (three per member) *)
ObjAt(no, j) == no + j - 1
FcAt(nc, j) == nc + 3 * (j - 1)
SmAt(nc, j) == nc + 3 * (j - 1) + 1
EmAt(nc, j) == nc + 3 * (j - 1) + 2
FreshMember(nc, j) == [NoMember EXCEPT !.fc = FcAt(nc, j), !.sm = SmAt(nc, j), !.em = EmAt(nc, j)]

(* one Step() of member a (index j) under generator label d; ctx = [o, c, nc, pert, devhit, last, real]: heaps, next *)
(* free cell, "some member re-clipped", "... after a forced switch-off", last member that advanced, real calls so far  *)
MStep(ctx, a, cf, j, d) ==
  LET m == ctx.o[a] IN
  IF StopM(m, cf, j) THEN ctx       \* terminated: the member's pre-check refuses (no re-decoration: the `_live` hack)
  ELSE
    LET g == m.gens + 1
        k == EvalsOf(g)
        redeco == ~m.live /\ m.gens >= 0         \* re-wraps the cost: new counter cell started at the old count
        perturb == redeco /\ m.gens >= 1 /\ cf.rg /\ MK # "PW"     \* strict ranges: the simplex is rebuilt
        fcell == IF redeco THEN ctx.nc ELSE m.fc
        c1 == IF redeco THEN [ctx.c EXCEPT ![ctx.nc] = ctx.c[m.fc]] ELSE ctx.c
        c2 == [c1 EXCEPT ![fcell] = @ + k,
                         ![m.sm] = @ + (IF MK = "PW" THEN (IF g = 0 \/ m.pend THEN 1 ELSE 0) ELSE 1),
                         ![m.em] = @ + (IF cf.em THEN k ELSE 0)]
        it == [m EXCEPT !.gens = g, !.pos = Append(@, <<d, j, m.intern, IF perturb THEN 1 ELSE 0, 0>>),
                        !.intern = HonestIntern(g), !.fc = fcell, !.pend = (MK = "PW" /\ g >= 1),
                        !.own = @ + k, !.live = TRUE, !.forcedoff = FALSE]
        stop == StopM(it, cf, j)
        (* the member's own post-check: Finalize (Powell flushes its pending record) *)
        fin == IF stop THEN [it EXCEPT !.live = FALSE, !.pend = FALSE,
                                       !.pos = [@ EXCEPT ![Len(@)] = <<@[1], @[2], @[3], @[4], 1>>]]
               ELSE it
        c3 == IF stop /\ it.pend THEN [c2 EXCEPT ![m.sm] = @ + 1] ELSE c2
    IN [o |-> [ctx.o EXCEPT ![a] = fin], c |-> c3, nc |-> IF redeco THEN ctx.nc + 1 ELSE ctx.nc,
        pert |-> ctx.pert \/ perturb, devhit |-> ctx.devhit \/ (perturb /\ m.forcedoff), last |-> j,
        real |-> ctx.real + k]                   \* k REAL calls of the user's objective

RECURSIVE StepAll(_, _, _, _)      \* one ensemble step: the map over the members, in member order
StepAll(ctx, e, j, d) == IF j > Len(e.mem) THEN ctx ELSE StepAll(MStep(ctx, e.mem[j], e.cfg, j, d), e, j + 1, d)
RECURSIVE RunOne(_, _, _, _, _)    \* member.Solve(): Step until the member's own stop
RunOne(ctx, a, cf, j, d) == IF StopM(ctx.o[a], cf, j) THEN ctx ELSE RunOne(MStep(ctx, a, cf, j, d), a, cf, j, d)
RECURSIVE RunAll(_, _, _, _)
RunAll(ctx, e, j, d) == IF j > Len(e.mem) THEN ctx ELSE RunAll(RunOne(ctx, e.mem[j], e.cfg, j, d), e, j + 1, d)
Ctx0 == [o |-> obj, c |-> cell, nc |-> ncell, pert |-> FALSE, devhit |-> FALSE, last |-> 0, real |-> 0]

(* ---- snapshots ---- *)
MSnap(m, c) == [gens |-> m.gens, pos |-> m.pos, intern |-> m.intern, fcalls |-> c[m.fc], nsm |-> c[m.sm],
                nem |-> c[m.em], pend |-> m.pend, live |-> m.live, forcedoff |-> m.forcedoff]
Snap(e, o, c, r, by) ==
  [full |-> TRUE, ens |-> TRUE,
   members |-> [j \in 1..Len(e.mem) |->
                   IF Design = "snap_omits_members" /\ j > 1 THEN MSnap(NoMember, [a \in 1..1 |-> 0])
                   ELSE MSnap(o[e.mem[j]], c)],
   eg |-> e.eg, epos |-> e.epos, live |-> e.live, stepped |-> e.stepped, cfg |-> e.cfg, file |-> e.file,
   mfile |-> e.mfile, nrf |-> e.nrf, rngAt |-> r, by |-> by, forcedoff |-> e.forcedoff, dev |-> e.dev]
(* AS-IS: what a member writes into the ensemble's file -- itself, not the ensemble *)
MemberDump(e, o, c, r, by, j) ==
  [Snap(e, o, c, r, by) EXCEPT !.ens = FALSE, !.members = <<MSnap(o[e.mem[j]], c)>>]

Dump(st, e, o, c, r, by) == [st EXCEPT ![e.file] = Snap(e, o, c, r, by)]
DumpDue(e) == e.file # "none" /\ e.cfg.sf > 0 /\ e.eg % e.cfg.sf = 0

Fresh(origin, c, f, no, nc) ==
  [Dead EXCEPT !.alive = TRUE, !.cfg = c, !.file = IF c.sf > 0 THEN f ELSE "none",
               !.mfile = IF c.sf > 0 THEN f ELSE "none", !.origin = origin,
               !.mem = [j \in Mem |-> ObjAt(no, j)]]

Init ==
  /\ kind \in EKinds
  /\ \E c \in Settings :
       inst = [i \in Ids |-> IF i = 1 THEN Fresh("ref", c, "R", 1, 1)
                             ELSE IF i = 2 THEN Fresh("orig", c, "P", NMem + 1, 3 * NMem + 1) ELSE Dead]
  /\ obj = [a \in 1..MaxObjs |-> IF a <= NMem THEN FreshMember(1, a)
                                 ELSE IF a <= 2 * NMem THEN FreshMember(3 * NMem + 1, a - NMem) ELSE NoMember]
  /\ nobj = 2 * NMem + 1
  /\ cell = [a \in 1..MaxCells |-> 0]
  /\ ncell = 6 * NMem + 1
  /\ store = [sl \in Slots |-> Empty]
  /\ rngctx = [i \in Ids |-> IF i <= 2 THEN 0 ELSE -1]
  /\ acting = 0 /\ nops = 0 /\ busy = 0

(* bootstrap of the ENSEMBLE's own objective: re-decoration under strict ranges re-clips the population the *)
(* ensemble points at (its best member's): a possible change only for simplex members after generation 0    *)
EPerturb(e, redeco) == redeco /\ e.eg >= 1 /\ e.cfg.rg /\ MK = "NM"

(* ---- ensemble.Step(), first critical section ---- *)
EIterate(i) ==
  LET e == inst[i] IN
  /\ Idle /\ e.alive /\ e.ens /\ e.eg < MaxGen /\ ~Stopped(i)
  /\ rngctx[i] >= 0
  /\ ncell + NMem < MaxCells
  /\ LET d == rngctx[i]
         redeco == ~e.live
         ep == EPerturb(e, redeco)
         res == StepAll(Ctx0, e, 1, d)
         pert == ep \/ res.pert
         r2 == d + 1 + (IF pert THEN 1000 ELSE 0)
         post == [e EXCEPT !.eg = @ + 1, !.epos = Append(@, <<d, "it", IF pert THEN 1 ELSE 0>>), !.live = TRUE,
                           !.stepped = TRUE, !.own = @ + res.real,
                           !.dev = @ \/ res.devhit \/ (ep /\ e.forcedoff), !.forcedoff = FALSE]
         lastm == res.last
     IN /\ inst' = [inst EXCEPT ![i] = post]
        /\ obj' = res.o /\ cell' = res.c /\ ncell' = res.nc
        /\ rngctx' = [rngctx EXCEPT ![i] = r2]
        /\ store' = IF Design = "member_dump_clobbers"
                    THEN (IF post.mfile # "none" /\ post.cfg.sf > 0 /\ lastm > 0
                             /\ res.o[e.mem[lastm]].gens % post.cfg.sf = 0
                          THEN [store EXCEPT ![post.mfile] = MemberDump(post, res.o, res.c, r2, i, lastm)] ELSE store)
                    ELSE (IF DumpDue(post) THEN Dump(store, post, res.o, res.c, r2, i) ELSE store)
  /\ busy' = i /\ acting' = i
  /\ UNCHANGED <<kind, nobj, nops>>

EContinue(i) ==
  /\ busy = i /\ ~Stopped(i)
  /\ busy' = 0 /\ acting' = i
  /\ UNCHANGED <<kind, inst, obj, nobj, cell, ncell, store, rngctx, nops>>

EFinalize(i) ==
  /\ busy = i /\ Stopped(i) /\ inst[i].live
  /\ inst' = [inst EXCEPT ![i].live = FALSE]
  /\ acting' = i
  /\ UNCHANGED <<kind, obj, nobj, cell, ncell, store, rngctx, nops, busy>>

EForcedDump(i) ==
  LET e == inst[i] IN
  /\ busy = i /\ Stopped(i) /\ ~e.live
  /\ store' = IF e.file # "none" THEN Dump(store, e, obj, cell, rngctx[i], i) ELSE store
  /\ busy' = 0 /\ acting' = i
  /\ UNCHANGED <<kind, inst, obj, nobj, cell, ncell, rngctx, nops>>

(* ---- Step() of a stopped ensemble: bootstrap, pre-check answers the message, the map is not called ---- *)
ERefuse(i) ==
  LET e == inst[i]
      redeco == ~e.live
      ep == EPerturb(e, redeco)
  IN /\ Idle /\ e.alive /\ e.ens /\ Stopped(i) /\ e.nrf < MaxRefuse
     /\ rngctx[i] >= 0
     /\ inst' = [inst EXCEPT ![i] = [e EXCEPT !.live = TRUE, !.nrf = @ + 1,    \* (`_step` is set inside _Step only)
                                              !.epos = IF ep THEN Append(@, <<rngctx[i], "rf", 1>>) ELSE @,
                                              !.dev = @ \/ (ep /\ e.forcedoff), !.forcedoff = FALSE]]
     /\ rngctx' = [rngctx EXCEPT ![i] = IF ep THEN @ + 1001 ELSE @]
     /\ acting' = i
     /\ UNCHANGED <<kind, obj, nobj, cell, ncell, store, nops, busy>>

(* ---- Solve() of an ensemble that was never stepped (run-to-completion route), also when already stopped ---- *)
ESolveFresh(i) ==
  LET e == inst[i] IN
  /\ Idle /\ e.alive /\ e.ens /\ ~e.stepped /\ e.cfg.lim # None
  /\ e.eg = -1 \/ (Stopped(i) /\ e.nrf < MaxRefuse)
  /\ rngctx[i] >= 0
  /\ ncell + NMem < MaxCells
  /\ LET d == rngctx[i]
         ep == EPerturb(e, TRUE)                  \* this route always re-decorates the ensemble's objective
         res == RunAll(Ctx0, e, 1, d)
         pert == ep \/ res.pert
         ran == e.eg = -1
         (* a generator state of its own kind: all members ran to their stops one after the other (never the    *)
         (* successor label of a single ensemble step)                                                         *)
         r2 == IF ran \/ pert THEN d + 50 + (IF pert THEN 1000 ELSE 0) ELSE d
         post == [e EXCEPT !.eg = IF ran THEN e.cfg.lim ELSE @,
                           !.epos = IF ran \/ pert THEN Append(@, <<d, "sv", IF pert THEN 1 ELSE 0>>) ELSE @,
                           !.live = TRUE, !.nrf = IF ran THEN @ ELSE @ + 1,
                           !.own = @ + res.real,
                           !.dev = @ \/ res.devhit \/ (ep /\ e.forcedoff), !.forcedoff = FALSE]
     IN /\ inst' = [inst EXCEPT ![i] = post]
        /\ obj' = res.o /\ cell' = res.c /\ ncell' = res.nc
        /\ rngctx' = [rngctx EXCEPT ![i] = r2]
        (* the periodic dump and the forced dump at the end both write the finished ensemble *)
        /\ store' = IF post.file # "none" THEN Dump(store, post, res.o, res.c, r2, i) ELSE store
  /\ acting' = i
  /\ UNCHANGED <<kind, nobj, nops, busy>>

StepPart(i) == EIterate(i) \/ EContinue(i) \/ EFinalize(i) \/ EForcedDump(i)

Op == Idle /\ nops < MaxOps /\ nops' = nops + 1 /\ UNCHANGED busy

Save(i, slot) ==
  /\ Op
  /\ inst[i].alive /\ inst[i].ens /\ inst[i].eg >= 0 /\ slot \in {"F", "D"}
  /\ LET e2 == IF slot = "F" THEN [inst[i] EXCEPT !.file = "F"] ELSE inst[i] IN
       /\ inst' = [inst EXCEPT ![i] = e2]
       /\ store' = [store EXCEPT ![slot] = Snap(e2, obj, cell, rngctx[i], i)]
  /\ acting' = i
  /\ UNCHANGED <<kind, obj, nobj, cell, ncell, rngctx>>

NewId(j) == ~inst[j].alive /\ \A m \in Ids : m < j => inst[m].alive

(* LoadSolver / dill.loads: every member is unpickled into a NEW object with its own counter cell and monitors *)
Load(slot, j) ==
  /\ Op
  /\ NewId(j) /\ slot \in {"F", "P", "D"} /\ store[slot].full
  /\ LET sn == store[slot]
         n == Len(sn.members)
         fcv(q) == IF Design = "load_drops_member_counters" THEN 0 ELSE sn.members[q].fcalls
         tot == IF n = 0 THEN 0 ELSE LET RECURSIVE S(_)
                                         S(q) == IF q > n THEN 0 ELSE fcv(q) + S(q + 1) IN S(1)
     IN /\ nobj + n - 1 <= MaxObjs /\ ncell + 3 * n - 1 <= MaxCells
        /\ inst' = [inst EXCEPT ![j] =
             [alive |-> TRUE, ens |-> sn.ens, mem |-> [q \in 1..n |-> ObjAt(nobj, q)], eg |-> sn.eg, epos |-> sn.epos,
              live |-> sn.live, stepped |-> sn.stepped, cfg |-> sn.cfg, file |-> IF slot = "D" THEN sn.file ELSE slot,
              mfile |-> sn.mfile, nrf |-> 0, base |-> tot, own |-> 0, origin |-> "load", born |-> sn.eg,
              rngAt |-> sn.rngAt, forcedoff |-> sn.forcedoff, dev |-> sn.dev]]
        /\ obj' = [a \in 1..MaxObjs |->
                     IF a >= nobj /\ a < nobj + n
                     THEN LET q == a - nobj + 1
                              ms == sn.members[q]
                          IN [gens |-> ms.gens, pos |-> ms.pos, intern |-> ms.intern, fc |-> FcAt(ncell, q),
                              sm |-> SmAt(ncell, q), em |-> EmAt(ncell, q), pend |-> ms.pend, live |-> ms.live,
                              base |-> fcv(q), own |-> 0, forcedoff |-> ms.forcedoff]
                     ELSE obj[a]]
        /\ cell' = [a \in 1..MaxCells |->
                      IF a >= ncell /\ a < ncell + 3 * n
                      THEN LET q == ((a - ncell) \div 3) + 1
                               w == (a - ncell) % 3
                           IN IF w = 0 THEN fcv(q) ELSE IF w = 1 THEN sn.members[q].nsm ELSE sn.members[q].nem
                      ELSE cell[a]]
        /\ nobj' = nobj + n /\ ncell' = ncell + 3 * n
  /\ rngctx' = [rngctx EXCEPT ![j] = -1]
  /\ acting' = j
  /\ UNCHANGED <<kind, store>>

(* copy.deepcopy: the ensemble AND every member copied by value into new objects; ensemble and members are marked *)
(* not live, so each re-wraps its objective around its own counter and monitors at its next step                *)
DeepCopy(i, j) ==
  /\ Op
  /\ inst[i].alive /\ inst[i].ens /\ inst[i].eg >= 0 /\ NewId(j)
  /\ nobj + NMem - 1 <= MaxObjs /\ ncell + 3 * NMem - 1 <= MaxCells
  /\ LET e == inst[i]
         sharesM == Design = "copy_shares_members"
         sharesC == Design = "copy_shares_member_counters"
         sharesMon == Design = "copy_shares_monitors"
         keep == sharesM \/ sharesC
     IN /\ inst' = [inst EXCEPT ![j] =
             [e EXCEPT !.mem = IF sharesM THEN e.mem ELSE [q \in Mem |-> ObjAt(nobj, q)],
                       !.live = IF keep THEN e.live ELSE FALSE,
                       !.forcedoff = IF keep THEN e.forcedoff ELSE (e.live \/ e.forcedoff),
                       !.base = Total(e, obj, cell), !.own = 0, !.origin = "copy", !.born = e.eg, !.nrf = 0,
                       !.rngAt = rngctx[i]]]
        /\ obj' = IF sharesM THEN obj
                  ELSE [a \in 1..MaxObjs |->
                          IF a >= nobj /\ a < nobj + NMem
                          THEN LET q == a - nobj + 1
                                   m == obj[e.mem[q]]
                               IN [m EXCEPT !.fc = IF sharesC THEN m.fc ELSE FcAt(ncell, q),
                                            !.sm = IF sharesMon THEN m.sm ELSE SmAt(ncell, q),
                                            !.em = IF sharesMon THEN m.em ELSE EmAt(ncell, q),
                                            !.live = IF keep THEN m.live ELSE FALSE,
                                            !.forcedoff = IF keep THEN m.forcedoff ELSE (m.live \/ m.forcedoff),
                                            !.base = cell[m.fc], !.own = 0]
                          ELSE obj[a]]
        /\ cell' = IF sharesM THEN cell
                   ELSE [a \in 1..MaxCells |->
                           IF a >= ncell /\ a < ncell + 3 * NMem
                           THEN LET q == ((a - ncell) \div 3) + 1
                                    w == (a - ncell) % 3
                                    m == obj[e.mem[q]]
                                IN IF w = 0 THEN cell[m.fc] ELSE IF w = 1 THEN cell[m.sm] ELSE cell[m.em]
                           ELSE cell[a]]
  /\ nobj' = nobj + NMem /\ ncell' = ncell + 3 * NMem
  /\ rngctx' = [rngctx EXCEPT ![j] = -1]
  /\ acting' = j
  /\ UNCHANGED <<kind, store>>

Restorable(j) == inst[j].alive /\ inst[j].origin \in {"load", "copy"} /\ inst[j].eg = inst[j].born

RestoreRng(j) ==
  /\ Op /\ Restorable(j) /\ inst[j].rngAt >= 0
  /\ rngctx' = [rngctx EXCEPT ![j] = inst[j].rngAt]
  /\ acting' = 0
  /\ UNCHANGED <<kind, inst, obj, nobj, cell, ncell, store>>

Scramble(j) ==
  /\ Op /\ Restorable(j)
  /\ rngctx' = [rngctx EXCEPT ![j] = 100 * j]
  /\ acting' = 0
  /\ UNCHANGED <<kind, inst, obj, nobj, cell, ncell, store>>

Next ==
  \/ \E i \in Ids : StepPart(i) \/ ERefuse(i) \/ ESolveFresh(i)
  \/ \E i \in Ids \ {1}, sl \in {"F", "D"} : Save(i, sl)
  \/ \E j \in Ids, sl \in {"F", "P", "D"} : Load(sl, j)
  \/ \E i \in Ids \ {1}, j \in Ids : DeepCopy(i, j)
  \/ \E j \in Ids : RestoreRng(j) \/ Scramble(j)

Spec == Init /\ [][Next]_vars

(* ------------------------------------------------------------------ properties *)
Uninterrupted(r) == inst[r].alive /\ inst[r].origin \in {"ref", "orig"}
Resumed(i) == inst[i].alive /\ inst[i].origin \in {"load", "copy"}

SamePremise(i, r) == /\ inst[i].eg = inst[r].eg
                     /\ inst[i].cfg = inst[r].cfg
                     /\ Inputs(inst[i]) = Inputs(inst[r])
                     /\ inst[i].stepped = inst[r].stepped
                     /\ ~inst[i].dev

ResumeEquivalence ==
  Idle =>
  \A i \in Ids, r \in Ids :
     (Resumed(i) /\ Uninterrupted(r) /\ SamePremise(i, r)) => Abs(inst[i], obj, cell) = Abs(inst[r], obj, cell)

Independence ==
  [][\A x \in Ids : (inst[x].alive /\ acting' # x) => State(x)' = State(x)]_vars

CopyCounts ==
  \A i \in Ids : (inst[i].alive /\ inst[i].ens) =>
     /\ Total(inst[i], obj, cell) = inst[i].base + inst[i].own
     /\ \A j \in 1..Len(inst[i].mem) :
          LET m == obj[inst[i].mem[j]] IN cell[m.fc] = m.base + m.own

(* the calls an ensemble is accountable for are exactly those of ITS members (with CopyCounts: the ensemble's total is *)
(* the sum of its members' counters, and nobody else's members count into it)                                         *)
RECURSIVE SumAcc(_, _, _)
SumAcc(e, o, j) == IF j > Len(e.mem) THEN 0 ELSE o[e.mem[j]].base + o[e.mem[j]].own + SumAcc(e, o, j + 1)
TotalIsSum ==
  \A i \in Ids : (inst[i].alive /\ inst[i].ens) => inst[i].base + inst[i].own = SumAcc(inst[i], obj, 1)

RngLabelsFunctional ==
  \A i \in Ids, j \in Ids :
    (inst[i].alive /\ inst[j].alive) =>
      \A m \in 1..Len(inst[i].epos), n \in 1..Len(inst[j].epos) :
         inst[i].epos[m][1] = inst[j].epos[n][1] =>
            m = n /\ SubSeq(Inputs(inst[i]), 1, m - 1) = SubSeq(Inputs(inst[j]), 1, n - 1)

TypeOK ==
  /\ kind \in EKinds
  /\ busy \in 0..MaxInst
  /\ nobj \in 1..(MaxObjs + 1) /\ ncell \in 1..(MaxCells + 1)
  /\ \A i \in Ids : inst[i].alive =>
        /\ inst[i].eg \in -1..MaxGen
        /\ \A j \in 1..Len(inst[i].mem) :
             LET m == obj[inst[i].mem[j]] IN
               /\ m.gens \in -1..MaxGen
               /\ m.gens <= inst[i].eg
               /\ cell[m.sm] + (IF m.pend THEN 1 ELSE 0) = m.gens + 1      \* one step-monitor record per generation

(* ------------------------------------------------------------------ vacuity witnesses (must be VIOLATED) *)
(* a restored ensemble has continued for two steps and is compared with the uninterrupted one *)
NeverResumedCompared ==
  ~ \E i \in Ids, r \in Ids : Idle /\ Resumed(i) /\ inst[i].origin = "load" /\ Uninterrupted(r) /\ SamePremise(i, r)
                               /\ inst[i].eg >= inst[i].born + 2
NeverCopyCompared ==
  ~ \E i \in Ids, r \in Ids : Idle /\ Resumed(i) /\ inst[i].origin = "copy" /\ Uninterrupted(r) /\ SamePremise(i, r)
                               /\ inst[i].eg >= inst[i].born + 1
(* a copy leaves the trajectory by re-clipping (the waiver is used) *)
NeverPerturbed == ~ \E i \in Ids : inst[i].alive /\ inst[i].dev
(* the members are NOT in lock-step: member 1 terminated, another member advanced afterwards, in a restored ensemble *)
NeverMemberStoppedEarly ==
  ~ \E i \in Ids : /\ Resumed(i) /\ inst[i].origin = "load" /\ Len(inst[i].mem) >= 2
                   /\ StopM(obj[inst[i].mem[1]], inst[i].cfg, 1)
                   /\ obj[inst[i].mem[2]].gens > obj[inst[i].mem[1]].gens
                   /\ obj[inst[i].mem[2]].gens > inst[i].born
(* a checkpoint taken at the stop is restored and the restored ensemble is called again *)
NeverStopRestoredRefused ==
  ~ \E i \in Ids : Idle /\ Resumed(i) /\ inst[i].origin = "load" /\ Stopped(i) /\ inst[i].nrf >= 1
                    /\ SamePremise(i, 2) /\ inst[2].nrf >= 1
(* Solve() (run-to-completion route) ends, its forced dump is restored *)
NeverSolveDumpRestored ==
  ~ \E i \in Ids : Resumed(i) /\ inst[i].origin = "load" /\ inst[i].file = "P" /\ ~inst[i].stepped /\ Stopped(i)
(* the periodic dump of a step-wise driven ensemble is restored and continued *)
NeverPeriodicRestore ==
  ~ \E i \in Ids, r \in Ids : Idle /\ Resumed(i) /\ inst[i].file = "P" /\ inst[i].origin = "load" /\ inst[i].stepped
                    /\ inst[i].eg > inst[i].born /\ Uninterrupted(r) /\ SamePremise(i, r)
=============================================================================
