------------------------------ MODULE Wrappers ------------------------------
(***************************************************************************)
(* C07, one-line wrappers.  A wrapper of mystic.solvers                    *)
(*     fmin  fmin_powell  diffev  diffev2  lattice  buckshot  sparsity     *)
(* is documented as a shorthand ("minimal function interface") for a       *)
(* configuration of the class API (abstract_solver.py: "An equivalent, but *)
(* less flexible, call using the function interface is ...").  This module *)
(* states, per wrapper, WHICH class-API script an argument list denotes.   *)
(*                                                                         *)
(* Variables                                                               *)
(*   w       the wrapper called                                            *)
(*   prob    the catalogue problem (cost, start point / start box, bounds; *)
(*           only its dimension Dim[prob] is known here)                   *)
(*   x0k     what the second positional argument is: "point" (x0 is a      *)
(*           parameter vector), "box" (diffev/diffev2: x0 is a list of     *)
(*           (min,max) pairs), "ndim" (ensembles: the dimension)           *)
(*   args    the abstract argument record: keyword -> 0 (the keyword is    *)
(*           not written in the call) or the index i >= 1 of the value     *)
(*           given, Doc(w)[keyword][i].  Index 1 is always the DOCUMENTED  *)
(*           DEFAULT written out explicitly; indices >= 2 are other values *)
(*   script  the class-API configuration script the call denotes: a        *)
(*           sequence of calls [op |-> method, p |-> parameters], from the *)
(*           construction of the solver object to the shape of the value   *)
(*           returned                                                      *)
(*                                                                         *)
(* Values are tagged records (TLC cannot mix types): N = None, I(n) an     *)
(* integer, B(b) a flag, Q(n,d) the float n/d, Z(..) a tuple of integers,  *)
(* S(name) a mystic object known by name (strategy, solver class), O(kind, *)
(* id) the id-th object of that kind of the harness catalogue (bounds,     *)
(* monitor, constraints, penalty, callback, map, dist, args, direc, x0);   *)
(* O("monitor", 0) is "a new empty Monitor()".                             *)
(*                                                                         *)
(* One action, Give(k, i): the caller writes one more keyword.  One        *)
(* operator per wrapper (Fmin, FminPowell, DiffEv, DiffEv2, Lattice,       *)
(* Buckshot, Sparsity) transcribes the wrapper's docstring; Doc(w) is the  *)
(* table of its documented keywords and defaults.  TLC enumerates the      *)
(* argument records that deviate from the all-defaults call in at most     *)
(* Depth[w] keywords (with FreeRanges, tightrange/cliprange are free once  *)
(* bounds are given) plus, with ExplicitDefaults, every call that writes   *)
(* one keyword with its documented default, checks the design statements   *)
(* at the end of the module and prints every case (MC_Wrappers.Emit).      *)
(*                                                                         *)
(* Where the documentation is silent this module follows the order of the  *)
(* calls in the implementation (only the place of the initial-point call   *)
(* matters: SetStrictRanges(tight=True) draws random numbers and           *)
(* SetInitialPoints clips to ranges already set -- premise "same initial   *)
(* population" of C07).  Where documentation and implementation DISAGREE   *)
(* the documentation is transcribed (see the notes marked DOC/CODE).       *)
(*                                                                         *)
(* Named deviation  DevStepIgnored: the as-found lattice / buckshot /      *)
(* sparsity accept `step` and do not forward it to Solve.  C07 promises    *)
(* the same RESULT in step-wise and run-to-completion mode, so a call with *)
(* step=True is judged against both readings (StepForwarded and            *)
(* StepIgnored below; MC_Wrappers prints both scripts); the instance       *)
(* AsIs = TRUE models the deviation and TLC refutes StepIsASetting on it.  *)
(*                                                                         *)
(* Observations on the as-found code, recorded, NOT judged (none of them   *)
(* contradicts C07 as stated):                                             *)
(*  O1 a keyword that is PRESENT is treated as a value given, also when    *)
(*     the value is the documented default None: id=None raises TypeError  *)
(*     (int(None)) in all seven wrappers; itermon=None raises              *)
(*     AttributeError (stepmon.x) in fmin, fmin_powell, diffev, diffev2;   *)
(*     solver=None raises TypeError("None is not a valid solver") in the   *)
(*     ensembles; strategy=None makes diffev/diffev2 run with no mutation  *)
(*     strategy (a different, worse trajectory than Best1Bin); evalmon=    *)
(*     None installs a Null evaluation monitor instead of Monitor() (not   *)
(*     observable by the caller).  Hence ExplicitDefaults = FALSE in the   *)
(*     judged instances; ExplicitDefaultIsDefault is model-checked on a    *)
(*     design instance only.                                               *)
(*  O2 `step` is accepted and not forwarded (DevStepIgnored).              *)
(*  O3 fmin switches to VTRChangeOverGeneration(ftol) when xtol is falsy   *)
(*     (`if xtol:`); xtol is "acceptable absolute error", i.e. > 0: the    *)
(*     value 0 is outside the premise and not enumerated.                  *)
(*  O4 diffev documents `map`, but DifferentialEvolutionSolver has no      *)
(*     SetMapper: diffev(map=m) raises AttributeError; not enumerated.     *)
(***************************************************************************)
EXTENDS Integers, Sequences, FiniteSets, TLC

CONSTANTS Starts,     \* set of <<wrapper, problem, x0kind>> explored
          Dim,        \* Dim[problem]: dimension of the catalogue problem
          Depth,      \* Depth[wrapper]: keywords that may deviate from the documented default
          Skip,       \* Skip[wrapper]: keywords not enumerated for this wrapper in this instance
          ExplicitDefaults, \* TRUE: also the calls that write ONE keyword with its documented default (design instance
                      \* only: the as-found code treats "keyword present" as "value given", observation O1)
          FreeRanges, \* TRUE: tightrange/cliprange do not count towards Depth once bounds are given
          Rich,       \* TRUE: second values for the limits / tolerances / population sizes
          AsIs        \* FALSE: the documentation is transcribed.  TRUE: DevStepIgnored is modelled as implemented
                      \* (witness instance: TLC must then refute StepIsASetting)

VARIABLES w, prob, x0k, args, script
vars == <<w, prob, x0k, args, script>>

-----------------------------------------------------------------------------
(* tagged values *)
N        == [t |-> "none"]
I(n)     == [t |-> "int", v |-> n]
B(b)     == [t |-> "bool", v |-> b]
Q(n, d)  == [t |-> "rat", n |-> n, d |-> d]
Z(s)     == [t |-> "ints", v |-> s]
S(name)  == [t |-> "name", v |-> name]
O(k, id) == [t |-> "obj", kind |-> k, id |-> id]
IsNone(v) == v.t = "none"
Fresh    == O("monitor", 0)

Ensembles == {"lattice", "buckshot", "sparsity"}
DEs       == {"diffev", "diffev2"}
Scipy     == {"fmin", "fmin_powell"}

-----------------------------------------------------------------------------
(* Doc(w): keyword -> <<documented default, other values enumerated ...>>   *)
(* The defaults are the ones of the "Args:" section of each docstring.     *)

More(s, t) == IF Rich THEN s \o t ELSE s

Common ==        \* keywords documented with identical wording by all seven wrappers
  [ args        |-> <<O("args", 0), O("args", 1)>>,          \* args (tuple, default=())
    bounds      |-> <<N, O("bounds", 1)>>,                   \* bounds (list(tuple), default=None)
    ftol        |-> <<Q(1, 10000), Q(1, 100)>>,              \* ftol (float, default=1e-4)
    maxiter     |-> More(<<N, I(4)>>, <<I(9)>>),             \* maxiter (int, default=None)
    maxfun      |-> More(<<N, I(15)>>, <<I(40)>>),           \* maxfun (int, default=None)
    full_output |-> <<B(0), B(1)>>,                          \* full_output (bool, default=False)
    disp        |-> <<B(1), B(0)>>,                          \* disp (bool, default=True)
    retall      |-> <<B(0), B(1)>>,                          \* retall (bool, default=False)
    callback    |-> <<N, O("callback", 1)>>,                 \* callback (func, default=None)
    id          |-> <<N, I(3)>>,                             \* id (int, default=None)
    handler     |-> <<B(0), B(1)>>,                          \* handler (bool, default=False)
    itermon     |-> <<N, O("monitor", 1)>>,                  \* itermon (monitor, default=None)
    evalmon     |-> <<N, O("monitor", 2)>>,                  \* evalmon (monitor, default=None)
    constraints |-> <<N, O("constraints", 1)>>,              \* constraints (func, default=None)
    penalty     |-> <<N, O("penalty", 1)>>,                  \* penalty (func, default=None)
    tightrange  |-> <<N, B(1), B(0)>>,                       \* tightrange (bool, default=None)
    cliprange   |-> <<N, B(1), B(0)>> ]                      \* cliprange (bool, default=None)

DEDoc ==         \* diffev and diffev2 (identical "Args:" sections)
  [ ftol     |-> <<Q(5, 1000), Q(1, 100)>>,                  \* ftol (float, default=5e-3)
    npop     |-> More(<<I(4), I(6)>>, <<I(5)>>),             \* npop (int, default=4)
    gtol     |-> More(<<N, I(3)>>, <<I(8)>>),                \* gtol (int, default=None)
    cross    |-> <<Q(9, 10), Q(1, 2)>>,                      \* cross (float, default=0.9)
    scale    |-> <<Q(8, 10), Q(1, 2)>>,                      \* scale (float, default=0.8)
    strategy |-> <<N, S("Rand1Bin")>> ] @@ Common            \* strategy (strategy, default=None)

EnsDoc ==        \* lattice, buckshot, sparsity
  [ gtol   |-> More(<<I(10), I(3)>>, <<I(5)>>),              \* gtol (int, default=10)
    solver |-> <<N, S("PowellDirectionalSolver")>>,          \* solver (solver, default=None)
    map    |-> <<N, O("map", 1)>>,                           \* map (func, default=None)
    dist   |-> <<N, O("dist", 1)>>,                          \* dist (mystic.math.Distribution, default=None)
    step   |-> <<B(0), B(1)>> ] @@ Common                    \* step (bool, default=False)

Doc(wr) ==
  CASE wr = "fmin"        -> [ xtol |-> More(<<Q(1, 10000), Q(1, 100)>>, <<Q(1, 1000)>>) ] @@ Common   \* xtol > 0 (O3)
    [] wr = "fmin_powell" -> [ xtol  |-> <<Q(1, 10000), Q(1, 100)>>,               \* xtol (float, default=1e-4)
                               gtol  |-> More(<<I(2), I(4)>>, <<I(1)>>),           \* gtol (int, default=2)
                               direc |-> <<N, O("direc", 1)>> ] @@ Common          \* direc (tuple, default=None)
    [] wr = "diffev"      -> DEDoc     \* DOC/CODE: the docstring also lists `map`; the module text and the class (no
                                       \* SetMapper on DifferentialEvolutionSolver) say it is for diffev2: not enumerated
    [] wr = "diffev2"     -> [ map |-> <<N, O("map", 1)>> ] @@ DEDoc               \* map (function, default=None)
    [] wr = "lattice"     -> [ nbins |-> <<Z(<<8>>), Z(<<2, 2, 1>>), Z(<<3>>)>> ] @@ EnsDoc
                                       \* nbins (tuple(int), default=8): "total bins, or # of bins in each dimension";
                                       \* Z(<<n>>) is the integer n, a longer tuple is cut to the dimension
    [] wr = "buckshot"    -> [ npts |-> More(<<I(8), I(3)>>, <<I(5)>>) ] @@ EnsDoc \* npts (int, default=8)
    [] wr = "sparsity"    -> [ npts |-> <<I(8), I(3)>>,                            \* npts (int, default=8)
                               rtol |-> <<N, Q(1, 4)>> ] @@ EnsDoc                 \* rtol (float, default=None)

Keys(wr) == DOMAIN Doc(wr)

(* the value a keyword has in the call: the documented default when it is not written *)
Val(wr, a, k) == Doc(wr)[k][IF a[k] = 0 THEN 1 ELSE a[k]]
Vals(wr, a) == [k \in Keys(wr) |-> Val(wr, a, k)]

-----------------------------------------------------------------------------
(* documented default limits (the `iterscale`/`evalscale` notes of _SetEvaluationLimits):               *)
(* limit = nDim * nPop * scale;  Nelder-Mead 200/200, Powell 1000/1000 (nPop = 1), DE 10/1000            *)
Max2(x, y) == IF x > y THEN x ELSE y
DefLimits(cls, dim, np) ==
  CASE cls = "NelderMeadSimplexSolver" -> <<200 * dim, 200 * dim>>
    [] cls = "PowellDirectionalSolver" -> <<1000 * dim, 1000 * dim>>
    [] OTHER                           -> <<10 * dim * np, 1000 * dim * np>>

(* the warning flag of the returned tuple ("1 : Maximum number of function evaluations", "2 : Maximum   *)
(* number of iterations"); evaluations first, as Lifecycle.WarnFlag                                      *)
WarnFlag(iter, fcalls, limG, limE) == IF fcalls >= limE THEN 1 ELSE IF iter >= limG THEN 2 ELSE 0

-----------------------------------------------------------------------------
(* the script *)
Call(op, p) == [op |-> op, p |-> p]
Opt(c, call) == IF c THEN <<call>> ELSE << >>

(* the settings every docstring names with the same words *)
Limits(v)   == <<Call("SetEvaluationLimits", [generations |-> v["maxiter"], evaluations |-> v["maxfun"]])>>
Monitors(v) == <<Call("SetEvaluationMonitor", [monitor |-> IF IsNone(v["evalmon"]) THEN Fresh ELSE v["evalmon"]]),
                 Call("SetGenerationMonitor", [monitor |-> IF IsNone(v["itermon"]) THEN Fresh ELSE v["itermon"]])>>
Ident(v)    == Opt(~IsNone(v["id"]), Call("SetId", [id |-> v["id"]]))
Penalty(v)  == Opt(~IsNone(v["penalty"]), Call("SetPenalty", [penalty |-> v["penalty"]]))
Constr(v)   == Opt(~IsNone(v["constraints"]), Call("SetConstraints", [constraints |-> v["constraints"]]))
Ranges(v)   == Opt(~IsNone(v["bounds"]), Call("SetStrictRanges", [bounds |-> v["bounds"], tight |-> v["tightrange"],
                                                                 clip |-> v["cliprange"]]))
Handler(v)  == Opt(v["handler"].v = 1, Call("enable_signal_handler", [on |-> B(1)]))
Mapper(v)   == Opt(~IsNone(v["map"]), Call("SetMapper", [map |-> v["map"]]))

(* shape of the returned value: "(xopt, {fopt, iter, funcalls, warnflag, ..}, {allvecs})" *)
Return(v, more) ==
  LET full == IF v["full_output"].v = 1 THEN <<"xopt", "fopt", "iter", "funcalls", "warnflag">> \o more ELSE <<"xopt">>
      all  == IF v["retall"].v = 1 THEN full \o <<"allvecs">> ELSE full
  IN  <<Call("Return", [fields |-> all, tuple |-> Len(all) > 1])>>

(* fmin: "termination = CandidateRelativeTolerance(xtol,ftol)", "Both the ftol and xtol criteria must be met"  *)
(* (xtol > 0; observation O3)                                                                                   *)
Fmin(v, d) ==
     <<Call("New", [cls |-> "NelderMeadSimplexSolver", dim |-> d, more |-> << >>])>>
  \o <<Call("SetInitialPoints", [x0 |-> O("x0", 1)])>>
  \o Limits(v) \o Monitors(v) \o Ident(v) \o Penalty(v) \o Constr(v) \o Ranges(v) \o Handler(v)
  \o <<Call("SetTermination", [kind |-> "CandidateRelativeTolerance", xtol |-> v["xtol"], ftol |-> v["ftol"]])>>
  \o <<Call("Solve", [ExtraArgs |-> v["args"], callback |-> v["callback"], disp |-> v["disp"]])>>
  \o Return(v, << >>)

(* fmin_powell: "gtol (int, default=2): maximum iterations to run without improvement",                       *)
(* termination = NormalizedChangeOverGeneration(ftol, gtol); xtol is the line-search tolerance of Solve;       *)
(* the returned tuple carries the direction set                                                                *)
FminPowell(v, d) ==
     <<Call("New", [cls |-> "PowellDirectionalSolver", dim |-> d, more |-> << >>])>>
  \o <<Call("SetInitialPoints", [x0 |-> O("x0", 1)])>>
  \o Limits(v) \o Monitors(v) \o Ident(v) \o Penalty(v) \o Constr(v) \o Ranges(v) \o Handler(v)
  \o <<Call("SetTermination", [kind |-> "NormalizedChangeOverGeneration", tolerance |-> v["ftol"], generations |-> v["gtol"]])>>
  \o <<Call("Solve", [ExtraArgs |-> v["args"], callback |-> v["callback"], disp |-> v["disp"], xtol |-> v["xtol"],
                      direc |-> v["direc"]])>>
  \o Return(v, <<"direc">>)

(* diffev / diffev2: "termination = ChangeOverGeneration(ftol,gtol), if gtol provided;                         *)
(* VTRChangeOverGenerations(ftol), otherwise"; "strategy = Best1Bin"; x0 is a start point or a list of         *)
(* (min,max) pairs "that define a region from which random initial points are drawn" (it does not bound the    *)
(* search: only `bounds` does).  `disp` governs the wrapper's own messages, not a setting of the solver.       *)
DEScript(cls, v, d, kind, withmap) ==
     <<Call("New", [cls |-> cls, dim |-> d, more |-> <<v["npop"]>>])>>
  \o Limits(v) \o Monitors(v) \o Ident(v) \o Penalty(v) \o Constr(v) \o Ranges(v)
  \o <<IF kind = "box" THEN Call("SetRandomInitialPoints", [box |-> O("x0box", 1)])
                       ELSE Call("SetInitialPoints", [x0 |-> O("x0", 1)])>>
  \o (IF withmap THEN Mapper(v) ELSE << >>) \o Handler(v)
  \o <<IF IsNone(v["gtol"])
       THEN Call("SetTermination", [kind |-> "VTRChangeOverGeneration", ftol |-> v["ftol"]])
       ELSE Call("SetTermination", [kind |-> "ChangeOverGeneration", tolerance |-> v["ftol"], generations |-> v["gtol"]])>>
  \o <<Call("Solve", [ExtraArgs |-> v["args"], callback |-> v["callback"],
                      strategy |-> IF IsNone(v["strategy"]) THEN S("Best1Bin") ELSE v["strategy"],
                      CrossProbability |-> v["cross"], ScalingFactor |-> v["scale"]])>>
  \o Return(v, << >>)

DiffEv(v, d, kind)  == DEScript("DifferentialEvolutionSolver", v, d, kind, FALSE)
DiffEv2(v, d, kind) == DEScript("DifferentialEvolutionSolver2", v, d, kind, TRUE)

(* ensembles: N nested solvers (default Nelder-Mead) started on a lattice / at random points / in sparse       *)
(* regions; "gtol (int, default=10)", termination = NormalizedChangeOverGeneration(ftol, gtol);                *)
(* "step (bool, default=False): if True, enable Step within the ensemble" is the `step` setting of Solve;      *)
(* the returned tuple carries the total number of evaluations of all members.                                  *)
(* DOC/CODE: DevStepIgnored -- the code never passes `step` on to Solve (fwd = FALSE)                           *)
NestedCls(v) == IF IsNone(v["solver"]) THEN "NelderMeadSimplexSolver" ELSE v["solver"].v
EnsScript(cls, size, v, d, fwd) ==
     <<Call("New", [cls |-> cls, dim |-> d, more |-> size])>>
  \o <<Call("SetNestedSolver", [solver |-> S(NestedCls(v))])>>
  \o Limits(v) \o Monitors(v) \o Ident(v)
  \o Opt(~IsNone(v["dist"]), Call("SetDistribution", [dist |-> v["dist"]]))
  \o Penalty(v) \o Constr(v) \o Ranges(v) \o Mapper(v) \o Handler(v)
  \o <<Call("SetTermination", [kind |-> "NormalizedChangeOverGeneration", tolerance |-> v["ftol"], generations |-> v["gtol"]])>>
  \o <<Call("Solve", [ExtraArgs |-> v["args"], callback |-> v["callback"], disp |-> v["disp"],
                      step |-> IF fwd THEN v["step"] ELSE B(0)])>>
  \o Return(v, <<"allfuncalls">>)

Bins(z, d) == IF Len(z.v) = 1 THEN I(z.v[1]) ELSE Z(SubSeq(z.v, 1, d))
Lattice(v, d, fwd)  == EnsScript("LatticeSolver", <<Bins(v["nbins"], d)>>, v, d, fwd)
Buckshot(v, d, fwd) == EnsScript("BuckshotSolver", <<v["npts"]>>, v, d, fwd)
Sparsity(v, d, fwd) == EnsScript("SparsitySolver", <<v["npts"], v["rtol"]>>, v, d, fwd)

Reading(wr, p, kind, a, fwd) ==
  LET v == Vals(wr, a)
      d == Dim[p]
  IN  CASE wr = "fmin"        -> Fmin(v, d)
        [] wr = "fmin_powell" -> FminPowell(v, d)
        [] wr = "diffev"      -> DiffEv(v, d, kind)
        [] wr = "diffev2"     -> DiffEv2(v, d, kind)
        [] wr = "lattice"     -> Lattice(v, d, fwd)
        [] wr = "buckshot"    -> Buckshot(v, d, fwd)
        [] wr = "sparsity"    -> Sparsity(v, d, fwd)

StepForwarded(wr, p, kind, a) == Reading(wr, p, kind, a, TRUE)     \* the documented reading
StepIgnored(wr, p, kind, a)   == Reading(wr, p, kind, a, FALSE)    \* DevStepIgnored
Denote(wr, p, kind, a) == IF AsIs THEN StepIgnored(wr, p, kind, a) ELSE StepForwarded(wr, p, kind, a)
(* a call whose result C07 promises to be the same under both readings: step=True given to an ensemble *)
StepCase(wr, a) == wr \in Ensembles /\ Val(wr, a, "step") = B(1)
(* premise of that promise (C07: "ensembles whose member solvers draw no random numbers while running"):       *)
(* cliprange=False maps a candidate outside the bounds to a RANDOM point inside (mystic.constraints.bounded),  *)
(* so the members draw random numbers while running and step-wise / run-to-completion mode consume the global  *)
(* generator in different orders.  Such calls are outside the premise and are not enumerated with step=True.   *)
RandomWhileRunning(wr, a) == /\ ~IsNone(Val(wr, a, "bounds"))
                             /\ ~IsNone(Val(wr, a, "cliprange")) /\ Val(wr, a, "cliprange").v = 0
Premise(wr, a) == ~(StepCase(wr, a) /\ RandomWhileRunning(wr, a))

(* the limits in force ("maxiter (int, default=None)": None = the documented default of the solver class that *)
(* takes the steps -- for an ensemble the nested one); the wrappers derive the warning flag from them         *)
StepCls(wr, v) == CASE wr = "fmin" -> "NelderMeadSimplexSolver" [] wr = "fmin_powell" -> "PowellDirectionalSolver"
                    [] wr \in DEs -> "DifferentialEvolutionSolver" [] OTHER -> NestedCls(v)
NPop(wr, v, d) == IF wr \in DEs THEN Max2(Max2(v["npop"].v, d), 4) ELSE 1    \* "[requires: NP >= 4]"
ResLimits(wr, p, a) ==
  LET v == Vals(wr, a)
      def == DefLimits(StepCls(wr, v), Dim[p], NPop(wr, v, Dim[p]))
  IN  <<IF IsNone(v["maxiter"]) THEN def[1] ELSE v["maxiter"].v, IF IsNone(v["maxfun"]) THEN def[2] ELSE v["maxfun"].v>>

-----------------------------------------------------------------------------
(* enumeration *)
NoArgs(wr) == [k \in Keys(wr) |-> 0]
Deviating(wr, a) == {k \in Keys(wr) : a[k] >= 2}
Explicit(wr, a)  == {k \in Keys(wr) : a[k] = 1}
RangeKeys == {"tightrange", "cliprange"}
Cost(wr, a) == Cardinality(Deviating(wr, a) \ (IF FreeRanges /\ a["bounds"] >= 2 THEN RangeKeys ELSE {}))

Init == /\ \E s \in Starts : w = s[1] /\ prob = s[2] /\ x0k = s[3]
        /\ args = NoArgs(w)
        /\ script = Denote(w, prob, x0k, args)

(* the caller writes one more keyword: either the documented default written out (alone in the call), or a  *)
(* value deviating from it                                                                                   *)
Give(k, i) ==
  /\ args[k] = 0
  /\ k \notin Skip[w]
  /\ i \in 1..Len(Doc(w)[k])
  /\ Explicit(w, args) = {}
  /\ i = 1 => ExplicitDefaults /\ args = NoArgs(w)
  /\ LET a2 == [args EXCEPT ![k] = i]
     IN  /\ Cost(w, a2) <= Depth[w]
         /\ Premise(w, a2)
         /\ args' = a2
         /\ script' = Denote(w, prob, x0k, a2)
  /\ UNCHANGED <<w, prob, x0k>>

Next == \E k \in Keys(w) : \E i \in 1..Len(Doc(w)[k]) : Give(k, i)
Spec == Init /\ [][Next]_vars

-----------------------------------------------------------------------------
(* design statements *)
Ops == {script[j].op : j \in 1..Len(script)}
Sel(sc, op) == SelectSeq(sc, LAMBDA c : c.op = op)

(* the script is a function of WHICH keywords were given WHICH values: not of the order in which they were written *)
(* (every order of Give is explored; two orders reach the same state only if this holds)                            *)
KeywordOrderIndependent == script = Denote(w, prob, x0k, args)

(* writing the documented default explicitly denotes the same script as leaving the keyword out *)
ExplicitDefaultIsDefault == script = Denote(w, prob, x0k, [k \in Keys(w) |-> IF args[k] = 1 THEN 0 ELSE args[k]])

(* shape: construction first, exactly one termination, Solve, Return last; no call twice *)
WellFormed ==
  /\ script[1].op = "New"
  /\ script[Len(script)].op = "Return" /\ script[Len(script) - 1].op = "Solve" /\ script[Len(script) - 2].op = "SetTermination"
  /\ \A i, j \in 1..Len(script) : script[i].op = script[j].op => i = j
  /\ ("SetInitialPoints" \in Ops) # ("SetRandomInitialPoints" \in Ops) \/ w \in Ensembles
  /\ w \in Ensembles => ~("SetInitialPoints" \in Ops \/ "SetRandomInitialPoints" \in Ops)

(* every keyword influences at most the call(s) its documentation names *)
Influence(k) ==
  CASE k \in {"args", "callback", "disp", "direc", "cross", "scale", "strategy", "step"} -> {"Solve"}
    [] k \in {"bounds", "tightrange", "cliprange"} -> {"SetStrictRanges"}
    [] k \in {"ftol", "gtol"} -> {"SetTermination"}
    [] k = "xtol" -> IF w = "fmin" THEN {"SetTermination"} ELSE {"Solve"}
    [] k \in {"maxiter", "maxfun"} -> {"SetEvaluationLimits"}
    [] k \in {"full_output", "retall"} -> {"Return"}
    [] k = "id" -> {"SetId"}
    [] k = "handler" -> {"enable_signal_handler"}
    [] k = "itermon" -> {"SetGenerationMonitor"}
    [] k = "evalmon" -> {"SetEvaluationMonitor"}
    [] k = "constraints" -> {"SetConstraints"}
    [] k = "penalty" -> {"SetPenalty"}
    [] k \in {"npop", "nbins", "npts", "rtol"} -> {"New"}
    [] k = "map" -> {"SetMapper"}
    [] k = "solver" -> {"SetNestedSolver"}
    [] k = "dist" -> {"SetDistribution"}
AllOps == {"New", "SetInitialPoints", "SetRandomInitialPoints", "SetNestedSolver", "SetEvaluationLimits",
           "SetEvaluationMonitor", "SetGenerationMonitor", "SetId", "SetDistribution", "SetPenalty", "SetConstraints",
           "SetStrictRanges", "SetMapper", "enable_signal_handler", "SetTermination", "Solve", "Return"}
Locality ==
  [][\A k \in Keys(w) : args'[k] # args[k] =>
        \A op \in AllOps \ Influence(k) : Sel(script', op) = Sel(script, op)]_vars

(* settings the caller did not touch are not touched by the wrapper: optional calls appear iff their keyword *)
(* was given a value other than None/False; tightrange/cliprange without bounds denote nothing               *)
OptionalIffGiven ==
  LET v == Vals(w, args)
  IN  /\ ("SetStrictRanges" \in Ops) = ~IsNone(v["bounds"])
      /\ ("SetPenalty" \in Ops) = ~IsNone(v["penalty"])
      /\ ("SetConstraints" \in Ops) = ~IsNone(v["constraints"])
      /\ ("SetId" \in Ops) = ~IsNone(v["id"])
      /\ ("enable_signal_handler" \in Ops) = (v["handler"].v = 1)
      /\ ("SetMapper" \in Ops) = ("map" \in Keys(w) /\ ~IsNone(v["map"]))
      /\ ("SetDistribution" \in Ops) = ("dist" \in Keys(w) /\ ~IsNone(v["dist"]))

(* the all-defaults call: fresh monitors, default limits, no optional call, xopt alone returned *)
DefaultsAsDocumented ==
  args = NoArgs(w) =>
     /\ Sel(script, "SetEvaluationLimits")[1].p = [generations |-> N, evaluations |-> N]
     /\ Sel(script, "SetEvaluationMonitor")[1].p.monitor = Fresh /\ Sel(script, "SetGenerationMonitor")[1].p.monitor = Fresh
     /\ Ops \cap {"SetStrictRanges", "SetPenalty", "SetConstraints", "SetId", "enable_signal_handler", "SetMapper",
                  "SetDistribution"} = {}
     /\ Sel(script, "Return")[1].p = [fields |-> <<"xopt">>, tuple |-> FALSE]
     /\ Sel(script, "SetTermination")[1].p =
          CASE w = "fmin" -> [kind |-> "CandidateRelativeTolerance", xtol |-> Q(1, 10000), ftol |-> Q(1, 10000)]
            [] w = "fmin_powell" -> [kind |-> "NormalizedChangeOverGeneration", tolerance |-> Q(1, 10000), generations |-> I(2)]
            [] w \in DEs -> [kind |-> "VTRChangeOverGeneration", ftol |-> Q(5, 1000)]
            [] OTHER -> [kind |-> "NormalizedChangeOverGeneration", tolerance |-> Q(1, 10000), generations |-> I(10)]
     /\ ResLimits(w, prob, args) = DefLimits(StepCls(w, Vals(w, args)), Dim[prob], IF w \in DEs THEN Max2(4, Dim[prob]) ELSE 1)

(* the statement of the ensemble docstrings that the implementation is known not to honour (DevStepIgnored): *)
(* it holds here; the instance with AsIs = TRUE refutes it.  The two readings differ in nothing else.         *)
StepIsASetting == w \in Ensembles => Sel(script, "Solve")[1].p.step = Vals(w, args)["step"]
ReadingsDifferOnlyInStep ==
  LET f == StepForwarded(w, prob, x0k, args)
      g == StepIgnored(w, prob, x0k, args)
  IN  /\ Len(f) = Len(g)
      /\ \A j \in 1..Len(f) : f[j].op # "Solve" => f[j] = g[j]
      /\ (f # g) = StepCase(w, args)

(* vacuity companions (each must be refuted) *)
NeverThreeDeviate == Cardinality(Deviating(w, args)) < 3
NeverExplicitDefault == Explicit(w, args) = {}
NeverRanges == ~("SetStrictRanges" \in Ops /\ ~IsNone(Sel(script, "SetStrictRanges")[1].p.clip))
=============================================================================
