SPECIFICATION Spec
CONSTANTS
  Starts <- TStarts
  Dim <- Dims
  Depth <- TDepth
  Skip <- NoSkip
  ExplicitDefaults = TRUE
  FreeRanges = TRUE
  Rich = TRUE
  AsIs = FALSE
INVARIANT NeverRanges
