\* thorough: Step 0 + two generations over the 4-rule alphabet
SPECIFICATION Spec
CONSTANTS
  NP = 4
  K = 3
  Kinds = {"DE", "DE2"}
  Tables <- STables
  Pops <- SPops
  Rules <- SmallRules
  G = 2
INVARIANT EnergyFaithful
INVARIANT BestIsMinAccepted
PROPERTY PopENonIncreasing
PROPERTY ReplacedOnlyByStrictlyLower
PROPERTY Greedy
PROPERTY BestMonotone
INVARIANT Emit
