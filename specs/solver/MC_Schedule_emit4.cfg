SPECIFICATION SpecB
CONSTANTS
  Kinds <- AllKinds
  Pool <- Pool5
  K = 1
  InitAts <- P0
  Pres <- P0
  Variant = "coded"
  Sys = "de2"
  N = 4
  Energies <- E1
  Gens = 1
  Ks <- K1
  Modes <- Both
  MaxRun = 4
  Consume = "index"
  Scan = "index"
  Cmp = "le"
  FinalReduce = TRUE
  Track = TRUE
INVARIANT TypeB
INVARIANT EmitB
