\* three further settings, generations 0..3
SPECIFICATION Spec
CONSTANTS EKinds = {"LNM", "BPW"}
  NMem = 2
  MaxGen = 3
  MaxRefuse = 1
  MaxInst = 3
  MaxCells = 28
  MaxObjs = 6
  Settings <- TSettings
  Design = "ok"
  MaxOps = 3
CONSTRAINT RefIdle
INVARIANT TypeOK
INVARIANT ResumeEquivalence
INVARIANT CopyCounts
INVARIANT TotalIsSum
INVARIANT RngLabelsFunctional
PROPERTY Independence
