SPECIFICATION Spec
CONSTANTS Kinds = {"DE", "DE2", "NM", "PW"}
  NP = 2
  Dim = 2
  DefG = 2
  DefE = 5
  MaxK = 2
  MaxCfg = 2
  MaxCalls = 3
  AsIs = TRUE
INVARIANT CounterFaithful
INVARIANT EvalMonFaithful
INVARIANT GensAreIterations
INVARIANT StoppedMonitorComplete
INVARIANT OneCallbackPerStep
INVARIANT NoOvershoot
INVARIANT GensNeverExceed
INVARIANT MsgTruthful
PROPERTY IterOnlyIfAllowed
