SPECIFICATION Spec
CONSTANTS
  Calls <- CallsMenu2
  Switches <- SwPlain
  Wheres = {"cost"}
  InitHandlers = {"default"}
  MaxCalls = 3
  MaxSig = 2
  MaxMenu = 1
  ConsultExit = TRUE
INVARIANT TypeOK
INVARIANT LateZero
INVARIANT MsgNamesExit
INVARIANT ExitVisible
INVARIANT HandlerDiscipline
INVARIANT RestoredAfterSolve
INVARIANT DeadOnlyDefault
INVARIANT CallbackCount
PROPERTY NoIterAfterExit
PROPERTY ForeignUntouched
PROPERTY PromptsOnlyInMenu
PROPERTY SolveStartsClean
PROPERTY StepKeepsRequest
INVARIANT Emit
