\* thorough: one shape <<NP, D>> per TLC process (IOEnv.NP, IOEnv.D), every candidate, F in {1/2, 1}, CR = 3/4
SPECIFICATION Spec
CONSTANTS
  Shapes <- EnvShapes
  Fns = {1, 2}
  Q = 8
  CRq = 6
  MaxSteps = 1
  Accepts = {FALSE}
  StratSet <- Names
  AllCands = TRUE
  AllDraws = FALSE
  BestIsMember = FALSE
INVARIANT ComponentsWellFormed
INVARIANT AtLeastOneMutated
INVARIANT ExpContiguousRun
INVARIANT BinForcedAndFree
INVARIANT DrawsWithinScript
INVARIANT Exact
INVARIANT Emit
