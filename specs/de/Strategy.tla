------------------------------ MODULE Strategy ------------------------------
(***************************************************************************)
(* The ten differential-evolution mutation strategies of mystic.strategy   *)
(*   Best1Exp Best1Bin Rand1Exp Rand1Bin RandToBest1Exp RandToBest1Bin      *)
(*   Best2Exp Best2Bin Rand2Exp Rand2Bin                                    *)
(* as functions of                                                         *)
(*   P    the population        (sequence 1..NP of vectors 1..D)           *)
(*   B    the best vector       (solver.bestSolution, a separate copy)     *)
(*   c    the candidate index   (0-based, as in Python)                    *)
(*   fn   the scale factor      F = fn/2, fn \in {1,2}                     *)
(*   and an EXPLICIT script of the random draws, in the order in which the *)
(*   strategy makes them:                                                  *)
(*     don  = random.sample(all indices except c, k)   the k donors        *)
(*     n    = random.randrange(D)                      the start position  *)
(*     u    = the successive random.random() values    (compared with CR)  *)
(*                                                                         *)
(* NUMBERS.  TLC has integers only.  A coordinate value v stands for the   *)
(* float v / SCALE with SCALE = 2^MaxSteps; initial coordinates are        *)
(* multiples of SCALE, F is 1/2 or 1, so each generation step halves at    *)
(* most once and every trial is an exact integer here and an exact IEEE    *)
(* double in the implementation (invariant Exact).  A draw u stands for    *)
(* the float u / Q and the crossover probability is CR = CRq / Q; only the *)
(* comparison `u < CRq` is ever made (the draws explored are the two       *)
(* values next to the boundary: CRq-1 "below", CRq "not below").           *)
(*                                                                         *)
(* DRAW PROTOCOL (part of this specification, because the binding uses a   *)
(* scripted RNG): one sample() call, then one randrange(D) call, then      *)
(* random() calls.  Binomial: exactly D calls, the i-th decides position   *)
(* i-1; position n is mutated whatever its draw says.  Exponential         *)
(* (Storn & Price, do-while): position n is mutated, then one draw after   *)
(* every mutation; the run continues with the next position (cyclically)   *)
(* while the draw is below CR and fewer than D positions were mutated.     *)
(*                                                                         *)
(* TWO VARIANTS are defined side by side:                                  *)
(*   "pub"  - the strategy as its name/docstring and the DE literature     *)
(*            define it; the properties below are stated for this one;     *)
(*   "asis" - the same with the two NAMED DEVIATIONS the pinned mystic     *)
(*            source shows (see DevBinIsExp, DevExpEmptyRun).  The binding *)
(*            uses it only to classify a mismatch precisely; it is never   *)
(*            the oracle for "held".                                       *)
(*                                                                         *)
(* BestIsMember = TRUE gives the situation right after Step 0 of a solver   *)
(* whose members all have the same energy (best = member 0): the cases are *)
(* then replayed through a whole real generation (see harness/c08_de.py).  *)
(*                                                                         *)
(* The machine: state = (population, best, last generated case); action    *)
(* Gen = "generation step for candidate c with strategy s and draws d";    *)
(* the trial may replace the parent (Accepts), so deeper populations are   *)
(* not generic any more (equal coordinates, halves).                       *)
(***************************************************************************)
EXTENDS Integers, Sequences, FiniteSets, TLC, Json

CONSTANTS Shapes,     \* set of <<NP, D>>
          Fns,        \* subset of {1, 2}: F = fn/2
          Q, CRq,     \* crossover probability CR = CRq/Q
          MaxSteps,   \* number of generation steps explored from the initial population
          Accepts,    \* subset of BOOLEAN: may a trial replace its parent (machine only)
          StratSet,   \* strategies explored
          AllCands,   \* TRUE: every candidate index; FALSE: first, middle, last
          BestIsMember, \* FALSE: best is a vector different from every member; TRUE: best = member 0
          AllDraws    \* TRUE: every draw sequence for every strategy (else per crossover kind)

VARIABLES pop, best, last, steps
vars == <<pop, best, last, steps>>

Names == {"Best1Exp", "Best1Bin", "Rand1Exp", "Rand1Bin", "RandToBest1Exp", "RandToBest1Bin",
          "Best2Exp", "Best2Bin", "Rand2Exp", "Rand2Bin"}
BinNames == {"Best1Bin", "Rand1Bin", "RandToBest1Bin", "Best2Bin", "Rand2Bin"}

Family(s) == CASE s \in {"Best1Exp", "Best1Bin"}             -> "Best1"
               [] s \in {"Rand1Exp", "Rand1Bin"}             -> "Rand1"
               [] s \in {"RandToBest1Exp", "RandToBest1Bin"} -> "RandToBest1"
               [] s \in {"Best2Exp", "Best2Bin"}             -> "Best2"
               [] s \in {"Rand2Exp", "Rand2Bin"}             -> "Rand2"

(* number of donors drawn by random.sample *)
NDonors(s) == CASE Family(s) = "Best1" -> 2 [] Family(s) = "Rand1" -> 3 [] Family(s) = "RandToBest1" -> 2
                [] Family(s) = "Best2" -> 4 [] Family(s) = "Rand2" -> 5

(* ---- named deviations of the pinned implementation ("asis") -------------------------------- *)
(* DevBinIsExp: the bodies of these four *Bin strategies are copies of the exponential loop.   *)
DevBinIsExp == {"Rand1Bin", "RandToBest1Bin", "Best2Bin", "Rand2Bin"}
(* DevExpEmptyRun: the exponential loop draws BEFORE the first mutation                        *)
(*   (`while 1: if random() >= CR or i == nDim: break; mutate`)                                *)
(* so the run may be empty and the trial is the parent unchanged (probability 1-CR).           *)
Variants == {"pub", "asis"}
XKind(s, v) == IF s \in BinNames /\ ~(v = "asis" /\ s \in DevBinIsExp) THEN "Bin" ELSE "Exp"

(* ---- the mutant component ------------------------------------------------------------------ *)
RECURSIVE Pow2(_)
Pow2(k) == IF k = 0 THEN 1 ELSE 2 * Pow2(k - 1)
SCALE == Pow2(MaxSteps)

M(P, r) == P[r + 1]                      \* member with Python index r

(* base and 2*F*difference at (1-based) coordinate j; the mutant is Base + Num/2              *)
Base(s, P, B, c, don, j) ==
  CASE Family(s) \in {"Best1", "Best2"} -> B[j]
    [] Family(s) \in {"Rand1", "Rand2"} -> M(P, don[1])[j]
    [] Family(s) = "RandToBest1"        -> M(P, c)[j]         \* "trial += ...": starts from the parent
Num(s, P, B, c, fn, don, j) ==
  CASE Family(s) = "Best1"       -> fn * (M(P, don[1])[j] - M(P, don[2])[j])
    [] Family(s) = "Rand1"       -> fn * (M(P, don[2])[j] - M(P, don[3])[j])
    [] Family(s) = "RandToBest1" -> fn * (B[j] - M(P, c)[j]) + fn * (M(P, don[1])[j] - M(P, don[2])[j])
    [] Family(s) = "Best2"       -> fn * (M(P, don[1])[j] + M(P, don[2])[j] - M(P, don[3])[j] - M(P, don[4])[j])
    [] Family(s) = "Rand2"       -> fn * (M(P, don[2])[j] + M(P, don[3])[j] - M(P, don[4])[j] - M(P, don[5])[j])
Mutant(s, P, B, c, fn, don, j) == Base(s, P, B, c, don, j) + (Num(s, P, B, c, fn, don, j) \div 2)

(* ---- the scripts ---------------------------------------------------------------------------- *)
IsDistinctOthers(don, c, np) ==
  /\ \A i \in 1..Len(don) : don[i] \in 0..(np - 1) /\ don[i] # c
  /\ \A i, k \in 1..Len(don) : i # k => don[i] # don[k]
(* what random.sample(list(range(c)) + list(range(c+1, NP)), k) can return *)
DonorSeqs(np, c, k) == {r \in [1..k -> 0..(np - 1)] : IsDistinctOthers(r, c, np)}

Lt(x) == x < CRq                         \* `random() < CR`
Below == CRq - 1
NotBelow == CRq
(* exponential: every run length (k leading draws below CR); binomial: every pattern of D draws; *)
(* one spare draw at the end in both (an implementation asking for more than that fails)        *)
(* with CR = 0 no draw of random() in [0,1) is below CR: only the forced position can be mutated *)
DrawVals == IF CRq = 0 THEN {NotBelow} ELSE {Below, NotBelow}
ExpDraws(d) == {[i \in 1..(d + 1) |-> IF i <= k THEN Below ELSE NotBelow] : k \in 0..(IF CRq = 0 THEN 0 ELSE d + 1)}
BinDraws(d) == {b \o <<NotBelow>> : b \in [1..d -> DrawVals]}
DrawSeqs(s, d) == IF AllDraws THEN [1..(d + 1) -> DrawVals]
                  ELSE IF s \in BinNames THEN BinDraws(d) ELSE ExpDraws(d)

(* ---- the strategy: returns [t, w, used, slack, odd] ----------------------------------------- *)
(* t trial vector; w set of (0-based) positions written; used number of random() calls;           *)
(* slack: the last call's outcome could not matter (the run already had D positions);             *)
(* odd: some halving was not exact (must never happen)                                            *)
Apply(s, P, B, c, fn, don, n0, u, v) ==
  LET d == Len(B)
      mut(t, n) == [t EXCEPT ![n + 1] = Mutant(s, P, B, c, fn, don, n + 1)]
      odd(w) == \E n \in w : Num(s, P, B, c, fn, don, n + 1) % 2 # 0
      (* binomial, transcribed from Best1Bin: for i in range(nDim): cross = random(); if i==n or cross < CR *)
      RECURSIVE BinFor(_, _, _)
      BinFor(t, i, w) ==
        IF i = d THEN [t |-> t, w |-> w, used |-> d, slack |-> FALSE, odd |-> odd(w)]
        ELSE IF i = n0 \/ Lt(u[i + 1]) THEN BinFor(mut(t, i), i + 1, w \cup {i})
        ELSE BinFor(t, i + 1, w)
      (* exponential as published: do { mutate; n=(n+1)%D; L++ } while (random() < CR && L < D) *)
      RECURSIVE ExpDo(_, _, _, _, _)
      ExpDo(t, n, i, k, w) ==
        LET t1 == mut(t, n)  i1 == i + 1  w1 == w \cup {n}
        IN IF Lt(u[k]) /\ i1 < d THEN ExpDo(t1, (n + 1) % d, i1, k + 1, w1)
           ELSE [t |-> t1, w |-> w1, used |-> k, slack |-> (i1 = d), odd |-> odd(w1)]
      (* exponential as is: while 1: if random() >= CR or i == nDim: break; mutate; n=(n+1)%D; i+=1 *)
      RECURSIVE ExpWhile(_, _, _, _, _)
      ExpWhile(t, n, i, k, w) ==
        IF ~Lt(u[k]) \/ i = d THEN [t |-> t, w |-> w, used |-> k, slack |-> (i = d), odd |-> odd(w)]
        ELSE ExpWhile(mut(t, n), (n + 1) % d, i + 1, k + 1, w \cup {n})
  IN IF XKind(s, v) = "Bin" THEN BinFor(M(P, c), 0, {})
     ELSE IF v = "asis" THEN ExpWhile(M(P, c), n0, 0, 1, {})
     ELSE ExpDo(M(P, c), n0, 0, 1, {})

(* ---- generic initial population ------------------------------------------------------------- *)
(* coordinates chosen so that any signed sum of up to five different members is different:        *)
(* member i (1-based), coordinate j:  2^(i-1)*j + 100*(j-1);  best: 1000 + 37*j                   *)
Pop0(np, d) == [i \in 1..np |-> [j \in 1..d |-> SCALE * (Pow2(i - 1) * j + 100 * (j - 1))]]
Best0(d) == [j \in 1..d |-> SCALE * (1000 + 37 * j)]

NoRes == [t |-> <<>>, w |-> {}, used |-> 0, slack |-> FALSE, odd |-> FALSE]
NoCase == [s |-> "none", c |-> 0, f |-> 0, don |-> <<>>, n |-> 0, u |-> <<>>, par |-> <<>>,
           pub |-> NoRes, asis |-> NoRes]

Init == \E sh \in Shapes :
          /\ pop = Pop0(sh[1], sh[2])
          /\ best = IF BestIsMember THEN Pop0(sh[1], sh[2])[1] ELSE Best0(sh[2])
          /\ last = NoCase
          /\ steps = 0

NPop == Len(pop)
Dim == Len(best)
Cands == IF AllCands THEN 0..(NPop - 1) ELSE {0, NPop \div 2, NPop - 1}

Gen(s, c, fn, don, n0, u, acc) ==
  LET x == Apply(s, pop, best, c, fn, don, n0, u, "pub")
      y == Apply(s, pop, best, c, fn, don, n0, u, "asis")
  IN /\ last' = [s |-> s, c |-> c, f |-> fn, don |-> don, n |-> n0, u |-> u, par |-> M(pop, c),
                 pub |-> x, asis |-> y]
     /\ pop' = IF acc THEN [pop EXCEPT ![c + 1] = x.t] ELSE pop
     /\ best' = best
     /\ steps' = steps + 1

Next == /\ steps < MaxSteps
        /\ \E s \in StratSet : NDonors(s) <= NPop - 1 /\
           \E c \in Cands : \E fn \in Fns : \E don \in DonorSeqs(NPop, c, NDonors(s)) :
           \E n0 \in 0..(Dim - 1) : \E u \in DrawSeqs(s, Dim) : \E acc \in Accepts :
              Gen(s, c, fn, don, n0, u, acc)

Spec == Init /\ [][Next]_vars

-----------------------------------------------------------------------------
(* THE PROPERTY (C08, differential-evolution half), on the published variant *)
IsCase == last.s # "none"
X == last.pub
Run(n0, len, d) == {(n0 + k) % d : k \in 0..(len - 1)}

(* every component is either the parent's or base + F x (difference of distinct other members) *)
ComponentsWellFormed ==
  IsCase => /\ IsDistinctOthers(last.don, last.c, NPop) /\ Len(last.don) = NDonors(last.s)
            /\ \A j \in 1..Dim :
                 IF (j - 1) \in X.w THEN X.t[j] = Mutant(last.s, [pop EXCEPT ![last.c + 1] = last.par], best,
                                                         last.c, last.f, last.don, j)
                 ELSE X.t[j] = last.par[j]
(* at least one component is mutated: a trial is never just the parent *)
AtLeastOneMutated == IsCase => X.w # {}
(* exponential: the mutated positions are a contiguous cyclic run that starts at n, whose length *)
(* is 1 + the number of leading draws below CR, capped at D                                       *)
ExpContiguousRun ==
  (IsCase /\ last.s \notin BinNames) =>
     \E len \in 1..Dim : /\ X.w = Run(last.n, len, Dim)
                         /\ \A k \in 1..(len - 1) : Lt(last.u[k])
                         /\ (len < Dim => ~Lt(last.u[len]))
(* binomial: position n is forced, every other position is decided by its own draw *)
BinForcedAndFree ==
  (IsCase /\ last.s \in BinNames) =>
     /\ last.n \in X.w
     /\ \A i \in 0..(Dim - 1) : i # last.n => (i \in X.w <=> Lt(last.u[i + 1]))
     /\ X.used = Dim
(* the script is long enough; halvings are exact *)
DrawsWithinScript == IsCase => X.used <= Len(last.u) /\ last.asis.used <= Len(last.u)
Exact == IsCase => ~X.odd /\ ~last.asis.odd

(* ---- witnesses: each of these is EXPECTED TO BE VIOLATED (reachability / deviation witnesses) *)
(* the as-is exponential loop can return the parent unchanged *)
AsIsAtLeastOneMutated == IsCase => last.asis.w # {}
(* the as-is *Bin strategies (other than Best1Bin) can mutate only runs from n; the published can *)
(* mutate scattered sets: reachable in "pub" (violated), unreachable in "asis" for DevBinIsExp    *)
PubBinNeverScattered  == ~(IsCase /\ last.s \in DevBinIsExp /\ \A len \in 0..Dim : X.w # Run(last.n, len, Dim))
AsIsBinNeverScattered == ~(IsCase /\ last.s \in DevBinIsExp /\ \A len \in 0..Dim : last.asis.w # Run(last.n, len, Dim))
(* full-length exponential runs and slack draws occur *)
NeverFullRun == ~(IsCase /\ last.s \notin BinNames /\ X.w = 0..(Dim - 1) /\ Dim > 1)

-----------------------------------------------------------------------------
(* emission for the spec -> code replay: header once, the initial states, one line per case *)
ASSUME PrintT(<<"@@", ToJson([k |-> "hdr", Q |-> Q, CRq |-> CRq, scale |-> SCALE,
                              order |-> <<"sample", "randrange", "random">>,
                              ndonors |-> [s \in Names |-> NDonors(s)]])>>)
Emit ==
  IF ~IsCase
  THEN PrintT(<<"@@", ToJson([k |-> "init", np |-> NPop, d |-> Dim, pop |-> pop, best |-> best])>>)
  ELSE steps > 1 \/
       PrintT(<<"@@", ToJson([k |-> "case", np |-> NPop, d |-> Dim, s |-> last.s, c |-> last.c, f |-> last.f,
                              don |-> last.don, n |-> last.n, u |-> last.u,
                              t |-> X.t, w |-> X.w, used |-> X.used, sl |-> X.slack,
                              at |-> last.asis.t, aw |-> last.asis.w, aused |-> last.asis.used,
                              asl |-> last.asis.slack])>>)
=============================================================================
