\* whole-generation replay: best = member 0, F = 1/2, CR = 1/2, every candidate; shapes <<5,3>>, <<6,1>>, <<4,2>>
SPECIFICATION Spec
CONSTANTS
  Shapes <- SGen
  Fns = {1}
  Q = 8
  CRq = 4
  MaxSteps = 1
  Accepts = {FALSE}
  StratSet <- Names
  AllCands = TRUE
  AllDraws = FALSE
  BestIsMember = TRUE
INVARIANT ComponentsWellFormed
INVARIANT AtLeastOneMutated
INVARIANT ExpContiguousRun
INVARIANT BinForcedAndFree
INVARIANT DrawsWithinScript
INVARIANT Exact
INVARIANT Emit
