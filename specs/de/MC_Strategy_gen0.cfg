\* whole-generation replay: best = member 0, F in {0, 1/2}, CR = 0 (falsy settings: nothing but the forced position may be mutated; F = 0 leaves the base), every candidate; shapes <<5,3>>, <<6,1>>, <<4,2>>
SPECIFICATION Spec
CONSTANTS
  Shapes <- SGen
  Fns = {0, 1}
  Q = 8
  CRq = 0
  MaxSteps = 1
  Accepts = {FALSE}
  StratSet <- Names
  AllCands = TRUE
  AllDraws = FALSE
  BestIsMember = TRUE
INVARIANT ComponentsWellFormed
INVARIANT AtLeastOneMutated
INVARIANT ExpContiguousRun
INVARIANT BinForcedAndFree
INVARIANT DrawsWithinScript
INVARIANT Exact
INVARIANT Emit
