---------------------------- MODULE MC_Strategy ----------------------------
(* model-checking / case-emission instances of Strategy.tla (cfg files cannot hold tuples) *)
EXTENDS Strategy, IOUtils
S45 == {4, 5} \X {1, 2, 3}
S6 == {6} \X {1, 2, 3}
SDeep == {<<4, 2>>}
SDeepT == {<<4, 2>>, <<5, 2>>, <<5, 3>>}
SGen == {<<4, 2>>, <<5, 3>>, <<6, 1>>}
STiny == {<<4, 2>>, <<5, 3>>}
(* one shape per TLC process in the thorough tier: NP and D come from the environment *)
EnvShapes == {<<atoi(IOEnv.NP), atoi(IOEnv.D)>>}
DeepStrats == {"Best1Exp", "Best1Bin", "Rand1Exp", "Rand1Bin", "RandToBest1Bin", "Best2Exp"}
=============================================================================
