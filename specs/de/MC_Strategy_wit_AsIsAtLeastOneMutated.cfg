\* witness: AsIsAtLeastOneMutated is EXPECTED TO BE VIOLATED (see Strategy.tla)
SPECIFICATION Spec
CONSTANTS
  Shapes <- STiny
  Fns = {1}
  Q = 8
  CRq = 4
  MaxSteps = 1
  Accepts = {FALSE}
  StratSet <- Names
  AllCands = FALSE
  AllDraws = FALSE
  BestIsMember = FALSE
INVARIANT AsIsAtLeastOneMutated
