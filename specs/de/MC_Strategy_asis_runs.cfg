\* AsIsBinNeverScattered HOLDS: the as-is *Bin copies of the exponential loop never mutate a scattered set
SPECIFICATION Spec
CONSTANTS
  Shapes <- STiny
  Fns = {1}
  Q = 8
  CRq = 4
  MaxSteps = 1
  Accepts = {FALSE}
  StratSet <- Names
  AllCands = FALSE
  AllDraws = FALSE
  BestIsMember = FALSE
INVARIANT AsIsBinNeverScattered
