\* quick, part 1: NP in {4,5}, D in 1..3, every candidate, F in {1/2, 1}; all cases emitted
SPECIFICATION Spec
CONSTANTS
  Shapes <- S45
  Fns = {1, 2}
  Q = 8
  CRq = 4
  MaxSteps = 1
  Accepts = {FALSE}
  StratSet <- Names
  AllCands = TRUE
  AllDraws = FALSE
INVARIANT ComponentsWellFormed
INVARIANT AtLeastOneMutated
INVARIANT ExpContiguousRun
INVARIANT BinForcedAndFree
INVARIANT DrawsWithinScript
INVARIANT Exact
INVARIANT Emit
