\* two generation steps with replacement (non-generic populations: halves, repeated vectors); invariants only
SPECIFICATION Spec
CONSTANTS
  Shapes <- SDeep
  Fns = {1}
  Q = 8
  CRq = 4
  MaxSteps = 2
  Accepts = {TRUE, FALSE}
  StratSet <- DeepStrats
  AllCands = FALSE
  AllDraws = FALSE
  BestIsMember = FALSE
INVARIANT ComponentsWellFormed
INVARIANT AtLeastOneMutated
INVARIANT ExpContiguousRun
INVARIANT BinForcedAndFree
INVARIANT DrawsWithinScript
INVARIANT Exact
