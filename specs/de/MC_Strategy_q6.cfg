\* quick, part 2: NP = 6, D in 1..3, candidates first/middle/last, F = 1/2; all cases emitted
SPECIFICATION Spec
CONSTANTS
  Shapes <- S6
  Fns = {1}
  Q = 8
  CRq = 4
  MaxSteps = 1
  Accepts = {FALSE}
  StratSet <- Names
  AllCands = FALSE
  AllDraws = FALSE
  BestIsMember = FALSE
INVARIANT ComponentsWellFormed
INVARIANT AtLeastOneMutated
INVARIANT ExpContiguousRun
INVARIANT BinForcedAndFree
INVARIANT DrawsWithinScript
INVARIANT Exact
INVARIANT Emit
