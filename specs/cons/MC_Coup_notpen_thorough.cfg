SPECIFICATION Spec
CONSTANTS
  M = 3
  Fam = "notpen"
  PMax = 2
  NPen = {1}
  GVals <- G2
  KS = {1, 2, 3}
INVARIANT NotPenalisesInterior
INVARIANT NotNeverBoth
INVARIANT MemberZeroIffAccepts
INVARIANT Homogeneous
INVARIANT Emit
