SPECIFICATION Spec
CONSTANTS
  Vals = {0, 1, 3}
  Vals2 = {0, 1}
  MaxLen = 2
  MaxOps = 1
INVARIANT ThmAllEmit
