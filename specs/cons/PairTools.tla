------------------------------ MODULE PairTools ------------------------------
(***************************************************************************)
(* The pair / index helpers of mystic.tools behind the tracking masks and  *)
(* collapse dicts (property C16), as exact combinatorics:                  *)
(*   _inverted(pairs)   "return a list of tuples, where each tuple has     *)
(*                       been reversed"                                    *)
(*   _symmetric(pairs)  "returns a set of tuples, where each tuple         *)
(*                       includes it's inverse"                            *)
(*   unpair(pairs)      "convert a 1D array of N pairs to two 1D arrays of *)
(*                       N values": [a0,a1,..],[b0,b1,..]                  *)
(*   pairwise(x, True)  "convert an array of positions to an array of      *)
(*                       pairwise distances; if indices=True, also return  *)
(*                       indices to relate input and output arrays"        *)
(*   indicator_overlap(d1, d2, union)  "find the intersection for dicts of *)
(*                       sets of indices" (union=True: the union)          *)
(*   select_params(params, index)  "get params for the given indices as a  *)
(*                       tuple of index,values"                            *)
(*                                                                         *)
(* STATE.  ps = the current list of pairs (a sequence of <<a, b>>), qs = a *)
(* second list (the other operand of the dict operations), hist = the      *)
(* operations applied.  A list of pairs is read as a dict of sets          *)
(* {a: {b, ..}} for indicator_overlap, and as the vector a0,b0,a1,b1,..    *)
(* for pairwise / select_params.                                           *)
(* ACTIONS.  Inverted: ps' = every pair reversed (order kept).             *)
(*           Symmetric: ps' = the set of all pairs and their reverses      *)
(*           (as the ascending list of that set).                          *)
(* THEOREMS.  ThmInvolution  Inverted(Inverted(ps)) = ps                   *)
(*            ThmSymmetric   the symmetric set contains ps, is closed      *)
(*                           under reversal, has nothing else, and         *)
(*                           Symmetric is idempotent and ignores Inverted  *)
(*            ThmUnpair      pairing the two unpaired arrays gives ps back *)
(*            ThmPairwise    one distance per index pair i < j, in         *)
(*                           lexicographic order, symmetric in its pair    *)
(*            ThmOverlap     per key the set union / intersection          *)
(* Emit prints per state what each helper has to return.                   *)
(***************************************************************************)
EXTENDS Integers, Sequences, FiniteSets, TLC, Json, SequencesExt, FiniteSetsExt

CONSTANTS Vals,      \* members of the pairs
          Vals2,     \* members of the pairs of the second list
          MaxLen,    \* length of the start lists
          MaxOps

VARIABLES ps, qs, hist
vars == <<ps, qs, hist>>

Abs(a) == IF a < 0 THEN -a ELSE a
Rng(s) == {s[j] : j \in DOMAIN s}
Rev(p) == <<p[2], p[1]>>
PairLess(p, q) == p[1] < q[1] \/ (p[1] = q[1] /\ p[2] < q[2])
AscList(P) == SetToSortSeq(P, PairLess)

Inverted(s) == [j \in DOMAIN s |-> Rev(s[j])]
SymmetricSet(s) == Rng(s) \cup Rng(Inverted(s))
Unpair(s) == << [j \in DOMAIN s |-> s[j][1]], [j \in DOMAIN s |-> s[j][2]] >>
(* the vector a0, b0, a1, b1, .. *)
Vector(s) == [j \in 1..(2 * Len(s)) |-> s[(j + 1) \div 2][IF j % 2 = 1 THEN 1 ELSE 2]]
(* index pairs i < j (0-based) in lexicographic order, and the distances *)
IndexPairs(n) == AscList({<<i, j>> \in (0..(n - 1)) \X (0..(n - 1)) : i < j})
Pairwise(x) == LET ip == IndexPairs(Len(x)) IN [c \in DOMAIN ip |-> Abs(x[ip[c][1] + 1] - x[ip[c][2] + 1])]
(* a list of pairs as a dict of sets: {a: {b : <<a, b>> listed}} *)
Keys(s) == {p[1] : p \in Rng(s)}
SetAt(s, k) == {p[2] : p \in {q \in Rng(s) : q[1] = k}}
(* indicator_overlap: [key |-> set] given as a sequence of <<key, members>> in ascending key order *)
Overlap(s, t, union) ==
  LET K == IF union THEN Keys(s) \cup Keys(t) ELSE Keys(s) \cap Keys(t)
      ks == SetToSortSeq(K, <)
  IN  [c \in DOMAIN ks |-> <<ks[c], IF union THEN SetAt(s, ks[c]) \cup SetAt(t, ks[c]) ELSE SetAt(s, ks[c]) \cap SetAt(t, ks[c])>>]
(* select_params(vector, index): the in-range firsts of qs as the index tuple *)
Index(s, n) == SelectSeq([j \in DOMAIN s |-> s[j][1]], LAMBDA i : 0 <= i /\ i < n)
Select(x, ix) == << ix, [c \in DOMAIN ix |-> x[ix[c] + 1]] >>

PairsOf == Vals \X Vals
StartLists == UNION {[1..n -> PairsOf] : n \in 0..MaxLen}
SecondLists == {AscList(P) : P \in {Q \in SUBSET (Vals2 \X Vals2) : Cardinality(Q) <= MaxLen}}

Init == ps \in StartLists /\ qs \in SecondLists /\ hist = << >>
DoInverted == /\ Len(hist) < MaxOps
              /\ ps' = Inverted(ps) /\ hist' = Append(hist, "inverted") /\ UNCHANGED qs
DoSymmetric == /\ Len(hist) < MaxOps
               /\ ps' = AscList(SymmetricSet(ps)) /\ hist' = Append(hist, "symmetric") /\ UNCHANGED qs
Next == DoInverted \/ DoSymmetric
Spec == Init /\ [][Next]_vars

ThmInvolution == Inverted(Inverted(ps)) = ps
ThmSymmetric == LET Y == SymmetricSet(ps) IN
                  /\ Rng(ps) \subseteq Y
                  /\ \A p \in Y : Rev(p) \in Y
                  /\ \A p \in Y : p \in Rng(ps) \/ Rev(p) \in Rng(ps)
                  /\ SymmetricSet(AscList(Y)) = Y
                  /\ SymmetricSet(Inverted(ps)) = Y
ThmUnpair == LET u == Unpair(ps) IN Len(u[1]) = Len(ps) /\ Len(u[2]) = Len(ps) /\ [j \in DOMAIN ps |-> <<u[1][j], u[2][j]>>] = ps
ThmPairwise == LET x == Vector(ps)
                   n == Len(x)
                   ip == IndexPairs(n)
                   d == Pairwise(x)
               IN  /\ Len(d) = (n * (n - 1)) \div 2 /\ Len(ip) = Len(d)
                   /\ \A c \in DOMAIN ip : ip[c][1] < ip[c][2] /\ d[c] = Abs(x[ip[c][2] + 1] - x[ip[c][1] + 1]) /\ d[c] >= 0
                   /\ \A c \in 1..(Len(ip) - 1) : PairLess(ip[c], ip[c + 1])
ThmOverlap == LET u == Overlap(ps, qs, TRUE)
                  i == Overlap(ps, qs, FALSE)
              IN  /\ {e[1] : e \in Rng(u)} = Keys(ps) \cup Keys(qs) /\ {e[1] : e \in Rng(i)} = Keys(ps) \cap Keys(qs)
                  /\ \A e \in Rng(u) : \A b \in Vals \cup Vals2 : b \in e[2] <=> (<<e[1], b>> \in Rng(ps) \/ <<e[1], b>> \in Rng(qs))
                  /\ \A e \in Rng(i) : \A b \in Vals \cup Vals2 : b \in e[2] <=> (<<e[1], b>> \in Rng(ps) /\ <<e[1], b>> \in Rng(qs))

Emit == LET x == Vector(ps) IN
        PrintT(<<"@@", ToJson([ps |-> ps, qs |-> qs,
                               inv |-> Inverted(ps), sym |-> AscList(SymmetricSet(ps)), unp |-> Unpair(ps),
                               x |-> x, pw |-> Pairwise(x), ip |-> IndexPairs(Len(x)),
                               x2 |-> Vector(Inverted(ps)), pw2 |-> Pairwise(Vector(Inverted(ps))),   \* second row of a 2-D input
                               ou |-> Overlap(ps, qs, TRUE), oi |-> Overlap(ps, qs, FALSE),
                               sel |-> Select(x, Index(qs, Len(x)))])>>)
ThmAllEmit == ThmInvolution /\ ThmSymmetric /\ ThmUnpair /\ ThmPairwise /\ ThmOverlap /\ Emit
=============================================================================
