SPECIFICATION Spec
CONSTANTS
  M = 1
  Fam = "pen"
  PMax = 1
  NPen = {10}
  GVals <- G1
  KS = {1, 2}
  KHN <- KHN1
INVARIANT AndZeroIffAll
INVARIANT OrZeroIffAny
INVARIANT AndIsSum
INVARIANT OrIsMin
INVARIANT OrLeAnd
INVARIANT AndZeroAtIter
INVARIANT Emit
