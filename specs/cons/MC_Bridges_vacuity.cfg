SPECIFICATION BSpec
CONSTANTS
  M = 3
  Fam = "bridge"
  PMax = 1
  NPen = {1}
  GVals <- G1
  KS = {1}
  BFams <- VacFams
  S = 3
  T1s <- QT1
  BKS = {1, 3}
  BH = 2
  BIts = {0, 1}
  Tols = {0, 1, 2, 3}
  Mats <- QMats
  MatsR <- QMatsR
  CostTabs <- QCost
  WPChains <- QWPChains
  WPCond <- MCWPCond
  WPIts = {0, 2}
  QV <- QQV
  SL = 3
  UV = {0, 1, 2, 4, 6}
  ULens = {2, 3}
  URanges <- QURanges
  LinConds <- QLin
INVARIANT AxisIrrelevant
