SPECIFICATION Spec
CONSTANTS
  WLo <- WinLo
  WHi = 10
  Lists <- QLists
  Firsts <- QLists
  ChainLists <- CLists
  InvArgs <- QInv
  MaxOps = 2
INVARIANT ThmDeMorgan
INVARIANT ThmInvolution
INVARIANT ThmLattice
INVARIANT ThmHist
INVARIANT EmitScript
