SPECIFICATION StartOnly
CONSTANTS
  S = 2
  Vals <- EVals
  Lens <- ELens
  Decs <- EDecs
  MaxHist = 0
INVARIANT ThmAll
INVARIANT ThmScale
INVARIANT Emit
