---- MODULE MC_Couplers ----
EXTENDS Couplers
G2 == {-2, -1, 0, 1, 2}
G1 == {-1, 0, 1}
====
