---- MODULE MC_Couplers ----
EXTENDS Couplers
G2 == {-2, -1, 0, 1, 2}
G1 == {-1, 0, 1}
TAVals == {-2, -1, 0, 1, 3, 12, 100}      \* thorough "addv": two- and three-digit values as well
KHN1 == {<<2, 3, 1>>}                      \* the long penalty lists: one iteration setting
====
