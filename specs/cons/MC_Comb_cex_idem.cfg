SPECIFICATION Spec
CONSTANTS
  D <- D3
  Members <- Idem3
  Ns = {2}
  MaxIters = {3}
  Kinds = {"and"}
  Rules = {"asis"}
  Starts <- OnlyZero
INVARIANT ClaimAnd
