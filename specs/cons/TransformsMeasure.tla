-------------------------- MODULE TransformsMeasure --------------------------
(***************************************************************************)
(* The measure decorators of mystic.constraints (property C16):            *)
(*     impose_measure(npts, tracking, noweight)                            *)
(*     impose_position(npts, tracking)  = impose_measure(npts, tracking,{})*)
(*     impose_weight(npts, noweight)    = impose_measure(npts, {},noweight)*)
(*                                                                         *)
(* WHAT IS MODELLED.  The decorated function receives a flat parameter     *)
(* vector  [w_1.., x_1.., w'_1.., x'_1.., ...]  (per factor measure of the *)
(* product measure of shape npts: its weights, then its positions).  The   *)
(* decorator loads it into a product measure, applies                      *)
(*   - every TRACKING collapse  {factor: {(i,j),..}}: "the positions [of   *)
(*     a pair] will be constrained to have the same value, and the weight  *)
(*     from the second index in the pair will be removed and added to the  *)
(*     weight of the first index" (docstring of impose_measure);           *)
(*     impose_collapse adds "samples[j] = samples[i]" (the second member   *)
(*     moves to the position of the first) and "is 'mean-preserving' for   *)
(*     samples and 'norm-preserving' for weights";                         *)
(*   - then every NOWEIGHT collapse  {factor: {i,..}}: "the indices are    *)
(*     where the measure will be constrained to have zero weight"          *)
(*     (impose_unweighted(.., nullable=False): mean- and norm-preserving;  *)
(*     "avoid null weights by reweighting non-index weights"),             *)
(* and flattens the measure again.  `tracking` / `noweight` are a dict or  *)
(* a TUPLE of dicts; a tuple is applied member after member.               *)
(*                                                                         *)
(* NUMBERS are exact rationals <<num, den>> (den > 0, lowest terms).  The  *)
(* start measure has integer entries in units of 1/S.                      *)
(*                                                                         *)
(* STATE MACHINE (one action per collapse the decorator applies).          *)
(*   m0   the start measure: a sequence (one entry per factor) of records  *)
(*        [w |-> weights, x |-> positions]                                 *)
(*   m    the measure now                                                  *)
(*   pm   the measure before the last collapse (what ThmLast compares with)*)
(*   ops  the collapses applied so far = the arguments of the decorator:   *)
(*        records [t |-> "track" | "noweight", k |-> factor (1-based),     *)
(*        p |-> set of pairs <<i,j>> | {}, i |-> set of indices | {}]      *)
(*        (python indices, 0-based)                                        *)
(*   cls  per collapse its class (single / fan-out / chain / plain /       *)
(*        rescue; case accounting and violation keys only)                 *)
(*   ex   TRUE while every division so far was by a power of two (then the *)
(*        float arithmetic of the implementation is exact)                 *)
(*   Track(k, P)    enabled while no NoWeight was applied (the decorator   *)
(*                  applies all tracking collapses first)                  *)
(*   NoWeight(k, I)                                                        *)
(* PREMISES (the ...Defined operators): total weight of a factor > 0,      *)
(* weights >= 0;                                                           *)
(* pairs inside the factor, i # j (self pairs are not documented), nobody  *)
(* hands its weight to two receivers, no cycle (so the pairs form a forest *)
(* whose roots receive everything: single pairs, fan-out {(a,b),(a,c)},    *)
(* chains {(a,b),(b,c)}); I a non-empty proper subset of the factor's      *)
(* indices ('all indices' is not documented: nothing could keep the norm). *)
(*                                                                         *)
(* THEOREMS (TLC: INVARIANT / PROPERTY lines of MC_TransformsMeasure*.cfg) *)
(*   ThmTotalKept   every factor keeps its total weight                    *)
(*   ThmMeanKept    every factor keeps its weighted mean                   *)
(*   ThmNonNeg      weights stay >= 0                                      *)
(*   ThmLast        what the last collapse promises holds in the state it  *)
(*                  produced: pair positions equal, second member          *)
(*                  weightless, the root carries the weight of its tree /  *)
(*                  designated weights zero, the others keep their         *)
(*                  proportions; positions outside a collapsed tree move   *)
(*                  by one common shift                                    *)
(*   ThmIdempotent  applying the last collapse once more changes nothing;  *)
(*                  a decorator whose collapses touch pairwise different   *)
(*                  factors (the dict forms) is idempotent as a whole      *)
(*   OtherFactors   (action) a collapse of factor k leaves every other     *)
(*                  factor untouched                                       *)
(*   ThmCommute     collapses of different factors commute                 *)
(* Emit prints, per reachable state, the decorator arguments and the       *)
(* expected flat result (and the result of a second application); the      *)
(* harness (check_C16.py / c16_measure.py) replays them on the real        *)
(* decorators in every calling form.                                       *)
(***************************************************************************)
EXTENDS Integers, Sequences, FiniteSets, TLC, Json, SequencesExt, FiniteSetsExt, IOUtils

CONSTANTS S,        \* scale of the start measures: the integer v stands for v/S
          Starts,   \* set of start measures: sequences of [w |-> <<ints>>, x |-> <<ints>>]
          Deep,     \* the start measures (subset of Starts) on which decorators of up to MaxOps collapses are explored
          MaxOps,   \* number of collapses per decorator on the Deep starts (one collapse on the others)
          MaxPairs  \* pairs per tracking collapse

VARIABLES m0, m, pm, ops, cls, ex
vars == <<m0, m, pm, ops, cls, ex>>

-----------------------------------------------------------------------------
(* exact rationals *)
Abs(a) == IF a < 0 THEN -a ELSE a
RECURSIVE Gcd(_, _)
Gcd(a, b) == IF b = 0 THEN a ELSE Gcd(b, a % b)
Q(a, b) == LET s == IF b < 0 THEN -1 ELSE 1
               g == Gcd(Abs(a), Abs(b))
           IN  IF a = 0 THEN <<0, 1>> ELSE <<(s * a) \div g, (s * b) \div g>>
QI(a) == <<a, 1>>
Zero == <<0, 1>>
QAdd(p, q) == Q(p[1] * q[2] + q[1] * p[2], p[2] * q[2])
QSub(p, q) == Q(p[1] * q[2] - q[1] * p[2], p[2] * q[2])
QMul(p, q) == Q(p[1] * q[1], p[2] * q[2])
QDiv(p, q) == Q(p[1] * q[2], p[2] * q[1])
QPos(p) == p[1] > 0
QSumOver(f, I) == FoldSet(LAMBDA i, acc : QAdd(f[i], acc), Zero, I)
QSum(f) == QSumOver(f, DOMAIN f)
Pow2(k) == k \in {1, 2, 4, 8, 16, 32, 64, 128, 256, 512, 1024}
(* a rational whose float division is exact: numerator and denominator powers of two *)
QPow2(p) == Pow2(p[1]) /\ Pow2(p[2])

-----------------------------------------------------------------------------
(* one factor measure f = [w |-> weights, x |-> positions] *)
N(f) == Len(f.w)
Total(f) == QSum(f.w)
Mean(f) == QDiv(QSum([i \in DOMAIN f.w |-> QMul(f.w[i], f.x[i])]), Total(f))
(* "mean-preserving": shift all positions so that the weighted mean is `mean` again *)
Recentre(w, x, mean) ==
  LET sh == QSub(mean, Mean([w |-> w, x |-> x]))
  IN  [w |-> w, x |-> [i \in DOMAIN x |-> QAdd(x[i], sh)]]

(* ---- tracking: P is a set of pairs <<i, j>> of python indices; j hands its weight and position to i ---- *)
Pos(i) == i + 1                                   \* python index -> position in the sequence
Givers(P) == {p[2] : p \in P}
Nodes(P) == {p[1] : p \in P} \cup Givers(P)
Parent(P, j) == (CHOOSE p \in P : p[2] = j)[1]
RECURSIVE RootOf(_, _, _)
RootOf(P, a, fuel) == IF a \notin Givers(P) \/ fuel = 0 THEN a ELSE RootOf(P, Parent(P, a), fuel - 1)
Root(P, a) == RootOf(P, a, Cardinality(P))
TrackDefined(P, n) ==
  /\ P # {}
  /\ \A p \in P : p[1] \in 0..(n - 1) /\ p[2] \in 0..(n - 1) /\ p[1] # p[2]      \* inside the factor, no self pair
  /\ \A p, q \in P : p[2] = q[2] => p = q                                        \* nobody gives twice
  /\ \A a \in Nodes(P) : Root(P, a) \notin Givers(P)                             \* no cycle: every walk ends at a root
Collapse(P, f) ==
  LET n  == N(f)
      r(i) == Pos(Root(P, i - 1))                                  \* position of the root of position i
      wc == [i \in 1..n |-> IF (i - 1) \in Givers(P) THEN Zero
                            ELSE QSumOver(f.w, {j \in 1..n : r(j) = i})]
      xc == [i \in 1..n |-> f.x[r(i)]]
  IN  Recentre(wc, xc, Mean(f))
(* classes of a tracking collapse (for case accounting and violation keys only) *)
TrackClass(P) == IF \E p, q \in P : p[1] = q[2] THEN "chain"
                 ELSE IF Cardinality(P) > 1 /\ Cardinality({p[1] : p \in P}) < Cardinality(P) THEN "fan-out"
                 ELSE IF Cardinality(P) > 1 THEN "separate" ELSE "single"

(* ---- no weight: I is a set of python indices ---- *)
NoWeightDefined(I, n) == I # {} /\ I \subseteq 0..(n - 1) /\ I # 0..(n - 1)
Remaining(I, f) == QSumOver(f.w, {i \in DOMAIN f.w : (i - 1) \notin I})
Unweight(I, f) ==
  LET n  == N(f)
      R  == Remaining(I, f)
      T  == Total(f)
      wc == [i \in 1..n |-> IF (i - 1) \in I THEN Zero
                            ELSE IF R # Zero THEN QMul(f.w[i], QDiv(T, R))        \* the others share the removed weight in proportion
                            ELSE QDiv(T, QI(n - Cardinality(I)))]                 \* nothing remains: "avoid null weights" - equal shares
  IN  Recentre(wc, f.x, Mean(f))
Rescue(I, f) == Remaining(I, f) = Zero

-----------------------------------------------------------------------------
(* the collapses *)
OpT(k, P) == [t |-> "track", k |-> k, p |-> P, i |-> {}]
OpN(k, I) == [t |-> "noweight", k |-> k, p |-> {}, i |-> I]
OpDefined(o, mm) == /\ o.k \in DOMAIN mm
                    /\ QPos(Total(mm[o.k]))
                    /\ IF o.t = "track" THEN TrackDefined(o.p, N(mm[o.k])) ELSE NoWeightDefined(o.i, N(mm[o.k]))
ApplyOp(o, mm) == [mm EXCEPT ![o.k] = IF o.t = "track" THEN Collapse(o.p, mm[o.k]) ELSE Unweight(o.i, mm[o.k])]
(* every division of the implementation is by the total weight (means), and for a no-weight collapse by the remaining weight *)
OpExact(o, mm) == LET f == mm[o.k]
                  IN  /\ QPow2(Total(f))
                      /\ o.t = "noweight" => IF Rescue(o.i, f) THEN Pow2(N(f) - Cardinality(o.i)) ELSE QPow2(Remaining(o.i, f))
RECURSIVE ApplyAll(_, _)
ApplyAll(os, st) ==               \* st = [m, ex]; the whole decorator once more
  IF os = << >> THEN st
  ELSE ApplyAll(Tail(os), [m |-> ApplyOp(os[1], st.m), ex |-> st.ex /\ OpExact(os[1], st.m)])

(* every defined collapse of a factor with n points (tables: computed once) *)
MaxN == 4
PairTab == [n \in 1..MaxN |-> {P \in UNION {kSubset(c, (0..(n - 1)) \X (0..(n - 1))) : c \in 1..MaxPairs} : TrackDefined(P, n)}]
IndexTab == [n \in 1..MaxN |-> {I \in SUBSET (0..(n - 1)) : NoWeightDefined(I, n)}]
PairSets(n) == PairTab[n]
IndexSets(n) == IndexTab[n]

Lift(f) == [w |-> [i \in DOMAIN f.w |-> Q(f.w[i], S)], x |-> [i \in DOMAIN f.x |-> Q(f.x[i], S)]]
NParts == IF "NPARTS" \in DOMAIN IOEnv THEN atoi(IOEnv.NPARTS) ELSE 1
Part   == IF "PART" \in DOMAIN IOEnv THEN atoi(IOEnv.PART) ELSE 0
StartSeq == SetToSeq(Starts)
MyStarts == {StartSeq[j] : j \in {c \in DOMAIN StartSeq : c % NParts = Part}}

LiftAll(s) == [k \in DOMAIN s |-> Lift(s[k])]
DeepLifted == {LiftAll(s) : s \in Deep}
Limit == IF m0 \in DeepLifted THEN MaxOps ELSE 1

Init == /\ \E s \in MyStarts : m0 = LiftAll(s)
        /\ m = m0
        /\ pm = m0
        /\ ops = << >>
        /\ cls = << >>
        /\ ex = TRUE

Do(o) == /\ OpDefined(o, m)
         /\ m' = ApplyOp(o, m)
         /\ pm' = m
         /\ ex' = (ex /\ OpExact(o, m))
         /\ ops' = Append(ops, o)
         /\ cls' = Append(cls, IF o.t = "track" THEN TrackClass(o.p) ELSE IF Rescue(o.i, m[o.k]) THEN "rescue" ELSE "plain")
         /\ UNCHANGED m0

Track(k, P) == /\ \A j \in DOMAIN ops : ops[j].t = "track"        \* the decorator applies the tracking collapses first
               /\ Do(OpT(k, P))
NoWeight(k, I) == Do(OpN(k, I))

Next == /\ Len(ops) < Limit
        /\ \E k \in DOMAIN m : \/ \E P \in PairSets(N(m[k])) : Track(k, P)
                               \/ \E I \in IndexSets(N(m[k])) : NoWeight(k, I)
Spec == Init /\ [][Next]_vars

-----------------------------------------------------------------------------
(* theorems *)
ThmTotalKept == \A k \in DOMAIN m : Total(m[k]) = Total(m0[k])
ThmMeanKept  == \A k \in DOMAIN m : Mean(m[k]) = Mean(m0[k])
ThmNonNeg    == \A k \in DOMAIN m : \A i \in DOMAIN m[k].w : m[k].w[i][1] >= 0

(* the state before the last collapse of `os`, recomputed from the measure mm (pm = Before(ops, m0)) *)
RECURSIVE Before(_, _)
Before(os, mm) == IF Len(os) <= 1 THEN mm ELSE Before(Tail(os), ApplyOp(os[1], mm))
ThmLast ==
  ops # << >> =>
    LET o == ops[Len(ops)]
        b == pm[o.k]                         \* the factor before
        a == m[o.k]                          \* and after
        n == N(a)
    IN  IF o.t = "track"
        THEN /\ \A p \in o.p : a.x[Pos(p[1])] = a.x[Pos(p[2])] /\ a.w[Pos(p[2])] = Zero
             /\ \A i \in 1..n : (i - 1) \notin Givers(o.p) =>                        \* a root carries the weight of its tree,
                    a.w[i] = QSumOver(b.w, {j \in 1..n : Pos(Root(o.p, j - 1)) = i}) \* an untouched entry its own
             /\ \A i, j \in 1..n : ((i - 1) \notin Givers(o.p) /\ (j - 1) \notin Givers(o.p))
                    => QSub(a.x[i], b.x[i]) = QSub(a.x[j], b.x[j])                   \* one common shift
        ELSE /\ \A i \in 1..n : (i - 1) \in o.i => a.w[i] = Zero
             /\ \A i, j \in 1..n : ((i - 1) \notin o.i /\ (j - 1) \notin o.i /\ ~Rescue(o.i, b))
                    => QMul(a.w[i], b.w[j]) = QMul(a.w[j], b.w[i])                   \* proportions kept
             /\ \A i, j \in 1..n : QSub(a.x[i], b.x[i]) = QSub(a.x[j], b.x[j])

Twice == ApplyAll(ops, [m |-> m, ex |-> ex])
IdempotentWith(tw) ==
  /\ ops # << >> => (OpDefined(ops[Len(ops)], m) /\ ApplyOp(ops[Len(ops)], m) = m)
  /\ (\A a, b \in DOMAIN ops : a # b => ops[a].k # ops[b].k) => tw.m = m
ThmIdempotent == IdempotentWith(Twice)

OtherFactors == [][\A k \in DOMAIN m : (ops' # ops /\ k # ops'[Len(ops')].k) => m'[k] = m[k]]_vars

ThmCommute ==
  Len(ops) >= 2 =>
    LET o2 == ops[Len(ops)]
        o1 == ops[Len(ops) - 1]
        b  == Before(SubSeq(ops, 1, Len(ops) - 1), m0)       \* the state before o1
    IN  (o1.k # o2.k /\ OpDefined(o2, b)) => ApplyOp(o1, ApplyOp(o2, b)) = m

(* the docstring examples of impose_measure / impose_position / impose_weight (npts = (3,3)) *)
DocF(w, x) == [w |-> w, x |-> x]
Doc1 == << DocF(<<Q(1,2), Zero, Q(1,2)>>, <<QI(2), QI(4), QI(6)>>), DocF(<<Q(1,4), Q(1,2), Q(1,4)>>, <<QI(6), QI(4), QI(2)>>) >>
Doc2 == << DocF(<<Q(1,3), Q(1,3), Q(1,3)>>, <<QI(1), QI(2), QI(3)>>), DocF(<<Q(1,3), Q(1,3), Q(1,3)>>, <<QI(1), QI(2), QI(3)>>) >>
DocPos == << OpT(1, {<<0, 1>>}), OpT(2, {<<0, 2>>}) >>
DocWts == << OpN(1, {1}), OpN(2, {1, 2}) >>
DocRun(os, mm) == ApplyAll(os, [m |-> mm, ex |-> TRUE]).m
DocExamples ==
  /\ DocRun(DocPos, Doc1) = << DocF(<<Q(1,2), Zero, Q(1,2)>>, <<QI(2), QI(2), QI(6)>>), DocF(<<Q(1,2), Q(1,2), Zero>>, <<QI(5), QI(3), QI(5)>>) >>
  /\ DocRun(DocPos, Doc2) = << DocF(<<Q(2,3), Zero, Q(1,3)>>, <<Q(4,3), Q(4,3), Q(10,3)>>), DocF(<<Q(2,3), Q(1,3), Zero>>, <<Q(5,3), Q(8,3), Q(5,3)>>) >>
  /\ DocRun(DocWts, Doc1) = << DocF(<<Q(1,2), Zero, Q(1,2)>>, <<QI(2), QI(4), QI(6)>>), DocF(<<QI(1), Zero, Zero>>, <<QI(4), QI(2), QI(0)>>) >>
  /\ DocRun(DocWts, Doc2) = << DocF(<<Q(1,2), Zero, Q(1,2)>>, <<QI(1), QI(2), QI(3)>>), DocF(<<QI(1), Zero, Zero>>, <<QI(2), QI(3), QI(4)>>) >>
  /\ DocRun(DocPos \o DocWts, Doc2) = << DocF(<<Q(2,3), Zero, Q(1,3)>>, <<Q(4,3), Q(4,3), Q(10,3)>>), DocF(<<QI(1), Zero, Zero>>, <<QI(2), QI(3), QI(2)>>) >>
ASSUME DocExamples

-----------------------------------------------------------------------------
(* emission (spec -> code): per state the decorator arguments, the flat start vector (units 1/S), the expected flat *)
(* result `e` and the result `e2` of applying the decorated function to its own result, both as rationals <<num,den>> *)
RECURSIVE FlatFrom(_, _)
FlatFrom(mm, k) == IF k > Len(mm) THEN << >> ELSE mm[k].w \o mm[k].x \o FlatFrom(mm, k + 1)
Flat(mm) == FlatFrom(mm, 1)
EmitWith(tw) ==
  LET f0 == Flat(m0) IN
  PrintT(<<"@@", ToJson([npts |-> [k \in DOMAIN m0 |-> N(m0[k])],
                         x   |-> [j \in DOMAIN f0 |-> f0[j][1] * (S \div f0[j][2])],
                         ops |-> [j \in DOMAIN ops |-> [t |-> ops[j].t, k |-> ops[j].k - 1, p |-> ops[j].p, i |-> ops[j].i]],
                         cls |-> cls,
                         e   |-> Flat(m), ex |-> ex,
                         e2  |-> IF tw.m = m THEN << >> ELSE Flat(tw.m),       \* << >>: the same as e
                         ex2 |-> tw.ex])>>)
Emit == EmitWith(Twice)
(* all theorems and the emission in one pass (the second application is computed once per state) *)
ThmAllEmit == LET tw == Twice IN
  /\ ThmTotalKept /\ ThmMeanKept /\ ThmNonNeg /\ ThmLast /\ IdempotentWith(tw) /\ ThmCommute
  /\ EmitWith(tw)

(* vacuity companions: TLC must VIOLATE each of these (MC_TransformsMeasure_vac_*.cfg) *)
NeverChain  == ~(ops # << >> /\ ops[Len(ops)].t = "track" /\ TrackClass(ops[Len(ops)].p) = "chain")
NeverRescue == ~(ops # << >> /\ cls[Len(ops)] = "rescue")
NeverZeroReceiver == ~(ops # << >> /\ ops[Len(ops)].t = "track" /\
                        \E p \in ops[Len(ops)].p : pm[ops[Len(ops)].k].w[Pos(p[1])] = Zero)
NeverNotIdempotent == Twice.m = m        \* sequential collapses of ONE factor (tuple forms) need not be idempotent
=============================================================================
