SPECIFICATION Spec
CONSTANTS
  S = 2
  Starts <- QDeep
  Deep <- QDeep
  MaxOps = 2
  MaxPairs = 2
INVARIANT NeverNotIdempotent
