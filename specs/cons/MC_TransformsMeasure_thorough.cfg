SPECIFICATION Spec
CONSTANTS
  S = 2
  Starts <- TStarts
  Deep <- TDeep
  MaxOps = 3
  MaxPairs = 2
PROPERTY OtherFactors
INVARIANT ThmAllEmit
