SPECIFICATION Spec
CONSTANTS
  M = 2
  Fam = "pen"
  PMax = 2
  NPen = {1, 2, 3}
  GVals <- G1
  KS = {1, 2}
INVARIANT AndZeroIffAll
INVARIANT OrZeroIffAny
INVARIANT AndIsSum
INVARIANT OrIsMin
INVARIANT OrLeAnd
INVARIANT Emit
