SPECIFICATION BSpec
CONSTANTS
  M = 3
  Fam = "bridge"
  PMax = 1
  NPen = {1}
  GVals <- G1
  KS = {1}
  BFams <- AllFams
  S = 3
  T1s <- AllT3
  BKS = {1, 3}
  BH = 2
  BIts = {0, 2}
  Tols = {0, 1, 2, 3}
  Mats <- TMats
  MatsR <- TMatsR
  CostTabs <- TCost
  WPChains <- TWPChains
  WPCond <- MCWPCond
  WPIts = {0, 1, 2}
  QV <- TQV
  SL = 3
  UV <- TUV
  ULens = {2, 3, 4}
  URanges <- TURanges
  LinConds <- TLin
INVARIANT WPZeroOnFeasible
INVARIANT WPPositiveWhenViolated
INVARIANT WPZeroDivision
INVARIANT WPErrorIsViolation
INVARIANT WPBare
INVARIANT WPAdditive
INVARIANT WPSolIffFeasible
INVARIANT WPSolMonotone
INVARIANT WCIsConstraint
INVARIANT WCCoupled
INVARIANT AsPenZeroIffFixed
INVARIANT AsPenPositive
INVARIANT AsPenIsPT
INVARIANT AsPenMonotone
INVARIANT IsSolIffFixed
INVARIANT IsSolMonotone
INVARIANT VectDual
INVARIANT VectShape
INVARIANT NearZeroIffInts
INVARIANT NearBounded
INVARIANT HasUniqueLaw
INVARIANT UniqFeasible
INVARIANT UniqKeepCount
INVARIANT SolveCFixedIsImage
INVARIANT SolvePFeasIffNoPenalty
INVARIANT SolvePPremise
INVARIANT BEmit
