SPECIFICATION Spec
CONSTANTS
  D <- D3
  Members <- All3
  Ns = {3}
  MaxIters = {0, 1, 2, 3}
  Kinds = {"and", "or"}
  Rules = {"fixed"}
  Starts <- OnlyZero
INVARIANT ClaimAnd
INVARIANT ClaimOr
INVARIANT ClaimNot
INVARIANT OnePath
INVARIANT Bounded
PROPERTY Progress
