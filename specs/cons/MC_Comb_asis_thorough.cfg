SPECIFICATION Spec
CONSTANTS
  D <- D3
  Members <- All3
  Ns = {3}
  MaxIters = {0, 1, 2, 3}
  Kinds = {"and", "or"}
  Rules = {"asis"}
  Starts <- OnlyZero
INVARIANT ClaimOr
INVARIANT OnePath
INVARIANT Bounded
INVARIANT AsIsOnlyUncertifiedChange
INVARIANT AsIsHoldsForIdempotentHead
PROPERTY Progress
