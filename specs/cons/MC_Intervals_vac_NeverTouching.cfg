SPECIFICATION Spec
CONSTANTS
  WLo <- WinLo
  WHi = 10
  Lists <- CLists
  Firsts <- CLists
  ChainLists <- CLists
  InvArgs <- CInv
  MaxOps = 2
INVARIANT NeverTouching
