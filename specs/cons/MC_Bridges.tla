---------------------------- MODULE MC_Bridges ----------------------------
(***************************************************************************)
(* Model-checking instances of Bridges.tla: the table / matrix / condition *)
(* catalogues of the quick and the thorough tier.  (Bridges instantiates   *)
(* PenaltyC17.tla, the frozen copy of ../pen/Penalty.tla it was written    *)
(* against.)                                                               *)
(***************************************************************************)
EXTENDS Bridges

G1 == {-1, 0, 1}                                 \* Couplers' GVals (unused by the bridge families)
F3(a, b, e) == [g \in 0..2 |-> <<a, b, e>>[g + 1]]
AllT3 == [0..2 -> 0..2]
(* quick: identity, a constant, a non-idempotent shift, two projections, a swap of two values *)
QT1 == {F3(0, 1, 2), F3(1, 1, 1), F3(1, 2, 0), F3(0, 1, 1), F3(0, 0, 2), F3(1, 0, 2)}
Mx(a, b, e, f) == << <<a, b>>, <<e, f>> >>
QMats == {Mx(0, 1, 2, 0), Mx(1, 1, 0, 2), Mx(2, 0, 1, 2), Mx(0, 0, 0, 0), Mx(1, 2, 2, 1)}
TMats == {Mx(a, b, e, f) : a \in 0..2, b \in 0..2, e \in {0, 2}, f \in {1, 2}}
QMatsR == { << <<0, 1, 2>>, <<2, 2, 0>> >>, << <<0, 1>>, <<2, 0>>, <<1, 1>> >>,
            << <<1, 0, 2>> >>, << <<2>>, <<0>>, <<1>> >> }
TMatsR == QMatsR \cup {<< <<a, b, e>>, <<e, a, a>> >> : a \in 0..2, b \in 0..2, e \in 0..2}
                 \cup {<< <<a, b>>, <<b, e>>, <<e, e>> >> : a \in 0..2, b \in 0..2, e \in 0..2}
QCost == {[x \in 0..2 |-> <<2, 0, 1>>[x + 1]], [x \in 0..2 |-> <<1, 1, 2>>[x + 1]]}
TCost == QCost \cup {[x \in 0..2 |-> <<0, 2, 2>>[x + 1]], [x \in 0..2 |-> <<1, 0, 0>>[x + 1]]}

(* with_penalty: condition tables on the probes (x+d)%3: strictly feasible / boundary / violated / ZD *)
ZDv == 999999
INFv == 1000000
MCWPCond == << <<-2, 0, 1>>, <<0, ZDv, 2>>, <<3, -1, 0>> >>
Ch1(t, k, h, ci) == [lv |-> <<[ty |-> t, k |-> k, h |-> h, c |-> ci]>>, b |-> 1, ms |-> 1]
QWPChains ==   {Ch1(t, 1, 2, ci) : t \in 1..9, ci \in 1..3}
          \cup {Ch1(t, 100, 5, 1) : t \in 1..9}                     \* the default k, h of seven types
          \cup {Ch1(t, INFv, 5, 1) : t \in {3, 4}}                   \* the uniform types' default k = inf
          \cup {Ch1(t, 20, 5, ci) : t \in {8, 9}, ci \in {1, 3}}     \* the Lagrange types' default k = 20
TWPChains ==   {Ch1(t, kh[1], kh[2], ci) : t \in 1..9, kh \in {<<1, 2>>, <<3, 1>>, <<100, 5>>, <<2, 3>>}, ci \in 1..3}
          \cup {Ch1(t, INFv, h, ci) : t \in {3, 4}, h \in {1, 5}, ci \in 1..3}
          \cup {Ch1(t, 20, 5, ci) : t \in {8, 9}, ci \in 1..3}

QUV == {-2, 0, 1, 2, 4, 6, 24}                 \* half units: -1, 0, 1/2, 1, 2, 3, 12
TUV == {-2, 0, 1, 2, 3, 4, 6, 24}
QURanges == {<<0, 3>>, <<1, 2>>, <<2, 2>>, <<-1, 1>>, <<10, 12>>}      \* (with a negative bound; two-digit bounds)
TURanges == {<<0, 3>>, <<1, 2>>, <<0, 5>>, <<2, 3>>, <<-2, 1>>, <<10, 12>>}
QLin == {<<1, 1, 1>>, <<1, -1, 0>>, <<2, 1, 1>>, <<0, 1, 1>>, <<1, 0, 0>>}
TLin == {<<a, b, e>> : a \in {-1, 0, 1, 2}, b \in {-1, 1, 2}, e \in {0, 1}}
QQV == {-3, -2, -1, 0, 1, 2, 3, 4, 6, 40, 49}        \* quarter units; 40 = 10.0, 49 = 12.25
TQV == (-5..7) \cup {40, 49, -41}
VacFams == {"vect"}
AllFams == {"withpen", "aspen", "withcons", "vect", "vectr", "scalar", "uniq", "solvec", "solvep"}
=============================================================================
