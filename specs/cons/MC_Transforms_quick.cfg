SPECIFICATION Spec
CONSTANTS
  S = 2
  Vals <- QVals
  Lens <- QLens
  Decs <- QDecs
  MaxHist = 0
INVARIANT ThmAll
INVARIANT Emit
