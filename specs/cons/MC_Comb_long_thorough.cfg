SPECIFICATION Spec
CONSTANTS
  D <- D2
  Members <- All2
  Ns = {0, 1, 2, 3}
  MaxIters = {10, 12}
  Kinds = {"and", "or", "not"}
  Rules = {"fixed", "asis"}
  Starts <- D2
VIEW NoDraws
INVARIANT ClaimAndFixed
INVARIANT ClaimOr
INVARIANT ClaimNot
INVARIANT OnePath
INVARIANT Bounded
INVARIANT AsIsOnlyUncertifiedChange
PROPERTY Progress
