SPECIFICATION Spec
CONSTANTS
  M = 3
  Fam = "nest"
  PMax = 2
  NPen = {1}
  GVals <- G1
  KS = {1}
INVARIANT NestAssoc
INVARIANT Emit
