SPECIFICATION Spec
CONSTANTS
  M = 3
  Fam = "couple"
  PMax = 2
  NPen = {1}
  GVals <- G1
  KS = {1}
INVARIANT Duality
INVARIANT IdNeutral
INVARIANT ProxySame
INVARIANT AddCommutes
INVARIANT DefaultsNeutral
INVARIANT Emit
