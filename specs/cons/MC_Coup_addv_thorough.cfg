SPECIFICATION Spec
CONSTANTS
  M = 2
  Fam = "addv"
  PMax = 2
  NPen = {1}
  GVals <- G1
  KS = {1}
  AVals <- TAVals
INVARIANT AddvZero
INVARIANT AddvCancel
INVARIANT AddvSym
INVARIANT Emit
