-------------------------- MODULE Trace_Combinators --------------------------
(***************************************************************************)
(* code -> spec: recorded executions of the REAL mystic.constraints.and_ / *)
(* or_ / not_ are validated against the loops of Combinators.tla.          *)
(*                                                                         *)
(* IOEnv.TRACES names a JSON file holding a list of traces.  One trace:    *)
(*   kind, maxiter, x0                                                     *)
(*   tab   the members as tables over the vector ids 1..K seen in that run *)
(*         (computed by the harness from pristine copies of the members,   *)
(*         never by mystic)                                                *)
(*   ev    the events in program order, uniform records [t, i, a, b]:      *)
(*           t="call": member i was called with vector a and returned b    *)
(*           t="draw": the randomisation fired; a = the new x[-1] (and_,   *)
(*                     not_) or the index returned by randint(1,n) (or_)   *)
(*           t="exit": i=1 onexit / i=0 onfail was called with vector a    *)
(* Every trace action is the action of Combinators with its nondeterminism *)
(* pinned by the logged fields, so a trace is accepted iff it is a run of  *)
(* the transcribed loop (under one of the success rules in Rules; which    *)
(* one is reported), from the first call to the exit, nothing missing and  *)
(* nothing extra.  The C17 claims are then evaluated on the returned       *)
(* vector with the pristine tables.                                        *)
(* Many traces per TLC run: tid is chosen in the initial state; accepted   *)
(* ids are collected in TLC registers and reported by the POSTCONDITION.   *)
(***************************************************************************)
EXTENDS Combinators, Json, IOUtils

Traces == JsonDeserialize(IOEnv.TRACES)

VARIABLES tid, l
tvars == <<kind, cs, maxiter, rule, x0, pc, calls, x, src, same, exit, ret, draws, tid, l>>

T  == Traces[tid]
More == l <= Len(T.ev)
Ev == T.ev[l]

ASSUME /\ TLCSet(1, {}) /\ TLCSet(2, {}) /\ TLCSet(3, {}) /\ TLCSet(4, {}) /\ TLCSet(5, {}) /\ TLCSet(6, {})

TraceInit ==
  /\ tid \in 1..Len(Traces)
  /\ l = 1
  /\ \E rl \in Rules : InitWith(T.kind, T.tab, T.maxiter, rl, T.x0)

TCall ==
  /\ More /\ Ev.t = "call" /\ pc = "call"
  /\ Ev.i = CurMember                 \* the member the cycle position names
  /\ Ev.a = CallInput                 \* called on x[-1] (and_), x[0] / x[-n] (or_), x (not_)
  /\ Ev.b = cs[Ev.i][Ev.a]            \* and what it returned is what the loop goes on with
  /\ Call

TDraw ==
  /\ More /\ Ev.t = "draw"
  /\ Draw(Ev.a)

TExit ==
  /\ More /\ Ev.t = "exit"
  /\ Exit
  /\ exit' = (IF Ev.i = 1 THEN "onexit" ELSE "onfail")
  /\ ret' = Ev.a

TraceNext == (TCall \/ TDraw \/ TExit) /\ l' = l + 1 /\ tid' = tid
TraceSpec == TraceInit /\ [][TraceNext]_tvars

Accepted == pc = "done" /\ l = Len(T.ev) + 1
Add(r) == TLCSet(r, TLCGet(r) \cup {tid})

(* the claim of C17 read off the recorded run alone (also for runs the loop spec rejects): the
   last event is the exit; on the success path the returned vector must be fixed by all / some /
   no member *)
LastEv == T.ev[Len(T.ev)]
RecordedClaim ==
  (Len(T.ev) > 0 /\ LastEv.t = "exit" /\ LastEv.i = 1) =>
     LET r == LastEv.a  m == Len(T.tab) IN
       CASE T.kind = "and" -> \A i \in 1..m : T.tab[i][r] = r
         [] T.kind = "or"  -> \E i \in 1..m : T.tab[i][r] = r
         [] T.kind = "not" -> T.tab[1][r] # r

(* bookkeeping, evaluated in every recorded state (listed as INVARIANT; always TRUE) *)
Register ==
  /\ (l = 1 /\ ~RecordedClaim) => Add(6)
  /\ (Accepted /\ rule = "asis")  => Add(1)
  /\ (Accepted /\ rule = "fixed") => Add(2)
  /\ (Accepted /\ ~ClaimAnd) => Add(IF RandInWindow THEN 4 ELSE 3)
  /\ (Accepted /\ ~(ClaimOr /\ ClaimNot)) => Add(5)

(* the design invariants hold in every recorded state as well *)
TraceBounded == Bounded
TraceOnePath == OnePath

Post ==
  /\ PrintT(<<"@@", ToJson([n |-> Len(Traces), asis |-> TLCGet(1), fixed |-> TLCGet(2),
                            bad |-> TLCGet(3), badrnd |-> TLCGet(4), badother |-> TLCGet(5),
                            claimfalse |-> TLCGet(6)])>>)
  /\ (TLCGet(1) \cup TLCGet(2)) = 1..Len(Traces)

(* single-trace diagnosis: how far did the trace get *)
Probe == PrintT(<<"@@", ToJson([l |-> l, pc |-> pc, rule |-> rule, calls |-> calls, x |-> x])>>)
=============================================================================
