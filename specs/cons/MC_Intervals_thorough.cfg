SPECIFICATION Spec
CONSTANTS
  WLo <- WinLo
  WHi = 12
  Lists <- TLists
  Firsts <- TLists
  ChainLists <- CLists
  InvArgs <- TInv
  MaxOps = 3
INVARIANT ThmDeMorgan
INVARIANT ThmInvolution
INVARIANT ThmLattice
INVARIANT ThmHist
INVARIANT EmitScript
