SPECIFICATION Spec
CONSTANTS
  D <- D2
  Members <- All2
  Ns = {3}
  MaxIters = {0, 1, 2, 3}
  Kinds = {"and", "or"}
  Rules = {"fixed"}
  Starts <- D2
INVARIANT ClaimAnd
INVARIANT ClaimOr
INVARIANT ClaimNot
INVARIANT OnePath
INVARIANT Bounded
PROPERTY Progress
