----------------------------- MODULE Combinators -----------------------------
(***************************************************************************)
(* mystic.constraints.and_ / or_ / not_ transcribed as the loops they are. *)
(*                                                                         *)
(* A combinator is built from member constraints c_1..c_n (not_: one) and  *)
(* applied to one input vector.  Vectors are opaque values of a finite     *)
(* domain D; a member is an ARBITRARY total function D -> D (compatible,   *)
(* conflicting, cyclic, idempotent or not -- TLC enumerates them).         *)
(*                                                                         *)
(* Variables (one run of `_constraint(x0)`):                               *)
(*   kind     "and" | "or" | "not"                                         *)
(*   cs       the members, a sequence of functions on D;  n == Len(cs)     *)
(*            (n = 0, the combinator of no member, is a legal boundary:    *)
(*            and_() succeeds at once with x unchanged, or_() fails at once)*)
(*   maxiter  the `maxiter` setting (the loop cap is maxiter*n, not_: maxiter)*)
(*   rule     which success test and_ uses (see below)                     *)
(*   x0       the input                                                    *)
(*   x        the history window: the last (at most n+1) entries of the    *)
(*            python list `x`;  x[Len(x)] is python's x[-1]                *)
(*            (`del x[:n]` never reaches these entries, so it is invisible) *)
(*   src      ghost, parallel to x: where the entry came from              *)
(*              0 = the input, i>0 = output of member i,                   *)
(*              -i = a randomised value that overwrote the output of member i*)
(*   calls    member calls made so far (the code's j, the cycle position   *)
(*            is calls % n)                                                *)
(*   same     number of consecutive member applications that changed       *)
(*            nothing, reset by any change and by a randomisation          *)
(*   pc       "call"  a member call is next                                *)
(*            "draw"  the cycle-breaking randomisation is due              *)
(*            "ok"    success decided: onexit is about to be called        *)
(*            "fail"  cap exhausted:   onfail is about to be called        *)
(*            "done"  returned                                             *)
(*   exit,ret which of onexit / onfail fired and with which vector         *)
(*   draws    ghost: the values produced by the randomisation so far       *)
(*                                                                         *)
(* The cycle-breaking randomisation is a NONDETERMINISTIC action:          *)
(*   and_, not_:  [(i+randint(-1,1))*random() for i in x]  ->  any v in D  *)
(*   or_:         x[-1] = x[-randint(1,n)]                 ->  any k in 1..n*)
(*                                                                         *)
(* rule (only and_ depends on it):                                         *)
(*   "asis"   the code: success when the last n iterates are equal         *)
(*            (first sweep: x[1..n] all equal)                             *)
(*   "n1"     a tempting repair: the last n+1 iterates are equal           *)
(*   "fixed"  what the property demands (and the anchor describes): n      *)
(*            consecutive member applications changed nothing, the count   *)
(*            being reset by any change and by any randomisation           *)
(* Exceptions raised by members are not modelled (members are total).      *)
(***************************************************************************)
EXTENDS Integers, Sequences, FiniteSets, TLC

CONSTANTS D,          \* finite set of vector values
          Members,    \* candidate member functions, a subset of [D -> D]
          Ns,         \* numbers of members explored for and_/or_
          MaxIters,   \* maxiter settings explored
          Kinds,      \* subset of {"and","or","not"}
          Rules,      \* subset of {"asis","n1","fixed"}
          Starts      \* inputs explored (all of D, or one representative per
                      \* orbit: conjugating members, input and draws by a
                      \* permutation of D maps runs to runs)

VARIABLES kind, cs, maxiter, rule, x0, pc, calls, x, src, same, exit, ret, draws
vars == <<kind, cs, maxiter, rule, x0, pc, calls, x, src, same, exit, ret, draws>>

n == Len(cs)
At(s, k) == s[Len(s) + 1 - k]                         \* python s[-k]
LastN(s, m) == IF Len(s) <= m THEN s ELSE SubSeq(s, Len(s) - m + 1, Len(s))   \* s[-m:]
AllEq(s) == \A p \in 1..Len(s) : s[p] = s[Len(s)]
SetLast(s, v) == [s EXCEPT ![Len(s)] = v]
Cap == IF kind = "not" THEN maxiter ELSE maxiter * n   \* range(n, maxiter*n) / range(0, maxiter)
Max(a, b) == IF a >= b THEN a ELSE b

-----------------------------------------------------------------------------
InitWith(kd, ms, mi, rl, s) ==
  /\ kind = kd /\ cs = ms /\ maxiter = mi /\ rule = rl /\ x0 = s
  /\ x = <<s>> /\ src = <<0>> /\ calls = 0 /\ same = 0
  /\ pc = IF kd = "not" /\ mi = 0 THEN "fail"
          ELSE IF Len(ms) = 0 THEN (IF kd = "and" THEN "ok" ELSE "fail")   \* and_() / or_() of NO member: no call at all;
                                                                          \* "every member fixes x" holds, "some member" does not
          ELSE "call"                                                     \* the first sweep of and_/or_ is unconditional
  /\ exit = "none" /\ ret = s /\ draws = << >>

RECURSIVE SeqsOf(_, _)
SeqsOf(S, m) == IF m = 0 THEN {<< >>} ELSE {Append(q, e) : q \in SeqsOf(S, m - 1), e \in S}

Init == \E kd \in Kinds, mi \in MaxIters, rl \in Rules, s \in Starts :
          \E m \in (IF kd = "not" THEN {1} ELSE Ns) :
            \E ms \in SeqsOf(Members, m) : InitWith(kd, ms, mi, rl, s)

-----------------------------------------------------------------------------
(* which member is called next and on what *)
CurMember == IF kind = "not" THEN 1 ELSE (calls % n) + 1           \* it.cycle restarts at c_1 when j = n
LastMember == IF kind = "not" THEN 1 ELSE ((calls - 1) % n) + 1    \* the member called last
CallInput == CASE kind = "and" -> At(x, 1)                          \* c(x[-1])
               [] kind = "or"  -> IF calls < n THEN x[1] ELSE At(x, n)   \* c(x[0]) / c(x[-n])
               [] kind = "not" -> x[1]

(* and_ : success test on the list nx (already appended), after call number c *)
AndSuccess(nx, c, sm) ==
  CASE rule = "asis"  -> IF c = n THEN AllEq(SubSeq(nx, 2, n + 1))  \* all(xi == x[-1] for xi in x[1:])
                                  ELSE AllEq(LastN(nx, n))           \* all(xi == x[-1] for xi in x[-n:])
    [] rule = "n1"    -> AllEq(LastN(nx, n + 1))
    [] rule = "fixed" -> sm >= n

AndCall ==
  LET i  == CurMember
      a  == CallInput
      b  == cs[i][a]
      nx == Append(x, b)
      c  == calls + 1
      sm == IF b = a THEN same + 1 ELSE 0
      ok == AndSuccess(nx, c, sm)
      cyc == At(nx, 1) = At(nx, n + 1)                  \* x[-1] == x[-(n+1)]
  IN /\ x' = LastN(nx, n + 1) /\ src' = LastN(Append(src, i), n + 1)
     /\ calls' = c /\ same' = sm
     /\ pc' = IF c < n THEN "call"                      \* still in the first sweep: no test
              ELSE IF ok THEN "ok"
              ELSE IF c > n /\ cyc THEN "draw"          \* the first sweep never randomises
              ELSE IF c < Cap THEN "call" ELSE "fail"

OrCall ==
  LET i  == CurMember
      a  == CallInput
      b  == cs[i][a]
      nx == Append(x, b)
      c  == calls + 1
  IN /\ x' = LastN(nx, n + 1) /\ src' = LastN(Append(src, i), n + 1)
     /\ calls' = c /\ same' = 0
     /\ pc' = IF c <= n                                 \* first sweep: x[-1] == x[0] ?
              THEN (IF b = x0 THEN "ok" ELSE IF c < n THEN "call" ELSE IF c < Cap THEN "call" ELSE "fail")
              ELSE (IF b = At(nx, n + 1) THEN "ok" ELSE "draw")    \* x[-1] == x[-(n+1)], else always randomise

NotCall ==
  LET b == cs[1][x[1]]
  IN /\ UNCHANGED <<x, src>>
     /\ calls' = calls + 1 /\ same' = 0
     /\ pc' = IF b # x[1] THEN "ok" ELSE "draw"         \* constraint(x[:]) != x

Call ==
  /\ pc = "call"
  /\ CASE kind = "and" -> AndCall [] kind = "or" -> OrCall [] kind = "not" -> NotCall
  /\ UNCHANGED <<kind, cs, maxiter, rule, x0, exit, ret, draws>>

(* the cycle-breaking randomisation; v is the new value of x[-1] (and_, not_)
   or the index drawn by randint(1,n) (or_) *)
Draw(v) ==
  /\ pc = "draw"
  /\ CASE kind = "or"  -> /\ v \in 1..n
                          /\ x' = SetLast(x, At(x, v))
                          /\ src' = SetLast(src, At(src, v))
       [] OTHER        -> /\ x' = SetLast(x, v)
                          /\ src' = SetLast(src, -LastMember)
  /\ same' = 0
  /\ draws' = Append(draws, v)
  /\ pc' = IF calls < Cap THEN "call" ELSE "fail"
  /\ UNCHANGED <<kind, cs, maxiter, rule, x0, calls, exit, ret>>

Exit ==
  /\ pc \in {"ok", "fail"}
  /\ exit' = IF pc = "ok" THEN "onexit" ELSE "onfail"
  /\ ret' = At(x, 1)
  /\ pc' = "done"
  /\ UNCHANGED <<kind, cs, maxiter, rule, x0, calls, x, src, same, draws>>

Finished == pc = "done" /\ UNCHANGED vars       \* so that "stuck before returning" is a TLC deadlock

DrawChoices == IF kind = "or" THEN 1..n ELSE D
Step == Call \/ (\E v \in DrawChoices : Draw(v)) \/ Exit
Next == Step \/ Finished
Spec == Init /\ [][Next]_vars /\ WF_vars(Step)

-----------------------------------------------------------------------------
(* C17, combinator half *)
Done == pc = "done"
Fixes(i, v) == cs[i][v] = v

ClaimAnd == (Done /\ kind = "and" /\ exit = "onexit") => \A i \in 1..n : Fixes(i, ret)
ClaimOr  == (Done /\ kind = "or"  /\ exit = "onexit") => \E i \in 1..n : Fixes(i, ret)
ClaimNot == (Done /\ kind = "not" /\ exit = "onexit") => ~Fixes(1, ret)
Claim == ClaimAnd /\ ClaimOr /\ ClaimNot
ClaimAndFixed == rule = "fixed" => ClaimAnd          \* for instances that explore several rules at once
(* "otherwise the failure path is taken": a finished run took exactly one of the two paths *)
OnePath == (Done <=> exit # "none") /\ exit \in {"none", "onexit", "onfail"}

(* termination within the iteration cap: the first sweep is unconditional *)
Bounded == calls <= (IF kind = "not" THEN maxiter ELSE Max(n, maxiter * n))
Stage == CASE pc = "draw" -> 0 [] pc = "call" -> 1 [] pc = "ok" -> 2 [] pc = "fail" -> 2 [] pc = "done" -> 3
Measure == 4 * calls + Stage
Progress == [][(pc # "done") => Measure' > Measure]_vars      \* a bounded, strictly increasing variant
Terminates == <>Done

(* -- for which members does the AS-IS and_ keep its promise?  ----------------------------- *)
(* and_ (as-is) claims success on a window of n equal iterates.  WinSrc is the origin of the
   first of them; RandInWindow says that one of them is a randomised value. *)
WinSrc == At(src, n)
RandInWindow == \E p \in 1..n : At(src, p) < 0
(* a window of n equal iterates certifies only n-1 applications: every member is certified except
   the one that produced the first iterate of the window, and those whose output was overwritten
   by a randomisation inside the window *)
Uncertified(i) == i = WinSrc \/ \E p \in 1..n : At(src, p) = -i
AsIsOnlyUncertifiedChange ==
  (Done /\ kind = "and" /\ exit = "onexit" /\ rule = "asis") =>
     \A i \in 1..n : (~Fixes(i, ret)) => Uncertified(i)
(* hence the as-is claim holds whenever no randomised iterate lies in the final window and the
   member that produced its first iterate is idempotent *)
Idempotent(f) == \A d \in DOMAIN f : f[f[d]] = f[d]
AsIsHoldsForIdempotentHead ==
  (Done /\ kind = "and" /\ exit = "onexit" /\ rule = "asis" /\ n > 0 /\ ~RandInWindow /\ Idempotent(cs[WinSrc]))
     => \A i \in 1..n : Fixes(i, ret)
=============================================================================
