--------------------------- MODULE MC_Combinators ---------------------------
(* small-constant instances of Combinators and the emitter of the runs in  *)
(* which the AS-IS and_ reports success although a member changes the      *)
(* returned vector (replayed on the real code by harness/check_C17.py).    *)
(*                                                                         *)
(* What TLC established with these instances (re-established on every run  *)
(* of bin/check C17):                                                      *)
(*  * rule "fixed": ClaimAnd, ClaimOr, ClaimNot, OnePath, Bounded, Progress *)
(*    hold for all 27^n member tuples on |D|=3 (n<=3), all 256^2 pairs on  *)
(*    |D|=4, every input, maxiter 0..3, every randomisation outcome.       *)
(*  * rule "asis" (the code): ClaimOr and ClaimNot hold; ClaimAnd does not. *)
(*    Shortest counter-example (MC_Comb_cex_asis.cfg, 4 states): n=2,       *)
(*    c1 = (0->1, 1->0, 2->0), c2 = (0->0, 1->1, 2->0), x=0: iterates       *)
(*    0, 1, 1 -> onexit(1) although c1(1) = 0.  (DESIGN 7/F6: c1 = 0->1->2, *)
(*    c2 = identity is the same run.)  With n=1 and_ returns c(x) through   *)
(*    onexit for every c.                                                   *)
(*  * rule "n1" (n+1 equal iterates) is refuted too (MC_Comb_cex_n1.cfg):   *)
(*    c1 = const 0, c2 = (0->1,1->1,2->0), x=0: 0,0,1,0 -> cycle -> the     *)
(*    randomisation overwrites c1's output 0 with 1 -> c2(1)=1 -> 1,1,1.    *)
(*  * idempotent members do not rescue the as-is rule (MC_Comb_cex_idem):   *)
(*    c1 = const 0, c2 = const 1 (inconsistent!), x=0: 0,0,1,0 -> cycle ->  *)
(*    randomised to 1 -> c2(1)=1 -> onexit(1) although c1(1)=0.             *)
(*  * exactly when is the as-is and_ right?  AsIsOnlyUncertifiedChange and  *)
(*    AsIsHoldsForIdempotentHead hold: a member can change the returned     *)
(*    vector only if it produced the first iterate of the final window of n *)
(*    equal iterates, or its output was overwritten by a randomisation      *)
(*    inside that window; so the claim holds as-is whenever no randomised   *)
(*    iterate lies in the final window and the member producing its first   *)
(*    iterate is idempotent.  With idempotent members the claim fails only  *)
(*    through the randomisation (IdemOnlyRandom, MC_Comb_idem.cfg).         *)
EXTENDS Combinators, Json

D3 == 0..2
D2 == 0..1
All3 == [D3 -> D3]                     \* all 27 functions on a 3-point domain
All2 == [D2 -> D2]
D4 == 0..3
All4 == [D4 -> D4]                     \* all 256 functions on a 4-point domain
Idem3 == {f \in All3 : Idempotent(f)}  \* the 10 idempotent ones
OnlyZero == {0}                        \* symmetry: one start per orbit when Members is closed under conjugation

Tab(f) == [k \in 1..Cardinality(DOMAIN f) |-> f[k - 1]]      \* function on 0..m-1 as a JSON array

(* one line per finished and_ run that claimed success wrongly; everything needed to re-run it *)
EmitBad ==
  (Done /\ kind = "and" /\ exit = "onexit" /\ ~(\A i \in 1..n : Fixes(i, ret))) =>
     PrintT(<<"@@", ToJson([kind |-> kind, tabs |-> [i \in 1..n |-> Tab(cs[i])], maxiter |-> maxiter,
                            x0 |-> x0, draws |-> draws, calls |-> calls, ret |-> ret, winsrc |-> WinSrc, rnd |-> RandInWindow,
                            changedby |-> {i \in 1..n : ~Fixes(i, ret)}])>>)

(* multi-digit iteration caps (MC_Comb_long.cfg: maxiter 10 and 12, up to 36 member calls): `draws` is a ghost that
   only records history, so runs that differ in it alone are identified (VIEW) -- the claims, OnePath and Bounded do
   not mention it *)
NoDraws == <<kind, cs, maxiter, rule, x0, pc, calls, x, src, same, exit, ret>>

(* vacuity companions: TLC must VIOLATE these (the antecedents are reachable) *)
NeverOnExit == ~(Done /\ exit = "onexit")
NeverOnFail == ~(Done /\ exit = "onfail")
NeverDraw   == draws = << >>
(* with idempotent members the as-is and_ can only be wrong through a randomised iterate in the window *)
IdemOnlyRandom ==
  (Done /\ kind = "and" /\ exit = "onexit" /\ ~(\A i \in 1..n : Fixes(i, ret))) => RandInWindow
=============================================================================
