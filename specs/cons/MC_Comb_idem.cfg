SPECIFICATION Spec
CONSTANTS
  D <- D3
  Members <- Idem3
  Ns = {1, 2, 3}
  MaxIters = {1, 2, 3}
  Kinds = {"and"}
  Rules = {"asis"}
  Starts <- D3
INVARIANT IdemOnlyRandom
INVARIANT AsIsOnlyUncertifiedChange
INVARIANT Bounded
