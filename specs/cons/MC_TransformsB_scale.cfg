SPECIFICATION StartOnly
CONSTANTS
  S = 2
  Vals <- ScVals
  Lens <- ScLens
  Decs <- ScDecs
  MaxHist = 0
INVARIANT ThmScale
