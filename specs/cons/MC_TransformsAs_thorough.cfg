SPECIFICATION Spec
CONSTANTS
  S = 2
  Vals <- AVals3
  Lens <- ALens4
  Decs <- QAs
  MaxHist = 0
  DecSeq <- QAsSeq
INVARIANT ThmAll
INVARIANT Emit
