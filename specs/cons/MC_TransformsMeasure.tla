----------------------- MODULE MC_TransformsMeasure -----------------------
(* Bounded instances of TransformsMeasure.  Scale S = 2: the integer v      *)
(* stands for v/2.  A start measure is a sequence of factor measures.       *)
EXTENDS TransformsMeasure

Fac(w, x) == [w |-> w, x |-> x]
SumOf(s) == FoldSeq(LAMBDA a, b : a + b, 0, s)
(* every factor with n points, weights from W (not all zero), positions from X *)
Full(n, W, X) == {Fac(w, x) : w \in {u \in [1..n -> W] : SumOf(u) > 0}, x \in [1..n -> X]}
(* ... with the positions taken from a given set of position vectors *)
FullAt(n, W, XS) == {Fac(w, x) : w \in {u \in [1..n -> W] : SumOf(u) > 0}, x \in XS}
One(F) == {<<f>> : f \in F}
Two(F, G) == {<<f, g>> : f \in F, g \in G}

QW == {0, 1, 2}                 \* 0  0.5  1
QX == {-1, 0, 2}                \* -0.5  0  1
(* hand-picked factors for the product shapes (the factors are handled one by one): zeros, equal positions, *)
(* totals that are / are not powers of two                                                                 *)
Mid3 == {Fac(w, x) : w \in {<<1, 1, 2>>, <<2, 0, 2>>, <<0, 0, 1>>, <<1, 2, 0>>, <<0, 2, 2>>, <<1, 1, 1>>},
                     x \in {<<0, 2, -1>>, <<2, 2, 0>>}}
Mid2 == {Fac(w, x) : w \in {<<1, 1>>, <<0, 2>>, <<2, 1>>}, x \in {<<0, 2>>, <<-1, -1>>}}
Few3 == {Fac(<<1, 1, 2>>, <<0, 2, -1>>), Fac(<<2, 0, 2>>, <<2, 2, 0>>), Fac(<<0, 0, 1>>, <<0, 2, -1>>),
         Fac(<<1, 2, 0>>, <<0, 2, 4>>), Fac(<<0, 2, 2>>, <<3, 0, 0>>), Fac(<<1, 1, 1>>, <<0, 2, -1>>)}
Few3s == {Fac(<<1, 1, 2>>, <<0, 2, -1>>), Fac(<<0, 2, 2>>, <<3, 0, 0>>)}
Few2 == {Fac(<<1, 1>>, <<0, 2>>), Fac(<<0, 2>>, <<-1, 3>>)}
One2 == {Fac(<<2, 1>>, <<0, 2>>)}

(* quick: one collapse per decorator on every small factor (n = 3: every weight vector on four position vectors) and on the  *)
(* product shapes built from the hand-picked factors; decorators of two collapses on the QDeep starts                     *)
QX3 == {<<0, 2, -1>>, <<2, 2, 0>>, <<-1, 0, 2>>, <<0, 0, 2>>}
QDeep == One(Few3) \cup Two(Few2, Few2) \cup Two(Few3s, One2) \cup Two(One2, Few3s)
QStarts == One(Full(2, QW, QX)) \cup One(FullAt(3, QW, QX3))
           \cup Two(Mid2, Mid2) \cup Two(Few3, Mid2) \cup Two(Mid2, Few3) \cup Two(Few3s, Few3)
           \cup QDeep
(* thorough: larger value sets, all product shapes on the Mid factors, three factors, a factor of four points; decorators of  *)
(* three collapses on the TDeep starts                                                                                      *)
TW == {0, 1, 2, 3}
TX == {-1, 0, 2, 3}
TDeep == One(Mid3) \cup Two(Few2, Few2) \cup Two(Few3, Few2) \cup Two(Few2, Few3)
         \cup Two({Fac(<<1, 1, 2>>, <<0, 2, -1>>), Fac(<<0, 2, 2>>, <<3, 0, 0>>)},
                  {Fac(<<1, 1, 2>>, <<0, 2, -1>>), Fac(<<2, 0, 2>>, <<2, 2, 0>>)})
TStarts == One(Full(2, TW, TX)) \cup One(Full(3, TW, TX))
           \cup Two(Mid2, Mid2) \cup Two(Mid3, Mid2) \cup Two(Mid2, Mid3) \cup Two(Mid3, Mid3)
           \cup {<<f, g, h>> : f \in Few2, g \in Few3, h \in Few2}
           \cup One({Fac(<<1, 0, 2, 1>>, <<0, 2, -1, 4>>), Fac(<<0, 2, 2, 0>>, <<3, 0, 0, 1>>)})
           \cup TDeep
=============================================================================
