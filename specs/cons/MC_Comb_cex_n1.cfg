SPECIFICATION Spec
CONSTANTS
  D <- D3
  Members <- All3
  Ns = {2}
  MaxIters = {3}
  Kinds = {"and"}
  Rules = {"n1"}
  Starts <- OnlyZero
INVARIANT ClaimAnd
