SPECIFICATION Spec
CONSTANTS
  S = 2
  Vals <- EVals
  Lens <- ELens
  Decs <- EDecs
  MaxHist = 0
INVARIANT ScaleFreeRounding
