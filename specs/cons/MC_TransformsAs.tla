--------------------------- MODULE MC_TransformsAs ---------------------------
(* Bounded instances of Transforms for the tracking masks of impose_as: the masks are ENUMERATED by TLC    *)
(* (not listed by hand), see QJobs.  A module of its own because TLC computes every constant definition   *)
(* of the root module at start-up; the other configurations should not pay for this enumeration.          *)
EXTENDS MC_Transforms

(* ---- tracking masks of impose_as, ENUMERATED: every list of up to K distinct pairs of distinct indices 0..N-1   *)
(* whose pairs form a forest (pair direction ignored) in which the relation y[j] = y[i] + offset can hold for     *)
(* all pairs (AsGraded): single pairs, chains, fan-outs, fan-ins, trees, forests, in both orientations and in     *)
(* EVERY order of the list.  Applied to vectors shorter than N the same masks are partially out of range.         *)
APairs(N) == {q \in (0..(N - 1)) \X (0..(N - 1)) : q[1] # q[2]}
APos(Q) == {<<q[1] + 1, q[2] + 1>> : q \in Q}                                \* the graph of a set of pairs (full length)
AForest(Q) == LET E == APos(Q)
                  Nd == AsNodes(E)
              IN  Cardinality(E) = Cardinality(Nd) - Cardinality({AsComp(a, E) : a \in Nd})
AEdgeSets(N, K) == {Q \in UNION {kSubset(k, APairs(N)) : k \in 1..K} : AsGraded(APos(Q)) /\ AForest(Q)}
(* graded but not a forest (a diamond 0->1->3, 0->2->3; two sources feeding the same two entries): still in the premise *)
ALoops(N) == {Q \in kSubset(4, APairs(N)) : AsGraded(APos(Q)) /\ ~AForest(Q)}
RECURSIVE APerms(_)
APerms(Q) == IF Q = {} THEN {<< >>} ELSE UNION {{<<q>> \o r : r \in APerms(Q \ {q})} : q \in Q}
ASourceFirst(Q, N) == CHOOSE r \in APerms(Q) : AsListing(r, N) = 0           \* one listing that names the sources first
(* negative spellings: every index written i-N (the same positions for vectors of length N, shifted for shorter ones), *)
(* or only index a written a-N (aliases a shorter vector's position: outside the premise there)                   *)
ATup(f) == CASE Len(f) = 1 -> <<f[1]>> [] Len(f) = 2 -> <<f[1], f[2]>> [] Len(f) = 3 -> <<f[1], f[2], f[3]>>
             [] Len(f) = 4 -> <<f[1], f[2], f[3], f[4]>>                      \* an explicit tuple (cheap to compare in TLC)
ANegAll(m, N) == ATup([j \in DOMAIN m |-> <<m[j][1] - N, m[j][2] - N>>])
ANegOne(m, a, N) == ATup([j \in DOMAIN m |-> <<IF m[j][1] = a THEN a - N ELSE m[j][1], IF m[j][2] = a THEN a - N ELSE m[j][2]>>])
AOffs == {NONE, 0, 2, -1}                                                     \* offset None, 0.0, 1.0, -0.5
AOffsOf(tag) == CASE tag = 1 -> AOffs [] tag = 2 -> {NONE, 2} [] tag = 3 -> {2} [] tag = 4 -> {NONE, -1}
(* outside the premise (counted, never judged): directed cycle, entry reached at depths 1 and 2, unequal fan-in, self-pair by alias *)
AOutside == {<< <<0, 1>>, <<1, 0>> >>, << <<0, 1>>, <<1, 2>>, <<0, 2>> >>, << <<0, 1>>, <<1, 2>>, <<3, 2>> >>,
             << <<0, 1>>, <<1, 2>>, <<2, 0>> >>, << <<0, -3>> >>, << <<0, 1>>, <<-3, 2>> >>}
ASSUME \A m \in AOutside : \E n \in 2..4 : ~AsDefined(m, n)

(* a catalogue of masks is a set of jobs <<mask, tag>> (tag: which offsets); PART/NPARTS (environment) split the  *)
(* JOBS over parallel TLC runs, and a run analyses only its own masks (DAsP: one analysis per mask)               *)
QSets == AEdgeSets(4, 3)
QJobs == UNION {
       {<<m, 1>> : m \in UNION {APerms(Q) : Q \in QSets}},
       {<<ANegAll(ASourceFirst(Q, 4), 4), 1>> : Q \in QSets},
       {<<ANegOne(ASourceFirst(Q, 4), 3, 4), 1>> : Q \in {Q \in QSets : \E q \in Q : 3 \in {q[1], q[2]}}},
       {<<ASourceFirst(Q, 4), 2>> : Q \in ALoops(4)},
       {<<m, 2>> : m \in AOutside} }
AMine(JJ) == LET A == SetToSeq(JJ) IN {A[i] : i \in {i \in DOMAIN A : i % NParts = Part}}
ADecs(JJ) == UNION {LET pl == AsPlanAll(jb[1]) IN {DAsP(jb[1], o, pl) : o \in AOffsOf(jb[2])} : jb \in AMine(JJ)}
(* TLC re-evaluates a constant given by `Decs <- X` (and everything defined from it) at every use, while a plain   *)
(* definition is computed once.  The mask configurations therefore override `DecSeq` (this run's share of the      *)
(* catalogue as a sequence) by a definition whose body is a single, already computed, name.                       *)
QAsShare == SetToSeq(ADecs(QJobs))
QAsSeq == QAsShare
QAs == Rng(QAsShare)
AVals2 == {0, 3}                         \* start vectors of the mask configurations: 0 / 1.5 ...
AVals3 == {-1, 0, 3}                     \* ... or -0.5 / 0 / 1.5
ALens4 == 0..4
(* vacuity: the enumeration really contains chains with offset, fan-ins, every listing class, depth 3, masks that  *)
(* are in the premise for one length and outside for another, partially out-of-range masks                         *)
AHas(JJ, N) == LET MM == {jb[1] : jb \in JJ} IN
               /\ \E m \in MM : AsClassOf(m, N) = <<1, 0, 0>>
               /\ \E m \in MM : AsClassOf(m, N) = <<1, 1, 0>>
               /\ \E m \in MM : AsClassOf(m, N)[3] = 1
               /\ \E m \in MM : AsClassOf(m, N)[3] = 2
               /\ \E m \in MM : AsDefined(m, N) /\ \E a \in AsNodes(AsEdges(m, N)) : AsDepth(a, AsEdges(m, N)) = 3
               /\ \E m \in MM : AsDefined(m, N) /\ ~AsDefined(m, N - 1)
               /\ \E m \in MM : \E n \in 1..(N - 1) : AsEdges(m, n) # {} /\ Cardinality(AsEdges(m, n)) < Len(m)
(* the table form of the transform (AsTP, used for catalogue records) is the direct form (AsT) *)
ATableOk(JJ, N) == \A jb \in JJ : \A n \in 0..N : LET v == [i \in 1..n |-> 7 * i * i] IN AsDefined(jb[1], n) => AsTP(DAs(jb[1], 2), v) = AsT(jb[1], 2, v)
ASSUME Cardinality(QSets) = 176 /\ AHas(QJobs, 4) /\ ATableOk(AMine(QJobs), 4)

=============================================================================
