SPECIFICATION Spec
CONSTANTS
  S = 2
  Vals <- SVals
  Lens <- SLens
  Decs <- SDecs
  MaxHist = 3
INVARIANT ThmSelective
INVARIANT ThmLands
INVARIANT ThmConforming
INVARIANT ThmEntrywise
INVARIANT ThmIdempotent
INVARIANT ThmMasked
INVARIANT ScriptFootprint
PROPERTY StepFootprint
PROPERTY ReapplyNoop
INVARIANT EmitScript
