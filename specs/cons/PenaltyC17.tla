---------------------------- MODULE PenaltyC17 ----------------------------
(***************************************************************************)
(* FROZEN COPY for C17 (cons/Bridges.tla).  This is pen/Penalty.tla as of  *)
(* commit 2f4c29d (the same text as in f0eb71f, where the bridges were     *)
(* registered); Bridges.tla uses its value-formula part (Lv, EvalFrom,     *)
(* Err2From, Add, IntV, Rat, VT, Feasible and the laws ZeroOnFeasible,     *)
(* PositiveWhenViolated, ZeroDivisionInfinite, ErrorIsViolation).  It is   *)
(* frozen so that C17 does not depend on the state-machine interface of    *)
(* the C15 specification (constants, record fields, value representation), *)
(* which is free to change.  Only the module name differs from 2f4c29d.    *)
(***************************************************************************)
(***************************************************************************)
(* S8 -- the penalty closure family of mystic.penalty as a state machine.  *)
(*                                                                         *)
(* A *chain* is what the user gets by stacking penalty decorators:         *)
(*     F[1] = ptype1(cond1,k1,h1)( F[2] ),  F[2] = ptype2(...)( F[3] ), .. *)
(*     F[D] = ptypeD(...)( base )          base = an ordinary function     *)
(* Every F[j] is a function object carrying error/iter/iteration/store/    *)
(* stored/clear, and hidden state.  The state of the machine is            *)
(*   cid      which chain of the catalogue ChainSeq is explored (constant  *)
(*            along a behaviour: types, k, h, conditions never change)     *)
(*   n[l]     the iteration counter _n[0] of level l (1 = outermost)       *)
(*   ys[l]    the stored multiplier list _y of level l                     *)
(*   last     the last call made and what it returned (ghost; hidden by    *)
(*            the VIEW of the model-checking configurations)               *)
(* The nesting chain is the sequence ChainSeq[cid].lv; level l decorates   *)
(* level l+1 and level D decorates the base function, which has none of    *)
(* the attributes (hasattr(_f[0],'iter') is false: propagation stops).     *)
(*                                                                         *)
(* One action per public call, addressed to any level j of the chain (the  *)
(* user holds every F[j]):  Iter(j,i|None), Clear(j), Store(j,x,i|None),   *)
(* Eval(j,x) = F[j](x), Error(j,x) = F[j].error(x).  Calls propagate down  *)
(* the chain by the recursive operators IterFrom/ClearFrom/StoreFrom/      *)
(* EvalFrom/Err2From, transcribed from penalty.py.                         *)
(*                                                                         *)
(* Numbers.  Conditions are tables on the probe points 1..NX with small    *)
(* integer values or ZD (the condition raises ZeroDivisionError there).    *)
(* k, h are integers (k = INF for the uniform types' default).  A *value*  *)
(* (what a penalised function returns) is a record                         *)
(*    [t, n, d, lg]   t = "fin": n/d - SUM_{<<a,q>> in lg} log(a)/q        *)
(*                    t = "inf" / "ninf" / "nan": IEEE +inf, -inf, NaN     *)
(* so the Lagrange types' rationals are exact and the logarithm of the     *)
(* barrier type stays symbolic.  Stored multipliers are integers or INF    *)
(* (store() at a ZD point records inf).  error(x) is specified by its      *)
(* square (an integer, or INF).                                            *)
(***************************************************************************)
EXTENDS Integers, Sequences, FiniteSets, TLC, Json, SequencesExt, IOUtils

CONSTANTS
  Chains,      \* set of chains: [lv |-> <<[ty,k,h,c], ...>> (outermost first), b |-> base table,
               \*                 ms |-> bound on the total length of the chain's stored lists]
  NX,          \* probe points are 1..NX
  CondTab,     \* CondTab[c][x]  value of condition c at probe x: an integer or ZD
  BaseTab,     \* BaseTab[b][x]  value of undecorated function b at probe x: an integer
  MaxN,        \* bound on the iteration counters
  MaxLen,      \* bound on the length of one stored list
  IterArgs,    \* the explicit arguments i of iter(i)
  StoreArgs    \* the explicit arguments i of store(x, i)

VARIABLES cid, n, ys, last
vars == <<cid, n, ys, last>>
View == <<cid, n, ys>>

INF  == 1000000        \* +inf as a stored multiplier / as k / as a squared error
ZD   == 999999         \* "condition(x) raises ZeroDivisionError"
None == -1             \* the default argument i=None

(* the nine types, in the order of penalty.py *)
TypeName == << "quadratic_equality", "linear_equality", "uniform_equality", "uniform_inequality",
               "barrier_inequality", "quadratic_inequality", "linear_inequality",
               "lagrange_inequality", "lagrange_equality" >>
QE == 1  LE == 2  UE == 3  UI == 4  BI == 5  QI == 6  LI == 7  LGI == 8  LGE == 9
IsEq(t)  == t \in {QE, LE, UE, LGE}      \* satisfied iff f(x) == 0   (others: f(x) <= 0)
IsLag(t) == t \in {LGI, LGE}             \* the types whose store() records a multiplier

(* the catalogue as a sequence; cid indexes it.  For parallel runs the harness starts NParts TLC    *)
(* processes, process MyPart explores the chains with cid % NParts = MyPart (environment variables) *)
ChainSeq == SetToSeq(Chains)
NParts == IF "C15_NPARTS" \in DOMAIN IOEnv THEN atoi(IOEnv.C15_NPARTS) ELSE 1
MyPart == IF "C15_PART" \in DOMAIN IOEnv THEN atoi(IOEnv.C15_PART) ELSE 0

-----------------------------------------------------------------------------
(* arithmetic *)
Abs(a)    == IF a < 0 THEN -a ELSE a
Max2(a, b) == IF a >= b THEN a ELSE b
RECURSIVE Gcd(_, _)
Gcd(a, b) == IF b = 0 THEN a ELSE Gcd(b, a % b)
RECURSIVE Pow(_, _)
Pow(b, e) == IF e = 0 THEN 1 ELSE b * Pow(b, e - 1)

Rat(a, b) == LET g == Gcd(Abs(a), b) IN [t |-> "fin", n |-> a \div g, d |-> b \div g, lg |-> << >>]  \* b > 0
IntV(a)   == Rat(a, 1)
PInf == [t |-> "inf",  n |-> 0, d |-> 1, lg |-> << >>]
NInf == [t |-> "ninf", n |-> 0, d |-> 1, lg |-> << >>]
NaN  == [t |-> "nan",  n |-> 0, d |-> 1, lg |-> << >>]
NegLog(a, q) == [t |-> "fin", n |-> 0, d |-> 1, lg |-> << <<a, q>> >>]      \* -log(a)/q

(* IEEE addition *)
Add(a, b) ==
  IF a.t = "nan" \/ b.t = "nan" THEN NaN
  ELSE IF a.t = "fin" /\ b.t = "fin"
       THEN [Rat(a.n * b.d + b.n * a.d, a.d * b.d) EXCEPT !.lg = a.lg \o b.lg]
  ELSE IF a.t = "fin" THEN b
  ELSE IF b.t = "fin" THEN a
  ELSE IF a.t = b.t THEN a ELSE NaN
InfTimes(c) == IF c > 0 THEN PInf ELSE IF c < 0 THEN NInf ELSE NaN           \* inf * c

IsZero(v) == v.t = "fin" /\ v.lg = << >> /\ v.n = 0
IsPos(v)  == v.t = "inf" \/ (v.t = "fin" /\ v.lg = << >> /\ v.n > 0)
IsNonPos(v) == v.t = "ninf" \/ (v.t = "fin" /\ v.lg = << >> /\ v.n <= 0)

-----------------------------------------------------------------------------
(* the chain under exploration *)
Chain  == ChainSeq[cid]
D      == Len(Chain.lv)
Lv(l)  == Chain.lv[l]
Ty(l)  == Lv(l).ty
C(l, x) == CondTab[Lv(l).c][x]
Base(x) == BaseTab[Chain.b][x]
X == 1..NX

(* stored(i): 0.0 past the end of the list *)
StoredAt(l, i) == IF i < Len(ys[l]) THEN ys[l][i + 1] ELSE 0

(* the multipliers: [inf |-> BOOLEAN, v |-> Int] *)
Fin(v) == [inf |-> FALSE, v |-> v]
MInf   == [inf |-> TRUE,  v |-> 0]

(* lagrange_equality:  lam = 0; _k = k; for i in range(n): lam += 2*_k*stored(i); _k *= h *)
RECURSIVE Lam(_, _)
Lam(l, m) ==
  IF m = 0 THEN Fin(0)
  ELSE LET p == Lam(l, m - 1)
           y == StoredAt(l, m - 1)
       IN IF p.inf \/ y = INF THEN MInf
          ELSE Fin(p.v + 2 * Lv(l).k * Pow(Lv(l).h, m - 1) * y)

(* lagrange_inequality:  beta += 2*_k*max(-beta/(2*_k), stored(i)); _k *= h *)
RECURSIVE Beta(_, _)
Beta(l, m) ==
  IF m = 0 THEN Fin(0)
  ELSE LET p  == Beta(l, m - 1)
           y  == StoredAt(l, m - 1)
           k2 == 2 * Lv(l).k * Pow(Lv(l).h, m - 1)
       IN IF p.inf \/ y = INF THEN MInf                  \* max(-inf, y) = y, inf + 2ky = inf
          ELSE IF k2 * y >= -(p.v) THEN Fin(p.v + k2 * y) \* max(..) = y
          ELSE Fin(0)                                      \* clipped: beta + 2k(-beta/2k)

Mult(l) == IF Ty(l) = LGI THEN Beta(l, n[l]) ELSE IF Ty(l) = LGE THEN Lam(l, n[l]) ELSE Fin(0)

(* the documented expression of every type: what level l adds at probe x, for a defined       *)
(* condition value c; pk = k*h^n (the doc's 2k*h^n of the inequality types is written 2*pk)   *)
Added(l, x) ==
  LET L  == Lv(l)
      c  == C(l, x)
      pk == L.k * Pow(L.h, n[l])
      upk == IF L.k = INF THEN PInf ELSE IntV(pk)
      m  == Mult(l)
  IN CASE L.ty = QE  -> IntV(pk * c * c)
       [] L.ty = LE  -> IntV(pk * Abs(c))
       [] L.ty = UE  -> IF c # 0 THEN upk ELSE IntV(0)
       [] L.ty = UI  -> IF c > 0 THEN upk ELSE IntV(0)
       [] L.ty = BI  -> IF c >= 0 THEN PInf              \* violated, or -log(0)/pk on the boundary
                        ELSE NegLog(-c, 2 * pk)
       [] L.ty = QI  -> IntV(2 * pk * Max2(0, c) * Max2(0, c))
       [] L.ty = LI  -> IntV(2 * pk * Max2(0, c))
       [] L.ty = LGI -> IF m.inf THEN Add(IntV(pk * c * c), InfTimes(c))      \* mpf = max(-inf, c) = c
                        ELSE IF 2 * pk * c >= -(m.v) THEN IntV(pk * c * c + m.v * c)   \* mpf = c
                        ELSE Rat(-(m.v * m.v), 4 * pk)                      \* mpf = -beta/2pk
       [] L.ty = LGE -> IF m.inf THEN Add(IntV(pk * c * c), InfTimes(c))
                        ELSE IntV(pk * c * c + m.v * c)

(* the evaluator returns inf *without calling the decorated function* in these two cases *)
ShortCircuit(l, x) == C(l, x) = ZD \/ (Ty(l) = BI /\ C(l, x) > 0)

(* F[j](x): level j adds its penalty to what it decorates *)
RECURSIVE EvalFrom(_, _)
EvalFrom(j, x) ==
  IF j > D THEN IntV(Base(x))
  ELSE IF ShortCircuit(j, x) THEN PInf
  ELSE Add(Added(j, x), EvalFrom(j + 1, x))

(* F[j].error(x) squared: own violation^2 + (error of the decorated penalty)^2; ZD -> inf *)
Viol(l, x) == IF IsEq(Ty(l)) THEN Abs(C(l, x)) ELSE Max2(0, C(l, x))
RECURSIVE Err2From(_, _)
Err2From(j, x) ==
  IF j > D THEN 0
  ELSE IF C(j, x) = ZD THEN INF
  ELSE LET inner == Err2From(j + 1, x)
       IN IF inner = INF THEN INF ELSE Viol(j, x) * Viol(j, x) + inner

(* F[j].iter(i): own counter, then `if hasattr(_f[0],'iter'): _f[0].iter(i)` with the same i *)
RECURSIVE IterFrom(_, _, _)
IterFrom(nn, j, i) ==
  IF j > D THEN nn
  ELSE IterFrom([nn EXCEPT ![j] = IF i = None THEN nn[j] + 1 ELSE i], j + 1, i)

(* F[j].clear(): _n[0] = 0; empty _y; then the decorated penalty's clear() *)
RECURSIVE ClearFrom(_, _)
ClearFrom(s, j) ==
  IF j > D THEN s
  ELSE ClearFrom([nn |-> [s.nn EXCEPT ![j] = 0], yy |-> [s.yy EXCEPT ![j] = << >>]], j + 1)

(* F[j].store(x,i): only the Lagrange types record; they resolve i=None to their *own*          *)
(* iteration and pass the resolved index on; the other types pass i on unchanged               *)
Zeros(k) == [q \in 1..k |-> 0]
RECURSIVE StoreFrom(_, _, _, _)
StoreFrom(yy, j, x, i) ==
  IF j > D THEN yy
  ELSE IF IsLag(Ty(j))
       THEN LET y   == IF C(j, x) = ZD THEN INF ELSE C(j, x)
                ii  == IF i = None THEN n[j] ELSE i
                len == Len(yy[j])
                new == IF ii >= len THEN (yy[j] \o Zeros(ii - len)) \o <<y>>
                       ELSE [yy[j] EXCEPT ![ii + 1] = y]
            IN StoreFrom([yy EXCEPT ![j] = new], j + 1, x, ii)
       ELSE StoreFrom(yy, j + 1, x, i)

RECURSIVE SumLen(_, _)
SumLen(yy, l) == IF l > D THEN 0 ELSE Len(yy[l]) + SumLen(yy, l + 1)

-----------------------------------------------------------------------------
(* the machine *)
Init == /\ cid \in {c \in 1..Len(ChainSeq) : c % NParts = MyPart}
        /\ n  = [l \in 1..Len(ChainSeq[cid].lv) |-> 0]
        /\ ys = [l \in 1..Len(ChainSeq[cid].lv) |-> << >>]
        /\ last = [op |-> "New", j |-> 0, x |-> 0, i |-> None, ret |-> IntV(0)]

Call(op, j, x, i, ret) == [op |-> op, j |-> j, x |-> x, i |-> i, ret |-> ret]

IterOK(j, i) == i = None => \A l \in j..D : n[l] < MaxN
Iter(j, i) == /\ IterOK(j, i)
              /\ n' = IterFrom(n, j, i)
              /\ last' = Call("Iter", j, 0, i, IntV(0))
              /\ UNCHANGED <<cid, ys>>

Clear(j) == LET s == ClearFrom([nn |-> n, yy |-> ys], j)
            IN /\ n' = s.nn /\ ys' = s.yy
               /\ last' = Call("Clear", j, 0, None, IntV(0))
               /\ UNCHANGED cid

StoreOK(j, x, i) == LET yy == StoreFrom(ys, j, x, i)
                    IN (\A l \in 1..D : Len(yy[l]) <= MaxLen) /\ SumLen(yy, 1) <= Chain.ms
Store(j, x, i) == /\ StoreOK(j, x, i)
                  /\ ys' = StoreFrom(ys, j, x, i)
                  /\ last' = Call("Store", j, x, i, IntV(0))
                  /\ UNCHANGED <<cid, n>>

Eval(j, x) == /\ last' = Call("Eval", j, x, None, EvalFrom(j, x))
              /\ UNCHANGED <<cid, n, ys>>

Error(j, x) == /\ last' = Call("Error", j, x, None, IF Err2From(j, x) = INF THEN PInf ELSE IntV(Err2From(j, x)))
               /\ UNCHANGED <<cid, n, ys>>

IterAny  == \E j \in 1..D : \E i \in IterArgs \cup {None} : Iter(j, i)
ClearAny == \E j \in 1..D : Clear(j)
StoreAny == \E j \in 1..D : \E x \in X : \E i \in StoreArgs \cup {None} : Store(j, x, i)
EvalAny  == \E j \in 1..D : \E x \in X : Eval(j, x)
ErrorAny == \E j \in 1..D : \E x \in X : Error(j, x)

Next == IterAny \/ ClearAny \/ StoreAny \/ EvalAny \/ ErrorAny

Spec == Init /\ [][Next]_vars

-----------------------------------------------------------------------------
(* C15 on the design: state invariants *)

TypeOK == /\ \A l \in 1..D : n[l] \in 0..MaxN /\ Len(ys[l]) <= MaxLen
          /\ DOMAIN n = 1..D /\ DOMAIN ys = 1..D

(* only the Lagrange types ever hold multipliers *)
OnlyLagrangeStores == \A l \in 1..D : ~IsLag(Ty(l)) => ys[l] = << >>

Defined(l, x)  == C(l, x) # ZD
Feasible(l, x) == Defined(l, x) /\ (IF IsEq(Ty(l)) THEN C(l, x) = 0 ELSE C(l, x) <= 0)
Violated(l, x) == Defined(l, x) /\ ~Feasible(l, x)
NoMult(l)      == ~Mult(l).inf /\ Mult(l).v = 0

(* the types whose documented formula vanishes on the feasible set: quadratic, linear, uniform  *)
(* of both kinds, and the Lagrange types while no multiplier has been accumulated               *)
DocZero(l) == Ty(l) \in {QE, LE, UE, UI, QI, LI} \/ (IsLag(Ty(l)) /\ NoMult(l))

(* no added penalty exactly on the feasible set *)
ZeroOnFeasible ==
  \A l \in 1..D : \A x \in X : (DocZero(l) /\ Defined(l, x)) => (Feasible(l, x) <=> IsZero(Added(l, x)))

(* a strictly positive amount wherever violated (all types; lagrange_equality once it carries a *)
(* multiplier adds lam*f(x), which has the sign of lam*f(x): excluded by the documented formula)*)
PositiveWhenViolated ==
  \A l \in 1..D : \A x \in X :
     (Violated(l, x) /\ ~(Ty(l) = LGE /\ ~NoMult(l))) => IsPos(Added(l, x))

(* the inequality multiplier never goes negative, hence a feasible point is never penalised *)
BetaNonNegative == \A l \in 1..D : Ty(l) = LGI => (Mult(l).inf \/ Mult(l).v >= 0)
LagIneqFeasibleNotPenalised ==
  \A l \in 1..D : \A x \in X : (Ty(l) = LGI /\ Feasible(l, x) /\ ~Mult(l).inf) => IsNonPos(Added(l, x))

(* stacked penalties add: F[j](x) = base(x) + sum of the levels' own penalties, accumulated     *)
(* from the innermost level outwards (independent of the order of evaluation)                   *)
RECURSIVE SumUp(_, _)     \* base + the own penalties of the m innermost levels
SumUp(m, x) == IF m = 0 THEN IntV(Base(x)) ELSE Add(SumUp(m - 1, x), Added(D - m + 1, x))
StackedAdd ==
  \A j \in 1..D : \A x \in X :
     (\A l \in j..D : ~ShortCircuit(l, x)) => EvalFrom(j, x) = SumUp(D - j + 1, x)

(* a condition that divides by zero yields an infinite penalty and an infinite error *)
ZeroDivisionInfinite ==
  \A j \in 1..D : \A x \in X : C(j, x) = ZD => (EvalFrom(j, x) = PInf /\ Err2From(j, x) = INF)

(* error(x) is the violation magnitude: zero iff every condition from level j down is satisfied *)
RECURSIVE SumViol2(_, _)
SumViol2(j, x) == IF j > D THEN 0 ELSE Viol(j, x) * Viol(j, x) + SumViol2(j + 1, x)
ErrorIsViolation ==
  \A j \in 1..D : \A x \in X :
     IF \E l \in j..D : ~Defined(l, x) THEN Err2From(j, x) = INF
     ELSE /\ Err2From(j, x) = SumViol2(j, x)
          /\ (Err2From(j, x) = 0 <=> \A l \in j..D : Feasible(l, x))

-----------------------------------------------------------------------------
(* C15 on the design: action properties (last' names the call that made the step) *)

(* clear() resets iteration and multipliers from the addressed level down, nothing else *)
ClearResets ==
  [][last'.op = "Clear" =>
       /\ cid' = cid
       /\ \A l \in 1..D : l >= last'.j => (n'[l] = 0 /\ ys'[l] = << >>)
       /\ \A l \in 1..D : l <  last'.j => (n'[l] = n[l] /\ ys'[l] = ys[l])]_vars

(* iter() advances / iter(i) sets, from the addressed level down, nothing else *)
IterAdvances ==
  [][last'.op = "Iter" =>
       /\ cid' = cid /\ ys' = ys
       /\ \A l \in 1..D : l >= last'.j => n'[l] = (IF last'.i = None THEN n[l] + 1 ELSE last'.i)
       /\ \A l \in 1..D : l <  last'.j => n'[l] = n[l]]_vars

(* store(x,i) writes the condition value of every Lagrange level from the addressed level down  *)
(* at one common index (i, or the iteration of the first such level), zero-filling gaps         *)
StoreFootprint ==
  [][last'.op = "Store" =>
       LET j  == last'.j
           LL == {l \in j..D : IsLag(Ty(l))}
       IN /\ cid' = cid /\ n' = n
          /\ \A l \in (1..D) \ LL : ys'[l] = ys[l]
          /\ LL # {} =>
               LET first == CHOOSE l \in LL : \A m \in LL : l <= m
                   idx   == IF last'.i = None THEN n[first] ELSE last'.i
               IN \A l \in LL :
                    /\ Len(ys'[l]) = Max2(Len(ys[l]), idx + 1)
                    /\ ys'[l][idx + 1] = (IF C(l, last'.x) = ZD THEN INF ELSE C(l, last'.x))
                    /\ \A q \in 1..Len(ys'[l]) : q # idx + 1 =>
                          ys'[l][q] = (IF q <= Len(ys[l]) THEN ys[l][q] ELSE 0)]_vars

(* evaluating the penalised function or its error changes no state *)
ObserversPure == [][last'.op \in {"Eval", "Error"} => UNCHANGED <<cid, n, ys>>]_vars

-----------------------------------------------------------------------------
(* emission for the replay (spec -> code): the catalogue once, then every reachable state with  *)
(* everything observable in it and every state-changing call enabled in it with its post-state  *)
TCode(v) == CASE v.t = "fin" -> 0 [] v.t = "inf" -> 1 [] v.t = "ninf" -> 2 [] v.t = "nan" -> 3
VT(v) == <<TCode(v), v.n, v.d, v.lg>>

Obs == [l \in 1..D |->
          [it |-> n[l], st |-> ys[l],
           sti |-> [i \in 1..(MaxLen + 1) |-> StoredAt(l, i - 1)],
           ev |-> [x \in X |-> VT(EvalFrom(l, x))],
           er |-> [x \in X |-> Err2From(l, x)]]]

Succ ==
       {<<"I", j, 0, i, IterFrom(n, j, i), ys>> : j \in 1..D, i \in IterArgs \cup {None}}
  \cup {<<"C", j, 0, None, ClearFrom([nn |-> n, yy |-> ys], j).nn, ClearFrom([nn |-> n, yy |-> ys], j).yy>> : j \in 1..D}
  \cup {<<"S", jx[1], jx[2], i, n, StoreFrom(ys, jx[1], jx[2], i)>> : jx \in (1..D) \X X, i \in StoreArgs \cup {None}}

SuccEnabled == {s \in Succ : CASE s[1] = "I" -> IterOK(s[2], s[4])
                               [] s[1] = "S" -> StoreOK(s[2], s[3], s[4])
                               [] OTHER -> TRUE}

ASSUME PrintT(<<"@@", ToJson([catalogue |-> ChainSeq, types |-> TypeName, cond |-> CondTab, base |-> BaseTab,
                               nparts |-> NParts, part |-> MyPart, inf |-> INF, zd |-> ZD, none |-> None,
                               maxlen |-> MaxLen])>>)

Emit == PrintT(<<"@@", ToJson([c |-> cid, n |-> n, ys |-> ys, obs |-> Obs, succ |-> SuccEnabled])>>)
=============================================================================
