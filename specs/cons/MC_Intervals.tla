---------------------------- MODULE MC_Intervals ----------------------------
(* Bounded instances of Intervals.  Half units: 2 is the integer 1.          *)
EXTENDS Intervals

Seq1(E) == {<< <<a, b>> >> : a \in (E \cup {-INF}), b \in (E \cup {INF})}
One(E) == {B \in Seq1(E) : B[1][1] < B[1][2]}
Two(E) == {<< <<a, b>>, <<c, d>> >> : a \in (E \cup {-INF}), b \in E, c \in E, d \in (E \cup {INF})}
Two2(E) == {B \in Two(E) : B[1][1] < B[1][2] /\ B[1][2] <= B[2][1] /\ B[2][1] < B[2][2]}
Three(E) == {<< <<a, b>>, <<c, d>>, <<e, f>> >> : a \in (E \cup {-INF}), b \in E, c \in E, d \in E, e \in E, f \in (E \cup {INF})}
Three2(E) == {B \in Three(E) : B[1][1] < B[1][2] /\ B[1][2] <= B[2][1] /\ B[2][1] < B[2][2] /\ B[2][2] <= B[3][1] /\ B[3][1] < B[3][2]}

WinLo == -4
(* quick: the integers 0..3; every list of one or two intervals (50 lists), one operation *)
QEnds == {0, 2, 4, 6}
QLists == One(QEnds) \cup Two2(QEnds)
QInv == {<<NONE, NONE>>, <<-INF, INF>>, <<-2, 8>>, <<NONE, 8>>, <<-INF, NONE>>, <<-2, NONE>>}
(* chains of two (thorough: three) operations over a few lists: overlapping, nested, touching, gapped, unbounded *)
CLists == {<< <<0, 4>> >>, << <<2, 6>> >>, << <<0, 2>>, <<4, 6>> >>, << <<2, 4>> >>, << <<-INF, 2>> >>, << <<4, INF>> >>,
           << <<0, 2>>, <<2, 6>> >>, << <<0, 6>> >>}
CInv == {<<NONE, NONE>>, <<-INF, INF>>, <<-2, 8>>}
(* thorough: the integers 0..4, up to three intervals *)
TEnds == {0, 2, 4, 6, 8}
TLists == One(TEnds) \cup Two2(TEnds) \cup Three2(TEnds)
TInv == {<<NONE, NONE>>, <<-INF, INF>>, <<-2, 10>>, <<NONE, 10>>, <<-INF, NONE>>, <<-2, NONE>>, <<NONE, INF>>}
=============================================================================
