SPECIFICATION StartOnly
CONSTANTS
  S = 2
  Vals <- EVals
  Lens <- ELensT
  Decs <- EDecs
  MaxHist = 0
INVARIANT ThmAll
INVARIANT ThmScale
INVARIANT Emit
