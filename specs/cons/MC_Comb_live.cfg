SPECIFICATION Spec
CONSTANTS
  D <- D2
  Members <- All2
  Ns = {1, 2, 3}
  MaxIters = {0, 1, 2, 3}
  Kinds = {"and", "or", "not"}
  Rules = {"asis", "fixed"}
  Starts <- D2
INVARIANT OnePath
INVARIANT Bounded
PROPERTY Progress
PROPERTY Terminates
