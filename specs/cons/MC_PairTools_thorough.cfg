SPECIFICATION Spec
CONSTANTS
  Vals = {0, 1, 2, 5}
  Vals2 = {0, 1, 2}
  MaxLen = 2
  MaxOps = 2
INVARIANT ThmAllEmit
