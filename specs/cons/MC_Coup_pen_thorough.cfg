SPECIFICATION Spec
CONSTANTS
  M = 3
  Fam = "pen"
  PMax = 2
  NPen = {0, 1, 2, 3}
  GVals <- G1
  KS = {1, 2, 3}
INVARIANT AndZeroIffAll
INVARIANT OrZeroIffAny
INVARIANT AndIsSum
INVARIANT OrIsMin
INVARIANT OrLeAnd
INVARIANT Homogeneous
INVARIANT LinearInK
INVARIANT AndZeroAtIter
INVARIANT Emit
