------------------------------- MODULE Couplers -------------------------------
(***************************************************************************)
(* mystic.coupler as algebra on small integer tables (C17, second half).   *)
(*                                                                         *)
(* Points are X == 0..M-1.  A function of the library is a table over X;   *)
(* a function called with one extra argument a is the table read at        *)
(* (x + a) % M  (that is how the harness's table-driven callables treat    *)
(* the extra argument), so that the ROUTING of decorator arguments (args=) *)
(* versus call arguments is observable:                                    *)
(*   inner(c,args=(d,))(f)(x,e)        = f(c(x,d), e)                      *)
(*   inner_proxy(c,args=(d,))(f)(x,e)  = f(c(x,e), d)                      *)
(*   outer(c,args=(d,))(f)(x,e)        = c(f(x,e), d)                      *)
(*   outer_proxy(c,args=(d,))(f)(x,e)  = c(f(x,d), e)                      *)
(*   additive(p,args=(d,))(f)(x,e)     = f(x,e) + p(x,d)                   *)
(*   additive_proxy(p,args=(d,))(f)(x,e) = f(x,d) + p(x,e)                 *)
(* Penalty combinators (iteration 0 of the penalty, so pk = k):            *)
(*   and_(p1..pn, ptype, k)(x) = PT(ptype, k, p1(x)+..+pn(x))              *)
(*   or_(p1..pn, ptype, k)(x)  = PT(ptype, k, min(p1(x),..,pn(x)))         *)
(*   not_(p, k)(x) with p a penalty of type t over condition g:            *)
(*       t an inequality type:  PT(t, k, 0 - g(x))                         *)
(*       t an equality type:    PT(t, k, IF g(x) = 0 THEN 1 ELSE 0)        *)
(*   where PT is the documented formula of the penalty type.               *)
(* One state = one case (a choice of tables); there are no transitions.    *)
(* TLC checks the laws below on every case and emits the case with the     *)
(* expected tables; harness/check_C17.py replays them on the real code.    *)
(***************************************************************************)
EXTENDS Integers, Sequences, FiniteSets, TLC, Json

CONSTANTS M,        \* number of points
          Fam,      \* family of cases: "couple" | "nest" | "pen" | "notpen"
          PMax,     \* member penalties take values 0..PMax (penalties are non-negative)
          NPen,     \* numbers of member penalties
          GVals,    \* values of the condition g under not_
          KS        \* penalty multipliers k

X == 0..(M - 1)
Tables == [X -> X]
Arg(T, x, a) == T[(x + a) % M]
Seq1(f) == [p \in 1..M |-> f[p - 1]]            \* a table as a JSON array
A2 == {0, 1}                                    \* values of the extra arguments

PTypes == <<"linear_equality", "quadratic_equality", "uniform_equality",
            "linear_inequality", "quadratic_inequality", "uniform_inequality">>
IsIneq(t) == t \in {"linear_inequality", "quadratic_inequality", "uniform_inequality"}
Abs(v) == IF v < 0 THEN -v ELSE v
Pos(v) == IF v > 0 THEN v ELSE 0
PT(t, k, v) ==
  CASE t = "linear_equality"      -> k * Abs(v)
    [] t = "quadratic_equality"   -> k * v * v
    [] t = "uniform_equality"     -> IF v # 0 THEN k ELSE 0
    [] t = "linear_inequality"    -> 2 * k * Pos(v)
    [] t = "quadratic_inequality" -> 2 * k * Pos(v) * Pos(v)
    [] t = "uniform_inequality"   -> IF v > 0 THEN k ELSE 0

RECURSIVE SumTo(_, _, _)
SumTo(ps, x, m) == IF m = 0 THEN 0 ELSE ps[m][x] + SumTo(ps, x, m - 1)
RECURSIVE MinTo(_, _, _)
MinTo(ps, x, m) == IF m = 1 THEN ps[1][x]
                   ELSE LET r == MinTo(ps, x, m - 1) IN IF ps[m][x] < r THEN ps[m][x] ELSE r
RECURSIVE SeqsOf(_, _)
SeqsOf(S, m) == IF m = 0 THEN {<< >>} ELSE {Append(q, e) : q \in SeqsOf(S, m - 1), e \in S}

-----------------------------------------------------------------------------
VARIABLE c
Cases ==
  CASE Fam = "couple" -> [cf : Tables, ff : Tables]
    [] Fam = "nest"   -> [c1 : Tables, c2 : Tables, ff : Tables]
    [] Fam = "pen"    -> {[ps |-> q] : q \in UNION {SeqsOf([X -> 0..PMax], m) : m \in NPen}}
    [] Fam = "notpen" -> [g : [X -> GVals], t : {PTypes[j] : j \in 1..6} \cup {"raw"}, mk : KS]
Init == c \in Cases
Next == UNCHANGED c
Spec == Init /\ [][Next]_c

-----------------------------------------------------------------------------
(* the couplers *)
Inner(C, F, d, e)     == [x \in X |-> Arg(F, Arg(C, x, d), e)]
InnerP(C, F, d, e)    == [x \in X |-> Arg(F, Arg(C, x, e), d)]
Outer(C, F, d, e)     == [x \in X |-> Arg(C, Arg(F, x, e), d)]
OuterP(C, F, d, e)    == [x \in X |-> Arg(C, Arg(F, x, d), e)]
Additive(P, F, d, e)  == [x \in X |-> Arg(F, x, e) + Arg(P, x, d)]
AdditiveP(P, F, d, e) == [x \in X |-> Arg(F, x, d) + Arg(P, x, e)]
Id == [x \in X |-> x]
Zero == [x \in X |-> 0]

(* laws (Fam = "couple") *)
Duality     == Fam = "couple" => Inner(c.cf, c.ff, 0, 0) = Outer(c.ff, c.cf, 0, 0)   \* f(c(x)) both ways
IdNeutral   == Fam = "couple" => /\ Inner(Id, c.ff, 0, 0) = c.ff /\ Outer(Id, c.ff, 0, 0) = c.ff
                                  /\ Additive(Zero, c.ff, 0, 0) = c.ff
ProxySame   == Fam = "couple" => /\ InnerP(c.cf, c.ff, 0, 0) = Inner(c.cf, c.ff, 0, 0)
                                  /\ OuterP(c.cf, c.ff, 0, 0) = Outer(c.cf, c.ff, 0, 0)
                                  /\ AdditiveP(c.cf, c.ff, 0, 0) = Additive(c.cf, c.ff, 0, 0)
AddCommutes == Fam = "couple" => Additive(c.cf, c.ff, 0, 0) = Additive(c.ff, c.cf, 0, 0)
(* vacuity companion, TLC must violate it: the order of composition matters *)
OrderIrrelevant == Fam = "couple" => Inner(c.cf, c.ff, 0, 0) = Outer(c.cf, c.ff, 0, 0)

(* nesting (Fam = "nest"): decorators compose inside-out *)
II == [x \in X |-> c.ff[c.c2[c.c1[x]]]]      \* inner(c1)(inner(c2)(f))
OO == [x \in X |-> c.c1[c.c2[c.ff[x]]]]      \* outer(c1)(outer(c2)(f))
IO == [x \in X |-> c.c2[c.ff[c.c1[x]]]]      \* inner(c1)(outer(c2)(f))
OI == [x \in X |-> c.c1[c.ff[c.c2[x]]]]      \* outer(c1)(inner(c2)(f))
AA == [x \in X |-> c.ff[x] + c.c2[x] + c.c1[x]]   \* additive(c1)(additive(c2)(f))
NestAssoc == Fam = "nest" =>
   /\ II = Inner(c.c1, Inner(c.c2, c.ff, 0, 0), 0, 0)
   /\ OO = Outer(c.c1, Outer(c.c2, c.ff, 0, 0), 0, 0)
   /\ IO = Inner(c.c1, Outer(c.c2, c.ff, 0, 0), 0, 0)
   /\ OI = Outer(c.c1, Inner(c.c2, c.ff, 0, 0), 0, 0)
   /\ II = Inner([x \in X |-> c.c2[c.c1[x]]], c.ff, 0, 0)      \* = inner(c2 o c1)(f)
   /\ OO = Outer([x \in X |-> c.c1[c.c2[x]]], c.ff, 0, 0)      \* = outer(c1 o c2)(f)

(* the penalty combinators (Fam = "pen") *)
NP == Len(c.ps)
AndPen(t, k) == [x \in X |-> PT(t, k, SumTo(c.ps, x, NP))]
OrPen(t, k)  == [x \in X |-> PT(t, k, MinTo(c.ps, x, NP))]
AndZeroIffAll == Fam = "pen" => \A j \in 1..6, k \in KS, x \in X :
                   (AndPen(PTypes[j], k)[x] = 0) <=> (\A i \in 1..NP : c.ps[i][x] = 0)
OrZeroIffAny  == Fam = "pen" => \A j \in 1..6, k \in KS, x \in X :
                   (OrPen(PTypes[j], k)[x] = 0) <=> (\E i \in 1..NP : c.ps[i][x] = 0)
AndIsSum      == Fam = "pen" => \A x \in X : AndPen("linear_equality", 1)[x] = SumTo(c.ps, x, NP)
OrIsMin       == Fam = "pen" => \A x \in X : \E i \in 1..NP :
                   /\ OrPen("linear_equality", 1)[x] = c.ps[i][x]
                   /\ \A i2 \in 1..NP : c.ps[i][x] <= c.ps[i2][x]
OrLeAnd       == Fam = "pen" => \A x \in X : OrPen("linear_equality", 1)[x] <= AndPen("linear_equality", 1)[x]

(* not_ (Fam = "notpen"): the member is a penalty of type c.t with multiplier c.mk over the
   condition table c.g ("raw": a bare condition function, treated by not_ as linear_equality) *)
MType == IF c.t = "raw" THEN "linear_equality" ELSE c.t
MemberPen == [x \in X |-> PT(MType, c.mk, c.g[x])]
NotCond(x) == IF IsIneq(MType) THEN 0 - c.g[x] ELSE (IF c.g[x] = 0 THEN 1 ELSE 0)
NotPen(k) == [x \in X |-> PT(MType, k, NotCond(x))]
(* the member accepts x iff its condition is satisfied; the interior of that region is where an
   inequality holds strictly (an equality region has no boundary to remove) *)
Accepts(x)  == IF IsIneq(MType) THEN c.g[x] <= 0 ELSE c.g[x] = 0
Interior(x) == IF IsIneq(MType) THEN c.g[x] < 0 ELSE c.g[x] = 0
NotPenalisesInterior == Fam = "notpen" => \A k \in KS, x \in X : (NotPen(k)[x] > 0) <=> Interior(x)
NotNeverBoth == Fam = "notpen" => \A k \in KS, x \in X : ~(NotPen(k)[x] > 0 /\ MemberPen[x] > 0)
MemberZeroIffAccepts == Fam = "notpen" => \A x \in X : (MemberPen[x] = 0) <=> Accepts(x)

-----------------------------------------------------------------------------
(* emission: one line per case with everything the specification says about it *)
ByArgs(Op(_, _)) == [d \in 1..2 |-> [e \in 1..2 |-> Seq1(Op(d - 1, e - 1))]]   \* [d][e] -> table
Emit ==
  CASE Fam = "couple" ->
         LET OpI(d, e) == Inner(c.cf, c.ff, d, e)    OpIP(d, e) == InnerP(c.cf, c.ff, d, e)
             OpO(d, e) == Outer(c.cf, c.ff, d, e)    OpOP(d, e) == OuterP(c.cf, c.ff, d, e)
             OpA(d, e) == Additive(c.cf, c.ff, d, e) OpAP(d, e) == AdditiveP(c.cf, c.ff, d, e)
         IN PrintT(<<"@@", ToJson([fam |-> Fam, cf |-> Seq1(c.cf), ff |-> Seq1(c.ff),
                     inner |-> ByArgs(OpI), inner_proxy |-> ByArgs(OpIP),
                     outer |-> ByArgs(OpO), outer_proxy |-> ByArgs(OpOP),
                     additive |-> ByArgs(OpA), additive_proxy |-> ByArgs(OpAP)])>>)
    [] Fam = "nest" ->
         PrintT(<<"@@", ToJson([fam |-> Fam, c1 |-> Seq1(c.c1), c2 |-> Seq1(c.c2), ff |-> Seq1(c.ff),
                     ii |-> Seq1(II), oo |-> Seq1(OO), io |-> Seq1(IO), oi |-> Seq1(OI), aa |-> Seq1(AA)])>>)
    [] Fam = "pen" ->
         PrintT(<<"@@", ToJson([fam |-> Fam, ps |-> [i \in 1..NP |-> Seq1(c.ps[i])],
                     and |-> [j \in 1..6 |-> [k \in KS |-> Seq1(AndPen(PTypes[j], k))]],
                     or  |-> [j \in 1..6 |-> [k \in KS |-> Seq1(OrPen(PTypes[j], k))]]])>>)
    [] Fam = "notpen" ->
         PrintT(<<"@@", ToJson([fam |-> Fam, g |-> Seq1(c.g), t |-> c.t, mk |-> c.mk,
                     member |-> Seq1(MemberPen),
                     nt |-> [k \in KS |-> Seq1(NotPen(k))],
                     interior |-> {x \in X : Interior(x)}])>>)
=============================================================================
