------------------------------- MODULE Couplers -------------------------------
(***************************************************************************)
(* mystic.coupler as algebra on small integer tables (C17, second half).   *)
(*                                                                         *)
(* Points are X == 0..M-1.  A function of the library is a table over X;   *)
(* a function called with one extra argument a is the table read at        *)
(* (x + a) % M  (that is how the harness's table-driven callables treat    *)
(* the extra argument), so that the ROUTING of decorator arguments (args=) *)
(* versus call arguments is observable:                                    *)
(*   inner(c,args=(d,))(f)(x,e)        = f(c(x,d), e)                      *)
(*   inner_proxy(c,args=(d,))(f)(x,e)  = f(c(x,e), d)                      *)
(*   outer(c,args=(d,))(f)(x,e)        = c(f(x,e), d)                      *)
(*   outer_proxy(c,args=(d,))(f)(x,e)  = c(f(x,d), e)                      *)
(*   additive(p,args=(d,))(f)(x,e)     = f(x,e) + p(x,d)                   *)
(*   additive_proxy(p,args=(d,))(f)(x,e) = f(x,d) + p(x,e)                 *)
(* Penalty combinators (iteration 0 of the penalty, so pk = k):            *)
(*   and_(p1..pn, ptype, k)(x) = PT(ptype, k, p1(x)+..+pn(x))              *)
(*   or_(p1..pn, ptype, k)(x)  = PT(ptype, k, min(p1(x),..,pn(x)))         *)
(*   not_(p, k)(x) with p a penalty of type t over condition g:            *)
(*       t an inequality type:  PT(t, k, 0 - g(x))                         *)
(*       t an equality type:    PT(t, k, IF g(x) = 0 THEN 1 ELSE 0)        *)
(*   where PT is the documented formula of the penalty type.               *)
(* Omitted coupler function (the documented defaults: identity / 0.0):     *)
(*   inner()(f)(x,e) = outer()(f)(x,e) = f(x,e),  additive()(f)(x,e) =     *)
(*   f(x,e) + 0;  the proxies hand their own args to f: *_proxy(args=(d,)) *)
(*   (f)(x) = f(x,d).  A call argument may be written positionally or as   *)
(*   the keyword a=e, a decorator argument as args=(d,) or kwds={'a': d}:  *)
(*   the specification does not distinguish the spellings.                 *)
(* Fam = "addv": additive on cost / penalty tables over the value          *)
(*   catalogue AVals (negative, zero, positive) in a unit 2^u, u in Units  *)
(*   (tiny, denormal, huge): the concrete value of table entry v is        *)
(*   v * 2^u; sums are stated in units (exact in binary floating point).   *)
(* Penalty combinators beyond iteration 0 and beyond k in KS:              *)
(*   KHN = triples <<k,h,n>>: after n calls of iter() the multiplier is    *)
(*   pk = k*h^n;  k=None leaves the multiplier to the penalty type:        *)
(*   DefK(t) = 100 (linear, quadratic types) resp. infinite (uniform).     *)
(*   Deg(t) is the degree of homogeneity of PT(t,k,.), so that member      *)
(*   penalties / conditions given in a unit 2^u yield PT * 2^(u*Deg(t)).   *)
(*   NPen may contain 0: and_() of no penalty is PT(t,k,0) = 0 everywhere; *)
(*   or_() of no penalty is not defined (min of nothing).                  *)
(* One state = one case (a choice of tables); there are no transitions.    *)
(* TLC checks the laws below on every case and emits the case with the     *)
(* expected tables; harness/check_C17.py replays them on the real code.    *)
(***************************************************************************)
EXTENDS Integers, Sequences, FiniteSets, TLC, Json

CONSTANTS M,        \* number of points
          Fam,      \* family of cases: "couple" | "nest" | "pen" | "notpen" | "addv"
          PMax,     \* member penalties take values 0..PMax (penalties are non-negative)
          NPen,     \* numbers of member penalties
          GVals,    \* values of the condition g under not_
          KS        \* penalty multipliers k

(* catalogues with defaults (a cfg may override them with `<-`) *)
AVals == {-2, -1, 0, 1, 3}                 \* "addv": table values in units
Units == {0, -30, -1074, 33, 1000}         \* "addv": binary exponents u of the unit 2^u
KHN   == {<<1, 2, 1>>, <<2, 5, 2>>, <<3, 1, 2>>, <<1, 0, 1>>, <<2, 3, 0>>, <<12, 2, 3>>}   \* <<k, h, n>>
INFK  == 1000000                           \* sentinel: an infinite multiplier / penalty

X == 0..(M - 1)
Tables == [X -> X]
Arg(T, x, a) == T[(x + a) % M]
Seq1(f) == [p \in 1..M |-> f[p - 1]]            \* a table as a JSON array
A2 == {0, 1}                                    \* values of the extra arguments

PTypes == <<"linear_equality", "quadratic_equality", "uniform_equality",
            "linear_inequality", "quadratic_inequality", "uniform_inequality">>
IsIneq(t) == t \in {"linear_inequality", "quadratic_inequality", "uniform_inequality"}
Abs(v) == IF v < 0 THEN -v ELSE v
Pos(v) == IF v > 0 THEN v ELSE 0
PT(t, k, v) ==
  CASE t = "linear_equality"      -> k * Abs(v)
    [] t = "quadratic_equality"   -> k * v * v
    [] t = "uniform_equality"     -> IF v # 0 THEN k ELSE 0
    [] t = "linear_inequality"    -> 2 * k * Pos(v)
    [] t = "quadratic_inequality" -> 2 * k * Pos(v) * Pos(v)
    [] t = "uniform_inequality"   -> IF v > 0 THEN k ELSE 0

IsUniform(t) == t \in {"uniform_equality", "uniform_inequality"}
DefK(t) == IF IsUniform(t) THEN INFK ELSE 100                  \* the types' own default k (k=None)
Deg(t) == CASE t \in {"linear_equality", "linear_inequality"} -> 1
            [] t \in {"quadratic_equality", "quadratic_inequality"} -> 2
            [] OTHER -> 0
RECURSIVE IPow(_, _)
IPow(b, e) == IF e = 0 THEN 1 ELSE b * IPow(b, e - 1)           \* pow(0, 0) = 1 as in python

RECURSIVE SumTo(_, _, _)
SumTo(ps, x, m) == IF m = 0 THEN 0 ELSE ps[m][x] + SumTo(ps, x, m - 1)
RECURSIVE MinTo(_, _, _)
MinTo(ps, x, m) == IF m = 1 THEN ps[1][x]
                   ELSE LET r == MinTo(ps, x, m - 1) IN IF ps[m][x] < r THEN ps[m][x] ELSE r
RECURSIVE SeqsOf(_, _)
SeqsOf(S, m) == IF m = 0 THEN {<< >>} ELSE {Append(q, e) : q \in SeqsOf(S, m - 1), e \in S}

-----------------------------------------------------------------------------
VARIABLE c
Cases ==
  CASE Fam = "couple" -> [cf : Tables, ff : Tables]
    [] Fam = "nest"   -> [c1 : Tables, c2 : Tables, ff : Tables]
    [] Fam = "pen"    -> {[ps |-> q] : q \in UNION {SeqsOf([X -> 0..PMax], m) : m \in NPen}}
    [] Fam = "notpen" -> [g : [X -> GVals], t : {PTypes[j] : j \in 1..6} \cup {"raw"}, mk : KS]
    [] Fam = "addv"   -> [pf : [X -> AVals], ff : [X -> AVals], u : Units]
Init == c \in Cases
Next == UNCHANGED c
Spec == Init /\ [][Next]_c

-----------------------------------------------------------------------------
(* the couplers *)
Inner(C, F, d, e)     == [x \in X |-> Arg(F, Arg(C, x, d), e)]
InnerP(C, F, d, e)    == [x \in X |-> Arg(F, Arg(C, x, e), d)]
Outer(C, F, d, e)     == [x \in X |-> Arg(C, Arg(F, x, e), d)]
OuterP(C, F, d, e)    == [x \in X |-> Arg(C, Arg(F, x, d), e)]
Additive(P, F, d, e)  == [x \in X |-> Arg(F, x, e) + Arg(P, x, d)]
AdditiveP(P, F, d, e) == [x \in X |-> Arg(F, x, d) + Arg(P, x, e)]
Id == [x \in X |-> x]
Zero == [x \in X |-> 0]

(* laws (Fam = "couple") *)
Duality     == Fam = "couple" => Inner(c.cf, c.ff, 0, 0) = Outer(c.ff, c.cf, 0, 0)   \* f(c(x)) both ways
IdNeutral   == Fam = "couple" => /\ Inner(Id, c.ff, 0, 0) = c.ff /\ Outer(Id, c.ff, 0, 0) = c.ff
                                  /\ Additive(Zero, c.ff, 0, 0) = c.ff
ProxySame   == Fam = "couple" => /\ InnerP(c.cf, c.ff, 0, 0) = Inner(c.cf, c.ff, 0, 0)
                                  /\ OuterP(c.cf, c.ff, 0, 0) = Outer(c.cf, c.ff, 0, 0)
                                  /\ AdditiveP(c.cf, c.ff, 0, 0) = Additive(c.cf, c.ff, 0, 0)
AddCommutes == Fam = "couple" => Additive(c.cf, c.ff, 0, 0) = Additive(c.ff, c.cf, 0, 0)
(* vacuity companion, TLC must violate it: the order of composition matters *)
OrderIrrelevant == Fam = "couple" => Inner(c.cf, c.ff, 0, 0) = Outer(c.cf, c.ff, 0, 0)

(* the coupler function omitted: identity resp. zero; F is then simply read with the argument it gets *)
Dflt(F, e) == [x \in X |-> Arg(F, x, e)]
DefaultsNeutral == Fam = "couple" => \A e \in A2 : /\ Dflt(c.ff, e) = Inner(Id, c.ff, 0, e) /\ Dflt(c.ff, e) = Outer(Id, c.ff, 0, e)
                                                  /\ Dflt(c.ff, e) = Additive(Zero, c.ff, 0, e)
                                                  /\ Dflt(c.ff, e) = InnerP(Id, c.ff, e, 0) /\ Dflt(c.ff, e) = OuterP(Id, c.ff, e, 0)
                                                  /\ Dflt(c.ff, e) = AdditiveP(Zero, c.ff, e, 0)

(* additive over the value catalogue (Fam = "addv"), in units of 2^c.u *)
AddV(d, e)  == [x \in X |-> Arg(c.ff, x, e) + Arg(c.pf, x, d)]
AddVP(d, e) == [x \in X |-> Arg(c.ff, x, d) + Arg(c.pf, x, e)]
AddvZero   == (Fam = "addv" /\ c.pf = Zero) => AddV(0, 0) = c.ff /\ AddVP(0, 0) = c.ff
AddvCancel == (Fam = "addv" /\ \A x \in X : c.pf[x] = 0 - c.ff[x]) => AddV(0, 0) = Zero
AddvSym    == Fam = "addv" => \A x \in X : AddV(0, 0)[x] - c.pf[x] = c.ff[x]

(* nesting (Fam = "nest"): decorators compose inside-out *)
II == [x \in X |-> c.ff[c.c2[c.c1[x]]]]      \* inner(c1)(inner(c2)(f))
OO == [x \in X |-> c.c1[c.c2[c.ff[x]]]]      \* outer(c1)(outer(c2)(f))
IO == [x \in X |-> c.c2[c.ff[c.c1[x]]]]      \* inner(c1)(outer(c2)(f))
OI == [x \in X |-> c.c1[c.ff[c.c2[x]]]]      \* outer(c1)(inner(c2)(f))
AA == [x \in X |-> c.ff[x] + c.c2[x] + c.c1[x]]   \* additive(c1)(additive(c2)(f))
NestAssoc == Fam = "nest" =>
   /\ II = Inner(c.c1, Inner(c.c2, c.ff, 0, 0), 0, 0)
   /\ OO = Outer(c.c1, Outer(c.c2, c.ff, 0, 0), 0, 0)
   /\ IO = Inner(c.c1, Outer(c.c2, c.ff, 0, 0), 0, 0)
   /\ OI = Outer(c.c1, Inner(c.c2, c.ff, 0, 0), 0, 0)
   /\ II = Inner([x \in X |-> c.c2[c.c1[x]]], c.ff, 0, 0)      \* = inner(c2 o c1)(f)
   /\ OO = Outer([x \in X |-> c.c1[c.c2[x]]], c.ff, 0, 0)      \* = outer(c1 o c2)(f)

(* the penalty combinators (Fam = "pen") *)
NP == Len(c.ps)
AndPen(t, k) == [x \in X |-> PT(t, k, SumTo(c.ps, x, NP))]
OrPen(t, k)  == [x \in X |-> PT(t, k, MinTo(c.ps, x, NP))]           \* NP > 0 only
AndZeroIffAll == Fam = "pen" => \A j \in 1..6, k \in KS, x \in X :
                   (AndPen(PTypes[j], k)[x] = 0) <=> (\A i \in 1..NP : c.ps[i][x] = 0)
OrZeroIffAny  == (Fam = "pen" /\ NP > 0) => \A j \in 1..6, k \in KS, x \in X :
                   (OrPen(PTypes[j], k)[x] = 0) <=> (\E i \in 1..NP : c.ps[i][x] = 0)
AndIsSum      == Fam = "pen" => \A x \in X : AndPen("linear_equality", 1)[x] = SumTo(c.ps, x, NP)
OrIsMin       == (Fam = "pen" /\ NP > 0) => \A x \in X : \E i \in 1..NP :
                   /\ OrPen("linear_equality", 1)[x] = c.ps[i][x]
                   /\ \A i2 \in 1..NP : c.ps[i][x] <= c.ps[i2][x]
OrLeAnd       == (Fam = "pen" /\ NP > 0) => \A x \in X : OrPen("linear_equality", 1)[x] <= AndPen("linear_equality", 1)[x]
(* PT(t,k,.) is homogeneous of degree Deg(t) on the non-negative values the combinators feed it, and linear in k:
   that is what lets the harness replay a case with member penalties given in a unit 2^u and at iteration n *)
Homogeneous   == Fam \in {"pen", "notpen"} => \A j \in 1..6, k \in KS, v \in 0..3, u \in 1..3 :
                   PT(PTypes[j], k, u * v) = IPow(u, Deg(PTypes[j])) * PT(PTypes[j], k, v)
LinearInK     == Fam \in {"pen", "notpen"} => \A j \in 1..6, k \in KS, v \in 0..3, q \in 0..3 :
                   PT(PTypes[j], q * k, v) = q * PT(PTypes[j], k, v)
(* the zero set does not move with the iteration as long as the multiplier stays positive *)
AndZeroAtIter == Fam = "pen" => \A j \in 1..6, q \in KHN, x \in X : (q[1] * IPow(q[2], q[3]) > 0) =>
                   ((AndPen(PTypes[j], q[1] * IPow(q[2], q[3]))[x] = 0) <=> (\A i \in 1..NP : c.ps[i][x] = 0))

(* not_ (Fam = "notpen"): the member is a penalty of type c.t with multiplier c.mk over the
   condition table c.g ("raw": a bare condition function, treated by not_ as linear_equality) *)
MType == IF c.t = "raw" THEN "linear_equality" ELSE c.t
MemberPen == [x \in X |-> PT(MType, c.mk, c.g[x])]
NotCond(x) == IF IsIneq(MType) THEN 0 - c.g[x] ELSE (IF c.g[x] = 0 THEN 1 ELSE 0)
NotPen(k) == [x \in X |-> PT(MType, k, NotCond(x))]
(* the member accepts x iff its condition is satisfied; the interior of that region is where an
   inequality holds strictly (an equality region has no boundary to remove) *)
Accepts(x)  == IF IsIneq(MType) THEN c.g[x] <= 0 ELSE c.g[x] = 0
Interior(x) == IF IsIneq(MType) THEN c.g[x] < 0 ELSE c.g[x] = 0
NotDeg == IF IsIneq(MType) THEN Deg(MType) ELSE 0      \* `not g(x)` is a truth value: it does not scale with the unit of g
NotPenalisesInterior == Fam = "notpen" => \A k \in KS, x \in X : (NotPen(k)[x] > 0) <=> Interior(x)
NotNeverBoth == Fam = "notpen" => \A k \in KS, x \in X : ~(NotPen(k)[x] > 0 /\ MemberPen[x] > 0)
MemberZeroIffAccepts == Fam = "notpen" => \A x \in X : (MemberPen[x] = 0) <=> Accepts(x)

-----------------------------------------------------------------------------
(* emission: one line per case with everything the specification says about it *)
ByArgs(Op(_, _)) == [d \in 1..2 |-> [e \in 1..2 |-> Seq1(Op(d - 1, e - 1))]]   \* [d][e] -> table
Emit ==
  CASE Fam = "couple" ->
         LET OpI(d, e) == Inner(c.cf, c.ff, d, e)    OpIP(d, e) == InnerP(c.cf, c.ff, d, e)
             OpO(d, e) == Outer(c.cf, c.ff, d, e)    OpOP(d, e) == OuterP(c.cf, c.ff, d, e)
             OpA(d, e) == Additive(c.cf, c.ff, d, e) OpAP(d, e) == AdditiveP(c.cf, c.ff, d, e)
         IN PrintT(<<"@@", ToJson([fam |-> Fam, cf |-> Seq1(c.cf), ff |-> Seq1(c.ff),
                     inner |-> ByArgs(OpI), inner_proxy |-> ByArgs(OpIP),
                     outer |-> ByArgs(OpO), outer_proxy |-> ByArgs(OpOP),
                     additive |-> ByArgs(OpA), additive_proxy |-> ByArgs(OpAP),
                     dflt |-> [e \in 1..2 |-> Seq1(Dflt(c.ff, e - 1))]])>>)
    [] Fam = "nest" ->
         PrintT(<<"@@", ToJson([fam |-> Fam, c1 |-> Seq1(c.c1), c2 |-> Seq1(c.c2), ff |-> Seq1(c.ff),
                     ii |-> Seq1(II), oo |-> Seq1(OO), io |-> Seq1(IO), oi |-> Seq1(OI), aa |-> Seq1(AA)])>>)
    [] Fam = "addv" ->
         PrintT(<<"@@", ToJson([fam |-> Fam, pf |-> Seq1(c.pf), ff |-> Seq1(c.ff), u |-> c.u,
                     additive |-> ByArgs(AddV), additive_proxy |-> ByArgs(AddVP),
                     dflt |-> [e \in 1..2 |-> Seq1(Dflt(c.ff, e - 1))]])>>)
    [] Fam = "pen" ->
         PrintT(<<"@@", ToJson([fam |-> Fam, ps |-> [i \in 1..NP |-> Seq1(c.ps[i])], inf |-> INFK,
                     deg |-> [j \in 1..6 |-> Deg(PTypes[j])],
                     and |-> [j \in 1..6 |-> [k \in KS |-> Seq1(AndPen(PTypes[j], k))]],
                     or  |-> IF NP > 0 THEN [j \in 1..6 |-> [k \in KS |-> Seq1(OrPen(PTypes[j], k))]] ELSE << >>,
                     anddk |-> [j \in 1..6 |-> Seq1(AndPen(PTypes[j], DefK(PTypes[j])))],          \* k=None
                     ordk  |-> IF NP > 0 THEN [j \in 1..6 |-> Seq1(OrPen(PTypes[j], DefK(PTypes[j])))] ELSE << >>,
                     iter |-> {[k |-> q[1], h |-> q[2], n |-> q[3],
                                and |-> [j \in 1..6 |-> Seq1(AndPen(PTypes[j], q[1] * IPow(q[2], q[3])))],
                                or  |-> IF NP > 0 THEN [j \in 1..6 |-> Seq1(OrPen(PTypes[j], q[1] * IPow(q[2], q[3])))] ELSE << >>]
                               : q \in KHN}])>>)
    [] Fam = "notpen" ->
         PrintT(<<"@@", ToJson([fam |-> Fam, g |-> Seq1(c.g), t |-> c.t, mk |-> c.mk, inf |-> INFK,
                     member |-> Seq1(MemberPen), deg |-> Deg(MType), ntdeg |-> NotDeg,
                     nt |-> [k \in KS |-> Seq1(NotPen(k))],
                     ntdk |-> Seq1(NotPen(DefK(MType))),                                       \* k=None
                     interior |-> {x \in X : Interior(x)}])>>)
=============================================================================
