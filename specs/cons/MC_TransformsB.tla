--------------------------- MODULE MC_TransformsB ---------------------------
(* Bounded instances of Transforms for BOUNDARY VALUES (a module of its own: TLC evaluates every constant   *)
(* definition of the root module at start-up, the other configurations should not pay for these):          *)
(*   edge   falsy, empty, degenerate and unbounded parameters: 0, 0.0, (), {}, (None, None), lo = hi       *)
(*   long   vectors of length 11..13: positions and indices with two and three digits                     *)
(*   nano   the lattice S = 10^9 (1e-9): the default tolerance 1e-8 of suppressed at its threshold,         *)
(*          rounding to 8 / 9 digits, values that need nine decimals                                       *)
(*   scale  the theorem ThmScale (no absolute scale) on the quick and the edge catalogue: it licenses the  *)
(*          replay of every scale-free case at the magnitudes 2^e, e in ScaleExps (5e-324 .. 4e299)        *)
EXTENDS MC_Transforms

(* ---- EDGE catalogue: falsy, empty, degenerate and unbounded parameters (0, 0.0, (), {}, (None, None), lo = hi) ---- *)
EVals == {-1, 0, 1, 2}                   \* -0.5 0 0.5 1
ELens == 0..3
ELensT == 0..4
IvAll    == << <<-INF, INF>> >>                  \* (None, None): everything conforms
IvZeroUp == << <<0, INF>> >>                     \* (0, None): a lower end that is falsy
IvPoint0 == << <<0, 0>> >>                       \* [0, 0]: degenerate at zero
IvPoints == << <<0, 0>>, <<2, 2>> >>             \* two degenerate intervals (zero width: clip=False has nothing to draw from)
IvNeg    == << <<-3, -1>> >>                     \* an all-negative interval
EIX == {All, << >>, <<0>>, <<-1>>, <<0, -1>>}
EDecs ==
       {DBounds(iv, ix, 1, 1, 0) : iv \in {IvAll, IvZeroUp, IvPoint0, IvLow, IvNeg}, ix \in EIX}
  \cup {DBounds(IvPoints, ix, c[1], c[2], 0) : ix \in {All, <<0>>}, c \in {<<1, 1>>, <<0, 1>>, <<1, 0>>, <<0, 0>>}}
  \cup {DBounds(iv, ix, 1, 1, 1) : iv \in {IvZeroUp, IvPoint0}, ix \in {<<0>>, <<0, -1>>}}
  \cup {DDiscrete(s, ix) : s \in {<<0>>, <<0, 0, 2>>, <<-1, 0>>, <<2, 0>>, <<-2, -1>>}, ix \in EIX}
  \cup {DIntegers(1, ix) : ix \in EIX} \cup {DRounded(0, ix) : ix \in EIX} \cup {DPrecision(0, ix, 0) : ix \in EIX}
  \cup {DAt(ix, t) : ix \in {<< >>, <<0>>, <<0, -1>>}, t \in {0, -1}}
  \cup {DAs(m, o) : m \in {<< >>, << <<0, 1>> >>, << <<1, 0>>, <<1, 2>> >>}, o \in {NONE, 0, -2}}
  \cup {DMean(t) : t \in {0, -3}} \cup {DNormalized(t) : t \in {0, 2}} \cup {DSpread(0), DVariance(0), DStd(0)}
  \cup {DMasked(m) : m \in {<< >>, << <<0, 0>> >>, << <<0, 0>>, <<1, 0>> >>, << <<1, -1>> >>}}
  \cup {DPartial(m) : m \in {<< >>, << <<0, 0>> >>, << <<-1, 0>>, <<0, -1>> >>}}
  \cup {DSync(m) : m \in {<< >>, << <<0, 1, 0>> >>}}
  \cup {DSyncF(m, 3) : m \in {<< <<0, 1, 1>> >>, << <<1, 0, 1>>, <<2, 0, 0>> >>, << <<-1, 0, 1>> >>}}
  \cup {DClipped(0, 0, e, 0) : e \in {0, 1}} \cup {DClipped(-INF, INF, 0, 0), DClipped(0, INF, 0, 0), DClipped(-INF, 0, 0, 0),
        DClipped(-1, 0, 1, 0)}
  \cup {DSuppressed(0, e, 0) : e \in {0, 1}} \cup {DSuppressed(1, 1, 0)}
  \cup {DUnique(<<0>>), DUnique(<<-1, 0, 1, 2>>), DUnique(<<0, 2>>)}
(* vacuity: zero is a start value, an interval end, a sample, a pinned value, a mask value; empty masks and selections occur *)
ASSUME /\ 0 \in EVals
       /\ \E d \in EDecs : d.k = "bounds" /\ d.iv[1][1] = 0
       /\ \E d \in EDecs : d.k = "at" /\ d.p[1] = 0 /\ d.ix = <<0>>
       /\ \E d \in EDecs : d.k = "masked" /\ d.iv = << >>
       /\ \E d \in EDecs : d.k = "sync" /\ SyncForm(d) = 3
       /\ \E d \in EDecs : d.k = "as" /\ d.iv = << >>

(* ---- LONG vectors: positions and indices with two and three digits (10, 11, 12, -13, 100) ---- *)
LVals == {-3, 0, 1, 2}                   \* -1.5 0 0.5 1
LLens == {11, 12, 13}
LBase == <<-3, 1, 0, 2, 1, -3, 2, 0, 1, 1, -3, 2, 0>>
LongVectors == {Vec([i \in 1..n |-> LBase[((i + r) % 13) + 1]], 1) : n \in LLens, r \in {0, 3, 4, 7, 9, 11}}
          \cup {Vec([i \in 1..n |-> LBase[((3 * n - i + r) % 13) + 1]], 1) : n \in LLens, r \in {1, 5, 6}}
LongVectorsT == {Vec([i \in 1..n |-> LBase[((i + r) % 13) + 1]], 1) : n \in LLens, r \in 0..12}
          \cup {Vec([i \in 1..n |-> LBase[((3 * n - i + r) % 13) + 1]], 1) : n \in LLens, r \in 0..12}
LIX == {All, <<10>>, <<-11>>, <<11>>, <<12>>, <<-13>>, <<13>>, <<100>>, <<-100>>, <<10, 2>>, <<1, 10>>, <<0, 12>>,
        <<10, 11, 12>>, <<-1, 10>>, <<12, 100>>}
LDecs ==
       {DBounds(iv, ix, 1, 1, 0) : iv \in {IvOne, IvGap}, ix \in LIX}
  \cup {DBounds(IvOne, ix, 1, 1, 1) : ix \in {<<10>>, <<10, 2>>, <<12, 100>>, <<-11>>}}
  \cup {DDiscrete(<<0, 2, 4>>, ix) : ix \in LIX}
  \cup {DIntegers(0, ix) : ix \in LIX} \cup {DRounded(NONE, ix) : ix \in LIX} \cup {DPrecision(NONE, ix, 0) : ix \in LIX}
  \cup {DMonotonic(a, 0, ix, 0) : a \in {0, 1}, ix \in LIX} \cup {DSorting(a, 0, ix, 0) : a \in {0, 1}, ix \in LIX}
  \cup {DAt(ix, 3) : ix \in LIX \ {All}}
  \cup {DAs(m, o) : o \in {NONE, 2}, m \in {<< <<0, 10>> >>, << <<10, 0>> >>, << <<10, 11>>, <<11, 12>> >>, << <<-13, 10>> >>,
                                           << <<1, 100>> >>, << <<12, 2>>, <<12, 11>> >>}}
  \cup {DMasked(m) : m \in {<< <<10, 9>> >>, << <<12, 9>>, <<0, -9>> >>, << <<11, 9>>, <<10, -9>> >>, << <<13, 9>> >>}}
  \cup {DPartial(m) : m \in {<< <<10, 9>> >>, << <<-11, 9>> >>, << <<12, 9>>, <<2, -9>> >>, << <<100, 9>> >>}}
  \cup {DSync(m) : m \in {<< <<10, 0, 0>> >>, << <<0, 10, 2>> >>, << <<12, 11, 0>> >>, << <<-13, 10, -1>> >>, << <<100, 0, 0>> >>}}
ASSUME \A y \in LongVectorsT : Len(y.v) \in LLens /\ Rng(y.v) \subseteq LVals
ASSUME LongVectors \subseteq LongVectorsT /\ Cardinality(LongVectors) >= 24
(* vacuity: a two-digit position is selected, is out of range for one length and in range for another, and is not conforming *)
ASSUME /\ \E d \in LDecs : d.k = "integers" /\ \E y \in LongVectors : 11 \in Sel(d.ix, Len(y.v)) /\ y.v[11] % S # 0
       /\ \E d \in LDecs : d.k = "integers" /\ HasOOR(d.ix, 11) /\ ~HasOOR(d.ix, 13)
       /\ \E d \in LDecs : d.k = "sorting" /\ Len(d.ix) = 3 /\ \E y \in LongVectors : Defined(d, y) /\ y.v[11] > y.v[13]

(* ---- NANO lattice (S = 10^9: the integer v stands for v * 1e-9): the DEFAULT tolerance of suppressed (1e-8) with entries ---- *)
(* ---- just below / at / just above it, rounding to 8 and 9 digits, values that need nine decimals                        ---- *)
NanoS == 1000000000
NanoVals == {-10, 0, 1, 10, 11, 20, 123456789, 1999999999}     \* -1e-8 0 1e-9 1e-8 1.1e-8 2e-8 0.123456789 1.999999999
NanoLens == 0..2
NanoLensT == 0..3
NanoDecs ==
       {DSuppressed(t, e, 0) : t \in {0, 1, 10, 11, 20}, e \in {0, 1}}
  \cup {DRounded(dg, ix) : dg \in {NONE, 0, 2, 8, 9}, ix \in {All, <<0>>, <<-1>>}}
  \cup {DPrecision(dg, ix, 0) : dg \in {NONE, 2, 8, 9}, ix \in {All, <<1>>}}
  \cup {DIntegers(0, All), DIntegers(1, <<0>>), DIntegers(0, <<-1>>)}
  \cup {DBounds(<< <<123456789, 1999999999>> >>, ix, 1, 1, 0) : ix \in {All, <<0>>}}
  \cup {DBounds(<< <<1, 10>>, <<20, 123456789>> >>, All, 1, 1, 0), DBounds(<< <<-INF, 1>> >>, All, 1, 1, 0)}
  \cup {DDiscrete(<<1, 123456789, 10>>, All), DDiscrete(<<0, 20>>, <<0>>)}
  \cup {DAt(<<0>>, 123456789), DAt(<<-1>>, 1), DClipped(1, 123456789, 0, 0), DClipped(-10, 10, 1, 0)}
  \cup {DMasked(<< <<0, 123456789>> >>), DPartial(<< <<0, 1>> >>), DSync(<< <<0, 1, 0>> >>), DSorting(1, 0, All, 0),
        DMonotonic(0, 0, All, 0)}
(* vacuity: the default tolerance 1e-8 (= 10) meets an entry below, at and above it; a nine-decimal value is rounded at 8 digits *)
ASSUME /\ \E d \in NanoDecs : d.k = "suppressed" /\ d.p[1] = 10 /\ {1, 10, -10, 11} \subseteq NanoVals
       /\ NanoS % Pow10(8) = 0 /\ 123456789 % (NanoS \div Pow10(8)) # 0
       /\ \A a \in NanoVals : Abs(a) \notin {INF, NONE, INF - 1, INF + 1}      \* (the sentinels are not lattice values here)

(* ---- ThmScale (no absolute scale) is checked on the quick and the edge catalogue ---- *)
ScDecs == {d \in QDecs \cup EDecs : ScaleFree(d)}
ScVals == QVals \cup EVals
ScLens == 0..2
ASSUME \A k \in {"bounds", "discrete", "unique", "monotonic", "sorting", "at", "as", "masked", "partial", "sync", "clipped",
                 "suppressed"} : \E d \in ScDecs : d.k = k
=============================================================================
