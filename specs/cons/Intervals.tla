------------------------------ MODULE Intervals ------------------------------
(***************************************************************************)
(* The interval helpers of mystic.tools that the interval-based decorators *)
(* and collapse masks are built on (property C16), as SET ALGEBRA:         *)
(*     _interval_invert(bounds, lb, ub)      "invert the given intervals   *)
(*                   ... lb and ub, if not given, are the extrema of bounds"*)
(*     _interval_intersection(b1, b2)        "find the intersection of the *)
(*                   intervals in the given bounds"                        *)
(*     _interval_union(b1, b2)               "find the union of the        *)
(*                   intervals in the given bounds"                        *)
(*     interval_overlap({i: bounds}, {i: bounds}, union)   the same per key*)
(* "bounds is a list of tuples [(lo,hi),...]".                             *)
(*                                                                         *)
(* NUMBERS.  The line is probed in HALF units: the integer t stands for    *)
(* t/2.  Interval ends are even (integers of the real line) or -INF / INF; *)
(* the test points are Win = WLo..WHi: the even ones are the integers, the *)
(* odd ones (the "cells") the half-integers.  As every end is even, a cell *)
(* lies in the interior or in the exterior of any set built here, never on *)
(* a boundary; the window reaches two integers beyond every finite end, so *)
(* an unbounded side is probed as well.                                    *)
(*                                                                         *)
(* WHAT A LIST DENOTES.  The set  U_j [lo_j, hi_j]  (closed intervals; an  *)
(* entry with lo > hi denotes nothing).  The algebra is that of REGULAR    *)
(* closed sets: a set is known by its cells, and an integer point belongs  *)
(* to it iff a neighbouring cell does.  ISOLATED POINTS are not specified  *)
(* (the docstrings say nothing; the code asks "what about when l == h?"):  *)
(* at an integer that has been an END of an operand (or lb / ub) and has   *)
(* no neighbouring cell in the result, membership is left open (value 2).  *)
(*                                                                         *)
(* STATE MACHINE (a calculator on one set).                                *)
(*   start  the list the real computation starts from                      *)
(*   cur    the cells of the current set                                   *)
(*   ends   the finite ends seen so far (operands, lb, ub)                 *)
(*   hist   the operations so far, each with the membership expected at    *)
(*          every test point after it (1 in, 0 out, 2 open) and the class  *)
(*          of the operand pair (accounting / violation keys only)         *)
(*   Invert(lb, ub)   complement inside [lb, ub]; NONE = "the extrema"     *)
(*   Intersect(B)     cur := cur /\ B                                      *)
(*   Union(B)         cur := cur \/ B                                      *)
(* PREMISES.  Operand lists are in normal form (ascending, lo < hi,        *)
(* successive intervals disjoint or touching) and NOT EMPTY: the meaning   *)
(* of an empty list is not documented (the helpers use it for "no          *)
(* restriction" and for "nothing" alike), so an operation is only enabled  *)
(* on a non-empty current set; [lb, ub] contains the current set.          *)
(*                                                                         *)
(* THEOREMS (INVARIANT lines of MC_Intervals*.cfg; they hold for sets, TLC *)
(* confirms them for the cell representation on every reachable state):    *)
(*   ThmDeMorgan   A \/ B = Inv(Inv(A) /\ Inv(B)) inside the common hull - *)
(*                 the identity _interval_union is built on                *)
(*   ThmInvolution Inv(Inv(A)) = A inside [lb, ub]                         *)
(*   ThmLattice    A /\ A = A,  (A \/ B) /\ A = A,  (A /\ B) \/ A = A      *)
(*                 (these three at every state from which a script goes on)*)
(*   ThmHist       every recorded expectation agrees with the closed-set   *)
(*                 reading wherever it is not left open                    *)
(* EmitScript prints every complete script; harness/c16_intervals.py       *)
(* replays it on the real helpers and compares membership of every test    *)
(* point.                                                                  *)
(***************************************************************************)
EXTENDS Integers, Sequences, FiniteSets, TLC, Json, SequencesExt, FiniteSetsExt, IOUtils

CONSTANTS WLo, WHi,   \* window of test points (half units)
          Lists,      \* operand lists: sequences of <<lo, hi>>
          Firsts,     \* the lists a script may start from (subset of Lists)
          ChainLists, \* the lists (subset of Lists) over which scripts of up to MaxOps operations are explored
          InvArgs,    \* <<lb, ub>> arguments of Invert (NONE = not given)
          MaxOps      \* (every other script has one operation)

VARIABLES start, cur, ends, hist
vars == <<start, cur, ends, hist>>

NONE == 999999
INF  == 1000000
Win == WLo..WHi
Cell(t) == t % 2 # 0
CellsOfWin == {t \in Win : Cell(t)}
Points == {t \in Win : ~Cell(t)}

(* normal form *)
Normal(B) == /\ Len(B) > 0
             /\ \A j \in DOMAIN B : B[j][1] < B[j][2] /\ B[j][1] # INF /\ B[j][2] # -INF
             /\ \A j \in 1..(Len(B) - 1) : B[j][2] <= B[j + 1][1]
Finite(a) == a # INF /\ a # -INF /\ a # NONE
InWindow(B) == \A j \in DOMAIN B : /\ Finite(B[j][1]) => (B[j][1] % 2 = 0 /\ B[j][1] >= WLo + 4)
                                   /\ Finite(B[j][2]) => (B[j][2] % 2 = 0 /\ B[j][2] <= WHi - 4)
ASSUME \A B \in Lists : Normal(B) /\ InWindow(B)
ASSUME Firsts \subseteq Lists /\ ChainLists \subseteq Lists
ASSUME WLo % 2 = 0 /\ WHi % 2 = 0
ASSUME \A a \in InvArgs : /\ Finite(a[1]) => (a[1] % 2 = 0 /\ a[1] >= WLo + 2)
                          /\ Finite(a[2]) => (a[2] % 2 = 0 /\ a[2] <= WHi - 2)

(* closed-set reading of a list at a test point, and its cells *)
InList(t, B) == \E j \in DOMAIN B : B[j][1] <= t /\ t <= B[j][2]
CellsOfList(B) == {t \in CellsOfWin : InList(t, B)}
CellsTab == [B \in Lists |-> CellsOfList(B)]           \* (a table: computed once)
CellsOf(B) == CellsTab[B]
EndsOf(B) == {B[j][1] : j \in DOMAIN B} \cup {B[j][2] : j \in DOMAIN B}
FiniteEnds(E) == {a \in E : Finite(a)}

(* hull of a non-empty cell set: an extreme cell at the rim of the window means an unbounded side *)
MinCell == CHOOSE t \in CellsOfWin : \A u \in CellsOfWin : t <= u
MaxCell == CHOOSE t \in CellsOfWin : \A u \in CellsOfWin : t >= u
HullLo(A) == LET c == CHOOSE t \in A : \A u \in A : t <= u IN IF c = MinCell THEN -INF ELSE c - 1
HullHi(A) == LET c == CHOOSE t \in A : \A u \in A : t >= u IN IF c = MaxCell THEN INF ELSE c + 1
Between(L, U) == {t \in CellsOfWin : L < t /\ t < U}
Inv(A, L, U) == Between(L, U) \ A

(* membership expected at a test point: cells are decided; an integer is in iff a neighbouring cell is; *)
(* an integer without neighbouring cell is out, unless it has been an end (isolated point: left open)   *)
Mem(t, A, E) == IF Cell(t) THEN (IF t \in A THEN 1 ELSE 0)
                ELSE IF (t - 1) \in A \/ (t + 1) \in A THEN 1
                ELSE IF t \in E THEN 2 ELSE 0
Expect(A, E) == [j \in 1..(WHi - WLo + 1) |-> Mem(WLo + j - 1, A, E)]

(* class of an operand pair *)
Closure(A) == A \cup {t \in Points : (t - 1) \in A \/ (t + 1) \in A}
Rel(A, B) == IF A = B THEN "equal"
             ELSE IF A \subseteq B \/ B \subseteq A THEN "nested"
             ELSE IF A \cap B # {} THEN "overlap"
             ELSE IF Closure(A) \cap Closure(B) # {} THEN "touching" ELSE "disjoint"
Pieces(A) == Cardinality({t \in A : (t - 2) \notin A})          \* number of maximal intervals
Shape(A) == IF A = {} THEN "empty" ELSE IF Pieces(A) = 1 THEN "single" ELSE "multi"

-----------------------------------------------------------------------------
Step(op, B, lb, ub, A, E, rel) ==
  /\ cur' = A
  /\ ends' = E
  /\ hist' = Append(hist, [op |-> op, b |-> B, lb |-> lb, ub |-> ub, exp |-> Expect(A, E), rel |-> rel, shape |-> Shape(A)])
  /\ UNCHANGED start

NParts == IF "NPARTS" \in DOMAIN IOEnv THEN atoi(IOEnv.NPARTS) ELSE 1
Part   == IF "PART" \in DOMAIN IOEnv THEN atoi(IOEnv.PART) ELSE 0
FirstSeq == SetToSeq(Firsts)
MyFirsts == {FirstSeq[j] : j \in {c \in DOMAIN FirstSeq : c % NParts = Part}}

Init == /\ start \in MyFirsts
        /\ cur = CellsOf(start)
        /\ ends = FiniteEnds(EndsOf(start))
        /\ hist = << >>

(* a script goes on after its first operation only when it started from, and used, a list of ChainLists *)
Deep == start \in ChainLists /\ (hist[1].b = << >> \/ hist[1].b \in ChainLists)
Enabled == cur # {} /\ (IF hist = << >> THEN TRUE ELSE Len(hist) < MaxOps /\ Deep)
Operands == IF hist = << >> THEN Lists ELSE ChainLists

Invert(lb, ub) ==
  LET L == IF lb = NONE THEN HullLo(cur) ELSE lb
      U == IF ub = NONE THEN HullHi(cur) ELSE ub
  IN  /\ Enabled
      /\ L <= HullLo(cur) /\ HullHi(cur) <= U                          \* [lb, ub] contains the set
      /\ Step("invert", << >>, lb, ub, Inv(cur, L, U), ends \cup FiniteEnds({L, U}),
              IF lb = NONE /\ ub = NONE THEN "extrema" ELSE IF L = HullLo(cur) /\ U = HullHi(cur) THEN "tight" ELSE "wider")

Intersect(B) == /\ Enabled
                /\ Step("intersection", B, NONE, NONE, cur \cap CellsOf(B), ends \cup FiniteEnds(EndsOf(B)), Rel(cur, CellsOf(B)))

Union(B) == /\ Enabled
            /\ Step("union", B, NONE, NONE, cur \cup CellsOf(B), ends \cup FiniteEnds(EndsOf(B)), Rel(cur, CellsOf(B)))

Next == \/ \E a \in InvArgs : Invert(a[1], a[2])
        \/ \E B \in Operands : Intersect(B) \/ Union(B)
Spec == Init /\ [][Next]_vars

-----------------------------------------------------------------------------
(* theorems *)
Min2(a, b) == IF a < b THEN a ELSE b
Max2(a, b) == IF a > b THEN a ELSE b
ThmDeMorgan == Enabled => \A B \in Operands :
                 LET C == CellsOf(B)
                     L == Min2(HullLo(cur), HullLo(C))
                     U == Max2(HullHi(cur), HullHi(C))
                 IN  cur \cup C = Inv(Inv(cur, L, U) \cap Inv(C, L, U), L, U)
ThmInvolution == Enabled => \A a \in InvArgs :
                   LET L == IF a[1] = NONE THEN HullLo(cur) ELSE a[1]
                       U == IF a[2] = NONE THEN HullHi(cur) ELSE a[2]
                   IN  (L <= HullLo(cur) /\ HullHi(cur) <= U) => Inv(Inv(cur, L, U), L, U) = cur
ThmLattice == Enabled => \A B \in Operands : LET C == CellsOf(B) IN
                 /\ cur \cap cur = cur /\ cur \cup cur = cur
                 /\ (cur \cup C) \cap cur = cur /\ (cur \cap C) \cup cur = cur
                 /\ cur \cap C = C \cap cur /\ cur \cup C = C \cup cur
(* one step recomputed with the closed-set reading of the lists (first step of a script: both operands are lists) *)
ThmHist == (Len(hist) >= 1 /\ hist[1].op # "invert") =>
             LET h == hist[1] IN
               \A j \in DOMAIN h.exp :
                  LET t == WLo + j - 1
                      a == InList(t, start)
                      b == InList(t, h.b)
                      exact == IF h.op = "union" THEN a \/ b ELSE a /\ b
                  IN  /\ h.exp[j] = 1 => exact                       \* never more than the closed sets hold
                      /\ (h.exp[j] = 0 /\ Cell(t)) => ~exact
                      /\ (h.exp[j] = 0 /\ ~Cell(t)) => ~exact        \* an integer judged "out" is out of the exact result as well
                      /\ (h.exp[j] = 2) => ~Cell(t)

-----------------------------------------------------------------------------
(* emission: every complete script (one that cannot go on: empty set, MaxOps operations, or not over ChainLists) *)
Complete == hist # << >> /\ ~Enabled
EmitScript == Complete => PrintT(<<"@@", ToJson([start |-> start, e0 |-> Expect(CellsOf(start), FiniteEnds(EndsOf(start))), s |-> hist])>>)
ASSUME PrintT(<<"@@", ToJson([wlo |-> WLo, whi |-> WHi, none |-> NONE, inf |-> INF])>>)

(* vacuity companions: TLC must violate each *)
NeverOpen == \A j \in DOMAIN hist : \A c \in DOMAIN hist[j].exp : hist[j].exp[c] # 2
NeverTouching == \A j \in DOMAIN hist : hist[j].rel # "touching"
NeverNested == \A j \in DOMAIN hist : hist[j].rel # "nested"
NeverUnbounded == \A j \in DOMAIN hist : hist[j].exp[1] # 1
NeverEmpty == \A j \in DOMAIN hist : hist[j].shape # "empty"
=============================================================================
