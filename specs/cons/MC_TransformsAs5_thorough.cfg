SPECIFICATION Spec
CONSTANTS
  S = 2
  Vals <- AVals2
  Lens <- ALens5
  Decs <- TAs5
  MaxHist = 0
  DecSeq <- TAs5Seq
INVARIANT ThmAll
INVARIANT Emit
