SPECIFICATION BSpec
CONSTANTS
  M = 3
  Fam = "bridge"
  PMax = 1
  NPen = {1}
  GVals <- G1
  KS = {1}
  BFams <- AllFams
  S = 3
  T1s <- QT1
  BKS = {1, 3}
  BH = 2
  BIts = {0, 1}
  Tols = {0, 1, 2, 3}
  Mats <- QMats
  MatsR <- QMatsR
  CostTabs <- QCost
  WPChains <- QWPChains
  WPCond <- MCWPCond
  WPIts = {0, 2}
  QV <- QQV
  SL = 3
  UV <- QUV
  ULens = {2, 3}
  URanges <- QURanges
  LinConds <- QLin
INVARIANT WPZeroOnFeasible
INVARIANT WPPositiveWhenViolated
INVARIANT WPZeroDivision
INVARIANT WPErrorIsViolation
INVARIANT WPBare
INVARIANT WPAdditive
INVARIANT WPSolIffFeasible
INVARIANT WPSolMonotone
INVARIANT WCIsConstraint
INVARIANT WCCoupled
INVARIANT AsPenZeroIffFixed
INVARIANT AsPenPositive
INVARIANT AsPenIsPT
INVARIANT AsPenMonotone
INVARIANT IsSolIffFixed
INVARIANT IsSolMonotone
INVARIANT VectDual
INVARIANT VectShape
INVARIANT NearZeroIffInts
INVARIANT NearBounded
INVARIANT HasUniqueLaw
INVARIANT UniqFeasible
INVARIANT UniqKeepCount
INVARIANT SolveCFixedIsImage
INVARIANT SolvePFeasIffNoPenalty
INVARIANT SolvePPremise
INVARIANT BEmit
