SPECIFICATION StartOnly
CONSTANTS
  S = 2
  Vals <- LVals
  Lens <- LLens
  Decs <- LDecs
  MaxHist = 0
  StartVectors <- LongVectors
INVARIANT ThmAllDet
INVARIANT Emit
