--------------------------- MODULE MC_Transforms ---------------------------
(* Bounded instances of Transforms: value sets, index selections and the    *)
(* decorator catalogues of the quick / thorough / script configurations.    *)
(* Scale S = 2: the integer v stands for v/2 (so 1 is one half, 3 is 1.5).  *)
EXTENDS Transforms

(* ---- start vectors ---- *)
QVals == {-3, -1, 0, 1, 2, 5}            \* -1.5 -0.5 0 0.5 1 2.5
QLens == 0..3
TVals == {-4, -3, -1, 0, 1, 2, 5}             \* -2 -1.5 -0.5 0 0.5 1 2.5
TLens == 0..4
SVals == {-1, 0, 3}                      \* script mode
SLens == {3}
NVals == {-30, -10, 0, 10, 29, 30, 50}   \* -15 -5 0 5 14.5 15 25: rounding to tens (digits=-1)
NLens == 0..2

(* ---- index selections (Python tuples; All = None) ---- *)
QIX == {All, << >>, <<0>>, <<1>>, <<-1>>, <<2>>, <<-3>>, <<3>>, <<-4>>,
        <<0, 1>>, <<0, -1>>, <<2, 0>>, <<1, 5>>, <<0, 1, 2>>}
TIX == QIX \cup {<<-2>>, <<4>>, <<-5>>, <<1, 2>>, <<-1, -2>>, <<0, 4>>, <<1, 3>>, <<0, 2, 3>>,
                 <<1, -1, 5>>, <<3, 1, 0>>, <<0, -4>>}
FewIX == {All, << >>, <<0>>, <<0, -1>>}

(* ---- interval sets (units 1/2) ---- *)
IvOne   == << <<0, 2>> >>                        \* [0, 1]
IvGap   == << <<-3, -1>>, <<2, 5>> >>            \* [-1.5,-0.5] u [1, 2.5]: 0 and 0.5 lie in the gap
IvTie   == << <<-3, -1>>, <<3, 5>> >>            \* 0.5 is equidistant from both
IvLow   == << <<-INF, 0>> >>                     \* (None, 0)
IvHigh  == << <<1, INF>> >>                      \* (0.5, None)
IvTouch == << <<-1, 0>>, <<0, 2>> >>             \* touching intervals
IvRev   == << <<2, 5>>, <<-3, -1>> >>            \* same as IvGap, listed in the other order
IvThree == << <<-4, -3>>, <<0, 0>>, <<3, 5>> >>  \* three intervals, one degenerate
QIvs == {IvOne, IvGap, IvTie, IvLow, IvTouch, IvRev}
TIvs == QIvs \cup {IvHigh, IvThree}

Bounds(ivs, ixs) ==
       {DBounds(iv, ix, 1, 1, 0) : iv \in ivs, ix \in ixs}
  \cup {DBounds(iv, ix, c[1], c[2], 0) : iv \in {IvGap, IvTie}, ix \in FewIX, c \in {<<1, 0>>, <<0, 1>>, <<0, 0>>}}
  \cup {DBounds(iv, ix, 1, 1, 1) : iv \in {IvOne, IvGap}, ix \in {<<0>>, <<0, -1>>, <<1, 5>>}}

Discrete(ixs) == {DDiscrete(s, ix) : s \in {<<0, 2, 4>>, <<-2, 2>>, <<3, -1, 1>>, <<1>>}, ix \in ixs}

Rounding(ixs) ==
       {DIntegers(0, ix) : ix \in ixs} \cup {DIntegers(1, ix) : ix \in {All, <<0>>}}
  \cup {DRounded(NONE, ix) : ix \in ixs} \cup {DRounded(0, ix) : ix \in {All, <<1>>}} \cup {DRounded(1, ix) : ix \in {All, <<0>>}}
  \cup {DPrecision(NONE, ix, 0) : ix \in ixs} \cup {DPrecision(0, ix, 1) : ix \in {All, <<0>>}}

Order(ixs) ==
       {DMonotonic(a, 0, ix, 0) : a \in {0, 1}, ix \in ixs}
  \cup {DMonotonic(1, 1, ix, g) : ix \in {All, <<0, 1>>}, g \in {0, 1}}
  \cup {DSorting(a, 0, ix, 0) : a \in {0, 1}, ix \in ixs}
  \cup {DSorting(1, 1, ix, g) : ix \in {All, <<0, 1>>}, g \in {0, 1}}

Pin(ixs) == {DAt(ix, t) : ix \in ixs \ {All}, t \in {0, 3, 7}}

Track == {DAs(m, o) : o \in {0, 2, -1},
                      m \in {<< <<0, 1>> >>, << <<0, -1>> >>, << <<1, 0>> >>, << <<0, 1>>, <<0, 2>> >>,
                             << <<0, 1>>, <<2, 3>> >>, << <<0, 5>> >>, << <<5, 0>> >>, << <<-1, 0>> >>}}

Stats == {DMean(t) : t \in {0, 2, 3}} \cup {DVariance(t) : t \in {0, 1, 2, 8}}
    \cup {DStd(t) : t \in {0, 1, 2, 3, 4}}            \* with_std(0 / 0.5 / 1 / 1.5 / 2): variance 0 / 0.25 / 1 / 2.25 / 4
    \cup {DSpread(t) : t \in {0, 2, 3, 4}} \cup {DNormalized(t) : t \in {2, 4, 0, -2}}

Rewrite ==
       {DMasked(m) : m \in {<< <<0, 9>> >>, << <<1, 9>> >>, << <<0, 9>>, <<2, -9>> >>, << <<3, 9>> >>,
                            << <<1, 9>>, <<0, 8>> >>, << <<-1, 9>> >>}}
  \cup {DPartial(m) : m \in {<< <<0, 9>> >>, << <<-1, 9>> >>, << <<0, 9>>, <<2, -9>> >>, << <<5, 9>> >>,
                             << <<1, 0>>, <<4, 9>> >>}}
  \cup {DSync(m) : m \in {<< <<0, 1, 0>> >>, << <<0, -1, 0>> >>, << <<1, 0, 0>> >>, << <<0, 1, 2>> >>,
                          << <<0, 1, -1>> >>, << <<0, 1, 0>>, <<2, 1, 0>> >>, << <<0, 5, 0>> >>,
                          << <<5, 0, 0>> >>, << <<-1, 0, 2>> >>}}
  \cup {DSyncF(m, f) : f \in {1, 2}, m \in {<< <<0, 1, 2>> >>, << <<0, -1, -1>> >>, << <<0, 1, 2>>, <<2, 1, 0>> >>,
                                              << <<1, 0, 3>>, <<2, 5, 2>> >>, << <<-1, 0, 2>> >>}}
  \cup {DClipped(0, 2, 0, 0), DClipped(-INF, 1, 0, 0), DClipped(1, INF, 0, 0), DClipped(-1, -1, 0, 0),
        DClipped(0, 2, 1, 0), DClipped(0, 2, 1, 1)}
  \cup {DSuppressed(2, 0, 0), DSuppressed(1, 0, 0), DSuppressed(0, 0, 0), DSuppressed(2, 1, 0), DSuppressed(2, 1, 1)}

QDecs == Bounds(QIvs, QIX) \cup Discrete(QIX) \cup Rounding(QIX) \cup Order(QIX) \cup Pin(QIX)
         \cup Track \cup Stats \cup Rewrite
         \cup {DUnique(<<-3, -1, 0, 1, 2, 5>>), DUnique(<<0, 1, 2>>), DUnique(<<0, 2, 4, 6>>)}
TDecs == Bounds(TIvs, TIX) \cup Discrete(TIX) \cup Rounding(TIX) \cup Order(TIX) \cup Pin(TIX)
         \cup Track \cup Stats \cup Rewrite
         \cup {DUnique(<<-4, -3, -1, 0, 1, 2, 3, 5>>), DUnique(<<0, 1, 2>>), DUnique(<<0, 2, 4, 6>>),
               DSorting(1, 0, <<0, -4>>, 0)}

ASSUME Vacuity(QDecs, QVals, QLens) /\ Vacuity(TDecs, TVals, TLens)

(* rounding to tens: digits = -1 on larger values *)
NDecs == {DRounded(-1, ix) : ix \in {All, <<0>>, <<-1>>, <<0, 3>>}} \cup {DPrecision(-1, ix, 0) : ix \in {All, <<1>>}}
         \cup {DIntegers(0, All), DRounded(NONE, All)}

(* script mode: sequences of input-rewriting decorators stacked on one function *)
SDecs == {DBounds(IvOne, All, 1, 1, 0), DDiscrete(<<0, 2, 4>>, <<0, 1>>), DIntegers(0, <<-1>>), DRounded(NONE, All),
          DMonotonic(1, 0, All, 0), DSorting(0, 0, <<0, 2>>, 0), DAt(<<1>>, 3),
          DAs(<< <<0, 1>>, <<1, 2>> >>, 2), DAs(<< <<2, 1>>, <<1, 0>> >>, NONE), DAs(<< <<0, 2>>, <<1, 2>> >>, -1),
          DPartial(<< <<0, -1>> >>), DSync(<< <<1, 0, 0>> >>), DClipped(-1, 2, 0, 0), DSuppressed(2, 0, 0),
          DMean(2), DStd(2)}
=============================================================================
