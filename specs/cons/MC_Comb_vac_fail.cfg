SPECIFICATION Spec
CONSTANTS
  D <- D2
  Members <- All2
  Ns = {2}
  MaxIters = {2}
  Kinds = {"and", "or", "not"}
  Rules = {"fixed"}
  Starts <- D2
INVARIANT NeverOnFail
