SPECIFICATION Spec
CONSTANTS
  S = 2
  Starts <- QStarts
  Deep <- QDeep
  MaxOps = 2
  MaxPairs = 2
PROPERTY OtherFactors
INVARIANT ThmAllEmit
