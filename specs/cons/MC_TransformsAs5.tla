--------------------------- MODULE MC_TransformsAs5 ---------------------------
(* thorough tier: tracking masks of impose_as on 5 positions (see MC_TransformsAs) *)
EXTENDS MC_TransformsAs

(* thorough: the same on 5 positions (masks of up to 4 pairs that use index 4; the others are in QJobs) *)
TSets == {Q \in AEdgeSets(5, 4) : \E q \in Q : 4 \in {q[1], q[2]}}
TJobs5 == UNION {
       {<<m, 2>> : m \in UNION {APerms(Q) : Q \in {Q \in TSets : Cardinality(Q) <= 3}}},      \* every order, offsets None / 1.0
       {<<ASourceFirst(Q, 5), 1>> : Q \in TSets},                                              \* one order, all four offsets
       {<<ANegAll(ASourceFirst(Q, 5), 5), 4>> : Q \in {Q \in TSets : Cardinality(Q) >= 3}},     \* negative spelling
       {<<m, 3>> : m \in UNION {APerms(Q) : Q \in ALoops(4)}} }                                \* diamonds, every order
TAs5Share == SetToSeq(ADecs(TJobs5))
TAs5Seq == TAs5Share
TAs5 == Rng(TAs5Share)
ALens5 == {5}
ASSUME AHas(TJobs5, 5)
=============================================================================
