SPECIFICATION TraceSpec
CONSTANTS
  D = {0}
  Members = {}
  Ns = {1}
  MaxIters = {0}
  Kinds = {"and"}
  Starts = {0}
  Rules = {"asis", "fixed"}
INVARIANT Register
INVARIANT Probe
INVARIANT TraceBounded
INVARIANT TraceOnePath
POSTCONDITION Post
CHECK_DEADLOCK FALSE
