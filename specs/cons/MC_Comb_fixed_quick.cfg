SPECIFICATION Spec
CONSTANTS
  D <- D3
  Members <- All3
  Ns = {0, 1, 2}
  MaxIters = {0, 1, 2, 3}
  Kinds = {"and", "or", "not"}
  Rules = {"fixed"}
  Starts <- D3
INVARIANT ClaimAnd
INVARIANT ClaimOr
INVARIANT ClaimNot
INVARIANT OnePath
INVARIANT Bounded
PROPERTY Progress
