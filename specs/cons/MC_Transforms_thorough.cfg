SPECIFICATION Spec
CONSTANTS
  S = 2
  Vals <- TVals
  Lens <- TLens
  Decs <- TDecs
  MaxHist = 0
INVARIANT ThmAll
INVARIANT Emit
