SPECIFICATION Spec
CONSTANTS
  D <- D3
  Members <- All3
  Ns = {1, 2}
  MaxIters = {0, 1, 2, 3}
  Kinds = {"and", "or", "not"}
  Rules = {"asis"}
  Starts <- D3
INVARIANT ClaimOr
INVARIANT ClaimNot
INVARIANT OnePath
INVARIANT Bounded
INVARIANT AsIsOnlyUncertifiedChange
INVARIANT AsIsHoldsForIdempotentHead
INVARIANT EmitBad
PROPERTY Progress
