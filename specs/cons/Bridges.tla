------------------------------- MODULE Bridges -------------------------------
(***************************************************************************)
(* The bridges of mystic.constraints between conditions, penalties,        *)
(* constraints and solvers (C17, third part; next to the combinators):     *)
(*   with_penalty, with_constraint, as_penalty, as_constraint, issolution, *)
(*   solve, vectorize, unique / impose_unique, near_integers, has_unique.  *)
(*                                                                         *)
(* Like Couplers.tla (which this module EXTENDS, reusing X, Tables, Arg,   *)
(* PT, PTypes, Inner/Outer/InnerP/OuterP/Additive, Id and the variable c)  *)
(* one state = one case and there are no transitions; TLC checks the laws  *)
(* on every case of a bounded class and emits the case with what the       *)
(* specification says the observable result (or the post-condition) is;    *)
(* harness/c17_bridges.py replays every line on the real functions.        *)
(* The penalty closures of with_penalty are those of PenaltyC17.tla (the   *)
(* frozen copy of pen/Penalty.tla of commit 2f4c29d;                       *)
(* INSTANCE Pn: a one-level chain over base 0 at iteration c.it).          *)
(*                                                                         *)
(* Families (c.fam):                                                       *)
(*  "withpen"   p = with_penalty(ptype,args=(d,),k,h)(cond) on the points  *)
(*              X = 0..M-1, cond a table read at (x+d)%M (ZD = raises      *)
(*              ZeroDivisionError).  p(x) is the documented formula of     *)
(*              the type at iteration c.it (p.iter()), p.error(x), p.clear,*)
(*              additive(p)(cost)(x) = cost(x) + p(x),                     *)
(*              issolution(p, x, tol) <=> p.error(x) <= tol.               *)
(*  "withcons"  k = with_constraint(ctype, ...)(cf) is cf itself for each  *)
(*              of the four ctypes (decorator argument for inner/outer,    *)
(*              call argument for the proxies); a cost coupled with it is  *)
(*              evaluated at the constrained point: inner(k)(f)(x) =       *)
(*              f(k(x)), outer(k)(f)(x) = k(f(x)).                         *)
(*  "aspen"     vectors: the lattice {0,1/2,..,(S-1)/2}^2 (coordinates in  *)
(*              half units), a constraint is a table on its points (read   *)
(*              at point index (p+d) % S^2 for the extra argument d).      *)
(*              as_penalty(c, ptype, args=(d,), k, h)(x) = formula of      *)
(*              ptype applied to r(x) = |c(x) - x|_2 : zero exactly where  *)
(*              c(x) = x.  Values are <<num, den, rad>> = num/den*sqrt(rad)*)
(*              (rad = 1 unless the squared distance is not a square).     *)
(*              issolution(c, x, tol) <=> |c(x) - x|_2 <= tol.             *)
(*  "vect"/"vectr"  vectorize(c, axis): axis=1 applies c to every row,     *)
(*              axis=0 to every column ("vectr": a length-generic c on     *)
(*              non-square data).                                          *)
(*  "scalar"    near_integers(x) = SUM |x_i - round(x_i)| and has_unique(x)*)
(*              = SUM_i count(x_i) on vectors in quarter units.            *)
(*  "uniq"      unique(seq, full) / impose_unique(full): post-condition    *)
(*              (which positions keep their value, where the new values    *)
(*              come from, when no unique sequence exists -> ValueError).  *)
(*  "solvec"    solve(c, ...) for an idempotent constraint table returns a *)
(*              fixed point of c (so issolution(c, solve(c)) holds).       *)
(*  "solvep"    solve(p, ...) / as_constraint(p)(x) for a linear condition *)
(*              a.x - b (=0 | <=0) with >= 2 feasible lattice points       *)
(*              returns y with p.error(y) <= tol (post-condition).         *)
(***************************************************************************)
EXTENDS Couplers, IOUtils

CONSTANTS BFams,     \* the families explored
          S,         \* lattice coordinates are 0..S-1 (half units)
          T1s,       \* the 1-d tables [0..S-1 -> 0..S-1] constraints are built from
          BKS, BH,   \* as_penalty: multipliers k and the factor h
          BIts,      \* iterations n of as_penalty penalties (pk = k*h^n)
          Tols,      \* tolerances of issolution in half units (0 = the default / exact)
          Mats,      \* 2x2 data matrices (sequences of rows) over 0..S-1
          MatsR,     \* non-square data matrices over 0..S-1
          CostTabs,  \* cost tables X -> X
          WPChains, WPCond, WPIts,   \* with_penalty: catalogue of one-level chains, condition tables, iterations
          QV, SL,    \* "scalar": entries (quarter units) and maximal length
          UV, ULens, URanges,        \* "uniq": entries (half units), lengths, <<lo,hi>> of set/range/dict forms
          LinConds   \* "solvep": <<a0, a1, b>> (whole units)

BFamSeq == <<"withpen", "aspen", "uniq", "vect", "scalar", "withcons", "vectr", "solvec", "solvep">>   \* (order balances the parts)
BNParts == IF "C17B_NPARTS" \in DOMAIN IOEnv THEN atoi(IOEnv.C17B_NPARTS) ELSE 1
BPart   == IF "C17B_PART" \in DOMAIN IOEnv THEN atoi(IOEnv.C17B_PART) ELSE 0

-----------------------------------------------------------------------------
(* the penalty closures of mystic.penalty: Penalty.tla, a one-level chain at iteration c.it *)
ZeroBase == [x \in 1..M |-> 0]
Pn == INSTANCE PenaltyC17 WITH Chains <- WPChains, NX <- M, CondTab <- WPCond, BaseTab <- <<ZeroBase>>,
                            MaxN <- 3, MaxLen <- 1, IterArgs <- {}, StoreArgs <- {},
                            cid <- c.cid, n <- <<c.it>>, ys <- << << >> >>, last <- 0
P0 == INSTANCE PenaltyC17 WITH Chains <- WPChains, NX <- M, CondTab <- WPCond, BaseTab <- <<ZeroBase>>,
                            MaxN <- 3, MaxLen <- 1, IterArgs <- {}, StoreArgs <- {},
                            cid <- c.cid, n <- <<0>>, ys <- << << >> >>, last <- 0     \* after clear()
Probe(x) == ((x + c.d) % M) + 1          \* the condition is read at (x + d) % M

(* the vector lattice *)
Gd  == 0..(S - 1)
NPt == S * S
Pts == 0..(NPt - 1)
Co(p) == <<p \div S, p % S>>
Ix(v) == S * v[1] + v[2]
Kons == [t1 : T1s, t2 : T1s, sw : BOOLEAN]
KAp(k, v) == IF k.sw THEN <<k.t1[v[2]], k.t2[v[1]]>> ELSE <<k.t1[v[1]], k.t2[v[2]]>>
KTab(k) == [p \in Pts |-> Ix(KAp(k, Co(p)))]
KArg(k, p, a) == Ix(KAp(k, Co((p + a) % NPt)))
Dist2(p, q) == (Co(p)[1] - Co(q)[1]) * (Co(p)[1] - Co(q)[1]) + (Co(p)[2] - Co(q)[2]) * (Co(p)[2] - Co(q)[2])
Idem(k) == \A p \in Pts : KTab(k)[KTab(k)[p]] = KTab(k)[p]
Seq0(f, m) == [i \in 1..m |-> f[i - 1]]

-----------------------------------------------------------------------------
(* the cases *)
USeqs == UNION {[1..l -> UV] : l \in ULens}
UItems(s) == {s[i] : i \in DOMAIN s}
UAllInt(s) == \A i \in DOMAIN s : s[i] % 2 = 0
UMin(s) == CHOOSE m \in UItems(s) : \A e \in UItems(s) : m <= e
UMax(s) == CHOOSE m \in UItems(s) : \A e \in UItems(s) : m >= e
UIntForm(f) == f \in {"int", "set", "range", "dictint"}
UAdmissible(u) ==                      \* the cases about which the documentation says something
  /\ UIntForm(u.form) => UAllInt(u.s)
  /\ u.form \in {"dict", "dictint"} => \A e \in UItems(u.s) : 2 * u.r[1] <= e /\ e <= 2 * u.r[2]

LinVal(a, p) == a[1] * Co(p)[1] + a[2] * Co(p)[2] - 2 * a[3]        \* a.x - b in half units
LinFeas(a, ty, p) == IF IsIneq(ty) THEN LinVal(a, p) <= 0 ELSE LinVal(a, p) = 0

CasesOf(f) ==
  CASE f = "withpen"  -> [fam : {f}, cid : {i \in 1..Cardinality(WPChains) : i % BNParts = BPart},   \* split over all parts
                          it : WPIts, d : A2, cost : CostTabs]
    [] f = "withcons" -> [fam : {f}, cf : Tables, ff : CostTabs, d : A2]
    [] f = "aspen"    -> [fam : {f}, k : Kons, d : A2]
    [] f = "vect"     -> [fam : {f}, k : Kons, d : A2]
    [] f = "vectr"    -> [fam : {f}, t : T1s, d : A2]
    [] f = "scalar"   -> [fam : {f}, v : UNION {[1..l -> QV] : l \in 0..SL}]             \* (the empty vector included)
    [] f = "uniq"     -> {u \in      [fam : {f}, s : USeqs, form : {"none", "int", "float"}, r : {<<0, 0>>}]
                                \cup [fam : {f}, s : USeqs, form : {"set", "range", "dict", "dictint"}, r : URanges]
                            : UAdmissible(u)}
    [] f = "solvec"   -> {u \in [fam : {f}, k : Kons] : Idem(u.k)}
    [] f = "solvep"   -> {u \in [fam : {f}, a : LinConds, ty : {"quadratic_equality", "linear_equality",
                                                                  "quadratic_inequality", "linear_inequality"}]
                            : (u.a[1] # 0 \/ u.a[2] # 0) /\ Cardinality({p \in Pts : LinFeas(u.a, u.ty, p)}) >= 2}

BInit == \E j \in 1..Len(BFamSeq) : /\ BFamSeq[j] \in BFams
                                    /\ (j % BNParts = BPart \/ BFamSeq[j] = "withpen")
                                    /\ c \in CasesOf(BFamSeq[j])
BNext == UNCHANGED c
BSpec == BInit /\ [][BNext]_c

-----------------------------------------------------------------------------
(* with_penalty *)
WPLevel   == Pn!Lv(1)
(* the documented defaults of the penalty types: k=100 (the uniform types: inf; the Lagrange types: 20), h=5.
   A case whose (k, h) are the defaults of its type may be written without them: with_penalty(ptype)(cond) *)
WPDefKH(ty) == IF ty \in {Pn!UE, Pn!UI} THEN <<Pn!INF, 5>> ELSE IF ty \in {Pn!LGI, Pn!LGE} THEN <<20, 5>> ELSE <<100, 5>>
WPIsDefault == <<WPLevel.k, WPLevel.h>> = WPDefKH(WPLevel.ty)
WPPen(x)  == Pn!EvalFrom(1, Probe(x))            \* p(x) at iteration c.it: 0.0 + the type's documented term
WPPen0(x) == P0!EvalFrom(1, Probe(x))            \* after p.clear()
WPErr2(x) == Pn!Err2From(1, Probe(x))            \* p.error(x)^2  (INF: the condition divides by zero)
WPAdd(x)  == Pn!Add(Pn!IntV(c.cost[x]), WPPen(x))                   \* additive(p)(cost)(x)
WPSol(tol, x) == WPErr2(x) # Pn!INF /\ WPErr2(x) <= tol * tol      \* issolution(p, x, tol)  (tol in whole units here)

(* the laws of Penalty.tla hold for what with_penalty builds (they depend on the chain and the iteration only) *)
WPOnce == c.fam = "withpen" /\ c.d = 0 /\ c.cost = (CHOOSE t \in CostTabs : TRUE)
WPZeroOnFeasible       == WPOnce => Pn!ZeroOnFeasible
WPPositiveWhenViolated == WPOnce => Pn!PositiveWhenViolated
WPZeroDivision         == WPOnce => Pn!ZeroDivisionInfinite
WPErrorIsViolation     == WPOnce => Pn!ErrorIsViolation
(* a bare penalty is exactly the documented term (nothing else is added); a coupled cost gets cost + penalty *)
WPBare == c.fam = "withpen" => \A x \in X :
             ~Pn!ShortCircuit(1, Probe(x)) => WPPen(x) = Pn!Add(Pn!Added(1, Probe(x)), Pn!IntV(0))
WPAdditive == c.fam = "withpen" => \A x \in X :
             /\ (Pn!IsZero(WPPen(x)) => WPAdd(x) = Pn!IntV(c.cost[x]))
             /\ (WPPen(x).t = "fin" /\ WPPen(x).lg = << >> =>
                    WPAdd(x) = Pn!Rat(c.cost[x] * WPPen(x).d + WPPen(x).n, WPPen(x).d))
(* issolution on a penalty: accepted at the exact tolerance iff the condition is satisfied *)
WPSolIffFeasible == c.fam = "withpen" => \A x \in X : WPSol(0, x) <=> Pn!Feasible(1, Probe(x))
WPSolMonotone == c.fam = "withpen" => \A x \in X : \A t1 \in Tols, t2 \in Tols :
                    (t1 <= t2 /\ WPSol(t1, x)) => WPSol(t2, x)

-----------------------------------------------------------------------------
(* with_constraint: the decorated identity *)
WCTab == [x \in X |-> Arg(c.cf, x, c.d)]                 \* the constraint itself, with its argument d
WCBy(name) == CASE name = "inner"       -> Inner(c.cf, Id, c.d, 0)
                [] name = "outer"       -> Outer(c.cf, Id, c.d, 0)
                [] name = "inner_proxy" -> InnerP(c.cf, Id, 0, c.d)
                [] name = "outer_proxy" -> OuterP(c.cf, Id, 0, c.d)
CTypes == <<"inner", "outer", "inner_proxy", "outer_proxy">>
WCIsConstraint == c.fam = "withcons" => \A j \in 1..4 : WCBy(CTypes[j]) = WCTab
WCCostAt == Inner(WCTab, c.ff, 0, 0)                    \* inner(k)(f): the cost at the constrained point
WCConsOf == Outer(WCTab, c.ff, 0, 0)                    \* outer(k)(f): the constraint applied to the value
WCCoupled == c.fam = "withcons" => \A x \in X : WCCostAt[x] = c.ff[WCTab[x]] /\ WCConsOf[x] = WCTab[c.ff[x]]

-----------------------------------------------------------------------------
(* as_penalty / issolution on the vector lattice *)
Root(v) == IF \E r \in 0..v : r * r = v THEN CHOOSE r \in 0..v : r * r = v ELSE -1
Lin(pk, D) == IF Root(D) >= 0 THEN <<pk * Root(D), 2, 1>> ELSE <<pk, 2, D>>          \* pk * sqrt(D)/2
APen(t, pk, D) ==                       \* the documented formula of type t at r = sqrt(D)/2 >= 0
  CASE t = "linear_equality"      -> Lin(pk, D)
    [] t = "quadratic_equality"   -> <<pk * D, 4, 1>>
    [] t = "uniform_equality"     -> <<IF D # 0 THEN pk ELSE 0, 1, 1>>
    [] t = "linear_inequality"    -> Lin(2 * pk, D)
    [] t = "quadratic_inequality" -> <<2 * pk * D, 4, 1>>
    [] t = "uniform_inequality"   -> <<IF D > 0 THEN pk ELSE 0, 1, 1>>
RECURSIVE BPow(_, _)
BPow(b, e) == IF e = 0 THEN 1 ELSE b * BPow(b, e - 1)
AD2(p) == Dist2(KArg(c.k, p, c.d), p)                   \* |c(x) - x|^2 in half units squared
AD2T == [p \in Pts |-> AD2(p)]                          \* (as a table: evaluated once per law)
ASolD(d2, tol, p) == d2[p] <= tol * tol
ASol(tol, p) == ASolD(AD2T, tol, p)                     \* issolution(c, x, tol/2)
AFixed == {p \in Pts : KArg(c.k, p, c.d) = p}
AsPenZeroIffFixed == c.fam = "aspen" => LET d2 == AD2T fx == AFixed IN \A j \in 1..6, k \in BKS, it \in BIts, p \in Pts :
                       (APen(PTypes[j], k * BPow(BH, it), d2[p])[1] = 0) <=> (p \in fx)
AsPenPositive     == c.fam = "aspen" => LET d2 == AD2T IN \A j \in 1..6, k \in BKS, it \in BIts, p \in Pts :
                       APen(PTypes[j], k * BPow(BH, it), d2[p])[1] >= 0
(* where the distance is a lattice number r/2 the value is Couplers' PT of the type at r, rescaled *)
Scale(t) == IF t \in {"linear_equality", "linear_inequality"} THEN 2
            ELSE IF t \in {"quadratic_equality", "quadratic_inequality"} THEN 4 ELSE 1
AsPenIsPT == c.fam = "aspen" => LET d2 == AD2T IN \A j \in 1..6, k \in BKS, p \in Pts :
               Root(d2[p]) >= 0 =>
                  LET v == APen(PTypes[j], k, d2[p])
                  IN v[3] = 1 /\ v[1] * Scale(PTypes[j]) = PT(PTypes[j], k, Root(d2[p])) * v[2]
AsPenMonotone == c.fam = "aspen" => LET d2 == AD2T IN \A p \in Pts, q \in Pts :
                   d2[p] <= d2[q] => APen("quadratic_equality", 1, d2[p])[1] <= APen("quadratic_equality", 1, d2[q])[1]
IsSolIffFixed == c.fam = "aspen" => LET d2 == AD2T fx == AFixed IN \A p \in Pts : ASolD(d2, 0, p) <=> p \in fx
IsSolMonotone == c.fam = "aspen" => LET d2 == AD2T IN \A p \in Pts : \A t1 \in Tols, t2 \in Tols :
                    (t1 <= t2 /\ ASolD(d2, t1, p)) => ASolD(d2, t2, p)

-----------------------------------------------------------------------------
(* vectorize *)
ColOf(A, j) == [i \in 1..Len(A) |-> A[i][j]]
Transp(A) == [j \in 1..Len(A[1]) |-> ColOf(A, j)]
Vect1(F(_), A) == [i \in 1..Len(A) |-> F(A[i])]                                   \* axis=1: every row
Vect0(F(_), A) == [i \in 1..Len(F(ColOf(A, 1))) |-> [j \in 1..Len(A[1]) |-> F(ColOf(A, j))[i]]]   \* axis=0: every column
VK(v) == Co(KArg(c.k, Ix(v), c.d))                                                \* "vect": a 2-vector constraint
VR(v) == [i \in 1..Len(v) |-> c.t[(v[Len(v) + 1 - i] + c.d) % S]]                 \* "vectr": map t, reverse
VectDual == /\ c.fam = "vect"  => \A A \in Mats  : Vect0(VK, A) = Transp(Vect1(VK, Transp(A)))
            /\ c.fam = "vectr" => \A A \in MatsR : Vect0(VR, A) = Transp(Vect1(VR, Transp(A)))
VectShape == /\ c.fam = "vect"  => \A A \in Mats  : Len(Vect0(VK, A)) = Len(A) /\ Len(Vect1(VK, A)) = Len(A)
             /\ c.fam = "vectr" => \A A \in MatsR : /\ Len(Vect0(VR, A)) = Len(A) /\ Len(Vect0(VR, A)[1]) = Len(A[1])
                                                    /\ Len(Vect1(VR, A)) = Len(A) /\ Len(Vect1(VR, A)[1]) = Len(A[1])
VAxes == {0, 1}                          \* "must be either 0 or 1": any other axis is a ValueError
(* vacuity companion, TLC must violate it: the axis matters *)
AxisIrrelevant == c.fam = "vect" => \A A \in Mats : Vect0(VK, A) = Vect1(VK, A)

-----------------------------------------------------------------------------
(* near_integers / has_unique (quarter units) *)
QDist(v) == LET m == v % 4 IN IF m <= 2 THEN m ELSE 4 - m            \* |x - round(x)| in quarters
RECURSIVE SumF(_, _)
SumF(f, m) == IF m = 0 THEN 0 ELSE f[m] + SumF(f, m - 1)
NearQ(v) == SumF([i \in DOMAIN v |-> QDist(v[i])], Len(v))
Count(v, e) == Cardinality({i \in DOMAIN v : v[i] = e})
HasU(v) == SumF([i \in DOMAIN v |-> Count(v, v[i])], Len(v))
AllDistinct(v) == \A i \in DOMAIN v, j \in DOMAIN v : i # j => v[i] # v[j]
NearZeroIffInts == c.fam = "scalar" => (NearQ(c.v) = 0 <=> \A i \in DOMAIN c.v : c.v[i] % 4 = 0)
NearBounded     == c.fam = "scalar" => 0 <= NearQ(c.v) /\ NearQ(c.v) <= 2 * Len(c.v)
HasUniqueLaw    == c.fam = "scalar" => /\ HasU(c.v) >= Len(c.v)
                                       /\ (HasU(c.v) = Len(c.v) <=> AllDistinct(c.v))
                                       /\ HasU(c.v) = SumF([i \in 1..Len(c.v) |->
                                                             IF \A j \in 1..(i - 1) : c.v[j] # c.v[i]
                                                             THEN Count(c.v, c.v[i]) * Count(c.v, c.v[i]) ELSE 0], Len(c.v))

-----------------------------------------------------------------------------
(* unique / impose_unique: the post-condition *)
UN      == Len(c.s)
UKeep   == {i \in 1..UN : \A j \in 1..(i - 1) : c.s[j] # c.s[i]}     \* first occurrences keep their value
UNeed   == UN - Cardinality(UKeep)                                   \* positions that get a new value
USem    == IF UIntForm(c.form) \/ (c.form = "none" /\ UAllInt(c.s)) THEN "int" ELSE "float"
Evens(a, b) == {2 * m : m \in a..b}                                  \* whole numbers a..b in half units
UPool   == CASE c.form \in {"none", "int"} -> Evens(UMin(c.s) \div 2, UMax(c.s) \div 2)
             [] c.form \in {"set", "range"} -> Evens(c.r[1], c.r[2])
             [] c.form = "dictint"          -> Evens(c.r[1], c.r[2] + 1)    \* {'min':lo,'max':hi+1}: closed reading
             [] OTHER                       -> {}
UStrict == IF c.form = "dictint" THEN Evens(c.r[1], c.r[2]) ELSE UPool      \* range(min,max) read half-open
UIval   == CASE c.form = "dict" -> <<2 * c.r[1], 2 * (c.r[2] + 1)>>
             [] OTHER           -> <<UMin(c.s), UMax(c.s)>>
UOutcome ==
  IF USem = "int"
  THEN IF ~(UItems(c.s) \subseteq UPool) THEN "raise"              \* an item outside the given set
       ELSE IF UN <= Cardinality(UStrict) THEN "ok"
       ELSE IF UN > Cardinality(UPool) THEN "raise"                \* no unique sequence of that length
       ELSE "either"
  ELSE IF UIval[1] = UIval[2] /\ UN > 1 THEN "raise" ELSE "ok"
(* the ValueError condition is exactly non-existence of a unique completion *)
UniqFeasible == (c.fam = "uniq" /\ USem = "int" /\ UItems(c.s) \subseteq UPool) =>
        ((Cardinality(UPool \ UItems(c.s)) >= UNeed) <=> (UN <= Cardinality(UPool)))
UniqKeepCount == c.fam = "uniq" => Cardinality(UKeep) = Cardinality(UItems(c.s)) /\ (UNeed = 0 <=> UKeep = 1..UN)

-----------------------------------------------------------------------------
(* solve *)
SCFixed == {p \in Pts : KTab(c.k)[p] = p}
SCImage == {KTab(c.k)[p] : p \in Pts}
SolveCFixedIsImage == c.fam = "solvec" => SCFixed = SCImage /\ SCFixed # {}
SPFeas == {p \in Pts : LinFeas(c.a, c.ty, p)}
SolvePFeasIffNoPenalty == c.fam = "solvep" => \A p \in Pts : (p \in SPFeas) <=> (PT(c.ty, 1, LinVal(c.a, p)) = 0)
SolvePPremise == c.fam = "solvep" => Cardinality(SPFeas) >= 2     \* a non-degenerate feasible set inside the lattice box

-----------------------------------------------------------------------------
(* emission *)
VTs(Op(_)) == [p \in 1..M |-> Pn!VT(Op(p - 1))]
BoolTab(Op(_), m) == [p \in 1..m |-> Op(p - 1)]
BEmit ==
  CASE c.fam = "withpen" ->
         LET SolT(t) == LET O(x) == WPSol(t, x) IN BoolTab(O, M)
         IN PrintT(<<"@@", ToJson([fam |-> c.fam, ty |-> Pn!TypeName[WPLevel.ty], k |-> WPLevel.k, h |-> WPLevel.h,
                     cond |-> WPCond[WPLevel.c], it |-> c.it, d |-> c.d, cost |-> Seq1(c.cost), dflt |-> WPIsDefault,
                     pen |-> VTs(WPPen), pen0 |-> VTs(WPPen0), add |-> VTs(WPAdd),
                     err2 |-> [p \in 1..M |-> WPErr2(p - 1)],
                     sol |-> [t \in Tols |-> [tol |-> t, acc |-> SolT(t)]],
                     inf |-> Pn!INF, zd |-> Pn!ZD])>>)
    [] c.fam = "withcons" ->
         PrintT(<<"@@", ToJson([fam |-> c.fam, cf |-> Seq1(c.cf), ff |-> Seq1(c.ff), d |-> c.d,
                     wc |-> [j \in 1..4 |-> [ctype |-> CTypes[j], tab |-> Seq1(WCBy(CTypes[j]))]],
                     costat |-> Seq1(WCCostAt), consof |-> Seq1(WCConsOf)])>>)
    [] c.fam = "aspen" ->
         LET d2 == AD2T
             SolT(t) == LET O(p) == ASolD(d2, t, p) IN BoolTab(O, NPt)
         IN PrintT(<<"@@", ToJson([fam |-> c.fam, S |-> S, t1 |-> Seq0(c.k.t1, S), t2 |-> Seq0(c.k.t2, S), sw |-> c.k.sw,
                     d |-> c.d, tab |-> Seq0(KTab(c.k), NPt), h |-> BH,
                     d2 |-> Seq0(d2, NPt), fixed |-> AFixed,
                     sq |-> [p \in 1..NPt |-> Root(d2[p - 1]) >= 0],        \* the distance is a lattice number: float arithmetic exact
                     pen |-> [j \in 1..6 |-> [ty |-> PTypes[j],
                                v |-> [k \in BKS |-> [k |-> k, v |-> [it \in BIts |-> [it |-> it,
                                   v |-> [p \in 1..NPt |-> APen(PTypes[j], k * BPow(BH, it), d2[p - 1])]]]]]]],
                     dflt |-> [p \in 1..NPt |-> APen("quadratic_equality", 100, d2[p - 1])],   \* ptype=None, k=100
                     sol |-> [t \in Tols |-> [tol |-> t, acc |-> SolT(t)]]])>>)
    [] c.fam = "vect" ->
         PrintT(<<"@@", ToJson([fam |-> c.fam, S |-> S, tab |-> Seq0(KTab(c.k), NPt), d |-> c.d,
                     t1 |-> Seq0(c.k.t1, S), t2 |-> Seq0(c.k.t2, S), sw |-> c.k.sw, axes |-> VAxes,
                     res |-> {[m |-> A, a0 |-> Vect0(VK, A), a1 |-> Vect1(VK, A)] : A \in Mats}])>>)
    [] c.fam = "vectr" ->
         PrintT(<<"@@", ToJson([fam |-> c.fam, S |-> S, t |-> Seq0(c.t, S), d |-> c.d,
                     res |-> {[m |-> A, a0 |-> Vect0(VR, A), a1 |-> Vect1(VR, A)] : A \in MatsR}])>>)
    [] c.fam = "scalar" ->
         PrintT(<<"@@", ToJson([fam |-> c.fam, v |-> c.v, near |-> NearQ(c.v), hasu |-> HasU(c.v)])>>)
    [] c.fam = "uniq" ->
         PrintT(<<"@@", ToJson([fam |-> c.fam, s |-> c.s, form |-> c.form, lo |-> c.r[1], hi |-> c.r[2],
                     sem |-> USem, outcome |-> UOutcome, keep |-> UKeep, need |-> UNeed,
                     pool |-> (IF USem = "int" THEN UPool \ UItems(c.s) ELSE {}), ival |-> UIval])>>)
    [] c.fam = "solvec" ->
         PrintT(<<"@@", ToJson([fam |-> c.fam, S |-> S, tab |-> Seq0(KTab(c.k), NPt), fixed |-> SCFixed,
                     t1 |-> Seq0(c.k.t1, S), t2 |-> Seq0(c.k.t2, S), sw |-> c.k.sw])>>)
    [] c.fam = "solvep" ->
         PrintT(<<"@@", ToJson([fam |-> c.fam, S |-> S, a |-> c.a, ty |-> c.ty, feas |-> SPFeas,
                     val |-> [p \in 1..NPt |-> LinVal(c.a, p - 1)]])>>)
=============================================================================
