------------------------------ MODULE Transforms ------------------------------
(***************************************************************************)
(* S9 -- the constraint transforms of mystic.constraints / mystic.tools as *)
(* a specification (property C16).                                         *)
(*                                                                         *)
(* NUMBERS.  A vector is a record [v |-> <<v1..vn>>, k |-> K] of integers   *)
(* standing for the reals  v_i / (S*K)  (S = scale, 2 = halves).  Start    *)
(* vectors and all decorator parameters live on the base lattice (K = 1,   *)
(* parameters in units of 1/S); only the five moment decorators leave it   *)
(* (their results are exact rationals, K > 1, kept in lowest terms).       *)
(* NONE encodes Python's None (index=None, digits=None), -INF/INF an open  *)
(* interval side.                                                          *)
(*                                                                         *)
(* A DECORATOR is a uniform record                                         *)
(*   [k  |-> kind, ix |-> Python index tuple (<<NONE>> = None),            *)
(*    p  |-> integer parameters, iv |-> tuples (intervals / pairs / sets), *)
(*    g  |-> inner function the decorator is applied to: 0 identity,       *)
(*           1 "add one half" (distinguishes input- from output-rewriting)]*)
(* built by the D* constructors below; the catalogue `Decs` is a constant. *)
(*                                                                         *)
(* INDEX SELECTION under Python rules: None selects all, i >= 0 selects    *)
(* position i, i < 0 position n+i, anything outside -n..n-1 selects        *)
(* nothing (it is ignored, the other members of the tuple still count).    *)
(*                                                                         *)
(* WHAT A DECORATOR DOES is `Out(d, x)`: the SET of vectors the documented *)
(* behaviour allows for decorator(...)(inner)(x).  It is a singleton for   *)
(* the deterministic decorators (projection rules including ties are       *)
(* spelled out) and a post-condition for the randomising ones (`unique`,   *)
(* impose_bounds with clip=False or nearest=False, equidistant intervals). *)
(* `Defined(d, x)` is the premise under which the documentation promises   *)
(* anything (non-degenerate variance, no aliasing index tuple, ...).       *)
(*                                                                         *)
(* STATE MACHINE.  x = current vector, last = decorator applied last       *)
(* (0 = none yet), hist = the script so far (recorded when MaxHist > 0).   *)
(* Actions: Apply(i) applies catalogue decorator i to x; Reapply applies   *)
(* the decorator applied last once more.  Theorems (TLC: INVARIANT /       *)
(* PROPERTY lines of MC_Transforms*.cfg, over every reachable state):      *)
(*   ThmSelective    entries outside the footprint are unchanged           *)
(*   ThmLands        the result conforms to the target set                 *)
(*   ThmConforming   a conforming vector is returned unchanged             *)
(*   ThmEntrywise    selected entries already in the target set unchanged  *)
(*   ThmIdempotent   Out(d, y) = {y} for every y in Out(d, x)              *)
(*   ThmMasked       masked inserts exactly the addressed entries          *)
(*   ThmAll          the six above in one pass (big configurations)        *)
(*   ThmScale        no absolute scale: input and value parameters times c  *)
(*                   give the result times c (section MAGNITUDES)           *)
(*   StepFootprint   (action) every step only touches its footprint        *)
(*   ReapplyNoop     (action) Reapply never changes x                      *)
(*   ScriptFootprint every recorded step of a script kept to its footprint *)
(* Emit / EmitScript print the cases replayed on the real decorators by    *)
(* harness/check_C16.py (spec -> code; the spec is the oracle).            *)
(*                                                                         *)
(* IMPOSE_AS (section "tracking masks" below) is specified for GENERAL     *)
(* masks, as documented ("the offset is applied to the second member of    *)
(* the tuple, and can accumulate"), not as the implementation's loop:      *)
(*   - a pair (i, j) of python indices with an out-of-range member is      *)
(*     ignored; the others are edges Pos(i) -> Pos(j) of a directed graph; *)
(*   - after the call EVERY pair holds: y[j] = y[i] + offset (None = 0);   *)
(*     hence inside a connected component (pair direction ignored) the     *)
(*     value of an entry is  x[source] + offset * depth(entry), depth =    *)
(*     number of pairs on a directed path from an entry without incoming   *)
(*     pair (a "root", depth 0) to the entry;                              *)
(*   - the SOURCE of a component is its root; when several entries of a    *)
(*     component have no incoming pair (fan-in: (0,1),(3,1)) it is the     *)
(*     root whose pair comes first in the mask list - the docstring        *)
(*     example shows x3 := x0 for exactly this mask, and the code agrees   *)
(*     whenever the list names each component source first; the other      *)
(*     roots then take the source's value (they are at depth 0);           *)
(*   - the source and all entries outside every in-range pair keep their   *)
(*     value;                                                              *)
(*   - PREMISE (AsDefined): the relation can hold for all pairs at once,   *)
(*     i.e. the graph has no directed cycle or self-pair and no entry is   *)
(*     reached at two different depths (AsGraded), and no position is      *)
(*     spelled in two ways in one mask (0 and -n: AsNoAlias).  Outside     *)
(*     the premise nothing is promised (Expect = 0; counted, not judged).  *)
(*   - IDEMPOTENCE with a non-zero offset: f(f(x)) = f(x) is promised,     *)
(*     because the source is an entry the first application left alone     *)
(*     (depth 0) and the second application re-establishes                 *)
(*     y[j] = y[i] + offset from the same source value; offsets do NOT     *)
(*     accumulate over repeated application, only along a chain.           *)
(*     (ThmIdempotent / ThmAll / ReapplyNoop check exactly this.)          *)
(* The docstring examples of impose_as are ASSUMEd below (AsDocExamples).  *)
(* WITH_STD (kind "std") is specified like with_variance: the docstring    *)
(* calls it an outer coupling of impose_std, so with_std(t) reaches the     *)
(* variance t^2 and keeps the mean (premise: non-degenerate sample).       *)
(* The measure decorators impose_measure / impose_position / impose_weight *)
(* have their own state machine (TransformsMeasure.tla), the interval and  *)
(* pair helpers of mystic.tools theirs (Intervals.tla, PairTools.tla).     *)
(* SYNCHRONIZED documents "operations within a single mask are unordered": *)
(* chains inside one synchronized mask stay outside the premise.           *)
(***************************************************************************)
EXTENDS Integers, Sequences, FiniteSets, TLC, Json, SequencesExt, FiniteSetsExt, IOUtils

CONSTANTS S,         \* scale: the integer v stands for v/S
          Vals,      \* entry values of the start vectors (units of 1/S)
          Lens,      \* lengths of the start vectors
          Decs,      \* catalogue of decorators (set of D* records)
          MaxHist    \* 0: case-table mode (state = vector); n>0: scripts of n steps

VARIABLES x, last, hist
vars == <<x, last, hist>>

NONE == 999999
INF  == 1000000
Abs(a) == IF a < 0 THEN -a ELSE a
Rng(s) == {s[i] : i \in DOMAIN s}
Add(a, b) == a + b
SumSeq(s) == FoldSeq(Add, 0, s)
RECURSIVE Gcd(_, _)
Gcd(a, b) == IF b = 0 THEN a ELSE Gcd(b, a % b)
Pow2(m) == m \in {1, 2, 4, 8, 16, 32, 64, 128, 256, 512, 1024}

-----------------------------------------------------------------------------
(* vectors *)
Vec(v, k) == [v |-> v, k |-> k]
Canon(v, k) ==                         \* lowest terms: divide by gcd(k, all entries)
  LET g == FoldSeq(Gcd, k, [i \in DOMAIN v |-> Abs(v[i])])
  IN  Vec([i \in DOMAIN v |-> v[i] \div g], k \div g)
StartVectors == UNION {{Vec(v, 1) : v \in [1..n -> Vals]} : n \in Lens}
(* further steps are only taken from (and the theorems stated for) vectors of the bounded class *)
InDomain(y) == y.k = 1 /\ Len(y.v) \in Lens /\ Rng(y.v) \subseteq Vals

-----------------------------------------------------------------------------
(* Python index selection *)
IsNone(ix) == ix = <<NONE>>
InRange(i, n) == -n <= i /\ i < n
Pos(i, n) == IF i >= 0 THEN i + 1 ELSE n + i + 1            \* 1-based position of python index i
Sel(ix, n) == IF IsNone(ix) THEN 1..n
              ELSE {Pos(ix[j], n) : j \in {m \in DOMAIN ix : InRange(ix[m], n)}}
HasOOR(ix, n) == ~IsNone(ix) /\ \E j \in DOMAIN ix : ~InRange(ix[j], n)
NoAlias(ix, n) == IsNone(ix) \/ \A a, b \in DOMAIN ix :
                     (a # b /\ InRange(ix[a], n) /\ InRange(ix[b], n)) => Pos(ix[a], n) # Pos(ix[b], n)

-----------------------------------------------------------------------------
(* decorator constructors: the catalogue is a set of these uniform records *)
D(k, ix, p, iv, g) == [k |-> k, ix |-> ix, p |-> p, iv |-> iv, g |-> g, a |-> << >>]
       \* a: only impose_as records fill it (DAs, below): the analysis of their mask for every input length
All == <<NONE>>
DBounds(iv, ix, clip, nearest, form) == D("bounds", ix, <<clip, nearest, form>>, iv, 0)
       \* impose_bounds(iv, index=ix, clip, nearest); form 1: bounds given as dict {i: iv}
DDiscrete(samples, ix)       == D("discrete", ix, << >>, <<samples>>, 0)
DIntegers(asint, ix)         == D("integers", ix, <<asint>>, << >>, 0)     \* asint 1: ints=True, 0: ints=float
DRounded(digits, ix)         == D("rounded", ix, <<digits>>, << >>, 0)
DPrecision(digits, ix, g)    == D("precision", ix, <<digits>>, << >>, g)
DUnique(full)                == D("unique", All, << >>, <<full>>, 0)
DMonotonic(asc, outer, ix, g) == D("monotonic", ix, <<asc, outer>>, << >>, g)
DSorting(asc, outer, ix, g)  == D("sorting", ix, <<asc, outer>>, << >>, g)
DAt(ix, target)              == D("at", ix, <<target>>, << >>, 0)          \* impose_at(ix, target)
(* DAs(pairs, offset): impose_as([(i,j),..], offset), x[j] tracks x[i]; defined with the tracking masks below *)
DMean(t)                     == D("mean", All, <<t>>, << >>, 0)
DVariance(t)                 == D("var", All, <<t>>, << >>, 0)
DStd(t)                      == D("std", All, <<t>>, << >>, 0)             \* with_std(t): "an outer coupling of impose_std"
DSpread(t)                   == D("spread", All, <<t>>, << >>, 0)
DNormalized(t)               == D("norm", All, <<t>>, << >>, 0)
DMasked(mask)                == D("masked", All, << >>, mask, 0)           \* mask = <<key, value>> tuples
DPartial(mask)               == D("partial", All, << >>, mask, 0)
DSync(mask)                  == D("sync", All, << >>, mask, 0)             \* <<i, j, c>>: c = 0 {i: j}, c # 0 {i: (j, c)}
DSyncF(mask, form)           == D("sync", All, <<form>>, mask, 0)          \* c # 0 given as a callable: form 1 {i: (j, lambda t: c*t)},
                                                                           \*                             form 2 {i: (j, lambda t: t + c/S)}
                                                                           \* form 3: c # 0 stands for the constant scale 0, {i: (j, 0)}
DClipped(lo, hi, exit, g)    == D("clipped", All, <<lo, hi, exit>>, << >>, g)
DSuppressed(tol, exit, g)    == D("suppressed", All, <<tol, exit>>, << >>, g)

StatKinds == {"mean", "var", "std", "spread", "norm"}
IsVar(d) == d.k \in {"var", "std"}          \* with_std(t) promises what with_variance(t^2) promises: variance t^2, mean kept
IsStat(d) == d.k \in StatKinds
(* output-rewriting decorators transform the result of the inner function *)
IsOuter(d) == \/ d.k = "precision"
              \/ (d.k \in {"monotonic", "sorting"} /\ d.p[2] = 1)
              \/ (d.k = "clipped" /\ d.p[3] = 1)
              \/ (d.k = "suppressed" /\ d.p[2] = 1)

-----------------------------------------------------------------------------
(* projections on single entries (base lattice) *)
InIv(a, I) == I[1] <= a /\ a <= I[2]
InSome(a, iv) == \E j \in DOMAIN iv : InIv(a, iv[j])
ClipTo(a, I) == IF a < I[1] THEN I[1] ELSE IF a > I[2] THEN I[2] ELSE a
DistIv(a, I) == Min({Abs(a - I[1]), Abs(a - I[2])})           \* distance of an outside point to an interval
NearestIvs(a, iv) == {j \in DOMAIN iv : \A m \in DOMAIN iv : DistIv(a, iv[j]) <= DistIv(a, iv[m])}
(* ranges <<lo,hi>> allowed for a selected entry a that lies in none of the intervals *)
BoundsAllowed(a, iv, clip, nearest) ==
  LET J == IF nearest = 1 THEN NearestIvs(a, iv) ELSE DOMAIN iv
  IN  IF clip = 1 THEN {<<ClipTo(a, iv[j]), ClipTo(a, iv[j])>> : j \in J}     \* an end of the chosen interval
                  ELSE {iv[j] : j \in J}                                      \* anywhere in the chosen interval

(* nearest member of a finite set; a tie goes to the LOWER member (hi only if strictly nearer) *)
NearestMember(a, M) ==
  CHOOSE s \in M : /\ \A t \in M : Abs(s - a) <= Abs(t - a)
                   /\ \A t \in M : Abs(t - a) = Abs(s - a) => s <= t
IsTie(a, M) == \E s, t \in M : s # t /\ Abs(s - a) = Abs(t - a) /\ \A u \in M : Abs(s - a) <= Abs(u - a)

(* round to a multiple of u > 0, halves to the EVEN multiple (numpy.round) *)
RoundTo(a, u) ==
  LET q == a \div u
      r == a - q * u
  IN  IF 2 * r < u THEN q * u
      ELSE IF 2 * r > u THEN (q + 1) * u
      ELSE IF q % 2 = 0 THEN q * u ELSE (q + 1) * u
RECURSIVE Pow10(_)
Pow10(e) == IF e = 0 THEN 1 ELSE 10 * Pow10(e - 1)
(* digits -> rounding unit in 1/S (0: every lattice value is kept).  digits >= 1: on a decimal lattice     *)
(* (S a multiple of 10^digits, e.g. S = 10^9 with digits = 8) the unit is S / 10^digits; on a lattice that *)
(* is coarser than 10^-digits (S = 2 with digits = 1: 10 % S = 0) every lattice value is kept.              *)
Digits(d) == IF d.p[1] = NONE THEN 0 ELSE d.p[1]
RoundUnit(d) == IF Digits(d) >= 1
                THEN (IF S % Pow10(Digits(d)) = 0 THEN S \div Pow10(Digits(d)) ELSE 0)
                ELSE S * Pow10(-Digits(d))
RoundEntry(d, a) == IF RoundUnit(d) = 0 THEN a ELSE RoundTo(a, RoundUnit(d))

(* ascending sort of a sequence (duplicates kept): entry j is the value with rank j *)
SortedAsc(s) ==
  [j \in DOMAIN s |-> CHOOSE a \in Rng(s) :
       /\ Cardinality({m \in DOMAIN s : s[m] < a}) < j
       /\ j <= Cardinality({m \in DOMAIN s : s[m] <= a})]
PosSeq(P) == SetToSortSeq(P, <)                                \* positions in increasing order
RankIn(P, i) == Cardinality({m \in P : m <= i})                \* 1-based rank of position i in P

-----------------------------------------------------------------------------
(* the inner function *)
Inner(g, v) == IF g = 0 THEN v ELSE [i \in DOMAIN v |-> v[i] + (S \div 2)]

InRangePairs(iv, n) == {j \in DOMAIN iv : InRange(iv[j][1], n) /\ InRange(iv[j][2], n)}

-----------------------------------------------------------------------------
(* tracking masks of impose_as: the directed graph of the in-range pairs (1-based positions) *)
AsOff(d) == IF d.p[1] = NONE THEN 0 ELSE d.p[1]                       \* offset None counts as 0
AsEdges(iv, n) == {<<Pos(iv[j][1], n), Pos(iv[j][2], n)>> : j \in InRangePairs(iv, n)}
AsNodes(E) == {e[1] : e \in E} \cup {e[2] : e \in E}
AsRoots(E) == AsNodes(E) \ {e[2] : e \in E}                           \* entries without incoming pair
(* connected component (pair direction ignored) *)
RECURSIVE AsGrow(_, _)
AsGrow(A, E) ==
  LET B == A \cup {e[2] : e \in {e \in E : e[1] \in A}} \cup {e[1] : e \in {e \in E : e[2] \in A}}
  IN  IF B = A THEN A ELSE AsGrow(B, E)
AsComp(a, E) == AsGrow({a}, E)
(* depth: number of pairs on the longest directed path ending at a; a walk of |nodes| pairs     *)
(* repeats a node, so running out of fuel means a directed cycle (reported as depth >= AsCyc)   *)
AsCyc == 100
RECURSIVE AsLP(_, _, _)
AsLP(a, E, fuel) ==
  IF fuel = 0 THEN AsCyc
  ELSE LET P  == {e[1] : e \in {e \in E : e[2] = a}}
           DP == {AsLP(b, E, fuel - 1) : b \in P}                  \* (the maximum is spelled out: TLC cannot pre-compute
       IN  IF P = {} THEN 0 ELSE 1 + (CHOOSE c \in DP : \A b \in DP : c >= b) \*  definitions that pass a recursive call to Max)
AsDepth(a, E) == AsLP(a, E, Cardinality(AsNodes(E)))
(* y[j] = y[i] + offset can hold for every pair at once: acyclic, every pair goes down exactly one level *)
AsGraded(E) == \A e \in E : AsDepth(e[2], E) < AsCyc /\ AsDepth(e[2], E) = AsDepth(e[1], E) + 1
(* no position is written in two ways (0 and -n) among the in-range members of one mask *)
AsNoAlias(iv, n) ==
  LET R == UNION {{iv[j][1], iv[j][2]} : j \in InRangePairs(iv, n)}
  IN  \A a, b \in R : Pos(a, n) = Pos(b, n) => a = b
AsDefined(iv, n) == AsNoAlias(iv, n) /\ AsGraded(AsEdges(iv, n))
(* the source of the component of node a: its root; of several roots the one whose pair is listed first *)
AsSource(a, iv, n) ==
  LET E  == AsEdges(iv, n)
      R  == AsRoots(E) \cap AsComp(a, E)
      JS == {j \in InRangePairs(iv, n) : Pos(iv[j][1], n) \in R}
      jm == CHOOSE j \in JS : \A m \in JS : j <= m                   \* the first-listed pair that starts at a root
  IN  Pos(iv[jm][1], n)
AsSources(iv, n) == {AsSource(a, iv, n) : a \in AsNodes(AsEdges(iv, n))}
AsT(iv, off, v) ==
  LET n == Len(v)
      E == AsEdges(iv, n)
      N == AsNodes(E)
  IN  [i \in DOMAIN v |-> IF i \in N THEN v[AsSource(i, iv, n)] + off * AsDepth(i, E) ELSE v[i]]
(* classes of masks (for case accounting and violation keys; they do not enter any expected value):  *)
(*   chained    some entry is second member of one pair and first member of another                  *)
(*   multiroot  some component has several entries without incoming pair (fan-in)                    *)
(*   listing    0: every component's first-listed pair starts at its source and every later pair     *)
(*                 shares a member with an earlier-listed pair of its component ("source first");    *)
(*              1: prefix-connected, but a component's first-listed pair does not start at its source*)
(*              2: some pair is listed before the pairs that connect it to the rest of its component *)
AsChained(iv, n) == LET E == AsEdges(iv, n) IN {e[1] : e \in E} \cap {e[2] : e \in E} # {}
AsMultiRoot(iv, n) == LET E == AsEdges(iv, n) IN \E a, b \in AsRoots(E) : a # b /\ b \in AsComp(a, E)
AsListing(iv, n) ==
  LET E == AsEdges(iv, n)
      I == InRangePairs(iv, n)
      comp(j) == AsComp(Pos(iv[j][1], n), E)
      mem(j) == {Pos(iv[j][1], n), Pos(iv[j][2], n)}
      earlier(j) == {m \in I : m < j /\ Pos(iv[m][1], n) \in comp(j)}
      prefix == \A j \in I : earlier(j) = {} \/ \E m \in earlier(j) : mem(m) \cap mem(j) # {}
      srcfirst == \A j \in I : earlier(j) = {} => Pos(iv[j][1], n) = AsSource(Pos(iv[j][1], n), iv, n)
  IN  IF ~prefix THEN 2 ELSE IF ~srcfirst THEN 1 ELSE 0
AsClassOf(iv, n) == IF AsDefined(iv, n)
                    THEN <<IF AsChained(iv, n) THEN 1 ELSE 0, IF AsMultiRoot(iv, n) THEN 1 ELSE 0, AsListing(iv, n)>>
                    ELSE <<0, 0, 0>>

(* the same by table: the analysis of a mask for an input of length n -- premise, and for every position the    *)
(* position of its source (0: in no in-range pair) and its depth -- is computed once per decorator (field `a`    *)
(* of the record, lengths 0..AsPlanLen) instead of once per vector; longer inputs are analysed on the spot        *)
AsPlanLen == 5
AsAnalysis(iv, n) ==
  LET E  == AsEdges(iv, n)
      N  == AsNodes(E)
      df == AsDefined(iv, n)
  IN  [df  |-> df,
       src |-> [i \in 1..n |-> IF df /\ i \in N THEN AsSource(i, iv, n) ELSE 0] \o << >>,
       dep |-> [i \in 1..n |-> IF df /\ i \in N THEN AsDepth(i, E) ELSE 0] \o << >>,
       cls |-> AsClassOf(iv, n)]
AsPlanAll(iv) == [m \in 1..(AsPlanLen + 1) |-> AsAnalysis(iv, m - 1)] \o << >>
DAsP(pairs, offset, plan) == [k |-> "as", ix |-> All, p |-> <<offset>>, iv |-> pairs, g |-> 0, a |-> plan]
DAs(pairs, offset) == DAsP(pairs, offset, AsPlanAll(pairs))          \* offset NONE = None
AsPlan(d, n) == IF n <= AsPlanLen /\ Len(d.a) > 0 THEN d.a[n + 1] ELSE AsAnalysis(d.iv, n)
AsTP(d, v) == LET pl == AsPlan(d, Len(v))                                      \* = AsT(d.iv, AsOff(d), v)
              IN  [i \in DOMAIN v |-> IF pl.src[i] = 0 THEN v[i] ELSE v[pl.src[i]] + AsOff(d) * pl.dep[i]]
AsClass(d, n) == IF d.k = "as" THEN AsPlan(d, n).cls ELSE <<0, 0, 0>>
(* the docstring examples of impose_as (values in units of 1/S) *)
AsDocMask == << <<0, 1>>, <<3, 1>>, <<4, 5>>, <<5, 6>>, <<5, 7>> >>
AsDoc(off, xs, ys) == /\ AsDefined(AsDocMask, Len(xs))
                      /\ AsT(AsDocMask, off * S, [i \in DOMAIN xs |-> xs[i] * S]) = [i \in DOMAIN ys |-> ys[i] * S]
                      /\ AsTP(DAs(AsDocMask, IF off = 0 THEN NONE ELSE off * S), [i \in DOMAIN xs |-> xs[i] * S])
                            = [i \in DOMAIN ys |-> ys[i] * S]
AsDocExamples ==
  /\ AsDoc(0,  <<9, 8, 7, 6, 5, 4, 3, 2, 1>>,      <<9, 9, 7, 9, 5, 5, 5, 5, 1>>)
  /\ AsDoc(0,  <<0, 1, 0, 1>>,                     <<0, 0, 0, 0>>)
  /\ AsDoc(0,  <<-1, -2, -3, -4, -5, -6, -7>>,     <<-1, -1, -3, -1, -5, -5, -5>>)
  /\ AsDoc(10, <<9, 8, 7, 6, 5, 4, 3, 2, 1>>,      <<9, 19, 7, 9, 5, 15, 25, 25, 1>>)
  /\ AsDoc(10, <<0, 1, 0, 1>>,                     <<0, 10, 0, 0>>)
  /\ AsDoc(10, <<-1, -2, -3, -4, -5, -6>>,         <<-1, 9, -3, -1, -5, 5>>)
  /\ AsDoc(10, <<-1, -2, -3, -4, -5, -6, -7>>,     <<-1, 9, -3, -1, -5, 5, 15>>)
ASSUME S <= 1000 => AsDocExamples          \* (the examples' values times S must stay inside TLC's 32-bit integers)

-----------------------------------------------------------------------------
(* footprint: positions (of the OUTPUT) a decorator may touch, for an input of length n *)
Footprint(d, n) ==
  CASE d.k \in {"bounds", "discrete", "integers", "rounded", "precision", "monotonic", "sorting", "at"}
                       -> Sel(d.ix, n)
    [] d.k = "as"      -> \* every entry of a pair except the component sources (nothing is promised outside the premise)
                          LET pl == AsPlan(d, n) IN {i \in 1..n : pl.src[i] # 0 /\ pl.src[i] # i}
    [] d.k = "sync"    -> {Pos(d.iv[j][1], n) : j \in InRangePairs(d.iv, n)}
    [] d.k = "partial" -> {Pos(d.iv[j][1], n) : j \in {m \in DOMAIN d.iv : InRange(d.iv[m][1], n)}}
    [] d.k = "masked"  -> {d.iv[j][1] + 1 : j \in DOMAIN d.iv}
    [] OTHER           -> 1..n

-----------------------------------------------------------------------------
(* premises *)
MaskKeys(d) == {d.iv[j][1] : j \in DOMAIN d.iv}
Defined(d, y) ==
  LET v == y.v
      n == Len(y.v)
  IN
  /\ (~IsStat(d) => y.k = 1)
  /\ CASE d.k \in {"monotonic", "sorting"} ->
            \* an out-of-range member of a multi-index raises (operation undefined); aliases excluded
            \* (an EMPTY selection raises TypeError in operator.itemgetter: undefined as well)
            IsNone(d.ix) \/ Len(d.ix) = 1 \/ (Len(d.ix) > 1 /\ ~HasOOR(d.ix, n) /\ NoAlias(d.ix, n))
       [] d.k = "at" -> \A j \in DOMAIN d.ix : d.ix[j] >= -n      \* a too-negative index raises
       [] d.k = "unique" -> Rng(v) \subseteq Rng(d.iv[1]) /\ n <= Cardinality(Rng(d.iv[1]))
       [] d.k = "as" ->     \* the documented relation can hold for all pairs at once (chains, fan-in/out, trees are fine)
            AsPlan(d, n).df
       [] d.k = "sync" ->   \* distinct keys, and no chains: "operations within a single mask are unordered" (docstring)
            /\ \A a, b \in InRangePairs(d.iv, n) : a # b => Pos(d.iv[a][1], n) # Pos(d.iv[b][1], n)
            /\ {Pos(d.iv[j][1], n) : j \in InRangePairs(d.iv, n)} \cap {Pos(d.iv[j][2], n) : j \in InRangePairs(d.iv, n)} = {}
       [] d.k = "partial" ->
            \A a, b \in DOMAIN d.iv : (a # b /\ InRange(d.iv[a][1], n) /\ InRange(d.iv[b][1], n))
                                         => Pos(d.iv[a][1], n) # Pos(d.iv[b][1], n)
       [] d.k = "masked" ->  \* distinct keys inside 0 .. n+|mask|-1 (anything else raises KeyError)
            /\ Cardinality(MaskKeys(d)) = Len(d.iv)
            /\ \A m \in MaskKeys(d) : 0 <= m /\ m <= n + Len(d.iv) - 1
       [] d.k = "mean" -> n >= 1
       \* a degenerate vector (zero spread / variance / sum) cannot be rescaled; it is fine if it conforms already
       [] d.k = "spread" -> n >= 1 /\ (Max(Rng(v)) # Min(Rng(v)) \/ d.p[1] = 0)
       [] IsVar(d) -> n >= 1 /\ (n * SumSeq([i \in DOMAIN v |-> v[i] * v[i]]) # SumSeq(v) * SumSeq(v) \/ d.p[1] = 0)
       [] d.k = "norm" -> n >= 1 /\ (SumSeq(v) # 0 \/ d.p[1] = 0)
       [] OTHER -> TRUE

-----------------------------------------------------------------------------
(* deterministic transforms on the base lattice: T(d, v) *)
Monotone(v, P, asc) ==
  [i \in DOMAIN v |-> IF i \notin P THEN v[i]
                      ELSE IF asc = 1 THEN Max({v[m] : m \in {m \in P : m <= i}})
                                      ELSE Min({v[m] : m \in {m \in P : m <= i}})]
Sorted(v, P, asc) ==
  LET ps == PosSeq(P)
      sv == SortedAsc([j \in DOMAIN ps |-> v[ps[j]]])
      m  == Len(ps)
  IN  [i \in DOMAIN v |-> IF i \notin P THEN v[i]
                          ELSE IF asc = 1 THEN sv[RankIn(P, i)] ELSE sv[m + 1 - RankIn(P, i)]]
Masked(v, d) ==
  LET keys == MaskKeys(d)
      val(m) == LET j == CHOOSE c \in DOMAIN d.iv : d.iv[c][1] = m IN d.iv[j][2]
  IN  [p \in 1..(Len(v) + Len(d.iv)) |->
         IF (p - 1) \in keys THEN val(p - 1)
         ELSE v[p - Cardinality({m \in keys : m + 1 < p})]]

(* synchronized: the value entry i takes from its partner's value a; c = 0 plain {i: j}, else scaled by the   *)
(* constant c ({i: (j, c)}, form 0), by the callable t -> c*t (form 1) or shifted by the callable t -> t + c/S *)
SyncForm(d) == IF Len(d.p) = 0 THEN 0 ELSE d.p[1]
(* (form 3: the scale of every entry with c # 0 is the constant 0 -- {i: (j, 0)}, a legal, falsy, scale) *)
SyncVal(d, j, a) == IF d.iv[j][3] = 0 THEN a
                    ELSE IF SyncForm(d) = 3 THEN 0
                    ELSE IF SyncForm(d) = 2 THEN a + d.iv[j][3] ELSE d.iv[j][3] * a

T(d, v) ==
  LET n == Len(v)
      P == Footprint(d, n)
  IN
  CASE d.k = "discrete"  -> [i \in DOMAIN v |-> IF i \in P THEN NearestMember(v[i], Rng(d.iv[1])) ELSE v[i]]
    [] d.k = "integers"  -> [i \in DOMAIN v |-> IF i \in P THEN RoundTo(v[i], S) ELSE v[i]]
    [] d.k \in {"rounded", "precision"}
                         -> [i \in DOMAIN v |-> IF i \in P THEN RoundEntry(d, v[i]) ELSE v[i]]
    [] d.k = "monotonic" -> Monotone(v, P, d.p[1])
    [] d.k = "sorting"   -> Sorted(v, P, d.p[1])
    [] d.k = "at"        -> [i \in DOMAIN v |-> IF i \in P THEN d.p[1] ELSE v[i]]
    [] d.k = "as"        -> AsTP(d, v)
    [] d.k = "partial"   -> [i \in DOMAIN v |->
                               IF i \in P
                               THEN LET j == CHOOSE c \in DOMAIN d.iv : InRange(d.iv[c][1], n) /\ Pos(d.iv[c][1], n) = i
                                    IN  d.iv[j][2]
                               ELSE v[i]]
    [] d.k = "sync"      -> [i \in DOMAIN v |->
                               IF i \in P
                               THEN LET j == CHOOSE c \in InRangePairs(d.iv, n) : Pos(d.iv[c][1], n) = i
                                    IN  SyncVal(d, j, v[Pos(d.iv[j][2], n)])
                               ELSE v[i]]
    [] d.k = "masked"    -> Masked(v, d)
    [] d.k = "clipped"   -> [i \in DOMAIN v |-> ClipTo(v[i], <<d.p[1], d.p[2]>>)]
    [] d.k = "suppressed" -> [i \in DOMAIN v |-> IF Abs(v[i]) < d.p[1] THEN 0 ELSE v[i]]

(* with the inner function: input-rewriting = inner after T, output-rewriting = T after inner *)
F(d, v) == IF IsOuter(d) THEN T(d, Inner(d.g, v)) ELSE Inner(d.g, T(d, v))

-----------------------------------------------------------------------------
(* post-condition transforms: per entry a set of allowed ranges <<lo,hi>> (+ distinctness) *)
Allowed(d, v) ==
  LET n == Len(v)
      P == Footprint(d, n)
  IN
  CASE d.k = "bounds" ->
         [i \in DOMAIN v |-> IF i \in P /\ ~InSome(v[i], d.iv)
                             THEN BoundsAllowed(v[i], d.iv, d.p[1], d.p[2])
                             ELSE {<<v[i], v[i]>>}]
    [] d.k = "unique" ->
         [i \in DOMAIN v |-> IF \A m \in 1..(i - 1) : v[m] # v[i]
                             THEN {<<v[i], v[i]>>}                                  \* first occurrences stay
                             ELSE {<<a, a>> : a \in Rng(d.iv[1]) \ Rng(v)}]         \* duplicates get unused members
NeedsDistinct(d) == d.k = "unique"
IsPost(d) == d.k \in {"bounds", "unique"}
Distinct(v) == \A a, b \in DOMAIN v : a # b => v[a] # v[b]
(* lattice representatives of a range (the machine explores these; the replay checks the range) *)
Reps(r) == {IF r[1] = -INF THEN r[2] - S ELSE r[1], IF r[2] = INF THEN r[1] + S ELSE r[2]}
PostOut(d, v) ==
  LET A == Allowed(d, v)
      C == [i \in DOMAIN v |-> UNION {Reps(r) : r \in A[i]}]
  IN  {w \in [DOMAIN v -> UNION {C[i] : i \in DOMAIN v}] :
          /\ \A i \in DOMAIN v : w[i] \in C[i]
          /\ NeedsDistinct(d) => Distinct(w)}

-----------------------------------------------------------------------------
(* the moment decorators on rational vectors (v, k); U = S*k is the integer standing for 1.0 *)
SqSum(v) == SumSeq([i \in DOMAIN v |-> v[i] * v[i]])
VarW(v) == Len(v) * SqSum(v) - SumSeq(v) * SumSeq(v)       \* variance = W / (n^2 U^2)
VarG(d, y) == IF d.k = "std"                                  \* W the target asks for:
              THEN d.p[1] * d.p[1] * Len(y.v) * Len(y.v) * y.k * y.k          \*   std p/S      -> variance p^2/S^2
              ELSE d.p[1] * Len(y.v) * Len(y.v) * S * y.k * y.k               \*   variance p/S
(* the target variance as a rational <<num, den>> (what the post-condition form of Expect prints) *)
VarTarget(d) == IF d.k = "std" THEN <<d.p[1] * d.p[1], S * S>> ELSE <<d.p[1], S>>
SpreadOf(v) == Max(Rng(v)) - Min(Rng(v))
RootBound == 12
Roots(W, G) == {r \in (0..RootBound) \X (1..RootBound) : r[1] * r[1] * W = r[2] * r[2] * G /\ Gcd(r[1], r[2]) = 1}

StatConf(d, y) ==          \* the vector already has the target moment
  LET v == y.v
      n == Len(v)
  IN  CASE d.k = "mean"   -> SumSeq(v) = n * d.p[1] * y.k
        [] d.k = "spread" -> SpreadOf(v) = d.p[1] * y.k
        [] IsVar(d)       -> VarW(v) = VarG(d, y)
        [] d.k = "norm"   -> SumSeq(v) = d.p[1] * y.k

StatRational(d, y) == ~IsVar(d) \/ StatConf(d, y) \/ Roots(VarW(y.v), VarG(d, y)) # {}

StatT(d, y) ==
  LET v  == y.v
      n  == Len(v)
      sm == SumSeq(v)
  IN
  IF StatConf(d, y) THEN y
  ELSE CASE d.k = "mean" ->      \* shift by target - mean
              Canon([i \in DOMAIN v |-> n * v[i] + n * d.p[1] * y.k - sm], y.k * n)
         [] d.k = "spread" ->    \* scale about the mean by target/spread
              LET sp == SpreadOf(v)
              IN  Canon([i \in DOMAIN v |-> sm * sp + (n * v[i] - sm) * d.p[1] * y.k], y.k * n * sp)
         [] IsVar(d) ->          \* scale about the mean by sqrt(target/variance) = p/q  (std: target std / std)
              LET r == CHOOSE c \in Roots(VarW(v), VarG(d, y)) : TRUE
              IN  Canon([i \in DOMAIN v |-> sm * r[2] + (n * v[i] - sm) * r[1]], y.k * n * r[2])
         [] d.k = "norm" ->      \* scale by target/sum
              LET sg == IF sm < 0 THEN -1 ELSE 1
              IN  Canon([i \in DOMAIN v |-> sg * d.p[1] * v[i]], Abs(sm))

(* float arithmetic of the implementation is exact for this case (all divisors powers of two) *)
StatExact(d, y) ==
  LET v == y.v
      n == Len(v)
  IN  y.k = 1 /\
      CASE d.k = "mean"   -> Pow2(n)
        [] d.k = "spread" -> Pow2(n) /\ (StatConf(d, y) \/ Pow2(SpreadOf(v)))
        [] IsVar(d)       -> Pow2(n) /\ (StatConf(d, y) \/ \E r \in Roots(VarW(v), VarG(d, y)) : Pow2(r[2]))
        [] d.k = "norm"   -> Pow2(Abs(SumSeq(v))) /\ Pow2(SumSeq([i \in DOMAIN v |-> Abs(v[i])]))

-----------------------------------------------------------------------------
(* Out: the set of results the documentation allows *)
Out(d, y) ==
  IF IsStat(d) THEN (IF StatRational(d, y) THEN {StatT(d, y)} ELSE {})
  ELSE IF IsPost(d) THEN {Vec(w, 1) : w \in PostOut(d, y.v)}
  ELSE {Vec(F(d, y.v), 1)}

(* conformance: the vector lies in the decorator's target set (defined independently of Out) *)
EntryIn(d, a) ==
  CASE d.k = "bounds"     -> InSome(a, d.iv)
    [] d.k = "discrete"   -> a \in Rng(d.iv[1])
    [] d.k = "integers"   -> a % S = 0
    [] d.k \in {"rounded", "precision"} -> RoundUnit(d) = 0 \/ a % RoundUnit(d) = 0
    [] d.k = "at"         -> a = d.p[1]
    [] d.k = "clipped"    -> d.p[1] <= a /\ a <= d.p[2]
    [] d.k = "suppressed" -> a = 0 \/ Abs(a) >= d.p[1]
Entrywise(d) == d.k \in {"bounds", "discrete", "integers", "rounded", "precision", "at", "clipped", "suppressed"}

Conf(d, y) ==
  LET v == y.v
      n == Len(v)
      P == Footprint(d, n)
      ps == PosSeq(P)
  IN
  IF IsStat(d) THEN StatConf(d, y)
  ELSE IF Entrywise(d) THEN \A i \in P : EntryIn(d, v[i])
  ELSE CASE d.k = "unique"  -> Distinct(v) /\ Rng(v) \subseteq Rng(d.iv[1])
         [] d.k \in {"monotonic", "sorting"} ->
              \A a, b \in DOMAIN ps : a < b => IF d.p[1] = 1 THEN v[ps[a]] <= v[ps[b]] ELSE v[ps[a]] >= v[ps[b]]
         [] d.k = "as"      -> \A j \in InRangePairs(d.iv, n) : v[Pos(d.iv[j][2], n)] = v[Pos(d.iv[j][1], n)] + AsOff(d)
         [] d.k = "partial" -> \A j \in DOMAIN d.iv : InRange(d.iv[j][1], n) => v[Pos(d.iv[j][1], n)] = d.iv[j][2]
         [] d.k = "sync"    -> \A j \in InRangePairs(d.iv, n) :
                                  v[Pos(d.iv[j][1], n)] = SyncVal(d, j, v[Pos(d.iv[j][2], n)])
         [] d.k = "masked"  -> \A j \in DOMAIN d.iv : d.iv[j][1] + 1 \in DOMAIN v /\ v[d.iv[j][1] + 1] = d.iv[j][2]

SameOutside(d, y, z) ==
  /\ Len(z.v) = Len(y.v)
  /\ IF IsStat(d) THEN TRUE
     ELSE \A i \in DOMAIN y.v : i \notin Footprint(d, Len(y.v)) => z.v[i] = y.v[i]

-----------------------------------------------------------------------------
(* the catalogue as a sequence; PART/NPARTS (environment) split it over parallel TLC runs *)
AllSeq == SetToSeq(Decs)
NParts == IF "NPARTS" \in DOMAIN IOEnv THEN atoi(IOEnv.NPARTS) ELSE 1
Part   == IF "PART" \in DOMAIN IOEnv THEN atoi(IOEnv.PART) ELSE 0
(* (LET: the catalogue is turned into a sequence once, not once per member; `\o << >>` makes the value an *)
(* explicit tuple, which TLC computes once, instead of a function expression it re-evaluates at every use) *)
DecSeq == LET A == AllSeq
              M == PosSeq({i \in DOMAIN A : i % NParts = Part})
          IN  [j \in DOMAIN M |-> A[M[j]]] \o << >>
ND == Len(DecSeq)
(* theorems are stated for the decorator applied to the identity *)
Plain(d) == d.g = 0

-----------------------------------------------------------------------------
(* the state machine *)
Init == /\ x \in StartVectors
        /\ last = 0
        /\ hist = IF MaxHist > 0 THEN << <<0, x>> >> ELSE << >>

Step(i) == /\ InDomain(x)
           /\ Defined(DecSeq[i], x)
           /\ MaxHist > 0 => Len(hist) <= MaxHist
           /\ x' \in Out(DecSeq[i], x)
           /\ hist' = IF MaxHist > 0 THEN Append(hist, <<i, x'>>) ELSE hist

(* apply catalogue decorator i to the current vector *)
Apply(i) == /\ Step(i)
            /\ last' = IF MaxHist > 0 THEN i ELSE 0

(* apply the decorator that was applied last once more (any vector it produced, also off-lattice) *)
Reapply == /\ last # 0
           /\ Defined(DecSeq[last], x)
           /\ Len(hist) <= MaxHist
           /\ x' \in Out(DecSeq[last], x)
           /\ hist' = Append(hist, <<last, x'>>)
           /\ UNCHANGED last

Next == (\E i \in 1..ND : Apply(i)) \/ Reapply
Spec == Init /\ [][Next]_vars
(* the start vectors alone (configurations whose start vectors are not closed under the decorators: long vectors); *)
(* the theorems are state predicates that quantify over the catalogue, so nothing is lost but the closure            *)
StartOnly == Init /\ [][UNCHANGED vars]_vars

-----------------------------------------------------------------------------
(* theorems: state invariants, quantified over the whole catalogue at every reachable vector. *)
(* Each is a predicate of one decorator d at the current vector x; a failing instance prints   *)
(* the culprit decorator before the invariant evaluates to FALSE.                              *)
Culprit(name, d) == ~PrintT(<<"!!", name, d, x>>)
Claim(d) == Plain(d) /\ d.k # "masked" /\ Defined(d, x)     \* the theorems speak about decorator(...)(identity)

SelectiveAt(d)  == Claim(d) => \A y \in Out(d, x) : SameOutside(d, x, y)
LandsAt(d)      == (Plain(d) /\ Defined(d, x)) => \A y \in Out(d, x) : Conf(d, y)
ConformingAt(d) == (Claim(d) /\ Conf(d, x)) => Out(d, x) = {x}
EntrywiseAt(d)  == (Claim(d) /\ Entrywise(d)) =>
                      \A y \in Out(d, x) : \A p \in DOMAIN x.v : EntryIn(d, x.v[p]) => y.v[p] = x.v[p]
IdempotentAt(d) == Claim(d) => \A y \in Out(d, x) : Defined(d, y) /\ Out(d, y) = {y}
MaskedAt(d)     == (d.k = "masked" /\ Defined(d, x)) =>
                      \A y \in Out(d, x) :
                         /\ Len(y.v) = Len(x.v) + Len(d.iv)
                         /\ Conf(d, y)
                         /\ LET rest == PosSeq(DOMAIN y.v \ Footprint(d, Len(x.v)))   \* the other entries are x, in order
                            IN  [j \in DOMAIN rest |-> y.v[rest[j]]] = x.v

ThmSelective  == InDomain(x) => \A i \in 1..ND : SelectiveAt(DecSeq[i])  \/ Culprit("ThmSelective", DecSeq[i])
ThmLands      == InDomain(x) => \A i \in 1..ND : LandsAt(DecSeq[i])      \/ Culprit("ThmLands", DecSeq[i])
ThmConforming == InDomain(x) => \A i \in 1..ND : ConformingAt(DecSeq[i]) \/ Culprit("ThmConforming", DecSeq[i])
ThmEntrywise  == InDomain(x) => \A i \in 1..ND : EntrywiseAt(DecSeq[i])  \/ Culprit("ThmEntrywise", DecSeq[i])
ThmIdempotent == InDomain(x) => \A i \in 1..ND : IdempotentAt(DecSeq[i]) \/ Culprit("ThmIdempotent", DecSeq[i])
ThmMasked     == InDomain(x) => \A i \in 1..ND : MaskedAt(DecSeq[i])     \/ Culprit("ThmMasked", DecSeq[i])

(* the same six theorems in one pass per decorator (Out(d, x) is computed once): what the big   *)
(* case-table configurations check; a failing instance still prints the theorem's own name.     *)
AllAt(d) ==
  IF ~(Plain(d) /\ Defined(d, x)) THEN TRUE
  ELSE LET O == Out(d, x) IN
       IF d.k = "masked" THEN MaskedAt(d) \/ Culprit("ThmMasked", d)
       ELSE /\ (\A y \in O : SameOutside(d, x, y)) \/ Culprit("ThmSelective", d)
            /\ (\A y \in O : Conf(d, y)) \/ Culprit("ThmLands", d)
            /\ (Conf(d, x) => O = {x}) \/ Culprit("ThmConforming", d)
            /\ (Entrywise(d) => \A y \in O : \A p \in DOMAIN x.v : EntryIn(d, x.v[p]) => y.v[p] = x.v[p])
                  \/ Culprit("ThmEntrywise", d)
            /\ (\A y \in O : Defined(d, y) /\ Out(d, y) = {y}) \/ Culprit("ThmIdempotent", d)
ThmAll == InDomain(x) => \A i \in 1..ND : AllAt(DecSeq[i])
(* the same for the deterministic decorators only: Out of a post-condition decorator enumerates every vector of  *)
(* allowed representatives, which is exponential in the length (long vectors check those by replay alone)        *)
ThmAllDet == InDomain(x) => \A i \in 1..ND : IsPost(DecSeq[i]) \/ AllAt(DecSeq[i])

-----------------------------------------------------------------------------
(* MAGNITUDES.  The decorators below do not know an absolute scale: multiplying the input AND every value     *)
(* parameter (interval ends, samples, pinned value, offset, mask values, an additive callable's shift, clip    *)
(* ends, the suppression tolerance) by the same c > 0 multiplies the result by c (and leaves the premise        *)
(* alone); index selections, pairs, multiplicative scales of synchronized and the flags are not touched.        *)
(* ThmScale states this for c in ScaleBy; the rounding decorators (fixed grid), the moment decorators          *)
(* (their comparisons carry documented absolute/relative tolerances) and everything applied around the inner   *)
(* function "add one half" are not scale-free.  The replay uses it with c = 2^e, e in ScaleExps (exact in      *)
(* binary floating point): the integer v then stands for v * 2^e / S -- 5e-324 .. 1e-9 .. 1e10 .. 4e299.        *)
ScaleFree(d) == d.g = 0 /\ d.k \in {"bounds", "discrete", "unique", "monotonic", "sorting", "at", "as",
                                      "masked", "partial", "sync", "clipped", "suppressed"}
ScaleBy == {2, 3}
ScaleExps == <<-1073, -1000, -30, 33, 993>>
Sc(a, c) == IF a \in {INF, -INF, NONE} THEN a ELSE c * a
ScTup(t, c) == [j \in DOMAIN t |-> Sc(t[j], c)]
ScaleD(d, c) ==
  CASE d.k \in {"bounds", "discrete", "unique"} -> [d EXCEPT !.iv = [j \in DOMAIN d.iv |-> ScTup(d.iv[j], c)]]
    [] d.k \in {"at", "as"}         -> [d EXCEPT !.p = <<Sc(d.p[1], c)>>]
    [] d.k \in {"masked", "partial"} -> [d EXCEPT !.iv = [j \in DOMAIN d.iv |-> <<d.iv[j][1], c * d.iv[j][2]>>]]
    [] d.k = "sync" /\ SyncForm(d) = 2 -> [d EXCEPT !.iv = [j \in DOMAIN d.iv |-> <<d.iv[j][1], d.iv[j][2], c * d.iv[j][3]>>]]
    [] d.k = "clipped"              -> [d EXCEPT !.p = <<Sc(d.p[1], c), Sc(d.p[2], c), d.p[3]>>]
    [] d.k = "suppressed"           -> [d EXCEPT !.p = <<c * d.p[1], d.p[2]>>]
    [] OTHER                        -> d
ScaleV(v, c) == [i \in DOMAIN v |-> c * v[i]]
ScaleAt(d, c) ==
  ScaleFree(d) =>
    LET dc == ScaleD(d, c)
        vc == ScaleV(x.v, c)
    IN  /\ Defined(dc, Vec(vc, 1)) = Defined(d, x)
        /\ Footprint(dc, Len(vc)) = Footprint(d, Len(x.v))
        /\ Defined(d, x) =>
             IF IsPost(d)
             THEN Allowed(dc, vc) = [i \in DOMAIN x.v |-> {<<Sc(r[1], c), Sc(r[2], c)>> : r \in Allowed(d, x.v)[i]}]
             ELSE F(dc, vc) = ScaleV(F(d, x.v), c)
ThmScale == InDomain(x) => \A i \in 1..ND : \A c \in ScaleBy : ScaleAt(DecSeq[i], c) \/ Culprit("ThmScale", DecSeq[i])
(* vacuity companion (deliberately FALSE, TLC must violate it): the rounding decorators have a fixed grid, they are not   *)
(* scale-free -- which is why ScaleFree leaves them out and why ThmScale is not a tautology                             *)
ScaleFreeRounding == InDomain(x) => \A i \in 1..ND : \A c \in ScaleBy :
   LET d == DecSeq[i] IN (d.k \in {"integers", "rounded", "precision"} /\ d.g = 0 /\ Defined(d, x))
                            => F(d, ScaleV(x.v, c)) = ScaleV(F(d, x.v), c)

(* theorems on transitions (script mode: `last` names the decorator of the step) *)
StepFootprint == [][(last' # 0 /\ Plain(DecSeq[last']) /\ DecSeq[last'].k # "masked") => SameOutside(DecSeq[last'], x, x')]_vars
ReapplyNoop == [][(last # 0 /\ last' = last /\ Plain(DecSeq[last]) /\ DecSeq[last].k # "masked") => x' = x]_vars
ScriptFootprint ==
  \A s \in 2..Len(hist) :
     LET d == DecSeq[hist[s][1]] IN (Plain(d) /\ d.k # "masked") => SameOutside(d, hist[s - 1][2], hist[s][2])

-----------------------------------------------------------------------------
(* emission (spec -> code).  One header, then one line per start vector with what the spec    *)
(* expects of every catalogue decorator:                                                      *)
(*   0                          premise not met: nothing is promised                          *)
(*   <<y1..yn>>                 the result (units 1/S)                                         *)
(*   [v, k, ex]                 moment decorator: result v_i/(S*k); ex = float-exact           *)
(*   [pc |-> "var", ...]        target variance with irrational scale: post-condition only     *)
(*   [a |-> <<{<<lo,hi>>..}..>>, u] per entry the allowed ranges; u: entries pairwise distinct *)
Expect(d, y) ==
  IF ~Defined(d, y) THEN 0
  ELSE IF IsStat(d) THEN
         (IF StatRational(d, y)
          THEN LET r == StatT(d, y) IN [v |-> r.v, k |-> r.k, ex |-> StatExact(d, y)]
          ELSE [pc |-> "var", m |-> <<SumSeq(y.v), Len(y.v) * S * y.k>>, t |-> VarTarget(d)])
  ELSE IF IsPost(d) THEN [a |-> Allowed(d, y.v), u |-> NeedsDistinct(d)]
  ELSE F(d, y.v)

ASSUME PrintT(<<"@@", ToJson([cat |-> DecSeq, S |-> S,
          foot |-> [i \in 1..ND |-> [n \in 1..(Max(Lens) + 1) |-> Footprint(DecSeq[i], n - 1)]],
          oor  |-> [i \in 1..ND |-> [n \in 1..(Max(Lens) + 1) |-> HasOOR(DecSeq[i].ix, n - 1)]],
          ascls |-> [i \in 1..ND |-> [n \in 1..(Max(Lens) + 1) |-> AsClass(DecSeq[i], n - 1)]],
          sf |-> [i \in 1..ND |-> ScaleFree(DecSeq[i])],          \* scale-free (ThmScale): may be replayed at the magnitudes
          ue |-> ScaleExps])>>)                                  \*   2^e, e in ue

Emit == (MaxHist = 0 /\ InDomain(x)) =>
          PrintT(<<"@@", ToJson([x |-> x.v, e |-> [i \in 1..ND |-> Expect(DecSeq[i], x)]])>>)

(* script mode: every complete script with the vector after every step *)
EmitScript == (MaxHist > 0 /\ Len(hist) = MaxHist + 1) =>
          PrintT(<<"@@", ToJson([s |-> [j \in DOMAIN hist |-> <<hist[j][1], hist[j][2].v, hist[j][2].k>>]])>>)

(* vacuity companions (ASSUMEd for the quick and thorough catalogues in MC_Transforms): the     *)
(* bounded class really contains ties, points in a gap nearer to the upper interval, halves to  *)
(* round, duplicates to replace, out-of-range and negative index members                        *)
HasDiscreteTie(DD, VV) == \E d \in DD : d.k = "discrete" /\ \E a \in VV : IsTie(a, Rng(d.iv[1]))
HasGapClip(DD, VV) == \E d \in DD : d.k = "bounds" /\ Len(d.iv) > 1 /\ d.p[1] = 1 /\ d.p[2] = 1 /\
                        \E a \in VV : ~InSome(a, d.iv) /\ \E j, m \in DOMAIN d.iv :
                            d.iv[j][2] < a /\ a < d.iv[m][1] /\ d.iv[m][1] - a < a - d.iv[j][2]
HasBoundsTie(DD, VV) == \E d \in DD : d.k = "bounds" /\ \E a \in VV : ~InSome(a, d.iv) /\ Cardinality(NearestIvs(a, d.iv)) > 1
HasHalfEven(VV) == \E a, b \in VV : a % S # 0 /\ b % S # 0 /\ RoundTo(a, S) < a /\ RoundTo(b, S) > b
HasIndexClasses(DD, LL) == \E d1, d2 \in DD : /\ d1.k = "integers" /\ \E n \in LL : HasOOR(d1.ix, n) /\ Sel(d1.ix, n) # {}
                                              /\ d2.k = "bounds" /\ \E j \in DOMAIN d2.ix : d2.ix[j] < 0
Vacuity(DD, VV, LL) == HasDiscreteTie(DD, VV) /\ HasGapClip(DD, VV) /\ HasBoundsTie(DD, VV) /\ HasHalfEven(VV) /\ HasIndexClasses(DD, LL)
=============================================================================
