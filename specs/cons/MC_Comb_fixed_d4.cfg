SPECIFICATION Spec
CONSTANTS
  D <- D4
  Members <- All4
  Ns = {1, 2}
  MaxIters = {1, 2, 3}
  Kinds = {"and", "or", "not"}
  Rules = {"fixed", "asis"}
  Starts <- OnlyZero
INVARIANT ClaimOr
INVARIANT ClaimNot
INVARIANT OnePath
INVARIANT Bounded
INVARIANT AsIsOnlyUncertifiedChange
INVARIANT AsIsHoldsForIdempotentHead
INVARIANT ClaimAndFixed
PROPERTY Progress
