SPECIFICATION Spec
CONSTANTS
  S = 2
  Vals <- NVals
  Lens <- NLens
  Decs <- NDecs
  MaxHist = 0
INVARIANT ThmAll
INVARIANT Emit
