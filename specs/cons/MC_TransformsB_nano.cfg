SPECIFICATION StartOnly
CONSTANTS
  S = 1000000000
  Vals <- NanoVals
  Lens <- NanoLens
  Decs <- NanoDecs
  MaxHist = 0
INVARIANT ThmAll
INVARIANT Emit
