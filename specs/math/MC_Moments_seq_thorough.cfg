SPECIFICATION Spec
CONSTANTS
  Vals <- V3
  Wts <- W3
  Lens = {3}
  MaxSteps = 2
  Full = FALSE
  SeqMeans <- SMeans
  SeqScales <- SScales
  SeqSums <- SSums
  MeanTargets <- TMeanT
  VarTargets <- TVarT
  StdTargets <- TStdT
  SpreadTargets <- TSpreadT
  SumTargets <- TSumT
  ProdTargets <- TProdT
  MomTargets <- TMomT
  MedTargets <- TMedT
  MadTargets <- TMadT
  TrimMeanTargets <- TTrimMeanT
  TrimVarTargets <- TTrimVarT
  TrimStdTargets <- TTrimStdT
INVARIANT TypeOK
INVARIANT AfterImposeMean
INVARIANT AfterImposeVariance
INVARIANT AfterImposeSpread
INVARIANT AfterNormalize
INVARIANT AfterSurgery
INVARIANT VarianceThenMean
INVARIANT MeanThenVariance
INVARIANT MeanThenSpread
INVARIANT SurgeryThenMean
INVARIANT DefFacts
INVARIANT CurIsLight
INVARIANT Emit
