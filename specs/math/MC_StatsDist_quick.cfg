SPECIFICATION Spec
CONSTANTS
  DVals <- D3
  Shapes <- QShapes
  Shifts <- QShifts
  LCat <- Ls
  DTols = {0, 1}
  Cutoffs = {0, 1, 2}
  DistSteps = 0
INVARIANT TypeOK
INVARIANT MetricAxioms
INVARIANT NormOrder
INVARIANT SelfMatrix
INVARIANT LipFacts
INVARIANT AfterMove
INVARIANT EmitDist
