SPECIFICATION ASpec
CONSTANTS
  Shapes <- MCShapes
  WFam <- QWFam
  WAlt <- MCWAlt
  XAlt <- MCXAlt
  PMin <- MCPMin
  PMax = 10
  MaxFactors = 3
  MaxSteps = 1
  Shifts <- MCShifts
  Scales <- MCScales
  TolSeq <- MCTols
  FuncSeq <- MCFuncs
  VFuncSeq <- MCVFuncs
  Patterns <- QPatterns
  ObjN <- QObjN
VIEW AView
INVARIANT TypeOK
INVARIANT Denotes
INVARIANT RoundTrip
INVARIANT FlattenLayout
INVARIANT MassProduct
PROPERTY UpdateFresh
PROPERTY ObjectEdit
PROPERTY UnsharedIsMeasures
INVARIANT AEmit
