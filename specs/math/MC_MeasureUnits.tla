---- MODULE MC_MeasureUnits ----
(* Model-checking instances of MeasureUnits: the instances of MC_Measures (same shapes, families, catalogues and     *)
(* partition over parallel runs: C19_PART / C19_NPART / C19_MAXF) with the catalogue of units, the zero target and   *)
(* the law of units; and the LONG instance: two-digit point counts, four to six factors, loads with no / one value,  *)
(* tolerances at the product weights 2, 4, 8, edits that write 0, a weight above every loaded one and a negative     *)
(* position.                                                                                                         *)
EXTENDS MC_Measures, MeasureUnits

(* dyadic units <<ew, ex, ey>>: unit 1 is the model itself; halves; eighths / quarters / sixteenths; 2^-30 = 9.3e-10 *)
(* (more than 8 decimals) with positions 2^33 = 8.6e9; the converse; 2^-330 = 4.6e-100 / 2^330 = 2.2e99 (admissible  *)
(* for <= 3 factors: product weights down to 2^-990 = 9.6e-299 / up to 2^993); 2^-1000 = 9.3e-302 / 2^1000 =         *)
(* 1.07e301 (one factor only, by UnitOK); 2^-250 / 2^200 with values 2^1000 / positions 2^-490 (<= 4 / 5 factors)    *)
MCUnits == << <<0, 0, 0>>, <<-1, -1, -1>>, <<-3, -2, -4>>, <<-30, 33, -20>>, <<30, -30, 40>>,
              <<-330, -100, 300>>, <<330, 300, -300>>, <<-1000, 400, 0>>, <<1000, -400, -1000>>,
              <<-250, 120, 1000>>, <<200, -490, -300>> >>
MCMults == << <<2, 3, 5>> >>
MCValAll == {"all"}

(* the LONG instance *)
LongAll == "C19_LONG" \in DOMAIN IOEnv /\ IOEnv.C19_LONG = "all"      \* the thorough tier
LShapes == {<<10>>, <<12>>, <<1, 10>>, <<11, 2>>, <<4, 3>>, <<2, 5>>, <<2, 2, 2, 2>>, <<1, 2, 1, 3>>, <<2, 1, 1, 1, 2>>,
            <<1, 1, 1, 1, 1, 1>>, <<2>>, <<1, 2>>, <<3, 1>>}
LQShapes == {<<10>>, <<1, 10>>, <<11, 2>>, <<2, 2, 2, 2>>, <<1, 2, 1, 3>>, <<2, 1, 1, 1, 2>>, <<1, 1, 1, 1, 1, 1>>, <<1, 2>>}
LSel == IF "C19_LONG" \in DOMAIN IOEnv /\ IOEnv.C19_LONG = "all" THEN LShapes ELSE LQShapes
LRank(sh) == Cardinality({t \in LSel : Before(t, sh)})
MCLShapes == {sh \in LSel : LRank(sh) % NPart = Part}
(* one weight vector per point count: 2,1,0,2,1,0,... (zeros from the third point on); thorough: two for n = 2 *)
LWFam == [n \in 1..12 |-> IF n = 2 /\ LongAll THEN {<<2, 1>>, <<0, 1>>} ELSE {[j \in 1..n |-> (2 * j) % 3]}]
LWAlt == IF LongAll THEN {0, 3} ELSE {0}        \* 0; a weight above every loaded one
LXAlt == IF LongAll THEN {0, -7} ELSE {0}       \* the position 0; a negative one
LValCounts == IF LongAll THEN {"all", "none", "one"} ELSE {"all", "none"}
LPMin == -40
LTols == <<0, 1, 2, 4, 8>>
====
