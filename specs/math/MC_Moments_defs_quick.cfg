SPECIFICATION Spec
CONSTANTS
  Vals <- V5
  Wts <- W4
  Lens = {1, 2, 3}
  MaxSteps = 0
  Full = TRUE
  SeqMeans <- SMeans
  SeqScales <- SScales
  SeqSums <- SSums
  MeanTargets <- QMeanT
  VarTargets <- QVarT
  StdTargets <- QStdT
  SpreadTargets <- QSpreadT
  SumTargets <- QSumT
  ProdTargets <- QProdT
  MomTargets <- QMomT
  MedTargets <- QMedT
  MadTargets <- QMadT
  TrimMeanTargets <- QTrimMeanT
  TrimVarTargets <- QTrimVarT
  TrimStdTargets <- QTrimStdT
INVARIANT TypeOK
INVARIANT AfterImposeMean
INVARIANT AfterImposeVariance
INVARIANT AfterImposeSpread
INVARIANT AfterNormalize
INVARIANT AfterSurgery
INVARIANT VarianceThenMean
INVARIANT MeanThenVariance
INVARIANT MeanThenSpread
INVARIANT SurgeryThenMean
INVARIANT DefFacts
INVARIANT MedianFacts
INVARIANT CurIsLight
INVARIANT RescueKeepsTotal
INVARIANT Emit
