SPECIFICATION Spec
CONSTANTS
  DVals <- D2
  Shapes <- MShapes
  Shifts <- QShifts
  LCat <- Ls
  DTols = {0, 1}
  Cutoffs = {0, 1, 2}
  DistSteps = 1
INVARIANT TypeOK
INVARIANT MetricAxioms
INVARIANT NormOrder
INVARIANT SelfMatrix
INVARIANT LipFacts
INVARIANT AfterMove
INVARIANT NeverSwap
