SPECIFICATION Spec
CONSTANTS
  Vals <- V3
  Wts <- W3
  Lens = {3}
  MaxSteps = 2
  Full = FALSE
  SeqMeans <- SMeans
  SeqScales <- SScales
  SeqSums <- SSums
  MeanTargets <- QMeanT
  VarTargets <- QVarT
  StdTargets <- QStdT
  SpreadTargets <- QSpreadT
  SumTargets <- QSumT
  ProdTargets <- QProdT
  MomTargets <- QMomT
  MedTargets <- QMedT
  MadTargets <- QMadT
  TrimMeanTargets <- QTrimMeanT
  TrimVarTargets <- QTrimVarT
  TrimStdTargets <- QTrimStdT
INVARIANT NeverUndetermined
