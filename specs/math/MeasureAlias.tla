----------------------------- MODULE MeasureAlias -----------------------------
(***************************************************************************)
(* Object identity under Measures.tla (property C19).                      *)
(*                                                                         *)
(* A product_measure is a python list of measure OBJECTS; the same object  *)
(* may occupy several slots (product_measure([m, m]), [m]*n, [m, o, m])    *)
(* and the caller may keep references to the factors.  Measures.tla speaks *)
(* about the DENOTATION of a product: the sequence of the contents of its  *)
(* slots.  This module adds the heap and states                            *)
(*   * Denotes: the product of Measures.tla is the denotation of the heap  *)
(*     structure, pm = [m |-> heap[refs[m]]]; every observable of          *)
(*     Measures.tla (Obs: flatten, weights, positions, expect, ...) is a   *)
(*     function of pm, so it cannot depend on which slots share an object; *)
(*   * update(params) (and load) build NEW measures for the slots: the     *)
(*     denotation afterwards is UpdatePM(pm, params) whatever the sharing  *)
(*     was, the slots are pairwise distinct fresh objects, and no object   *)
(*     that existed before is modified (UpdateFresh) -- in particular a    *)
(*     measure the caller still holds keeps its value;                     *)
(*   * an assignment through a factor (c[m][j].weight = w, c[m].positions  *)
(*     = x, c[m].center_mass = t, ...) edits the OBJECT: every slot that   *)
(*     holds that object shows the edit, all other objects are untouched   *)
(*     (ObjectEdit); without sharing this is exactly Measures' step        *)
(*     (UnsharedIsMeasures).                                               *)
(*                                                                         *)
(* VARIABLES (besides pm, vals, steps, last of Measures.tla)               *)
(*   heap  sequence of measure contents; object o is heap[o]; allocation   *)
(*         appends, nothing is ever freed (so "unchanged" can be stated)   *)
(*   refs  the product as a sequence of object ids                         *)
(***************************************************************************)
EXTENDS Measures

CONSTANTS Patterns,   \* the constructions: slot -> object patterns such as <<1, 1>>, <<1, 2, 1>>
          ObjN        \* points per object explored (set of 1..3)

VARIABLES heap, refs
avars == <<pm, vals, steps, last, heap, refs>>
AView == <<pm, vals, heap, refs>>

(* Den(heap, refs), the denotation, is defined in Measures.tla *)
Sharing(r, m) == {k \in 1..Len(r) : r[k] = r[m]}                  \* the slots holding the object of slot m
Shared(r) == \E m \in 1..Len(r) : Cardinality(Sharing(r, m)) > 1
Distinct(r) == \A m, k \in 1..Len(r) : m # k => r[m] # r[k]

(* every object carries the positions PBase(1, n): different objects may well have identical content *)
Contents == UNION {{Compose(<<PBase(1, n)>>, <<wv>>)[1] : wv \in WFam[n]} : n \in ObjN}
MaxId(pt) == MaxOf(Range1(pt))
Makes == UNION {{[pt |-> pt, objs |-> objs] : objs \in [1..MaxId(pt) -> Contents]} : pt \in Patterns}

(* what an action does to the denotation: update / load rebuild, the others edit the object of slot a.a *)
Edited(a) == Apply(a).pm[a.a]                                     \* the new content of the edited object (Measures' step)
AliasPM(a) ==
  CASE a.op = "upd" -> UpdatePM(pm, a.vec)
    [] a.op = "append" -> LoadPM(pm, a.vec, a.sh)
    [] OTHER -> [m \in 1..Len(pm) |-> IF refs[m] = refs[a.a] THEN Edited(a) ELSE pm[m]]
AliasHeap(a) ==
  CASE a.op = "upd" -> heap \o UpdatePM(pm, a.vec)
    [] a.op = "append" -> heap \o Unflatten(SubSeq(a.vec, 1, ParLen(a.sh)), a.sh)
    [] OTHER -> [heap EXCEPT ![refs[a.a]] = Edited(a)]
AliasRefs(a) ==
  CASE a.op = "upd" -> [m \in 1..Len(refs) |-> Len(heap) + m]
    [] a.op = "append" -> refs \o [m \in 1..Len(a.sh) |-> Len(heap) + m]
    [] OTHER -> refs

(* the centre-of-mass / range / variance setters are explored on unshared objects only (on a shared object they
   are the same object edit; the replay's footprint comparison is per slot) *)
AGuard(a) == /\ Guard(a)
             /\ a.op \in {"cm", "rng", "var"} => Cardinality(Sharing(refs, a.a)) = 1
AEnabled == IF Len(pm) = 0 \/ steps # 0 THEN {}
            ELSE {a \in EditActs : AGuard(a) /\ InBox(AliasPM(a))} \cup
                 (IF Len(pm) >= MaxFactors THEN {}
                  ELSE {Act("append", 0, 0, 0, FactorVec(1, wv) \o VBase(Npts(pm) * Len(wv)), <<Len(wv)>>) :
                          wv \in UNION {WFam[n] : n \in ObjN}})

AInit == Init /\ heap = << >> /\ refs = << >>
Make == /\ Len(pm) = 0
        /\ \E mk \in Makes :
             /\ heap' = mk.objs /\ refs' = mk.pt
             /\ pm' = Den(mk.objs, mk.pt)
             /\ vals' = VBase(ProdSeq([m \in 1..Len(mk.pt) |-> Len(mk.objs[mk.pt[m]])]))
             /\ steps' = 0 /\ last' = Act("make", 0, 0, 0, << >>, << >>)
ADo(a) == /\ pm' = AliasPM(a) /\ heap' = AliasHeap(a) /\ refs' = AliasRefs(a)
          /\ vals' = Apply(a).vals
          /\ steps' = 1 /\ last' = a
ANext == Make \/ \E a \in AEnabled : ADo(a)
ASpec == AInit /\ [][ANext]_avars

-----------------------------------------------------------------------------
Denotes == /\ pm = Den(heap, refs)
           /\ \A m \in 1..Len(refs) : refs[m] \in 1..Len(heap)
UpdateFresh ==
  [][last'.op \in {"upd", "append"} =>
       /\ pm' = (IF last'.op = "upd" THEN UpdatePM(pm, last'.vec) ELSE LoadPM(pm, last'.vec, last'.sh))
       /\ SubSeq(heap', 1, Len(heap)) = heap                        \* no existing object is modified
       /\ last'.op = "upd" => /\ Distinct(refs')                    \* afterwards no two slots share an object
                              /\ \A m \in 1..Len(refs') : refs'[m] > Len(heap)
       /\ last'.op = "append" => /\ SubSeq(refs', 1, Len(refs)) = refs   \* the old slots keep their objects
                                 /\ \A m \in (Len(refs) + 1)..Len(refs') : refs'[m] > Len(heap)]_avars
ObjectEdit ==
  [][last'.op \in {"setw", "setx", "cm", "rng", "var"} =>
       /\ refs' = refs /\ Len(heap') = Len(heap)
       /\ \A o \in 1..Len(heap) : o # refs[last'.a] => heap'[o] = heap[o]
       /\ \A m \in 1..Len(pm) : pm'[m] = IF m \in Sharing(refs, last'.a) THEN pm'[last'.a] ELSE pm[m]]_avars
UnsharedIsMeasures ==
  [][(last'.op \notin {"make", "init"} /\ ~Shared(refs)) => pm' = Apply(last').pm /\ vals' = Apply(last').vals]_avars

-----------------------------------------------------------------------------
(* EMISSION: the constructed states (steps = 0) in the format of Measures.tla (obs, succ) plus the heap structure;
   a successor also says what the objects that existed before hold afterwards *)
HeapObs(h) == [o \in 1..Len(h) |-> [w |-> Wts(h[o]), x |-> Pos(h[o])]]
ASucc == {[act |-> a, shape |-> Shape(AliasPM(a)), flat |-> Flatten(AliasPM(a)), vals |-> Apply(a).vals,
           old |-> HeapObs(SubSeq(AliasHeap(a), 1, Len(heap)))] : a \in AEnabled}
ASSUME PrintT(<<"@@", ToJson([alias |-> TRUE, funcs |-> FuncSeq, vfuncs |-> VFuncSeq, tols |-> TolSeq])>>)
AEmit == (Len(pm) > 0 /\ steps = 0) =>
           PrintT(<<"@@", ToJson([obs |-> Obs, succ |-> ASucc, refs |-> refs, heap |-> HeapObs(heap), shared |-> Shared(refs)])>>)
=============================================================================
