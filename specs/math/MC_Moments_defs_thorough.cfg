SPECIFICATION Spec
CONSTANTS
  Vals <- V7
  Wts <- W4
  Lens = {1, 2, 3}
  MaxSteps = 0
  Full = TRUE
  SeqMeans <- SMeans
  SeqScales <- SScales
  SeqSums <- SSums
  MeanTargets <- TMeanT
  VarTargets <- TVarT
  StdTargets <- TStdT
  SpreadTargets <- TSpreadT
  SumTargets <- TSumT
  ProdTargets <- TProdT
  MomTargets <- TMomT
  MedTargets <- TMedT
  MadTargets <- TMadT
  TrimMeanTargets <- TTrimMeanT
  TrimVarTargets <- TTrimVarT
  TrimStdTargets <- TTrimStdT
INVARIANT TypeOK
INVARIANT AfterImposeMean
INVARIANT AfterImposeVariance
INVARIANT AfterImposeSpread
INVARIANT AfterNormalize
INVARIANT AfterSurgery
INVARIANT VarianceThenMean
INVARIANT MeanThenVariance
INVARIANT MeanThenSpread
INVARIANT SurgeryThenMean
INVARIANT DefFacts
INVARIANT MedianFacts
INVARIANT CurIsLight
INVARIANT RescueKeepsTotal
INVARIANT Emit
