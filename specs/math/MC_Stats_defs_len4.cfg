SPECIFICATION StatsSpec
CONSTANTS
  Vals <- V3
  Wts <- W4
  Lens = {4}
  MaxSteps = 0
  StatSteps = 0
  Full = TRUE
  SeqMeans <- SMeans
  SeqScales <- SScales
  SeqSums <- SSums
  MeanTargets <- TMeanT
  VarTargets <- TVarT
  StdTargets <- TStdT
  SpreadTargets <- TSpreadT
  SumTargets <- TSumT
  ProdTargets <- TProdT
  MomTargets <- TMomT
  MedTargets <- TMedT
  MadTargets <- TMadT
  TrimMeanTargets <- TTrimMeanT
  TrimVarTargets <- TTrimVarT
  TrimStdTargets <- TTrimStdT
  Tols <- STols
  MeanTols <- SMeanTols
  Us <- SUs
  MedTargets2 <- TMedT2
  MadTargets2 <- TMadT2
  TrimMeanTargets2 <- TTrimMeanT2
  TrimVarTargets2 <- TTrimVarT2
  TrimStdTargets2 <- TTrimStdT2
  NormVals <- NV5
  NormLens = {4}
  NormMasses <- TNormM
  ZMasses <- TZM
INVARIANT TypeOK
INVARIANT CurIsLight
INVARIANT IntFacts
INVARIANT EmitStats
