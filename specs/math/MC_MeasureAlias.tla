---- MODULE MC_MeasureAlias ----
(* Model-checking instance of MeasureAlias: constructions with shared and with distinct objects *)
EXTENDS MC_Measures, MeasureAlias
MCPatterns == {<<1, 1>>, <<1, 2>>, <<1, 1, 1>>, <<1, 2, 1>>, <<1, 1, 2>>, <<1, 2, 2>>}
QPatterns == {<<1, 1>>, <<1, 2>>, <<1, 2, 1>>, <<1, 1, 1>>}
MCObjN == {1, 2, 3}
QObjN == {1, 2}
====
