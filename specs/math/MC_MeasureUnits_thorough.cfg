SPECIFICATION XSpec
CONSTANTS
  Shapes <- MCShapes
  WFam <- TWFam
  WAlt <- MCWAlt
  XAlt <- MCXAlt
  PMin <- MCPMin
  PMax = 10
  MaxFactors = 3
  MaxSteps = 1
  Shifts <- MCShifts
  Scales <- MCScales
  TolSeq <- MCTols
  FuncSeq <- MCFuncs
  VFuncSeq <- MCVFuncs
  UnitSeq <- MCUnits
  MultSeq <- MCMults
  ZeroTargets = TRUE
  ValCounts <- MCValAll
  KShapes <- AllShapes
  LawSteps = 1
VIEW View
INVARIANT TypeOK
INVARIANT RoundTrip
INVARIANT ComposeDecompose
INVARIANT PackUnpack
INVARIANT PackOrder
INVARIANT FlattenLayout
INVARIANT MassProduct
INVARIANT Factorizes
INVARIANT PofComplement
INVARIANT SupportWeight
INVARIANT UnitsLaw
INVARIANT HalfCallsOK
PROPERTY UpdateFootprint
PROPERTY SetFootprint
PROPERTY LoadPost
PROPERTY SetterPost
PROPERTY UnitsStep
PROPERTY ZeroTargetPost
INVARIANT XEmit
