---------------------------- MODULE MC_Moments ----------------------------
(* model constants for Moments.tla (cfg files cannot hold tuples / negative numbers)          *)
(*   *_defs_*  : MaxSteps = 0 -- every initial state with every definition (Obs) and the      *)
(*               premises of the single-call post-conditions of OpTable                      *)
(*   *_seq_*   : MaxSteps = 2 -- every sequence of <= 2 transform calls on a smaller class    *)
(*   *_probe   : vacuity probes (TLC must report a violation)                                 *)
EXTENDS Moments
V7 == -3..3
W4 == 0..3
V3 == {-1, 0, 2}
V5 == {-2, -1, 0, 1, 3}
W3 == {0, 1, 3}
V4s == {-2, 0, 1, 3}
(* single-call targets; quick is a subset of thorough *)
QMeanT == {<<-2, 1>>, <<1, 2>>, <<3, 1>>}
TMeanT == {<<-2, 1>>, <<0, 1>>, <<1, 2>>, <<3, 1>>, <<-7, 4>>}
QVarT == {<<1, 4>>, <<2, 1>>, <<9, 1>>}
TVarT == {<<0, 1>>, <<1, 4>>, <<1, 1>>, <<2, 1>>, <<9, 1>>, <<5, 2>>}
QStdT == {<<1, 2>>, <<3, 1>>}
TStdT == {<<1, 2>>, <<1, 1>>, <<3, 1>>, <<5, 4>>}
QSpreadT == {<<1, 2>>, <<4, 1>>}
TSpreadT == {<<0, 1>>, <<1, 2>>, <<1, 1>>, <<4, 1>>, <<7, 2>>}
QSumT == {<<1, 2>>, <<1, 1>>, <<3, 1>>}
TSumT == {<<0, 1>>, <<1, 2>>, <<1, 1>>, <<3, 1>>, <<7, 4>>}
QProdT == {<<1, 2>>, <<8, 1>>}
TProdT == {<<1, 2>>, <<1, 1>>, <<8, 1>>, <<27, 8>>}
QMomT == {<<-2, 1>>, <<3, 1>>}
TMomT == {<<-2, 1>>, <<-1, 8>>, <<0, 1>>, <<3, 1>>}
QMedT == {<<-1, 1>>, <<5, 2>>}
TMedT == {<<-1, 1>>, <<0, 1>>, <<5, 2>>}
QMadT == {<<1, 2>>, <<2, 1>>}
TMadT == {<<0, 1>>, <<1, 2>>, <<2, 1>>, <<3, 4>>}
QTrimMeanT == {<<1, 2>>}
TTrimMeanT == {<<-2, 1>>, <<1, 2>>}
QTrimVarT == {<<2, 1>>}
TTrimVarT == {<<1, 4>>, <<2, 1>>}
QTrimStdT == {<<3, 2>>}
TTrimStdT == {<<1, 2>>, <<3, 2>>}
(* sequence alphabets *)
SMeans == {<<1, 2>>, <<-2, 1>>}
SScales == {<<1, 2>>, <<2, 1>>}
SSums == {<<1, 1>>}
TSScales == {<<1, 2>>, <<2, 1>>, <<3, 2>>}
TSSums == {<<1, 1>>, <<5, 2>>}
=============================================================================
