SPECIFICATION GSpec
CONSTANTS
  Shapes <- MCShapes
  WFam <- TWFam
  WAlt <- MCWAlt
  XAlt <- MCXAlt
  PMin <- MCPMin
  PMax = 10
  MaxFactors = 3
  MaxSteps = 1
  Shifts <- MCShifts
  Scales <- MCScales
  TolSeq <- MCTols
  FuncSeq <- MCFuncs
  VFuncSeq <- MCVFuncs
  GFuncSeq <- MCGFuncs
  LSeq <- MCLSeq
  USeq <- MCUSeq
  NDraw = 5
  MeanShifts <- MCMeanShifts
  ValModels <- MCValModels
  YTols <- MCYTols
  YTarget <- MCYTarget
  RWMeasures <- TRW
  RWFracs <- MCFracs
  BMShifts <- MCBMShifts
VIEW GView
INVARIANT TypeOK
INVARIANT BoundsTypeOK
INVARIANT BoundsLen
INVARIANT BoundsLayout
INVARIANT BoundsSplit
INVARIANT BoundsAgree
INVARIANT FlatNested
INVARIANT EssWithin
INVARIANT ProductSupport
INVARIANT EssProduct
INVARIANT SelectIsPack
INVARIANT DiffersSymmetric
INVARIANT SampledSupported
INVARIANT ShortFacts
INVARIANT ValidFacts
INVARIANT NormWtsFacts
INVARIANT NormalizeFacts
INVARIANT BoundedMeanFacts
PROPERTY SetMeanPost
INVARIANT GEmit
