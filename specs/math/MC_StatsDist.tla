--------------------------- MODULE MC_StatsDist ---------------------------
(* model constants for StatsDist.tla *)
EXTENDS StatsDist
D3 == {-1, 0, 2}
D2 == {0, 2}
(* <<m, k, d>>: m points against k points in dimension d *)
QShapes == {<<1, 1, 1>>, <<1, 1, 2>>, <<2, 1, 1>>, <<1, 2, 2>>, <<2, 2, 1>>, <<2, 1, 2>>}       \* quick, coordinates D3
MShapes == QShapes \cup {<<2, 2, 2>>}                                                            \* the runs with moves
TShapes == MShapes \cup {<<1, 2, 1>>, <<1, 1, 3>>, <<3, 2, 1>>, <<2, 3, 1>>, <<3, 2, 2>>, <<1, 2, 3>>}
QShifts == {3}
TShifts == {-2, 3}
Ls == [d \in 1..3 |-> IF d = 1 THEN {<<2>>} ELSE IF d = 2 THEN {<<1, 2>>, <<0, 3>>} ELSE {<<1, 0, 2>>}]
=============================================================================
