SPECIFICATION XSpec
CONSTANTS
  Shapes <- MCLShapes
  WFam <- LWFam
  WAlt <- LWAlt
  XAlt <- LXAlt
  PMin <- LPMin
  PMax = 40
  MaxFactors = 1
  MaxSteps = 1
  Shifts <- MCShifts
  Scales <- MCScales
  TolSeq <- LTols
  FuncSeq <- MCFuncs
  VFuncSeq <- MCVFuncs
  UnitSeq <- MCUnits
  MultSeq <- MCMults
  ZeroTargets = TRUE
  ValCounts <- LValCounts
  KShapes <- LShapes
  LawSteps = 0
VIEW View
INVARIANT TypeOK
INVARIANT RoundTrip
INVARIANT ComposeDecompose
INVARIANT PackUnpack
INVARIANT PackOrder
INVARIANT FlattenLayout
INVARIANT MassProduct
INVARIANT Factorizes
INVARIANT PofComplement
INVARIANT SupportWeight
INVARIANT UnitsLaw
INVARIANT HalfCallsOK
PROPERTY UpdateFootprint
PROPERTY SetFootprint
PROPERTY LoadPost
PROPERTY SetterPost
PROPERTY UnitsStep
PROPERTY ZeroTargetPost
INVARIANT XEmit
