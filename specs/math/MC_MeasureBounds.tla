---- MODULE MC_MeasureBounds ----
(* Model-checking instances of MeasureBounds (the growth of C19): the shapes, weight families, catalogues and  *)
(* the partition over parallel TLC runs are those of MC_Measures (C19_PART / C19_NPART / C19_MAXF).            *)
EXTENDS MC_Measures, MeasureBounds

MCGFuncs == << [k |-> "id", c |-> 1], [k |-> "sq", c |-> 4], [k |-> "neg", c |-> 2] >>
MCLSeq == << [base |-> 1, step |-> 0], [base |-> 2, step |-> 0], [base |-> 0, step |-> 1] >>
(* odd sixteenths: never equal to a cumulative weight c/T with T <= 6, so the float comparison is never at a tie *)
MCUSeq == << <<1, 16>>, <<11, 16>>, <<5, 16>>, <<15, 16>>, <<7, 16>>, <<3, 16>>, <<13, 16>>, <<9, 16>> >>
MCMeanShifts == {-1, 2}
MCValModels == {2, 3}
MCYTols == <<0, 2>>
MCYTarget == <<3, 1>>
MCBMShifts == <<-1, 1, 2>>
MCFracs == {<<1, 4>>, <<1, 2>>, <<3, 4>>}
QRW == { << <<1, 0>>, <<1, 3>> >>, << <<1, 0>>, <<2, 1>>, <<1, 2>> >>, << <<2, 0>>, <<1, 1>>, <<1, 4>> >>,
         << <<1, -1>>, <<1, 0>>, <<2, 2>> >> }
TRW == QRW \cup { << <<2, 1>>, <<1, 2>> >>, << <<0, 0>>, <<1, 2>>, <<1, 5>> >>, << <<1, 0>>, <<1, 2>>, <<1, 4>> >>,
                  << <<1, 3>>, <<2, 0>>, <<1, 1>> >>, << <<2, 0>>, <<2, 3>>, <<0, 1>> >>, << <<1, 0>>, <<0, 1>>, <<1, 2>> >> }
====
