------------------------------ MODULE StatsDist ------------------------------
(***************************************************************************)
(* C18, third part -- mystic.math.distance on SETS of points:              *)
(*   absolute_distance (pointwise / pairwise), chebyshev / hamming /       *)
(*   manhattan / euclidean / minkowski(p) as distance MATRIX (pair=False,  *)
(*   axis=0), as PAIRWISE vector (pair=True, axis=1) and fully reduced     *)
(*   (axis=None), with the second set omitted (xp=None: the set against    *)
(*   itself) and with dmin=2 (1-D input = one point); Lnorm(p, axis) of a  *)
(*   matrix; lipschitz_metric; lipschitz_distance (tol, cutoff);           *)
(*   infeasibility / is_feasible.                                          *)
(* Documented definitions (docstrings of distance.py):                     *)
(*   d(inf) = max_i |x_i - x'_i|        d(0) = #{i : x_i # x'_i}           *)
(*   d(p)   = (sum_i |x_i - x'_i|^p)^(1/p)   (euclidean p=2, manhattan 1)  *)
(*   lipschitz_metric = sum_i L_i |x_i - x'_i|                             *)
(*   lipschitz_distance = |y - y'| - max(0,tol) - lipschitz_metric, with   *)
(*   every element <= cutoff zeroed (cutoff defaults to tol; None: keep)   *)
(*   infeasibility(d, c) = d where d exceeds c, else 0; is_feasible = the  *)
(*   distance does not exceed the cutoff.                                  *)
(* All coordinates are integers; a p-norm quantity is stated as its p-th   *)
(* POWER (an integer), so nothing is rounded.                              *)
(*                                                                         *)
(* State: two point sets                                                   *)
(*    x  -- sequence of m points, each a sequence of d integers            *)
(*    y  -- sequence of k points of the same dimension d                   *)
(* and ghosts: hist (the moves made), pre (the distance matrices before    *)
(* the last move).  Moves (isometries / relabelings of the plane, under    *)
(* which the matrices must not change or must transpose):                  *)
(*    Swap          x, y := y, x          (matrix transposes)              *)
(*    Translate(c)  add c to every coordinate of every point (unchanged)   *)
(*    Negate        every coordinate changes sign (unchanged)              *)
(*    RevCoords     the coordinates of every point are reversed (unch.)    *)
(* Every reachable state is emitted with every quantity evaluated on it;   *)
(* the harness calls the real functions on (x, y) and compares.            *)
(***************************************************************************)
EXTENDS Integers, Sequences, FiniteSets, TLC, Json, SequencesExt, FiniteSetsExt, IOUtils

CONSTANTS DVals,        \* coordinate values of initial states
          Shapes,       \* set of <<m, k, d>>
          Shifts,       \* translations
          LCat,         \* d |-> set of Lipschitz-constant vectors of length d (integers >= 0)
          DTols,        \* tol values of lipschitz_distance (integers >= 0)
          Cutoffs,      \* explicit cutoff values (integers >= 0)
          DistSteps     \* number of moves explored

VARIABLES x, y, hist, pre
vars == <<x, y, hist, pre>>

Abs(a) == IF a < 0 THEN -a ELSE a
RECURSIVE IPow(_, _)
IPow(a, e) == IF e = 0 THEN 1 ELSE a * IPow(a, e - 1)
RECURSIVE SumSeq(_, _)
SumSeq(v, n) == IF n = 0 THEN 0 ELSE SumSeq(v, n - 1) + v[n]
SumOf(v) == SumSeq(v, Len(v))
MaxOf(v) == Max({v[i] : i \in 1..Len(v)})

-----------------------------------------------------------------------------
(* POINT-TO-POINT METRICS, p-th power form *)
AD(p, q) == [i \in 1..Len(p) |-> Abs(p[i] - q[i])]
Metrics == {"chebyshev", "hamming", "manhattan", "euclidean", "minkowski"}     \* minkowski: default p = 3
Pw(name) == CASE name = "euclidean" -> 2 [] name = "minkowski" -> 3 [] OTHER -> 1
D(name, p, q) ==
  LET a == AD(p, q) IN
  CASE name = "chebyshev" -> MaxOf(a)
    [] name = "hamming" -> Cardinality({i \in 1..Len(a) : a[i] # 0})
    [] OTHER -> SumOf([i \in 1..Len(a) |-> IPow(a[i], Pw(name))])
(* distance matrix: entry [a][b] = distance between point a of X and point b of Y *)
Matrix(name, X, Y) == [a \in 1..Len(X) |-> [b \in 1..Len(Y) |-> D(name, X[a], Y[b])]]
(* pairwise distances (same number of points): entry [a] = distance between X[a] and Y[a] *)
PairVec(name, X, Y) == [a \in 1..Len(X) |-> D(name, X[a], Y[a])]
(* full reduction (axis=None): the norm is taken over every coordinate difference of every pair *)
Flat(mat) == FlattenSeq(mat)
Reduce(name, v) == IF name = "chebyshev" THEN MaxOf(v) ELSE SumOf(v)
(* absolute_distance: pointwise [i][a][b] = |X[a][i] - Y[b][i]|; pairwise [a][i] = |X[a][i] - Y[a][i]| *)
PointwiseAD(X, Y) == [i \in 1..Len(X[1]) |-> [a \in 1..Len(X) |-> [b \in 1..Len(Y) |-> Abs(X[a][i] - Y[b][i])]]]
PairwiseAD(X, Y) == [a \in 1..Len(X) |-> AD(X[a], Y[a])]

(* L-p norm of a matrix (rows = points) along an axis, p-th power form; p = 0 counts non-zeros, INF = max *)
INF == 1000000
Ps == <<0, 1, 2, 3, INF>>
NormOf(v, p) == IF p = INF THEN MaxOf([i \in 1..Len(v) |-> Abs(v[i])])
                ELSE IF p = 0 THEN Cardinality({i \in 1..Len(v) : v[i] # 0})
                ELSE SumOf([i \in 1..Len(v) |-> IPow(Abs(v[i]), p)])
Column(X, i) == [a \in 1..Len(X) |-> X[a][i]]
LnormAll(X, p) == NormOf(Flat(X), p)
LnormAxis0(X, p) == [i \in 1..Len(X[1]) |-> NormOf(Column(X, i), p)]       \* along the points: one value per coordinate
LnormAxis1(X, p) == [a \in 1..Len(X) |-> NormOf(X[a], p)]                  \* along the coordinates: one value per point

(* Lipschitz quantities *)
LipMetric(L, X, Y) == [a \in 1..Len(X) |-> [b \in 1..Len(Y) |->
                         SumOf([i \in 1..Len(L) |-> L[i] * Abs(X[a][i] - Y[b][i])])]]
Val(p) == 2 * p[1] * p[1] - 3 * p[Len(p)]                                  \* the value attached to a data point
LipRaw(L, X, Y, tol) == [a \in 1..Len(X) |-> [b \in 1..Len(Y) |->
                           Abs(Val(X[a]) - Val(Y[b])) - tol - LipMetric(L, X, Y)[a][b]]]
Infeas(v, c) == IF v > c THEN v ELSE 0
Feasible(v, c) == ~(v > c)
MapMat(mat, Op(_)) == [a \in 1..Len(mat) |-> [b \in 1..Len(mat[a]) |-> Op(mat[a][b])]]

-----------------------------------------------------------------------------
(* THE STATE MACHINE *)
Shard == IF "SHARD" \in DOMAIN IOEnv THEN atoi(IOEnv.SHARD) ELSE 0
NShards == IF "NSHARDS" \in DOMAIN IOEnv THEN atoi(IOEnv.NSHARDS) ELSE 1
RECURSIVE Mix(_, _)
Mix(v, n) == IF n = 0 THEN 0 ELSE (Mix(v, n - 1) * 5 + v[n] + 11) % 1000003
Hash(X, Y) == Mix(Flat(X) \o Flat(Y), Len(Flat(X)) + Len(Flat(Y)))

AllMats(X, Y) == [name \in Metrics |-> Matrix(name, X, Y)]
Init == /\ \E sh \in Shapes : /\ x \in [1..sh[1] -> [1..sh[3] -> DVals]]
                              /\ y \in [1..sh[2] -> [1..sh[3] -> DVals]]
        /\ Hash(x, y) % NShards = Shard
        /\ hist = << >>
        /\ pre = AllMats(x, y)
Move(name, X2, Y2) == /\ x' = X2 /\ y' = Y2
                      /\ hist' = Append(hist, name)
                      /\ pre' = AllMats(x, y)
MapPts(X, Op(_)) == [a \in 1..Len(X) |-> Op(X[a])]
Swap == Move("swap", y, x)
Translate(c) == LET T(p) == [i \in 1..Len(p) |-> p[i] + c]
                IN Move("translate", MapPts(x, T), MapPts(y, T))
Negate == LET T(p) == [i \in 1..Len(p) |-> -p[i]] IN Move("negate", MapPts(x, T), MapPts(y, T))
RevCoords == LET T(p) == [i \in 1..Len(p) |-> p[Len(p) + 1 - i]] IN Move("reverse", MapPts(x, T), MapPts(y, T))
Next == /\ Len(hist) < DistSteps
        /\ (Swap \/ Negate \/ RevCoords \/ \E c \in Shifts : Translate(c))
Spec == Init /\ [][Next]_vars

-----------------------------------------------------------------------------
(* INVARIANTS *)
Dim == Len(x[1])
TypeOK == /\ \A a \in 1..Len(x) : Len(x[a]) = Dim
          /\ \A b \in 1..Len(y) : Len(y[b]) = Dim
Pts == {x[a] : a \in 1..Len(x)} \cup {y[b] : b \in 1..Len(y)}
TrueMetrics == {"chebyshev", "hamming", "manhattan"}            \* metrics in plain (power 1) form
MetricAxioms ==
  \A name \in TrueMetrics : \A p, q \in Pts :
     /\ D(name, p, q) >= 0
     /\ (D(name, p, q) = 0 <=> p = q)
     /\ D(name, p, q) = D(name, q, p)
     /\ \A r \in Pts : D(name, p, q) <= D(name, p, r) + D(name, r, q)
NormOrder ==                                                     \* max <= 2-norm <= 1-norm etc., in power form
  \A p, q \in Pts :
     LET c == D("chebyshev", p, q)
         m == D("manhattan", p, q)
         e == D("euclidean", p, q)
         k == D("minkowski", p, q)
         h == D("hamming", p, q)
     IN /\ c * c <= e /\ e <= m * m /\ e <= Dim * c * c
        /\ c * c * c <= k /\ k <= m * m * m
        /\ c <= m /\ m <= Dim * c /\ h <= Dim /\ h <= m
SelfMatrix == \A name \in Metrics : LET S == Matrix(name, x, x) IN
                 \A a, b \in 1..Len(x) : S[a][b] = S[b][a] /\ S[a][a] = 0
LipFacts == /\ LipMetric([i \in 1..Dim |-> 1], x, y) = Matrix("manhattan", x, y)
            /\ LipMetric([i \in 1..Dim |-> 0], x, y) = [a \in 1..Len(x) |-> [b \in 1..Len(y) |-> 0]]
AfterMove == hist # << >> =>
               LET last == hist[Len(hist)] IN
                 IF last = "swap"
                 THEN \A name \in Metrics : \A a \in 1..Len(x), b \in 1..Len(y) :
                         Matrix(name, x, y)[a][b] = pre[name][b][a]
                 ELSE AllMats(x, y) = pre
NeverSwap == ~(hist # << >> /\ hist[Len(hist)] = "swap")        \* vacuity probe

-----------------------------------------------------------------------------
(* EMISSION *)
NoCut == -INF                                                    \* cutoff=None: nothing is zeroed
LipCase(L, X, Y, t, c) ==
  LET raw == LipRaw(L, X, Y, t)
      Z(v) == Infeas(v, c)
      F(v) == Feasible(v, c)
  IN [L |-> L, tol |-> t, cutoff |-> c, raw |-> raw,
      out |-> IF c = NoCut THEN raw ELSE MapMat(raw, Z),
      feasible |-> IF c = NoCut THEN << >> ELSE MapMat(raw, F)]
DistObs(X, Y) ==
  [mat |-> AllMats(X, Y),
   self |-> AllMats(X, X),
   pair |-> IF Len(X) = Len(Y) THEN [name \in Metrics |-> PairVec(name, X, Y)] ELSE [name \in Metrics |-> << >>],
   all |-> [name \in Metrics |-> Reduce(name, Flat(Matrix(name, X, Y)))],
   pairall |-> IF Len(X) = Len(Y) THEN [name \in Metrics |-> Reduce(name, PairVec(name, X, Y))]
               ELSE [name \in Metrics |-> 0],
   pointwise |-> PointwiseAD(X, Y),
   pairwise |-> IF Len(X) = Len(Y) THEN PairwiseAD(X, Y) ELSE << >>,
   lnorm |-> [j \in 1..Len(Ps) |-> [all |-> LnormAll(X, Ps[j]), ax0 |-> LnormAxis0(X, Ps[j]), ax1 |-> LnormAxis1(X, Ps[j])]],
   lip |-> SetToSeq({[L |-> L, metric |-> LipMetric(L, X, Y)] : L \in LCat[Len(X[1])]}),
   vx |-> [a \in 1..Len(X) |-> Val(X[a])], vy |-> [b \in 1..Len(Y) |-> Val(Y[b])],
   lipdist |-> SetToSeq({LipCase(L, X, Y, t, c) : L \in LCat[Len(X[1])], t \in DTols, c \in Cutoffs \cup {NoCut}})]
ASSUME PrintT(<<"@@", ToJson([dist |-> TRUE, ps |-> Ps, inf |-> INF, nocut |-> NoCut,
                              metrics |-> SetToSeq(Metrics), pw |-> [name \in Metrics |-> Pw(name)]])>>)
EmitDist == PrintT(<<"@@", ToJson([x |-> x, y |-> y, hist |-> hist, obs |-> DistObs(x, y)])>>)
=============================================================================
