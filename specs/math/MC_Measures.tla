---- MODULE MC_Measures ----
(* Model-checking instances of Measures: constants that cannot be written in a cfg file, and the   *)
(* partition of the shapes over parallel TLC runs (environment C19_PART / C19_NPART, default 0/1;   *)
(* C19_MAXF restricts a run to the shapes with at most that many factors).                         *)
EXTENDS Measures, IOUtils

AllShapes == UNION {[1..d -> 1..3] : d \in 1..3}          \* <= 3 factors x 1..3 points, unequal sizes included
Cost(sh) == ProdSeq(sh) * ParLen(sh)
Code(sh) == SumSeq([m \in 1..Len(sh) |-> sh[m] * 4^(m - 1)])
Before(t, s) == Cost(t) > Cost(s) \/ (Cost(t) = Cost(s) /\ Code(t) < Code(s))
NPart == IF "C19_NPART" \in DOMAIN IOEnv THEN atoi(IOEnv.C19_NPART) ELSE 1
Part  == IF "C19_PART"  \in DOMAIN IOEnv THEN atoi(IOEnv.C19_PART) ELSE 0
MaxF  == IF "C19_MAXF"  \in DOMAIN IOEnv THEN atoi(IOEnv.C19_MAXF) ELSE 3   \* optionally only shapes with <= MaxF factors
FShapes == {sh \in AllShapes : Len(sh) <= MaxF}
Rank(sh) == Cardinality({t \in FShapes : Before(t, sh)})
MCShapes == {sh \in FShapes : Rank(sh) % NPart = Part}     \* round robin over the cost-sorted shapes

(* weight vectors a loaded factor may carry (zeros included) *)
QWFam == << {<<2>>, <<1>>}, {<<1, 2>>, <<0, 1>>}, {<<1, 2, 1>>, <<0, 2, 0>>} >>
TWFam == << {<<2>>, <<1>>}, {<<1, 2>>, <<0, 1>>, <<2, 0>>, <<0, 0>>},
            {<<1, 2, 1>>, <<0, 2, 0>>, <<2, 0, 1>>, <<1, 1, 0>>} >>
DWFam == << {<<2>>}, {<<1, 2>>}, {<<1, 2, 1>>, <<0, 2, 0>>} >>
MCPMin == -1
MCWAlt == {0, 1, 2}
MCXAlt == {-1, 4}
MCShifts == {-1, 2}
MCScales == {0, 2}
MCTols == <<0, 1>>
MCFuncs == << [k |-> "first", c |-> 1], [k |-> "sum", c |-> 9], [k |-> "lin", c |-> 12],
              [k |-> "prod", c |-> 6], [k |-> "last", c |-> 4], [k |-> "const", c |-> 0] >>
MCVFuncs == << [k |-> "val", c |-> 2], [k |-> "val", c |-> 0] >>
====
