---------------------------- MODULE MeasureBounds ----------------------------
(***************************************************************************)
(* Growth of Measures.tla (property C19): the parts of the measure         *)
(* machinery around a product measure / scenario that the state machine of *)
(* Measures.tla does not exercise.                                         *)
(*                                                                         *)
(*  PART 1  mystic.bounds: Bounds / MeasureBounds objects (construction    *)
(*          from scalars and sequences, lower/upper/wlower/wupper/xlower/  *)
(*          xupper, __len__, __call__, __add__) and how their flattened    *)
(*          order interleaves with npts: per measure, n weight bounds then *)
(*          n position bounds -- the SAME slot layout as Flatten / SlotSeq *)
(*          / SplitW / SplitX of Measures.tla (invariants BoundsLayout,    *)
(*          BoundsSplit, BoundsAgree).                                     *)
(*  PART 2  the statistics of mystic.math.discrete not replayed so far:    *)
(*          minimum/maximum/ptp and ess_minimum/ess_maximum/ess_ptp of a   *)
(*          measure and of a product measure, measure-level expect /       *)
(*          expect_var / support / support_index, select / differs_by_one, *)
(*          sampled_support and the sampled_* statistics under a scripted  *)
(*          random stream, the scenario's shortness (Lipschitz) and model  *)
(*          validity checks, set_mean_value, bounded_mean, the two         *)
(*          constraints factories (normalised weights, mean of the values).*)
(*          Facts about the measure alone are checked / emitted in the     *)
(*          loaded states (steps = 0), those about the values in every     *)
(*          state without a bounds object.                                 *)
(*  PART 3  mystic.math.measures helpers: _flat/_nested/split_param,       *)
(*          weighted_select, normalize (mass, zsum/zmass forms),           *)
(*          impose_reweighted_mean/variance/std (only the weights move).   *)
(*                                                                         *)
(* VARIABLES (in addition to pm, vals, steps, last of Measures.tla)        *)
(*   bd    the bounds object built for the loaded measure; cls = "none"    *)
(*         until one has been constructed.  A constructor argument is a    *)
(*         record [s |-> is it a sequence, v |-> the values]: a scalar is  *)
(*         [s |-> FALSE, v |-> <<c>>].  om = the arguments left out of the *)
(*         call (their documented defaults are then the values carried).   *)
(*                                                                         *)
(* ACTIONS  GLoad (Measures' Load), GBound (construct a Bounds /           *)
(*   MeasureBounds with n = pts of the loaded measure, and other forms),   *)
(*   GSetValues (scenario.values = model(positions)), GSetMean             *)
(*   (scenario.set_mean_value).  Everything else is an observable of the   *)
(*   state, emitted with its expected value.                               *)
(*                                                                         *)
(* INF = 1000000 stands for float('inf') (the documented default bounds).  *)
(***************************************************************************)
EXTENDS Measures

CONSTANTS GFuncSeq,   \* catalogue of integer test functions of ONE coordinate (records [k, c])
          LSeq,       \* Lipschitz constants: records [base, step]; dimension m gets base + step*(m-1)
          USeq,       \* the scripted random stream: rationals <<r, den>> in [0,1)
          NDraw,      \* sampled_*(f, npts = NDraw)
          MeanShifts, \* set_mean_value targets: current mean of the values + k
          ValModels,  \* indices into FuncSeq: GSetValues writes values = FuncSeq[i](positions)
          YTols,      \* ytol / tol values for valid_wrt_model and short_wrt_*
          YTarget,    \* mean_y_norm_wts_constraintsFactory((YTarget[1], YTarget[2]), pts)
          RWMeasures, \* the small measures the reweighting cases are built from (sequences of <<w, x>>)
          BMShifts,   \* bounded_mean targets: centre of mass + k (a sequence)
          RWFracs     \* target fractions <<p, q>> for the reweighting cases

VARIABLES bd
gvars == <<pm, vals, steps, last, bd>>
GView == <<pm, vals, bd>>

INF == 1000000
(* TLC re-evaluates a LET definition at every use; binding a value through a singleton set evaluates it once *)
Force(x, F(_)) == CHOOSE r \in {F(y) : y \in {x}} : TRUE

-----------------------------------------------------------------------------
(* PART 1: Bounds and MeasureBounds                                        *)
Sc(c) == [s |-> FALSE, v |-> <<c>>]
Sq(vs) == [s |-> TRUE, v |-> vs]
NoBounds == [cls |-> "none", xlb |-> Sc(0), xub |-> Sc(0), n |-> Sc(0), wlb |-> Sc(0), wub |-> Sc(0), om |-> {}]
MkB(cls, xlb, xub, n, wlb, wub, om) ==
  [cls |-> cls, xlb |-> xlb, xub |-> xub, n |-> n, wlb |-> wlb, wub |-> wub, om |-> om]

(* the arguments that take part in the stretching: Bounds ignores wlb / wub *)
ArgsOf(b) == IF b.cls = "MB" THEN {b.xlb, b.xub, b.n, b.wlb, b.wub} ELSE {b.xlb, b.xub, b.n}
SeqArgs(b) == {a \in ArgsOf(b) : a.s}
(* every scalar is stretched to the common length of the sequences (1 if there is none) *)
KOf(b) == IF SeqArgs(b) = {} THEN 1 ELSE Len((CHOOSE a \in SeqArgs(b) : TRUE).v)
St(a, k) == IF a.s THEN a.v ELSE [i \in 1..k |-> a.v[1]]
Rep(c, v) == [i \in 1..c |-> v]
NOf(b) == St(b.n, KOf(b))
PerMeasure(b, arg) == LET K == KOf(b) n == NOf(b) a == St(arg, K) IN FlatSeq([k \in 1..K |-> Rep(n[k], a[k])])
XLower(b) == PerMeasure(b, b.xlb)                                  \* .xlower
XUpper(b) == PerMeasure(b, b.xub)                                  \* .xupper
WLower(b) == PerMeasure(b, b.wlb)                                  \* .wlower (MeasureBounds; None for Bounds)
WUpper(b) == PerMeasure(b, b.wub)                                  \* .wupper
Interleave(b, warg, xarg) ==
  LET K == KOf(b) n == NOf(b) w == St(warg, K) x == St(xarg, K)
  IN FlatSeq([k \in 1..K |-> Rep(n[k], w[k]) \o Rep(n[k], x[k])])  \* per measure: n weight bounds, n position bounds
Lower(b) == IF b.cls = "MB" THEN Interleave(b, b.wlb, b.xlb) ELSE XLower(b)       \* .lower
Upper(b) == IF b.cls = "MB" THEN Interleave(b, b.wub, b.xub) ELSE XUpper(b)       \* .upper
BLen(b) == (IF b.cls = "MB" THEN 2 ELSE 1) * SumSeq(NOf(b))                       \* len(b)
Call(b) == [i \in 1..Len(Lower(b)) |-> <<Lower(b)[i], Upper(b)[i]>>]               \* b()
AddB(a, b) == Call(a) \o Call(b)                                                  \* a + b (a list of pairs)

Within(vec, lo, hi) == \A i \in 1..Len(vec) : lo[i] <= vec[i] /\ vec[i] <= hi[i]

(* the constructions explored for a measure of shape sh (n = pts), plus forms where n is a scalar or left out *)
AllSame(sh) == \A m \in 1..Len(sh) : sh[m] = sh[1]
BXL(K) == [m \in 1..K |-> 3 * (m - 1)]
BXU(K) == [m \in 1..K |-> 3 * (m - 1) + 1]
BWL(K) == [m \in 1..K |-> (m + 1) % 2]
BWU(K) == [m \in 1..K |-> 1 + (m % 2)]
DefXL == Sc(-INF)  DefXU == Sc(INF)  DefN == Sc(1)  DefWL == Sc(0)  DefWU == Sc(1)
BoundCat(sh) ==
  LET K == Len(sh)  N == Sq(sh)
  IN { MkB("MB", Sc(0), Sc(5), N, DefWL, DefWU, {"wlb", "wub"}),
       MkB("MB", Sq(BXL(K)), Sq(BXU(K)), N, DefWL, DefWU, {"wlb", "wub"}),
       MkB("MB", Sq(BXL(K)), Sq(BXU(K)), N, Sq(BWL(K)), Sq(BWU(K)), {}),
       MkB("MB", Sc(0), Sc(8), N, Sq(BWL(K)), Sc(2), {}),
       MkB("MB", Sq(BXL(K)), Sc(8), N, DefWL, Sc(2), {"wlb"}),
       MkB("MB", Sq(BXL(K)), DefXU, N, DefWL, DefWU, {"xub", "wlb", "wub"}),
       MkB("MB", DefXL, DefXU, N, Sc(1), Sc(2), {"xlb", "xub"}),
       MkB("MB", Sc(-1), Sq(BXU(K)), N, Sc(0), Sq(BWU(K)), {}),
       MkB("B", Sq(BXL(K)), Sq(BXU(K)), N, DefWL, DefWU, {"wlb", "wub"}),
       MkB("B", Sc(0), Sc(5), N, DefWL, DefWU, {"wlb", "wub"}),
       MkB("B", Sq(BXL(K)), DefXU, N, DefWL, DefWU, {"xub", "wlb", "wub"}),
       MkB("B", Sq(BXL(K)), Sq(BXU(K)), DefN, DefWL, DefWU, {"n", "wlb", "wub"}),
       MkB("MB", Sq(BXL(K)), Sq(BXU(K)), DefN, Sq(BWL(K)), DefWU, {"n", "wub"}) }
  \cup (IF AllSame(sh)                                           \* "n copies": a scalar n repeats every measure n times
        THEN { MkB("MB", Sq(BXL(K)), Sq(BXU(K)), Sc(sh[1]), DefWL, DefWU, {"wlb", "wub"}),
               MkB("MB", Sc(0), Sc(5), Sc(sh[1]), Sq(BWL(K)), Sq(BWU(K)), {}),
               MkB("B", Sq(BXL(K)), Sc(7), Sc(sh[1]), DefWL, DefWU, {"wlb", "wub"}) }
        ELSE {})
  \cup (IF K = 1                                                 \* nothing is a sequence
        THEN { MkB("MB", Sc(0), Sc(5), Sc(sh[1]), DefWL, DefWU, {"wlb", "wub"}),
               MkB("MB", Sc(0), Sc(5), Sc(sh[1]), Sc(1), Sc(2), {}),
               MkB("B", Sc(7), Sc(8), Sc(sh[1]), DefWL, DefWU, {"wlb", "wub"}),
               MkB("B", Sc(7), DefXU, DefN, DefWL, DefWU, {"xub", "n", "wlb", "wub"}),
               MkB("B", DefXL, DefXU, DefN, DefWL, DefWU, {"xlb", "xub", "n", "wlb", "wub"}) }
        ELSE {})
(* the other operand of b + other / other + b *)
AddCat == << MkB("B", Sc(7), Sc(8), Sc(2), DefWL, DefWU, {"wlb", "wub"}),
             MkB("MB", Sq(<<0, 1>>), Sq(<<4, 5>>), Sc(1), DefWL, DefWU, {"wlb", "wub"}) >>

-----------------------------------------------------------------------------
(* PART 2: statistics                                                      *)
EvalG(g, x) == CASE g.k = "id"  -> x - g.c
                 [] g.k = "sq"  -> (x - g.c) * (x - g.c)
                 [] g.k = "neg" -> g.c - x
FacVals(f, g) == [j \in 1..Len(f) |-> EvalG(g, f[j][2])]
SuppJ(f, tol) == {j \in 1..Len(f) : f[j][1] > tol}                  \* measure.support_index (1-based)
GMin(S) == Force(S, LAMBDA T : CHOOSE x \in T : \A y \in T : x <= y)
GMax(S) == Force(S, LAMBDA T : CHOOSE x \in T : \A y \in T : y <= x)
MinOver(fv, J) == Force(fv, LAMBDA v : GMin({v[j] : j \in J}))
MaxOver(fv, J) == Force(fv, LAMBDA v : GMax({v[j] : j \in J}))
AllJ(f) == 1..Len(f)
(* a statistic that may be undefined (empty support): [def, v] *)
Def(v) == [def |-> TRUE, v |-> v]
Undef == [def |-> FALSE, v |-> 0]
EssMin(f, g, tol) == IF SuppJ(f, tol) = {} THEN Undef ELSE Def(MinOver(FacVals(f, g), SuppJ(f, tol)))
EssMax(f, g, tol) == IF SuppJ(f, tol) = {} THEN Undef ELSE Def(MaxOver(FacVals(f, g), SuppJ(f, tol)))
EssPtp(f, g, tol) == IF SuppJ(f, tol) = {} THEN Undef
                     ELSE Def(MaxOver(FacVals(f, g), SuppJ(f, tol)) - MinOver(FacVals(f, g), SuppJ(f, tol)))
FMin(f, g) == MinOver(FacVals(f, g), AllJ(f))                       \* measure.minimum
FMax(f, g) == MaxOver(FacVals(f, g), AllJ(f))                       \* measure.maximum
FPtp(f, g) == FMax(f, g) - FMin(f, g)                               \* measure.ptp
(* the product measure's versions: the extreme over the factor measures (each factor seen as a 1-d measure) *)
Factors(p) == 1..Len(p)
ProdMin(p, g) == MinOf({FMin(p[m], g) : m \in Factors(p)})             \* product_measure.minimum
ProdMax(p, g) == MaxOf({FMax(p[m], g) : m \in Factors(p)})             \* product_measure.maximum
ProdPtp(p, g) == MaxOf({FPtp(p[m], g) : m \in Factors(p)})             \* product_measure.ptp
AllSupported(p, tol) == \A m \in Factors(p) : SuppJ(p[m], tol) # {}
PEssMin(p, g, tol) == IF ~AllSupported(p, tol) THEN Undef ELSE Def(MinOf({EssMin(p[m], g, tol).v : m \in Factors(p)}))
PEssMax(p, g, tol) == IF ~AllSupported(p, tol) THEN Undef ELSE Def(MaxOf({EssMax(p[m], g, tol).v : m \in Factors(p)}))
PEssPtp(p, g, tol) == IF ~AllSupported(p, tol) THEN Undef ELSE Def(MaxOf({EssPtp(p[m], g, tol).v : m \in Factors(p)}))
(* measure.expect / expect_var: the factor as a 1-d measure *)
FExpect(f, g) == ExpectOf(Wts(f), FacVals(f, g))
FExpectVar(f, g) == ExpectVarOf(Wts(f), FacVals(f, g))

(* extremes of a function of the product point over the product's support (weight > 0) *)
PSupport(p) == SupportIdx(Weights(p), 0)
EssOverPoints(p, f) == Force(<<FValues(p, f), PSupport(p)>>, LAMBDA a :
                          IF a[2] = {} THEN [def |-> FALSE, lo |-> 0, hi |-> 0]
                          ELSE [def |-> TRUE, lo |-> MinOver(a[1], a[2]), hi |-> MaxOver(a[1], a[2])])

(* select / differs_by_one: the "associated binary string" of a point index (least significant bit first) *)
RECURSIVE BitLen(_)
Pow2(b) == <<1, 2, 4, 8, 16, 32, 64, 128>>[b + 1]
BitLen(n) == IF n < 2 THEN 1 ELSE 1 + BitLen(n \div 2)
Bit(i, b) == (i \div Pow2(b)) % 2
HammingBits(i, j, width) == Cardinality({b \in 0..(width - 1) : Bit(i, b) # Bit(j, b)})
(* differs_by_one(ith, all): the indices whose string differs from that of ith in exactly one place *)
DiffersByOne(N, i, all) == {j \in 0..(IF all THEN N - 1 ELSE i - 1) : HammingBits(i, j, BitLen(N)) = 1}
(* select(i): documented premise: every factor has exactly 2 points; coordinate m is chosen by bit m-1 *)
AllTwo(p) == \A m \in Factors(p) : Len(p[m]) = 2
SelectPt(p, i) == [m \in Factors(p) |-> p[m][Bit(i, m - 1) + 1][2]]

(* weighted_select under a given random number u = <<r, den>>: the first point whose cumulative normalised
   weight exceeds u (the last cumulative weight is set to the mass, so a point is always found) *)
CumW(f, j) == SumTo(Wts(f), j)
SelIdx(f, u) == Cardinality({j \in 1..(Len(f) - 1) : CumW(f, j) * u[2] <= u[1] * Mass(f)}) + 1
UAt(c) == USeq[((c - 1) % Len(USeq)) + 1]                           \* the c-th number drawn (the stream cycles)
(* sampled_support(nd): nd trials; in each trial one point per factor, factors in order *)
DrawPt(p, i) == [m \in Factors(p) |-> p[m][SelIdx(p[m], UAt((i - 1) * Len(p) + m))][2]]
DrawIdx(p, i) == [m \in Factors(p) |-> SelIdx(p[m], UAt((i - 1) * Len(p) + m))]
Samplable(p) == \A m \in Factors(p) : Mass(p[m]) > 0
Ones(n) == [i \in 1..n |-> 1]
SampledStats(p, f, nd) ==
  Force([i \in 1..nd |-> EvalF(f, DrawPt(p, i))], LAMBDA fv :
     [min |-> MinOver(fv, 1..nd), max |-> MaxOver(fv, 1..nd), ptp |-> MaxOver(fv, 1..nd) - MinOver(fv, 1..nd),
      e |-> ExpectOf(Ones(nd), fv), v |-> ExpectVarOf(Ones(nd), fv),
      pof |-> Rat(Cardinality({i \in 1..nd : fv[i] <= 0}), nd)])

(* the scenario as a data set: Lipschitz shortness and model validity *)
LVec(l, F) == [m \in 1..F |-> l.base + l.step * (m - 1)]
LDist(L, x, xp) == SumSeq([m \in 1..Len(x) |-> L[m] * Abs(x[m] - xp[m])])
(* lipschitz_distance with tol (subtracted) and cutoff = tol (smaller distances are zeroed) *)
ShortRaw(L, X, Y, XP, YP, tol) ==
  [i \in 1..Len(X) |-> [j \in 1..Len(XP) |->
      LET d == Abs(Y[i] - YP[j]) - tol - LDist(L, X[i], XP[j]) IN IF d <= tol THEN 0 ELSE d]]
(* the shortness checks emitted for a scenario of N points: every (Lipschitz constant, tolerance) pair up to 9
   points, two pairs beyond (the matrices grow with N*N) *)
ShortCombos(N) == IF N <= 9 THEN {<<i, t>> : i \in 1..Len(LSeq), t \in 1..Len(YTols)} ELSE {<<1, 1>>, <<Len(LSeq), Len(YTols)>>}
AllZero2(Mx) == \A i \in 1..Len(Mx) : \A j \in 1..Len(Mx[i]) : Mx[i][j] = 0
FailPairs(Mx) == LET r == Len(Mx) c == IF Len(Mx) = 0 THEN 0 ELSE Len(Mx[1])
                 IN {q \in (0..(r - 1)) \X (0..(c - 1)) : Mx[q[1] + 1][q[2] + 1] # 0}    \* blamelist (0-based pairs)
(* the data the scenario is compared with in short_wrt_data: its first and last point, the first value moved by 1 *)
DataX(p) == LET P == Positions(p) IN <<P[1], P[Len(P)]>>
DataY(p, v) == <<v[1] + 1, v[Len(v)]>>
(* graphical distance with xtol = 0: |y - F(x)|, zeroed up to ytol *)
ValidRaw(p, v, f, ytol) == Force(FValues(p, f), LAMBDA fv :
                              [k \in 1..Len(v) |-> IF Abs(v[k] - fv[k]) <= ytol THEN 0 ELSE Abs(v[k] - fv[k])])
AllZero1(s) == \A k \in 1..Len(s) : s[k] = 0
ModelVals(p, f) == FValues(p, f)

(* bounded_mean(m, x, xmin, xmax, w): the positions translated to the weighted mean m when the translation stays
   within [xmin, xmax] (otherwise they are squeezed: only the mean is stated).  Explored with xmin = min(x) - 1,
   xmax = max(x) + 1 and m = mean + k: the translation stays inside exactly when |k| <= 1 *)
BoundedMean(f, k) == [target |-> RatPlus(CenterMass(f), k), lo |-> MinOf(Range1(Pos(f))) - 1, hi |-> MaxOf(Range1(Pos(f))) + 1,
                      inside |-> (k >= -1 /\ k <= 1), moved |-> [j \in 1..Len(f) |-> f[j][2] + k],
                      \* premise: a measure with that mean fits into the bounds at all (the mean lies within them)
                      feasible |-> LET t == RatPlus(CenterMass(f), k)
                                   IN (MinOf(Range1(Pos(f))) - 1) * t[2] <= t[1] /\ t[1] <= (MaxOf(Range1(Pos(f))) + 1) * t[2]]

(* the constraints factories: every measure's LAST weight becomes 1 - (sum of its other weights) *)
NormLast(f) == [j \in 1..Len(f) |-> IF j = Len(f) THEN <<1 - SumTo(Wts(f), Len(f) - 1), f[j][2]>> ELSE f[j]]
NormWts(p) == [m \in Factors(p) |-> NormLast(p[m])]
(* mean_y_norm_wts: then, if the weighted mean of the values is below the target, the values are moved (all by
   the same amount) so that the mean is target + buffer; the values as rationals over a common denominator *)
MeanYVals(p, v, tgt) ==
  Force(Weights(NormWts(p)), LAMBDA W : Force(<<SumSeq(W), WSum(W, v)>>, LAMBDA TS :        \* T = 1 by construction
     LET T == TS[1] S == TS[2]
     IN IF S >= tgt[1] * T THEN [k \in 1..Len(v) |-> <<v[k], 1>>]
        ELSE [k \in 1..Len(v) |-> Rat(v[k] * T + (tgt[1] + tgt[2]) * T - S, T)]))

-----------------------------------------------------------------------------
(* PART 3: helpers of mystic.math.measures                                 *)
(* _nested(flat, npts) / _flat(nested) / split_param(params, npts) *)
Nested(flat, sh) == [m \in 1..Len(sh) |-> SubSeq(flat, SumTo(sh, m - 1) + 1, SumTo(sh, m))]
SplitParam(vec, sh) == <<FlatSeq(SplitW(vec, sh)), FlatSeq(SplitX(vec, sh))>>

(* normalize(weights, mass): w * mass / sum(w), zeros when mass or the sum is 0 (zsum = False);
   normalize(weights, 0.0, zsum=True, zmass=z): the last member counterbalances the others and the
   result is scaled by z / sum(|w|) *)
NormTo(w, mass) == LET T == SumSeq(w) IN [j \in 1..Len(w) |-> IF T = 0 THEN <<0, 1>> ELSE Rat(mass * w[j], T)]
NormZsum(w, z) == LET T == SumSeq(w) n == Len(w)
                  IN [j \in 1..n |-> IF j = n THEN Rat(-z * SumTo(w, n - 1), T) ELSE Rat(z * w[j], T)]
RatAdd(a, b) == Rat(a[1] * b[2] + b[1] * a[2], a[2] * b[2])
RECURSIVE RatSumTo(_, _)
RatSumTo(s, n) == IF n = 0 THEN <<0, 1>> ELSE RatAdd(RatSumTo(s, n - 1), s[n])
RatSum(s) == RatSumTo(s, Len(s))
RatMul(a, b) == Rat(a[1] * b[1], a[2] * b[2])
RatInt(k) == <<k, 1>>

(* reweighting: change ONLY the weights so that the mean / variance becomes the target; total weight kept *)
PosSet(f) == Range1(Pos(f))
Distinct(f) == Cardinality(PosSet(f)) = Len(f)
(* mean: a witness exists for every target strictly between the smallest and the largest position -- all the
   weight on those two positions *)
RWMeanTarget(f, fr) == LET lo == MinOf(PosSet(f)) hi == MaxOf(PosSet(f)) IN Rat(lo * fr[2] + (hi - lo) * fr[1], fr[2])
TwoPointWitness(f, t) ==
  LET lo == MinOf(PosSet(f)) hi == MaxOf(PosSet(f)) T == Mass(f)
      jlo == CHOOSE j \in 1..Len(f) : f[j][2] = lo   jhi == CHOOSE j \in 1..Len(f) : f[j][2] = hi
  IN [j \in 1..Len(f) |-> IF j = jlo THEN Rat(T * (hi * t[2] - t[1]), t[2] * (hi - lo))
                          ELSE IF j = jhi THEN Rat(T * (t[1] - lo * t[2]), t[2] * (hi - lo)) ELSE <<0, 1>>]
(* variance with the mean kept: for three distinct positions total, mean and variance determine the weights:
   w_i = T * E[l_i(X)], l_i the Lagrange polynomial of position i, E[X] = mu, E[X^2] = v + mu^2 *)
RWVarSolution(f, v) ==
  LET T == Mass(f)  mu == CenterMass(f)
      m2 == RatAdd(v, RatMul(mu, mu))
      Others(i) == {j \in 1..3 : j # i}
      xj(i) == f[MinOf(Others(i))][2]   xk(i) == f[MaxOf(Others(i))][2]   xi(i) == f[i][2]
      num(i) == RatAdd(RatAdd(m2, RatMul(RatInt(-(xj(i) + xk(i))), mu)), RatInt(xj(i) * xk(i)))
  IN [i \in 1..3 |-> RatMul(RatMul(RatInt(T), num(i)), Rat(1, (xi(i) - xj(i)) * (xi(i) - xk(i))))]
NonNeg(ws) == \A i \in 1..Len(ws) : ws[i][1] >= 0
(* moments of rational weights on integer positions *)
RMass(ws) == RatSum(ws)
RMom1(f, ws) == RatSum([j \in 1..Len(f) |-> RatMul(ws[j], RatInt(f[j][2]))])
RMom2(f, ws) == RatSum([j \in 1..Len(f) |-> RatMul(ws[j], RatInt(f[j][2] * f[j][2]))])
RMean(f, ws) == LET M == RMass(ws) S == RMom1(f, ws) IN Rat(S[1] * M[2], S[2] * M[1])
RVar(f, ws) == LET M == RMass(ws) mu == RMean(f, ws) S2 == RMom2(f, ws)
               IN RatAdd(Rat(S2[1] * M[2], S2[2] * M[1]), RatMul(RatInt(-1), RatMul(mu, mu)))

RWMeanCases == {[kind |-> "mean", f |-> f, target |-> RWMeanTarget(f, fr), sol |-> TwoPointWitness(f, RWMeanTarget(f, fr)),
                 unique |-> Len(f) = 2] :
                  f \in {g \in RWMeasures : Mass(g) > 0 /\ Cardinality(PosSet(g)) > 1 /\ Distinct(g)}, fr \in RWFracs}
RWVarCases == {c \in {[kind |-> "var", f |-> f, target |-> RatMul(VarOf(f), Rat(2 * fr[1], fr[2])),
                       sol |-> RWVarSolution(f, RatMul(VarOf(f), Rat(2 * fr[1], fr[2]))), unique |-> TRUE] :
                        f \in {g \in RWMeasures : Mass(g) > 0 /\ Len(g) = 3 /\ Distinct(g)}, fr \in RWFracs} : NonNeg(c.sol)}
RWCases == RWMeanCases \cup RWVarCases
(* design facts about the reweighting cases: the witnesses are measures with the original total weight, non-
   negative weights, the target mean (resp. the original mean and the target variance) *)
RWWitnessOK == \A c \in RWCases :
                 /\ NonNeg(c.sol) /\ RMass(c.sol) = RatInt(Mass(c.f))
                 /\ c.kind = "mean" => RMean(c.f, c.sol) = c.target
                 /\ c.kind = "var" => RMean(c.f, c.sol) = CenterMass(c.f) /\ RVar(c.f, c.sol) = c.target
RWCovered == \E c \in RWCases : c.kind = "mean" /\ ~c.unique
ASSUME RWWitnessOK
ASSUME RWCovered /\ (\E c \in RWCases : c.kind = "var") /\ (\E c \in RWCases : c.kind = "mean" /\ c.unique)

-----------------------------------------------------------------------------
(* the state machine *)
HasVals == Len(pm) > 0 /\ Len(vals) = Npts(pm)
ShiftVals(v, k) == [i \in 1..Len(v) |-> v[i] + k]

GBoundActs == IF Len(pm) = 0 \/ steps # 0 \/ bd.cls # "none" THEN {} ELSE BoundCat(Shape(pm))
GMeanActs == IF ~HasVals \/ steps # 0 \/ bd.cls # "none" \/ SumSeq(Weights(pm)) = 0 THEN {}
             ELSE {Act("setmean", k, 0, 0, RatPlus(ExpectOf(Weights(pm), vals), k), << >>) : k \in MeanShifts}
GValActs == IF ~HasVals \/ steps # 0 \/ bd.cls # "none" THEN {}
            ELSE {a \in {Act("setvals", i, 0, 0, ModelVals(pm, FuncSeq[i]), << >>) : i \in ValModels} : a.vec # vals}

GInit == Init /\ bd = NoBounds
GLoad == /\ Len(pm) = 0 /\ \E a \in LoadActs : Do(a)
         /\ bd' = bd
GBound == \E b \in GBoundActs : bd' = b /\ UNCHANGED <<pm, vals, steps>> /\ last' = Act("bound", 0, 0, 0, << >>, << >>)
GSetMean == \E a \in GMeanActs : /\ vals' = ShiftVals(vals, a.a) /\ steps' = 1 /\ last' = a
                                 /\ UNCHANGED <<pm, bd>>
GSetValues == \E a \in GValActs : /\ vals' = a.vec /\ steps' = 1 /\ last' = a
                                  /\ UNCHANGED <<pm, bd>>
GNext == GLoad \/ GBound \/ GSetMean \/ GSetValues
GSpec == GInit /\ [][GNext]_gvars

-----------------------------------------------------------------------------
(* INVARIANTS *)
(* the facts about the measure are checked in the states without a bounds object (a bounds state has the same measure) *)
StatState == bd.cls = "none"
(* ... and the facts that do not involve the values in the states whose values have not been edited *)
MeasState == bd.cls = "none" /\ steps = 0
ArgOK(a) == Len(a.v) >= 1 /\ (~a.s => Len(a.v) = 1)
BoundsTypeOK ==
  bd.cls # "none" =>
    /\ bd.cls \in {"B", "MB"}
    /\ \A a \in ArgsOf(bd) : ArgOK(a)
    /\ \A a, c \in SeqArgs(bd) : Len(a.v) = Len(c.v)              \* premise of the constructors
    /\ \A k \in 1..KOf(bd) : NOf(bd)[k] >= 1
    /\ "xlb" \in bd.om => bd.xlb = DefXL                          \* what is left out has the documented default
    /\ "xub" \in bd.om => bd.xub = DefXU
    /\ "n" \in bd.om => bd.n = DefN
    /\ "wlb" \in bd.om => bd.wlb = DefWL
    /\ "wub" \in bd.om => bd.wub = DefWU
    /\ bd.cls = "B" => {"wlb", "wub"} \subseteq bd.om
(* lengths: one pair per repeated entry, two per point of a measure *)
BoundsLen ==
  bd.cls # "none" =>
    /\ Len(Lower(bd)) = BLen(bd) /\ Len(Upper(bd)) = BLen(bd) /\ Len(Call(bd)) = BLen(bd)
    /\ Len(XLower(bd)) = SumSeq(NOf(bd)) /\ Len(XUpper(bd)) = SumSeq(NOf(bd))
    /\ bd.cls = "B" => Lower(bd) = XLower(bd) /\ Upper(bd) = XUpper(bd)
    /\ \A i \in 1..Len(AddCat) : Len(AddB(bd, AddCat[i])) = BLen(bd) + BLen(AddCat[i])
(* THE LAYOUT: a MeasureBounds built with n = pts addresses the parameter vector of Measures.tla slot by slot:
   slot i of flatten() is <<factor m, point j, weight|position>>, and lower[i] / upper[i] are the weight resp.
   position bound of factor m *)
ForShape == bd.cls # "none" /\ Len(pm) > 0 /\ NOf(bd) = Shape(pm)
BoundsLayout ==
  (ForShape /\ bd.cls = "MB") =>
    LET sh == Shape(pm)  slots == SlotSeq(sh)  K == Len(sh)
        wl == St(bd.wlb, K)  wu == St(bd.wub, K)  xl == St(bd.xlb, K)  xu == St(bd.xub, K)
    IN /\ Len(Lower(bd)) = ParLen(sh) /\ Len(Lower(bd)) = Len(Flatten(pm))
       /\ \A i \in 1..ParLen(sh) :
            /\ Lower(bd)[i] = IF slots[i][3] = 1 THEN wl[slots[i][1]] ELSE xl[slots[i][1]]
            /\ Upper(bd)[i] = IF slots[i][3] = 1 THEN wu[slots[i][1]] ELSE xu[slots[i][1]]
(* ... so splitting the bounds like a parameter vector (_nested_split / split_param) gives the weight bounds and
   the position bounds, and a Bounds object addresses the flattened positions *)
BoundsSplit ==
  ForShape =>
    LET sh == Shape(pm)
    IN /\ bd.cls = "MB" => /\ SplitParam(Lower(bd), sh) = <<WLower(bd), XLower(bd)>>
                           /\ SplitParam(Upper(bd), sh) = <<WUpper(bd), XUpper(bd)>>
                           /\ Nested(WLower(bd), sh) = SplitW(Lower(bd), sh)
       /\ Len(XLower(bd)) = SumSeq(sh) /\ Nested(XLower(bd), sh) = [m \in 1..Len(sh) |-> Rep(sh[m], St(bd.xlb, Len(sh))[m])]
(* ... and the vector of the measure satisfies the bounds iff every factor's weights and positions do *)
FactorInside(b, p) ==
  LET K == Len(p)  wl == St(b.wlb, K)  wu == St(b.wub, K)  xl == St(b.xlb, K)  xu == St(b.xub, K)
  IN \A m \in 1..K : \A j \in 1..Len(p[m]) :
        /\ xl[m] <= p[m][j][2] /\ p[m][j][2] <= xu[m]
        /\ b.cls = "MB" => (wl[m] <= p[m][j][1] /\ p[m][j][1] <= wu[m])
VecInside(b, p) == IF b.cls = "MB" THEN Within(Flatten(p), Lower(b), Upper(b))
                   ELSE Within(FlatSeq(PosN(p)), Lower(b), Upper(b))
BoundsAgree == ForShape => (VecInside(bd, pm) <=> FactorInside(bd, pm))

(* the nested <-> flat helpers *)
FlatNested == (MeasState /\ Len(pm) > 0) =>
                LET sh == Shape(pm)
                IN /\ Nested(FlatSeq(WtsN(pm)), sh) = WtsN(pm) /\ Nested(FlatSeq(PosN(pm)), sh) = PosN(pm)
                   /\ SplitParam(Flatten(pm), sh) = <<FlatSeq(WtsN(pm)), FlatSeq(PosN(pm))>>
                   /\ Flatten(pm) = FlatSeq([m \in 1..Len(sh) |-> Nested(SplitParam(Flatten(pm), sh)[1], sh)[m]
                                                                    \o Nested(SplitParam(Flatten(pm), sh)[2], sh)[m]])
(* statistics: the essential extremes lie within the plain ones and coincide when nothing is unsupported; the
   product's support is the product of the factors' supports, so the extreme of a coordinate function over the
   supported product points is the factor's essential extreme *)
EssWithin == MeasState => \A m \in Factors(pm) : \A i \in 1..Len(GFuncSeq) : \A t \in 1..Len(TolSeq) :
               LET f == pm[m] g == GFuncSeq[i] tol == TolSeq[t] lo == EssMin(f, g, tol) hi == EssMax(f, g, tol)
               IN /\ lo.def = hi.def /\ lo.def = (SuppJ(f, tol) # {})
                  /\ lo.def => /\ FMin(f, g) <= lo.v /\ lo.v <= hi.v /\ hi.v <= FMax(f, g)
                               /\ EssPtp(f, g, tol).v = hi.v - lo.v /\ EssPtp(f, g, tol).v <= FPtp(f, g)
                  /\ SuppJ(f, tol) = AllJ(f) => lo.v = FMin(f, g) /\ hi.v = FMax(f, g)
ProductSupport == (MeasState /\ Len(pm) > 0) =>
                    \A P \in {PackIdx([m \in Factors(pm) |-> [j \in 1..Len(pm[m]) |-> j]])} : \A S \in {PSupport(pm)} :
                       \A k \in 1..Len(P) : (k \in S) <=> (\A m \in Factors(pm) : P[k][m] \in SuppJ(pm[m], 0))
EssProduct == (MeasState /\ Len(pm) > 0 /\ PSupport(pm) # {}) =>
                 \A P \in {Positions(pm)} : \A S \in {PSupport(pm)} : \A m \in Factors(pm) : \A i \in 1..Len(GFuncSeq) :
                   LET g == GFuncSeq[i]
                   IN \A fv \in {[k \in 1..Len(P) |-> EvalG(g, P[k][m])]} :
                      /\ MinOver(fv, S) = EssMin(pm[m], g, 0).v
                      /\ MaxOver(fv, S) = EssMax(pm[m], g, 0).v
(* select(all indices) is _pack for measures of 2 points each (the documented premise), and there
   differs_by_one(i) are the points that differ from point i in exactly one coordinate *)
SelectIsPack == (MeasState /\ Len(pm) > 0 /\ AllTwo(pm)) =>
                  /\ [k \in 1..Npts(pm) |-> SelectPt(pm, k - 1)] = Positions(pm)
                  /\ \A I \in {PackIdx([m \in Factors(pm) |-> <<0, 1>>])} :
                        \A k \in 1..Npts(pm) :
                          DiffersByOne(Npts(pm), k - 1, TRUE) =
                            {j - 1 : j \in {q \in 1..Npts(pm) : Cardinality({m \in Factors(pm) : I[q][m] # I[k][m]}) = 1}}
DiffersSymmetric == (MeasState /\ Len(pm) > 0) =>
                      LET N == Npts(pm)
                      IN \A D \in {[i \in 0..(N - 1) |-> DiffersByOne(N, i, TRUE)]} :
                           /\ \A i, j \in 0..(N - 1) : (j \in D[i]) <=> (i \in D[j])
                           /\ \A i \in 0..(N - 1) : DiffersByOne(N, i, FALSE) = {q \in D[i] : q < i}
(* sampling only ever returns supported points, so the sampled extremes lie within the essential ones *)
SampledSupported ==
  (MeasState /\ Len(pm) > 0 /\ Samplable(pm)) =>
     /\ \A i \in 1..NDraw : \A m \in Factors(pm) : DrawIdx(pm, i)[m] \in SuppJ(pm[m], 0)
     /\ \A q \in 1..Len(FuncSeq) :
          \A s \in {SampledStats(pm, FuncSeq[q], NDraw)} : \A e \in {EssOverPoints(pm, FuncSeq[q])} :
             e.def /\ e.lo <= s.min /\ s.max <= e.hi /\ s.ptp <= e.hi - e.lo
(* a scenario is short with respect to itself exactly when no pair of points violates the cone condition; the
   diagonal never does; a larger Lipschitz constant never makes it less short; it is valid w.r.t. the model it was
   generated from *)
ShortFacts ==
  (StatState /\ HasVals) =>
    \A P \in {Positions(pm)} :
    \A R \in {[c \in ShortCombos(Len(P)) |-> ShortRaw(LVec(LSeq[c[1]], Len(pm)), P, vals, P, vals, YTols[c[2]])]} :
       /\ \A c \in DOMAIN R :
            /\ \A k \in 1..Len(P) : R[c][k][k] = 0
            /\ \A k \in 1..Len(P) : \A q \in (k + 1)..Len(P) : R[c][k][q] = R[c][q][k]
       /\ \A c, d \in DOMAIN R :
            (c[2] = d[2] /\ \A m \in Factors(pm) : LVec(LSeq[c[1]], Len(pm))[m] <= LVec(LSeq[d[1]], Len(pm))[m])
               => (AllZero2(R[c]) => AllZero2(R[d]))
ValidFacts ==
  (StatState /\ HasVals) => \A i \in 1..Len(FuncSeq) : (vals = ModelVals(pm, FuncSeq[i])) => AllZero1(ValidRaw(pm, vals, FuncSeq[i], 0))
(* normalised weights: every factor then has mass 1, positions and values are untouched *)
NormWtsFacts == (StatState /\ Len(pm) > 0) =>
                  LET q == NormWts(pm)
                  IN /\ \A m \in Factors(pm) : Mass(q[m]) = 1 /\ Pos(q[m]) = Pos(pm[m])
                                               /\ \A j \in 1..(Len(q[m]) - 1) : q[m][j] = pm[m][j]
                     /\ SumSeq(Weights(q)) = 1
                     /\ HasVals => \A y \in {MeanYVals(pm, vals, YTarget)} : \A W \in {Weights(q)} :
                                     IF WSum(W, vals) >= YTarget[1] THEN y = [k \in 1..Len(vals) |-> <<vals[k], 1>>]
                                     ELSE RatSum([k \in 1..Len(W) |-> RatMul(RatInt(W[k]), y[k])]) = RatInt(YTarget[1] + YTarget[2])
(* a translation by k moves the weighted mean by k and stays within [min - 1, max + 1] iff |k| <= 1 *)
BoundedMeanFacts == MeasState => \A m \in Factors(pm) : Mass(pm[m]) # 0 => \A i \in 1..Len(BMShifts) :
                      LET f == pm[m] b == BoundedMean(f, BMShifts[i]) g == [j \in 1..Len(f) |-> <<f[j][1], b.moved[j]>>]
                      IN /\ CenterMass(g) = b.target
                         /\ b.inside <=> (\A j \in 1..Len(f) : b.lo <= b.moved[j] /\ b.moved[j] <= b.hi)
                         /\ b.inside => b.feasible
(* normalize: the result sums to the mass; the zsum form sums to 0 and keeps the other members' proportions *)
NormalizeFacts == MeasState => \A m \in Factors(pm) :
                    LET w == Wts(pm[m]) T == SumSeq(w)
                    IN T # 0 => /\ RatSum(NormTo(w, 1)) = <<1, 1>> /\ RatSum(NormTo(w, 2)) = <<2, 1>>
                                /\ RatSum(NormZsum(w, 1)) = <<0, 1>> /\ RatSum(NormZsum(w, 2)) = <<0, 1>>
(* set_mean_value moves the mean of the values to the target and leaves the measure alone *)
SetMeanPost ==
  [][last'.op = "setmean" => /\ ExpectOf(Weights(pm'), vals') = last'.vec
                             /\ pm' = pm /\ Len(vals') = Len(vals)
                             /\ \A i, j \in 1..Len(vals) : vals'[i] - vals'[j] = vals[i] - vals[j]]_gvars

-----------------------------------------------------------------------------
(* EMISSION *)
Mask(S, n) == [j \in 1..n |-> IF j \in S THEN 1 ELSE 0]
FacObs(f) ==
  [g |-> [i \in 1..Len(GFuncSeq) |->
            LET g == GFuncSeq[i]
            IN [min |-> FMin(f, g), max |-> FMax(f, g), ptp |-> FPtp(f, g),
                ess |-> [t \in 1..Len(TolSeq) |-> [def |-> SuppJ(f, TolSeq[t]) # {}, min |-> EssMin(f, g, TolSeq[t]).v,
                                                     max |-> EssMax(f, g, TolSeq[t]).v, ptp |-> EssPtp(f, g, TolSeq[t]).v]],
                e |-> FExpect(f, g), v |-> FExpectVar(f, g)]],
   supp |-> [t \in 1..Len(TolSeq) |-> Mask(SuppJ(f, TolSeq[t]), Len(f))],
   norm1 |-> NormTo(Wts(f), 1), norm2 |-> NormTo(Wts(f), 2), norm0 |-> NormTo(Wts(f), 0),
   zsum1 |-> IF Mass(f) = 0 THEN << >> ELSE NormZsum(Wts(f), 1), zsum2 |-> IF Mass(f) = 0 THEN << >> ELSE NormZsum(Wts(f), 2),
   uni |-> [j \in 1..Len(f) |-> <<1, Len(f)>>],
   bmean |-> IF Mass(f) = 0 THEN << >> ELSE [i \in 1..Len(BMShifts) |-> BoundedMean(f, BMShifts[i])],
   sel |-> IF Mass(f) = 0 THEN << >> ELSE [c \in 1..Len(USeq) |-> SelIdx(f, USeq[c]) - 1]]

(* what depends on the measure only: emitted for the loaded states (steps = 0) *)
MeasObsOf(P, W) ==
  LET N == Len(P)  F == Len(pm)
  IN [flatw |-> FlatSeq(WtsN(pm)), flatx |-> FlatSeq(PosN(pm)),
      fac |-> [m \in 1..F |-> FacObs(pm[m])],
      pg |-> [i \in 1..Len(GFuncSeq) |->
                LET g == GFuncSeq[i]
                IN [min |-> ProdMin(pm, g), max |-> ProdMax(pm, g), ptp |-> ProdPtp(pm, g),
                    ess |-> [t \in 1..Len(TolSeq) |-> [def |-> AllSupported(pm, TolSeq[t]), min |-> PEssMin(pm, g, TolSeq[t]).v,
                                                         max |-> PEssMax(pm, g, TolSeq[t]).v, ptp |-> PEssPtp(pm, g, TolSeq[t]).v]]]],
      essp |-> [q \in 1..Len(FuncSeq) |-> EssOverPoints(pm, FuncSeq[q])],
      alltwo |-> AllTwo(pm),
      select |-> IF AllTwo(pm) THEN [k \in 1..N |-> SelectPt(pm, k - 1)] ELSE << >>,
      differs |-> [k \in 1..N |-> Force(DiffersByOne(N, k - 1, TRUE), LAMBDA D : [all |-> D, lower |-> {q \in D : q < k - 1}])],
      samplable |-> Samplable(pm),
      draws |-> IF Samplable(pm) THEN [m \in 1..F |-> [i \in 1..NDraw |-> DrawPt(pm, i)[m]]] ELSE << >>,
      sampled |-> IF Samplable(pm) THEN [q \in 1..Len(FuncSeq) |-> SampledStats(pm, FuncSeq[q], NDraw)] ELSE << >>]
(* what involves the values: emitted for every state without a bounds object *)
StatObsOf(P, W) ==
  LET N == Len(P)  F == Len(pm)
  IN [kind |-> "stat", shape |-> Shape(pm), ws |-> WtsN(pm), xs |-> PosN(pm), vals |-> vals, flat |-> Flatten(pm),
      hasvals |-> HasVals, steps |-> steps, pos |-> P, wts |-> W,
      meas |-> IF steps = 0 THEN <<MeasObsOf(P, W)>> ELSE << >>,
      normwts |-> FlattenAll(NormWts(pm), vals),
      meany |-> IF HasVals THEN MeanYVals(pm, vals, YTarget) ELSE << >>,
      short |-> IF ~HasVals THEN {}
                ELSE {LET L == LVec(LSeq[c[1]], F)  tol == YTols[c[2]]
                      IN Force(<<ShortRaw(L, P, vals, P, vals, tol),
                                 ShortRaw(L, P, vals, <<P[1], P[N]>>, DataY(pm, vals), tol)>>,
                               LAMBDA R : [L |-> L, tol |-> tol, raw |-> R[1], ok |-> AllZero2(R[1]), pairs |-> FailPairs(R[1]),
                                           draw |-> R[2], dok |-> AllZero2(R[2])]) : c \in ShortCombos(N)},
      datax |-> IF HasVals THEN DataX(pm) ELSE << >>, datay |-> IF HasVals THEN DataY(pm, vals) ELSE << >>,
      valid |-> IF ~HasVals THEN << >>
                ELSE [q \in 1..Len(FuncSeq) |-> [t \in 1..Len(YTols) |->
                        Force(ValidRaw(pm, vals, FuncSeq[q], YTols[t]), LAMBDA R : [ytol |-> YTols[t], raw |-> R, ok |-> AllZero1(R)])]],
      succ |-> {[act |-> a, vals |-> ShiftVals(vals, a.a)] : a \in GMeanActs}]
StatObs == Force(<<Positions(pm), Weights(pm)>>, LAMBDA PW : StatObsOf(PW[1], PW[2]))

BoundObs ==
  [kind |-> "bounds", shape |-> Shape(pm), ws |-> WtsN(pm), xs |-> PosN(pm), b |-> bd,
   n |-> NOf(bd), len |-> BLen(bd), lower |-> Lower(bd), upper |-> Upper(bd), call |-> Call(bd),
   xlower |-> XLower(bd), xupper |-> XUpper(bd),
   wlower |-> IF bd.cls = "MB" THEN WLower(bd) ELSE << >>, wupper |-> IF bd.cls = "MB" THEN WUpper(bd) ELSE << >>,
   add |-> [i \in 1..Len(AddCat) |-> AddB(bd, AddCat[i])], radd |-> [i \in 1..Len(AddCat) |-> AddB(AddCat[i], bd)],
   forshape |-> ForShape, inside |-> IF ForShape THEN VecInside(bd, pm) ELSE FALSE]

ASSUME PrintT(<<"@@", ToJson([gfuncs |-> GFuncSeq, funcs |-> FuncSeq, tols |-> TolSeq, useq |-> USeq, ndraw |-> NDraw,
                              addcat |-> AddCat, ytarget |-> YTarget, inf |-> INF,
                              rw |-> RWCases])>>)
GEmit == PrintT(<<"@@", ToJson(IF Len(pm) = 0 THEN [kind |-> "empty"]
                                 ELSE IF bd.cls = "none" THEN StatObs ELSE BoundObs)>>)
=============================================================================
