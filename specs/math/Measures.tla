------------------------------ MODULE Measures ------------------------------
(***************************************************************************)
(* Discrete product measures and scenarios of mystic.math.discrete, with   *)
(* the parameter-vector format of flatten/load/update/unflatten, the       *)
(* _pack/_unpack point order, and the statistics delegated to              *)
(* mystic.math.measures, as explicit sums over the weighted product points.*)
(*                                                                         *)
(* WHAT IS MODELLED                                                        *)
(*   pm    a product measure: a sequence of factor measures, each a        *)
(*         sequence of point masses <<weight, position>> (integers).       *)
(*         <<>> is the freshly constructed, empty product_measure().       *)
(*   vals  the values attached by a scenario (a sequence of integers; one  *)
(*         per product point when it was loaded from a full vector).       *)
(*   steps ghost: number of edit actions since the measure was loaded      *)
(*         (bounds the exploration; hidden by the VIEW).                   *)
(*   last  ghost: the action that produced the state (so that footprints   *)
(*         and post-conditions are action properties; hidden by the VIEW). *)
(*                                                                         *)
(* THE DOCUMENTED ORDERS (docstrings of _pack, flatten, load, update)      *)
(*   _pack([[1,2,3],[4,5],[6,7]]) = [(1,4,6),(2,4,6),(3,4,6),(1,5,6),...   *)
(*       ,(3,5,6),(1,4,7),...]: the FIRST factor varies fastest, the last  *)
(*       factor slowest.  Point k (from 0) has coordinate m equal to       *)
(*       x_m[(k div (n_1*...*n_(m-1))) mod n_m].                           *)
(*   flatten: for pts = (M,N,...) the vector is                            *)
(*       [wx1..wxM, x1..xM, wy1..wyN, y1..yN, ...] (per factor: weights    *)
(*       then positions); a scenario appends its values.                   *)
(*   load(params, pts) appends the measures read in that format; update    *)
(*       (params) overwrites the existing ones (dimensions unchanged);     *)
(*       values beyond 2*sum(pts) are ignored by a product measure and     *)
(*       overwrite the leading values of a scenario.                       *)
(*                                                                         *)
(* OBJECT IDENTITY                                                         *)
(*   pm is the DENOTATION of a product: the sequence of the CONTENTS of its *)
(*   slots.  The implementation holds measure objects and the same object  *)
(*   may sit in several slots (product_measure([m, m])); nothing stated    *)
(*   here depends on that: every observable (Obs) is a function of pm, and *)
(*   update / load replace resp. append slots by NEWLY BUILT measures --   *)
(*   they never write into a measure that existed before (one a caller may *)
(*   still hold), so UpdatePM / LoadPM give the successor whatever the     *)
(*   sharing was.  Assignments through a factor (weight, positions,        *)
(*   center_mass, ...) edit that OBJECT.  MeasureAlias.tla adds the heap   *)
(*   (heap, refs) and checks this refinement: Denotes, UpdateFresh,        *)
(*   ObjectEdit, UnsharedIsMeasures.  Den below is the denotation map.     *)
(*                                                                         *)
(* One action per public call: Load, Append (= load on a non-empty         *)
(* object), Update, SetWeight, SetPosition, SetCenterMass, SetRange,       *)
(* SetVar.  Rationals are <<num, den>> in lowest terms, den > 0; UNDEF =   *)
(* <<0,0>> marks "undefined" (zero total weight).                          *)
(***************************************************************************)
EXTENDS Integers, Sequences, FiniteSets, TLC, Json

CONSTANTS Shapes,    \* set of shapes (tuples of points-per-factor) that Load may create
          WFam,      \* WFam[n] = set of weight vectors a loaded factor of n points may carry
          WAlt,      \* weights an edit may write
          XAlt,      \* positions an edit may write
          PMin, PMax,\* positions stay within PMin..PMax (keeps 32-bit arithmetic exact)
          MaxSteps,  \* number of edit actions explored after a load
          MaxFactors,\* Append stops at this many factors
          Shifts,    \* SetCenterMass targets: current centre of mass + k, k \in Shifts
          Scales,    \* SetRange targets k*range, SetVar targets k*k*var, k \in Scales (k >= 0)
          TolSeq,    \* tolerances for support()/support_index() (sequence of integers)
          FuncSeq,   \* catalogue of integer test functions on positions (sequence of records)
          VFuncSeq   \* catalogue of integer test functions on values  (sequence of records)

VARIABLES pm, vals, steps, last
vars == <<pm, vals, steps, last>>
View == <<pm, vals>>

UNDEF == <<0, 0>>

-----------------------------------------------------------------------------
(* integer / sequence helpers *)
RECURSIVE SumTo(_, _), ProdTo(_, _), FlatTo(_, _), GCD(_, _)
SumTo(s, n)  == IF n = 0 THEN 0 ELSE s[n] + SumTo(s, n - 1)
ProdTo(s, n) == IF n = 0 THEN 1 ELSE s[n] * ProdTo(s, n - 1)
FlatTo(ss, n) == IF n = 0 THEN << >> ELSE FlatTo(ss, n - 1) \o ss[n]
SumSeq(s)  == SumTo(s, Len(s))
ProdSeq(s) == ProdTo(s, Len(s))
FlatSeq(ss) == FlatTo(ss, Len(ss))          \* concatenation of a sequence of sequences
Abs(n) == IF n < 0 THEN -n ELSE n
GCD(a, b) == IF b = 0 THEN a ELSE GCD(b, a % b)
MaxOf(S) == CHOOSE x \in S : \A y \in S : y <= x
MinOf(S) == CHOOSE x \in S : \A y \in S : x <= y
Range1(s) == {s[i] : i \in 1..Len(s)}

(* the denotation of a product held as object references: slot m shows the content of object refs[m] *)
Den(objects, slots) == [m \in 1..Len(slots) |-> objects[slots[m]]]

(* n/d in lowest terms with positive denominator; UNDEF when d = 0 *)
Rat(n, d) == IF d = 0 THEN UNDEF
             ELSE LET g == GCD(Abs(n), Abs(d))
                      s == IF d < 0 THEN -1 ELSE 1
                  IN <<(s * n) \div g, (s * d) \div g>>

-----------------------------------------------------------------------------
(* a factor measure *)
Wts(f) == [j \in 1..Len(f) |-> f[j][1]]
Pos(f) == [j \in 1..Len(f) |-> f[j][2]]
Mass(f) == SumSeq(Wts(f))                                            \* measure.mass
Moment1(f) == SumSeq([j \in 1..Len(f) |-> f[j][1] * f[j][2]])        \* sum w x
Moment2(f) == SumSeq([j \in 1..Len(f) |-> f[j][1] * f[j][2] * f[j][2]])
CenterMass(f) == Rat(Moment1(f), Mass(f))                            \* measure.center_mass
SpreadOf(f) == MaxOf(Range1(Pos(f))) - MinOf(Range1(Pos(f)))         \* measure.range (weights play no role)
VarOf(f) == LET M == Mass(f) IN Rat(M * Moment2(f) - Moment1(f) * Moment1(f), M * M)   \* measure.var

(* the product measure *)
Shape(p) == [m \in 1..Len(p) |-> Len(p[m])]                          \* .pts
WtsN(p) == [m \in 1..Len(p) |-> Wts(p[m])]                           \* .wts
PosN(p) == [m \in 1..Len(p) |-> Pos(p[m])]                           \* .pos
Masses(p) == [m \in 1..Len(p) |-> Mass(p[m])]                        \* .mass (a list, one per factor)

(* _pack, as the implementation recurses: for each point of the LAST factor, in order, the whole
   pack of the preceding factors with that point appended -- so the first factor varies fastest *)
RECURSIVE Pack(_)
Pack(ss) == IF Len(ss) = 0 THEN << << >> >>
            ELSE LET inner == Pack(SubSeq(ss, 1, Len(ss) - 1))
                     outer == ss[Len(ss)]
                 IN FlatSeq([j \in 1..Len(outer) |-> [i \in 1..Len(inner) |-> Append(inner[i], outer[j])]])

(* the same order in closed form (the documented example) *)
Stride(sh, m) == ProdTo(sh, m - 1)
PackIdx(ss) == LET sh == [m \in 1..Len(ss) |-> Len(ss[m])]
               IN [k \in 1..ProdSeq(sh) |->
                     [m \in 1..Len(ss) |-> ss[m][(((k - 1) \div Stride(sh, m)) % sh[m]) + 1]]]

(* _unpack(points, npts): coordinate m read at every Stride-th point *)
Unpack(P, sh) == [m \in 1..Len(sh) |-> [j \in 1..sh[m] |-> P[(j - 1) * Stride(sh, m) + 1][m]]]

Positions(p) == Pack(PosN(p))                                        \* .positions
Weights(p) == LET W == Pack(WtsN(p)) IN [k \in 1..Len(W) |-> ProdSeq(W[k])]   \* .weights
Npts(p) == ProdSeq(Shape(p))                                         \* .npts

-----------------------------------------------------------------------------
(* the parameter-vector format *)
Flatten(p) == FlatSeq([m \in 1..Len(p) |-> Wts(p[m]) \o Pos(p[m])])  \* product_measure.flatten()
FlattenAll(p, v) == Flatten(p) \o v                                  \* scenario.flatten(all=True)

(* the same layout slot by slot: <<factor, point, 1=weight|2=position>> *)
SlotSeq(sh) == FlatSeq([m \in 1..Len(sh) |-> [j \in 1..sh[m] |-> <<m, j, 1>>] \o [j \in 1..sh[m] |-> <<m, j, 2>>]])
SlotIndex(sh, m, j, kind) == 2 * SumTo(sh, m - 1) + (kind - 1) * sh[m] + j
ParLen(sh) == 2 * SumSeq(sh)

(* _nested_split(params, npts) *)
Offset(sh, m) == 2 * SumTo(sh, m - 1)
SplitW(vec, sh) == [m \in 1..Len(sh) |-> SubSeq(vec, Offset(sh, m) + 1, Offset(sh, m) + sh[m])]
SplitX(vec, sh) == [m \in 1..Len(sh) |-> SubSeq(vec, Offset(sh, m) + sh[m] + 1, Offset(sh, m) + 2 * sh[m])]

Compose(x, w) == [m \in 1..Len(x) |-> [j \in 1..Len(x[m]) |-> <<w[m][j], x[m][j]>>]]   \* compose(samples, weights)
Decompose(p) == <<PosN(p), WtsN(p)>>                                                  \* decompose(c) = (x, w)
Unflatten(vec, sh) == Compose(SplitX(vec, sh), SplitW(vec, sh))                       \* unflatten(params, npts)

(* product_measure.load / scenario.load: APPEND the measures; extra entries are the scenario values *)
LoadPM(p, vec, sh) == p \o Unflatten(SubSeq(vec, 1, ParLen(sh)), sh)
LoadVals(v, vec, sh) == IF Len(vec) > ParLen(sh) THEN SubSeq(vec, ParLen(sh) + 1, Len(vec)) ELSE v

(* update(params), premise Len(params) >= 2*sum(pts): overwrite; the k extra entries overwrite the
   first k values of a scenario (never more than it has) and are ignored by a product measure *)
UpdatePM(p, vec) == Unflatten(SubSeq(vec, 1, ParLen(Shape(p))), Shape(p))
UpdateVals(p, v, vec) == LET E == ParLen(Shape(p))
                             given == SubSeq(vec, E + 1, Len(vec))
                         IN [i \in 1..Len(v) |-> IF i <= Len(given) THEN given[i] ELSE v[i]]

-----------------------------------------------------------------------------
(* test functions on a product point x (a tuple of coordinates) and on a value y *)
EvalF(f, x) == CASE f.k = "first" -> x[1] - f.c
                 [] f.k = "last"  -> x[Len(x)] - f.c
                 [] f.k = "sum"   -> SumSeq(x) - f.c
                 [] f.k = "lin"   -> SumSeq([i \in 1..Len(x) |-> i * x[i]]) - f.c
                 [] f.k = "prod"  -> x[1] * x[Len(x)] - f.c
                 [] f.k = "const" -> f.c
EvalV(g, y) == y - g.c

(* explicit sums over the weighted points W[k] @ fv[k] *)
WSum(W, fv)  == SumSeq([k \in 1..Len(W) |-> W[k] * fv[k]])
WSum2(W, fv) == SumSeq([k \in 1..Len(W) |-> W[k] * fv[k] * fv[k]])
ExpectOf(W, fv) == Rat(WSum(W, fv), SumSeq(W))                                   \* expect: sum w f / sum w
ExpectVarOf(W, fv) == LET T == SumSeq(W) S == WSum(W, fv)                        \* expect_var: sum w (f-E)^2 / sum w
                      IN Rat(T * WSum2(W, fv) - S * S, T * T)
PofOf(W, fv) == SumSeq([k \in 1..Len(W) |-> IF fv[k] <= 0 THEN W[k] ELSE 0])     \* pof: weight where f(x) <= 0
SuccessOf(W, fv) == SumSeq([k \in 1..Len(W) |-> IF fv[k] > 0 THEN W[k] ELSE 0])
SupportIdx(W, tol) == {k \in 1..Len(W) : W[k] > tol}                             \* support_index (1-based here)

FValues(p, f)   == LET P == Positions(p) IN [k \in 1..Len(P) |-> EvalF(f, P[k])]
Expect(p, f)    == ExpectOf(Weights(p), FValues(p, f))
ExpectVar(p, f) == ExpectVarOf(Weights(p), FValues(p, f))
Pof(p, f)       == PofOf(Weights(p), FValues(p, f))

-----------------------------------------------------------------------------
(* what Load creates: factor m with n points carries positions PBase(m, n) and a weight vector of the
   family WFam[n]; values VBase, one per product point *)
PBase(m, n) == [j \in 1..n |-> 3 * (m - 1) + (j - 1)]
VBase(n) == [i \in 1..n |-> (2 * i) % 5]
FactorVec(m, wv) == wv \o PBase(m, Len(wv))
WChoices(sh) == {ws \in [1..Len(sh) -> UNION {WFam[n] : n \in DOMAIN WFam}] : \A m \in 1..Len(sh) : ws[m] \in WFam[sh[m]]}
LoadVec(sh, ws, first) == FlatSeq([m \in 1..Len(sh) |-> FactorVec(first + m - 1, ws[m])])

-----------------------------------------------------------------------------
(* actions: uniform records; vec = the vector argument (or the rational target), sh = the pts argument *)
Act(op, a, b, c, vec, sh) == [op |-> op, a |-> a, b |-> b, c |-> c, vec |-> vec, sh |-> sh]

InBox(p) == \A m \in 1..Len(p) : \A j \in 1..Len(p[m]) : p[m][j][2] >= PMin /\ p[m][j][2] <= PMax
Shift(f, k) == [j \in 1..Len(f) |-> <<f[j][1], f[j][2] + k>>]
ScaleAboutMin(f, k) == LET lo == MinOf(Range1(Pos(f))) IN [j \in 1..Len(f) |-> <<f[j][1], lo + k * (f[j][2] - lo)>>]
RatPlus(r, k) == Rat(r[1] + k * r[2], r[2])
RatTimes(r, k) == Rat(k * r[1], r[2])

(* the successor the specification gives for an action (for the three setters: a WITNESS of the
   post-condition -- a translation, resp. a dilation about the smallest position) *)
Apply(a) ==
  CASE a.op \in {"load", "append"} ->
         [pm |-> LoadPM(pm, a.vec, a.sh), vals |-> LoadVals(vals, a.vec, a.sh)]
    [] a.op = "upd"  -> [pm |-> UpdatePM(pm, a.vec), vals |-> UpdateVals(pm, vals, a.vec)]
    [] a.op = "setw" -> [pm |-> [pm EXCEPT ![a.a][a.b] = <<a.c, @[2]>>], vals |-> vals]
    [] a.op = "setx" -> [pm |-> [pm EXCEPT ![a.a][a.b] = <<@[1], a.c>>], vals |-> vals]
    [] a.op = "cm"   -> [pm |-> [pm EXCEPT ![a.a] = Shift(@, a.b)], vals |-> vals]
    [] a.op \in {"rng", "var"} -> [pm |-> [pm EXCEPT ![a.a] = ScaleAboutMin(@, a.b)], vals |-> vals]

(* update vectors: the current vector with exactly one weight/position entry overwritten, followed by
   all the values (freshened) when the entry index is even and by none when it is odd (keeps the graph
   small while exercising both forms); plus value-only updates of the first k values *)
FreshVals(k) == [i \in 1..k |-> vals[i] + 1]
UpdActs ==
  LET sh == Shape(pm)  flat == Flatten(pm)  slots == SlotSeq(sh)  V == Len(vals)
  IN {Act("upd", i, v, IF i % 2 = 0 THEN V ELSE 0,
          [flat EXCEPT ![i] = v] \o FreshVals(IF i % 2 = 0 THEN V ELSE 0), << >>) :
        i \in 1..Len(flat), v \in (WAlt \cup XAlt)} \cup
     {Act("upd", 0, 0, k, flat \o FreshVals(k), << >>) : k \in {1, V \div 2, V} \cap 1..V}
UpdOK(a) == a.a = 0 \/ (LET slot == SlotSeq(Shape(pm))[a.a] flat == Flatten(pm)
                        IN /\ a.b # flat[a.a]
                           /\ a.b \in (IF slot[3] = 1 THEN WAlt ELSE XAlt))

EditActs ==
  UpdActs
  \cup {Act("setw", m, j, w, << >>, << >>) : m \in 1..Len(pm), j \in DOMAIN WFam, w \in WAlt}
  \cup {Act("setx", m, j, x, << >>, << >>) : m \in 1..Len(pm), j \in DOMAIN WFam, x \in XAlt}
  \cup {Act("cm", m, k, 0, RatPlus(CenterMass(pm[m]), k), << >>) : m \in 1..Len(pm), k \in Shifts}
  \cup {Act("rng", m, k, 0, <<k * SpreadOf(pm[m]), 1>>, << >>) : m \in 1..Len(pm), k \in Scales}
  \cup {Act("var", m, k, 0, RatTimes(VarOf(pm[m]), k * k), << >>) : m \in 1..Len(pm), k \in Scales}

(* premises of the calls *)
Guard(a) ==
  CASE a.op = "upd"  -> UpdOK(a)
    [] a.op = "setw" -> a.b <= Len(pm[a.a]) /\ pm[a.a][a.b][1] # a.c
    [] a.op = "setx" -> a.b <= Len(pm[a.a]) /\ pm[a.a][a.b][2] # a.c
    [] a.op \in {"cm", "rng", "var"} -> Mass(pm[a.a]) # 0   \* a centre of mass exists (the setters keep / move it)
       \* targets are always achievable: k*range and k*k*var are 0 when the range / variance is 0
       \* (a single point, tied positions, all weight on one position); the witness is then "no change"
    [] OTHER -> TRUE

LoadActs == UNION {{Act("load", 0, 0, 0, LoadVec(sh, ws, 1) \o VBase(ProdSeq(sh)), sh) : ws \in WChoices(sh)} : sh \in Shapes}
(* load() on a loaded, unedited object appends one more factor (and replaces the values); the result
   is a measure that Load creates directly, so it is explored from there and not edited further here *)
AppendActs ==
  IF Len(pm) = 0 \/ steps # 0 \/ Len(pm) >= MaxFactors THEN {}
  ELSE {Act("append", 0, 0, 0, FactorVec(Len(pm) + 1, wv) \o VBase(Npts(pm) * Len(wv)), <<Len(wv)>>) :
          wv \in UNION {WFam[n] : n \in DOMAIN WFam}}

Enabled ==
  IF Len(pm) = 0 THEN LoadActs
  ELSE AppendActs \cup
       (IF steps < MaxSteps THEN {a \in EditActs : Guard(a) /\ InBox(Apply(a).pm)} ELSE {})

Init == pm = << >> /\ vals = << >> /\ steps = 0 /\ last = Act("init", 0, 0, 0, << >>, << >>)

Do(a) == /\ pm' = Apply(a).pm
         /\ vals' = Apply(a).vals
         /\ steps' = IF a.op = "load" THEN 0 ELSE IF a.op = "append" THEN MaxSteps ELSE steps + 1
         /\ last' = a
Next == \E a \in Enabled : Do(a)
Spec == Init /\ [][Next]_vars

-----------------------------------------------------------------------------
(* INVARIANTS: hold in every reachable state *)
TypeOK == /\ \A m \in 1..Len(pm) : Len(pm[m]) >= 1 /\ \A j \in 1..Len(pm[m]) : pm[m][j][1] >= 0
          /\ InBox(pm)

(* flatten -> load / unflatten with the same shape is the identity (measure and scenario) *)
RoundTrip == /\ Unflatten(Flatten(pm), Shape(pm)) = pm
             /\ LoadPM(<< >>, FlattenAll(pm, vals), Shape(pm)) = pm
             /\ LoadVals(<< >>, FlattenAll(pm, vals), Shape(pm)) = vals
             /\ UpdatePM(pm, FlattenAll(pm, vals)) = pm /\ UpdateVals(pm, vals, FlattenAll(pm, vals)) = vals
(* compose/decompose are mutual inverses *)
ComposeDecompose == /\ Compose(Decompose(pm)[1], Decompose(pm)[2]) = pm
                    /\ Decompose(Compose(PosN(pm), WtsN(pm))) = <<PosN(pm), WtsN(pm)>>
(* _pack/_unpack are mutual inverses, and the recursive order is the documented closed form *)
PackUnpack == LET P == Positions(pm) IN
              /\ Unpack(P, Shape(pm)) = PosN(pm)
              /\ Pack(Unpack(P, Shape(pm))) = P
PackOrder == Pack(PosN(pm)) = PackIdx(PosN(pm)) /\ Pack(WtsN(pm)) = PackIdx(WtsN(pm))
(* the vector layout, slot by slot *)
FlattenLayout == LET sh == Shape(pm) slots == SlotSeq(sh) flat == Flatten(pm)
                 IN /\ Len(flat) = ParLen(sh) /\ Len(slots) = ParLen(sh)
                    /\ \A i \in 1..Len(flat) : /\ flat[i] = pm[slots[i][1]][slots[i][2]][slots[i][3]]
                                                /\ SlotIndex(sh, slots[i][1], slots[i][2], slots[i][3]) = i
(* total weight = product of the factor masses; one weight and one position per product point *)
MassProduct == LET W == Weights(pm) IN
               /\ SumSeq(W) = ProdSeq(Masses(pm))
               /\ Len(W) = Npts(pm) /\ Len(Positions(pm)) = Npts(pm)
(* orthogonality: the expectation of coordinate m is the centre of mass of factor m *)
Factorizes == LET W == Weights(pm)  P == Positions(pm)
                  CoordFn(m) == [k \in 1..Len(P) |-> P[k][m]]
              IN (Len(pm) > 0 /\ SumSeq(W) # 0) =>
                    \A m \in 1..Len(pm) : /\ ExpectOf(W, CoordFn(m)) = CenterMass(pm[m])
                                          /\ ExpectVarOf(W, CoordFn(m)) = VarOf(pm[m])
(* failure + success = everything; the support is where the weight is *)
PofComplement == LET W == Weights(pm)  P == Positions(pm)  T == SumSeq(W)
                 IN Len(pm) > 0 => \A i \in 1..Len(FuncSeq) :
                      LET fv == [k \in 1..Len(P) |-> EvalF(FuncSeq[i], P[k])]
                      IN PofOf(W, fv) + SuccessOf(W, fv) = T
SupportWeight == LET W == Weights(pm)  S == SupportIdx(W, 0)
                 IN SumSeq([k \in 1..Len(W) |-> IF k \in S THEN W[k] ELSE 0]) = SumSeq(W)

(* ACTION PROPERTIES *)
(* update(vector) leaves the dimensions alone and changes exactly the addressed entries *)
UpdateFootprint ==
  [][last'.op = "upd" =>
       LET E == ParLen(Shape(pm))  old == FlattenAll(pm, vals)  new == FlattenAll(pm', vals')  given == last'.vec
       IN /\ Shape(pm') = Shape(pm) /\ Len(vals') = Len(vals)
          /\ \A i \in 1..Len(new) : new[i] = IF i <= Len(given) THEN given[i] ELSE old[i]
          /\ \A i \in 1..E : new[i] # old[i] => i = last'.a
          /\ \A i \in 1..Len(vals) : vals'[i] # vals[i] => i <= last'.c]_vars
(* a single weight / position assignment changes that entry of the vector and nothing else *)
SetFootprint ==
  [][last'.op \in {"setw", "setx"} =>
       LET sh == Shape(pm)  s == SlotIndex(sh, last'.a, last'.b, IF last'.op = "setw" THEN 1 ELSE 2)
           old == Flatten(pm)  new == Flatten(pm')
       IN /\ Shape(pm') = sh /\ vals' = vals
          /\ \A i \in 1..ParLen(sh) : new[i] = IF i = s THEN last'.c ELSE old[i]]_vars
(* load appends the measures read from the vector in the documented format *)
LoadPost ==
  [][last'.op \in {"load", "append"} =>
       /\ Shape(pm') = Shape(pm) \o last'.sh
       /\ Flatten(pm') = Flatten(pm) \o SubSeq(last'.vec, 1, ParLen(last'.sh))
       /\ vals' = SubSeq(last'.vec, ParLen(last'.sh) + 1, Len(last'.vec))]_vars
(* the setters achieve their target, do not touch weights, other factors or values *)
Untouched(m) == /\ Shape(pm') = Shape(pm) /\ vals' = vals /\ WtsN(pm') = WtsN(pm)
                /\ \A o \in 1..Len(pm) : o # m => pm'[o] = pm[o]
SetterPost ==
  [][/\ last'.op = "cm"  => CenterMass(pm'[last'.a]) = last'.vec /\ Untouched(last'.a)
     /\ last'.op = "rng" => <<SpreadOf(pm'[last'.a]), 1>> = last'.vec /\ Untouched(last'.a)
     /\ last'.op = "var" => VarOf(pm'[last'.a]) = last'.vec /\ Untouched(last'.a)]_vars

-----------------------------------------------------------------------------
(* EMISSION (spec -> code): the catalogues once, then every reachable state with every observable
   the specification defines for it and every enabled action with its successor *)
RatFac(f) == [cm |-> CenterMass(f), rng |-> SpreadOf(f), var |-> VarOf(f), mass |-> Mass(f)]
Obs ==
  LET W == Weights(pm)  P == Positions(pm)  N == Len(W)
      FV(f) == [k \in 1..N |-> EvalF(f, P[k])]
      VV(g) == [k \in 1..N |-> EvalV(g, vals[k])]
  IN [shape |-> Shape(pm), flat |-> Flatten(pm), vals |-> vals, steps |-> steps,
      ws |-> WtsN(pm), xs |-> PosN(pm),
      wts |-> W, pos |-> P, npts |-> N, mass |-> Masses(pm), total |-> SumSeq(W),
      fac |-> [m \in 1..Len(pm) |-> RatFac(pm[m])],
      fn |-> [i \in 1..Len(FuncSeq) |->
                LET fv == FV(FuncSeq[i])
                IN [e |-> ExpectOf(W, fv), v |-> ExpectVarOf(W, fv), pof |-> PofOf(W, fv)]],
      supp |-> [t \in 1..Len(TolSeq) |-> [k \in 1..N |-> IF W[k] > TolSeq[t] THEN 1 ELSE 0]],
      vfn |-> IF Len(vals) # N THEN << >>
              ELSE [i \in 1..Len(VFuncSeq) |-> [pof |-> PofOf(W, VV(VFuncSeq[i]))]],
      vmean |-> IF Len(vals) # N THEN UNDEF ELSE ExpectOf(W, vals)]
Succ == {[act |-> a, shape |-> Shape(Apply(a).pm), flat |-> Flatten(Apply(a).pm), vals |-> Apply(a).vals] : a \in Enabled}

ASSUME PrintT(<<"@@", ToJson([funcs |-> FuncSeq, vfuncs |-> VFuncSeq, tols |-> TolSeq])>>)
Emit == PrintT(<<"@@", ToJson(IF Len(pm) = 0 THEN [empty |-> TRUE, succ |-> Succ]
                                ELSE [obs |-> Obs, succ |-> Succ])>>)
=============================================================================
