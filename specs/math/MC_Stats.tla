----------------------------- MODULE MC_Stats -----------------------------
(* model constants for Stats.tla (the constants of Moments come from MC_Moments)                   *)
(*   *_defs_*  : StatSteps = 0 -- every initial state with Obs2, the post-condition table OpTable2   *)
(*               and (shard 0) the normalisation case table                                         *)
(*   *_facts   : StatSteps = 1 -- the order-statistic transforms as actions, action invariants       *)
(*   *_probe_* : vacuity probes (TLC must report a violation)                                        *)
EXTENDS Stats, MC_Moments
STols == {0, 1, 2}
SMeanTols == << <<1, 2>>, <<1, 1>> >>
(* draws: 0, and multiples of 1/97 (never a cumulative weight fraction c/W with W <= 12) *)
SUs == << <<0, 1>>, <<13, 97>>, <<32, 97>>, <<48, 97>>, <<49, 97>>, <<64, 97>>, <<80, 97>>, <<96, 97>> >>
QMedT2 == {<<-3, 2>>, <<2, 1>>}
TMedT2 == {<<-3, 2>>, <<0, 1>>, <<2, 1>>, <<7, 4>>}
QMadT2 == {<<3, 2>>}
TMadT2 == {<<0, 1>>, <<3, 2>>, <<1, 4>>}
QTrimMeanT2 == {<<-1, 2>>}
TTrimMeanT2 == {<<-1, 2>>, <<0, 1>>, <<3, 1>>}
QTrimVarT2 == {<<1, 2>>}
TTrimVarT2 == {<<0, 1>>, <<1, 2>>, <<4, 1>>}
QTrimStdT2 == {<<2, 1>>}
TTrimStdT2 == {<<1, 4>>, <<2, 1>>}
NV5 == {-1, 0, 1, 2, 3}
NV7 == -3..3
QNormM == {<<1, 2>>, <<3, 1>>, <<-2, 1>>}
TNormM == {<<1, 2>>, <<1, 1>>, <<3, 1>>, <<-2, 1>>, <<7, 4>>}
QZM == {<<5, 2>>, <<-1, 1>>}
TZM == {<<1, 1>>, <<5, 2>>, <<-1, 1>>, <<1, 4>>}
=============================================================================
