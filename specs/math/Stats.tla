-------------------------------- MODULE Stats --------------------------------
(***************************************************************************)
(* C18, second part -- the statistics of mystic.math.measures that         *)
(* Moments.tla does not state: standard_moment / skewness / kurtosis,      *)
(* maximum / minimum / ptp and the ess_ forms with a weight tolerance,     *)
(* support / support_index / expectation / expected_variance with tol=,    *)
(* mean / moment with tol=, norm, weighted_select (scripted draw),         *)
(* tmean / tvariance / tstd over a second trimming catalogue (scalar k,    *)
(* (lo,hi) pairs, cuts that fall inside a point, at a point boundary, and  *)
(* that exclude everything; trimmed and winsorised), the transforms        *)
(* impose_median / _mad / _tmean / _tvariance / _tstd over that catalogue  *)
(* (table OpTable2: target reached, promised observables kept), and the    *)
(* weight normalisations normalize / impose_sum (mass as number with       *)
(* weights of either sign, mass = 'l1','l2','l3', mass = 0 with and        *)
(* without the zsum counterbalance and its zmass scaling) and              *)
(* impose_product(0, zsum, zmass) as a case table (NormCasesOf).           *)
(*                                                                         *)
(* The module EXTENDS Moments: same state (a weighted point set: samples,  *)
(* weights and the ghosts), same Init / Next / Spec, same exact rational   *)
(* arithmetic.  It adds                                                    *)
(*   - DEFINITIONS as operators over the state (below),                    *)
(*   - ACTIONS for the order-statistic transforms, again as post-condition *)
(*     relations (StatsNext: ImposeMedian, ImposeMad, ImposeTMean,         *)
(*     ImposeTVariance; hist logs the call, ghost `pre` / `cur` keep the   *)
(*     light observables) with the action invariants AfterImposeMedian ... *)
(*   - design INVARIANTS: IntFacts on the initial (integer) states,        *)
(*     TrimFacts2 on every reachable state (StatsFacts = both),            *)
(*   - the emitter EmitStats (every initial state with Obs2 evaluated).    *)
(*                                                                         *)
(* Numbers: rationals <<num,den>> as in Moments; <<0,0>> = not specified.  *)
(* A squared standard moment does not fit TLC's 32-bit integers as one     *)
(* fraction; it is emitted in PRODUCT FORM: a record [def, sign, f] whose  *)
(* value is the product of the rationals in f (def = FALSE: undefined,     *)
(* degenerate variance); sign is the sign of the un-squared quantity.      *)
(***************************************************************************)
EXTENDS Moments

CONSTANTS Tols,             \* weight tolerances (integers >= 0): "any weight <= tol is zero"
          MeanTols,         \* tolerances (rationals >= 0) of mean / moment: "any mean <= tol is zero"
          Us,               \* scripted uniform draws u in [0,1) (rationals) for weighted_select
          MedTargets2, MadTargets2, TrimMeanTargets2, TrimVarTargets2, TrimStdTargets2,
          NormVals, NormLens,   \* weight vectors of the normalisation case table (integers, either sign)
          NormMasses,       \* non-zero target sums (rationals, either sign)
          ZMasses,          \* zmass values (rationals # 0)
          StatSteps         \* number of StatsNext calls explored (0: definitions only)

-----------------------------------------------------------------------------
(* STANDARDISED MOMENTS                                                     *)
(* standard_moment(x,w,k) = moment(x,w,k) / std(x,w)^k; skewness: k = 3,    *)
(* kurtosis: k = 4 (not the excess).  Premise: variance # 0.  Squared:      *)
(* moment^2 / variance^k, as the factor list <<m, m, 1/v, ..., 1/v>>.       *)
Sign(q) == IF q[1] > 0 THEN 1 ELSE IF q[1] < 0 THEN -1 ELSE 0
PF(sign, factors) == [def |-> TRUE, sign |-> sign, f |-> factors]
PFUndef == [def |-> FALSE, sign |-> 0, f |-> << >>]
Rep(q, n) == [i \in 1..n |-> q]
StdMomentSq(s, w, k) ==
  LET v == Variance(s, w)
      m == CMoment(s, w, k)
  IN IF v = Zero THEN PFUndef ELSE PF(Sign(m), <<m, m>> \o Rep(QInv(v), k))
StdOrders == 0..4

(* EXTREMA of a function over all points, and over the points whose weight exceeds tol *)
FVals(f, s, I) == {Fn(f, s[i][1]) : i \in I}
FMax(f, s) == Max(FVals(f, s, 1..Len(s)))
FMin(f, s) == Min(FVals(f, s, 1..Len(s)))
SupportTol(w, t) == {i \in 1..Len(w) : QLt(QI(t), w[i])}
(* <<min, max, ptp, 1>> over the support, <<0,0,0,0>> if the support is empty (not defined) *)
EssTol(f, s, w, t) == LET I == SupportTol(w, t)
                      IN IF I = {} THEN <<0, 0, 0, 0>>
                         ELSE <<Min(FVals(f, s, I)), Max(FVals(f, s, I)), Max(FVals(f, s, I)) - Min(FVals(f, s, I)), 1>>
(* expectation / expected variance with tol: weights with |w| <= tol count as zero *)
CutW(w, t) == TLCEval([i \in 1..Len(w) |-> IF QLt(QI(t), QAbs(w[i])) THEN w[i] ELSE Zero])
ExpTol(f, s, w, t) == LET w2 == CutW(w, t) IN IF Total(w2) = Zero THEN Undef ELSE Mean(FImage(f, s), w2)
ExpVarTol(f, s, w, t) == LET w2 == CutW(w, t) IN IF Total(w2) = Zero THEN Undef ELSE CMoment(FImage(f, s), w2, 2)
(* mean / moment with tol: "any mean <= tol is zero".  The sentence can be read as |mean| <= tol or as     *)
(* mean <= tol; the two readings differ for mean < -tol, which is therefore left unspecified               *)
Snap(m, t) == IF QLe(QAbs(m), t) THEN Zero ELSE IF QLt(m, Zero) THEN Undef ELSE m
MeanTol(s, w, t) == Snap(Mean(s, w), t)
MomentTol(s, w, k, t) == Snap(CMoment(s, w, k), t)
(* norm(x) = mean(x), unweighted *)
Norm(w) == Mean(w, Ones(Len(w)))

(* WEIGHTED SELECTION: with a uniform draw u in [0,1) the selected position is the first one whose      *)
(* cumulative weight fraction exceeds u (so position i is selected with probability w_i / total, a      *)
(* position without weight never); `mass` only rescales both sides                                      *)
RECURSIVE Cum(_, _)
Cum(w, i) == IF i = 0 THEN Zero ELSE QAdd(Cum(w, i - 1), w[i])
Select(w, u) == Min({i \in 1..Len(w) : QLt(QMul(u, Total(w)), Cum(w, i))})

-----------------------------------------------------------------------------
(* SECOND TRIMMING CATALOGUE <<lo, hi>> percent; lo = hi is passed as the scalar k *)
K2 == << <<10, 10>>, <<0, 25>>, <<40, 10>>, <<50, 0>>, <<30, 30>>, <<50, 50>>, <<0, 100>> >>
(* trimmed: defined iff some weight is left *)
TrimDefined(tw) == Total(tw) # Zero
TMeanQ(s, tw) == IF TrimDefined(tw) THEN Mean(s, tw) ELSE Undef
TVarQ(s, tw) == IF TrimDefined(tw) THEN Variance(s, tw) ELSE Undef
(* winsorised: defined iff less than everything is cut *)
WinsDefined(k) == K2[k][1] + K2[k][2] < 100

-----------------------------------------------------------------------------
(* OBSERVABLES of the second part *)
Obs2(s, w) ==
  LET ord == Ord(s)
      cum == CumSeq(w, ord, Len(s))
      tw == TLCEval([k \in 1..Len(K2) |-> TrimWq(ord, cum, K2[k][1], K2[k][2])])
      ww == TLCEval([k \in 1..Len(K2) |-> IF WinsDefined(k) THEN WinsWq(w, ord, cum, K2[k][1], K2[k][2]) ELSE tw[k]])
  IN
  [mean |-> Mean(s, w), var |-> Variance(s, w), spread |-> Spread(s), total |-> Total(w),
   median |-> Median(s, w), mad |-> Mad(s, w),
   sm |-> [k \in StdOrders |-> StdMomentSq(s, w, k)],
   fmax |-> [f \in FnNames |-> FMax(f, s)], fmin |-> [f \in FnNames |-> FMin(f, s)],
   ess |-> [t \in Tols |-> [f \in FnNames |-> EssTol(f, s, w, t)]],
   supp |-> [t \in Tols |-> SupportTol(w, t)],
   exp |-> [t \in Tols |-> [f \in FnNames |-> ExpTol(f, s, w, t)]],
   expvar |-> [t \in Tols |-> [f \in FnNames |-> ExpVarTol(f, s, w, t)]],
   meantol |-> [j \in 1..Len(MeanTols) |-> MeanTol(s, w, MeanTols[j])],
   momtol |-> [j \in 1..Len(MeanTols) |-> [k \in 2..3 |-> MomentTol(s, w, k, MeanTols[j])]],
   norm |-> Norm(w), snorm |-> Norm(s),
   select |-> [j \in 1..Len(Us) |-> Select(w, Us[j])],
   tmean |-> [k \in 1..Len(K2) |-> TMeanQ(s, tw[k])],
   tvar |-> [k \in 1..Len(K2) |-> TVarQ(s, tw[k])],
   wmean |-> [k \in 1..Len(K2) |-> IF WinsDefined(k) THEN Mean(s, ww[k]) ELSE Undef],
   wvar |-> [k \in 1..Len(K2) |-> IF WinsDefined(k) THEN Variance(s, ww[k]) ELSE Undef]]

-----------------------------------------------------------------------------
(* POST-CONDITIONS of the order-statistic transforms (rows as in OpTable of Moments; k indexes K2). *)
(* impose_median: 'range-preserving' and 'mad-preserving'; impose_mad: 'median-preserving';        *)
(* impose_tmean: 'range-preserving' and 'tvariance-preserving'; impose_tvariance / impose_tstd:     *)
(* 'tmean-preserving' -- with clip=True the winsorised quantities take the place of the trimmed.    *)
KDef == {k \in 1..Len(K2) : K2[k][1] + K2[k][2] < 100}
OpTable2 ==
  {Row("impose_median", 0, FALSE, 0, R("median", 0), {R("spread", 0), R("mad", 0)}, None, FALSE, MedTargets2),
   Row("impose_mad", 0, FALSE, 0, R("mad", 0), {R("median", 0)}, R("mad", 0), FALSE, MadTargets2)}
  \cup {Row("impose_tmean", k, FALSE, 0, R("tmean", k), {R("tvar", k), R("spread", 0)}, None, FALSE, TrimMeanTargets2)
          : k \in KDef}
  \cup {Row("impose_tvariance", k, FALSE, 0, R("tvar", k), {R("tmean", k)}, R("tvar", k), FALSE, TrimVarTargets2)
          : k \in KDef}
  \cup {Row("impose_tstd", k, FALSE, 0, R("tvar", k), {R("tmean", k)}, R("tvar", k), TRUE, TrimStdTargets2)
          : k \in KDef}
  \cup {Row("impose_tmean", k, TRUE, 0, R("wmean", k), {R("wvar", k), R("spread", 0)}, None, FALSE, TrimMeanTargets2)
          : k \in KDef}
  \cup {Row("impose_tvariance", k, TRUE, 0, R("wvar", k), {R("wmean", k)}, R("wvar", k), FALSE, TrimVarTargets2)
          : k \in KDef}
  \cup {Row("impose_tstd", k, TRUE, 0, R("wvar", k), {R("wmean", k)}, R("wvar", k), TRUE, TrimStdTargets2)
          : k \in KDef}

-----------------------------------------------------------------------------
(* ACTIONS: the order-statistic transforms as post-condition relations on the state.               *)
(* Light observables of this part: median, MAD, and trimmed / winsorised mean and variance at one   *)
(* catalogue entry.  A candidate successor is an affine image of the point set (either orientation) *)
(* and is a successor iff it satisfies the relation.                                                *)
TrimLight(s, w, k, clip) ==
  LET ord == Ord(s)
      cum == CumSeq(w, ord, Len(s))
      tw == IF clip THEN WinsWq(w, ord, cum, K2[k][1], K2[k][2]) ELSE TrimWq(ord, cum, K2[k][1], K2[k][2])
  IN [tm |-> Mean(s, tw), tv |-> Variance(s, tw)]
StatCall(fn, t, k, clip) == [fn |-> fn, t |-> t, sel |-> k * 2 + (IF clip THEN 1 ELSE 0)]
StatStep(fn, t, k, clip, s2) ==
  /\ samples' = s2 /\ weights' = weights
  /\ cur' = Light(s2, weights) /\ pre' = cur
  /\ hist' = Append(hist, StatCall(fn, t, k, clip))
  /\ det' = det \cap {"total", "zeros"}
  /\ UNCHANGED init
MedianDefined == Median(samples, weights) # Undef
(* ImposeMedian(t): median' = t; spread and MAD as before *)
ImposeMedian(t) ==
  /\ MedianDefined
  /\ \E a \in Signed({One}) :
       LET s2 == Affine(a, Median(samples, weights), t) IN
         /\ Median(s2, weights) = t
         /\ Spread(s2) = Spread(samples)
         /\ Mad(s2, weights) = Mad(samples, weights)
         /\ StatStep("impose_median", t, 0, FALSE, s2)
(* ImposeMad(t): defined for MAD # 0; MAD' = t, median as before *)
ImposeMad(t) ==
  /\ MedianDefined /\ Mad(samples, weights) # Zero
  /\ \E a \in Signed(SeqScales) :
       LET m == Median(samples, weights)
           s2 == Affine(a, m, m) IN
         /\ Mad(s2, weights) = t
         /\ Median(s2, weights) = m
         /\ StatStep("impose_mad", t, 0, FALSE, s2)
(* ImposeTMean(k, clip, t): trimmed (winsorised) mean' = t; trimmed variance and spread as before *)
ImposeTMean(k, clip, t) ==
  LET l == TrimLight(samples, weights, k, clip) IN
  \E a \in Signed({One}) :
       LET s2 == Affine(a, l.tm, t)
           l2 == TrimLight(s2, weights, k, clip) IN
         /\ l2.tm = t /\ l2.tv = l.tv /\ Spread(s2) = Spread(samples)
         /\ StatStep("impose_tmean", t, k, clip, s2)
(* ImposeTVariance(k, clip, v): defined for trimmed variance # 0; trimmed variance' = v, trimmed mean as before *)
ImposeTVariance(k, clip, v) ==
  LET l == TrimLight(samples, weights, k, clip) IN
  /\ l.tv # Zero
  /\ \E a \in Signed(SeqScales) :
       LET s2 == Affine(a, l.tm, l.tm)
           l2 == TrimLight(s2, weights, k, clip) IN
         /\ l2.tv = v /\ l2.tm = l.tm
         /\ StatStep("impose_tvariance", v, k, clip, s2)
StatsNext ==
  /\ Len(hist) < StatSteps
  /\ \/ \E t \in SeqMeans : ImposeMedian(t)
     \/ \E a \in SeqScales : MedianDefined /\ ImposeMad(QMul(a, Mad(samples, weights)))
     \/ \E k \in KDef, clip \in BOOLEAN, t \in SeqMeans : ImposeTMean(k, clip, t)
     \/ \E k \in KDef, clip \in BOOLEAN, a \in SeqScales :
          ImposeTVariance(k, clip, QMul(QMul(a, a), TrimLight(samples, weights, k, clip).tv))
StatsSpec == Init /\ [][StatsNext]_vars

-----------------------------------------------------------------------------
(* INVARIANTS *)
StatLast == hist[Len(hist)]
LastK == StatLast.sel \div 2
LastClip == StatLast.sel % 2 = 1
AfterImposeMedian == (hist # << >> /\ StatLast.fn = "impose_median") =>
                        Median(samples, weights) = StatLast.t /\ cur.spread = pre.spread
AfterImposeMad == (hist # << >> /\ StatLast.fn = "impose_mad") => Mad(samples, weights) = StatLast.t
AfterImposeTMean == (hist # << >> /\ StatLast.fn = "impose_tmean") =>
                        TrimLight(samples, weights, LastK, LastClip).tm = StatLast.t /\ cur.spread = pre.spread
AfterImposeTVariance == (hist # << >> /\ StatLast.fn = "impose_tvariance") =>
                        TrimLight(samples, weights, LastK, LastClip).tv = StatLast.t
(* none of the order-statistic transforms touches the weights *)
WeightsUntouched == hist # << >> => (cur.total = pre.total /\ cur.zeros = pre.zeros)
(* facts about the definitions.  IntFacts: on the initial (integer-valued) states; TrimFacts2: on every   *)
(* reachable state                                                                                         *)
IntFacts ==
  LET v == Variance(samples, weights)
      m4 == CMoment(samples, weights, 4)
  IN
  /\ (v # Zero => QLe(One, QDiv(m4, QMul(v, v))))            \* kurtosis >= 1 (Jensen), where defined
  /\ (v # Zero => StdMomentSq(samples, weights, 2).f = <<v, v, QInv(v), QInv(v)>>)   \* standard moment 2 is 1
  /\ \A t \in Tols : SupportTol(weights, t) \subseteq SupportIdx(weights)
  /\ SupportTol(weights, 0) = SupportIdx(weights)
  /\ \A f \in FnNames :                                       \* essential extrema lie within the extrema
        /\ FMin(f, samples) <= EssMin(f, samples, weights) /\ EssMax(f, samples, weights) <= FMax(f, samples)
        /\ EssTol(f, samples, weights, 0) = <<EssMin(f, samples, weights), EssMax(f, samples, weights),
                                              EssPtp(f, samples, weights), 1>>
        /\ ExpTol(f, samples, weights, 0) = Expectation(f, samples, weights)
  /\ \A j \in 1..Len(Us) :                                    \* a position without weight is never selected
        weights[Select(weights, Us[j])] # Zero
TrimFacts2 ==
  LET ord == Ord(samples)
      cum == CumSeq(weights, ord, N)
      lo == QMin(samples)
      hi == QMax(samples)
  IN
  \A k \in 1..Len(K2) :
        LET tw == TrimWq(ord, cum, K2[k][1], K2[k][2]) IN
          /\ QSum(tw) = QMul(Q(IF K2[k][1] + K2[k][2] >= 100 THEN 0 ELSE 100 - K2[k][1] - K2[k][2], 100), cur.total)
          /\ \A i \in 1..N : QLe(Zero, tw[i]) /\ QLe(tw[i], weights[i])
          /\ (TrimDefined(tw) => QLe(lo, Mean(samples, tw)) /\ QLe(Mean(samples, tw), hi))
          /\ (WinsDefined(k) =>
                LET w2 == WinsWq(weights, ord, cum, K2[k][1], K2[k][2]) IN
                  /\ QSum(w2) = cur.total
                  /\ QLe(lo, Mean(samples, w2)) /\ QLe(Mean(samples, w2), hi)
                  /\ \A i \in 1..N : weights[i] = Zero => w2[i] = Zero)     \* no mass is moved onto a point without weight
StatsFacts == TrimFacts2 /\ (hist = << >> => IntFacts)
(* vacuity probes (TLC must violate them) *)
NeverImposeMad == ~(hist # << >> /\ StatLast.fn = "impose_mad")
NeverClippedTVariance == ~(hist # << >> /\ StatLast.fn = "impose_tvariance" /\ LastClip)

-----------------------------------------------------------------------------
(* THE NORMALISATION CASE TABLE (weights only; vectors with entries of either sign)                 *)
(*   sum     normalize(w, mass) / impose_sum(mass, w), mass # 0: the multiple of w whose sum is     *)
(*           mass; defined iff sum(w) # 0                                                           *)
(*   zero    mass = 0 without counterbalance: all zeros                                             *)
(*   zsum    mass = 0, zsum = True: the last member counterbalances the others ("use counterbalance *)
(*           when mass = 0.0"), the others are the L1-normalised members scaled by zmass ("member   *)
(*           scaling when mass = 0.0"); defined iff w # 0; the sum is 0 (NormFactsOf)               *)
(*   lp      mass = 'l1' / 'l2' / 'l3': w / Lp-norm(w); emitted as sign and p-th power of |.|       *)
(*   zprod   impose_product(0, w, zsum = True, zmass): last member 0, the product of the others is  *)
(*           zmass, the others keep their proportions; positive weights only                        *)
NormVecs == UNION {[1..n -> NormVals] : n \in NormLens}     \* (a small set; the table over it is not a constant, see below)
QV(v) == [i \in 1..Len(v) |-> QI(v[i])]
ScaleTo(v, mass) == LET q == QV(v) IN [i \in 1..Len(v) |-> QDiv(QMul(q[i], mass), QSum(q))]
ZSumOf(v, z) == LET q == QV(v)
                    n == Len(v)
                    l1 == L1(q)
                    head == [i \in 1..n |-> IF i < n THEN QDiv(QMul(z, q[i]), l1) ELSE Zero]
                IN [i \in 1..n |-> IF i < n THEN head[i] ELSE QNeg(QSum(head))]
LpPow(v, p) == LET q == QV(v)
                   tot == QSum([i \in 1..Len(v) |-> QPow(QAbs(q[i]), p)])
               IN [i \in 1..Len(v) |-> QDiv(QPow(QAbs(q[i]), p), tot)]
AllZero(v) == \A i \in 1..Len(v) : v[i] = 0
VSum(v) == QSum(QV(v))
NCase(kind, v, mass, z, p, exp) == [kind |-> kind, w |-> v, mass |-> mass, z |-> z, p |-> p, exp |-> exp]
(* (operators with a parameter, so that TLC evaluates the table only where it is used: in shard 0) *)
NormCasesOf(vecs) ==
  {NCase("sum", v, m, Zero, 0, ScaleTo(v, m)) : v \in {u \in vecs : VSum(u) # Zero}, m \in NormMasses}
  \cup {NCase("zero", v, Zero, Zero, 0, [i \in 1..Len(v) |-> Zero]) : v \in {u \in vecs : ~AllZero(u)}}
  \cup {NCase("zsum", v, Zero, z, 0, ZSumOf(v, z)) : v \in {u \in vecs : ~AllZero(u)}, z \in ZMasses}
  \cup {NCase("lp", v, Zero, Zero, p, LpPow(v, p)) : v \in {u \in vecs : ~AllZero(u)}, p \in 1..3}
  \cup {NCase("zprod", v, Zero, z, 0, [i \in 1..Len(v) |-> Zero])
          : v \in {u \in vecs : Len(u) >= 2 /\ \A i \in 1..Len(u) : u[i] > 0}, z \in {y \in ZMasses : QLt(Zero, y)}}
NormFactsOf(cases) ==
  \A c \in cases :
     /\ c.kind = "sum" => QSum(c.exp) = c.mass
     /\ c.kind = "zsum" => QSum(c.exp) = Zero
     /\ c.kind = "lp" => QSum(c.exp) = One

-----------------------------------------------------------------------------
(* EMISSION *)
ASSUME Shard # 0 \/                       \* the case table is checked and emitted by shard 0 only
       LET cases == NormCasesOf(NormVecs) IN
         /\ NormFactsOf(cases)
         /\ PrintT(<<"@@", ToJson([normtable |-> TRUE, norm |-> SetToSeq(cases)])>>)
ASSUME PrintT(<<"@@", ToJson([stats |-> TRUE, ops |-> SetToSeq(OpTable2), ks |-> K2, fns |-> FnTable,
                              tols |-> SetToSeq(Tols), meantols |-> MeanTols, us |-> Us,
                              orders |-> SetToSeq(StdOrders)])>>)
EmitStats == PrintT(<<"@@", ToJson(IF hist = << >>
                                   THEN [s |-> samples, w |-> weights, obs |-> Obs2(samples, weights)]
                                   ELSE [init |-> init, hist |-> hist])>>)
=============================================================================
